(** * CleanWalkStep3: updates of the view, and the drop glue of values, maps and handles. *)
From Coq Require Import NArith Bool List Lia.
From stdpp Require Import base list option.
From RecordUpdate Require Import RecordSet.
From RC Require Import Hdr Machine RunInd Inv.
From RC Require Import Clean CleanFrame CleanStep CleanUFrame CleanU CleanUStep.
From RC Require Import CleanWalk CleanWalkRel CleanWalkChk CleanWalkStep CleanWalkStep2.
Import ListNotations RecordSetNotations.

(** tactics with a solver [tac] for the extra pre-conditions and [rtac] for the updates of the view *)
Ltac relX rtac :=
    cvs;
    first [ eassumption
          | (eapply TX_new; [eassumption|reflexivity|reflexivity|apply noact_nil])
          | (eapply TX_app; eassumption)
          | (left; assumption)
          | (left; match goal with H : _ \/ RJv None _ |- _ => destruct H as [H|[]]; exact H end)
          | rtac ].
Ltac finX tac rtac :=
    unfold ok;
    lazymatch goal with
    | |- xres _ _ (unwinding _ _) => apply xres_unwinding'; finX tac rtac
    | |- xres _ _ (_, OAbort) => exact I
    | |- xres _ _ (_, OFuel) => exact I
    | |- xres _ _ (_, raise _) => apply xres_raise; relX rtac
    | |- xres _ _ (_, _) => apply xres_intro; relX rtac
    | |- xres _ _ (_ (KDropValue _) _) => eapply rec_call_dv; [eassumption | relX rtac | first [(let H := fresh in intros _ H; exact (match H with end)) | tac]]
    | |- xres _ _ (_ _ _) => eapply rec_call; [eassumption | relX rtac | reflexivity | first [xpreW | tac]]
    end.
Ltac res_pairX tac rtac x :=
    let Hr := fresh "Hr" in let m1 := fresh "m" in let r1 := fresh "r" in
    match goal with |- xres ?mu ?s _ => assert (Hr : xres mu s x) by finX tac rtac end;
    destruct x as [m1 r1]; destruct r1; unfold xres in Hr; cbn [fst snd] in Hr.
Ltac mach_pairX rtac x :=
    let Hr := fresh "Hr" in let m1 := fresh "m" in let y1 := fresh "y" in
    match goal with |- xres ?mu ?s _ => assert (Hr : TX mu s x.1) by relX rtac end;
    destruct x as [m1 y1]; cbn [fst snd] in Hr.
Ltac adv1X tac rtac :=
    inner_scrut ltac:(fun x =>
      lazymatch type of x with
      | (machine * outcome)%type => res_pairX tac rtac x
      | option machine =>
        lazymatch x with
        | weak_clone ?w ?m0 =>
          let E := fresh "E" in let m' := fresh "m" in
          destruct x as [m'|] eqn:E;
          [ match goal with |- xres ?mu ?s _ =>
              assert (TX mu s m') by (rewrite (zv_weak_clone _ _ _ E), (dd_weak_clone _ _ _ E); relX rtac) end | ]
        end
      | (machine * _)%type => mach_pairX rtac x
      | _ => destruct x eqn:?
      end); cbv beta iota zeta; cbn [negb andb orb].
Ltac goX tac rtac := cbv beta iota zeta; cbn [negb andb orb]; repeat adv1X tac rtac; finX tac rtac.
Ltac goT := goX fail fail.


Section S3.
  Context (mu : id) (K : conf) (P : prog).
  Context (rec : call -> machine -> machine * outcome).
  Context (Hrec : rec_ok (Pre3 mu) (Post3 mu) rec).
  Implicit Types (m : machine).

  Notation tn m := (mem_id mu (dead m) = true).
  Notation gd m := (mem_id mu (dead m) = false).

  (** ** updates of the view *)
  Lemma TX_clear_cl s (d : list id) h o :
    (mem_id mu d = true \/ RJv s h) -> mem_id mu d = true \/ RJv s (alter (zcl None) o h).
  Proof.
    intros [H|H]; [left; exact H|right]. destruct s as [[[e n] h0]|]; [|destruct H].
    destruct H as (HR & HJ & Hle). split; [|split; [|exact Hle]].
    - eapply R_trans; [exact HR|]. apply R_alter. intros w Hw. cbn.
      split; [reflexivity|]. split; [right; left; reflexivity|]. split; [left; auto|].
      split; [|auto]. destruct (z_box w) eqn:Eb; try (right; right; left; discriminate).
      destruct (zdeadb w) eqn:Ed; [right; right; right; left; reflexivity|].
      right; right; right; right. unfold zdeadb in *. cbn. auto.
    - apply J_alter; [exact HJ|]. intros w Hw. cbn. split; [reflexivity|]. split; [right; left; reflexivity|].
      intros Hm Hd. exact (proj1 HJ o w Hw Hm Hd).
  Qed.
  Lemma TX_vacate s (d : list id) h o j :
    (mem_id mu d = true \/ RJv s h) ->
    mem_id mu d = true \/ RJv s (alter (zslots (<[j := MVacant]>)) o h).
  Proof.
    intros [H|H]; [left; exact H|right]. destruct s as [[[e n] h0]|]; [|destruct H].
    destruct H as (HR & HJ & Hle).
    assert (Hsub : forall w k a s, z_slots (zslots (<[j := MVacant]>) w) !! k = Some (MAction a s) ->
                                   z_slots w !! k = Some (MAction a s)).
    { intros w k a s. cbn. destruct (decide (k = j)) as [->|Hne].
      - intros Hk. apply list_lookup_insert_Some in Hk as [(_ & Hx & _)|(Hx & _)]; [discriminate|congruence].
      - rewrite list_lookup_insert_ne by congruence. auto. }
    split; [|split; [|exact Hle]].
    - eapply R_trans; [exact HR|]. apply R_alter. intros w Hw.
      split; [reflexivity|]. split; [left; reflexivity|]. split; [left; apply Hsub|].
      split; [|auto]. cbn. destruct (z_box w) eqn:Eb; try (right; right; left; discriminate).
      destruct (zdeadb w) eqn:Ed; [right; right; right; left; reflexivity|].
      right; right; right; right. unfold zdeadb in *. cbn. auto.
    - apply J_alter; [exact HJ|]. intros w Hw. split; [reflexivity|]. split; [left; reflexivity|].
      intros Hm Hd. destruct (proj1 HJ o w Hw Hm Hd) as [Hu Hn]. split; [exact Hu|].
      intros Hv k a s Hk. apply Hsub in Hk. exact (Hn Hv k a s Hk).
  Qed.
  Lemma TX_vst_alive s (d : list id) h o v :
    (mem_id mu d = true \/ RJv s h) -> match v with VDropping | VDropped => False | _ => True end ->
    mem_id mu d = true \/ RJv s (alter (zvst v) o h).
  Proof.
    intros [H|H] Hv; [left; exact H|right]. destruct s as [[[e n] h0]|]; [|destruct H].
    destruct H as (HR & HJ & Hle).
    assert (Hd : forall w, zdeadb (zvst v w) = false) by (intros w; unfold zdeadb; cbn; destruct v; tauto).
    split; [|split; [|exact Hle]].
    - eapply R_trans; [exact HR|]. apply R_alter. intros w Hw.
      split; [reflexivity|]. split; [left; reflexivity|]. split; [left; auto|].
      split; [|auto]. cbn. destruct (z_box w) eqn:Eb; try (right; right; left; discriminate).
      right; right; right; right. split; [reflexivity|apply Hd].
    - apply J_alter; [exact HJ|]. intros w Hw. split; [reflexivity|]. split; [left; reflexivity|].
      intros _ Hdd. rewrite Hd in Hdd. discriminate.
  Qed.
  Lemma TX_zbox' s (d : list id) h b o :
    (mem_id mu d = true \/ RJv s h) -> b <> BNotYet ->
    (mem_id mu d = false -> forall e n h0 w, s = Some (e, n, h0) -> h !! o = Some w ->
       z_box w <> BNotYet \/ e = Some o \/ n <= o) ->
    mem_id mu d = true \/ RJv s (alter (zbox b) o h).
  Proof.
    intros [H|H] Hb Hc; [left; exact H|]. destruct (mem_id mu d) eqn:Hd; [left; reflexivity|right].
    destruct s as [[[e n] h0]|]; [|destruct H]. destruct H as (HR & HJ & Hle).
    split; [|split; [apply J_zbox, HJ|exact Hle]].
    eapply R_trans; [exact HR|]. apply R_alter. intros w Hw.
    split; [reflexivity|]. split; [left; reflexivity|]. split; [left; auto|]. split; [|intros _; exact Hb].
    destruct (Hc eq_refl e n h0 w eq_refl Hw) as [H|[H|H]]; auto.
  Qed.

  Lemma unwinding_inv (k : machine -> machine * outcome) m :
    okr (unwinding k m).2 = true ->
    okr (k (m <| panicking := true |>)).2 = true /\
    zv (unwinding k m).1 = zv (k (m <| panicking := true |>)).1 /\
    dead (unwinding k m).1 = dead (k (m <| panicking := true |>)).1.
  Proof.
    unfold unwinding. destruct (k (m <| panicking := true |>)) as [m1 r1]. cbn [fst snd].
    destruct r1, (panicking m); cbn; intros H; try discriminate; auto.
  Qed.

  Lemma zv_get_eq m o x w : get m o = Some x -> zv m !! o = Some w -> w = zview_obj x.
  Proof. intros Hx Hw. rewrite (zv_lookup _ _ _ Hx) in Hw. congruence. Qed.

  (** *** the SlotMap's drop *)
  Lemma vac_sub j (l : list mslot) k a s :
    <[j := MVacant]> l !! k = Some (MAction a s) -> k <> j /\ l !! k = Some (MAction a s).
  Proof.
    intros Hk. apply list_lookup_insert_Some in Hk as [(_ & Hx & _)|(Hx & Hk)]; [discriminate|auto].
  Qed.

  Lemma dms_core o j m m1 m2 m2' x sl :
    gd m -> J (zv m) -> zunl (zv m) o -> o < length (zv m) ->
    get m o = Some x -> o_mslots x !! j = Some sl ->
    zv m1 = alter (zslots (<[j := MVacant]>)) o (zv m) ->
    (tn m2 \/ (R None (length (zv m)) (zv m1) (zv m2) /\ J (zv m2))) ->
    (sl = MVacant -> zv m2 = zv m1) ->
    zv m2' = zv m2 -> dead m2' = dead m2 ->
    okr (rec (KDropMapSlots o (S j)) m2').2 = true ->
    let m3 := (rec (KDropMapSlots o (S j)) m2').1 in
    tn m3 \/ (R None (length (zv m)) (zv m) (zv m3) /\ J (zv m3) /\ xPost (KDropMapSlots o j) m m3).
  Proof.
    intros Hg HJ Hu Hlt Ex Ej E1 H2 Hq Ez Ed Hr m3.
    assert (Hw : zv m !! o = Some (zview_obj x)) by (apply zv_lookup, Ex).
    assert (HR1 : R None (length (zv m)) (zv m) (zv m1)).
    { destruct (TX_vacate (Some (None, length (zv m), zv m)) [] (zv m) o j) as [Hf|(HR & _)];
        [right; split; [apply R_refl|split; [exact HJ|lia]]|discriminate|]. rewrite E1. exact HR. }
    assert (Hu1 : zunl (zv m1) o) by (apply (zunl_mono _ _ _ _ _ HR1 Hlt Hu)).
    destruct H2 as [H2|[HR2 HJ2]].
    { left. apply (rec_taint mu rec Hrec); [rewrite Ed; exact H2|exact Hr]. }
    destruct (mem_id mu (dead m2)) eqn:G2.
    { left. apply (rec_taint mu rec Hrec); [rewrite Ed; exact G2|exact Hr]. }
    assert (Hu2 : zunl (zv m2) o) by (apply (zunl_mono _ _ _ _ _ HR2 Hlt Hu1)).
    assert (Hlen2 : length (zv m) <= length (zv m2)).
    { pose proof (r_len _ _ _ _ HR1). pose proof (r_len _ _ _ _ HR2). lia. }
    destruct (rec_good mu rec Hrec (KDropMapSlots o (S j)) m2') as [HT|(HR3 & HJ3 & Hq3 & Ha3)];
      [rewrite Ed; exact G2|rewrite Ez; exact HJ2|cbn [xPre]; rewrite Ez; split; [exact Hu2|lia]|exact Hr|left; exact HT|].
    fold m3 in HR3, HJ3, Hq3, Ha3. right. cbn [ex3] in HR3. rewrite Ez in HR3.
    assert (HR13 : R None (length (zv m)) (zv m1) (zv m3)).
    { eapply R_trans; [exact HR2|]. apply (R_weaken _ _ _ _ _ HR3). exact Hlen2. }
    split; [eapply R_trans; [exact HR1|exact HR13]|]. split; [exact HJ3|]. split.
    - intros w Hw' Hm Hna q Hne. rewrite Hw in Hw'. injection Hw' as <-. cbn in Hna.
      destruct sl as [|a s]; [|exfalso; exact (Hna j a s Ej)].
      assert (Hw1 : zv m1 !! o = Some (zslots (<[j := MVacant]>) (zview_obj x))).
      { rewrite E1, list_lookup_alter, Hw. reflexivity. }
      unfold quiet in Hq3. rewrite Ez, (Hq eq_refl) in Hq3.
      rewrite (Hq3 _ Hw1 Hm); [|intros k a s Hk; cbn in Hk; apply vac_sub in Hk as [_ Hk]; exact (Hna k a s Hk)|exact Hne].
      rewrite E1, list_lookup_alter_ne by congruence. reflexivity.
    - intros w' k a s Hw' Hk. pose proof (Ha3 w' k a s Hw' Hk) as Hlt'.
      destruct (decide (k = j)) as [->|Hne]; [|lia]. exfalso.
      destruct (r_ku _ _ _ _ HR13 o Hlt Hu1 w' j a s Hw' Hk) as (w1 & Hw1 & Hs1).
      rewrite E1, list_lookup_alter, Hw in Hw1. injection Hw1 as <-. cbn in Hs1.
      apply vac_sub in Hs1 as [Hs1 _]. congruence.
  Qed.

  Lemma xPost_zv c m m' m'' : zv m'' = zv m' -> xPost c m m' -> xPost c m m''.
  Proof. intros E. destruct c; cbn [xPost]; unfold quiet; try rewrite E; auto. Qed.
  Lemma post3_transfer c m m' m'' r r' :
    zv m'' = zv m' -> dead m'' = dead m' -> (okr r' = true -> okr r = true) ->
    Post3 mu c m m' r -> Post3 mu c m m'' r'.
  Proof.
    intros Ez Ed Hr HP Hr'. destruct (HP (Hr Hr')) as [H|(Hg & HR & HJ & Hx)]; [left; rewrite Ed; exact H|right].
    rewrite Ez. split; [exact Hg|]. split; [exact HR|]. split; [exact HJ|]. eapply xPost_zv; [exact Ez|exact Hx].
  Qed.
  Lemma post3_unwinding c m (k : machine -> machine * outcome) m2 :
    Post3 mu c m (k (m2 <| panicking := true |>)).1 (k (m2 <| panicking := true |>)).2 ->
    Post3 mu c m (unwinding k m2).1 (unwinding k m2).2.
  Proof.
    intros HP Hr. destruct (unwinding_inv k m2 Hr) as (Hr' & Ez & Ed).
    exact (post3_transfer c m _ _ _ _ Ez Ed (fun _ => Hr') HP Hr).
  Qed.

  Lemma W_step_drop_map_slots o j m :
    Pre3 mu (KDropMapSlots o j) m ->
    Post3 mu (KDropMapSlots o j) m (step_drop_map_slots rec o j m).1 (step_drop_map_slots rec o j m).2.
  Proof.
    intros HP. destruct (mem_id mu (dead m)) eqn:Hg; [apply taint_post; [apply tok_step_drop_map_slots; exact Hrec|exact Hg]|].
    destruct HP as [HP|(HJ & Hu & Hlt)]; [congruence|]. unfold step_drop_map_slots.
    destruct (get m o) as [x|] eqn:Ex.
    2: { exfalso. apply lookup_lt_is_Some in Hlt as [w Hw]. destruct (zv_lookup_inv _ _ _ Hw) as (x & Hx & _). congruence. }
    destruct (o_mslots x !! j) as [sl|] eqn:Ej.
    2: { intros _. right. cbn [fst snd]. split; [exact Hg|]. split; [apply R_refl|]. split; [exact HJ|]. split.
         - intros w _ _ _ q _. reflexivity.
         - intros w' k a s Hw' Hk. rewrite (zv_get_eq _ _ _ _ Ex Hw') in Hk. cbn in Hk.
           apply lookup_lt_Some in Hk. apply lookup_ge_None_1 in Ej. lia. }
    cbv zeta. set (m1 := upd o (fun x0 => x0 <| o_mslots ::= <[j := MVacant]> |>) m).
    assert (E1 : zv m1 = alter (zslots (<[j := MVacant]>)) o (zv m)) by (apply zv_upd_alter; intros; reflexivity).
    assert (D1 : dead m1 = dead m) by reflexivity.
    assert (H1 : TX mu (Some (None, length (zv m), zv m1)) m1).
    { right. split; [apply R_refl|]. split; [|rewrite E1, alter_length; lia].
      destruct (TX_vacate (Some (None, length (zv m), zv m)) [] (zv m) o j) as [Hf|(_ & HJ1 & _)];
        [right; split; [apply R_refl|split; [exact HJ|lia]]|discriminate|]. rewrite E1. exact HJ1. }
    clearbody m1.
    assert (Hcore : forall m2 m2', (tn m2 \/ (R None (length (zv m)) (zv m1) (zv m2) /\ J (zv m2))) ->
              (sl = MVacant -> zv m2 = zv m1) -> zv m2' = zv m2 -> dead m2' = dead m2 ->
              Post3 mu (KDropMapSlots o j) m (rec (KDropMapSlots o (S j)) m2').1 (rec (KDropMapSlots o (S j)) m2').2).
    { intros m2 m2' H2 Hq Ez Ed Hr.
      destruct (dms_core o j m m1 m2 m2' x sl Hg HJ Hu Hlt Ex Ej E1 H2 Hq Ez Ed Hr) as [HT|(A & B & C)];
        [left; exact HT|right; auto]. }
    destruct sl as [|a s].
    - apply (Hcore m1 m1); auto. right. destruct H1 as [H1|(H1 & H1' & _)]; [congruence|auto].
    - assert (Hr2 : xres mu (Some (None, length (zv m), zv m1)) (rec (KCleanRun o a s) m1))
        by (eapply rec_call; [exact Hrec|exact H1|reflexivity|intros _ _; exact I]).
      destruct (rec (KCleanRun o a s) m1) as [m2 r2]. unfold xres in Hr2. cbn [fst snd] in Hr2.
      assert (H2 : okr r2 = true -> tn m2 \/ (R None (length (zv m)) (zv m1) (zv m2) /\ J (zv m2))).
      { intros Hr. destruct r2; try discriminate; (destruct Hr2 as [Hr2|(A & B & _)]; [left; exact Hr2|right; auto]). }
      destruct r2.
      + apply (Hcore m2 m2); auto. discriminate.
      + apply post3_unwinding. apply (Hcore m2); auto. discriminate.
      + intros Hr; discriminate.
      + intros Hr; discriminate.
  Qed.

  (** *** dropping a value *)
  Lemma TX_vst_ex s (d : list id) h o v n h0 w0 :
    s = Some (Some o, n, h0) -> h0 !! o = Some w0 -> z_ismap w0 = false ->
    (mem_id mu d = true \/ RJv s h) -> mem_id mu d = true \/ RJv s (alter (zvst v) o h).
  Proof.
    intros -> Hw0 Hm0 [H|H]; [left; exact H|right]. destruct H as (HR & HJ & Hle).
    split; [|split; [|exact Hle]].
    - eapply R_trans; [exact HR|]. apply R_alter. intros w Hw.
      split; [reflexivity|]. split; [left; reflexivity|]. split; [left; auto|]. split; [left; reflexivity|auto].
    - apply J_alter; [exact HJ|]. intros w Hw. split; [reflexivity|]. split; [left; reflexivity|].
      intros Hm. destruct (r_ism _ _ _ _ HR o w0 Hw0) as (w' & Hw' & Ew'). congruence.
  Qed.

  Lemma W_step_drop_value o m :
    Pre3 mu (KDropValue o) m ->
    Post3 mu (KDropValue o) m (step_drop_value K P rec o m).1 (step_drop_value K P rec o m).2.
  Proof.
    intros HP. destruct (mem_id mu (dead m)) eqn:Hg; [apply taint_post; [apply tok_step_drop_value; exact Hrec|exact Hg]|].
    destruct HP as [HP|(HJ & Hx)]; [congruence|]. cbn [xPre] in Hx.
    pose proof (TX_self mu m (Some o) (length (zv m)) Hg HJ (le_n _)) as H0.
    unfold step_drop_value.
    destruct (get m o) as [x|] eqn:Ex.
    2: { apply post_of_xres; [exact Hg|goT|]. intros _ _ _ w _ _ _ q _. cbn [fst]. cvs. reflexivity. }
    assert (Hw : zv m !! o = Some (zview_obj x)) by (apply zv_lookup, Ex).
    assert (Hbad : forall b, Post3 mu (KDropValue o) m (emit_bad b o m, ONormal).1 (emit_bad b o m, ONormal).2).
    { intros b. apply post_of_xres; [exact Hg|goT|]. intros _ _ _ w _ _ _ q _. cbn [fst]. cvs. reflexivity. }
    destruct (o_ismap x) eqn:Em.
    - (* a map *)
      assert (Hu : zunl (zv m) o) by (apply (Hx _ Hw); exact Em).
      assert (Hlt : o < length (zv m)) by (eapply lookup_lt_Some, Hw).
      assert (HB : forall Y,
                Y = (let m1 := upd o (fun x => x <| o_vst := VDropping |>) m in
                     let '(m2, r) := rec (KDropMapSlots o 0) m1 in
                     (upd o (fun x => x <| o_vst := VDropped |>) m2, r)) ->
                Post3 mu (KDropValue o) m Y.1 Y.2).
      { intros Y ->. cbv zeta.
        set (m1 := upd o (fun x => x <| o_vst := VDropping |>) m).
        assert (E1 : zv m1 = alter (zvst VDropping) o (zv m)) by (apply zv_upd_alter; intros; reflexivity).
        assert (G1 : gd m1) by exact Hg. clearbody m1.
        assert (HR1 : R (Some o) (length (zv m)) (zv m) (zv m1)).
        { rewrite E1. apply R_alter. intros w _. split; [reflexivity|]. split; [left; reflexivity|].
          split; [left; auto|]. split; [left; reflexivity|auto]. }
        assert (HJ1 : J (zv m1)).
        { rewrite E1. apply J_alter; [exact HJ|]. intros w Hw'. split; [reflexivity|]. split; [left; reflexivity|].
          intros _ _. split; [exact Hu|discriminate]. }
        assert (Hu1 : zunl (zv m1) o) by (rewrite E1; apply zunl_alter; [intros; left; reflexivity|exact Hu]).
        assert (Hl1 : length (zv m1) = length (zv m)) by (rewrite E1; apply alter_length).
        pose proof (rec_good mu rec Hrec (KDropMapSlots o 0) m1 G1 HJ1) as HG. cbn [xPre ex3 xPost] in HG.
        destruct (rec (KDropMapSlots o 0) m1) as [m2 r2]. cbn [fst snd] in *. intros Hr.
        assert (Hlt1 : o < length (zv m1)) by (rewrite Hl1; exact Hlt).
        destruct (HG (conj Hu1 Hlt1) Hr) as [HT|(HR2 & HJ2 & Hq2 & Ha2)]; [left; exact HT|].
        destruct (mem_id mu (dead m2)) eqn:G2; [left; exact G2|]. right. split; [exact Hg|].
        set (m3 := upd o (fun x => x <| o_vst := VDropped |>) m2).
        assert (E3 : zv m3 = alter (zvst VDropped) o (zv m2)) by (apply zv_upd_alter; intros; reflexivity).
        rewrite Hl1 in HR2.
        assert (Hu2 : zunl (zv m2) o) by (apply (zunl_mono _ _ _ _ _ HR2); [lia|exact Hu1]).
        split; [|split].
        + eapply R_trans; [exact HR1|]. eapply R_trans; [apply (R_weaken _ _ _ _ _ HR2 (le_n _))|].
          rewrite E3. apply R_alter. intros w _. split; [reflexivity|]. split; [left; reflexivity|].
          split; [left; auto|]. split; [left; reflexivity|auto].
        + rewrite E3. apply J_alter; [exact HJ2|]. intros w Hw'. split; [reflexivity|]. split; [left; reflexivity|].
          intros _ _. split; [exact Hu2|]. intros _ k a s Hk. cbn in Hk. specialize (Ha2 w k a s Hw' Hk). lia.
        + intros w Hw' Hm Hna q Hne. rewrite E3, list_lookup_alter_ne by congruence.
          assert (Hw1 : zv m1 !! o = Some (zvst VDropping w)) by (rewrite E1, list_lookup_alter, Hw'; reflexivity).
          rewrite (Hq2 _ Hw1 Hm Hna q Hne). rewrite E1, list_lookup_alter_ne by congruence. reflexivity. }
      destruct (o_vst x) eqn:Ev; try (apply HB; reflexivity); apply Hbad.
    - (* a node *)
      apply post_of_xres; [exact Hg| |intros _ _ _ w Hw' Hm; rewrite (zv_get_eq _ _ _ _ Ex Hw') in Hm; cbn in Hm; congruence].
      cbn [ex3].
      destruct (o_vst x);
        goX fail ltac:(first
          [ rewrite (zv_upd_alter _ (zvst VDropping)) by (intros; reflexivity)
          | rewrite (zv_upd_alter _ (zvst VDropped)) by (intros; reflexivity) ];
          cvs; eapply (TX_vst_ex _ _ _ _ _ _ _ _ eq_refl Hw); [exact Em|eassumption]).
  Qed.
End S3.
