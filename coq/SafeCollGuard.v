(** * SafeCollGuard: the call-closure theorem.

    When a non-collector activation starts in a state satisfying Buf's precondition [G K A m] and
    [nofuel m] (together: [Q K A c m]), every recursive call it makes happens in a state
    satisfying [Q K A] again.  Formally: guarding the recursive calls by (a decision procedure
    for) [Q K A] does not change the activation ([closure]).

    The proof re-runs Buf's symbolic execution (BufStep.v) on the equation
    [F (guarded A rec) = F rec]: the position hypotheses are [Res K A m mi r] (BufStep) and
    [r <> OFuel -> nofuel mi]; at every call [guarded A rec c E0] the position yields [Q K A c E0]
    and the guard is rewritten away; every other scrutinee occurs identically on both sides. *)
From Coq Require Import NArith Bool List Lia.
From stdpp Require Import base list option sets.
From RecordUpdate Require Import RecordSet.
From RC Require Import Hdr Machine RunInd BufBase BufPass BufStep BufCmd Buf SafeCollQ SafeCollNf.
Import ListNotations RecordSetNotations.
Local Open Scope N_scope.

Definition guarded (K : conf) (Qdec : forall A c m, Decision (Q K A c m)) (A : list id)
    (rec : call -> machine -> machine * outcome) : call -> machine -> machine * outcome :=
  fun c m => if Qdec A c m then rec c m else (m, OFuel).

Lemma guard_pass K Qdec A rec c m : Q K A c m -> guarded K Qdec A rec c m = rec c m.
Proof. intros H. unfold guarded. destruct (Qdec A c m); [reflexivity|contradiction]. Qed.

Lemma unwinding_guard K Qdec A rec c m :
  Q K A c (m <| panicking := true |>) ->
  unwinding (guarded K Qdec A rec c) m = unwinding (rec c) m.
Proof. intros H. unfold unwinding. rewrite (guard_pass _ _ _ _ _ _ H). reflexivity. Qed.

(** the guarded function satisfies the same specifications *)
Lemma guard_rok K Qdec A rec : rok K rec -> rok K (guarded K Qdec A rec).
Proof.
  intros Hrec A' c m HP. unfold guarded. destruct (Qdec A c m); [apply Hrec, HP|].
  cbn [fst snd]. split; [apply frame_refl|]. split; [intros H; contradiction|intros _ H; contradiction].
Qed.
Lemma guard_nfspec K Qdec A rec : nfspec rec -> nfspec (guarded K Qdec A rec).
Proof.
  intros Hrec c m Hm. unfold guarded. destruct (Qdec A c m); [apply Hrec, Hm|].
  cbn [fst snd]. intros H. contradiction.
Qed.

Lemma guard_block K Qdec A rec c m : ~ Q K A c m -> guarded K Qdec A rec c m = (m, OFuel).
Proof. intros H. unfold guarded. destruct (Qdec A c m); [contradiction|reflexivity]. Qed.

(* keeps the leaves' [reflexivity] from unfolding the guard (in this file only) *)
Local Opaque guarded.

(** [Q] at a call made from the current position *)
Lemma Q_of_pos K A m mi r0 c E0 :
  script_level c -> Res K A m mi r0 -> r0 <> OFuel -> mild K mi E0 -> nofuel E0 -> Q K A c E0.
Proof.
  intros Hc HR Hr0 M Hn. split; [|exact Hn].
  destruct (Res_mild _ _ _ _ _ _ HR M) as [_ H]. specialize (H Hr0).
  destruct c; try contradiction; exact H.
Qed.

Ltac q_tac HR := eapply Q_of_pos; [exact I | exact HR | nf_tac | mild_solve | nf_solve].

Ltac gadv_box HR HN K A m mi r0 o X :=
  let H := fresh "HR" in
  let H' := fresh "HN" in
  assert (H : Res K A m (box_alloc K o X) r0)
    by (eapply (Res_box_alloc K A m X r0 o);
        [ first [eassumption|apply frame_refl]
        | first [eassumption|erewrite get_upd_eq by eassumption; reflexivity]
        | first [eassumption|cbn; eassumption]
        | eapply Res_mild; [exact HR | mild_solve]
        | eassumption ]);
  assert (H' : r0 <> OFuel -> nofuel (box_alloc K o X)) by (intros; nf_solve);
  clear HR HN.

(** one step of symbolic execution on the equation: the hypotheses [Res K A m mi r] and
    [r <> OFuel -> nofuel mi] are the current position *)
Ltac gstep Hrec Hnf :=
  match goal with
  | HR : Res ?K ?A ?m ?mi ?r0, HN : ?r0 <> OFuel -> nofuel ?mi
    |- context [match ?X with _ => _ end] =>
    lazymatch X with
    | context [match _ with _ => _ end] => fail
    | _ => idtac
    end;
    first
    [ lazymatch X with
      | context [box_alloc K ?o ?Y] =>
        lazymatch mi with context [box_alloc K o Y] => fail | _ => idtac end;
        gadv_box HR HN K A m mi r0 o Y
      end
    | lazymatch X with
      | new_node ?P ?cls ?E0 =>
        new_obj_facts HR K m E0;
        let H := fresh "HR" in
        let H' := fresh "HN" in
        assert (H : Res K A m (new_node P cls E0).1 r0) by (eapply Res_mild; [exact HR | mild_solve]);
        assert (H' : r0 <> OFuel -> nofuel (new_node P cls E0).1) by (intros; nf_solve);
        clear HR HN;
        let Ho := fresh "Ho" in let Hg := fresh "Hg" in
        pose proof (new_node_id P cls E0) as Ho; pose proof (new_node_get P cls E0) as Hg;
        destruct (new_node P cls E0) as [? ?]; cbn [fst snd] in H, H', Ho, Hg;
        subst; destruct Hg as (? & ? & ?)
      | new_map ?E0 =>
        new_obj_facts HR K m E0;
        let H := fresh "HR" in
        let H' := fresh "HN" in
        assert (H : Res K A m (new_map E0).1 r0) by (eapply Res_mild; [exact HR | mild_solve]);
        assert (H' : r0 <> OFuel -> nofuel (new_map E0).1) by (intros; nf_solve);
        clear HR HN;
        let Ho := fresh "Ho" in let Hg := fresh "Hg" in
        pose proof (new_map_id E0) as Ho; pose proof (new_map_get E0) as Hg;
        destruct (new_map E0) as [? ?]; cbn [fst snd] in H, H', Ho, Hg;
        subst; destruct Hg as (? & ? & ?)
      end
    | let go_unw rc c E0 :=
        let HQ := fresh "HQ" in
        assert (HQ : Q K A c (E0 <| panicking := true |>)) by (q_tac HR);
        rewrite ?(unwinding_guard _ _ _ _ _ _ HQ);
        let H := fresh "HR" in
        let H' := fresh "HN" in
        assert (H : Res K A m (unwinding (rc c) E0).1 (unwinding (rc c) E0).2)
          by (eapply Res_unwind; [exact Hrec | exact I | exact HR | nf_tac | mild_solve]);
        assert (H' : (unwinding (rc c) E0).2 <> OFuel -> nofuel (unwinding (rc c) E0).1)
          by (apply unwinding_nf; [intros; apply Hnf; assumption | nf_solve]);
        clear HR HN HQ; destruct (unwinding (rc c) E0) as [? ?]; cbn [fst snd] in H, H' in
      let go_call rc c E0 :=
        let HQ := fresh "HQ" in
        assert (HQ : Q K A c E0) by (q_tac HR);
        rewrite ?(guard_pass _ _ _ _ _ _ HQ);
        let H := fresh "HR" in
        let H' := fresh "HN" in
        try (let HF := fresh "HF" in
             assert (HF : frame E0 (rc c E0).1)
               by (eapply call_frame; [exact Hrec | exact I | exact HR | nf_tac | mild_solve]));
        assert (H : Res K A m (rc c E0).1 (rc c E0).2)
          by (eapply Res_call; [exact Hrec | exact I | exact HR | nf_tac | mild_solve]);
        assert (H' : (rc c E0).2 <> OFuel -> nofuel (rc c E0).1)
          by (apply Hnf; exact (proj2 HQ));
        clear HR HN HQ; destruct (rc c E0) as [? ?]; cbn [fst snd] in * in
      lazymatch X with
      | unwinding (guarded _ _ _ ?rc ?c) ?E0 => go_unw rc c E0
      | unwinding (?rc ?c) ?E0 => go_unw rc c E0
      | guarded _ _ _ ?rc ?c ?E0 => go_call rc c E0
      | ?rc ?c ?E0 =>
        lazymatch type of Hrec with rok _ ?rc' => constr_eq rc rc' end;
        go_call rc c E0
      end
    | lazymatch X with
      | weak_clone ?w ?E0 =>
        let E := fresh "Ewc" in
        destruct (weak_clone w E0) as [?|] eqn:E;
        [ let H' := fresh "HN" in
          pose proof (fun Hr : r0 <> OFuel => nofuel_weak_clone _ _ _ E ltac:(nf_solve)) as H';
          apply (mild_weak_clone K) in E;
          let H := fresh "HR" in
          match type of E with
          | BufBase.mild _ _ ?m1 =>
            assert (H : Res K A m m1 r0) by (eapply Res_mild; [exact HR | mild_solve])
          end; clear HR HN
        | ]
      end
    | let H := fresh "HR" in
      let H' := fresh "HN" in
      assert (H : Res K A m (X).1 r0) by (eapply Res_mild; [exact HR | mild_solve]);
      assert (H' : r0 <> OFuel -> nofuel (X).1) by (intros; nf_solve);
      clear HR HN; destruct X as [? ?] eqn:?; cbn [fst snd] in H, H'
    | destruct X eqn:? ]
  end.

(** the leaves: both sides are equal up to one guarded tail call *)
Ltac gleaf Hrec Hnf :=
  try match goal with
  | HR : Res ?K ?A ?m ?mi ?r0, HN : ?r0 <> OFuel -> nofuel ?mi
    |- context [box_alloc ?K ?o ?Y] =>
    lazymatch mi with context [box_alloc K o Y] => fail | _ => idtac end;
    gadv_box HR HN K A m mi r0 o Y
  end;
  first
  [ reflexivity
  | match goal with
    | HR : Res ?K ?A ?m ?mi ?r0, HN : ?r0 <> OFuel -> nofuel ?mi
      |- context [unwinding (guarded ?K ?Qd ?A ?rc ?c) ?E0] =>
      rewrite (unwinding_guard K Qd A rc c E0) by (q_tac HR); reflexivity
    | HR : Res ?K ?A ?m ?mi ?r0, HN : ?r0 <> OFuel -> nofuel ?mi
      |- context [guarded ?K ?Qd ?A ?rc ?c ?E0] =>
      rewrite (guard_pass K Qd A rc c E0) by (q_tac HR); reflexivity
    end ].

Ltac grun Hrec Hnf :=
  repeat (progress (cbv beta iota) || gstep Hrec Hnf); try (gleaf Hrec Hnf).

Ltac gstart HQ :=
  let HG := fresh "HG" in
  let Hm := fresh "Hm" in
  destruct HQ as [HG Hm];
  match type of Hm with
  | nofuel ?m =>
    match type of HG with
    | PreA ?K ?A _ _ =>
      let HR := fresh "HR" in
      let HN := fresh "HN" in
      assert (HR : Res K A m m ONormal) by (apply Res_start; exact HG);
      assert (HN : ONormal <> OFuel -> nofuel m) by (intros _; exact Hm)
    end
  end.

Section Guard.
  Context (K : conf) (P : prog).
  Context (Qdec : forall A c m, Decision (Q K A c m)).

  Section Calls.
  Context (A : list id) (rec : call -> machine -> machine * outcome).
  Hypothesis Hrec : rok K rec.
  Hypothesis Hnf : nfspec rec.
  Notation grec := (guarded K Qdec A rec).

  Lemma gc_step_script self cs m :
    Q K A (KScript self cs) m -> step_script grec self cs m = step_script rec self cs m.
  Proof. intros HQ. gstart HQ. unfold step_script. grun Hrec Hnf. Qed.

  Lemma gc_step_store r v m :
    Q K A (KStore r v) m -> step_store grec r v m = step_store rec r v m.
  Proof. intros HQ. gstart HQ. unfold step_store. grun Hrec Hnf. Qed.

  Lemma gc_step_drop_value o m :
    Q K A (KDropValue o) m -> step_drop_value K P grec o m = step_drop_value K P rec o m.
  Proof. intros HQ. gstart HQ. unfold step_drop_value. grun Hrec Hnf. Qed.

  (** as in [BufStep.ok_step_drop_cc]: [add_to_list] needs the object to have (had) a box *)
  Lemma gc_step_drop_cc o m :
    Q K A (KDropCc o) m -> step_drop_cc K P grec o m = step_drop_cc K P rec o m.
  Proof.
    intros HQ. gstart HQ. unfold step_drop_cc.
    destruct (get m o) as [x|] eqn:Ex; [|reflexivity].
    set (m1 := match o_box x with BAlloc => m | _ => emit_bad UseAfterFree o m end).
    assert (M1 : mild K m m1) by (subst m1; destruct (o_box x); mild_solve).
    assert (HL : live_at o m1).
    { subst m1. destruct (o_box x) eqn:Eb.
      - left. apply dirty_emit_bad. reflexivity.
      - right. exists x. split; [exact Ex|congruence].
      - left. apply dirty_emit_bad. reflexivity. }
    assert (HR1 : Res K A m1 m1 ONormal).
    { apply Res_start. eapply mild_G; [exact M1|exact HG]. }
    assert (HN1 : ONormal <> OFuel -> nofuel m1).
    { intros _. subst m1. destruct (o_box x); nf_solve. }
    clear HR HN. clearbody m1.
    grun Hrec Hnf.
  Qed.

  Lemma gc_step_drop_fields o j m :
    Q K A (KDropFields o j) m -> step_drop_fields grec o j m = step_drop_fields rec o j m.
  Proof. intros HQ. gstart HQ. unfold step_drop_fields. grun Hrec Hnf. Qed.

  Lemma gc_step_drop_map_slots o j m :
    Q K A (KDropMapSlots o j) m -> step_drop_map_slots grec o j m = step_drop_map_slots rec o j m.
  Proof. intros HQ. gstart HQ. unfold step_drop_map_slots. grun Hrec Hnf. Qed.

  Lemma gc_step_clean_run mo aid sc m :
    Q K A (KCleanRun mo aid sc) m -> step_clean_run K P grec mo aid sc m = step_clean_run K P rec mo aid sc m.
  Proof. intros HQ. gstart HQ. unfold step_clean_run. grun Hrec Hnf. Qed.

  Lemma gc_step_unbag k m :
    Q K A (KUnbag k) m -> step_unbag grec k m = step_unbag rec k m.
  Proof. intros HQ. gstart HQ. unfold step_unbag. grun Hrec Hnf. Qed.

  Lemma gc_cmd_new self dst cls m :
    Q K A (KCmd self (CNew dst cls)) m -> cmd_new K P grec self dst cls m = cmd_new K P rec self dst cls m.
  Proof. intros HQ. gstart HQ. unfold cmd_new. grun Hrec Hnf. Qed.

  Lemma gc_cmd_clone self src dst m :
    Q K A (KCmd self (CClone src dst)) m -> cmd_clone grec self src dst m = cmd_clone rec self src dst m.
  Proof. intros HQ. gstart HQ. unfold cmd_clone. grun Hrec Hnf. Qed.

  Lemma gc_cmd_drop self l m :
    Q K A (KCmd self (CDrop l)) m -> cmd_drop grec self l m = cmd_drop rec self l m.
  Proof. intros HQ. gstart HQ. unfold cmd_drop. grun Hrec Hnf. Qed.

  Lemma gc_cmd_move self src dst m :
    Q K A (KCmd self (CMove src dst)) m -> cmd_move grec self src dst m = cmd_move rec self src dst m.
  Proof. intros HQ. gstart HQ. unfold cmd_move. grun Hrec Hnf. Qed.

  Lemma gc_cmd_collect self m :
    Q K A (KCmd self (CCollect)) m -> cmd_collect grec self m = cmd_collect rec self m.
  Proof. intros HQ. gstart HQ. unfold cmd_collect. grun Hrec Hnf. Qed.

  Lemma gc_cmd_upgrade self w dst m :
    Q K A (KCmd self (CUpgrade w dst)) m -> cmd_upgrade K grec self w dst m = cmd_upgrade K rec self w dst m.
  Proof. intros HQ. gstart HQ. unfold cmd_upgrade. grun Hrec Hnf. Qed.

  Lemma gc_cmd_drop_value self v m :
    Q K A (KCmd self (CDropValue v)) m -> cmd_drop_value grec self v m = cmd_drop_value rec self v m.
  Proof. intros HQ. gstart HQ. unfold cmd_drop_value. grun Hrec Hnf. Qed.

  Lemma gc_cmd_new_cyclic self dst cls sc sw m :
    Q K A (KCmd self (CNewCyclic dst cls sc sw)) m -> cmd_new_cyclic K P grec self dst cls sc sw m = cmd_new_cyclic K P rec self dst cls sc sw m.
  Proof. intros HQ. gstart HQ. unfold cmd_new_cyclic. grun Hrec Hnf. Qed.

  Lemma gc_cmd_register self nd sc c m :
    Q K A (KCmd self (CRegister nd sc c)) m -> cmd_register K P grec self nd sc c m = cmd_register K P rec self nd sc c m.
  Proof. intros HQ. gstart HQ. unfold cmd_register. grun Hrec Hnf. Qed.

  Lemma gc_cmd_clean self c m :
    Q K A (KCmd self (CClean c)) m -> cmd_clean K grec self c m = cmd_clean K rec self c m.
  Proof. intros HQ. gstart HQ. unfold cmd_clean. grun Hrec Hnf. Qed.

  Lemma gc_cmd_unbag self k m :
    Q K A (KCmd self (CUnbag k)) m -> cmd_unbag grec self k m = cmd_unbag rec self k m.
  Proof. intros HQ. gstart HQ. unfold cmd_unbag. grun Hrec Hnf. Qed.

  Lemma gc_step_cmd self c m :
    Q K A (KCmd self c) m -> step_cmd K P grec self c m = step_cmd K P rec self c m.
  Proof.
    intros HQ. destruct c; cbn [step_cmd].
    - apply gc_cmd_new, HQ.
    - apply gc_cmd_clone, HQ.
    - apply gc_cmd_drop, HQ.
    - apply gc_cmd_move, HQ.
    - reflexivity.
    - apply gc_cmd_collect, HQ.
    - reflexivity.
    - apply gc_cmd_upgrade, HQ.
    - reflexivity.
    - reflexivity.
    - reflexivity.
    - reflexivity.
    - apply gc_cmd_drop_value, HQ.
    - reflexivity.
    - apply gc_cmd_new_cyclic, HQ.
    - apply gc_cmd_register, HQ.
    - apply gc_cmd_clean, HQ.
    - reflexivity.
    - reflexivity.
    - apply gc_cmd_unbag, HQ.
    - reflexivity.
    - reflexivity.
    - reflexivity.
    - reflexivity.
    - reflexivity.
    - reflexivity.
    - reflexivity.
    - reflexivity.
    - reflexivity.
    - reflexivity.
  Qed.
  End Calls.

  (** THE call-closure theorem *)
  Theorem closure A rec c m :
    rok K rec -> nfspec rec -> noncoll c = true -> Q K A c m ->
    step K P (guarded K Qdec A rec) c m = step K P rec c m.
  Proof.
    intros Hrec Hnf Hc HQ. destruct c; try discriminate Hc; cbn [step].
    - apply gc_step_cmd; assumption.
    - apply gc_step_script; assumption.
    - apply gc_step_store; assumption.
    - apply gc_step_drop_cc; assumption.
    - apply gc_step_drop_value; assumption.
    - apply gc_step_drop_fields; assumption.
    - apply gc_step_drop_map_slots; assumption.
    - apply gc_step_unbag; assumption.
    - apply gc_step_clean_run; assumption.
  Qed.

  (** the hypotheses on [rec] hold of every [run K P n] *)
  Corollary closure_run A n c m :
    noncoll c = true -> Q K A c m ->
    step K P (guarded K Qdec A (run K P n)) c m = run K P (S n) c m.
  Proof. intros Hc HQ. apply closure; [apply run_buf|apply run_nofuel|exact Hc|exact HQ]. Qed.

  (** and [Q] is satisfiable: the initial state, any non-collector call, outside a collection *)
  Lemma Q_init c : noncoll c = true -> Q K [] c (init K).
  Proof.
    intros Hc. split; [|reflexivity].
    destruct c; try discriminate Hc; right; apply init_buf.
  Qed.
End Guard.

Print Assumptions closure.
