(** placeholder *)
From RC Require Import SafeCollNf.
