(** * SoleTop: the frame theorem instantiated with the objects solely owned by the values under
    destruction: [SoleFrame'], the provable form of [SafeFinalOwn2.SoleFrame]. *)
From Coq Require Import NArith Bool List Lia.
From stdpp Require Import base list option.
From RecordUpdate Require Import RecordSet.
From RC Require Import Hdr Machine RunInd.
From RC Require Import Inv InvP SafeHelpers SafePrims SafeCalls SafeMain SafeColl SafeFinal SafeFinalOwn2.
From RC Require Import SoleInv SolePrim SoleStep SoleMain.
Import ListNotations RecordSetNotations.
Local Open Scope N_scope.

(** ** Counting *)
Lemma cnt_c_pos o l : (0 < cnt_c o l)%nat <-> exists c cr, l !! c = Some (Some cr) /\ cr_map cr = o.
Proof.
  induction l as [|a l IH].
  - split; [unfold cnt_c; cbn; lia | intros (c & cr & H & _); rewrite lookup_nil in H; discriminate].
  - rewrite cnt_c_cons. split.
    + intros H. destruct (eqb_cref a o) eqn:E.
      * destruct a as [cr|]; [|discriminate]. exists 0%nat, cr. split; [reflexivity|]. cbn in E. apply Nat.eqb_eq, E.
      * destruct (proj1 IH) as (c & cr & Hc & Hcr); [lia|]. exists (S c), cr. auto.
    + intros ([|c] & cr & Hc & Hcr); cbn in Hc.
      * injection Hc as ->. cbn. rewrite Hcr, Nat.eqb_refl. lia.
      * assert (0 < cnt_c o l)%nat by (apply IH; eauto). lia.
Qed.

Lemma wloc_wrefs m t : wloc m t <-> (0 < wrefs m t)%nat.
Proof.
  rewrite wrefs_unfold. split.
  - intros [(i & H)|[H|[(c & cr & H & Hcr)|(p & xp & j & Hp & Hj)]]].
    + assert (0 < cnt_w t (wslots m))%nat by (apply cnt_w_pos; eauto). lia.
    + apply elem_of_list_lookup in H as [j Hj].
      assert (0 < cnt_w t (map Some (wparam m)))%nat.
      { apply cnt_w_pos. exists j. change (map Some (wparam m)) with (Some <$> wparam m). rewrite list_lookup_fmap, Hj. reflexivity. }
      lia.
    + assert (0 < cnt_c t (cslots m))%nat by (apply cnt_c_pos; eauto). lia.
    + assert (0 < hsum (fun x => cnt_w t (o_wfields x)) (heap m))%nat.
      { apply hsum_pos. exists p, xp. split; [exact Hp|]. apply cnt_w_pos. eauto. }
      lia.
  - intros H.
    destruct (decide (0 < cnt_w t (wslots m))%nat) as [H1|H1]; [left; apply cnt_w_pos, H1|].
    destruct (decide (0 < cnt_w t (map Some (wparam m)))%nat) as [H2|H2].
    { right; left. apply cnt_w_pos in H2 as [j Hj]. change (map Some (wparam m)) with (Some <$> wparam m) in Hj.
      rewrite list_lookup_fmap in Hj. destruct (wparam m !! j) as [w|] eqn:Ew; cbn in Hj; [|discriminate].
      injection Hj as ->. eapply elem_of_list_lookup_2; eauto. }
    destruct (decide (0 < cnt_c t (cslots m))%nat) as [H3|H3]; [right; right; left; apply cnt_c_pos, H3|].
    right; right; right. assert (H4 : (0 < hsum (fun x => cnt_w t (o_wfields x)) (heap m))%nat) by lia.
    apply hsum_pos in H4 as (p & xp & Hp & Hx). apply cnt_w_pos in Hx as [j Hj]. eauto.
Qed.

(** a strong count of one: the field that holds the handle is the only handle location *)
Lemma refs_one m t s xs j h c :
  get m s = Some xs -> o_fields xs !! j = Some (Some t) -> (refs m t <= 1)%nat -> hloc m h c t ->
  h = Some s /\ c = false.
Proof.
  intros Hs Hj Hr Hl. rewrite refs_unfold in Hr.
  set (f := fun x : obj => x <| o_fields := [] |> <| o_cleaner := None |>).
  pose proof (hsum_alter (obj_refs t) f s (heap m) xs Hs) as Ha.
  assert (Hf0 : obj_refs t (f xs) = 0%nat) by reflexivity.
  assert (Hg : (0 < cnt_opt t (o_fields xs))%nat) by (apply cnt_opt_pos; eauto).
  assert (Hxs : obj_refs t xs = (cnt_opt t (o_fields xs) + (if eqb_oid (o_cleaner xs) t then 1 else 0))%nat) by reflexivity.
  destruct Hl as [i t' H | t' H | p xp j' t' Hp Hj' | p xp t' Hp Hc'].
  - assert (0 < cnt_opt t' (slots m))%nat by (apply cnt_opt_pos; eauto). lia.
  - assert (0 < cnt_id t' (bag m))%nat by (apply cnt_id_pos; exact H). lia.
  - destruct (decide (p = s)) as [->|Hne]; [auto|]. exfalso.
    match type of Ha with (hsum ?g ?l + _ = _)%nat => assert (0 < hsum g l)%nat end.
    { apply hsum_pos. exists p, xp. split; [rewrite list_lookup_alter_ne by congruence; exact Hp|]. apply obj_refs_pos. eauto. }
    lia.
  - exfalso. destruct (decide (p = s)) as [->|Hne].
    + assert (xp = xs) by (unfold get in *; congruence). subst xp. rewrite Hc', eqb_oid_refl in Hxs. lia.
    + match type of Ha with (hsum ?g ?l + _ = _)%nat => assert (0 < hsum g l)%nat end.
      { apply hsum_pos. exists p, xp. split; [rewrite list_lookup_alter_ne by congruence; exact Hp|]. apply obj_refs_pos. auto. }
      lia.
Qed.

Section Top.
  Context (K : conf) (P : prog).
  Hypothesis Hconf : k_clean K = true -> k_weak K = true.
  Hypothesis Hwf : wf_prog P = true.

  Definition RootX (ex : option id) (m : machine) (p : id) : Prop :=
    exists xp, get m p = Some xp /\ o_vst xp = VDropping /\ ex <> Some p.
  Definition HidX (ex : option id) (m : machine) (t : id) : Prop :=
    exists p, RootX ex m p /\ SolelyOwned K m p t.

  (** the holder of a hidden object *)
  Lemma HidX_holder ex m t : HidX ex m t -> exists s, (HidX ex m s \/ RootX ex m s) /\ sole_at K m s t.
  Proof.
    intros (p & Hp & Hso). inversion Hso as [t' Ht | s t' Hs Ht]; subst.
    - exists p. auto.
    - exists s. split; [left; exists p; auto | exact Ht].
  Qed.

  Lemma SI_top b E ex m : SInv K b E [] m -> SI K (HidX ex m) (RootX ex m) m.
  Proof.
    intros HI.
    assert (Hrefs : forall t, HidX ex m t -> (refs m t <= 1)%nat).
    { intros t Ht. destruct (HidX_holder ex m t Ht) as (s & _ & (xt & xs & Hxt & Hb & _ & Hrc & _)).
      destruct (okN_alloc K _ _ _ _ _ (sv_obj _ _ _ _ _ HI t xt Hxt) Hb) as (O1 & _). rewrite Hrc in O1. lia. }
    assert (Huniq : forall t s, HidX ex m t -> sole_at K m s t -> forall h c, hloc m h c t -> h = Some s /\ c = false).
    { intros t s Ht (xt & xs & _ & _ & _ & _ & _ & _ & _ & Hxs & j & Hj) h c Hl.
      eapply refs_one; eauto. }
    split.
    - intros t Ht. destruct (HidX_holder ex m t Ht) as (s & _ & (xt & xs & Hxt & Hb & Hv & Hrc & Hmk & Hfin & _)).
      exists xt. unfold marked. auto 10.
    - intros t Ht Hw. destruct (HidX_holder ex m t Ht) as (s & _ & (xt & xs & _ & _ & _ & _ & _ & _ & Hw0 & _)).
      apply wloc_wrefs in Hw. lia.
    - intros p (xp & Hp & Hv & _). eauto.
    - intros h c t Hl Ht. destruct (HidX_holder ex m t Ht) as (s & Hs & Hat).
      destruct (Huniq t s Ht Hat h c Hl) as [-> ->]. eauto.
    - intros t Ht. destruct (HidX_holder ex m t Ht) as (s & Hs & (xt & xs & _ & _ & _ & _ & _ & _ & _ & Hxs & j & Hj)). eauto 8.
    - intros Q HQ t (p & Hp & Hso). induction Hso as [t Hat | s t Hs IH Hat].
      + apply HQ; [exists p; split; [exact Hp | apply so_child, Hat]|].
        intros s' xs' j' Hs' Hxs' Hj'. exfalso.
        assert (Ht : HidX ex m t) by (exists p; split; [exact Hp | apply so_child, Hat]).
        destruct (Huniq t p Ht Hat (Some s') false) as [[= ->] _]; [econstructor 3; eauto|].
        destruct Hp as (xp & Hxp & Hvp & _). destruct (HidX_holder ex m p Hs') as (s0 & _ & (xt & _ & Hxt & _ & Hvt & _)). congruence.
      + assert (Ht : HidX ex m t) by (exists p; split; [exact Hp | eapply so_step; eauto]).
        apply HQ; [exact Ht|]. intros s' xs' j' Hs' Hxs' Hj'.
        destruct (Huniq t s Ht Hat (Some s') false) as [[= ->] _]; [econstructor 3; eauto|]. exact IH.
  Qed.

  (** the conclusion *)
  Lemma Keep_persist ex m m' : Keep (HidX ex m) (RootX ex m) m m' -> sole_persist K ex m m'.
  Proof.
    intros [A1 A2 A3 A4] p xp Hp Hv Hex s t Hs Hat.
    assert (Hroot : RootX ex m p) by (exists xp; auto).
    assert (Ht : HidX ex m t) by (exists p; split; [exact Hroot | destruct Hs as [-> | Hs]; [apply so_child, Hat | eapply so_step; eauto]]).
    destruct Hat as (xt & xs & Hxt & Hb & Hvt & Hrc & Hmk & Hfin & Hw & Hxs & j & Hj).
    destruct (A1 t xt Ht Hxt) as (xt' & Hxt' & B1 & B2 & B3 & B4 & B5 & B6).
    assert (Hxs' : exists xs', get m' s = Some xs' /\ o_fields xs' = o_fields xs).
    { destruct Hs as [-> | Hs].
      - destruct (A2 p xs Hroot Hxs) as (y & Hy & Hf & _). eauto.
      - destruct (A1 s xs ltac:(exists p; auto) Hxs) as (y & Hy & _ & _ & _ & Hf & _). eauto. }
    destruct Hxs' as (xs' & Hxs' & Hf). exists xt', xs'. split; [exact Hxt'|].
    split; [congruence|]. split; [congruence|]. split; [congruence|]. split; [apply B5, Hmk|]. split.
    - destruct (k_fin K); [|reflexivity]. cbn in *. unfold needs_fin in *. apply negb_false_iff in Hfin. rewrite (B6 Hfin). reflexivity.
    - split.
      + destruct (wrefs m' t) eqn:Ew; [reflexivity|]. exfalso.
        assert (Hw' : wloc m' t) by (apply wloc_wrefs; lia). apply A4 in Hw'; [|exact Ht]. apply wloc_wrefs in Hw'. lia.
      + split; [exact Hxs'|]. exists j. rewrite Hf. exact Hj.
  Qed.

  (** [SafeFinalOwn2.SoleFrame] with the side condition on the arguments of the call (see
      [SoleStep.Args]: the location of a [KStore] does not lie in a solely owned object, ...) *)
  Theorem sole_frame' n b E A c m m' r :
    Pre K (PreC K) b E c m -> Q K A c m -> run K P n c m = (m', r) -> r = ONormal \/ r = OPanic ->
    Args (HidX (ex_of c) m) (RootX (ex_of c) m) c ->
    sole_persist K (ex_of c) m m'.
  Proof.
    intros Hpre HQ Hrun Hr HA. apply Keep_persist.
    assert (HS : exists b' E', SInv K b' E' [] m).
    { destruct c; try (rewrite Pre_nc in Hpre by reflexivity; destruct Hpre as (_ & HS & _); eauto);
        cbn in Hpre; try (destruct Hpre as (_ & HS & _); eauto; fail); destruct Hpre as ((_ & HS & _) & _); eauto. }
    destruct HS as (b' & E' & HS).
    eapply (sole_keep K P Hconf Hwf); eauto. eapply SI_top; eauto.
  Qed.
End Top.

Print Assumptions sole_frame'.
