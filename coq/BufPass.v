(** * BufPass: bookkeeping of the two tracing phases ([trace_pass]) for the buffer-and-marks
    invariant: from [Imk [] [] m], a completed pass yields [Imk L [] m'] for the returned list
    [L] (the members are exactly the objects marked [IL]), an unwound pass yields
    [Imk [] [] m'] - both modulo [dirty] - and every pass is a [frame] step. *)
From Coq Require Import NArith Bool List Lia.
From stdpp Require Import base list option sets.
From RecordUpdate Require Import RecordSet.
From RC Require Import Hdr Machine RunInd BufBase.
Import ListNotations RecordSetNotations.
Local Open Scope N_scope.

Ltac frame_peel :=
  repeat match goal with
  | |- frame ?m ?m => apply frame_refl
  | H : frame ?m ?X |- frame ?m ?X => exact H
  | |- frame _ (emit _ ?X) => apply (frame_trans _ X); [|apply frame_emit]
  | |- frame _ (emit_bad _ _ ?X) => apply (frame_trans _ X); [|apply frame_emit]
  | |- frame _ (uhdr _ _ ?X) => apply (frame_trans _ X); [|apply frame_uhdr]
  | |- frame _ (unmark_all _ ?X) => apply (frame_trans _ X); [|apply frame_unmark_all]
  | |- frame _ (dec_size _ ?X) => apply (frame_trans _ X); [|apply frame_dec_size]
  | |- frame _ (set _ _ ?X) =>
    apply (frame_trans _ X);
    [|solve [apply frame_same; [reflexivity|reflexivity|reflexivity|apply ext_log_eq; reflexivity]]]
  end.

Section Pass.
  Context (K : conf) (P : prog).
  Implicit Types (m : machine) (s : tstate).
  Notation mild := (mild K).
  Notation Imk := (Imk K).
  Notation GI := (GI K).

  Lemma dirty_uhdr o f m : dirty m -> dirty (uhdr o f m).
  Proof. auto. Qed.
  Lemma get_uhdr_ne o f m o' : o <> o' -> get (uhdr o f m) o' = get m o'.
  Proof. apply get_upd_ne. Qed.
  Lemma get_uhdr_eq o f m x : get m o = Some x -> get (uhdr o f m) o = Some (x <| o_hdr ::= f |>).
  Proof. apply get_upd_eq. Qed.

  (** ** frame *)
  Lemma frame_reset_buffered m : frame m (reset_buffered m).
  Proof. apply (mild_frame K), mild_reset_buffered. Qed.
  Lemma frame_trace_event o m : frame m (trace_event K o m).1.
  Proof. apply (mild_frame K), mild_trace_event. Qed.
  Lemma frame_traced_children m o : frame m (traced_children P m o).1.
  Proof. apply (mild_frame K), mild_traced_children. Qed.

  Lemma frame_visit_counting s c : frame (t_m s) (t_m (visit_counting s c)).
  Proof. unfold visit_counting. brk; cbn [t_m]; frame_peel. Qed.
  Lemma frame_visit_root s c : frame (t_m s) (t_m (visit_root s c)).
  Proof. unfold visit_root. brk; cbn [t_m]; frame_peel. Qed.
  Lemma frame_fold_visit_counting l s : frame (t_m s) (t_m (fold_left visit_counting l s)).
  Proof.
    revert s. induction l as [|a l IH]; cbn; intros s; [apply frame_refl|].
    eapply frame_trans; [apply frame_visit_counting|apply IH].
  Qed.
  Lemma frame_fold_visit_root l s : frame (t_m s) (t_m (fold_left visit_root l s)).
  Proof.
    revert s. induction l as [|a l IH]; cbn; intros s; [apply frame_refl|].
    eapply frame_trans; [apply frame_visit_root|apply IH].
  Qed.

  Lemma frame_process_counting s p : frame (t_m s) (t_m (process_counting K P s p).1).
  Proof.
    unfold process_counting.
    pose proof (frame_trace_event p (uhdr p (set_mark IQ) (t_m s))) as H1.
    destruct (trace_event K p (uhdr p (set_mark IQ) (t_m s))) as [m1 boom]. cbn [fst] in H1.
    assert (H0 : frame (t_m s) m1) by (eapply frame_trans; [apply frame_uhdr|exact H1]).
    destruct boom; cbn [fst t_m].
    - apply (frame_trans _ (unmark_all (t_root s ++ t_non s ++ t_q s) (uhdr p (set_mark NM) m1)));
        [|apply frame_reset_buffered]. frame_peel.
    - pose proof (frame_traced_children m1 p) as H2.
      destruct (traced_children P m1 p) as [m2 kids]. cbn [fst] in H2.
      match goal with |- context [fold_left visit_counting kids ?s0] =>
        pose proof (frame_fold_visit_counting kids s0) as H3;
        destruct (fold_left visit_counting kids s0) as [m3 r3 n3 q3] end.
      cbn [t_m] in *.
      assert (frame (t_m s) m3) by (eapply frame_trans; [exact H0|]; eapply frame_trans; eassumption).
      brk; cbn [fst t_m]; frame_peel.
  Qed.

  Lemma frame_process_root s p : frame (t_m s) (t_m (process_root K P s p).1).
  Proof.
    unfold process_root.
    pose proof (frame_trace_event p (t_m s)) as H1.
    destruct (trace_event K p (t_m s)) as [m1 boom]. cbn [fst] in H1.
    destruct boom; cbn [fst t_m].
    - frame_peel.
    - pose proof (frame_traced_children m1 p) as H2.
      destruct (traced_children P m1 p) as [m2 kids]. cbn [fst] in H2.
      eapply frame_trans; [exact H1|]. eapply frame_trans; [exact H2|].
      apply (frame_fold_visit_root kids (TState m2 _ _ _)).
  Qed.

  Lemma frame_counting n : forall s r,
    counting K P n s = Some r -> frame (t_m s) (t_m r.1).
  Proof.
    induction n as [|n IH]; intros s r E; cbn in E; [discriminate|].
    destruct (pc (t_m s)) as [|o rest] eqn:Epc.
    - destruct (t_q s) as [|o q'] eqn:Eq.
      + injection E as <-. apply frame_refl.
      + match type of E with context [process_counting K P ?s0 o] =>
          assert (H1 : frame (t_m s) (t_m s0)) by (cbn [t_m]; frame_peel);
          pose proof (frame_process_counting s0 o) as H2;
          destruct (process_counting K P s0 o) as [s' boom] end.
        cbn [fst] in H2. pose proof (frame_trans _ _ _ H1 H2) as H3.
        destruct boom; [injection E as <-; exact H3|].
        eapply frame_trans; [exact H3|]. apply IH, E.
    - match type of E with context [process_counting K P ?s0 o] =>
        assert (H1 : frame (t_m s) (t_m s0)) by (cbn [t_m]; frame_peel);
        pose proof (frame_process_counting s0 o) as H2;
        destruct (process_counting K P s0 o) as [s' boom] end.
      cbn [fst] in H2. pose proof (frame_trans _ _ _ H1 H2) as H3.
      destruct boom; [injection E as <-; exact H3|].
      eapply frame_trans; [exact H3|]. apply IH, E.
  Qed.

  Lemma frame_roots n : forall s r,
    roots K P n s = Some r -> frame (t_m s) (t_m r.1).
  Proof.
    induction n as [|n IH]; intros s r E; cbn in E; [discriminate|].
    destruct (t_root s) as [|o rest] eqn:Er.
    - destruct (t_q s) as [|o q'] eqn:Eq.
      + injection E as <-. apply frame_refl.
      + match type of E with context [process_root K P ?s0 o] =>
          assert (H1 : frame (t_m s) (t_m s0)) by (cbn [t_m]; frame_peel);
          pose proof (frame_process_root s0 o) as H2;
          destruct (process_root K P s0 o) as [s' boom] end.
        cbn [fst] in H2. pose proof (frame_trans _ _ _ H1 H2) as H3.
        destruct boom; [injection E as <-; exact H3|].
        eapply frame_trans; [exact H3|]. apply IH, E.
    - match type of E with context [process_root K P ?s0 o] =>
        assert (H1 : frame (t_m s) (t_m s0)) by (cbn [t_m]; frame_peel);
        pose proof (frame_process_root s0 o) as H2;
        destruct (process_root K P s0 o) as [s' boom] end.
      cbn [fst] in H2. pose proof (frame_trans _ _ _ H1 H2) as H3.
      destruct boom; [injection E as <-; exact H3|].
      eapply frame_trans; [exact H3|]. apply IH, E.
  Qed.

  Lemma frame_trace_pass m : frame m (trace_pass K P m).1.
  Proof.
    unfold trace_pass.
    destruct (counting K P (pass_fuel m) (TState m [] [] [])) as [[s b]|] eqn:E1; [|apply frame_refl].
    pose proof (frame_counting _ _ _ E1) as H1. cbn [t_m fst] in H1.
    destruct b; [exact H1|].
    destruct (roots K P (pass_fuel m) s) as [[s' b']|] eqn:E2; [|exact H1].
    pose proof (frame_roots _ _ _ E2) as H2. cbn [fst] in H2.
    destruct b'; cbn [fst]; eapply frame_trans; eassumption.
  Qed.

  (** ** The invariant of the tracing phases *)
  Record Tinv (busy : list id) (s : tstate) : Prop := {
    ti_mk : Imk (t_root s ++ t_non s) (t_q s ++ busy) (t_m s);
    ti_non : forall o x, o ∈ t_non s -> get (t_m s) o = Some x -> h_rc (o_hdr x) = h_tc (o_hdr x);
    ti_root : forall o x, o ∈ t_root s -> get (t_m s) o = Some x -> h_rc (o_hdr x) <> h_tc (o_hdr x);
  }.
  Definition TG (busy : list id) (s : tstate) : Prop := dirty (t_m s) \/ Tinv busy s.

  Ltac dirty_now := left; unfold dirty; cbn; rewrite ?orb_true_r; reflexivity.

  Lemma heap_tick k m : heap (tick k m).1 = heap m.
  Proof. unfold tick. destruct (get_fuse k m =? 0); [reflexivity|]. destruct k; reflexivity. Qed.
  Lemma heap_trace_event o m : heap (trace_event K o m).1 = heap m.
  Proof. unfold trace_event. destruct (is_map m o); [reflexivity|]. rewrite heap_tick. reflexivity. Qed.
  Lemma heap_traced_children m o : heap (traced_children P m o).1 = heap m.
  Proof. unfold traced_children. brk; reflexivity. Qed.

  Lemma TG_mild busy m m' r n q :
    TG busy (TState m r n q) -> mild m m' -> heap m' = heap m -> TG busy (TState m' r n q).
  Proof.
    intros [D|[I Hn Hr]] Hm Eh; [left; eapply frame_dirty; [apply Hm|exact D]|].
    cbn [t_m t_root t_non t_q] in *.
    destruct (mild_GI K _ _ _ _ Hm (or_intror I)) as [D|I']; [left; exact D|right].
    split; cbn [t_m t_root t_non t_q]; unfold get in *; rewrite ?Eh; assumption.
  Qed.

  Lemma perm_move (c : id) (l1 l2 : list id) :
    NoDup l1 -> c ∈ l1 -> remove_id c l1 ++ c :: l2 ≡ₚ l1 ++ l2.
  Proof.
    intros Hnd Hin. rewrite <- Permutation_middle. change (c :: remove_id c l1 ++ l2) with ((c :: remove_id c l1) ++ l2).
    apply Permutation_app_tail. symmetry. apply NoDup_Permutation; [exact Hnd| |].
    - apply NoDup_cons. split; [rewrite remove_id_spec; tauto|apply NoDup_remove_id, Hnd].
    - intros v. rewrite elem_of_cons, remove_id_spec. destruct (decide (v = c)) as [->|?]; tauto.
  Qed.

  Lemma inc_tc_default_mark h : h_mark (default h (inc_tc h)) = h_mark h.
  Proof. destruct (inc_tc h) as [h'|] eqn:E; [apply (inc_tc_mark _ _ E)|reflexivity]. Qed.
  Lemma inc_tc_default_rc h : h_rc (default h (inc_tc h)) = h_rc h.
  Proof. unfold inc_tc. destruct (h_tc h =? max_rc); reflexivity. Qed.

  Lemma mark_lq h : is_in_list_or_queue h = true -> h_mark h = IL \/ h_mark h = IQ.
  Proof. unfold is_in_list_or_queue. destruct (h_mark h); auto; discriminate. Qed.
  Lemma mark_il h : is_in_list h = true <-> h_mark h = IL.
  Proof. unfold is_in_list. destruct (mark_eqb_spec (h_mark h) IL); split; congruence. Qed.
  Lemma mark_pc h : is_in_pc h = true <-> h_mark h = PC.
  Proof. unfold is_in_pc. destruct (mark_eqb_spec (h_mark h) PC); split; congruence. Qed.

  Lemma TG_visit_counting busy s c : TG busy s -> TG busy (visit_counting s c).
  Proof.
    intros [D|T]; [left; eapply frame_dirty; [apply frame_visit_counting|exact D]|].
    destruct s as [m root non q]. destruct T as [I Hn Hr]. cbn [t_m t_root t_non t_q] in *.
    unfold visit_counting. cbn [t_m t_root t_non t_q].
    destruct (get m c) as [x|] eqn:Ex.
    2:{ right. split; cbn [t_m t_root t_non t_q]; [apply Imk_emit; [reflexivity|exact I]|exact Hn|exact Hr]. }
    assert (Hoth : forall f o, o <> c -> get (uhdr c f m) o = get m o).
    { intros f o Hne. apply get_upd_ne. congruence. }
    assert (Hself : forall f, get (uhdr c f m) c = Some (x <| o_hdr ::= f |>)).
    { intros f. unfold uhdr. apply get_upd_eq, Ex. }
    pose proof (Imk_mark_cases _ _ _ _ _ _ I Ex) as Hc.
    pose proof (ik_lists _ _ _ _ I) as Hnd.
    destruct (o_box x) eqn:Eb; [brk; cbn [t_m]; dirty_now| |brk; cbn [t_m]; dirty_now].
    destruct (is_in_list_or_queue (o_hdr x)) eqn:Elq.
    - (* linked in root/non-root list or queue *)
      destruct ((h_tc (o_hdr x) <? h_rc (o_hdr x)) && negb (is_dropped (o_hdr x))) eqn:Ea;
        [|brk; cbn [t_m]; dirty_now].
      apply andb_true_iff in Ea as [Elt _]. apply N.ltb_lt in Elt.
      set (h' := default (o_hdr x) (inc_tc (o_hdr x))).
      assert (Hm' : h_mark h' = h_mark (o_hdr x)) by apply inc_tc_default_mark.
      assert (Hrc' : h_rc h' = h_rc (o_hdr x)) by apply inc_tc_default_rc.
      assert (I' : Imk (root ++ non) (q ++ busy) (uhdr c (fun _ => h') m)).
      { apply Imk_upd; [|exact I]. intros y Ey. rewrite Ex in Ey. injection Ey as <-. cbn. auto. }
      assert (Hcn : c ∉ non).
      { intros Hin. specialize (Hn c x Hin Ex). lia. }
      destruct (is_in_list h' && (h_rc h' =? h_tc h')) eqn:Ec.
      + apply andb_true_iff in Ec as [Eil Eeq]. apply mark_il in Eil. apply N.eqb_eq in Eeq.
        rewrite Hm' in Eil. rewrite Eil in Hc. destruct Hc as (_ & [HcL|?] & _); [|discriminate].
        assert (Hcr : c ∈ root) by (apply elem_of_app in HcL as [?|?]; tauto).
        assert (Hndr : NoDup root).
        { apply NoDup_app in Hnd as [H _]. apply NoDup_app in H as [H _]. exact H. }
        right. split; cbn [t_m t_root t_non t_q].
        * eapply Imk_equiv; [exact I'| |intros o|reflexivity].
          -- rewrite perm_move by assumption. exact Hnd.
          -- rewrite perm_move by assumption. reflexivity.
        * intros o y Ho Ey. apply elem_of_cons in Ho as [->|Ho].
          -- rewrite Hself in Ey. injection Ey as <-. cbn. exact Eeq.
          -- rewrite Hoth in Ey by (intros ->; tauto). eauto.
        * intros o y Ho Ey. apply remove_id_spec in Ho as [Ho Hne].
          rewrite Hoth in Ey by exact Hne. eauto.
      + right. split; cbn [t_m t_root t_non t_q]; [exact I'| |].
        * intros o y Ho Ey. rewrite Hoth in Ey by (intros ->; tauto). eauto.
        * intros o y Ho Ey. destruct (decide (o = c)) as [->|Hne].
          -- rewrite Hself in Ey. injection Ey as <-. cbn.
             assert (Eil : is_in_list h' = true).
             { apply mark_il. rewrite Hm'.
               destruct (ik_il _ _ _ _ I c x Ex) as [H _]. apply H. rewrite elem_of_app. auto. }
             rewrite Eil in Ec. cbn in Ec. apply N.eqb_neq in Ec. exact Ec.
          -- rewrite Hoth in Ey by exact Hne. eauto.
    - destruct (is_in_pc (o_hdr x)) eqn:Epc.
      + (* still buffered *)
        destruct (is_dropped (o_hdr x)); [cbn [t_m]; dirty_now|].
        apply mark_pc in Epc. rewrite Epc in Hc. destruct Hc as (_ & HcL & _).
        rewrite elem_of_app in HcL.
        right. split; cbn [t_m t_root t_non t_q].
        * apply Imk_upd; [|exact I]. apply keeps_keeps_at, keeps_hdr. intros h. apply inc_tc_default_mark.
        * intros o y Ho Ey. rewrite Hoth in Ey by (intros ->; tauto). eauto.
        * intros o y Ho Ey. rewrite Hoth in Ey by (intros ->; tauto). eauto.
      + (* not marked: enqueue *)
        destruct (is_dropped (o_hdr x)); [cbn [t_m]; dirty_now|].
        assert (Hm : h_mark (o_hdr x) = NM).
        { unfold is_in_list_or_queue in Elq. unfold is_in_pc in Epc.
          destruct (h_mark (o_hdr x)); try discriminate; reflexivity. }
        rewrite Hm in Hc. destruct Hc as (HcP & HcL & HcQ). rewrite elem_of_app in HcL, HcQ.
        right. split; cbn [t_m t_root t_non t_q].
        * eapply (Imk_reobj K _ _ _ _ m _ c x
                    (fun x => x <| o_hdr ::= fun h => set_mark IQ (default h (inc_tc (reset_tc h))) |>));
            try exact I; try exact Ex; try reflexivity.
          -- exact (ik_size _ _ _ _ I).
          -- exact (ik_uflow _ _ _ _ I).
          -- exact (ik_nodup _ _ _ _ I).
          -- rewrite <- !app_assoc in *. 
             assert (Hp : root ++ non ++ q ++ [c] ++ busy ≡ₚ c :: (root ++ non ++ q ++ busy)).
             { rewrite !(app_assoc _ _ ([c] ++ busy)). cbn. rewrite <- Permutation_middle.
               rewrite <- !app_assoc. reflexivity. }
             rewrite Hp. apply NoDup_cons. split; [|exact Hnd].
             rewrite !elem_of_app. tauto.
          -- intros o' Hne. rewrite !elem_of_app, elem_of_list_singleton. tauto.
          -- cbn. split; [discriminate|tauto].
          -- cbn. rewrite elem_of_app. split; [discriminate|tauto].
          -- cbn. rewrite !elem_of_app, elem_of_list_singleton. tauto.
          -- cbn. rewrite Eb. discriminate.
        * intros o y Ho Ey. rewrite Hoth in Ey by (intros ->; tauto). eauto.
        * intros o y Ho Ey. rewrite Hoth in Ey by (intros ->; tauto). eauto.
  Qed.

  Lemma TG_fold_visit_counting busy l s : TG busy s -> TG busy (fold_left visit_counting l s).
  Proof. revert s. induction l as [|a l IH]; cbn; intros s H; auto using TG_visit_counting. Qed.

  Lemma process_counting_boom s p :
    (process_counting K P s p).2 = true ->
    t_root (process_counting K P s p).1 = [] /\ t_non (process_counting K P s p).1 = [] /\
    t_q (process_counting K P s p).1 = [].
  Proof.
    unfold process_counting. destruct (trace_event K p _) as [m1 boom].
    destruct boom; [cbn; auto|]. destruct (traced_children P m1 p) as [m2 kids].
    destruct (_ =? _); cbn; discriminate.
  Qed.

  Lemma TG_process_counting s p :
    TG [] s ->
    (dirty (t_m s) \/
     exists x, get (t_m s) p = Some x /\ h_mark (o_hdr x) = NM /\ o_box x <> BNotYet) ->
    TG [] (process_counting K P s p).1.
  Proof.
    intros [D|T] Hp; [left; eapply frame_dirty; [apply frame_process_counting|exact D]|].
    destruct Hp as [D|(x & Ex & Hm & Hb)];
      [left; eapply frame_dirty; [apply frame_process_counting|exact D]|].
    destruct s as [m root non q]. destruct T as [I Hn Hr]. cbn [t_m t_root t_non t_q] in *.
    rewrite app_nil_r in I.
    pose proof (Imk_mark_cases _ _ _ _ _ _ I Ex) as Hc. rewrite Hm in Hc.
    destruct Hc as (HcP & HcL & HcQ). rewrite elem_of_app in HcL.
    pose proof (ik_lists _ _ _ _ I) as Hnd.
    (* p becomes the object being traced *)
    assert (T1 : TG [p] (TState (uhdr p (set_mark IQ) m) root non q)).
    { right. split; cbn [t_m t_root t_non t_q].
      - eapply (Imk_reobj K _ _ _ _ m _ p x (fun x => x <| o_hdr ::= set_mark IQ |>));
          try exact I; try exact Ex; try reflexivity.
        + exact (ik_size _ _ _ _ I).
        + exact (ik_uflow _ _ _ _ I).
        + exact (ik_nodup _ _ _ _ I).
        + rewrite app_assoc. rewrite <- Permutation_cons_append. apply NoDup_cons.
          split; [rewrite !elem_of_app; tauto|exact Hnd].
        + intros o' Hne. rewrite !elem_of_app, elem_of_list_singleton. tauto.
        + cbn. split; [discriminate|tauto].
        + cbn. rewrite elem_of_app. split; [discriminate|tauto].
        + cbn. rewrite elem_of_app, elem_of_list_singleton. tauto.
        + cbn. intros; congruence.
      - intros o y Ho Ey. rewrite get_uhdr_ne in Ey by (intros ->; tauto). eauto.
      - intros o y Ho Ey. rewrite get_uhdr_ne in Ey by (intros ->; tauto). eauto. }
    unfold process_counting. cbn [t_m t_root t_non t_q].
    pose proof (mild_trace_event K p (uhdr p (set_mark IQ) m)) as M1.
    pose proof (heap_trace_event p (uhdr p (set_mark IQ) m)) as E1.
    destruct (trace_event K p (uhdr p (set_mark IQ) m)) as [m1 boom]. cbn [fst] in M1, E1.
    pose proof (TG_mild _ _ _ _ _ _ T1 M1 E1) as T2.
    destruct boom; cbn [fst].
    - (* the trace call panicked: everything is unlinked *)
      destruct T2 as [D|[I2 _ _]]; [left; cbn [t_m]; eapply frame_dirty; [|exact D]|].
      { cbn [t_m]. eapply frame_trans; [|apply frame_reset_buffered]. frame_peel. }
      cbn [t_m t_root t_non t_q] in I2.
      assert (I3 : Imk [] [] (unmark_all (root ++ non ++ q) (uhdr p (set_mark NM) m1))).
      { change (unmark_all (root ++ non ++ q) (uhdr p (set_mark NM) m1))
          with (unmark_all (p :: root ++ non ++ q) m1).
        eapply Imk_unmark_all; [exact I2|]. intros o.
        rewrite elem_of_cons, !elem_of_app, elem_of_list_singleton. tauto. }
      destruct (mild_GI K _ _ _ _ (mild_reset_buffered K _) (or_intror I3)) as [D|I4];
        [left; exact D|right].
      split; cbn [t_m t_root t_non t_q]; [exact I4| |]; intros o y Ho; inversion Ho.
    - pose proof (mild_traced_children K P m1 p) as M2.
      pose proof (heap_traced_children m1 p) as E2.
      destruct (traced_children P m1 p) as [m2 kids]. cbn [fst] in M2, E2.
      pose proof (TG_mild _ _ _ _ _ _ T2 M2 E2) as T3.
      pose proof (TG_fold_visit_counting _ kids _ T3) as T4.
      destruct (fold_left visit_counting kids (TState m2 root non q)) as [m3 r3 n3 q3].
      cbn [t_m t_root t_non t_q].
      destruct T4 as [D|[I4 Hn4 Hr4]]; [left; destruct (_ =? _); cbn [fst t_m]; exact D|].
      cbn [t_m t_root t_non t_q] in *.
      destruct (ik_valid _ _ _ _ I4 p) as [x3 Ex3]; [rewrite !elem_of_app, elem_of_list_singleton; tauto|].
      pose proof (ik_lists _ _ _ _ I4) as Hnd4.
      assert (Hnd4' : NoDup (p :: (r3 ++ n3) ++ q3)).
      { rewrite app_assoc in Hnd4. rewrite <- Permutation_cons_append in Hnd4. exact Hnd4. }
      apply NoDup_cons in Hnd4' as [Hp4 Hnd4']. rewrite !elem_of_app in Hp4.
      assert (Hm3 : h_mark (o_hdr x3) = IQ).
      { apply (ik_iq _ _ _ _ I4 p x3 Ex3). rewrite elem_of_app, elem_of_list_singleton. tauto. }
      rewrite (hdr_of_get _ _ _ Ex3).
      assert (Hoth : forall o, o <> p -> get (uhdr p (set_mark IL) m3) o = get m3 o).
      { intros o Hne. apply get_upd_ne. congruence. }
      assert (Hself : get (uhdr p (set_mark IL) m3) p = Some (x3 <| o_hdr ::= set_mark IL |>)).
      { apply get_upd_eq, Ex3. }
      destruct (h_rc (o_hdr x3) =? h_tc (o_hdr x3)) eqn:Eq; cbn [fst]; right;
        split; cbn [t_m t_root t_non t_q].
      + eapply (Imk_reobj K _ _ _ _ m3 _ p x3 (fun x => x <| o_hdr ::= set_mark IL |>));
          try exact I4; try exact Ex3; try reflexivity.
        * exact (ik_size _ _ _ _ I4).
        * exact (ik_uflow _ _ _ _ I4).
        * exact (ik_nodup _ _ _ _ I4).
        * rewrite app_nil_r. rewrite <- app_assoc. cbn. rewrite <- Permutation_middle.
          rewrite app_assoc. apply NoDup_cons. split; [rewrite !elem_of_app; tauto|exact Hnd4'].
        * intros o' Hne. rewrite !elem_of_app, elem_of_cons, elem_of_list_singleton.
          split; [reflexivity|]. split; [tauto|]. rewrite elem_of_nil. tauto.
        * cbn. split; [discriminate|]. intros Hpc.
          destruct (ik_pc _ _ _ _ I4 p x3 Ex3) as [_ H]. specialize (H Hpc). congruence.
        * cbn. rewrite elem_of_app, elem_of_cons. tauto.
        * cbn. rewrite app_nil_r. split; [discriminate|tauto].
        * cbn. intros Hb3. pose proof (ik_box _ _ _ _ I4 p x3 Ex3 Hb3). congruence.
      + intros o y Ho Ey. apply elem_of_cons in Ho as [->|Ho].
        * rewrite Hself in Ey. injection Ey as <-. cbn. apply N.eqb_eq, Eq.
        * rewrite Hoth in Ey by (intros ->; tauto). eauto.
      + intros o y Ho Ey. rewrite Hoth in Ey by (intros ->; tauto). eauto.
      + eapply (Imk_reobj K _ _ _ _ m3 _ p x3 (fun x => x <| o_hdr ::= set_mark IL |>));
          try exact I4; try exact Ex3; try reflexivity.
        * exact (ik_size _ _ _ _ I4).
        * exact (ik_uflow _ _ _ _ I4).
        * exact (ik_nodup _ _ _ _ I4).
        * rewrite app_nil_r. cbn.
          apply NoDup_cons. split; [rewrite !elem_of_app; tauto|exact Hnd4'].
        * intros o' Hne. rewrite !elem_of_app, elem_of_cons, elem_of_list_singleton.
          split; [reflexivity|]. split; [tauto|]. rewrite elem_of_nil. tauto.
        * cbn. split; [discriminate|]. intros Hpc.
          destruct (ik_pc _ _ _ _ I4 p x3 Ex3) as [_ H]. specialize (H Hpc). congruence.
        * cbn. rewrite elem_of_cons. tauto.
        * cbn. rewrite app_nil_r. split; [discriminate|tauto].
        * cbn. intros Hb3. pose proof (ik_box _ _ _ _ I4 p x3 Ex3 Hb3). congruence.
      + intros o y Ho Ey. rewrite Hoth in Ey by (intros ->; tauto). eauto.
      + intros o y Ho Ey. apply elem_of_cons in Ho as [->|Ho].
        * rewrite Hself in Ey. injection Ey as <-. cbn. apply N.eqb_neq, Eq.
        * rewrite Hoth in Ey by (intros ->; tauto). eauto.
  Qed.

  (** popping the head of the buffer / of the queue *)
  Definition popped (m : machine) (p : id) : Prop :=
    dirty m \/ exists x, get m p = Some x /\ h_mark (o_hdr x) = NM /\ o_box x <> BNotYet.

  Lemma TG_pop_pc m root non q p rest :
    TG [] (TState m root non q) -> pc m = p :: rest ->
    let m0 := dec_size p (uhdr p (set_mark NM) m <| pc := rest |>) in
    TG [] (TState m0 root non q) /\ popped m0 p.
  Proof.
    intros [D|T] Epc m0.
    { cbn [t_m] in D. assert (dirty m0) by (eapply frame_dirty; [|exact D]; subst m0; frame_peel).
      split; left; assumption. }
    destruct T as [I Hn Hr]. cbn [t_m t_root t_non t_q] in *.
    destruct (ik_valid _ _ _ _ I p) as [x Ex]; [rewrite Epc, !elem_of_app, elem_of_cons; auto|].
    assert (Hm : h_mark (o_hdr x) = PC).
    { apply (ik_pc _ _ _ _ I p x Ex). rewrite Epc. apply elem_of_cons. auto. }
    pose proof (Imk_mark_cases _ _ _ _ _ _ I Ex) as Hc. rewrite Hm in Hc. destruct Hc as (_ & HcL & HcQ).
    rewrite elem_of_app in HcL.
    pose proof (ik_nodup _ _ _ _ I) as Hnd. rewrite Epc in Hnd. apply NoDup_cons in Hnd as [Hpr Hnd].
    pose proof (ik_size _ _ _ _ I) as Hsz. rewrite Epc in Hsz. cbn [length] in Hsz.
    assert (Hb : o_box x <> BNotYet).
    { intros Hb. pose proof (ik_box _ _ _ _ I p x Ex Hb). congruence. }
    assert (Em0 : m0 = uhdr p (set_mark NM) m <| pc := rest |> <| pc_size ::= fun n => n - 1 |>).
    { subst m0. unfold dec_size. change (pc_size (uhdr p (set_mark NM) m <| pc := rest |>)) with (pc_size m).
      destruct (pc_size m =? 0) eqn:Ez; [apply N.eqb_eq in Ez; lia|reflexivity]. }
    rewrite Em0. split.
    - right. split; cbn [t_m t_root t_non t_q].
      + eapply (Imk_reobj K _ _ _ _ m _ p x (fun x => x <| o_hdr ::= set_mark NM |>));
          try exact I; try exact Ex; try reflexivity.
        * cbn. rewrite Hsz. lia.
        * exact (ik_uflow _ _ _ _ I).
        * exact Hnd.
        * exact (ik_lists _ _ _ _ I).
        * intros o' Hne. cbn. rewrite Epc, elem_of_cons. tauto.
        * cbn. split; [discriminate|tauto].
        * cbn. rewrite elem_of_app. split; [discriminate|tauto].
        * cbn. split; [discriminate|tauto].
      + intros o y Ho Ey. change (get (uhdr p (set_mark NM) m) o = Some y) in Ey.
        rewrite get_uhdr_ne in Ey by (intros ->; tauto). eauto.
      + intros o y Ho Ey. change (get (uhdr p (set_mark NM) m) o = Some y) in Ey.
        rewrite get_uhdr_ne in Ey by (intros ->; tauto). eauto.
    - right. exists (x <| o_hdr ::= set_mark NM |>). split; [|split; [reflexivity|exact Hb]].
      change (get (uhdr p (set_mark NM) m) p = Some (x <| o_hdr ::= set_mark NM |>)).
      apply get_uhdr_eq, Ex.
  Qed.

  Lemma TG_pop_q m root non q' p :
    TG [] (TState m root non (p :: q')) ->
    let m0 := uhdr p (set_mark NM) m in
    TG [] (TState m0 root non q') /\ popped m0 p.
  Proof.
    intros [D|T] m0.
    { split; left; exact D. }
    destruct T as [I Hn Hr]. cbn [t_m t_root t_non t_q] in *. rewrite app_nil_r in I.
    destruct (ik_valid _ _ _ _ I p) as [x Ex]; [rewrite !elem_of_app, elem_of_cons; auto|].
    assert (Hm : h_mark (o_hdr x) = IQ).
    { apply (ik_iq _ _ _ _ I p x Ex). apply elem_of_cons. auto. }
    pose proof (Imk_mark_cases _ _ _ _ _ _ I Ex) as Hc. rewrite Hm in Hc. destruct Hc as (HcP & HcL & _).
    rewrite elem_of_app in HcL.
    pose proof (ik_lists _ _ _ _ I) as Hnd. rewrite <- Permutation_middle in Hnd.
    apply NoDup_cons in Hnd as [Hpr Hnd]. rewrite elem_of_app in Hpr.
    assert (Hb : o_box x <> BNotYet).
    { intros Hb. pose proof (ik_box _ _ _ _ I p x Ex Hb). congruence. }
    split.
    - right. split; cbn [t_m t_root t_non t_q].
      + rewrite app_nil_r.
        eapply (Imk_reobj K _ _ _ _ m _ p x (fun x => x <| o_hdr ::= set_mark NM |>));
          try exact I; try exact Ex; try reflexivity.
        * exact (ik_size _ _ _ _ I).
        * exact (ik_uflow _ _ _ _ I).
        * exact (ik_nodup _ _ _ _ I).
        * exact Hnd.
        * intros o' Hne. rewrite elem_of_cons. tauto.
        * cbn. split; [discriminate|tauto].
        * cbn. rewrite elem_of_app. split; [discriminate|tauto].
        * cbn. split; [discriminate|tauto].
      + intros o y Ho Ey. subst m0. rewrite get_uhdr_ne in Ey by (intros ->; tauto). eauto.
      + intros o y Ho Ey. subst m0. rewrite get_uhdr_ne in Ey by (intros ->; tauto). eauto.
    - right. exists (x <| o_hdr ::= set_mark NM |>). split; [|split; [reflexivity|exact Hb]].
      apply get_uhdr_eq, Ex.
  Qed.

  Definition lists_empty (s : tstate) : Prop := t_root s = [] /\ t_non s = [] /\ t_q s = [].

  Lemma TG_counting n : forall s r,
    TG [] s -> counting K P n s = Some r ->
    TG [] r.1 /\ (r.2 = false -> pc (t_m r.1) = [] /\ t_q r.1 = []) /\ (r.2 = true -> lists_empty r.1).
  Proof.
    induction n as [|n IH]; intros s r T E; cbn in E; [discriminate|].
    destruct s as [m root non q]. cbn [t_m t_root t_non t_q] in E.
    destruct (pc m) as [|p rest] eqn:Epc.
    - destruct q as [|p q'].
      + injection E as <-. cbn. split; [exact T|]. split; [auto|discriminate].
      + destruct (TG_pop_q _ _ _ _ _ T) as [T0 Hp].
        pose proof (TG_process_counting _ p T0 Hp) as T1.
        pose proof (process_counting_boom (TState (uhdr p (set_mark NM) m) root non q') p) as Hb.
        destruct (process_counting K P (TState (uhdr p (set_mark NM) m) root non q') p) as [s' boom].
        cbn [fst snd] in *. destruct boom.
        * injection E as <-. cbn [fst snd]. split; [exact T1|]. split; [discriminate|exact Hb].
        * eapply IH; eassumption.
    - destruct (TG_pop_pc _ _ _ _ _ _ T Epc) as [T0 Hp].
      match type of E with context [process_counting K P ?s0 p] =>
        pose proof (TG_process_counting s0 p T0 Hp) as T1;
        pose proof (process_counting_boom s0 p) as Hb;
        destruct (process_counting K P s0 p) as [s' boom] end.
      cbn [fst snd] in *. destruct boom.
      + injection E as <-. cbn [fst snd]. split; [exact T1|]. split; [discriminate|exact Hb].
      + eapply IH; eassumption.
  Qed.

  (** ** The root-tracing phase *)
  Lemma perm_remove (c : id) (l : list id) : NoDup l -> c ∈ l -> l ≡ₚ c :: remove_id c l.
  Proof.
    intros Hnd Hin. apply NoDup_Permutation; [exact Hnd| |].
    - apply NoDup_cons. split; [rewrite remove_id_spec; tauto|apply NoDup_remove_id, Hnd].
    - intros v. rewrite elem_of_cons, remove_id_spec. destruct (decide (v = c)) as [->|?]; tauto.
  Qed.

  Lemma get_setmark o k m o' y :
    get (uhdr o (set_mark k) m) o' = Some y ->
    exists x, get m o' = Some x /\ h_rc (o_hdr y) = h_rc (o_hdr x) /\ h_tc (o_hdr y) = h_tc (o_hdr x).
  Proof.
    intros E. apply get_upd_Some in E as (x & E & ->). exists x. split; [exact E|].
    destruct (decide (o = o')); auto.
  Qed.

  Lemma TG_visit_root s c : TG [] s -> TG [] (visit_root s c).
  Proof.
    intros [D|T]; [left; eapply frame_dirty; [apply frame_visit_root|exact D]|].
    destruct s as [m root non q]. destruct T as [I Hn Hr]. cbn [t_m t_root t_non t_q] in *.
    unfold visit_root. cbn [t_m t_root t_non t_q].
    destruct (get m c) as [x|] eqn:Ex.
    2:{ right. split; cbn [t_m t_root t_non t_q]; [apply Imk_emit; [reflexivity|exact I]|exact Hn|exact Hr]. }
    destruct (o_box x) eqn:Eb; [brk; cbn [t_m]; dirty_now| |brk; cbn [t_m]; dirty_now].
    destruct (is_in_list (o_hdr x) && (h_rc (o_hdr x) =? h_tc (o_hdr x))) eqn:Ec.
    2:{ right. split; assumption. }
    apply andb_true_iff in Ec as [Eil Eeq]. apply mark_il in Eil. apply N.eqb_eq in Eeq.
    pose proof (Imk_mark_cases _ _ _ _ _ _ I Ex) as Hc. rewrite Eil in Hc.
    destruct Hc as (HcP & [HcL|?] & HcQ); [|congruence].
    assert (Hcn : c ∈ non).
    { apply elem_of_app in HcL as [Hcr|?]; [|assumption]. exfalso. exact (Hr c x Hcr Ex Eeq). }
    pose proof (ik_lists _ _ _ _ I) as Hnd. rewrite app_nil_r in Hnd, HcQ.
    assert (Hndn : NoDup non).
    { apply NoDup_app in Hnd as [H _]. apply NoDup_app in H as (_ & _ & H). exact H. }
    assert (Hcr : c ∉ root).
    { apply NoDup_app in Hnd as [H _]. apply NoDup_app in H as (_ & H & _). intros Hin. exact (H c Hin Hcn). }
    right. split; cbn [t_m t_root t_non t_q].
    - eapply (Imk_reobj K _ _ _ _ m _ c x (fun x => x <| o_hdr ::= set_mark IQ |>));
        try exact I; try exact Ex; try reflexivity.
      + exact (ik_size _ _ _ _ I).
      + exact (ik_uflow _ _ _ _ I).
      + exact (ik_nodup _ _ _ _ I).
      + rewrite app_nil_r.
        assert (Hp : (root ++ remove_id c non) ++ q ++ [c] ≡ₚ (root ++ non) ++ q).
        { rewrite (perm_remove c non Hndn Hcn) at 2. rewrite <- !app_assoc.
          apply Permutation_app_head. cbn. rewrite app_assoc. symmetry. apply Permutation_cons_append. }
        rewrite Hp. exact Hnd.
      + intros o' Hne. rewrite !elem_of_app, remove_id_spec, elem_of_list_singleton, elem_of_nil. tauto.
      + cbn. split; [discriminate|tauto].
      + cbn. rewrite elem_of_app, remove_id_spec. split; [discriminate|tauto].
      + cbn. rewrite !elem_of_app, elem_of_list_singleton. tauto.
      + cbn. rewrite Eb. discriminate.
    - intros o y Ho Ey. apply remove_id_spec in Ho as [Ho _].
      destruct (get_setmark _ _ _ _ _ Ey) as (x0 & E0 & -> & ->). eauto.
    - intros o y Ho Ey. destruct (get_setmark _ _ _ _ _ Ey) as (x0 & E0 & -> & ->). eauto.
  Qed.

  Lemma TG_fold_visit_root l s : TG [] s -> TG [] (fold_left visit_root l s).
  Proof. revert s. induction l as [|a l IH]; cbn; intros s H; auto using TG_visit_root. Qed.

  Lemma process_root_boom s p :
    (process_root K P s p).2 = true -> lists_empty (process_root K P s p).1.
  Proof.
    unfold process_root. destruct (trace_event K p _) as [m1 boom].
    destruct boom; [cbn; repeat split|]. destruct (traced_children P m1 p) as [m2 kids].
    cbn; discriminate.
  Qed.

  Lemma TG_process_root s p : TG [] s -> TG [] (process_root K P s p).1.
  Proof.
    intros T. destruct s as [m root non q]. unfold process_root. cbn [t_m t_root t_non t_q].
    pose proof (mild_trace_event K p m) as M1. pose proof (heap_trace_event p m) as E1.
    destruct (trace_event K p m) as [m1 boom]. cbn [fst] in M1, E1.
    pose proof (TG_mild _ _ _ _ _ _ T M1 E1) as T2.
    destruct boom; cbn [fst].
    - destruct T2 as [D|[I2 _ _]]; [left; cbn [t_m] in *; eapply frame_dirty; [|exact D]; frame_peel|].
      cbn [t_m t_root t_non t_q] in I2. right. split; cbn [t_m t_root t_non t_q].
      + eapply Imk_unmark_all; [exact I2|]. intros o. rewrite !elem_of_app, elem_of_nil. tauto.
      + intros o y Ho; inversion Ho.
      + intros o y Ho; inversion Ho.
    - pose proof (mild_traced_children K P m1 p) as M2. pose proof (heap_traced_children m1 p) as E2.
      destruct (traced_children P m1 p) as [m2 kids]. cbn [fst] in M2, E2.
      apply TG_fold_visit_root. exact (TG_mild _ _ _ _ _ _ T2 M2 E2).
  Qed.

  Lemma TG_pop_root m rest non q p :
    TG [] (TState m (p :: rest) non q) -> TG [] (TState (uhdr p (set_mark NM) m) rest non q).
  Proof.
    intros [D|T]; [left; exact D|].
    destruct T as [I Hn Hr]. cbn [t_m t_root t_non t_q] in *. rewrite app_nil_r in I.
    destruct (ik_valid _ _ _ _ I p) as [x Ex]; [rewrite !elem_of_app, elem_of_cons; auto|].
    assert (Hm : h_mark (o_hdr x) = IL).
    { apply (ik_il _ _ _ _ I p x Ex). rewrite elem_of_app, elem_of_cons. auto. }
    pose proof (Imk_mark_cases _ _ _ _ _ _ I Ex) as Hc. rewrite Hm in Hc. destruct Hc as (HcP & _ & HcQ).
    pose proof (ik_lists _ _ _ _ I) as Hnd. cbn in Hnd.
    apply NoDup_cons in Hnd as [Hpr Hnd]. rewrite !elem_of_app in Hpr.
    right. split; cbn [t_m t_root t_non t_q].
    - rewrite app_nil_r.
      eapply (Imk_reobj K _ _ _ _ m _ p x (fun x => x <| o_hdr ::= set_mark NM |>));
        try exact I; try exact Ex; try reflexivity.
      + exact (ik_size _ _ _ _ I).
      + exact (ik_uflow _ _ _ _ I).
      + exact (ik_nodup _ _ _ _ I).
      + exact Hnd.
      + intros o' Hne. cbn. rewrite elem_of_cons. tauto.
      + cbn. split; [discriminate|tauto].
      + cbn. rewrite elem_of_app. split; [discriminate|tauto].
      + cbn. split; [discriminate|tauto].
    - intros o y Ho Ey. destruct (get_setmark _ _ _ _ _ Ey) as (x0 & E0 & -> & ->). eauto.
    - intros o y Ho Ey. destruct (get_setmark _ _ _ _ _ Ey) as (x0 & E0 & -> & ->).
      apply (Hr o x0); [apply elem_of_cons; auto|exact E0].
  Qed.

  Lemma TG_roots n : forall s r,
    TG [] s -> roots K P n s = Some r ->
    TG [] r.1 /\ (r.2 = false -> t_root r.1 = [] /\ t_q r.1 = []) /\ (r.2 = true -> lists_empty r.1).
  Proof.
    induction n as [|n IH]; intros s r T E; cbn in E; [discriminate|].
    destruct s as [m root non q]. cbn [t_m t_root t_non t_q] in E.
    destruct root as [|p rest].
    - destruct q as [|p q'].
      + injection E as <-. cbn. split; [exact T|]. split; [auto|discriminate].
      + destruct (TG_pop_q _ _ _ _ _ T) as [T0 _].
        pose proof (TG_process_root _ p T0) as T1.
        pose proof (process_root_boom (TState (uhdr p (set_mark NM) m) [] non q') p) as Hb.
        destruct (process_root K P (TState (uhdr p (set_mark NM) m) [] non q') p) as [s' boom].
        cbn [fst snd] in *. destruct boom.
        * injection E as <-. cbn [fst snd]. split; [exact T1|]. split; [discriminate|exact Hb].
        * eapply IH; eassumption.
    - pose proof (TG_pop_root _ _ _ _ _ T) as T0.
      pose proof (TG_process_root _ p T0) as T1.
      pose proof (process_root_boom (TState (uhdr p (set_mark NM) m) rest non q) p) as Hb.
      destruct (process_root K P (TState (uhdr p (set_mark NM) m) rest non q) p) as [s' boom].
      cbn [fst snd] in *. destruct boom.
      + injection E as <-. cbn [fst snd]. split; [exact T1|]. split; [discriminate|exact Hb].
      + eapply IH; eassumption.
  Qed.

  (** ** The pass *)
  Theorem trace_pass_buf m :
    GI [] [] m ->
    match (trace_pass K P m).2 with
    | PDone L => GI L [] (trace_pass K P m).1
    | PPanicked => GI [] [] (trace_pass K P m).1
    | PFuel => True
    end.
  Proof.
    intros H. unfold trace_pass.
    assert (T0 : TG [] (TState m [] [] [])).
    { destruct H as [D|I]; [left; exact D|right]. split; cbn; [exact I| |]; intros o x Ho; inversion Ho. }
    destruct (counting K P (pass_fuel m) (TState m [] [] [])) as [[s b]|] eqn:E1; [|exact I].
    destruct (TG_counting _ _ _ T0 E1) as (T1 & Hf1 & Hb1). cbn [fst snd] in *.
    destruct b; cbn [fst snd].
    - destruct (Hb1 eq_refl) as (R1 & R2 & R3). destruct T1 as [D|[I1 _ _]]; [left; exact D|right].
      rewrite R1, R2, R3 in I1. exact I1.
    - destruct (roots K P (pass_fuel m) s) as [[s' b']|] eqn:E2; [|exact I].
      destruct (TG_roots _ _ _ T1 E2) as (T2 & Hf2 & Hb2). cbn [fst snd] in *.
      destruct b'; cbn [fst snd].
      + destruct (Hb2 eq_refl) as (R1 & R2 & R3). destruct T2 as [D|[I2 _ _]]; [left; exact D|right].
        rewrite R1, R2, R3 in I2. exact I2.
      + destruct (Hf2 eq_refl) as (R1 & R2). destruct T2 as [D|[I2 _ _]]; [left; exact D|right].
        rewrite R1, R2 in I2. exact I2.
  Qed.

  (** a completed pass has drained the buffer *)
  Lemma pc_tick k m : pc (tick k m).1 = pc m.
  Proof. unfold tick. destruct (get_fuse k m =? 0); [reflexivity|]. destruct k; reflexivity. Qed.
  Lemma pc_trace_event o m : pc (trace_event K o m).1 = pc m.
  Proof. unfold trace_event. destruct (is_map m o); [reflexivity|]. rewrite pc_tick. reflexivity. Qed.
  Lemma pc_traced_children m o : pc (traced_children P m o).1 = pc m.
  Proof. unfold traced_children. brk; reflexivity. Qed.
  Lemma pc_visit_root s c : pc (t_m (visit_root s c)) = pc (t_m s).
  Proof. unfold visit_root. brk; reflexivity. Qed.
  Lemma pc_fold_visit_root l s : pc (t_m (fold_left visit_root l s)) = pc (t_m s).
  Proof.
    revert s. induction l as [|a l IH]; cbn; intros s; [reflexivity|].
    rewrite IH. apply pc_visit_root.
  Qed.
  Lemma pc_unmark_all l m : pc (unmark_all l m) = pc m.
  Proof. apply (fold_uhdr_proj (set_mark NM) l m). Qed.
  Lemma pc_process_root s p : pc (t_m (process_root K P s p).1) = pc (t_m s).
  Proof.
    unfold process_root. pose proof (pc_trace_event p (t_m s)) as H1.
    destruct (trace_event K p (t_m s)) as [m1 boom]. cbn [fst] in H1. destruct boom; cbn [fst t_m].
    - rewrite pc_unmark_all. exact H1.
    - pose proof (pc_traced_children m1 p) as H2.
      destruct (traced_children P m1 p) as [m2 kids]. cbn [fst] in H2.
      cbn [fst]. rewrite pc_fold_visit_root. cbn [t_m]. congruence.
  Qed.
  Lemma pc_roots n : forall s r, roots K P n s = Some r -> pc (t_m r.1) = pc (t_m s).
  Proof.
    induction n as [|n IH]; intros s r E; cbn in E; [discriminate|].
    destruct (t_root s) as [|o rest].
    - destruct (t_q s) as [|o q'].
      + injection E as <-. reflexivity.
      + match type of E with context [process_root K P ?s0 o] =>
          pose proof (pc_process_root s0 o) as H2; destruct (process_root K P s0 o) as [s' boom] end.
        cbn [fst t_m] in H2. destruct boom; [injection E as <-; exact H2|].
        rewrite (IH _ _ E). exact H2.
    - match type of E with context [process_root K P ?s0 o] =>
        pose proof (pc_process_root s0 o) as H2; destruct (process_root K P s0 o) as [s' boom] end.
      cbn [fst t_m] in H2. destruct boom; [injection E as <-; exact H2|].
      rewrite (IH _ _ E). exact H2.
  Qed.

  Lemma counting_done_pc n : forall s r,
    counting K P n s = Some r -> r.2 = false -> pc (t_m r.1) = [].
  Proof.
    induction n as [|n IH]; intros s r E Hb; cbn in E; [discriminate|].
    destruct (pc (t_m s)) as [|o rest] eqn:Epc.
    - destruct (t_q s) as [|o q'].
      + injection E as <-. exact Epc.
      + destruct (process_counting K P _ o) as [s' boom].
        destruct boom; [injection E as <-; discriminate|]. eapply IH; eassumption.
    - destruct (process_counting K P _ o) as [s' boom].
      destruct boom; [injection E as <-; discriminate|]. eapply IH; eassumption.
  Qed.

  Theorem trace_pass_done_pc m L :
    (trace_pass K P m).2 = PDone L -> pc (trace_pass K P m).1 = [].
  Proof.
    unfold trace_pass.
    destruct (counting K P (pass_fuel m) (TState m [] [] [])) as [[s b]|] eqn:E1; [|discriminate].
    destruct b; [discriminate|].
    destruct (roots K P (pass_fuel m) s) as [[s' b']|] eqn:E2; [|discriminate].
    destruct b'; [discriminate|]. cbn [fst snd]. intros _.
    pose proof (pc_roots _ _ _ E2) as H2. cbn [fst] in H2. rewrite H2.
    apply (counting_done_pc _ _ _ E1). reflexivity.
  Qed.

  (** ** I-tc after the pass: whatever is (still) buffered has tracing counter 0 *)
  Definition pcz (m : machine) : Prop :=
    forall o x, get m o = Some x -> o ∈ pc m -> h_tc (o_hdr x) = 0.

  Lemma pcz_nil m : pc m = [] -> pcz m.
  Proof. intros E o x _ Ho. rewrite E in Ho. inversion Ho. Qed.

  Lemma pcz_reset_buffered m : pcz (reset_buffered m).
  Proof.
    intros o x E Ho. unfold reset_buffered in *.
    destruct (fold_uhdr_proj reset_tc (pc m) m) as (A1 & _). rewrite A1 in Ho.
    rewrite get_fold_uhdr, decide_True in E by (reflexivity || exact Ho).
    destruct (get m o) as [x0|]; [|discriminate]. cbn in E. injection E as <-. reflexivity.
  Qed.

  Lemma process_counting_boom_pcz s p :
    (process_counting K P s p).2 = true -> pcz (t_m (process_counting K P s p).1).
  Proof.
    unfold process_counting. destruct (trace_event K p _) as [m1 boom].
    destruct boom; [intros _; cbn [fst t_m]; apply pcz_reset_buffered|].
    destruct (traced_children P m1 p) as [m2 kids]. destruct (_ =? _); cbn; discriminate.
  Qed.

  Lemma counting_boom_pcz n : forall s r,
    counting K P n s = Some r -> r.2 = true -> pcz (t_m r.1).
  Proof.
    induction n as [|n IH]; intros s r E Hb; cbn in E; [discriminate|].
    destruct (pc (t_m s)) as [|o rest].
    - destruct (t_q s) as [|o q'].
      + injection E as <-. discriminate.
      + match type of E with context [process_counting K P ?s0 o] =>
          pose proof (process_counting_boom_pcz s0 o) as H2;
          destruct (process_counting K P s0 o) as [s' boom] end.
        destruct boom; [injection E as <-; apply H2; reflexivity|]. eapply IH; eassumption.
    - match type of E with context [process_counting K P ?s0 o] =>
        pose proof (process_counting_boom_pcz s0 o) as H2;
        destruct (process_counting K P s0 o) as [s' boom] end.
      destruct boom; [injection E as <-; apply H2; reflexivity|]. eapply IH; eassumption.
  Qed.

  Theorem trace_pass_pcz m : (trace_pass K P m).2 <> PFuel -> pcz (trace_pass K P m).1.
  Proof.
    unfold trace_pass.
    destruct (counting K P (pass_fuel m) (TState m [] [] [])) as [[s b]|] eqn:E1;
      [|intros H; destruct (H eq_refl)].
    destruct b; cbn [fst snd].
    - intros _. apply (counting_boom_pcz _ _ _ E1). reflexivity.
    - destruct (roots K P (pass_fuel m) s) as [[s' b']|] eqn:E2; [|intros H; destruct (H eq_refl)].
      pose proof (pc_roots _ _ _ E2) as H2. cbn [fst] in H2.
      pose proof (counting_done_pc _ _ _ E1 eq_refl) as H1. cbn [fst] in H1.
      destruct b'; cbn [fst snd]; intros _; apply pcz_nil; congruence.
  Qed.

  Lemma tcz_of_pcz Ls Qs m : GI Ls Qs m -> pcz m -> dirty m \/ tcz m.
  Proof.
    intros [D|I] Hp; [left; exact D|right]. intros o x E Hm.
    apply (Hp o x E), (ik_pc _ _ _ _ I o x E), Hm.
  Qed.
End Pass.
