(** * SafeCollTop: the hypotheses on the recursive calls used by the collector lemmas, small
    transfer lemmas, and the four outer collector activations: [KTrigger], [KCollectCycles],
    [KCollect], [KCollectLoop]. *)
From Coq Require Import NArith Bool List Lia.
From stdpp Require Import base list option.
From RecordUpdate Require Import RecordSet.
From RC Require Import Hdr Machine RunInd.
From RC Require BufBase BufPass BufStep Buf.
From RC Require Import Inv InvP SafeHelpers SafePrims SafeCalls SafeGlue SafeDrop SafeCmd SafeCyclic SafeMain.
From RC Require Import SafeColl SafeCollFr SafeCollHdr.
Import ListNotations RecordSetNotations.
Local Open Scope N_scope.

Section Small.
  Context (K : conf).
  Implicit Types (m : machine) (o : id) (x : obj).

  (** *** consequences of the buffer invariant *)
  Lemma Ibuf_nomark_alloc A m o x :
    BufBase.Ibuf K A m -> get m o = Some x -> o_box x = BAlloc -> o ∉ A -> marked x = false.
  Proof.
    intros HB Hx Hb Hn. destruct (Buf.Ibuf_spec K A m HB) as (_ & _ & (_ & _ & B3 & B3') & _).
    unfold marked, is_in_list_or_queue. destruct (h_mark (o_hdr x)) eqn:Em; try reflexivity.
    - exfalso. apply Hn. apply (B3 o x); [split; assumption | exact Em].
    - exfalso. apply (B3' o x Hx Em).
  Qed.
  Lemma Ibuf_nomark A m o x :
    BufBase.Ibuf K A m -> get m o = Some x -> o_box x <> BFreed -> o ∉ A -> marked x = false.
  Proof.
    intros HB Hx Hb Hn. destruct (o_box x) eqn:Eb.
    - destruct HB as (I & _ & _). unfold marked, is_in_list_or_queue.
      rewrite (BufBase.ik_box K _ _ _ I o x Hx Eb). reflexivity.
    - eapply Ibuf_nomark_alloc; eauto.
    - congruence.
  Qed.
  Lemma Ibuf_member_IL A m o :
    BufBase.Ibuf K A m -> o ∈ A -> exists x, get m o = Some x /\ h_mark (o_hdr x) = IL.
  Proof.
    intros HB Ho. destruct (Buf.Ibuf_spec K A m HB) as (_ & _ & (_ & B2 & _) & _).
    destruct (B2 o Ho) as (x & Hx & Hm & _). eauto.
  Qed.
  Lemma Ibuf_IL_member A m o x :
    BufBase.Ibuf K A m -> get m o = Some x -> o_box x = BAlloc -> h_mark (o_hdr x) = IL -> o ∈ A.
  Proof.
    intros HB Hx Hb Hm. destruct (Buf.Ibuf_spec K A m HB) as (_ & _ & (_ & _ & B3 & _) & _).
    apply (B3 o x); [split; assumption | exact Hm].
  Qed.

  Lemma Ibuf_nil_same m m' :
    heap m' = heap m -> pc m' = pc m -> pc_size m' = pc_size m -> pc_alive m' = pc_alive m ->
    st_alloc m' = st_alloc m -> log m' = log m -> BufBase.Ibuf K [] m -> BufBase.Ibuf K [] m'.
  Proof.
    intros H1 H2 H3 H4 H5 H6 (I & _ & Hz). apply BufStep.Ibuf_nil.
    - eapply BufStep.Imk_same; eauto.
    - eapply BufBase.tcz_heap; eauto.
  Qed.
  Lemma Ibuf_same A m m' :
    heap m' = heap m -> pc m' = pc m -> pc_size m' = pc_size m -> pc_alive m' = pc_alive m ->
    st_alloc m' = st_alloc m -> log m' = log m -> st_collecting m' = st_collecting m ->
    BufBase.Ibuf K A m -> BufBase.Ibuf K A m'.
  Proof.
    intros H1 H2 H3 H4 H5 H6 H7 (I & HA & Hz). split; [eapply BufStep.Imk_same; eauto|].
    split; [rewrite H7; exact HA | eapply BufBase.tcz_heap; eauto].
  Qed.

  (** *** states with the same heap *)
  Lemma heaps_hsim_same m m' : heap m' = heap m -> heaps_hsim m m'.
  Proof.
    intros Hh. unfold heaps_hsim. rewrite Hh. apply Forall2_same_length_lookup. split; [reflexivity|].
    intros i x y Hx Hy. assert (y = x) by congruence. subst. apply hsim_refl.
  Qed.

  Lemma SInv_same b E W m m' :
    SInv K b E W m -> heap m' = heap m ->
    slots m' = slots m -> bag m' = bag m -> wslots m' = wslots m -> wparam m' = wparam m ->
    cslots m' = cslots m -> values m' = values m -> dead m' = dead m -> pc_alive m' = pc_alive m ->
    pc m' = pc m -> (st_dropping m = true -> st_dropping m' = true) ->
    SInv K b E W m'.
  Proof.
    intros HI Hh Hs Hb Hws Hwp Hcs Hv Hd Hal Hpc Hsd.
    eapply (SInv_hsim K b E W m m' HI); eauto using heaps_hsim_same.
    - intros o x x' Hx Hx' _. unfold get in *. rewrite Hh in Hx'. congruence.
    - intros t Ht. rewrite Hpc in Ht. destruct (sv_pc _ _ _ _ _ HI t Ht) as (x & Hx & Hbx & Hvx & Hix & Hm).
      split; [exists x; auto|]. unfold hdr_of, get in *. rewrite Hh, Hx. exact Hm.
  Qed.

  Lemma FrM_flags E m m' :
    heap m' = heap m -> dead m' = dead m -> wparam m' = wparam m -> FrM K E m m'.
  Proof. intros Hh Hd Hw. apply FrM_same; [rewrite Hh; reflexivity | exact Hd | exact Hw]. Qed.

  Lemma FrM_proper E m1 m2 m1' m2' :
    heap m1' = heap m1 -> dead m1' = dead m1 -> heap m2' = heap m2 -> dead m2' = dead m2 ->
    wparam m2' = wparam m1' -> FrM K E m1 m2 -> FrM K E m1' m2'.
  Proof.
    intros H1 D1 H2 D2 Hw F. unfold FrM in *.
    eapply (Fr_proper K E None (strip m1) (strip m2)); try reflexivity; try assumption.
    - cbn. rewrite H1. reflexivity.
    - cbn. rewrite H2. reflexivity.
  Qed.

  (** [NewDeadDropped] composes along a frame modulo marks *)
  Lemma NDD_transM E m1 m2 m3 :
    (forall o, inD m2 o = true -> is_Some (get m2 o)) ->
    NewDeadDropped m1 m2 -> FrM K E m2 m3 -> NewDeadDropped m2 m3 -> NewDeadDropped m1 m3.
  Proof.
    intros Hex A F B o x3 H3 Hi3 Hi1. destruct (inD m2 o) eqn:Hi2.
    - destruct (Hex o Hi2) as [x2 H2].
      assert (H2s : get (strip m2) o = Some (norm_obj x2)) by (rewrite get_strip, H2; reflexivity).
      destruct (fr_obj _ _ _ _ _ F o _ H2s) as (y3 & H3' & OF).
      rewrite get_strip, H3 in H3'. cbn in H3'. injection H3' as <-.
      rewrite <- (norm_vst x3). apply (of_dropped _ _ _ _ _ _ _ OF). rewrite norm_vst. eapply A; eauto.
    - eapply B; eauto.
  Qed.

  Lemma ieq_adjust m : ieq m (adjust_trigger_point K m).
  Proof.
    unfold adjust_trigger_point. destruct (k_auto K); [|apply ieq_refl].
    unfold adjust. destruct (cf_thr m <=? st_alloc m); [repeat split|].
    destruct (fprod_is_zero (cf_thr m) (cf_pnum m)); [apply ieq_refl | repeat split].
  Qed.
End Small.

(** ** The recursive calls *)
Section Rec.
  Context (K : conf) (P : prog).
  Context (rec : call -> machine -> machine * outcome).
  Hypothesis HrecQ : forall b E A c m,
    Pre K (PreC K) b E c m -> Q K A c m -> Post K (PostC K) b E c m (rec c m).1 (rec c m).2.
  Hypothesis Hbuf : BufStep.rok K rec.
  Hypothesis Hnf : nfspec rec.

  Lemma rec_all b E A c m :
    Pre K (PreC K) b E c m -> BufStep.PreA K A c m -> nofuel m ->
    Post K (PostC K) b E c m (rec c m).1 (rec c m).2 /\
    BufBase.frame m (rec c m).1 /\
    ((rec c m).2 <> OFuel -> BufStep.goalA K A c (rec c m).1 /\ nofuel (rec c m).1).
  Proof.
    intros HP HA Hn. split; [apply (HrecQ b E A); [exact HP | split; assumption]|].
    destruct (Hbuf A c m HA) as (F & G1 & _). split; [exact F|].
    intros Hr. split; [apply G1, Hr | apply Hnf; assumption].
  Qed.

  Notation PostOf b E c m res := (Post K (PostC K) b E c m (fst res) (snd res)).

  (** *** KCollectLoop *)
  Lemma step_collect_loop_ok b E k m :
    PreC K b E (KCollectLoop k) m -> PostOf b E (KCollectLoop k) m (step_collect_loop rec k m).
  Proof.
    intros (Hnb & HI & Hc & HB & Hn). unfold step_collect_loop.
    assert (Hret : PostOf b E (KCollectLoop k) m (m, ONormal)).
    { cbn. split; [exact Hnb|]. split; [exact HI|]. split; [apply FrM_refl|]. split; [intros _; apply NDD_refl; reflexivity | exact I]. }
    destruct k as [|k']; [exact Hret|]. destruct (pc m) as [|p0 rest] eqn:Hpc; [exact Hret|].
    destruct (rec_all b E [] KCollectOnce m) as (HP1 & F1 & G1).
    { exact (conj Hnb (conj HI (conj Hc (conj HB Hn)))). }
    { cbn. split; [right; exact HB | exact Hc]. }
    { exact Hn. }
    destruct (rec KCollectOnce m) as [m1 r1]. cbn [fst snd] in *.
    destruct r1; try exact I.
    - (* the pass returned normally *)
      destruct HP1 as (Hnb1 & HI1 & HF1 & HD1 & _). destruct (G1 ltac:(discriminate)) as [HG1 Hn1].
      pose proof (G_Ibuf K [] m1 HG1 Hnb1 Hn1) as HB1.
      assert (Hc1 : st_collecting m1 = true) by (rewrite (BufBase.fr_coll _ _ F1); exact Hc).
      destruct (rec_all b E [] (KCollectLoop k') m1) as (HP2 & F2 & G2).
      { exact (conj Hnb1 (conj HI1 (conj Hc1 (conj HB1 Hn1)))). }
      { cbn. split; [right; exact HB1 | exact Hc1]. }
      { exact Hn1. }
      destruct (rec (KCollectLoop k') m1) as [m2 r2]. cbn [fst snd] in *.
      destruct r2; try exact I.
      + destruct HP2 as (Hnb2 & HI2 & HF2 & HD2 & _). cbn.
        split; [exact Hnb2|]. split; [exact HI2|]. split; [eapply FrM_trans; eauto|]. split; [|exact I].
        intros _. eapply NDD_transM; [apply (sv_dead _ _ _ _ _ HI1) | apply HD1; reflexivity | exact HF2 | apply HD2; reflexivity].
      + destruct HP2 as (Hnb2 & HI2 & HF2 & HD2 & _). cbn.
        split; [exact Hnb2|]. split; [exact HI2|]. split; [eapply FrM_trans; eauto|]. split; [discriminate | exact I].
    - (* the pass unwound *)
      exact HP1.
  Qed.

  (** *** KCollect *)
  Lemma step_collect_ok b E m :
    PreC K b E KCollect m -> PostOf b E KCollect m (step_collect K rec m).
  Proof.
    intros (Hnb & HI & Hc & HB & Hn). unfold step_collect.
    set (m1 := m <| st_collecting := true |> <| st_exec ::= N.succ |>).
    set (n := if k_fin K then 10%nat else 1%nat).
    assert (HI1 : SInv K b E [] m1) by (eapply SInv_same; eauto; reflexivity).
    assert (HB1 : BufBase.Ibuf K [] m1) by (eapply Ibuf_nil_same; [..|exact HB]; reflexivity).
    destruct (rec_all b E [] (KCollectLoop n) m1) as (HP1 & F1 & G1).
    { exact (conj Hnb (conj HI1 (conj eq_refl (conj HB1 Hn)))). }
    { cbn. split; [right; exact HB1 | reflexivity]. }
    { exact Hn. }
    destruct (rec (KCollectLoop n) m1) as [m2 r]. cbn [fst snd] in *.
    assert (Hgoal : forall bb, (r = ONormal \/ r = OPanic) ->
              NoBad m2 -> SInv K bb E [] m2 -> FrM K E m1 m2 -> (r = ONormal -> NewDeadDropped m1 m2) ->
              NoBad (m2 <| st_collecting := false |>) /\ SInv K bb E [] (m2 <| st_collecting := false |>) /\
              Fr K E None m (m2 <| st_collecting := false |>) /\
              (r = ONormal -> NewDeadDropped m (m2 <| st_collecting := false |>)) /\ True).
    { intros bb Hr Hnb2 HI2 HF2 HD2.
      destruct (G1 ltac:(destruct Hr; subst; discriminate)) as [HG2 Hn2].
      pose proof (G_Ibuf K [] m2 HG2 Hnb2 Hn2) as HB2.
      split; [exact Hnb2|]. split; [eapply SInv_same; eauto; reflexivity|]. split; [|split; [|exact I]].
      - apply Fr_unstrip.
        + eapply (FrM_proper K E m1 m2); try reflexivity; [|exact HF2].
          cbn. pose proof (fr_wp _ _ _ _ _ HF2) as Hw. exact Hw.
        + exact Hc.
        + reflexivity.
        + intros o x Hx Hbx. eapply (Ibuf_nomark_alloc K [] m); eauto. apply not_elem_of_nil.
        + intros o x' Hx' Hbx. eapply (Ibuf_nomark K [] m2); eauto. apply not_elem_of_nil.
      - intros Hn0. eapply (NDD_proper m1 m2); [reflexivity | reflexivity | reflexivity | apply HD2, Hn0]. }
    destruct r; try exact I.
    - destruct HP1 as (A1 & A2 & A3 & A4 & _). apply (Hgoal b); auto.
    - destruct HP1 as (A1 & A2 & A3 & A4 & _). apply (Hgoal false); auto.
  Qed.

  (** *** KTrigger, KCollectCycles (part A's generic pre/post-condition) *)
  Lemma idle_post b E c m :
    is_coll c = false -> ex_of c = None -> post_own c m m ->
    NoBad m -> SInv K b E [] m -> PostOf b E c m (m, ONormal).
  Proof.
    intros Hc Hex Hown Hnb HI. cbn [fst snd]. rewrite Post_nc by exact Hc. rewrite Hex.
    split; [exact Hnb|]. split; [exact HI|]. split; [apply Fr_refl|]. split; [intros _; apply NDD_refl; reflexivity | exact Hown].
  Qed.

  Lemma collect_then_adjust b E A c m :
    (c = KTrigger \/ c = KCollectCycles) ->
    NoBad m -> SInv K b E [] m -> BufBase.G K A m -> nofuel m -> st_collecting m = false ->
    PostOf b E c m (let '(m1, r) := rec KCollect m in
                    match r with ONormal => (adjust_trigger_point K m1, ONormal) | _ => (m1, r) end).
  Proof.
    intros Hcc Hnb HI HG Hn Hc.
    assert (Hic : is_coll c = false) by (destruct Hcc; subst; reflexivity).
    assert (Hex : ex_of c = None) by (destruct Hcc; subst; reflexivity).
    assert (Hown : forall m', post_own c m m') by (destruct Hcc; subst; intros; exact I).
    pose proof (G_Ibuf K [] m (BufStep.G_idle K A m HG Hc) Hnb Hn) as HB.
    destruct (rec_all b E A KCollect m) as (HP1 & F1 & G1).
    { exact (conj Hnb (conj HI (conj Hc (conj HB Hn)))). }
    { cbn. split; assumption. }
    { exact Hn. }
    destruct (rec KCollect m) as [m1 r]. cbn [fst snd] in *.
    rewrite Post_nc by exact Hic. rewrite Hex.
    destruct r; cbn [fst snd]; try exact I.
    - destruct HP1 as (A1 & A2 & A3 & A4 & _).
      pose proof (ieq_adjust K m1) as Hie.
      split; [eapply NoBad_log; [|exact A1]; unfold adjust_trigger_point, adjust; repeat (match goal with |- context [if ?c then _ else _] => destruct c end); reflexivity|].
      split; [eapply SInv_ieq; eauto|].
      split; [eapply Fr_trans; [exact A3 | apply Fr_ieq, Hie]|].
      split; [|apply Hown].
      intros _. eapply NDD_proper; [reflexivity | | | apply A4; reflexivity]; apply Hie.
    - destruct HP1 as (A1 & A2 & A3 & A4 & _). split; [exact A1|]. split; [exact A2|]. split; [exact A3|].
      split; [discriminate | apply Hown].
  Qed.

  Lemma step_trigger_ok b E A m :
    Pre K (PreC K) b E KTrigger m -> Q K A KTrigger m -> PostOf b E KTrigger m (step_trigger K rec m).
  Proof.
    rewrite Pre_nc by reflexivity. cbn [own_of app]. intros (Hnb & HI & _) [HG Hn]. cbn in HG.
    unfold step_trigger. destruct (st_collecting m) eqn:Hc; [apply idle_post; auto; exact I|].
    destruct (negb (pc_alive m)); [apply idle_post; auto; exact I|].
    destruct (should_collect m); [|apply idle_post; auto; exact I].
    apply (collect_then_adjust b E A KTrigger m); auto.
  Qed.

  Lemma step_collect_cycles_ok b E A m :
    Pre K (PreC K) b E KCollectCycles m -> Q K A KCollectCycles m ->
    PostOf b E KCollectCycles m (step_collect_cycles K rec m).
  Proof.
    rewrite Pre_nc by reflexivity. cbn [own_of app]. intros (Hnb & HI & _) [HG Hn]. cbn in HG.
    unfold step_collect_cycles. destruct (st_collecting m) eqn:Hc; [apply idle_post; auto; exact I|].
    rewrite (sv_alive _ _ _ _ _ HI).
    apply (collect_then_adjust b E A KCollectCycles m); auto.
  Qed.
End Rec.
