(** * SafeFinalOwn: "when the last owner goes, what it solely owned goes too" (C04), one level:
    the field of a value under destruction that is dropped by the current step of the drop
    glue.  See the remark at the end for what is missing for the later fields and for the
    recursive statement. *)
From Coq Require Import NArith Bool List Lia.
From stdpp Require Import base list option.
From RecordUpdate Require Import RecordSet.
From RC Require Import Hdr Machine RunInd.
From RC Require BufBase BufPass BufStep Buf.
From RC Require SafeCollDec SafeCollNf SafeCollGuard.
From RC Require Import Inv InvP SafeHelpers SafePrims SafeCalls SafeGlue SafeDrop SafeCmd SafeMain SafeProps.
From RC Require Import SafeColl SafeCollTop SafeFinal SafeFinalPropsA SafeFinalProps.
Import ListNotations RecordSetNotations.
Local Open Scope N_scope.

Section Own.
  Context (K : conf) (P : prog).
  Hypothesis Hconf : k_clean K = true -> k_weak K = true.
  Hypothesis Hwf : wf_prog P = true.

  Notation GR A n := (SafeCollGuard.guarded K (Qdec K) A (run K P n)).

  Lemma guarded_rec_ok A n : forall b E, rec_ok (Pre K (PreC K) b E) (Post K (PostC K) b E) (GR A n).
  Proof.
    intros b E c m Hpre. unfold SafeCollGuard.guarded. destruct (Qdec K A c m) as [HQ|HQ]; cbn [fst snd].
    - apply (run_okQ K P Hconf Hwf n b E A c m Hpre HQ).
    - apply Post_fuel.
  Qed.

  Lemma Q_mid A t m : Q K A (KDropCc t) m -> Q K A (KDropValue t) (last_owner_mid K t m).
  Proof.
    intros [HG Hn]. cbn in HG. unfold last_owner_mid. cbv zeta. split.
    - cbn. destruct (k_weak K).
      + eapply BufBase.mild_G; [|exact HG]. eapply BufBase.mild_trans; [apply BufBase.mild_dec_rc_m|].
        apply (BufStep.mild_drop_prelude K t (fun _ => true) (dec_rc_m t m)).
      + eapply BufBase.mild_G; [|exact HG]. eapply BufBase.mild_trans; [apply BufBase.mild_dec_rc_m|].
        eapply BufBase.mild_trans; [apply BufBase.mild_remove_from_list | apply BufBase.mild_set_st_dropping].
    - destruct (k_weak K); [apply SafeCollNf.nofuel_uhdr|];
        (eapply nofuel_log; [reflexivity|]); apply SafeCollNf.nofuel_remove_from_list, SafeCollNf.nofuel_dec_rc_m, Hn.
  Qed.

  Theorem owned_field_freed n b E A o j m x t xt m' :
    Pre K (PreC K) b E (KDropFields o j) m -> Q K A (KDropFields o j) m ->
    get m o = Some x -> o_fields x !! j = Some (Some t) -> t <> o ->
    get m t = Some xt -> h_rc (o_hdr xt) = 1 -> is_in_list_or_queue (o_hdr xt) = false ->
    k_fin K && needs_fin (o_hdr xt) = false ->
    run K P (S (S n)) (KDropFields o j) m = (m', ONormal) ->
    exists y, get m' t = Some y /\ o_box y = BFreed /\ o_vst y = VDropped.
  Proof.
    rewrite Pre_nc by reflexivity. cbn [own_of app]. intros (Hnb & HI & x0 & Hx0 & Hv) [HG Hn] Hx Hfld Hne Hxt Hrc Hmk Hfin Hrun.
    assert (x0 = x) by congruence. subst x0. cbn in HG.
    assert (Hj : (j < length (o_fields x))%nat) by (eapply lookup_lt_Some; eauto).
    change (run K P (S (S n)) (KDropFields o j) m) with (step_drop_fields (run K P (S n)) o j m) in Hrun.
    unfold step_drop_fields in Hrun. rewrite Hx, decide_True in Hrun by exact Hj. rewrite Hfld in Hrun. cbn [mjoin option_join] in Hrun.
    change (mjoin (Some (Some t))) with (Some t) in Hrun. cbv zeta in Hrun.
    set (m1 := upd o (fun x => x <| o_fields ::= <[j := None]> |>) m) in *.
    pose proof (Cur_init K b true E (Some o) E [] m Hnb HI) as C0.
    assert (Hrl : read_loc (RField o j) m = Some t) by (cbn; rewrite Hx; cbn; rewrite Hfld; reflexivity).
    assert (C1 : Cur K b true E (Some o) m (t :: E) [] m1).
    { change (t :: E) with (ol (Some t) ++ E). rewrite <- Hrl.
      apply (Cur_write_loc K b true E (Some o) m E [] m (RField o j) None C0).
      - cbn. eauto.
      - discriminate.
      - intros p j' y [= <- <-] Hy. assert (y = x) by congruence. subst. split; [auto|]. split; [auto|]. split; [congruence | auto]. }
    set (x1 := x <| o_fields ::= <[j := None]> |>).
    assert (Hx1 : get m1 o = Some x1) by (apply get_upd_eq, Hx).
    assert (Hxt1 : get m1 t = Some xt) by (unfold m1; rewrite get_upd_ne by congruence; exact Hxt).
    assert (Hown : own_ok m1 t).
    { intros Hd. change (inD m1 t) with (inD m t) in Hd.
      assert (Hl : hloc m (Some o) false t) by (econstructor 3; eauto).
      destruct (sv_loc _ _ _ _ _ HI _ _ _ Hl) as (xt' & Hxt' & _ & _ & Hc). destruct (Hc x Hx) as [_ Hc2].
      destruct (Hc2 Hd) as (_ & _ & Hm). specialize (Hm Hv).
      unfold m1. rewrite marked_at_upd by reflexivity. rewrite (marked_at_get _ _ _ Hxt'). exact Hm. }
    assert (Hpre1 : Pre K (PreC K) b E (KDropCc t) m1).
    { rewrite Pre_nc by reflexivity. cbn [own_of app]. split; [apply C1|]. split; [apply C1 | exact Hown]. }
    assert (HQ1 : Q K A (KDropCc t) m1).
    { split; [cbn | apply SafeCollNf.nofuel_upd, Hn].
      eapply BufBase.mild_G; [|exact HG]. apply BufBase.mild_upd; [intros y; repeat split | intros y Hy; exact Hy]. }
    destruct (Cur_own_alloc K _ _ _ _ _ _ _ _ _ C1) as (xt' & Hxt' & Hbt & _). assert (xt' = xt) by congruence. subst xt'.
    pose proof (run_okQ K P Hconf Hwf (S n) b E A (KDropCc t) m1 Hpre1 HQ1) as HP1.
    destruct (Buf.run_buf K P (S n) A (KDropCc t) m1 (proj1 HQ1)) as (_ & HG2 & _).
    pose proof (SafeCollNf.run_nofuel K P (S n) (KDropCc t) m1 (proj2 HQ1)) as Hn2.
    destruct (run K P (S n) (KDropCc t) m1) as [m2 r1] eqn:E1. cbn [fst snd] in *.
    destruct r1.
    2:{ unfold unwinding in Hrun. destruct (run K P (S n) (KDropFields o (S j)) (m2 <| panicking := true |>)) as [m3 r3].
        destruct r3, (panicking m2); discriminate. }
    2,3: discriminate.
    (* the target was freed by its own Cc::drop *)
    assert (Hfreed : exists yf, get m2 t = Some yf /\ o_box yf = BFreed /\ o_vst yf = VDropped).
    { change (run K P (S n) (KDropCc t) m1) with (step_drop_cc K P (run K P n) t m1) in E1.
      pose proof E1 as E1'. rewrite (step_drop_cc_last_owner K P (run K P n) t m1 xt Hxt1 Hbt Hmk Hrc Hfin) in E1'.
      destruct (run K P n (KDropValue t) (last_owner_mid K t m1)) as [m2v rv] eqn:Ev.
      destruct rv; try discriminate.
      assert (HGv : GR A n (KDropValue t) (last_owner_mid K t m1) = (m2v, ONormal)).
      { rewrite SafeCollGuard.guard_pass by (apply Q_mid, HQ1). exact Ev. }
      destruct (last_owner K P (PreC K) (PostC K) (GR A n) (guarded_rec_ok A n) b E t m1 xt m2v Hpre1 Hxt1 Hmk Hrc Hfin HGv)
        as (mf & yf & Hs & Hg & Hbf & Hvf & _).
      assert (Hcl : step_drop_cc K P (GR A n) t m1 = step_drop_cc K P (run K P n) t m1).
      { apply (SafeCollGuard.closure K P (Qdec K) A (run K P n) (KDropCc t) m1 (Buf.run_buf K P n) (SafeCollNf.run_nofuel K P n) eq_refl HQ1). }
      rewrite Hcl, E1 in Hs. injection Hs as <-. eauto. }
    destruct Hfreed as (yf & Hyf & Hbf & Hvf).
    (* the rest of the glue keeps it that way *)
    destruct (Cur_call_n K (PostC K) (KDropCc t) _ _ _ _ _ _ _ _ _ eq_refl C1 HP1 (cnt_le_refl E) (or_introl eq_refl)) as [C2 _].
    assert (HF12 : Fr K E None m1 m2) by (rewrite Post_nc in HP1 by reflexivity; apply HP1).
    destruct (fr_obj _ _ _ _ _ HF12 o x1 Hx1) as (x2 & Hx2 & OF2).
    destruct (of_dropping _ _ _ _ _ _ _ OF2 Hv) as (V2 & _); [discriminate|].
    assert (Hpre2 : Pre K (PreC K) b E (KDropFields o (S j)) m2).
    { rewrite Pre_nc by reflexivity. cbn [own_of app]. split; [apply C2|]. split; [apply C2|]. exists x2. auto. }
    assert (HQ2 : Q K A (KDropFields o (S j)) m2).
    { split; [cbn; apply HG2; discriminate | apply Hn2; discriminate]. }
    pose proof (run_okQ K P Hconf Hwf (S n) b E A (KDropFields o (S j)) m2 Hpre2 HQ2) as HP2.
    rewrite Hrun in HP2. cbn [fst snd] in HP2. rewrite Post_nc in HP2 by reflexivity.
    destruct HP2 as (_ & _ & HF2 & _).
    destruct (fr_obj _ _ _ _ _ HF2 t yf Hyf) as (y & Hy & OFt).
    exists y. split; [exact Hy|]. split; [apply (of_box2 _ _ _ _ _ _ _ OFt Hbf) | apply (of_dropped _ _ _ _ _ _ _ OFt Hvf)].
  Qed.
End Own.

Print Assumptions owned_field_freed.

(** OPEN (C04, "everything it solely owned, recursively"): the statement above is about the field
    that the CURRENT step of the drop glue drops, with the hypotheses on the target taken in the
    state where that step starts.  For the later fields of the same value, for the value's
    first field seen from the entry of [Cc::drop] (the Drop impl runs in between), and for the
    recursive closure [SolelyOwned], one needs that the header of a solely-owned target
    ([h_rc = 1], its only handle being a field of a value whose destruction is running) is
    not changed by the activations that run in between (the Drop impl of the owner, the drops
    of the earlier fields and everything they call).  That is true of the machine (nothing can
    obtain a second handle: the owner is [VDropping], [node_via_slot]/[self_node] refuse it,
    and [wf_prog] keeps the owner's Drop impl away from its own fields) but it is NOT a
    consequence of part A's post-conditions: [InvP.Fr]/[ObjFr] constrain box / value state /
    dying-set membership / marks of PROTECTED objects and the fields of dying-set members
    ([of_dead]) or of values under destruction ([of_dropping]); they say nothing about the
    strong count of an unprotected object.  The missing frame conjunct would be
      [of_sole : (refs m o + cnt_id o E_all = 1 held by a VDropping holder p, ex <> Some p)
                 -> o_hdr x' = o_hdr x /\ o_vst x' = o_vst x /\ o_box x' = o_box x]
    (or, more generally, "an object none of whose holders is reachable by the activation is
    unchanged"), to be proved in part A for every non-collector activation; with it the
    recursive theorem follows from [owned_field_freed] by induction on the fuel. *)
