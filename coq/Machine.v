(** * Machine: the hand-written executable model of rust-cc (src/cc.rs, src/lib.rs,
    src/lists.rs, src/weak/mod.rs, src/cleaners/mod.rs, src/utils.rs, src/state.rs).

    A fuelled, defunctionalised big-step interpreter: [run fuel call m] executes one
    activation of the crate's code (or of the test program's code) on machine state [m] and
    returns the new state and how the activation ended (normal return, unwinding panic, process
    abort, out of fuel).  User callbacks (finalizers, Drop impls, cleaning actions, new_cyclic
    closures) are scripts of the same command language and re-enter [run]; Trace::trace has no
    script (its contract only allows reporting children or panicking), so the two tracing
    phases are the closed functions [trace_counting]/[trace_roots].

    Only definitions live here (the file is extracted to OCaml and must keep running when a
    proof breaks).  Every transition cites the Rust code it transcribes. *)
From Coq Require Import NArith Bool List.
From stdpp Require Import base list option.
From RecordUpdate Require Import RecordSet.
From RC Require Import Hdr.
Import ListNotations RecordSetNotations.
Local Open Scope N_scope.

Definition id := nat.

(** ** Program text *)
Inductive loc := LS (i : nat) | LFS (j : nat) | LFA (i j : nat).
Inductive wloc := WS (i : nat) | WFS (j : nat) | WFA (i j : nat) | WP.
Inductive nodeloc := NSelf | NSlot (i : nat).
Inductive cbkind := KTrace | KFin | KDrop | KAction | KClosure.

Inductive cmd :=
| CNew (dst : loc) (cls : nat)
| CClone (src dst : loc)
| CDrop (l : loc)
| CMove (src dst : loc)
| CMarkAlive (l : loc)
| CCollect
| CDowngrade (l : loc) (w : wloc)
| CUpgrade (w : wloc) (dst : loc)
| CWNew (w : wloc)
| CWClone (src dst : wloc)
| CWDrop (w : wloc)
| CTryUnwrap (l : loc) (v : nat)
| CDropValue (v : nat)
| CFinAgain (l : loc)
| CNewCyclic (dst : loc) (cls : nat) (script : nat) (selfweak : bool)
| CRegister (n : nodeloc) (script : nat) (c : nat)
| CClean (c : nat)
| CCDrop (c : nat)
| CBag (l : loc) (n : N)
| CUnbag (n : N)
| CBorrow (n : nodeloc)
| CUnborrow (n : nodeloc)
| CCfgAuto (b : bool)
| CCfgPercent (num e : N)      (* adjustment_percent = num / 2^e, an exact f64 *)
| CCfgBuffered (n : N)         (* 0 = None *)
| CArm (k : cbkind) (n : N)
| CPanic
| CObs (l : loc)
| CWObs (w : wloc)
| CSObs.

Record cls := Cls {
  c_nf : nat;                 (* number of Cc-typed fields *)
  c_traced : list bool;       (* which of them Trace::trace reports *)
  c_nw : nat;                 (* number of Weak-typed fields *)
  c_cleaner : bool;           (* has a Cleaner field *)
  c_fin : option nat;         (* finalizer script *)
  c_drop : option nat;        (* Drop script *)
}.

Record prog := Prog {
  p_classes : list cls;
  p_scripts : list (list cmd);
  p_main : list cmd;
}.

(** Static configuration: cargo features, build profile, measured layouts. *)
Record conf := Conf {
  k_fin : bool; k_weak : bool; k_clean : bool; k_auto : bool; k_debug : bool;
  k_nsize : N; k_nalign : N;      (* Layout of CcBox<Node> *)
  k_msize : N; k_malign : N;      (* Layout of CcBox<CleanerMap> *)
  k_thr0 : N;                     (* DEFAULT_BYTES_THRESHOLD (generated) *)
}.

(** ** Heap objects *)
Inductive vstate := VLive | VUninit | VDropping | VDropped | VMoved.
Inductive bstate := BNotYet | BAlloc | BFreed.
Inductive wref := WNull | WTo (o : id).
Inductive mslot := MVacant | MAction (aid script : nat).

Record side := Side { sd_wk : wk; sd_freed : bool }.

Record obj := Obj {
  o_hdr : hdr;
  o_vst : vstate;
  o_box : bstate;
  o_side : option side;
  o_cls : nat;
  o_ismap : bool;                    (* a CleanerMap allocation *)
  o_fields : list (option id);       (* Cc-typed fields, in drop order *)
  o_wfields : list (option wref);    (* Weak-typed fields *)
  o_cleaner : option id;             (* Cleaner { cleaner_map: Option<Cc<CleanerMap>> } *)
  o_borrowed : bool;                 (* the RefCell around the fields is mutably borrowed *)
  o_mslots : list mslot;             (* CleanerMap: slot vector *)
  o_mfree : list nat;                (* CleanerMap: free list, head first *)
  o_mborrowed : bool;                (* CleanerMap: RefCell<SlotMap> mutably borrowed *)
}.
#[export] Instance eta_obj : Settable _ :=
  settable! Obj <o_hdr; o_vst; o_box; o_side; o_cls; o_ismap; o_fields; o_wfields; o_cleaner;
                 o_borrowed; o_mslots; o_mfree; o_mborrowed>.

Record cref := Cref { cr_map : id; cr_slot : nat; cr_aid : nat }.

(** ** Events *)
Record flags := Flags { fl_c : bool; fl_f : bool; fl_d : bool; fl_t : bool }.
Inductive bad := UseAfterDrop | UseAfterFree | DoubleDrop | DoubleFree | UninitDrop
               | AssertFail | Underflow | BadState | Abort | Fuel.
Inductive res := ROk | RSkip | RSome (o : id) | RNone | RUnwrapOk | RUnwrapErr | RPanicked.
Inductive event :=
| ECb (k : cbkind) (o : nat) (f : flags)
| EAlloc (o : id) (size align : N)
| EFree (o : id) (size align : N)
| ESAlloc (o : id)
| ESFree (o : id)
| ERes (r : res)
| EObs (o : id) (rc wc : N) (fin : bool) (alive : bool)
| EWObs (sc wc : N)
| ESObs (bytes : N) (buffered : option N) (exec : N) (tracing : bool)
| EBad (b : bad) (o : nat).

(** ** Machine state *)
Record machine := Machine {
  heap : list obj;
  pc : list id;             (* POSSIBLE_CYCLES, front first *)
  pc_size : N;              (* its cached size *)
  pc_alive : bool;          (* the thread-local has not been destroyed *)
  st_collecting : bool; st_finalizing : bool; st_dropping : bool;
  st_alloc : N; st_exec : N;
  cf_thr : N; cf_pnum : N; cf_pexp : N; cf_buf : N; cf_auto : bool;
  slots : list (option id);
  wslots : list (option wref);
  cslots : list (option cref);
  values : list (option id);     (* values moved out by try_unwrap *)
  bag : list id;
  wparam : list wref;            (* the &Weak parameter of running new_cyclic closures *)
  fuse_trace : N; fuse_fin : N; fuse_drop : N; fuse_action : N; fuse_closure : N;
  panicking : bool;              (* the thread is unwinding *)
  next_aid : nat;
  log : list event;              (* newest first *)
  dead : list id;                (* GHOST (never read by the interpreter): every object that ever
                                    entered the collector's drop pass; they are freed when the pass
                                    completes and abandoned (leaked, unreachable) when it unwinds *)
}.
#[export] Instance eta_machine : Settable _ :=
  settable! Machine <heap; pc; pc_size; pc_alive; st_collecting; st_finalizing; st_dropping;
                     st_alloc; st_exec; cf_thr; cf_pnum; cf_pexp; cf_buf; cf_auto;
                     slots; wslots; cslots; values; bag; wparam;
                     fuse_trace; fuse_fin; fuse_drop; fuse_action; fuse_closure;
                     panicking; next_aid; log; dead>.

Inductive outcome := ONormal | OPanic | OAbort | OFuel.

Definition nslots : nat := 6.

(** Config::new (src/config.rs) and State::new (src/state.rs); 0.1 = 3602879701896397 / 2^55. *)
Definition init (K : conf) : machine :=
  Machine [] [] 0 true false false false 0 0
          (k_thr0 K) 3602879701896397 55 0 true
          (replicate nslots None) (replicate nslots None) (replicate nslots None)
          (replicate nslots None) [] []
          0 0 0 0 0 false 0%nat [] [].

Section Model.
  Context (K : conf) (P : prog).

  Definition emit (e : event) (m : machine) : machine := m <| log ::= cons e |>.
  Definition emit_bad (b : bad) (o : nat) (m : machine) : machine := emit (EBad b o) m.

  Definition get (m : machine) (o : id) : option obj := heap m !! o.
  Definition upd (o : id) (f : obj -> obj) (m : machine) : machine :=
    m <| heap ::= alter f o |>.
  Definition uhdr (o : id) (f : hdr -> hdr) (m : machine) : machine :=
    upd o (fun x => x <| o_hdr ::= f |>) m.
  Definition hdr_of (m : machine) (o : id) : hdr :=
    match get m o with Some x => o_hdr x | None => hdr_new false end.

  Definition cur_flags (m : machine) : flags :=
    Flags (st_collecting m) (st_finalizing m) (st_dropping m)
          (is_tracing_spec (k_fin K) (st_collecting m) (st_finalizing m) (st_dropping m)).

  Definition class_of (c : nat) : cls :=
    default (Cls 0 [] 0 false None None) (p_classes P !! c).
  Definition script_of (s : nat) : list cmd := default [] (p_scripts P !! s).
  Definition oscript (s : option nat) : list cmd :=
    match s with Some i => script_of i | None => [] end.

  (** *** Fuses: the k-th callback of a kind panics. *)
  Definition get_fuse (k : cbkind) (m : machine) : N :=
    match k with KTrace => fuse_trace m | KFin => fuse_fin m | KDrop => fuse_drop m
               | KAction => fuse_action m | KClosure => fuse_closure m end.
  Definition set_fuse (k : cbkind) (n : N) (m : machine) : machine :=
    match k with
    | KTrace => m <| fuse_trace := n |> | KFin => m <| fuse_fin := n |>
    | KDrop => m <| fuse_drop := n |> | KAction => m <| fuse_action := n |>
    | KClosure => m <| fuse_closure := n |> end.
  (** returns [true] when the callback must panic now *)
  Definition tick (k : cbkind) (m : machine) : machine * bool :=
    let n := get_fuse k m in
    if n =? 0 then (m, false) else (set_fuse k (n - 1) m, n =? 1).

  Definition raise (m : machine) : outcome := if panicking m then OAbort else OPanic.

  (** *** The buffer (src/cc.rs:508-555, src/lists.rs:186-347) *)
  Definition remove_id (x : id) (l : list id) : list id := filter (fun y => y ≠ x) l.

  Definition dec_size (o : id) (m : machine) : machine :=
    if pc_size m =? 0 then emit_bad Underflow o m else m <| pc_size ::= fun n => n - 1 |>.

  (** remove_from_list, cc.rs:508 *)
  Definition remove_from_list (o : id) (m : machine) : machine :=
    if is_in_pc (hdr_of m o) then
      if pc_alive m then
        dec_size o (uhdr o (set_mark NM) m <| pc ::= remove_id o |>)
      else m
    else m.

  (** add_to_list, cc.rs:530 *)
  Definition add_to_list (o : id) (m : machine) : machine :=
    if is_in_pc (hdr_of m o) then m
    else if pc_alive m then
      let m := if is_not_marked (hdr_of m o) && negb (is_dropped (hdr_of m o)) then m
               else emit_bad AssertFail o m in
      uhdr o (fun h => set_mark PC (reset_tc h)) (m <| pc ::= cons o |> <| pc_size ::= N.succ |>)
    else m.

  (** decrement_counter with its debug_assert (cc.rs:256) *)
  Definition dec_rc_m (o : id) (m : machine) : machine :=
    match dec_rc (hdr_of m o) with
    | Some h => uhdr o (fun _ => h) m
    | None => emit_bad AssertFail o m
    end.

  (** *** Allocation accounting (src/utils.rs, src/state.rs) *)
  Definition box_layout (x : obj) : N * N :=
    if o_ismap x then (k_msize K, k_malign K) else (k_nsize K, k_nalign K).

  Definition dealloc (o : id) (m : machine) : machine :=
    match get m o with
    | Some x =>
      let '(sz, al) := box_layout x in
      let m := match o_box x with BAlloc => m | _ => emit_bad DoubleFree o m end in
      let m := if st_alloc m <? sz then emit_bad Underflow o m else m in
      emit (EFree o sz al) (upd o (fun x => x <| o_box := BFreed |>) (m <| st_alloc ::= fun a => a - sz |>))
    | None => emit_bad BadState o m
    end.

  (** *** The weak side record *)
  Definition sfree (o : id) (m : machine) : machine :=
    match get m o with
    | Some x =>
      match o_side x with
      | Some s =>
        let m := if sd_freed s then emit_bad DoubleFree o m else m in
        emit (ESFree o) (upd o (fun x => x <| o_side := Some (Side (sd_wk s) true) |>) m)
      | None => emit_bad BadState o m
      end
    | None => emit_bad BadState o m
    end.

  Definition uside (o : id) (f : wk -> wk) (m : machine) : machine :=
    upd o (fun x => x <| o_side ::= fmap (fun s => Side (f (sd_wk s)) (sd_freed s)) |>) m.

  (** drop_metadata, cc.rs:466 *)
  Definition drop_metadata (o : id) (m : machine) : machine :=
    if negb (k_weak K) then m else
    match get m o with
    | Some x =>
      if h_side (o_hdr x) then
        match o_side x with
        | Some s =>
          let m := if sd_freed s then emit_bad UseAfterFree o m else m in
          if w_cnt (sd_wk s) =? 0 then sfree o m else uside o (set_acc false) m
        | None => emit_bad BadState o m
        end
      else m
    | None => emit_bad BadState o m
    end.

  (** get_or_init_metadata, cc.rs:440 *)
  Definition init_side (o : id) (m : machine) : machine :=
    match get m o with
    | Some x =>
      if h_side (o_hdr x) then m
      else emit (ESAlloc o)
             (upd o (fun x => x <| o_side := Some (Side (wk_new true) false) |>
                                <| o_hdr ::= set_side true |>) m)
    | None => emit_bad BadState o m
    end.

  Definition side_wk (m : machine) (o : id) : option wk :=
    x ← get m o; s ← o_side x; Some (sd_wk s).

  (** Weak::strong_count, weak/mod.rs:102 *)
  Definition weak_strong_count (w : wref) (m : machine) : machine * N :=
    match w with
    | WNull => (m, 0)
    | WTo o =>
      match get m o with
      | Some x =>
        match o_side x with
        | Some s =>
          let m := if sd_freed s then emit_bad UseAfterFree o m else m in
          if w_acc (sd_wk s) then
            let m := match o_box x with BAlloc => m | _ => emit_bad UseAfterFree o m end in
            let h := o_hdr x in
            if (h_rc h =? 0) || is_dropped h || (is_in_list_or_queue h && st_dropping m)
            then (m, 0) else (m, h_rc h)
          else (m, 0)
        | None => (emit_bad BadState o m, 0)
        end
      | None => (emit_bad BadState o m, 0)
      end
    end.

  (** Weak::weak_count *)
  Definition weak_weak_count (w : wref) (m : machine) : machine * N :=
    match w with
    | WNull => (m, 0)
    | WTo o =>
      match get m o with
      | Some x =>
        match o_side x with
        | Some s =>
          ((if sd_freed s then emit_bad UseAfterFree o m else m), w_cnt (sd_wk s))
        | None => (emit_bad BadState o m, 0)
        end
      | None => (emit_bad BadState o m, 0)
      end
    end.

  (** Weak::clone, weak/mod.rs:141: [None] = panic *)
  Definition weak_clone (w : wref) (m : machine) : option machine :=
    match w with
    | WNull => Some m
    | WTo o =>
      match side_wk m o with
      | Some k => match inc_wk k with
                  | Some k' => Some (uside o (fun _ => k') m)
                  | None => None
                  end
      | None => Some (emit_bad BadState o m)
      end
    end.

  (** Weak::drop, weak/mod.rs:163 *)
  Definition weak_drop (w : wref) (m : machine) : machine :=
    match w with
    | WNull => m
    | WTo o =>
      match get m o with
      | Some x =>
        match o_side x with
        | Some s =>
          let m := if sd_freed s then emit_bad UseAfterFree o m else m in
          match dec_wk (sd_wk s) with
          | Some k' =>
            let m := uside o (fun _ => k') m in
            if (w_cnt k' =? 0) && negb (w_acc k') then sfree o m else m
          | None => emit_bad AssertFail o m
          end
        | None => emit_bad BadState o m
        end
      | None => emit_bad BadState o m
      end
    end.

  Definition weak_drop_opt (w : option wref) (m : machine) : machine :=
    match w with Some w => weak_drop w m | None => m end.

  (** *** Locations *)
  Inductive rloc := RSlot (i : nat) | RField (o : id) (j : nat).
  Inductive rwloc := RWSlot (i : nat) | RWField (o : id) (j : nat) | RWParam.

  Definition value_accessible (self_access : bool) (x : obj) : bool :=
    match o_vst x with
    | VLive => true
    | VDropping => self_access
    | _ => false
    end.

  (** the object designated by slot [i], for access to its fields through a live handle *)
  Definition node_via_slot (i : nat) (m : machine) : machine * option id :=
    match slots m !! i with
    | Some (Some o) =>
      match get m o with
      | Some x =>
        match o_box x with
        | BAlloc => if value_accessible false x && negb (o_ismap x) then (m, Some o)
                    else (emit_bad UseAfterDrop o m, None)
        | _ => (emit_bad UseAfterFree o m, None)
        end
      | None => (emit_bad BadState o m, None)
      end
    | _ => (m, None)
    end.

  Definition self_node (self : option id) (m : machine) : option id :=
    match self with
    | Some o => match get m o with
                | Some x => if value_accessible true x then Some o else None
                | None => None
                end
    | None => None
    end.

  Definition resolve (self : option id) (l : loc) (m : machine) : machine * option rloc :=
    match l with
    | LS i => (m, if decide (i < nslots)%nat then Some (RSlot i) else None)
    | LFS j =>
      match self_node self m with
      | Some o => (m, match get m o with
                      | Some x => if decide (j < length (o_fields x))%nat then Some (RField o j) else None
                      | None => None end)
      | None => (m, None)
      end
    | LFA i j =>
      let '(m, n) := node_via_slot i m in
      match n with
      | Some o => (m, match get m o with
                      | Some x => if decide (j < length (o_fields x))%nat then Some (RField o j) else None
                      | None => None end)
      | None => (m, None)
      end
    end.

  Definition wresolve (self : option id) (l : wloc) (m : machine) : machine * option rwloc :=
    match l with
    | WS i => (m, if decide (i < nslots)%nat then Some (RWSlot i) else None)
    | WFS j =>
      match self_node self m with
      | Some o => (m, match get m o with
                      | Some x => if decide (j < length (o_wfields x))%nat then Some (RWField o j) else None
                      | None => None end)
      | None => (m, None)
      end
    | WFA i j =>
      let '(m, n) := node_via_slot i m in
      match n with
      | Some o => (m, match get m o with
                      | Some x => if decide (j < length (o_wfields x))%nat then Some (RWField o j) else None
                      | None => None end)
      | None => (m, None)
      end
    | WP => (m, match wparam m with _ :: _ => Some RWParam | [] => None end)
    end.

  Definition nresolve (self : option id) (n : nodeloc) (m : machine) : machine * option id :=
    match n with
    | NSelf => (m, self_node self m)
    | NSlot i => node_via_slot i m
    end.

  Definition read_loc (r : rloc) (m : machine) : option id :=
    match r with
    | RSlot i => mjoin (slots m !! i)
    | RField o j => x ← get m o; mjoin (o_fields x !! j)
    end.
  Definition write_loc (r : rloc) (v : option id) (m : machine) : machine :=
    match r with
    | RSlot i => m <| slots ::= <[i := v]> |>
    | RField o j => upd o (fun x => x <| o_fields ::= <[j := v]> |>) m
    end.
  Definition read_wloc (r : rwloc) (m : machine) : option wref :=
    match r with
    | RWSlot i => mjoin (wslots m !! i)
    | RWField o j => x ← get m o; mjoin (o_wfields x !! j)
    | RWParam => head (wparam m)
    end.
  (** the parameter of a new_cyclic closure is a shared reference: it cannot be overwritten *)
  Definition write_wloc (r : rwloc) (v : option wref) (m : machine) : machine :=
    match r with
    | RWSlot i => m <| wslots ::= <[i := v]> |>
    | RWField o j => upd o (fun x => x <| o_wfields ::= <[j := v]> |>) m
    | RWParam => m
    end.
  Definition wloc_writable (r : rwloc) : bool :=
    match r with RWParam => false | _ => true end.

  (** *** Tracing (lib.rs:441-523, cc.rs:609-664) *)
  Definition traced_children (m : machine) (p : id) : machine * list id :=
    match get m p with
    | Some x =>
      if o_ismap x then (m, [])
      else match o_vst x with
           | VLive =>
             if o_borrowed x then (m, [])
             else (m, omap (fun '(f, t) => if (t : bool) then f else None)
                          (zip (o_fields x) (c_traced (class_of (o_cls x)))))
           | _ => (emit_bad UseAfterDrop p m, [])
           end
    | None => (emit_bad BadState p m, [])
    end.

  Definition is_map (m : machine) (o : id) : bool :=
    match get m o with Some x => o_ismap x | None => false end.

  (** entry of a user Trace::trace: the harness logs it and ticks the fuse; CleanerMap's own
      (empty) Trace impl is library code and does neither *)
  Definition trace_event (p : id) (m : machine) : machine * bool :=
    if is_map m p then (m, false)
    else tick KTrace (emit (ECb KTrace p (cur_flags m)) m).

  Record tstate := TState { t_m : machine; t_root : list id; t_non : list id; t_q : list id }.

  (** CcBox::trace, ContextInner::Counting (cc.rs:613-649) *)
  Definition visit_counting (s : tstate) (c : id) : tstate :=
    let m := t_m s in
    match get m c with
    | None => TState (emit_bad BadState c m) (t_root s) (t_non s) (t_q s)
    | Some x =>
      let m := match o_box x with BAlloc => m | _ => emit_bad UseAfterFree c m end in
      let h := o_hdr x in
      if is_in_list_or_queue h then
        let m := if (h_tc h <? h_rc h) && negb (is_dropped h) then m else emit_bad AssertFail c m in
        let h' := default h (inc_tc h) in
        let m := uhdr c (fun _ => h') m in
        if is_in_list h' && (h_rc h' =? h_tc h')
        then TState m (remove_id c (t_root s)) (c :: t_non s) (t_q s)
        else TState m (t_root s) (t_non s) (t_q s)
      else if is_in_pc h then
        let m := if is_dropped h then emit_bad AssertFail c m else m in
        TState (uhdr c (fun h => default h (inc_tc h)) m) (t_root s) (t_non s) (t_q s)
      else
        let m := if is_dropped h then emit_bad AssertFail c m else m in
        TState (uhdr c (fun h => set_mark IQ (default h (inc_tc (reset_tc h)))) m)
               (t_root s) (t_non s) (t_q s ++ [c])
    end.

  (** all marks reset when root_list / non_root_list / queue are dropped (lists.rs:106,434) *)
  Definition unmark_all (l : list id) (m : machine) : machine :=
    fold_left (fun m o => uhdr o (set_mark NM) m) l m.

  (** trace_counting's unwind guard: every object still buffered gets its tracing counter
      zeroed again (lib.rs, trace_counting) *)
  Definition reset_buffered (m : machine) : machine :=
    fold_left (fun m o => uhdr o reset_tc m) (pc m) m.

  (** __trace_counting (lib.rs:461); [p] has been unlinked and un-marked by the caller.
      Returns [None] when the trace call panicked (state already cleaned up). *)
  Definition process_counting (s : tstate) (p : id) : tstate * bool :=
    let m := uhdr p (set_mark IQ) (t_m s) in
    let '(m, boom) := trace_event p m in
    if boom then
      (* ResetMarkDropGuard, then the three lists are dropped *)
      let m := uhdr p (set_mark NM) m in
      let m := unmark_all (t_root s ++ t_non s ++ t_q s) m in
      (TState (reset_buffered m) [] [] [], true)
    else
      let '(m, kids) := traced_children m p in
      let s := fold_left visit_counting kids (TState m (t_root s) (t_non s) (t_q s)) in
      let h := hdr_of (t_m s) p in
      let m := uhdr p (set_mark IL) (t_m s) in
      if h_rc h =? h_tc h then (TState m (t_root s) (p :: t_non s) (t_q s), false)
      else (TState m (p :: t_root s) (t_non s) (t_q s), false).

  (** trace_counting (lib.rs:441): drain the buffer front to back, then the queue *)
  Fixpoint counting (fuel : nat) (s : tstate) : option (tstate * bool) :=
    match fuel with
    | O => None
    | S f =>
      let m := t_m s in
      match pc m with
      | p :: rest =>
        (* PossibleCycles::remove_first, lists.rs:273 *)
        let m := dec_size p (uhdr p (set_mark NM) m <| pc := rest |>) in
        let '(s', boom) := process_counting (TState m (t_root s) (t_non s) (t_q s)) p in
        if boom then Some (s', true) else counting f s'
      | [] =>
        match t_q s with
        | [] => Some (s, false)
        | p :: q' =>
          (* LinkedQueue::poll, lists.rs:407 *)
          let m := uhdr p (set_mark NM) m in
          let '(s', boom) := process_counting (TState m (t_root s) (t_non s) q') p in
          if boom then Some (s', true) else counting f s'
        end
      end
    end.

  (** CcBox::trace, ContextInner::RootTracing (cc.rs:650-662) *)
  Definition visit_root (s : tstate) (c : id) : tstate :=
    let m := t_m s in
    match get m c with
    | None => TState (emit_bad BadState c m) (t_root s) (t_non s) (t_q s)
    | Some x =>
      let m := match o_box x with BAlloc => m | _ => emit_bad UseAfterFree c m end in
      let h := o_hdr x in
      if is_in_list h && (h_rc h =? h_tc h)
      then TState (uhdr c (set_mark IQ) m) (t_root s) (remove_id c (t_non s)) (t_q s ++ [c])
      else TState m (t_root s) (t_non s) (t_q s)
    end.

  (** __trace_roots (lib.rs:512) *)
  Definition process_root (s : tstate) (p : id) : tstate * bool :=
    let '(m, boom) := trace_event p (t_m s) in
    if boom then
      let m := unmark_all (t_root s ++ t_non s ++ t_q s) m in
      (TState m [] [] [], true)
    else
      let '(m, kids) := traced_children m p in
      (fold_left visit_root kids (TState m (t_root s) (t_non s) (t_q s)), false).

  (** trace_roots (lib.rs:492) *)
  Fixpoint roots (fuel : nat) (s : tstate) : option (tstate * bool) :=
    match fuel with
    | O => None
    | S f =>
      match t_root s with
      | p :: rest =>
        let m := uhdr p (set_mark NM) (t_m s) in
        let '(s', boom) := process_root (TState m rest (t_non s) (t_q s)) p in
        if boom then Some (s', true) else roots f s'
      | [] =>
        match t_q s with
        | [] => Some (s, false)
        | p :: q' =>
          let m := uhdr p (set_mark NM) (t_m s) in
          let '(s', boom) := process_root (TState m [] (t_non s) q') p in
          if boom then Some (s', true) else roots f s'
        end
      end
    end.

  Inductive pass_result := PDone (L : list id) | PPanicked | PFuel.

  Definition pass_fuel (m : machine) : nat := (2 * length (heap m) + 2)%nat.

  (** the two tracing phases of __collect (lib.rs:280-288) *)
  Definition trace_pass (m : machine) : machine * pass_result :=
    let fuel := pass_fuel m in
    match counting fuel (TState m [] [] []) with
    | None => (m, PFuel)
    | Some (s, true) => (t_m s, PPanicked)
    | Some (s, false) =>
      match roots fuel s with
      | None => (t_m s, PFuel)
      | Some (s', true) => (t_m s', PPanicked)
      | Some (s', false) => (t_m s', PDone (t_non s'))
      end
    end.

  (** *** Trigger policy (src/config.rs); ConfigSpec proves the generated code equal to this. *)
  Definition should_collect (m : machine) : bool :=
    cf_auto m && ((cf_thr m <? st_alloc m)
                  || (if cf_buf m =? 0 then false else cf_buf m <? pc_size m)).

  (** [x <= thr * (num / 2^e)] evaluated as the real code does: thr and x converted to f64
      (exact below 2^53), the product rounded to nearest-even at 53 bits, then compared. *)
  Definition round53 (p : N) : N * N :=      (* p = q * 2^s after rounding *)
    let b := N.size p in
    if b <=? 53 then (p, 0)
    else let s := b - 53 in
         let q := N.shiftr p s in
         let r := p - N.shiftl q s in
         let half := N.shiftl 1 (s - 1) in
         let q' := if (half <? r) || ((r =? half) && N.odd q) then q + 1 else q in
         (q', s).
  Definition fprod_is_zero (thr num : N) : bool := (thr * num =? 0).
  Definition fle_prod (x thr num e : N) : bool :=
    let '(q, s) := round53 (thr * num) in
    (* x <= q * 2^s / 2^e *)
    N.shiftl x e <=? N.shiftl q s.

  Fixpoint adjust_up (fuel : nat) (thr alloc : N) : N :=
    match fuel with
    | O => thr
    | S f => let t := (thr * 2) mod 18446744073709551616 in
             if alloc <? t then t else adjust_up f t alloc
    end.
  Fixpoint adjust_down (fuel : nat) (thr alloc num e : N) : N :=
    match fuel with
    | O => thr
    | S f =>
      if fle_prod alloc thr num e then
        let t := N.shiftr thr 1 in
        if t <=? alloc then thr
        else if t <=? k_thr0 K then k_thr0 K
        else adjust_down f t alloc num e
      else thr
    end.
  (** Config::adjust *)
  Definition adjust (m : machine) : machine :=
    if cf_thr m <=? st_alloc m then m <| cf_thr := adjust_up 70 (cf_thr m) (st_alloc m) |>
    else if fprod_is_zero (cf_thr m) (cf_pnum m) then m
    else m <| cf_thr := adjust_down 70 (cf_thr m) (st_alloc m) (cf_pnum m) (cf_pexp m) |>.
  Definition adjust_trigger_point (m : machine) : machine :=
    if k_auto K then adjust m else m.

  (** *** Cleaner map helpers (slotmap: LIFO free list) *)
  Definition map_insert (mo : id) (aid script : nat) (m : machine) : machine * nat :=
    match get m mo with
    | Some x =>
      match o_mfree x with
      | i :: fr => (upd mo (fun x => x <| o_mslots ::= <[i := MAction aid script]> |> <| o_mfree := fr |>) m, i)
      | [] => (upd mo (fun x => x <| o_mslots ::= fun l => l ++ [MAction aid script] |>) m,
               length (o_mslots x))
      end
    | None => (emit_bad BadState mo m, 0%nat)
    end.

  (** *** The interpreter *)
  Inductive call :=
  | KCmd (self : option id) (c : cmd)
  | KScript (self : option id) (cs : list cmd)
  | KStore (r : rloc) (v : id)
  | KDropCc (o : id)
  | KDropValue (o : id)
  | KDropFields (o : id) (j : nat)
  | KDropMapSlots (o : id) (j : nat)
  | KTrigger
  | KCollectCycles
  | KCollect
  | KCollectLoop (n : nat)
  | KCollectOnce
  | KFinalizeList (L rest : list id) (any old_f : bool)
  | KDropList (L rest : list id) (old_d : bool)
  | KUnbag (n : nat)
  | KCleanRun (mo : id) (aid script : nat).

  Definition ok (m : machine) (r : res) : machine * outcome := (emit (ERes r) m, ONormal).

  (** run [k] while the thread is unwinding from a panic: the overall outcome stays a panic
      unless the continuation aborts *)
  Definition unwinding (f : machine -> machine * outcome) (m : machine) : machine * outcome :=
    let old := panicking m in
    let '(m', r) := f (m <| panicking := true |>) in
    (m' <| panicking := old |>,
     match r with ONormal | OPanic => (if old then OAbort else OPanic) | OAbort => OAbort | OFuel => OFuel end).

  Definition new_node (cls : nat) (m : machine) : machine * id :=
    let c := class_of cls in
    let o := length (heap m) in
    (m <| heap ::= fun h => h ++ [Obj (hdr_new false) VLive BNotYet None cls false
                                    (replicate (c_nf c) None) (replicate (c_nw c) None) None
                                    false [] [] false] |>, o).
  Definition new_map (m : machine) : machine * id :=
    let o := length (heap m) in
    (m <| heap ::= fun h => h ++ [Obj (hdr_new false) VLive BNotYet None 0 true [] [] None
                                    false [] [] false] |>, o).

  (** CcBox::new + cc_alloc (cc.rs:362, utils.rs:9) *)
  Definition box_alloc (o : id) (m : machine) : machine :=
    match get m o with
    | Some x =>
      let '(sz, al) := box_layout x in
      let fin := k_fin K && st_finalizing m in
      emit (EAlloc o sz al)
           (upd o (fun x => x <| o_box := BAlloc |> <| o_hdr := hdr_new fin |>)
                (m <| st_alloc ::= fun a => a + sz |>))
    | None => emit_bad BadState o m
    end.

  (** One activation of the crate's (or the test program's) code, with the recursive calls
      abstracted as [rec] (open recursion): [run (S n) = step (run n)]. Every activation kind is a
      separate definition so that proofs can be stated and checked per case. *)
  Section Step.
  Context (rec : call -> machine -> machine * outcome).

  Definition step_script (self : option id) (cs : list cmd) (m : machine) : machine * outcome :=
    match cs with
    | [] => (m, ONormal)
    | c :: cs' =>
      let '(m, r) := rec (KCmd self c) m in
      match r with ONormal => rec (KScript self cs') m | _ => (m, r) end
    end.

  Definition step_store (r : rloc) (v : id) (m : machine) : machine * outcome :=
    let old := read_loc r m in
    let m := write_loc r (Some v) m in
    match old with
    | Some t => rec (KDropCc t) m
    | None => (m, ONormal)
    end.

  Definition step_drop_cc (o : id) (m : machine) : machine * outcome :=
    match get m o with
    | None => (emit_bad BadState o m, ONormal)
    | Some x =>
      let m := match o_box x with BAlloc => m | _ => emit_bad UseAfterFree o m end in
      let h := o_hdr x in
      if is_in_list_or_queue h then (dec_rc_m o m, ONormal)
      else if h_rc h =? 1 then
        let fin_step (m : machine) : machine * outcome * bool (* continue to the drop? *) :=
          if k_fin K && needs_fin h then
            let old_f := st_finalizing m in
            let m := m <| st_finalizing := true |> in
            let m := uhdr o (set_fin true) m in
            let '(m, r) :=
              if o_ismap x then (m, ONormal)    (* Finalize for CleanerMap is empty *)
              else
                let m := emit (ECb KFin o (cur_flags m)) m in
                let '(m, boom) := tick KFin m in
                if boom then (m, raise m)
                else rec (KScript (Some o) (oscript (c_fin (class_of (o_cls x))))) m in
            match r with
            | ONormal =>
              if h_rc (hdr_of m o) =? 1 then (m <| st_finalizing := old_f |>, ONormal, true)
              else (* resurrected: handle_possible_cycle, then the guard *)
                (add_to_list o (dec_rc_m o m) <| st_finalizing := old_f |>, ONormal, false)
            | _ => (m <| st_finalizing := old_f |>, r, false)
            end
          else (m, ONormal, true) in
        let '(m, r, go) := fin_step m in
        if negb go then (m, r)
        else
          let m := dec_rc_m o m in
          let m := remove_from_list o m in
          let old_d := st_dropping m in
          let m := m <| st_dropping := true |> in
          let m := if k_weak K then uhdr o set_dropped m else m in
          let '(m, r) := rec (KDropValue o) m in
          match r with
          | ONormal =>
            let m := drop_metadata o m in
            let m := dealloc o m in
            (m <| st_dropping := old_d |>, ONormal)
          | _ => (m <| st_dropping := old_d |>, r)
          end
      else (add_to_list o (dec_rc_m o m), ONormal)
    end.

  Definition step_drop_value (o : id) (m : machine) : machine * outcome :=
    match get m o with
    | None => (emit_bad BadState o m, ONormal)
    | Some x =>
      match o_vst x with
      | VUninit => (emit_bad UninitDrop o m, ONormal)
      | VLive | VMoved =>
        let m := upd o (fun x => x <| o_vst := VDropping |>) m in
        if o_ismap x then
          (* CleanerMap has no Drop impl; its SlotMap drops the occupied slots in order *)
          let '(m, r) := rec (KDropMapSlots o 0) m in
          (upd o (fun x => x <| o_vst := VDropped |>) m, r)
        else
          let m := emit (ECb KDrop o (cur_flags m)) m in
          let '(m, boom) := tick KDrop m in
          let '(m, r) := if boom then (m, raise m)
                         else rec (KScript (Some o) (oscript (c_drop (class_of (o_cls x))))) m in
          let '(m, r) :=
            match r with
            | ONormal => rec (KDropFields o 0) m
            | OPanic => unwinding (rec (KDropFields o 0)) m
            | _ => (m, r)
            end in
          (upd o (fun x => x <| o_vst := VDropped |>) m, r)
      | _ => (emit_bad DoubleDrop o m, ONormal)
      end
    end.

  Definition step_drop_fields (o : id) (j : nat) (m : machine) : machine * outcome :=
    match get m o with
    | None => (emit_bad BadState o m, ONormal)
    | Some x =>
      if decide (j < length (o_fields x))%nat then
        let f := mjoin (o_fields x !! j) in
        let m := upd o (fun x => x <| o_fields ::= <[j := None]> |>) m in
        let '(m, r) := match f with Some t => rec (KDropCc t) m | None => (m, ONormal) end in
        match r with
        | ONormal => rec (KDropFields o (S j)) m
        | OPanic => unwinding (rec (KDropFields o (S j))) m
        | _ => (m, r)
        end
      else
        let m := fold_left (fun m w => weak_drop_opt w m) (o_wfields x) m in
        let m := upd o (fun x => x <| o_wfields ::= fmap (fun _ => None) |>) m in
        match o_cleaner x with
        | Some t => rec (KDropCc t) (upd o (fun x => x <| o_cleaner := None |>) m)
        | None => (m, ONormal)
        end
    end.

  Definition step_drop_map_slots (o : id) (j : nat) (m : machine) : machine * outcome :=
    match get m o with
    | None => (emit_bad BadState o m, ONormal)
    | Some x =>
      match o_mslots x !! j with
      | None => (m, ONormal)
      | Some sl =>
        let m := upd o (fun x => x <| o_mslots ::= <[j := MVacant]> |>) m in
        let '(m, r) :=
          match sl with
          | MAction aid script => rec (KCleanRun o aid script) m
          | MVacant => (m, ONormal)
          end in
        match r with
        | ONormal => rec (KDropMapSlots o (S j)) m
        | OPanic => unwinding (rec (KDropMapSlots o (S j))) m
        | _ => (m, r)
        end
      end
    end.

  Definition step_clean_run (mo : id) (aid script : nat) (m : machine) : machine * outcome :=
    let m := emit (ECb KAction aid (cur_flags m)) m in
    let '(m, boom) := tick KAction m in
    if boom then (m, raise m) else rec (KScript None (script_of script)) m.

  Definition step_trigger  (m : machine) : machine * outcome :=
    if st_collecting m then (m, ONormal)
    else if negb (pc_alive m) then (m, ONormal)
    else if should_collect m then
      let '(m, r) := rec KCollect m in
      match r with ONormal => (adjust_trigger_point m, ONormal) | _ => (m, r) end
    else (m, ONormal).

  Definition step_collect_cycles  (m : machine) : machine * outcome :=
    if st_collecting m then (m, ONormal)
    else
      let '(m, r) := if pc_alive m then rec KCollect m else (m, ONormal) in
      match r with ONormal => (adjust_trigger_point m, ONormal) | _ => (m, r) end.

  Definition step_collect  (m : machine) : machine * outcome :=
    let m := m <| st_collecting := true |> <| st_exec ::= N.succ |> in
    let '(m, r) := rec (KCollectLoop (if k_fin K then 10 else 1)%nat) m in
    (m <| st_collecting := false |>, r).

  Definition step_collect_loop (k : nat) (m : machine) : machine * outcome :=
    match k with
    | O => (m, ONormal)
    | S k' =>
      match pc m with
      | [] => (m, ONormal)
      | _ =>
        let '(m, r) := rec KCollectOnce m in
        match r with ONormal => rec (KCollectLoop k') m | _ => (m, r) end
      end
    end.

  Definition step_collect_once  (m : machine) : machine * outcome :=
    (* the tracing phases run with finalizing/dropping cleared; the two guards restore the
       caller's values afterwards, also when tracing unwinds (lib.rs, __collect) *)
    let old_f := st_finalizing m in
    let old_d := st_dropping m in
    let '(m, pr) := trace_pass (m <| st_finalizing := false |> <| st_dropping := false |>) in
    let m := m <| st_finalizing := old_f |> <| st_dropping := old_d |> in
    match pr with
    | PFuel => (emit_bad Fuel 0 m, OFuel)
    | PPanicked => (m, raise m)
    | PDone L =>
      match L with
      | [] => (m, ONormal)
      | _ =>
        if k_fin K then
          let old_f := st_finalizing m in
          rec (KFinalizeList L L false old_f) (m <| st_finalizing := true |>)
        else
          let old_d := st_dropping m in
          rec (KDropList L L old_d) (m <| st_dropping := true |> <| dead ::= app L |>)
      end
    end.

  Definition step_finalize_list (L rest : list id) (any old_f : bool) (m : machine) : machine * outcome :=
    match rest with
    | g :: rest' =>
      let h := hdr_of m g in
      if needs_fin h then
        (* CcBox::finalize_inner, cc.rs:566 *)
        let m := uhdr g (set_fin true) m in
        let '(m, r) :=
          if is_map m g then (m, ONormal)
          else
            let m := emit (ECb KFin g (cur_flags m)) m in
            let '(m, boom) := tick KFin m in
            if boom then (m, raise m)
            else match get m g with
                 | Some x => rec (KScript (Some g) (oscript (c_fin (class_of (o_cls x))))) m
                 | None => (m, ONormal)
                 end in
        match r with
        | ONormal => rec (KFinalizeList L rest' true old_f) m
        | _ =>
          (* unwinding: the guard, then non_root_list's Drop *)
          (unmark_all L (m <| st_finalizing := old_f |>), r)
        end
      else rec (KFinalizeList L rest' any old_f) m
    | [] =>
      let m := m <| st_finalizing := old_f |> in
      if negb any then
        let old_d := st_dropping m in
        rec (KDropList L L old_d) (m <| st_dropping := true |> <| dead ::= app L |>)
      else
        (* swap_list + mark_self_and_append (lists.rs:306-336) *)
        let m := fold_left (fun m g => uhdr g (fun h => set_mark PC (reset_tc h)) m) L m in
        (m <| pc ::= fun old => L ++ old |> <| pc_size ::= fun s => N.of_nat (length L) + s |>, ONormal)
    end.

  Definition step_drop_list (L rest : list id) (old_d : bool) (m : machine) : machine * outcome :=
    match rest with
    | g :: rest' =>
      (* CcBox::drop_inner, cc.rs:584 *)
      let m := if is_in_list (hdr_of m g) then m else emit_bad AssertFail g m in
      let m := if k_weak K then uhdr g set_dropped m else m in
      let '(m, r) := rec (KDropValue g) m in
      match r with
      | ONormal => rec (KDropList L rest' old_d) m
      | _ =>
        (* ToDropList::drop: unlink + un-mark (+ set dropped with weak-ptrs) every member *)
        let m := fold_left (fun m g => uhdr g (fun h => let h := set_mark NM h in
                                                      if k_weak K then set_dropped h else h) m) L m in
        (m <| st_dropping := old_d |>, r)
      end
    | [] =>
      let m := fold_left (fun m g => dealloc g (drop_metadata g m)) L m in
      (m <| st_dropping := old_d |>, ONormal)
    end.

  Definition step_unbag (k : nat) (m : machine) : machine * outcome :=
    match k with
    | O => (m, ONormal)
    | S k' =>
      match bag m with
      | [] => (m, ONormal)
      | o :: b =>
        let '(m, r) := rec (KDropCc o) (m <| bag := b |>) in
        match r with ONormal => rec (KUnbag k') m | _ => (m, r) end
      end
    end.

  Definition cmd_new (self : option id) (dst : loc) (cls : nat) (m : machine) : machine * outcome :=
    let '(m, r) := resolve self dst m in
    match r with
    | None => ok m RSkip
    | Some r =>
      let '(m, o) := new_node cls m in
      let '(m, t) := if k_auto K then rec KTrigger m else (m, ONormal) in
      match t with
      | ONormal =>
        let m := box_alloc o m in
        let '(m, r') := rec (KStore r o) m in
        match r' with ONormal => ok m ROk | _ => (m, r') end
      | OPanic => unwinding (rec (KDropValue o)) m    (* the by-value argument *)
      | _ => (m, t)
      end
    end
  
  (* Clone for Cc (cc.rs:199) *).

  Definition cmd_clone (self : option id) (src dst : loc) (m : machine) : machine * outcome :=
    let '(m, rs) := resolve self src m in
    let '(m, rd) := resolve self dst m in
    match rs, rd with
    | Some rs, Some rd =>
      match read_loc rs m with
      | None => ok m RSkip
      | Some o =>
        match inc_rc (hdr_of m o) with
        | None => (m, raise m)
        | Some h =>
          let m := remove_from_list o (uhdr o (fun _ => h) m) in
          let '(m, r') := rec (KStore rd o) m in
          match r' with ONormal => ok m ROk | _ => (m, r') end
        end
      end
    | _, _ => ok m RSkip
    end.

  Definition cmd_drop (self : option id) (l : loc) (m : machine) : machine * outcome :=
    let '(m, r) := resolve self l m in
    match r with
    | None => ok m RSkip
    | Some r =>
      match read_loc r m with
      | None => ok m RSkip
      | Some o =>
        let '(m, r') := rec (KDropCc o) (write_loc r None m) in
        match r' with ONormal => ok m ROk | _ => (m, r') end
      end
    end.

  Definition cmd_move (self : option id) (src dst : loc) (m : machine) : machine * outcome :=
    let '(m, rs) := resolve self src m in
    let '(m, rd) := resolve self dst m in
    match rs, rd with
    | Some rs, Some rd =>
      match read_loc rs m with
      | None => ok m RSkip
      | Some o =>
        let '(m, r') := rec (KStore rd o) (write_loc rs None m) in
        match r' with ONormal => ok m ROk | _ => (m, r') end
      end
    | _, _ => ok m RSkip
    end
  
  (* Cc::mark_alive (cc.rs:168) *).

  Definition cmd_mark_alive (self : option id) (l : loc) (m : machine) : machine * outcome :=
    let '(m, r) := resolve self l m in
    match (r ≫= (fun r => read_loc r m)) with
    | None => ok m RSkip
    | Some o => ok (remove_from_list o m) ROk
    end.

  Definition cmd_collect (self : option id)  (m : machine) : machine * outcome :=
    let '(m, r) := rec KCollectCycles m in
    match r with ONormal => ok m ROk | _ => (m, r) end
  
  (* Cc::downgrade (weak/mod.rs:346) *).

  Definition cmd_downgrade (self : option id) (l : loc) (w : wloc) (m : machine) : machine * outcome :=
    if negb (k_weak K) then ok m RSkip else
    let '(m, r) := resolve self l m in
    let '(m, rw) := wresolve self w m in
    match (r ≫= (fun r => read_loc r m)), rw with
    | Some o, Some rw =>
      if negb (wloc_writable rw) then ok m RSkip else
      let m := init_side o m in
      match (side_wk m o ≫= inc_wk) with
      | None => (m, raise m)
      | Some k =>
        let m := remove_from_list o (uside o (fun _ => k) m) in
        let old := read_wloc rw m in
        let m := write_wloc rw (Some (WTo o)) m in
        ok (weak_drop_opt old m) ROk
      end
    | _, _ => ok m RSkip
    end
  
  (* Weak::upgrade (weak/mod.rs:66) *).

  Definition cmd_upgrade (self : option id) (w : wloc) (dst : loc) (m : machine) : machine * outcome :=
    if negb (k_weak K) then ok m RSkip else
    let '(m, rw) := wresolve self w m in
    let '(m, rd) := resolve self dst m in
    match (rw ≫= (fun rw => read_wloc rw m)), rd with
    | Some wr, Some rd =>
      let '(m, sc) := weak_strong_count wr m in
      if sc =? 0 then ok m RNone
      else match wr with
           | WNull => ok m RNone
           | WTo o =>
             match inc_rc (hdr_of m o) with
             | None => (m, raise m)
             | Some h =>
               let m := remove_from_list o (uhdr o (fun _ => h) m) in
               let '(m, r') := rec (KStore rd o) m in
               match r' with ONormal => ok m (RSome o) | _ => (m, r') end
             end
           end
    | _, _ => ok m RSkip
    end.

  Definition cmd_w_new (self : option id) (w : wloc) (m : machine) : machine * outcome :=
    if negb (k_weak K) then ok m RSkip else
    let '(m, rw) := wresolve self w m in
    match rw with
    | Some rw =>
      if negb (wloc_writable rw) then ok m RSkip else
      let old := read_wloc rw m in
      ok (weak_drop_opt old (write_wloc rw (Some WNull) m)) ROk
    | None => ok m RSkip
    end.

  Definition cmd_w_clone (self : option id) (src dst : wloc) (m : machine) : machine * outcome :=
    if negb (k_weak K) then ok m RSkip else
    let '(m, rs) := wresolve self src m in
    let '(m, rd) := wresolve self dst m in
    match (rs ≫= (fun rs => read_wloc rs m)), rd with
    | Some wr, Some rd =>
      if negb (wloc_writable rd) then ok m RSkip else
      match weak_clone wr m with
      | None => (m, raise m)
      | Some m =>
        let old := read_wloc rd m in
        ok (weak_drop_opt old (write_wloc rd (Some wr) m)) ROk
      end
    | _, _ => ok m RSkip
    end.

  Definition cmd_w_drop (self : option id) (w : wloc) (m : machine) : machine * outcome :=
    if negb (k_weak K) then ok m RSkip else
    let '(m, rw) := wresolve self w m in
    match rw with
    | Some rw =>
      if negb (wloc_writable rw) then ok m RSkip else
      match read_wloc rw m with
      | Some wr => ok (weak_drop wr (write_wloc rw None m)) ROk
      | None => ok m RSkip
      end
    | None => ok m RSkip
    end
  
  (* Cc::try_unwrap (cc.rs:76) *).

  Definition cmd_try_unwrap (self : option id) (l : loc) (v : nat) (m : machine) : machine * outcome :=
    let '(m, r) := resolve self l m in
    match r, values m !! v with
    | Some r, Some None =>
      match read_loc r m with
      | None => ok m RSkip
      | Some o =>
        let h := hdr_of m o in
        if negb (h_rc h =? 1) then ok m RUnwrapErr
        else if st_collecting m || st_dropping m || (k_fin K && st_finalizing m)
        then ok m RUnwrapErr
        else
          let m := write_loc r None m in
          let m := remove_from_list o m in
          let m := upd o (fun x => x <| o_vst := VMoved |>) m in
          let m := m <| values ::= <[v := Some o]> |> in
          let m := drop_metadata o m in
          let m := dealloc o m in
          ok m RUnwrapOk
      end
    | _, _ => ok m RSkip
    end
  
  (* dropping a value that was moved out by try_unwrap *).

  Definition cmd_drop_value (self : option id) (v : nat) (m : machine) : machine * outcome :=
    match mjoin (values m !! v) with
    | None => ok m RSkip
    | Some o =>
      let m := m <| values ::= <[v := None]> |> in
      let '(m, r) := rec (KDropValue o) m in
      match r with ONormal => ok m ROk | _ => (m, r) end
    end
  
  (* Cc::finalize_again (cc.rs:142) *).

  Definition cmd_fin_again (self : option id) (l : loc) (m : machine) : machine * outcome :=
    if negb (k_fin K) then ok m RSkip else
    let '(m, r) := resolve self l m in
    match (r ≫= (fun r => read_loc r m)) with
    | None => ok m RSkip
    | Some o =>
      if st_collecting m || st_finalizing m || st_dropping m then (m, raise m)
      else ok (uhdr o (set_fin false) m) ROk
    end
  
  (* Cc::new_cyclic (weak/mod.rs:242) *).

  Definition cmd_new_cyclic (self : option id) (dst : loc) (cls script : nat) (selfweak : bool) (m : machine) : machine * outcome :=
    if negb (k_weak K) then ok m RSkip else
    let '(m, r) := resolve self dst m in
    match r with
    | None => ok m RSkip
    | Some r =>
      let '(m, o) := new_node cls m in
      let m := upd o (fun x => x <| o_vst := VUninit |>) m in
      let '(m, t) := if k_auto K then rec KTrigger m else (m, ONormal) in
      match t with
      | ONormal =>
        let m := box_alloc o m in
        let m := init_side o m in
        let m := uside o (fun k => default k (inc_wk k)) m in
        let m := dec_rc_m o m in
        let m := m <| wparam ::= cons (WTo o) |> in
        let m := emit (ECb KClosure o (cur_flags m)) m in
        let '(m, boom) := tick KClosure m in
        let '(m, r') := if boom then (m, raise m) else rec (KScript None (script_of script)) m in
        match r' with
        | ONormal =>
          (* the closure built the value; the class's first weak field may hold a clone
             of the parameter *)
          let '(m, r'') :=
            if selfweak && bool_decide (0 < c_nw (class_of cls))%nat then
              match weak_clone (WTo o) m with
              | Some m => (upd o (fun x => x <| o_wfields ::= <[0%nat := Some (WTo o)]> |>) m, ONormal)
              | None => (m, raise m)
              end
            else (m, ONormal) in
          match r'' with
          | ONormal =>
            let m := upd o (fun x => x <| o_vst := VLive |>) m in
            let m := uhdr o (fun h => default h (inc_rc h)) m in
            let m := m <| wparam ::= tail |> in
            let m := weak_drop (WTo o) m in
            let '(m, r3) := rec (KStore r o) m in
            match r3 with ONormal => ok m ROk | _ => (m, r3) end
          | _ =>
            let m := dealloc o (drop_metadata o m) in
            let m := m <| wparam ::= tail |> in
            (weak_drop (WTo o) m, r'')
          end
        | OPanic | OAbort =>
          (* PanicGuard: drop_metadata + cc_dealloc, no value drop; then the parameter *)
          let m := dealloc o (drop_metadata o m) in
          let m := m <| wparam ::= tail |> in
          (weak_drop (WTo o) m, r')
        | OFuel => (m, OFuel)
        end
      | _ => (m, t)      (* the wrapper is only built after the collection returned *)
      end
    end
  
  (* Cleaner::register (cleaners/mod.rs:86) *).

  Definition cmd_register (self : option id) (nd : nodeloc) (script c : nat) (m : machine) : machine * outcome :=
    if negb (k_clean K) then ok m RSkip else
    let '(m, no) := nresolve self nd m in
    match no, cslots m !! c with
    | Some o, Some _ =>
      match get m o with
      | Some x =>
        if negb (c_cleaner (class_of (o_cls x))) || o_ismap x then ok m RSkip
        else
          let '(m, mo, r) :=
            match o_cleaner x with
            | Some mo => (m, mo, ONormal)
            | None =>
              let '(m, mo) := new_map m in
              let '(m, t) := if k_auto K then rec KTrigger m else (m, ONormal) in
              match t with
              | ONormal =>
                let m := box_alloc mo m in
                (* the Option is checked again after Cc::new returned: the collection it may have
                   started can have run a nested register on this very Cleaner; the (empty) map
                   just created is then dropped and the existing one is used *)
                match get m o ≫= o_cleaner with
                | Some existing => let '(m, r) := rec (KDropCc mo) m in (m, existing, r)
                | None => (upd o (fun x => x <| o_cleaner := Some mo |>) m, mo, ONormal)
                end
              | OPanic =>
                let '(m, r) := unwinding (rec (KDropValue mo)) m in (m, mo, r)
              | _ => (m, mo, t)
              end
            end in
          match r with
          | ONormal =>
            match get m mo with
            | Some mx =>
              if o_mborrowed mx then (m, raise m)     (* RefCell::borrow_mut panics *)
              else
                let aid := next_aid m in
                let m := m <| next_aid := S aid |> in
                let '(m, slot) := map_insert mo aid script m in
                (* cc.downgrade() *)
                let m := init_side mo m in
                match (side_wk m mo ≫= inc_wk) with
                | None => (m, raise m)
                | Some k =>
                  let m := remove_from_list mo (uside mo (fun _ => k) m) in
                  let old := mjoin (cslots m !! c) in
                  let m := m <| cslots ::= <[c := Some (Cref mo slot aid)]> |> in
                  let m := match old with Some cr => weak_drop (WTo (cr_map cr)) m | None => m end in
                  ok m ROk
                end
            | None => (emit_bad BadState mo m, ONormal)
            end
          | _ => (m, r)
          end
      | None => ok m RSkip
      end
    | _, _ => ok m RSkip
    end
  
  (* Cleanable::clean (cleaners/mod.rs:140) *).

  Definition cmd_clean (self : option id) (c : nat) (m : machine) : machine * outcome :=
    if negb (k_clean K) then ok m RSkip else
    match mjoin (cslots m !! c) with
    | None => ok m RSkip
    | Some cr =>
      let mo := cr_map cr in
      let '(m, sc) := weak_strong_count (WTo mo) m in
      if sc =? 0 then ok m ROk
      else
        match inc_rc (hdr_of m mo) with
        | None => (m, raise m)
        | Some h =>
          let m := remove_from_list mo (uhdr mo (fun _ => h) m) in
          match get m mo with
          | None => (emit_bad BadState mo m, ONormal)
          | Some mx =>
            if o_mborrowed mx then
              let '(m, r) := rec (KDropCc mo) m in
              match r with ONormal => ok m ROk | _ => (m, r) end
            else
              let m := upd mo (fun x => x <| o_mborrowed := true |>) m in
              let '(m, r) :=
                match o_mslots mx !! cr_slot cr with
                | Some (MAction aid script) =>
                  if decide (aid = cr_aid cr) then
                    (* SlotMap::remove: vacate the slot, push it on the free list, drop the value *)
                    let m := upd mo (fun x => x <| o_mslots ::= <[cr_slot cr := MVacant]> |>
                                                <| o_mfree ::= cons (cr_slot cr) |>) m in
                    rec (KCleanRun mo aid script) m
                  else (m, ONormal)
                | _ => (m, ONormal)
                end in
              let m := upd mo (fun x => x <| o_mborrowed := false |>) m in
              match r with
              | ONormal =>
                let '(m, r) := rec (KDropCc mo) m in
                match r with ONormal => ok m ROk | _ => (m, r) end
              | OPanic => unwinding (rec (KDropCc mo)) m
              | _ => (m, r)
              end
          end
        end
    end.

  Definition cmd_c_drop (self : option id) (c : nat) (m : machine) : machine * outcome :=
    if negb (k_clean K) then ok m RSkip else
    match mjoin (cslots m !! c) with
    | None => ok m RSkip
    | Some cr => ok (weak_drop (WTo (cr_map cr)) (m <| cslots ::= <[c := None]> |>)) ROk
    end.

  Definition cmd_bag (self : option id) (l : loc) (k : N) (m : machine) : machine * outcome :=
    let '(m, r) := resolve self l m in
    match (r ≫= (fun r => read_loc r m)) with
    | None => ok m RSkip
    | Some o =>
      (* k clones pushed on the bag; stops with a panic at the limit *)
      let fix go (k : nat) (m : machine) : machine * outcome :=
          match k with
          | O => ok m ROk
          | S k' =>
            match inc_rc (hdr_of m o) with
            | None => (m, raise m)
            | Some h => go k' (remove_from_list o (uhdr o (fun _ => h) m) <| bag ::= cons o |>)
            end
          end in
      go (N.to_nat k) m
    end.

  Definition cmd_unbag (self : option id) (k : N) (m : machine) : machine * outcome :=
    let '(m, r) := rec (KUnbag (N.to_nat k)) m in
    match r with ONormal => ok m ROk | _ => (m, r) end.

  Definition cmd_borrow (self : option id) (nd : nodeloc) (m : machine) : machine * outcome :=
    let '(m, no) := nresolve self nd m in
    match no with
    | Some o => ok (upd o (fun x => x <| o_borrowed := true |>) m) ROk
    | None => ok m RSkip
    end.

  Definition cmd_unborrow (self : option id) (nd : nodeloc) (m : machine) : machine * outcome :=
    let '(m, no) := nresolve self nd m in
    match no with
    | Some o => ok (upd o (fun x => x <| o_borrowed := false |>) m) ROk
    | None => ok m RSkip
    end.

  Definition cmd_cfg_auto (self : option id) (b : bool) (m : machine) : machine * outcome :=
    if k_auto K then ok (m <| cf_auto := b |>) ROk else ok m RSkip.

  Definition cmd_cfg_percent (self : option id) (num e : N) (m : machine) : machine * outcome :=
    if k_auto K then
      (* set_adjustment_percent asserts 0 <= p <= 1 *)
      if N.shiftl 1 e <? num then (m, raise m)
      else ok (m <| cf_pnum := num |> <| cf_pexp := e |>) ROk
    else ok m RSkip.

  Definition cmd_cfg_buffered (self : option id) (b : N) (m : machine) : machine * outcome :=
    if k_auto K then ok (m <| cf_buf := b |>) ROk else ok m RSkip.

  Definition cmd_arm (self : option id) (k : cbkind) (v : N) (m : machine) : machine * outcome :=
    ok (set_fuse k v m) ROk.

  Definition cmd_panic (self : option id)  (m : machine) : machine * outcome :=
    (m, raise m).

  Definition cmd_obs (self : option id) (l : loc) (m : machine) : machine * outcome :=
    let '(m, r) := resolve self l m in
    match (r ≫= (fun r => read_loc r m)) with
    | None => ok m RSkip
    | Some o =>
      match get m o with
      | Some x =>
        let m := match o_box x with BAlloc => m | _ => emit_bad UseAfterFree o m end in
        let wc := if h_side (o_hdr x) then match o_side x with Some s => w_cnt (sd_wk s) | None => 0 end else 0 in
        let alive := match o_vst x with VLive => true | _ => false end in
        let m := if alive then m else emit_bad UseAfterDrop o m in
        ok (emit (EObs o (h_rc (o_hdr x)) wc (h_fin (o_hdr x)) alive) m) ROk
      | None => ok (emit_bad BadState o m) ROk
      end
    end.

  Definition cmd_w_obs (self : option id) (w : wloc) (m : machine) : machine * outcome :=
    if negb (k_weak K) then ok m RSkip else
    let '(m, rw) := wresolve self w m in
    match (rw ≫= (fun rw => read_wloc rw m)) with
    | None => ok m RSkip
    | Some wr =>
      let '(m, sc) := weak_strong_count wr m in
      let '(m, wc) := weak_weak_count wr m in
      ok (emit (EWObs sc wc) m) ROk
    end.

  Definition cmd_s_obs (self : option id)  (m : machine) : machine * outcome :=
    ok (emit (ESObs (st_alloc m) (if pc_alive m then Some (pc_size m) else None) (st_exec m)
                    (fl_t (cur_flags m))) m) ROk.

  Definition step_cmd (self : option id) (c : cmd) (m : machine) : machine * outcome :=
    match c with
    | CNew dst cls => cmd_new self dst cls m
    | CClone src dst => cmd_clone self src dst m
    | CDrop l => cmd_drop self l m
    | CMove src dst => cmd_move self src dst m
    | CMarkAlive l => cmd_mark_alive self l m
    | CCollect => cmd_collect self m
    | CDowngrade l w => cmd_downgrade self l w m
    | CUpgrade w dst => cmd_upgrade self w dst m
    | CWNew w => cmd_w_new self w m
    | CWClone src dst => cmd_w_clone self src dst m
    | CWDrop w => cmd_w_drop self w m
    | CTryUnwrap l v => cmd_try_unwrap self l v m
    | CDropValue v => cmd_drop_value self v m
    | CFinAgain l => cmd_fin_again self l m
    | CNewCyclic dst cls script selfweak => cmd_new_cyclic self dst cls script selfweak m
    | CRegister nd script c => cmd_register self nd script c m
    | CClean c => cmd_clean self c m
    | CCDrop c => cmd_c_drop self c m
    | CBag l k => cmd_bag self l k m
    | CUnbag k => cmd_unbag self k m
    | CBorrow nd => cmd_borrow self nd m
    | CUnborrow nd => cmd_unborrow self nd m
    | CCfgAuto b => cmd_cfg_auto self b m
    | CCfgPercent num e => cmd_cfg_percent self num e m
    | CCfgBuffered b => cmd_cfg_buffered self b m
    | CArm k v => cmd_arm self k v m
    | CPanic => cmd_panic self m
    | CObs l => cmd_obs self l m
    | CWObs w => cmd_w_obs self w m
    | CSObs => cmd_s_obs self m
    end.

  Definition step (c : call) (m : machine) : machine * outcome :=
    match c with
    | KCmd self c => step_cmd self c m
    | KScript self cs => step_script self cs m
    | KStore r v => step_store r v m
    | KDropCc o => step_drop_cc o m
    | KDropValue o => step_drop_value o m
    | KDropFields o j => step_drop_fields o j m
    | KDropMapSlots o j => step_drop_map_slots o j m
    | KCleanRun mo aid script => step_clean_run mo aid script m
    | KTrigger => step_trigger m
    | KCollectCycles => step_collect_cycles m
    | KCollect => step_collect m
    | KCollectLoop k => step_collect_loop k m
    | KCollectOnce => step_collect_once m
    | KFinalizeList L rest any old_f => step_finalize_list L rest any old_f m
    | KDropList L rest old_d => step_drop_list L rest old_d m
    | KUnbag k => step_unbag k m
    end.

  End Step.

  Fixpoint run (fuel : nat) (c : call) (m : machine) {struct fuel} : machine * outcome :=
    match fuel with
    | O => (m, OFuel)
    | S n => step (run n) c m
    end.

  (** A top-level command runs under catch_unwind. *)
  Definition exec_top (fuel : nat) (c : cmd) (m : machine) : machine :=
    let '(m, r) := run fuel (KCmd None c) m in
    match r with
    | ONormal => m
    | OPanic => emit (ERes RPanicked) m
    | OAbort => emit_bad Abort 0 m
    | OFuel => emit_bad Fuel 0 m
    end.

  Definition run_main (fuel : nat) (m : machine) : machine :=
    fold_left (fun m c => exec_top fuel c m) (p_main P) m.

End Model.
