(** * LifeFin: the lifecycle invariant holds in every state reached by every well-formed
    program (every configuration, fuel, command list; runs that logged [EBad Fuel]/[EBad Abort]
    excluded), and its readable consequences (properties C03 / C05 / C14). *)
From Coq Require Import NArith Bool List Lia.
From stdpp Require Import base list option.
From RecordUpdate Require Import RecordSet.
From RC Require Import Hdr Machine RunInd.
From RC Require Import Inv InvP SafeHelpers SafePrims SafeCalls SafeMain SafeColl SafeFinal.
From RC Require BufBase BufStep Buf.
From RC Require Import LifeGhost Life LifeChk LifeInv LifeInv2 LifeStep LifeStep5.
Import ListNotations RecordSetNotations.
Local Open Scope N_scope.

Section Prog.
  Context (K : conf) (P : prog).
  Hypothesis Hconf : k_clean K = true -> k_weak K = true.
  Hypothesis Hwf : wf_prog P = true.
  Context (nfa : bool).
  Hypothesis Hprog : nfa = true -> prog_nfa P = true.

  Lemma mrun_life mu n : rec_ok (Pre2 K nfa) (Post2 K mu nfa) (mrun K P chk mu n).
  Proof.
    apply (mrun_ind K P chk chk_dl mu (Pre2 K nfa) (Post2 K mu nfa)).
    - intros c m m' r. apply Post2_vac.
    - intros rec Hrec c m Hp Hc. apply (step_ok2 K P mu nfa Hprog rec Hrec c m Hp Hc).
    - intros c m. apply Post2_fuel.
  Qed.

  Definition Top (mu : id) (m : machine) : Prop := G mu m -> Linv K nfa m.

  Lemma Top_init mu : Top mu (init K).
  Proof.
    intros _. split; [exact I|]. split; [intros e o []|]. intros o x Hx. destruct o; discriminate.
  Qed.

  Lemma Top_quiet mu m m' : Quiet m m' -> Top mu m -> Top mu m'.
  Proof. intros HQ HT HG. apply (Quiet_Linv K nfa m m' HQ), HT, (Quiet_G mu m m' HQ HG). Qed.

  Lemma Top_mexec mu fuel c m :
    (nfa = true -> no_fa_cmd c = true) -> Top mu m -> Top mu (mexec_top K P chk mu fuel c m).
  Proof.
    intros Hc HT. unfold mexec_top.
    destruct (mrun_life mu fuel (KCmd None c) m Hc) as [(A & B & _) _].
    destruct (mrun K P chk mu fuel (KCmd None c) m) as [m1 r]. cbn [fst snd] in *.
    assert (HT1 : Top mu m1) by (intros HG; apply (B HG), HT, A, HG).
    destruct r; [exact HT1 | | |]; (eapply Top_quiet; [|exact HT1]); lq.
  Qed.

  Lemma Top_mfold mu fuel cmds : (nfa = true -> forallb no_fa_cmd cmds = true) ->
    forall m, Top mu m -> Top mu (fold_left (fun m c => mexec_top K P chk mu fuel c m) cmds m).
  Proof.
    induction cmds as [|c cs IH]; intros Hn m HT; [exact HT|]. cbn [fold_left]. apply IH.
    - intros Hf. specialize (Hn Hf). cbn in Hn. apply andb_true_iff in Hn. apply Hn.
    - apply Top_mexec; [|exact HT]. intros Hf. specialize (Hn Hf). cbn in Hn. apply andb_true_iff in Hn. apply Hn.
  Qed.

  (** THE theorem of the layer *)
  Theorem life_linv fuel cmds :
    (nfa = true -> forallb no_fa_cmd cmds = true) ->
    let m := fold_left (fun m c => exec_top K P fuel c m) cmds (init K) in
    clean m = true -> Linv K nfa m.
  Proof.
    intros Hn m Hcl. set (mu := length (heap m)).
    pose proof (mfold_eq K P Hconf Hwf chk chk_dl (chk_ok K) mu fuel cmds Hcl (Nat.le_refl _)) as E.
    pose proof (Top_mfold mu fuel cmds Hn (init K) (Top_init mu)) as HT. rewrite E in HT. apply HT.
    destruct (safe_programs_sinv K P fuel cmds Hconf Hwf Hcl) as (b & Hnb & HI & _). fold m in Hnb, HI.
    split; [exact Hnb|]. destruct (mem_id mu (dead m)) eqn:Hd; [|exact Hd]. exfalso.
    destruct (sv_dead _ _ _ _ _ HI mu Hd) as [x Hx]. apply lookup_lt_Some in Hx. unfold mu in Hx. lia.
  Qed.
End Prog.


(** ** Reading the invariant *)
Lemma lwf_split K nfa l1 e l2 : lwf K nfa (l1 ++ e :: l2) -> evwf K nfa e l2.
Proof. induction l1 as [|a l1 IH]; cbn; intros [H1 H2]; [exact H1 | apply IH, H2]. Qed.

Lemma cnt_le1_of_wf K nfa (p : event -> bool) l :
  lwf K nfa l -> (forall e l2, p e = true -> evwf K nfa e l2 -> cntE p l2 = 0%nat) -> (cntE p l <= 1)%nat.
Proof.
  intros W Hp. induction l as [|e l IH]; cbn; [lia|]. destruct W as [W1 W2]. specialize (IH W2).
  destruct (p e) eqn:He; [rewrite (Hp e l He W1); lia | lia].
Qed.

Section Read.
  Context (K : conf) (nfa : bool) (m : machine).
  Hypothesis HL : Linv K nfa m.

  Let W := proj1 HL.
  Let S := proj1 (proj2 HL).
  Let HO := proj2 (proj2 HL).

  Lemma cnt_absent (p : event -> bool) o : (forall e, p e = true -> ev_id e = Some o) ->
    get m o = None -> cntE p (log m) = 0%nat.
  Proof.
    intros Hp Hn. apply (scoped_zero m p o S Hp). apply lookup_ge_None. exact Hn.
  Qed.

  (** at most one destructor entry per object, none for a CleanerMap *)
  Theorem ev_drop_once o : (cntE (isD o) (log m) <= 1)%nat.
  Proof.
    destruct (get m o) as [x|] eqn:Hx; [|rewrite (cnt_absent _ o (isD_id o) Hx); lia].
    rewrite (ok_nD _ _ _ _ _ (HO o x Hx)). destruct (o_ismap x), (dying x); lia.
  Qed.
  Theorem ev_map_no_drop o x : get m o = Some x -> o_ismap x = true -> cntE (isD o) (log m) = 0%nat.
  Proof. intros Hx Hm. rewrite (ok_nD _ _ _ _ _ (HO o x Hx)), Hm. reflexivity. Qed.
  Theorem ev_alloc_once o : (cntE (isA o) (log m) <= 1)%nat.
  Proof.
    destruct (get m o) as [x|] eqn:Hx; [|rewrite (cnt_absent _ o (isA_id o) Hx); lia].
    rewrite (ok_nA _ _ _ _ _ (HO o x Hx)). destruct (o_box x); lia.
  Qed.
  Theorem ev_free_once o : (cntE (isF o) (log m) <= 1)%nat.
  Proof.
    destruct (get m o) as [x|] eqn:Hx; [|rewrite (cnt_absent _ o (isF_id o) Hx); lia].
    rewrite (ok_nF _ _ _ _ _ (HO o x Hx)). destruct (o_box x); lia.
  Qed.

  (** every [EFree] is preceded by the [EAlloc] of the same object with the same layout, and
      by no other [EFree] of it; the layout is that of the heap entry *)
  Theorem ev_free_after_alloc l1 o s a l2 : log m = l1 ++ EFree o s a :: l2 ->
    In (EAlloc o s a) l2 /\ cntE (isF o) l2 = 0%nat /\
    exists x, get m o = Some x /\ (s, a) = box_layout K x.
  Proof.
    intros E. pose proof W as W'. rewrite E in W'. destruct (lwf_split K nfa l1 _ l2 W') as [H1 H2].
    split; [exact H1|]. split; [exact H2|].
    assert (Hin : In (EFree o s a) (log m)) by (rewrite E; apply in_or_app; right; left; reflexivity).
    pose proof (S _ o Hin eq_refl) as Hlt. apply lookup_lt_is_Some_2 in Hlt as [x Hx].
    exists x. split; [exact Hx|]. apply (ok_lay _ _ _ _ _ (HO o x Hx) s a). right. exact Hin.
  Qed.
  Theorem ev_alloc_first l1 o s a l2 : log m = l1 ++ EAlloc o s a :: l2 -> cntE (isA o) l2 = 0%nat.
  Proof. intros E. pose proof W as W'. rewrite E in W'. exact (lwf_split K nfa l1 _ l2 W'). Qed.
  Theorem ev_layout o x s a : get m o = Some x ->
    In (EAlloc o s a) (log m) \/ In (EFree o s a) (log m) -> (s, a) = box_layout K x.
  Proof. intros Hx. apply (ok_lay _ _ _ _ _ (HO o x Hx)). Qed.

  (** log / state consistency *)
  Theorem ev_alloc_iff o x : get m o = Some x -> ((0 < cntE (isA o) (log m))%nat <-> o_box x <> BNotYet).
  Proof. intros Hx. rewrite (ok_nA _ _ _ _ _ (HO o x Hx)). destruct (o_box x); split; intros; try lia; congruence. Qed.
  Theorem ev_free_iff o x : get m o = Some x -> ((0 < cntE (isF o) (log m))%nat <-> o_box x = BFreed).
  Proof. intros Hx. rewrite (ok_nF _ _ _ _ _ (HO o x Hx)). destruct (o_box x); split; intros; try lia; congruence. Qed.
  Theorem ev_drop_state o x : get m o = Some x -> (0 < cntE (isD o) (log m))%nat ->
    o_ismap x = false /\ (o_vst x = VDropping \/ o_vst x = VDropped).
  Proof.
    intros Hx. rewrite (ok_nD _ _ _ _ _ (HO o x Hx)). unfold dying.
    destruct (o_ismap x); [lia|]. destruct (o_vst x); intros; try lia; auto.
  Qed.
  Theorem ev_drop_iff o x : get m o = Some x -> o_ismap x = false ->
    ((0 < cntE (isD o) (log m))%nat <-> (o_vst x = VDropping \/ o_vst x = VDropped)).
  Proof.
    intros Hx Hm. rewrite (ok_nD _ _ _ _ _ (HO o x Hx)), Hm. unfold dying.
    destruct (o_vst x); split; intros H; try lia; auto; destruct H; discriminate.
  Qed.
  (** a freed box never holds a live value: it was freed after its value was dropped
      ([VDropping] only while the destructor of a moved-out value runs), moved out or never
      initialised *)
  Theorem ev_freed_state o x : get m o = Some x -> o_box x = BFreed -> o_vst x <> VLive.
  Proof. intros Hx. apply (ok_freed _ _ _ _ _ (HO o x Hx)). Qed.
  (** hence a destructor entered on a freed box is the destructor of a moved-out value *)
  Theorem ev_drop_on_freed_is_moved o x : get m o = Some x -> o_box x = BFreed ->
    o_vst x = VLive \/ o_vst x = VMoved -> o_vst x = VMoved.
  Proof. intros Hx Hb [Hv|Hv]; [destruct (ev_freed_state o x Hx Hb Hv) | exact Hv]. Qed.

  (** finalizers *)
  Theorem ev_fin_needs_kfin o f : In (ECb KFin o f) (log m) -> k_fin K = true.
  Proof.
    intros Hin. apply in_split in Hin as (l1 & l2 & E). pose proof W as W'. rewrite E in W'.
    apply (lwf_split K nfa l1 _ l2 W').
  Qed.
  Theorem ev_fin_before_drop l1 o f l2 : log m = l1 ++ ECb KFin o f :: l2 -> cntE (isD o) l2 = 0%nat.
  Proof. intros E. pose proof W as W'. rewrite E in W'. apply (lwf_split K nfa l1 _ l2 W'). Qed.
  Theorem ev_fin_once o : nfa = true -> (cntE (isFi o) (log m) <= 1)%nat.
  Proof.
    intros Hn. destruct (get m o) as [x|] eqn:Hx; [|rewrite (cnt_absent _ o (isFi_id o) Hx); lia].
    apply (ok_fin1 _ _ _ _ _ (HO o x Hx) Hn).
  Qed.
  Theorem ev_fin_flag o x : nfa = true -> get m o = Some x -> (0 < cntE (isFi o) (log m))%nat -> h_fin (o_hdr x) = true.
  Proof.
    intros Hn Hx Hp. destruct (ok_fin1 _ _ _ _ _ (HO o x Hx) Hn) as [Hle H1]. apply H1. lia.
  Qed.
  Theorem ev_fin_none o x : get m o = Some x ->
    o_box x = BNotYet \/ o_vst x = VUninit \/ o_ismap x = true \/ k_fin K = false -> cntE (isFi o) (log m) = 0%nat.
  Proof. intros Hx. apply (ok_fin0 _ _ _ _ _ (HO o x Hx)). Qed.
  (** a value under construction (or whose construction failed) was never dropped nor finalized *)
  Theorem ev_uninit_untouched o x : get m o = Some x -> o_vst x = VUninit ->
    cntE (isD o) (log m) = 0%nat /\ cntE (isFi o) (log m) = 0%nat.
  Proof.
    intros Hx Hv. split; [|apply (ev_fin_none o x Hx); auto].
    rewrite (ok_nD _ _ _ _ _ (HO o x Hx)). unfold dying. rewrite Hv. destruct (o_ismap x); reflexivity.
  Qed.
End Read.

Lemma cnt_zero_not_in p l e : cntE p l = 0%nat -> p e = true -> ~ In e l.
Proof. intros Hz Hp Hin. assert ((0 < cntE p l)%nat) by (apply cntE_pos; eauto). lia. Qed.

(** ** Program level *)
(** the event-level lifecycle of every object ([cntE p l] = number of events of [l] satisfying
    [p]; [isA o] / [isF o] / [isD o] / [isFi o] recognise [EAlloc o _ _] / [EFree o _ _] /
    [ECb KDrop o _] / [ECb KFin o _]) *)
Record EvLife (K : conf) (m : machine) : Prop := {
  el_drop_once : forall o, (cntE (isD o) (log m) <= 1)%nat;
  el_map_no_drop : forall o x, get m o = Some x -> o_ismap x = true -> cntE (isD o) (log m) = 0%nat;
  el_alloc_once : forall o, (cntE (isA o) (log m) <= 1)%nat;
  el_free_once : forall o, (cntE (isF o) (log m) <= 1)%nat;
  el_free_after_alloc : forall l1 o s a l2, log m = l1 ++ EFree o s a :: l2 ->
    In (EAlloc o s a) l2 /\ cntE (isF o) l2 = 0%nat /\ exists x, get m o = Some x /\ (s, a) = box_layout K x;
  el_alloc_first : forall l1 o s a l2, log m = l1 ++ EAlloc o s a :: l2 -> cntE (isA o) l2 = 0%nat;
  el_layout : forall o x s a, get m o = Some x ->
    In (EAlloc o s a) (log m) \/ In (EFree o s a) (log m) -> (s, a) = box_layout K x;
  el_alloc_iff : forall o x, get m o = Some x -> ((0 < cntE (isA o) (log m))%nat <-> o_box x <> BNotYet);
  el_free_iff : forall o x, get m o = Some x -> ((0 < cntE (isF o) (log m))%nat <-> o_box x = BFreed);
  el_drop_iff : forall o x, get m o = Some x -> o_ismap x = false ->
    ((0 < cntE (isD o) (log m))%nat <-> (o_vst x = VDropping \/ o_vst x = VDropped));
  el_freed_state : forall o x, get m o = Some x -> o_box x = BFreed -> o_vst x <> VLive;
  el_drop_on_freed_is_moved : forall o x, get m o = Some x -> o_box x = BFreed ->
    o_vst x = VLive \/ o_vst x = VMoved -> o_vst x = VMoved;
  el_scoped : forall e o, In e (log m) -> ev_id e = Some o -> is_Some (get m o);
  el_fin_before_drop : forall l1 o f l2, log m = l1 ++ ECb KFin o f :: l2 -> cntE (isD o) l2 = 0%nat;
  el_drop_first : forall l1 o f l2, log m = l1 ++ ECb KDrop o f :: l2 -> cntE (isD o) l2 = 0%nat;
  el_fin_kfin : forall o f, In (ECb KFin o f) (log m) -> k_fin K = true;
  el_fin_none : forall o x, get m o = Some x ->
    o_box x = BNotYet \/ o_vst x = VUninit \/ o_ismap x = true \/ k_fin K = false -> cntE (isFi o) (log m) = 0%nat;
  el_uninit_untouched : forall o x, get m o = Some x -> o_vst x = VUninit ->
    cntE (isD o) (log m) = 0%nat /\ cntE (isFi o) (log m) = 0%nat;
}.

Lemma Linv_EvLife K nfa m : Linv K nfa m -> EvLife K m.
Proof.
  intros HL. split.
  - apply (ev_drop_once K nfa m HL).
  - apply (ev_map_no_drop K nfa m HL).
  - apply (ev_alloc_once K nfa m HL).
  - apply (ev_free_once K nfa m HL).
  - apply (ev_free_after_alloc K nfa m HL).
  - apply (ev_alloc_first K nfa m HL).
  - apply (ev_layout K nfa m HL).
  - apply (ev_alloc_iff K nfa m HL).
  - apply (ev_free_iff K nfa m HL).
  - apply (ev_drop_iff K nfa m HL).
  - apply (ev_freed_state K nfa m HL).
  - apply (ev_drop_on_freed_is_moved K nfa m HL).
  - intros e o Hin Hid. apply lookup_lt_is_Some_2. exact (proj1 (proj2 HL) e o Hin Hid).
  - apply (ev_fin_before_drop K nfa m HL).
  - intros l1 o f l2 E. pose proof (proj1 HL) as W. rewrite E in W. exact (lwf_split K nfa l1 _ l2 W).
  - apply (ev_fin_needs_kfin K nfa m HL).
  - apply (ev_fin_none K nfa m HL).
  - apply (ev_uninit_untouched K nfa m HL).
Qed.

Section ProgLevel.
  Context (K : conf) (P : prog) (fuel : nat) (cmds : list cmd).
  Hypothesis Hconf : k_clean K = true -> k_weak K = true.
  Hypothesis Hwf : wf_prog P = true.
  Let m := fold_left (fun m c => exec_top K P fuel c m) cmds (init K).
  Hypothesis Hcl : clean m = true.

  Theorem prog_linv_false : Linv K false m.
  Proof. apply (life_linv K P Hconf Hwf false ltac:(discriminate) fuel cmds ltac:(discriminate) Hcl). Qed.

  Theorem prog_evlife : EvLife K m.
  Proof. apply (Linv_EvLife K false), prog_linv_false. Qed.

  (** no finalizer ever runs when finalization is disabled *)
  Theorem prog_fin_disabled : k_fin K = false -> forall o f, ~ In (ECb KFin o f) (log m).
  Proof. intros Hk o f Hin. rewrite (el_fin_kfin K m prog_evlife o f Hin) in Hk. discriminate. Qed.

  (** no destructor entry of [o] precedes a finalizer entry of [o] *)
  Theorem prog_fin_before_drop l1 o f l2 : log m = l1 ++ ECb KFin o f :: l2 -> forall f', ~ In (ECb KDrop o f') l2.
  Proof.
    intros E f' Hin. pose proof (el_fin_before_drop K m prog_evlife l1 o f l2 E) as Hz.
    apply (cnt_zero_not_in _ _ _ Hz) in Hin; [exact Hin|]. cbn. apply Nat.eqb_refl.
  Qed.

  (** programs that never call [finalize_again]: every object is finalized at most once, and a
      finalized object carries the flag *)
  Theorem prog_fin_once : prog_nfa P = true -> forallb no_fa_cmd cmds = true ->
    forall o, (cntE (isFi o) (log m) <= 1)%nat /\
              (forall x, get m o = Some x -> (0 < cntE (isFi o) (log m))%nat -> h_fin (o_hdr x) = true).
  Proof.
    intros Hp Hc o.
    pose proof (life_linv K P Hconf Hwf true (fun _ => Hp) fuel cmds (fun _ => Hc) Hcl) as HL. fold m in HL.
    split; [apply (ev_fin_once K true m HL o eq_refl)|]. intros x Hx Hpos. exact (ev_fin_flag K true m HL o x eq_refl Hx Hpos).
  Qed.
End ProgLevel.

Print Assumptions prog_evlife.
Print Assumptions prog_fin_once.

(** ** The frame between two top-level states of a run *)
Section TopFrame.
  Context (K : conf) (P : prog) (fuel : nat).
  Hypothesis Hconf : k_clean K = true -> k_weak K = true.
  Hypothesis Hwf : wf_prog P = true.

  Lemma exec_top_len c m : BufBase.G K [] m -> (length (heap m) <= length (heap (exec_top K P fuel c m)))%nat.
  Proof.
    intros HG. unfold exec_top. destruct (Buf.run_buf K P fuel [] (KCmd None c) m HG) as (F & _).
    destruct (run K P fuel (KCmd None c) m) as [m1 r]. cbn [fst] in F.
    assert (Hle : (length (heap m) <= length (heap m1))%nat).
    { apply heap_len_le. intros o x Hx. destruct (BufBase.fr_obj _ _ F o x Hx) as (x' & Hx' & _). eauto. }
    destruct r; exact Hle.
  Qed.
  Lemma fold_len cmds : forall m, BufBase.G K [] m ->
    (length (heap m) <= length (heap (fold_left (fun m c => exec_top K P fuel c m) cmds m)))%nat.
  Proof.
    induction cmds as [|c cs IH]; intros m HG; [cbn; lia|]. cbn [fold_left].
    pose proof (exec_top_len c m HG). pose proof (IH _ (Buf.exec_top_G K P fuel c m HG)). lia.
  Qed.
  Lemma clean_fold cmds : forall m, clean (fold_left (fun m c => exec_top K P fuel c m) cmds m) = true -> clean m = true.
  Proof.
    induction cmds as [|c cs IH]; intros m H; [exact H|]. cbn [fold_left] in H.
    apply IH in H. apply (clean_exec_top K P fuel c m H).
  Qed.

  Lemma Ls_mexec mu c m : Ls K mu false (length (heap m)) m (mexec_top K P chk mu fuel c m).
  Proof.
    unfold mexec_top.
    destruct (mrun_life K P false ltac:(discriminate) mu fuel (KCmd None c) m ltac:(cbn; discriminate)) as [HL _].
    destruct (mrun K P chk mu fuel (KCmd None c) m) as [m1 r]. cbn [fst snd] in *.
    destruct r; [exact HL | | |]; (eapply Ls_q; [exact HL | lq]).
  Qed.
  Lemma Ls_mfold mu cmds : forall m,
    Ls K mu false (length (heap m)) m (fold_left (fun m c => mexec_top K P chk mu fuel c m) cmds m).
  Proof.
    induction cmds as [|c cs IH]; intros m; [apply Ls_refl|]. cbn [fold_left].
    eapply Ls_step; [apply Ls_mexec | apply IH].
  Qed.

  (** between two top-level states of a clean run every object only moves forward: a map stays a
      map, a box that was never allocated / is freed stays so, a dropped value stays dropped, a
      value whose construction failed stays uninitialised (with the same box state) *)
  Theorem prog_frame cmds1 cmds2 :
    let m1 := fold_left (fun m c => exec_top K P fuel c m) cmds1 (init K) in
    let m2 := fold_left (fun m c => exec_top K P fuel c m) (cmds1 ++ cmds2) (init K) in
    clean m2 = true ->
    forall o x, get m1 o = Some x -> exists x', get m2 o = Some x' /\ ObjF x x'.
  Proof.
    intros m1 m2 Hcl2 o x Hx. set (mu := length (heap m2)).
    assert (E2 : m2 = fold_left (fun m c => exec_top K P fuel c m) cmds2 m1) by (unfold m2; rewrite fold_left_app; reflexivity).
    assert (Hcl1 : clean m1 = true) by (apply (clean_fold cmds2); rewrite <- E2; exact Hcl2).
    assert (Hlen : (length (heap m1) <= mu)%nat).
    { unfold mu. rewrite E2. apply fold_len. apply Buf.prog_G. }
    pose proof (mfold_eq K P Hconf Hwf chk chk_dl (chk_ok K) mu fuel (cmds1 ++ cmds2) Hcl2 (Nat.le_refl _)) as EM2.
    pose proof (mfold_eq K P Hconf Hwf chk chk_dl (chk_ok K) mu fuel cmds1 Hcl1 Hlen) as EM1.
    rewrite fold_left_app, EM1 in EM2. fold m1 in EM2.
    pose proof (Ls_mfold mu cmds2 m1) as HL. rewrite EM2 in HL. fold m2 in HL.
    destruct HL as (_ & _ & C).
    assert (HG : G mu m2).
    { destruct (safe_programs_sinv K P fuel (cmds1 ++ cmds2) Hconf Hwf Hcl2) as (b & Hnb & HI & _). fold m2 in Hnb, HI.
      split; [exact Hnb|]. destruct (mem_id mu (dead m2)) eqn:Hd; [|reflexivity]. exfalso.
      destruct (sv_dead _ _ _ _ _ HI mu Hd) as [y Hy]. apply lookup_lt_Some in Hy. unfold mu in Hy. lia. }
    destruct (C HG) as [_ F]. exact (F o x (lookup_lt_Some _ _ _ Hx) Hx).
  Qed.
End TopFrame.

Print Assumptions prog_frame.

(** a value under construction, or whose construction failed, is never dropped nor finalized: not
    now, not later *)
Theorem prog_uninit_never_touched K P fuel cmds1 cmds2 :
  (k_clean K = true -> k_weak K = true) -> wf_prog P = true ->
  let m1 := fold_left (fun m c => exec_top K P fuel c m) cmds1 (init K) in
  let m2 := fold_left (fun m c => exec_top K P fuel c m) (cmds1 ++ cmds2) (init K) in
  clean m2 = true ->
  forall o x, get m1 o = Some x -> o_vst x = VUninit ->
    (exists x', get m2 o = Some x' /\ o_vst x' = VUninit /\ o_box x' = o_box x) /\
    (forall f, ~ In (ECb KDrop o f) (log m2)) /\ (forall f, ~ In (ECb KFin o f) (log m2)).
Proof.
  intros Hconf Hwf m1 m2 Hcl o x Hx Hv.
  destruct (prog_frame K P fuel Hconf Hwf cmds1 cmds2 Hcl o x Hx) as (x' & Hx' & HF).
  destruct (f_uninit _ _ HF Hv) as [Hv' Hb'].
  split; [exists x'; auto|].
  pose proof (prog_evlife K P fuel (cmds1 ++ cmds2) Hconf Hwf Hcl) as HE.
  destruct (el_uninit_untouched K _ HE o x' Hx' Hv') as [Hd Hf].
  split; intros f Hin.
  - apply (cnt_zero_not_in _ _ _ Hd) in Hin; [exact Hin|]. cbn. apply Nat.eqb_refl.
  - apply (cnt_zero_not_in _ _ _ Hf) in Hin; [exact Hin|]. cbn. apply Nat.eqb_refl.
Qed.
Print Assumptions prog_uninit_never_touched.

Theorem prog_drop_once K P fuel cmds :
  (k_clean K = true -> k_weak K = true) -> wf_prog P = true ->
  let m := fold_left (fun m c => exec_top K P fuel c m) cmds (init K) in
  clean m = true -> forall o : id, (cntE (isD o) (log m) <= 1)%nat.
Proof. intros H1 H2 m H3. exact (el_drop_once K m (prog_evlife K P fuel cmds H1 H2 H3)). Qed.

Theorem prog_free_facts K P fuel cmds :
  (k_clean K = true -> k_weak K = true) -> wf_prog P = true ->
  let m := fold_left (fun m c => exec_top K P fuel c m) cmds (init K) in
  clean m = true ->
  (forall o : id, (cntE (isF o) (log m) <= 1)%nat) /\
  (forall (l1 : list event) (o : id) (s a : N) (l2 : list event), log m = l1 ++ EFree o s a :: l2 ->
     In (EAlloc o s a) l2 /\ cntE (isF o) l2 = 0%nat /\ exists x : obj, get m o = Some x /\ (s, a) = box_layout K x) /\
  (forall (o : id) (x : obj), get m o = Some x -> ((0 < cntE (isF o) (log m))%nat <-> o_box x = BFreed)) /\
  (forall (o : id) (x : obj), get m o = Some x -> o_box x = BFreed -> o_vst x <> VLive).
Proof.
  intros H1 H2 m H3. pose proof (prog_evlife K P fuel cmds H1 H2 H3) as HE.
  exact (conj (el_free_once K m HE) (conj (el_free_after_alloc K m HE) (conj (el_free_iff K m HE) (el_freed_state K m HE)))).
Qed.

Print Assumptions life_linv.
