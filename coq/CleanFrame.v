(** * CleanFrame: the helpers of the machine model that leave the cleaner view [cv] alone
    (rewrite database [cv]), including the two tracing phases; the few that change it
    ([new_node], [new_map], [map_insert]) get an equation for the new view. *)
From Coq Require Import NArith Bool List Lia.
From stdpp Require Import base list option.
From RecordUpdate Require Import RecordSet.
From RC Require Import Hdr Machine RunInd Clean.
Import ListNotations RecordSetNotations.

(** destruct every [if]/[match] scrutinee in the goal, innermost first *)
Ltac brk :=
  repeat match goal with
         | |- context [match ?x with _ => _ end] =>
           lazymatch x with
           | context [match _ with _ => _ end] => fail
           | _ => destruct x eqn:?
           end
         end.

(** ** record fields other than [heap], [next_aid], [log] *)
Lemma cv_set_pc f m : cv (set pc f m) = cv m. Proof. reflexivity. Qed.
Lemma cv_set_pc_size f m : cv (set pc_size f m) = cv m. Proof. reflexivity. Qed.
Lemma cv_set_pc_alive f m : cv (set pc_alive f m) = cv m. Proof. reflexivity. Qed.
Lemma cv_set_st_collecting f m : cv (set st_collecting f m) = cv m. Proof. reflexivity. Qed.
Lemma cv_set_st_finalizing f m : cv (set st_finalizing f m) = cv m. Proof. reflexivity. Qed.
Lemma cv_set_st_dropping f m : cv (set st_dropping f m) = cv m. Proof. reflexivity. Qed.
Lemma cv_set_st_alloc f m : cv (set st_alloc f m) = cv m. Proof. reflexivity. Qed.
Lemma cv_set_st_exec f m : cv (set st_exec f m) = cv m. Proof. reflexivity. Qed.
Lemma cv_set_cf_thr f m : cv (set cf_thr f m) = cv m. Proof. reflexivity. Qed.
Lemma cv_set_cf_pnum f m : cv (set cf_pnum f m) = cv m. Proof. reflexivity. Qed.
Lemma cv_set_cf_pexp f m : cv (set cf_pexp f m) = cv m. Proof. reflexivity. Qed.
Lemma cv_set_cf_buf f m : cv (set cf_buf f m) = cv m. Proof. reflexivity. Qed.
Lemma cv_set_cf_auto f m : cv (set cf_auto f m) = cv m. Proof. reflexivity. Qed.
Lemma cv_set_slots f m : cv (set slots f m) = cv m. Proof. reflexivity. Qed.
Lemma cv_set_wslots f m : cv (set wslots f m) = cv m. Proof. reflexivity. Qed.
Lemma cv_set_cslots f m : cv (set cslots f m) = cv m. Proof. reflexivity. Qed.
Lemma cv_set_values f m : cv (set values f m) = cv m. Proof. reflexivity. Qed.
Lemma cv_set_bag f m : cv (set bag f m) = cv m. Proof. reflexivity. Qed.
Lemma cv_set_wparam f m : cv (set wparam f m) = cv m. Proof. reflexivity. Qed.
Lemma cv_set_fuse_trace f m : cv (set fuse_trace f m) = cv m. Proof. reflexivity. Qed.
Lemma cv_set_fuse_fin f m : cv (set fuse_fin f m) = cv m. Proof. reflexivity. Qed.
Lemma cv_set_fuse_drop f m : cv (set fuse_drop f m) = cv m. Proof. reflexivity. Qed.
Lemma cv_set_fuse_action f m : cv (set fuse_action f m) = cv m. Proof. reflexivity. Qed.
Lemma cv_set_fuse_closure f m : cv (set fuse_closure f m) = cv m. Proof. reflexivity. Qed.
Lemma cv_set_panicking f m : cv (set panicking f m) = cv m. Proof. reflexivity. Qed.
Lemma cv_set_dead f m : cv (set dead f m) = cv m. Proof. reflexivity. Qed.

Create HintDb cv discriminated.
#[export] Hint Rewrite cv_set_pc cv_set_pc_size cv_set_pc_alive cv_set_st_collecting
  cv_set_st_finalizing cv_set_st_dropping cv_set_st_alloc cv_set_st_exec cv_set_cf_thr
  cv_set_cf_pnum cv_set_cf_pexp cv_set_cf_buf cv_set_cf_auto cv_set_slots cv_set_wslots
  cv_set_cslots cv_set_values cv_set_bag cv_set_wparam cv_set_fuse_trace cv_set_fuse_fin
  cv_set_fuse_drop cv_set_fuse_action cv_set_fuse_closure cv_set_panicking cv_set_dead : cv.

(** ** events *)
Lemma cv_emit e m : aid_of_ev e = None -> cv (emit e m) = cv m.
Proof. intros H. unfold cv, emit. cbn. unfold executed_aids. cbn. rewrite H. reflexivity. Qed.
Lemma cv_emit_bad b o m : cv (emit_bad b o m) = cv m.
Proof. apply cv_emit. reflexivity. Qed.
Lemma cv_emit_action a f m :
  cv (emit (ECb KAction a f) m) = CV (cv_h (cv m)) (cv_n (cv m)) (a :: cv_x (cv m)).
Proof. reflexivity. Qed.
#[export] Hint Rewrite cv_emit using reflexivity : cv.
#[export] Hint Rewrite cv_emit_bad : cv.

(** ** object updates that do not touch the four viewed fields *)
#[export] Hint Rewrite cv_upd_same using (intros; reflexivity) : cv.
Lemma cv_uhdr o f m : cv (uhdr o f m) = cv m.
Proof. unfold uhdr. apply cv_upd_same. reflexivity. Qed.
Lemma cv_uside o f m : cv (uside o f m) = cv m.
Proof. unfold uside. apply cv_upd_same. reflexivity. Qed.
#[export] Hint Rewrite cv_uhdr cv_uside : cv.

Ltac cvs := autorewrite with cv.
Ltac cv_solve := intros; brk; cbn [fst snd]; cvs; reflexivity.

Section Frame.
  Context (K : conf) (P : prog).
  Implicit Types (m : machine).

  Lemma cv_dec_size o m : cv (dec_size o m) = cv m.
  Proof. unfold dec_size. cv_solve. Qed.
  Hint Rewrite cv_dec_size : cv.
  Lemma cv_remove_from_list o m : cv (remove_from_list o m) = cv m.
  Proof. unfold remove_from_list. cv_solve. Qed.
  Lemma cv_add_to_list o m : cv (add_to_list o m) = cv m.
  Proof. unfold add_to_list. cv_solve. Qed.
  Lemma cv_dec_rc_m o m : cv (dec_rc_m o m) = cv m.
  Proof. unfold dec_rc_m. cv_solve. Qed.
  Lemma cv_dealloc o m : cv (dealloc K o m) = cv m.
  Proof. unfold dealloc. cv_solve. Qed.
  Lemma cv_sfree o m : cv (sfree o m) = cv m.
  Proof. unfold sfree. cv_solve. Qed.
  Hint Rewrite cv_remove_from_list cv_add_to_list cv_dec_rc_m cv_dealloc cv_sfree : cv.
  Lemma cv_drop_metadata o m : cv (drop_metadata K o m) = cv m.
  Proof. unfold drop_metadata. cv_solve. Qed.
  Lemma cv_init_side o m : cv (init_side o m) = cv m.
  Proof. unfold init_side. cv_solve. Qed.
  Lemma cv_weak_strong_count w m : cv (weak_strong_count w m).1 = cv m.
  Proof. unfold weak_strong_count. cv_solve. Qed.
  Lemma cv_weak_weak_count w m : cv (weak_weak_count w m).1 = cv m.
  Proof. unfold weak_weak_count. cv_solve. Qed.
  Lemma cv_weak_clone w m m' : weak_clone w m = Some m' -> cv m' = cv m.
  Proof. unfold weak_clone. intros E; revert E; brk; intros [= <-]; cvs; reflexivity. Qed.
  Lemma cv_weak_drop w m : cv (weak_drop w m) = cv m.
  Proof. unfold weak_drop. cv_solve. Qed.
  Hint Rewrite cv_drop_metadata cv_init_side cv_weak_strong_count cv_weak_weak_count
    cv_weak_drop : cv.
  Lemma cv_weak_drop_opt w m : cv (weak_drop_opt w m) = cv m.
  Proof. unfold weak_drop_opt. cv_solve. Qed.
  Hint Rewrite cv_weak_drop_opt : cv.

  Lemma cv_node_via_slot i m : cv (node_via_slot i m).1 = cv m.
  Proof. unfold node_via_slot. cv_solve. Qed.
  Hint Rewrite cv_node_via_slot : cv.
  Lemma cv_resolve self l m : cv (resolve self l m).1 = cv m.
  Proof.
    unfold resolve. destruct l as [i|j|i j]; cbn [fst]; auto.
    - brk; reflexivity.
    - pose proof (cv_node_via_slot i m) as H.
      destruct (node_via_slot i m) as [m1 n]. cbn [fst] in H. brk; cbn [fst]; exact H.
  Qed.
  Lemma cv_wresolve self l m : cv (wresolve self l m).1 = cv m.
  Proof.
    unfold wresolve. destruct l as [i|j|i j|]; cbn [fst]; auto.
    - brk; reflexivity.
    - pose proof (cv_node_via_slot i m) as H.
      destruct (node_via_slot i m) as [m1 n]. cbn [fst] in H. brk; cbn [fst]; exact H.
  Qed.
  Lemma cv_nresolve self n m : cv (nresolve self n m).1 = cv m.
  Proof. unfold nresolve. cv_solve. Qed.
  Lemma cv_write_loc r v m : cv (write_loc r v m) = cv m.
  Proof. unfold write_loc. cv_solve. Qed.
  Lemma cv_write_wloc r v m : cv (write_wloc r v m) = cv m.
  Proof. unfold write_wloc. cv_solve. Qed.
  Hint Rewrite cv_resolve cv_wresolve cv_nresolve cv_write_loc cv_write_wloc : cv.

  Lemma cv_box_alloc o m : cv (box_alloc K o m) = cv m.
  Proof. unfold box_alloc. cv_solve. Qed.
  Lemma cv_set_fuse k n m : cv (set_fuse k n m) = cv m.
  Proof. unfold set_fuse. cv_solve. Qed.
  Hint Rewrite cv_box_alloc cv_set_fuse : cv.
  Lemma cv_tick k m : cv (tick k m).1 = cv m.
  Proof. unfold tick. cv_solve. Qed.
  Lemma cv_adjust m : cv (adjust K m) = cv m.
  Proof. unfold adjust. cv_solve. Qed.
  Hint Rewrite cv_tick cv_adjust : cv.
  Lemma cv_adjust_trigger_point m : cv (adjust_trigger_point K m) = cv m.
  Proof. unfold adjust_trigger_point. cv_solve. Qed.
  Hint Rewrite cv_adjust_trigger_point : cv.

  Lemma cv_fold {B} (f : machine -> B -> machine) :
    (forall m a, cv (f m a) = cv m) -> forall l m, cv (fold_left f l m) = cv m.
  Proof.
    intros Hf l. induction l as [|a l IH]; cbn; intros m; [reflexivity|].
    rewrite IH. apply Hf.
  Qed.
  Lemma cv_unmark_all l m : cv (unmark_all l m) = cv m.
  Proof. unfold unmark_all. apply cv_fold. intros; cvs; reflexivity. Qed.
  Lemma cv_reset_buffered m : cv (reset_buffered m) = cv m.
  Proof. unfold reset_buffered. apply cv_fold. intros; cvs; reflexivity. Qed.
  Hint Rewrite cv_unmark_all cv_reset_buffered : cv.

  (** *** the objects created *)
  Lemma cv_new_node c m :
    cv (new_node P c m).1 = CV (cv_h (cv m) ++ [VObj false [] [] None]) (cv_n (cv m)) (cv_x (cv m)).
  Proof. unfold new_node, cv. cbn. rewrite fmap_app. reflexivity. Qed.
  Lemma cv_new_map m :
    cv (new_map m).1 = CV (cv_h (cv m) ++ [VObj true [] [] None]) (cv_n (cv m)) (cv_x (cv m)).
  Proof. unfold new_map, cv. cbn. rewrite fmap_app. reflexivity. Qed.

  (** *** the tracing phases *)
  Lemma cv_traced_children m o : cv (traced_children P m o).1 = cv m.
  Proof. unfold traced_children. cv_solve. Qed.
  Lemma cv_trace_event o m : cv (trace_event K o m).1 = cv m.
  Proof. unfold trace_event. cv_solve. Qed.
  Lemma cv_visit_counting s c : cv (t_m (visit_counting s c)) = cv (t_m s).
  Proof. unfold visit_counting. intros; brk; cbn [t_m]; cvs; reflexivity. Qed.
  Lemma cv_visit_root s c : cv (t_m (visit_root s c)) = cv (t_m s).
  Proof. unfold visit_root. intros; brk; cbn [t_m]; cvs; reflexivity. Qed.
  Lemma cv_fold_visit_counting l s : cv (t_m (fold_left visit_counting l s)) = cv (t_m s).
  Proof.
    revert s. induction l as [|a l IH]; cbn; intros s; [reflexivity|].
    rewrite IH. apply cv_visit_counting.
  Qed.
  Lemma cv_fold_visit_root l s : cv (t_m (fold_left visit_root l s)) = cv (t_m s).
  Proof.
    revert s. induction l as [|a l IH]; cbn; intros s; [reflexivity|].
    rewrite IH. apply cv_visit_root.
  Qed.

  Lemma cv_process_counting s o : cv (t_m (process_counting K P s o).1) = cv (t_m s).
  Proof.
    unfold process_counting.
    pose proof (cv_trace_event o (uhdr o (set_mark IQ) (t_m s))) as H1.
    destruct (trace_event K o (uhdr o (set_mark IQ) (t_m s))) as [m1 boom]. cbn [fst] in H1.
    rewrite cv_uhdr in H1.
    destruct boom; cbn [fst t_m].
    - cvs. exact H1.
    - pose proof (cv_traced_children m1 o) as H2.
      destruct (traced_children P m1 o) as [m2 kids]. cbn [fst] in H2.
      match goal with |- context [fold_left visit_counting kids ?s0] =>
        pose proof (cv_fold_visit_counting kids s0) as H3;
        destruct (fold_left visit_counting kids s0) as [m3 r3 n3 q3] end.
      cbn [t_m] in *. brk; cbn [fst t_m]; cvs; congruence.
  Qed.

  Lemma cv_process_root s o : cv (t_m (process_root K P s o).1) = cv (t_m s).
  Proof.
    unfold process_root.
    pose proof (cv_trace_event o (t_m s)) as H1.
    destruct (trace_event K o (t_m s)) as [m1 boom]. cbn [fst] in H1.
    destruct boom; cbn [fst t_m].
    - cvs. exact H1.
    - pose proof (cv_traced_children m1 o) as H2.
      destruct (traced_children P m1 o) as [m2 kids]. cbn [fst] in H2. cbn [fst].
      rewrite cv_fold_visit_root. cbn [t_m]. congruence.
  Qed.

  Lemma cv_counting n : forall s r, counting K P n s = Some r -> cv (t_m r.1) = cv (t_m s).
  Proof.
    induction n as [|n IH]; intros s r E; cbn in E; [discriminate|].
    destruct (pc (t_m s)) as [|o rest] eqn:Epc.
    - destruct (t_q s) as [|o q'] eqn:Eq.
      + injection E as <-. reflexivity.
      + match type of E with context [process_counting K P ?s0 o] =>
          pose proof (cv_process_counting s0 o) as H2;
          destruct (process_counting K P s0 o) as [s' boom] end.
        cbn [fst t_m] in H2. rewrite cv_uhdr in H2.
        destruct boom; [injection E as <-; exact H2 | rewrite (IH _ _ E); exact H2].
    - match type of E with context [process_counting K P ?s0 o] =>
        pose proof (cv_process_counting s0 o) as H2;
        destruct (process_counting K P s0 o) as [s' boom] end.
      cbn [fst t_m] in H2. rewrite cv_dec_size, cv_set_pc, cv_uhdr in H2.
      destruct boom; [injection E as <-; exact H2 | rewrite (IH _ _ E); exact H2].
  Qed.

  Lemma cv_roots n : forall s r, roots K P n s = Some r -> cv (t_m r.1) = cv (t_m s).
  Proof.
    induction n as [|n IH]; intros s r E; cbn in E; [discriminate|].
    destruct (t_root s) as [|o rest] eqn:Er.
    - destruct (t_q s) as [|o q'] eqn:Eq.
      + injection E as <-. reflexivity.
      + match type of E with context [process_root K P ?s0 o] =>
          pose proof (cv_process_root s0 o) as H2;
          destruct (process_root K P s0 o) as [s' boom] end.
        cbn [fst t_m] in H2. rewrite cv_uhdr in H2.
        destruct boom; [injection E as <-; exact H2 | rewrite (IH _ _ E); exact H2].
    - match type of E with context [process_root K P ?s0 o] =>
        pose proof (cv_process_root s0 o) as H2;
        destruct (process_root K P s0 o) as [s' boom] end.
      cbn [fst t_m] in H2. rewrite cv_uhdr in H2.
      destruct boom; [injection E as <-; exact H2 | rewrite (IH _ _ E); exact H2].
  Qed.

  Lemma cv_trace_pass m : cv (trace_pass K P m).1 = cv m.
  Proof.
    unfold trace_pass.
    destruct (counting K P (pass_fuel m) (TState m [] [] [])) as [[s b]|] eqn:E1; [|reflexivity].
    pose proof (cv_counting _ _ _ E1) as H1. cbn [fst t_m] in H1.
    destruct b; [exact H1|].
    destruct (roots K P (pass_fuel m) s) as [[s' b']|] eqn:E2; [|exact H1].
    pose proof (cv_roots _ _ _ E2) as H2. cbn [fst] in H2.
    destruct b'; cbn [fst]; congruence.
  Qed.
End Frame.

#[export] Hint Rewrite cv_dec_size cv_remove_from_list cv_add_to_list cv_dec_rc_m cv_dealloc
  cv_sfree cv_drop_metadata cv_init_side cv_weak_strong_count cv_weak_weak_count cv_weak_drop
  cv_weak_drop_opt cv_node_via_slot cv_resolve cv_wresolve cv_nresolve cv_write_loc
  cv_write_wloc cv_box_alloc cv_set_fuse cv_tick cv_adjust cv_adjust_trigger_point
  cv_unmark_all cv_reset_buffered cv_new_node cv_new_map cv_traced_children cv_trace_event
  cv_trace_pass : cv.
#[export] Hint Rewrite @cv_fold using (intros; autorewrite with cv; reflexivity) : cv.

(** lookups through the view *)
Lemma cv_h_lookup m o x : get m o = Some x -> cv_h (cv m) !! o = Some (view_obj x).
Proof.
  unfold get. intros H. unfold cv. cbn [cv_h]. rewrite list_lookup_fmap.
  unfold Machine.id in *. rewrite H. reflexivity.
Qed.
Lemma cv_h_lookup_inv m o w :
  cv_h (cv m) !! o = Some w -> exists x, get m o = Some x /\ w = view_obj x.
Proof.
  unfold get, cv. cbn [cv_h]. rewrite list_lookup_fmap. unfold Machine.id in *.
  destruct (heap m !! o) as [x|]; [|discriminate].
  intros [= <-]. eauto.
Qed.
