(** * LifeAct: "at every activation".  Facts that part A/B's pre-conditions imply hold at the
    entry of EVERY activation of a clean run, nested ones included: the interpreter [Life.mrun]
    that records a marker (in the ghost [dead]) whenever an activation starts in a state violating
    the fact never records one ([Life.mfold_eq]).  Instance for C14: a value under construction
    has strong count 0 (so no [Weak] upgrades to it) throughout the closure of [new_cyclic]. *)
From Coq Require Import NArith Bool List Lia.
From stdpp Require Import base list option.
From RecordUpdate Require Import RecordSet.
From RC Require Import Hdr Machine RunInd.
From RC Require Import Inv InvP SafeHelpers SafePrims SafeCalls SafeMain SafeColl SafeFinal.
From RC Require Import LifeGhost Life.
Import ListNotations RecordSetNotations.
Local Open Scope N_scope.

Lemma Pre_SInv K b E c m : Pre K (PreC K) b E c m -> exists E', SInv K b E' [] m.
Proof.
  destruct (is_coll c) eqn:Hc.
  - destruct c; try discriminate; cbn; intros H.
    + destruct H as (_ & HI & _). eauto.
    + destruct H as (_ & HI & _). eauto.
    + destruct H as (_ & HI & _). eauto.
    + destruct H as ((_ & HI & _) & _). eauto.
    + destruct H as ((_ & HI & _) & _). eauto.
  - rewrite Pre_nc by exact Hc. intros (_ & HI & _). eauto.
Qed.

Definition uninit_dead_obj (x : obj) : bool :=
  match o_vst x, o_box x with
  | VUninit, BAlloc => h_rc (o_hdr x) =? 0
  | _, _ => true
  end.
Definition chk14 (c : call) (m : machine) : bool := forallb uninit_dead_obj (heap m).

Lemma chk14_dl c s m : chk14 c (dl s m) = chk14 c m.
Proof. reflexivity. Qed.
Lemma chk14_ok K b E A c m : Pre K (PreC K) b E c m -> Q K A c m -> chk14 c m = true.
Proof.
  intros Hpre _. destruct (Pre_SInv K b E c m Hpre) as (E' & HI). unfold chk14. apply forallb_forall. intros x Hin.
  apply elem_of_list_In, elem_of_list_lookup in Hin as [o Ho]. unfold uninit_dead_obj.
  destruct (o_vst x) eqn:Hv; try reflexivity. destruct (o_box x) eqn:Hb; try reflexivity.
  destruct (ox_uninit _ _ _ _ (sv_objx _ _ _ _ _ HI o x Ho) Hb Hv) as [H0 _]. rewrite H0. reflexivity.
Qed.

(** the run that records a marker [mu] whenever an activation (at any depth) starts in a state
    with a [VUninit], allocated object of non-zero strong count is the real run *)
Theorem uninit_dead_every_activation K P fuel cmds mu :
  (k_clean K = true -> k_weak K = true) -> wf_prog P = true ->
  let m := fold_left (fun m c => exec_top K P fuel c m) cmds (init K) in
  clean m = true -> (length (heap m) <= mu)%nat ->
  fold_left (fun m c => mexec_top K P chk14 mu fuel c m) cmds (init K) = m.
Proof. intros Hconf Hwf. exact (mfold_eq K P Hconf Hwf chk14 chk14_dl (chk14_ok K) mu fuel cmds). Qed.

(** what the marking interpreter is: [mrun] marks at the entry of an activation and runs [step] *)
Lemma mrun_unfold K P chk mu n c m :
  mrun K P chk mu (S n) c m = step K P (mrun K P chk mu n) c (if chk c m then m else dl [mu] m).
Proof. reflexivity. Qed.
Lemma mrun_is_run_plus_markers K P chk mu n c m :
  (forall c s m, chk c (dl s m) = chk c m) ->
  exists t, Forall (fun x => x = mu) t /\
            mrun K P chk mu n c m = (dl t (run K P n c m).1, (run K P n c m).2).
Proof. intros Hdl. exact (mrun_eq K P chk Hdl mu n c m). Qed.

Print Assumptions uninit_dead_every_activation.
