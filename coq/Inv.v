(** * Inv: the reference-count / no-dangling / lifecycle invariant of the machine, as an
    executable checker.

    [inv_b E m] is a boolean function, so that the statement can be *tested* on thousands of
    model runs (ocaml/driver.ml evaluates it after every top-level command) before and while it is
    being proved.  [E] is the multiset of strong handles currently held by active Rust frames
    ("in flight": removed from a location but not yet decremented or stored; empty at top level);
    the dying set [D] is the ghost [dead m]: every object that ever entered the collector's
    drop pass (freed afterwards, or abandoned for ever if the pass unwound).

    The propositional reading of each conjunct is given beside it; Count.v / Safe.v prove that
    every run preserves it. *)
From Coq Require Import NArith Bool List.
From stdpp Require Import base list option.
From RC Require Import Hdr Machine.
Import ListNotations.
Local Open Scope N_scope.

Definition eqb_oid (a : option id) (o : id) : bool :=
  match a with Some x => Nat.eqb x o | None => false end.
Definition cnt_opt (o : id) (l : list (option id)) : nat := length (filter (fun a => eqb_oid a o = true) l).
Definition cnt_id (o : id) (l : list id) : nat := length (filter (fun a => Nat.eqb a o = true) l).

(** strong handles to [o] stored inside heap object [x] *)
Definition obj_refs (o : id) (x : obj) : nat :=
  (cnt_opt o (o_fields x) + (if eqb_oid (o_cleaner x) o then 1 else 0))%nat.
Definition heap_refs (m : machine) (o : id) : nat :=
  fold_right (fun x acc => (obj_refs o x + acc)%nat) 0%nat (heap m).
(** strong handles held by the program outside the heap *)
Definition ext_refs (m : machine) (o : id) : nat := (cnt_opt o (slots m) + cnt_id o (bag m))%nat.
Definition refs (m : machine) (o : id) : nat := (ext_refs m o + heap_refs m o)%nat.

Definition eqb_wref (a : option wref) (o : id) : bool :=
  match a with Some (WTo x) => Nat.eqb x o | _ => false end.
Definition cnt_w (o : id) (l : list (option wref)) : nat := length (filter (fun a => eqb_wref a o = true) l).
Definition wrefs (m : machine) (o : id) : nat :=
  (cnt_w o (wslots m)
   + cnt_w o (map Some (wparam m))
   + length (filter (fun c => match c with Some cr => Nat.eqb (cr_map cr) o | None => false end = true) (cslots m))
   + fold_right (fun x acc => (cnt_w o (o_wfields x) + acc)%nat) 0%nat (heap m))%nat.

Definition is_alloc (x : obj) : bool := match o_box x with BAlloc => true | _ => false end.
Definition is_live (x : obj) : bool := match o_vst x with VLive => true | _ => false end.
Definition mem_id (o : id) (l : list id) : bool := existsb (Nat.eqb o) l.

(** every strong handle location of the machine: (holder, target); the holder is [None] for
    slots and the bag *)
Definition handle_locs (m : machine) : list (option id * id) :=
  omap (fun a => match a with Some t => Some (None, t) | None => None end) (slots m)
  ++ map (fun t => (None, t)) (bag m)
  ++ concat (imap (fun p x =>
        omap (fun a => match a with Some t => Some (Some p, t) | None => None end) (o_fields x)
        ++ match o_cleaner x with Some t => [(Some p, t)] | None => [] end) (heap m)).

Section Inv.
  Context (K : conf).

  (** per-object conjuncts, for object [o] with heap entry [x] *)
  Definition obj_ok (E D : list id) (m : machine) (o : id) (x : obj) : bool :=
    let h := o_hdr x in
    match o_box x with
    | BAlloc =>
      (* I-count: the strong count covers every existing handle (equality unless a panic leaked) *)
      (N.of_nat (refs m o + cnt_id o E) <=? h_rc h)
      && (h_rc h <=? max_rc)
      (* the dropped marker is exactly "value destruction has begun" (weak-ptrs only) *)
      && (let dying := match o_vst x with VDropping | VDropped => true | _ => false end in
          if k_weak K then (implb dying (is_dropped h)) && (implb (is_dropped h) (dying || mem_id o D || (h_rc h =? 0)))
          else negb (is_dropped h) || negb (is_live x))
      (* side record present iff the header bit is set; weak count exact; accessible *)
      && Bool.eqb (h_side h) (match o_side x with Some _ => true | None => false end)
      && match o_side x with
         | Some s => negb (sd_freed s) && w_acc (sd_wk s) && (w_cnt (sd_wk s) =? N.of_nat (wrefs m o))
                     && (w_cnt (sd_wk s) <=? max_weak)
         | None => Nat.eqb (wrefs m o) 0
         end
      (* a value that is not live is either uninitialised with no strong handle (new_cyclic) or
         being destroyed: nobody outside the dying set can reach it (see loc_ok) *)
      && match o_vst x with
         | VMoved => false            (* try_unwrap frees the box at once *)
         | _ => true
         end
    | BFreed =>
      (* nothing points to a freed box; its side record survives exactly while Weaks exist *)
      Nat.eqb (refs m o + cnt_id o E) 0
      && negb (is_live x)
      && match o_side x with
         | Some s => if sd_freed s then Nat.eqb (wrefs m o) 0
                     else negb (w_acc (sd_wk s)) && (w_cnt (sd_wk s) =? N.of_nat (wrefs m o)) && negb (w_cnt (sd_wk s) =? 0)
         | None => Nat.eqb (wrefs m o) 0
         end
    | BNotYet =>
      (* a value that never got a box (Cc::new unwound): no handle, no weak *)
      Nat.eqb (refs m o + cnt_id o E) 0 && Nat.eqb (wrefs m o) 0
    end.

  (** I-ref: every handle location points to an allocated box; a location outside the dying set
      points to a live value outside the dying set *)
  Definition loc_ok (D : list id) (m : machine) (l : option id * id) : bool :=
    let '(holder, t) := l in
    match heap m !! t with
    | None => false
    | Some xt =>
      is_alloc xt
      && (let outside :=
              match holder with
              | None => true
              | Some p => match heap m !! p with
                          | Some xp => is_live xp && negb (mem_id p D)
                          | None => false
                          end
              end in
          if outside then is_live xt && negb (mem_id t D) else true)
    end.

  Definition inv_b (E : list id) (m : machine) : bool :=
    let D := dead m in
    forallb (fun '(o, x) => obj_ok E D m o x) (imap (fun o x => (o, x)) (heap m))
    && forallb (loc_ok D m) (handle_locs m)
    && forallb (fun t => match heap m !! t with Some xt => is_alloc xt | None => false end) E
    (* buffered objects are allocated, live and not dying *)
    && forallb (fun t => match heap m !! t with
                         | Some xt => is_alloc xt && is_live xt && negb (mem_id t D)
                         | None => false end) (pc m).

  (** *** Well-formed programs: the contract of the crate's documentation.  A Drop impl must not
      touch the Cc fields of the value being dropped (they may point to already-dropped members of
      the same garbage set), so drop scripts contain no location that goes through [Self]'s strong
      fields and do not use [Self] as a node.  (Own Weak fields are fine.) *)
  Definition loc_no_self (l : loc) : bool := match l with LFS _ => false | _ => true end.
  Definition node_no_self (n : nodeloc) : bool := match n with NSelf => false | _ => true end.
  Definition cmd_no_self (c : cmd) : bool :=
    match c with
    | CNew d _ => loc_no_self d
    | CClone a b | CMove a b => loc_no_self a && loc_no_self b
    | CDrop l | CMarkAlive l | CFinAgain l | CObs l | CBag l _ => loc_no_self l
    | CDowngrade l _ => loc_no_self l
    | CUpgrade _ d => loc_no_self d
    | CTryUnwrap l _ => loc_no_self l
    | CNewCyclic d _ _ _ => loc_no_self d
    | CRegister n _ _ | CBorrow n | CUnborrow n => node_no_self n
    | _ => true
    end.
  Definition wf_prog (P : prog) : bool :=
    forallb (fun c => match c_drop c with
                      | Some s => forallb cmd_no_self (default [] (p_scripts P !! s))
                      | None => true end) (p_classes P).

  (** I-count with equality: holds as long as no panic was ever raised (a caught panic may leave a
      count too high, never too low) *)
  Definition exact_b (E : list id) (m : machine) : bool :=
    forallb (fun '(o, x) => if is_alloc x then h_rc (o_hdr x) =? N.of_nat (refs m o + cnt_id o E) else true)
            (imap (fun o x => (o, x)) (heap m)).
  Definition no_panic_yet (m : machine) : bool :=
    forallb (fun e => match e with ERes RPanicked => false | _ => true end) (log m).

  (** no model-detected misbehaviour so far (Fuel/Abort are not misbehaviour of the crate) *)
  Definition no_bad (m : machine) : bool :=
    forallb (fun e => match e with
                      | EBad Fuel _ | EBad Abort _ => true
                      | EBad _ _ => false
                      | _ => true end) (log m).
End Inv.
