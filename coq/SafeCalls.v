(** * SafeCalls: cleaner field, new objects, calling convention ([Cur_call], [Post_intro]) and the resolution of the program's locations. *)
From Coq Require Import NArith Bool List Lia.
From stdpp Require Import base list option.
From RecordUpdate Require Import RecordSet.
From RC Require Import Hdr Machine RunInd Inv InvP SafeHelpers SafePrims.
Import ListNotations RecordSetNotations.
Local Open Scope N_scope.

Section Cleaner.
  Context (K : conf).
  Implicit Types (m : machine) (o : id) (x : obj).

  Lemma obj_refs_cleaner o x v :
    (obj_refs o (x <| o_cleaner := v |>) + b2n (eqb_oid (o_cleaner x) o) = obj_refs o x + b2n (eqb_oid v o))%nat.
  Proof.
    unfold obj_refs. change (o_fields (x <| o_cleaner := v |>)) with (o_fields x).
    change (o_cleaner (x <| o_cleaner := v |>)) with v. unfold b2n.
    destruct (eqb_oid (o_cleaner x) o), (eqb_oid v o); lia.
  Qed.

  (** the cleaner field of a node *)
  Lemma Cur_set_cleaner b n E0 ex m0 E W m o x v :
    Cur K b n E0 ex m0 (ol v ++ E) W m -> get m o = Some x ->
    (v <> None -> o_ismap x = false) ->
    (forall t, v = Some t -> LocOk m (Some o) true t) ->
    (o_box x <> BNotYet \/ o_vst x = VDropping) -> (o_vst x <> VDropping \/ ex = Some o) -> o_vst x <> VUninit ->
    (inD m o = false \/ o_vst x = VDropped \/ ex = Some o) ->
    Cur K b n E0 ex m0 (ol (o_cleaner x) ++ E) W (upd o (fun x => x <| o_cleaner := v |>) m).
  Proof.
    intros C Hx Hnm Hok Hny Hvd Hnu Hdd. pose proof (cur_inv _ _ _ _ _ _ _ _ _ C) as HI.
    assert (HS : heap_st m (upd o (fun x => x <| o_cleaner := v |>) m)).
    { eapply heap_st_alter; [reflexivity|]. intros y Hy. repeat split; auto. }
    eapply (Cur_move K b n E0 ex m0 (ol v ++ E) W (ol (o_cleaner x) ++ E) m _ o _ C); try reflexivity.
    - eapply NoBad_log; [reflexivity | apply C].
    - intros y Hy. assert (y = x) by congruence. subst y.
      destruct (sv_objx _ _ _ _ _ HI _ _ Hx) as [_ _ _ _ X5 _].
      assert (Hm' : o_ismap x = true -> o_fields x = [] /\ v = None).
      { intros Hm. split; [apply X5, Hm|]. destruct v as [t|]; [|reflexivity]. rewrite Hnm in Hm; discriminate. }
      cbn. repeat split; auto; match goal with H : o_ismap _ = true |- _ => apply Hm' in H; apply H end.
    - intros o'. rewrite !cnt_id_app, !cnt_id_ol.
      pose proof (refs_upd m o (fun x => x <| o_cleaner := v |>) x o' Hx) as H1. cbv beta in H1.
      pose proof (obj_refs_cleaner o' x v) as H2. lia.
    - intros h c t Hl. inversion Hl as [i t' H | t' H | q xq j' t' Hq Hj' | q xq t' Hq Hc]; subst.
      + left. econstructor 1; eauto.
      + left. constructor 2. exact H.
      + rewrite get_upd in Hq. destruct (decide (o = q)) as [->|Hne].
        * rewrite Hx in Hq. cbn in Hq. injection Hq as <-. cbn in Hj'. left. econstructor 3; eauto.
        * left. econstructor 3; eauto.
      + rewrite get_upd in Hq. destruct (decide (o = q)) as [->|Hne].
        * rewrite Hx in Hq. cbn in Hq. injection Hq as <-. cbn in Hc. subst v. right.
          eapply LocOk_transfer; [exact HS | reflexivity | apply Hok; reflexivity].
        * left. econstructor 4; eauto.
    - intros t Ht. apply elem_of_app in Ht as [Ht|Ht].
      + right. destruct (o_cleaner x) as [t'|] eqn:Ec; cbn in Ht; [|inversion Ht].
        apply elem_of_list_singleton in Ht. subst t'.
        destruct (sv_loc _ _ _ _ _ HI (Some o) true t) as (xt & Hxt & Hbt & _); [econstructor 4; eauto | eauto].
      + left. apply elem_of_app. auto.
  Qed.

  (** new_node / new_map *)
  Lemma Cur_new_node P b n E0 ex m0 E W m cls :
    Cur K b n E0 ex m0 E W m -> Cur K b n E0 ex m0 E W (new_node P cls m).1.
  Proof.
    intros C. unfold new_node. cbn [fst].
    eapply (Cur_new_obj K b n E0 ex m0 E W m _ _ C); try reflexivity.
    - repeat split.
    - intros j. split; intros; cbn in *;
        match goal with H : replicate _ None !! _ = Some _ |- _ => apply lookup_replicate in H as [H _]; discriminate
                      | |- _ <> _ => intros H; apply lookup_replicate in H as [H _]; discriminate end.
    - intros j w Hj. cbn in Hj. apply lookup_replicate in Hj as [-> _]. reflexivity.
    - cbn. discriminate.
  Qed.
  Lemma Cur_new_map b n E0 ex m0 E W m :
    Cur K b n E0 ex m0 E W m -> Cur K b n E0 ex m0 E W (new_map m).1.
  Proof.
    intros C. unfold new_map. cbn [fst].
    eapply (Cur_new_obj K b n E0 ex m0 E W m _ _ C); try reflexivity.
    - repeat split.
    - intros j. split; intros; cbn in *; [intros H|]; discriminate.
    - intros j w Hj. cbn in Hj. discriminate.
    - auto.
  Qed.
End Cleaner.

Definition is_coll (c : call) : bool :=
  match c with
  | KCollect | KCollectLoop _ | KCollectOnce | KFinalizeList _ _ _ _ | KDropList _ _ _ => true
  | _ => false
  end.

Section Calls.
  Context (K : conf).
  Context (PreC : bool -> list id -> call -> machine -> Prop)
          (PostC : bool -> list id -> call -> machine -> machine -> outcome -> Prop).
  Implicit Types (m : machine) (o : id) (x : obj).

  Lemma Post_nc b E c m m' r : is_coll c = false ->
    Post K PostC b E c m m' r =
    match r with
    | ONormal | OPanic =>
      NoBad m' /\ SInv K (match r with ONormal => b | _ => false end) E [] m' /\
      Fr K E (ex_of c) m m' /\ (r = ONormal -> NewDeadDropped m m') /\ post_own c m m'
    | _ => True
    end.
  Proof. destruct c; cbn; intros; try discriminate; reflexivity. Qed.

  Lemma Pre_nc b E c m : is_coll c = false ->
    Pre K PreC b E c m =
    (NoBad m /\ SInv K b (own_of c ++ E) [] m /\
     match c with
     | KCmd self c => self_ok E self [c] m
     | KScript self cs => self_ok E self cs m
     | KStore r v => loc_valid m r /\ good_h m v
     | KDropCc o => own_ok m o
     | KDropValue o => droppable K E m o
     | KDropFields o _ | KDropMapSlots o _ => exists x, get m o = Some x /\ o_vst x = VDropping
     | _ => True
     end).
  Proof. destruct c; cbn; intros; try discriminate; reflexivity. Qed.

  (** concluding an activation *)
  Lemma Post_intro b b' n E c m m' r :
    is_coll c = false -> Cur K b' n E (ex_of c) m E [] m' -> post_own c m m' ->
    (r = ONormal -> b' = b /\ n = true) -> Post K PostC b E c m m' r.
  Proof.
    intros Hc [C1 C2 C3 C4] Hown Hn. rewrite Post_nc by exact Hc. destruct r; auto.
    - destruct (Hn eq_refl) as [-> ->]. split; [exact C1|]. split; [exact C2|]. split; [exact C3|]. split; [auto | exact Hown].
    - split; [exact C1|]. split; [eapply SInv_inexact; exact C2|]. split; [exact C3|]. split; [discriminate | exact Hown].
  Qed.

  (** using the post-condition of a callee *)
  Lemma Cur_call b n E0 ex m0 Ecur m1 c E2 m2 r :
    is_coll c = false ->
    Cur K b n E0 ex m0 Ecur [] m1 ->
    Post K PostC b E2 c m1 m2 r -> (r = ONormal \/ r = OPanic) ->
    (forall o, (cnt_id o E0 <= cnt_id o E2)%nat) -> (ex_of c = None \/ ex = ex_of c) ->
    Cur K (match r with ONormal => b | _ => false end) (match r with ONormal => n | _ => false end)
        E0 ex m0 E2 [] m2 /\ post_own c m1 m2.
  Proof.
    intros Hc [C1 C2 C3 C4] HP Hr HE Hex. rewrite Post_nc in HP by exact Hc.
    destruct Hr as [-> | ->]; destruct HP as (P1 & P2 & P3 & P4 & P5); (split; [|exact P5]).
    - split; auto.
      + eapply Fr_trans; [exact C3|]. eapply Fr_weaken; eauto.
      + intros Hn. eapply NDD_trans; [apply (sv_dead _ _ _ _ _ C2) | apply C4, Hn | | apply P4; reflexivity].
        eapply Fr_weaken; eauto.
    - split; auto.
      + eapply Fr_trans; [exact C3|]. eapply Fr_weaken; eauto.
      + discriminate.
  Qed.
End Calls.

Section Calls2.
  Context (K : conf).
  Context (PreC : bool -> list id -> call -> machine -> Prop)
          (PostC : bool -> list id -> call -> machine -> machine -> outcome -> Prop).

  Lemma Cur_call_n c b n E0 ex m0 Ecur m1 E2 m2 :
    is_coll c = false -> Cur K b n E0 ex m0 Ecur [] m1 -> Post K PostC b E2 c m1 m2 ONormal ->
    (forall o, (cnt_id o E0 <= cnt_id o E2)%nat) -> (ex_of c = None \/ ex = ex_of c) ->
    Cur K b n E0 ex m0 E2 [] m2 /\ post_own c m1 m2.
  Proof. intros Hc C HP HE Hex. apply (Cur_call K PostC b n E0 ex m0 Ecur m1 c E2 m2 ONormal Hc C HP (or_introl eq_refl) HE Hex). Qed.
  Lemma Cur_call_p c b n E0 ex m0 Ecur m1 E2 m2 :
    is_coll c = false -> Cur K b n E0 ex m0 Ecur [] m1 -> Post K PostC b E2 c m1 m2 OPanic ->
    (forall o, (cnt_id o E0 <= cnt_id o E2)%nat) -> (ex_of c = None \/ ex = ex_of c) ->
    Cur K false false E0 ex m0 E2 [] m2 /\ post_own c m1 m2.
  Proof. intros Hc C HP HE Hex. apply (Cur_call K PostC b n E0 ex m0 Ecur m1 c E2 m2 OPanic Hc C HP (or_intror eq_refl) HE Hex). Qed.

  (** after a panic exactness is lost; the knowledge can be weakened accordingly *)
  Lemma Cur_weaken b n E0 ex m0 E W m : Cur K b n E0 ex m0 E W m -> Cur K false false E0 ex m0 E W m.
  Proof. intros [C1 C2 C3 C4]. split; auto. - eapply SInv_inexact; eauto. - discriminate. Qed.

  (** an in-flight handle is lost (leaked) by an unwinding frame *)
  Lemma Cur_leak n E0 ex m0 E W m o : Cur K false n E0 ex m0 (o :: E) W m -> Cur K false n E0 ex m0 E W m.
  Proof.
    intros [C1 C2 C3 C4]. split; auto.
    destruct C2 as [I1 I2 I3 I4 I5 I6 I7 I8 I9 I10 I11 I12 I13]. split; auto.
    - intros o' x Hx. specialize (I1 o' x Hx). rewrite cnt_id_cons in I1.
      destruct (o_box x) eqn:Eb.
      + apply okN_notyet in I1; [|exact Eb]. apply okN_notyet; [exact Eb|]. lia.
      + destruct (okN_alloc K _ _ _ _ _ I1 Eb) as (O1 & O2 & O3 & O4 & O5 & O6).
        apply okN_alloc_intro; [exact Eb|]. unfold OkAlloc. repeat split; auto; try lia; try discriminate.
      + apply okN_freed in I1; [|exact Eb]. apply okN_freed; [exact Eb|]. unfold OkFreed in *. destruct I1 as (? & ? & ?).
        repeat split; auto. lia.
    - intros t Ht. apply I4. right. exact Ht.
  Qed.
End Calls2.

(** ** Resolution of the program's locations *)
Section Resolve.
  Context (K : conf).
  Implicit Types (m : machine) (o : id) (x : obj).

  Definition self_good (m : machine) (self : option id) : Prop :=
    exists g x, self = Some g /\ get m g = Some x /\ o_box x = BAlloc /\ o_vst x = VLive /\
                inD m g = false /\ o_ismap x = false.
  Definition self_dropping (m : machine) (self : option id) : Prop :=
    exists g x, self = Some g /\ get m g = Some x /\ o_vst x = VDropping.

  Lemma self_ok_cases E self cs m :
    self_ok E self cs m -> self = None \/ self_good m self \/ (forallb cmd_no_self cs = true /\ self_dropping m self).
  Proof.
    destruct self as [g|]; cbn; [|auto]. intros [(x & Hx & Hb & Hv & Hi & Hm & _)|[Hn (x & Hx & Hv)]].
    - right; left. exists g, x. auto 8.
    - right; right. split; [exact Hn|]. exists g, x. auto.
  Qed.

  Lemma node_via_slot_ok b E W m i :
    SInv K b E W m ->
    exists no, node_via_slot i m = (m, no) /\
      forall o, no = Some o -> slots m !! i = Some (Some o) /\ good_h m o.
  Proof.
    intros HI. unfold node_via_slot. destruct (slots m !! i) as [[o|]|] eqn:Es; try (exists None; split; [reflexivity | discriminate]).
    destruct (sv_loc _ _ _ _ _ HI None false o) as (x & Hx & Hb & Hm & Hv & Hi); [econstructor 1; eauto|].
    rewrite Hx, Hb. unfold value_accessible. rewrite Hv, (Hm eq_refl). cbn.
    exists (Some o). split; [reflexivity|]. intros o' [= <-]. split; [reflexivity|]. exists x. auto 8.
  Qed.

  Definition holder_good (m : machine) (r : rloc) : Prop :=
    match r with
    | RSlot _ => True
    | RField p j => exists x, get m p = Some x /\ o_box x = BAlloc /\ o_vst x = VLive /\ inD m p = false /\ o_ismap x = false
    end.

  Lemma field_good b E W m p x j t :
    SInv K b E W m -> get m p = Some x -> o_vst x = VLive -> inD m p = false ->
    o_fields x !! j = Some (Some t) -> good_h m t.
  Proof.
    intros HI Hx Hv Hi Hj.
    destruct (sv_loc _ _ _ _ _ HI (Some p) false t) as (xt & Hxt & Hb & Hm & Hc); [econstructor 3; eauto|].
    destruct (Hc x Hx) as [Hc1 _]. destruct (Hc1 Hv Hi). exists xt. auto 8.
  Qed.

  Lemma resolve_ok b E W m self l :
    SInv K b E W m -> (loc_no_self l = true \/ self_good m self) ->
    exists ro, resolve self l m = (m, ro) /\
      forall r, ro = Some r ->
        idx_valid m r /\ holder_good m r /\ (forall t, read_loc r m = Some t -> good_h m t).
  Proof.
    intros HI Hs. destruct l as [i|j|i j]; cbn [resolve].
    - eexists. split; [reflexivity|]. intros r Hr. destruct (decide (i < nslots)%nat) as [Hlt|]; [|discriminate].
      injection Hr as <-. split; [cbn; rewrite (proj1 (sv_lens _ _ _ _ _ HI)); exact Hlt|]. split; [exact I|].
      intros t Ht. cbn in Ht. destruct (slots m !! i) as [[t'|]|] eqn:Es; cbn in Ht; try discriminate. injection Ht as ->.
      destruct (sv_loc _ _ _ _ _ HI None false t) as (x & Hx & Hb & Hm & Hv & Hi); [econstructor 1; eauto|]. exists x. auto 8.
    - destruct Hs as [Hs|(g & x & -> & Hx & Hb & Hv & Hi & Hm)]; [discriminate|].
      unfold self_node. rewrite Hx. unfold value_accessible. rewrite Hv. rewrite Hx.
      eexists. split; [reflexivity|]. intros r Hr. destruct (decide (j < length (o_fields x))%nat) as [Hlt|]; [|discriminate].
      injection Hr as <-. split; [cbn; eauto|]. split; [cbn; exists x; auto 8|].
      intros t Ht. cbn in Ht. rewrite Hx in Ht. cbn in Ht.
      destruct (o_fields x !! j) as [[t'|]|] eqn:Ej; cbn in Ht; try discriminate. injection Ht as ->.
      eapply field_good; eauto.
    - destruct (node_via_slot_ok _ _ _ _ i HI) as (no & -> & Hno). destruct no as [o|]; [|exists None; split; [reflexivity|discriminate]].
      destruct (Hno o eq_refl) as (Hsl & x & Hx & Hb & Hv & Hi & Hm). rewrite Hx.
      eexists. split; [reflexivity|]. intros r Hr. destruct (decide (j < length (o_fields x))%nat) as [Hlt|]; [|discriminate].
      injection Hr as <-. split; [cbn; eauto|]. split; [cbn; exists x; auto 8|].
      intros t Ht. cbn in Ht. rewrite Hx in Ht. cbn in Ht.
      destruct (o_fields x !! j) as [[t'|]|] eqn:Ej; cbn in Ht; try discriminate. injection Ht as ->.
      eapply field_good; eauto.
  Qed.

  Lemma loc_valid_of b E W m r :
    SInv K b E W m -> idx_valid m r -> holder_good m r -> (forall t, read_loc r m = Some t -> good_h m t) ->
    loc_valid m r.
  Proof.
    intros HI Hi Hh Hg. split.
    - destruct r as [i|p j]; cbn in *.
      + rewrite <- (proj1 (sv_lens _ _ _ _ _ HI)). exact Hi.
      + destruct Hi as (x & Hx & Hj). exists x. split; [exact Hx|]. split; [exact Hj|].
        destruct Hh as (y & Hy & Hb & Hv & Hiy & _). assert (y = x) by congruence. subst. repeat split; congruence.
    - intros t Ht Hd. destruct (Hg t Ht) as (x & _ & _ & _ & Hi' & _). congruence.
  Qed.

  Lemma nresolve_ok b E W m self nd :
    SInv K b E W m -> (node_no_self nd = true \/ self_good m self) ->
    exists no, nresolve self nd m = (m, no) /\ forall o, no = Some o -> good_h m o.
  Proof.
    intros HI Hs. destruct nd as [|i]; cbn [nresolve].
    - destruct Hs as [Hs|(g & x & -> & Hx & Hb & Hv & Hi & Hm)]; [discriminate|].
      unfold self_node. rewrite Hx. unfold value_accessible. rewrite Hv.
      eexists. split; [reflexivity|]. intros o [= <-]. exists x. auto 8.
    - destruct (node_via_slot_ok _ _ _ _ i HI) as (no & -> & Hno). eexists. split; [reflexivity|].
      intros o Ho. apply (Hno o Ho).
  Qed.

  (** weak locations: [Self]'s own Weak fields may be used by any script *)
  Lemma wresolve_ok b E W m self l :
    SInv K b E W m -> (self = None \/ self_good m self \/ self_dropping m self) ->
    exists ro, wresolve self l m = (m, ro) /\
      forall r, ro = Some r -> (wloc_writable r = true -> widx_valid m r) /\
        (forall w, read_wloc r m = Some w -> wnomap m (Some w) /\ forall o, w = WTo o -> (0 < wrefs m o)%nat).
  Proof.
    intros HI Hs. destruct l as [i|j|i j|]; cbn [wresolve].
    - eexists. split; [reflexivity|]. intros r Hr. destruct (decide (i < nslots)%nat) as [Hlt|]; [|discriminate].
      injection Hr as <-. split; [intros _; cbn; rewrite (proj1 (proj2 (sv_lens _ _ _ _ _ HI))); exact Hlt|].
      intros w Hw. cbn in Hw. destruct (wslots m !! i) as [[w'|]|] eqn:Es; cbn in Hw; try discriminate. injection Hw as ->.
      split; [eapply sv_wslots; eauto|]. intros o ->. rewrite wrefs_unfold.
      assert (0 < cnt_w o (wslots m))%nat by (apply cnt_w_pos; eauto). lia.
    - assert (Hfld : forall g x, get m g = Some x -> (o_box x <> BNotYet \/ o_vst x = VDropping) /\ o_vst x <> VUninit ->
                forall r, (if decide (j < length (o_wfields x))%nat then Some (RWField g j) else None) = Some r ->
                (wloc_writable r = true -> widx_valid m r) /\
                (forall w, read_wloc r m = Some w -> wnomap m (Some w) /\ forall o, w = WTo o -> (0 < wrefs m o)%nat)).
      { intros g x Hx Hbx r Hr. destruct (decide (j < length (o_wfields x))%nat) as [Hlt|]; [|discriminate].
        injection Hr as <-. split; [intros _; cbn; eauto|].
        intros w Hw. cbn in Hw. rewrite Hx in Hw. cbn in Hw.
        destruct (o_wfields x !! j) as [[w'|]|] eqn:Ej; cbn in Hw; try discriminate. injection Hw as ->.
        split; [eapply sv_wfields; eauto|]. intros o ->. rewrite wrefs_unfold.
        assert (0 < hsum (fun x => cnt_w o (o_wfields x)) (heap m))%nat.
        { apply hsum_pos. exists g, x. split; [exact Hx|]. apply cnt_w_pos. eauto. }
        lia. }
      unfold self_node. destruct self as [g|]; [|exists None; split; [reflexivity|discriminate]].
      destruct (get m g) as [x|] eqn:Hx; [|exists None; split; [reflexivity|discriminate]].
      destruct (value_accessible true x) eqn:Ha; [|exists None; split; [reflexivity|discriminate]].
      eexists. split; [reflexivity|]. rewrite Hx. apply (Hfld g x Hx).
      destruct Hs as [Hs|[(g' & x' & Hs & Hx' & Hb & Hv & _)|(g' & x' & Hs & Hx' & Hv)]]; [discriminate | |];
        injection Hs as <-; assert (x' = x) by congruence; subst x';
        (split; [|congruence]); [left; congruence | right; exact Hv].
    - destruct (node_via_slot_ok _ _ _ _ i HI) as (no & -> & Hno). destruct no as [o|]; [|exists None; split; [reflexivity|discriminate]].
      destruct (Hno o eq_refl) as (Hsl & x & Hx & Hb & Hv & Hi & Hm). rewrite Hx.
      eexists. split; [reflexivity|]. intros r Hr. destruct (decide (j < length (o_wfields x))%nat) as [Hlt|]; [|discriminate].
      injection Hr as <-. split; [intros _; cbn; exists x; split; [exact Hx|]; split; [exact Hlt|]; split; [left; congruence | congruence]|].
      intros w Hw. cbn in Hw. rewrite Hx in Hw. cbn in Hw.
      destruct (o_wfields x !! j) as [[w'|]|] eqn:Ej; cbn in Hw; try discriminate. injection Hw as ->.
      split; [eapply sv_wfields; eauto|]. intros o' ->. rewrite wrefs_unfold.
      assert (0 < hsum (fun x => cnt_w o' (o_wfields x)) (heap m))%nat.
      { apply hsum_pos. exists o, x. split; [exact Hx|]. apply cnt_w_pos. eauto. }
      lia.
    - eexists. split; [reflexivity|]. intros r Hr. destruct (wparam m) as [|w0 rest] eqn:Ew; [discriminate|].
      injection Hr as <-. split; [discriminate|]. intros w Hw. cbn in Hw. rewrite Ew in Hw. cbn in Hw. injection Hw as <-.
      split; [eapply sv_wparam; eauto; rewrite Ew; left|]. intros o ->. rewrite wrefs_unfold, Ew. cbn [map]. rewrite cnt_w_cons. cbn.
      rewrite Nat.eqb_refl. lia.
  Qed.
End Resolve.

