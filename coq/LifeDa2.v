(** * LifeDa2: promptness, the step cases that only compose quiet helpers and recursive calls.
    The recursive calls [rec] are here the NORMALISED ones (LifeDa4.v: a sub-activation that does
    not return normally is replaced by one that does nothing; by [Flags6.step_strict] this does
    not change an activation that returns normally), so that their post-condition [NdX] is
    available whatever their outcome. *)
From Coq Require Import NArith Bool List Lia.
From stdpp Require Import base list option.
From RecordUpdate Require Import RecordSet.
From RC Require Import Hdr Machine RunInd Flags Flags2.
From RC Require Import Inv InvP LifeInv LifeInv2 LifeChk LifeStep LifeStep2 LifeDa.
Import ListNotations RecordSetNotations.
Local Open Scope N_scope.

(** the object exempted in the post-condition of a call *)
Definition exo (c : call) : option id := match c with KDropValue o => Some o | _ => None end.

Definition RecD (K : conf) (mu : id) (nfa : bool) (rec : call -> machine -> machine * outcome) : Prop :=
  forall c m, Pre2 K nfa c m -> NdX mu (exo c) (length (heap m)) m (rec c m).1.

Lemma Nd_q mu ex n0 m0 mi m' : NdX mu ex n0 m0 mi -> QuietD mu mi m' -> NdX mu ex n0 m0 m'.
Proof. intros H HQ. eapply NdX_trans; [exact H | apply NdX_weaken, QuietD_Nd, HQ]. Qed.

Lemma Nd_rec K mu nfa rec ex n0 m0 mi c :
  RecD K mu nfa rec -> exo c = None -> NdX mu ex n0 m0 mi -> Pre2 K nfa c mi -> NdX mu ex n0 m0 (rec c mi).1.
Proof. intros HR He H Hp. eapply NdX_step'; [exact H|]. rewrite <- He. apply HR, Hp. Qed.

Lemma Nd_unwinding K mu nfa rec ex n0 m0 mi c :
  RecD K mu nfa rec -> exo c = None -> NdX mu ex n0 m0 mi -> Pre2 K nfa c (mi <| panicking := true |>) ->
  NdX mu ex n0 m0 (unwinding (rec c) mi).1.
Proof.
  intros HR He H Hp. unfold unwinding.
  assert (H1 : NdX mu ex n0 m0 (mi <| panicking := true |>)) by (eapply Nd_q; [exact H | lqd]).
  pose proof (Nd_rec K mu nfa rec ex n0 m0 _ c HR He H1 Hp) as H2. destruct (rec c (mi <| panicking := true |>)) as [m1 r1].
  cbn [fst snd] in *. eapply Nd_q; [exact H2 | lqd].
Qed.

#[export] Hint Extern 2 (QuietD _ _ (fst (ok _ _))) => (unfold ok; cbn [fst]) : lqd.
#[export] Hint Extern 2 (QuietD _ _ (ok _ _).1) => (unfold ok; cbn [fst]) : lqd.
#[export] Hint Extern 2 (QuietD _ _ (fold_left _ _ _)) => (apply qd_fold; [intros | ]) : lqd.

Ltac posq3 :=
  match goal with
  | HD : NdX ?mu ?ex ?n0 ?m0 ?mi |- NdX ?mu ?ex ?n0 ?m0 _ =>
    solve [eapply (Nd_q mu ex n0 m0 mi); [exact HD | lqd]]
  end.

Ltac adv3 :=
  match goal with
  | HR : RecD _ _ _ ?rec |- NdX ?mu ?ex ?n0 ?m0 _ =>
    inner_scrut ltac:(fun x =>
      lazymatch x with
      | rec ?c ?X =>
        let HD := fresh "HD" in let Hp := fresh "Hp" in let HD2 := fresh "HE" in
        eassert (HD : NdX mu ex n0 m0 X) by posq3;
        eassert (Hp : LifeStep.Pre2 _ _ c X) by pre2;
        pose proof (Nd_rec _ mu _ rec ex n0 m0 X c HR eq_refl HD Hp) as HD2; clear HD;
        destruct (rec c X) as [? ?]; cbn [fst snd] in *
      | unwinding (rec ?c) ?X =>
        let HD := fresh "HD" in let Hp := fresh "Hp" in let HD2 := fresh "HE" in
        eassert (HD : NdX mu ex n0 m0 X) by posq3;
        eassert (Hp : LifeStep.Pre2 _ _ c (X <| panicking := true |>)) by pre2;
        pose proof (Nd_unwinding _ mu _ rec ex n0 m0 X c HR eq_refl HD Hp) as HD2; clear HD;
        destruct (unwinding (rec c) X) as [? ?]; cbn [fst snd] in *
      | weak_clone ?w ?X =>
        let HD := fresh "HD" in let E := fresh "E" in
        eassert (HD : NdX mu ex n0 m0 X) by posq3;
        destruct (weak_clone w X) eqn:E;
        [ pose proof (Nd_q mu ex n0 m0 X _ HD (qd_weak_clone mu X w X _ (QuietD_refl mu X) E)) | ]
      | _ =>
        cbn [LifeStep.Pre2] in *;
        lazymatch type of x with
        | (machine * _)%type =>
          let HD := fresh "HD" in
          eassert (HD : NdX mu ex n0 m0 x.1) by posq3;
          destruct x as [? ?]; cbn [fst snd] in *
        | _ => destruct x eqn:?; cbn [LifeStep.Pre2] in *
        end
      end)
  end; cbv beta iota zeta.

Ltac fin3 :=
  cbn [fst snd];
  first
  [ posq3
  | match goal with
    | HR : RecD _ _ _ ?rec |- NdX ?mu ?ex ?n0 ?m0 (?rec ?c ?X).1 =>
      eapply (Nd_rec _ mu _ rec ex n0 m0 X c HR eq_refl); [posq3 | pre2]
    | HR : RecD _ _ _ ?rec |- NdX ?mu ?ex ?n0 ?m0 (unwinding (?rec ?c) ?X).1 =>
      eapply (Nd_unwinding _ mu _ rec ex n0 m0 X c HR eq_refl); [posq3 | pre2]
    end ].

Ltac start3 :=
  intros;
  match goal with |- NdX ?mu ?ex ?n0 ?m0 _ => pose proof (NdX_refl mu ex n0 m0) as HD0 end.
Ltac go3 := start3; cbv beta iota zeta; repeat adv3; fin3.

Section Walk.
  Context (K : conf) (P : prog) (mu : id) (nfa : bool).
  Hypothesis Hprog : nfa = true -> prog_nfa P = true.
  Notation Nd := (NdX mu None).
  Notation Pre2 := (Pre2 K nfa).
  Context (rec : call -> machine -> machine * outcome).
  Hypothesis HR : RecD K mu nfa rec.

  Lemma d_step_script self cs m : Pre2 (KScript self cs) m -> Nd (length (heap m)) m (step_script rec self cs m).1.
  Proof. unfold step_script. go3. Qed.
  Lemma d_step_store r v m : Nd (length (heap m)) m (step_store rec r v m).1.
  Proof. unfold step_store. go3. Qed.
  Lemma d_step_drop_fields o j m : Nd (length (heap m)) m (step_drop_fields rec o j m).1.
  Proof. unfold step_drop_fields. go3. Qed.
  Lemma d_step_drop_map_slots o j m : Nd (length (heap m)) m (step_drop_map_slots rec o j m).1.
  Proof. unfold step_drop_map_slots. go3. Qed.
  Lemma d_step_clean_run mo aid sc m : Nd (length (heap m)) m (step_clean_run K P rec mo aid sc m).1.
  Proof. unfold step_clean_run. go3. Qed.
  Lemma d_step_unbag k m : Nd (length (heap m)) m (step_unbag rec k m).1.
  Proof. unfold step_unbag. go3. Qed.
  Lemma d_step_trigger m : Nd (length (heap m)) m (step_trigger K rec m).1.
  Proof. unfold step_trigger. go3. Qed.
  Lemma d_step_collect_cycles m : Nd (length (heap m)) m (step_collect_cycles K rec m).1.
  Proof. unfold step_collect_cycles. go3. Qed.
  Lemma d_step_collect m : Nd (length (heap m)) m (step_collect K rec m).1.
  Proof. unfold step_collect. go3. Qed.
  Lemma d_step_collect_loop k m : Nd (length (heap m)) m (step_collect_loop rec k m).1.
  Proof. unfold step_collect_loop. go3. Qed.
  Lemma d_step_collect_once m : Nd (length (heap m)) m (step_collect_once K P rec m).1.
  Proof. unfold step_collect_once. go3. Qed.
  Lemma d_step_finalize_list L rest any old_f m :
    Pre2 (KFinalizeList L rest any old_f) m -> Nd (length (heap m)) m (step_finalize_list K P rec L rest any old_f m).1.
  Proof. unfold step_finalize_list. go3. Qed.

  Lemma d_cmd_clone self src dst m : Nd (length (heap m)) m (cmd_clone rec self src dst m).1.
  Proof. unfold cmd_clone. go3. Qed.
  Lemma d_cmd_drop self l m : Nd (length (heap m)) m (cmd_drop rec self l m).1.
  Proof. unfold cmd_drop. go3. Qed.
  Lemma d_cmd_move self src dst m : Nd (length (heap m)) m (cmd_move rec self src dst m).1.
  Proof. unfold cmd_move. go3. Qed.
  Lemma d_cmd_mark_alive self l m : Nd (length (heap m)) m (cmd_mark_alive self l m).1.
  Proof. unfold cmd_mark_alive. go3. Qed.
  Lemma d_cmd_collect self m : Nd (length (heap m)) m (cmd_collect rec self m).1.
  Proof. unfold cmd_collect. go3. Qed.
  Lemma d_cmd_downgrade self l w m : Nd (length (heap m)) m (cmd_downgrade K self l w m).1.
  Proof. unfold cmd_downgrade. go3. Qed.
  Lemma d_cmd_upgrade self w dst m : Nd (length (heap m)) m (cmd_upgrade K rec self w dst m).1.
  Proof. unfold cmd_upgrade. go3. Qed.
  Lemma d_cmd_w_new self w m : Nd (length (heap m)) m (cmd_w_new K self w m).1.
  Proof. unfold cmd_w_new. go3. Qed.
  Lemma d_cmd_w_clone self src dst m : Nd (length (heap m)) m (cmd_w_clone K self src dst m).1.
  Proof. unfold cmd_w_clone. go3. Qed.
  Lemma d_cmd_w_drop self w m : Nd (length (heap m)) m (cmd_w_drop K self w m).1.
  Proof. unfold cmd_w_drop. go3. Qed.
  Lemma d_cmd_fin_again self l m : Nd (length (heap m)) m (cmd_fin_again K self l m).1.
  Proof. unfold cmd_fin_again. go3. Qed.
  Lemma d_cmd_clean self c m : Nd (length (heap m)) m (cmd_clean K rec self c m).1.
  Proof. unfold cmd_clean. go3. Qed.
  Lemma d_cmd_c_drop self c m : Nd (length (heap m)) m (cmd_c_drop K self c m).1.
  Proof. unfold cmd_c_drop. go3. Qed.
  Lemma d_cmd_unbag self k m : Nd (length (heap m)) m (cmd_unbag rec self k m).1.
  Proof. unfold cmd_unbag. go3. Qed.
  Lemma d_cmd_borrow self nd m : Nd (length (heap m)) m (cmd_borrow self nd m).1.
  Proof. unfold cmd_borrow. go3. Qed.
  Lemma d_cmd_unborrow self nd m : Nd (length (heap m)) m (cmd_unborrow self nd m).1.
  Proof. unfold cmd_unborrow. go3. Qed.
  Lemma d_cmd_cfg_auto self b m : Nd (length (heap m)) m (cmd_cfg_auto K self b m).1.
  Proof. unfold cmd_cfg_auto. go3. Qed.
  Lemma d_cmd_cfg_percent self n e m : Nd (length (heap m)) m (cmd_cfg_percent K self n e m).1.
  Proof. unfold cmd_cfg_percent. go3. Qed.
  Lemma d_cmd_cfg_buffered self b m : Nd (length (heap m)) m (cmd_cfg_buffered K self b m).1.
  Proof. unfold cmd_cfg_buffered. go3. Qed.
  Lemma d_cmd_arm self k v m : Nd (length (heap m)) m (cmd_arm self k v m).1.
  Proof. unfold cmd_arm. go3. Qed.
  Lemma d_cmd_panic self m : Nd (length (heap m)) m (cmd_panic self m).1.
  Proof. unfold cmd_panic. go3. Qed.
  Lemma d_cmd_obs self l m : Nd (length (heap m)) m (cmd_obs self l m).1.
  Proof. unfold cmd_obs. go3. Qed.
  Lemma d_cmd_w_obs self w m : Nd (length (heap m)) m (cmd_w_obs K self w m).1.
  Proof. unfold cmd_w_obs. go3. Qed.
  Lemma d_cmd_s_obs self m : Nd (length (heap m)) m (cmd_s_obs K self m).1.
  Proof. unfold cmd_s_obs. go3. Qed.
  Lemma d_cmd_bag self l k m : Nd (length (heap m)) m (cmd_bag self l k m).1.
  Proof.
    unfold cmd_bag. start3. cbv beta iota zeta. adv3.
    destruct (o ≫= λ r, read_loc r m0) as [t|]; [|fin3].
    generalize (N.to_nat k). intros n. revert m0 HD. induction n as [|n IH]; intros m0 HD; [fin3|].
    destruct (inc_rc (hdr_of m0 t)) as [h|] eqn:Ei; [|fin3].
    apply IH. posq3.
  Qed.
End Walk.
