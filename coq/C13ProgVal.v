(** * C13ProgVal: "the value is moved out unchanged": what the Ok path of [try_unwrap] changes.
    Only the object [o] itself is touched, and of [o] only the header, the value state, the box
    state and the side record: class, strong / Weak fields, cleaner field, borrow flags (and map
    slots) are those of the value before the call.  The handle leaves its slot, the other program
    variables are unchanged, the allocator counter decreases by the size of the box. *)
From Coq Require Import NArith Bool List Lia.
From stdpp Require Import base list option.
From RecordUpdate Require Import RecordSet.
From RC Require Import Hdr Machine RunInd.
From RC Require Import Inv InvP SafeHelpers SafePrims SafeCalls SafeMain SafeProps SafeColl SafeFinal SafeFinalPropsA SafeFinalProps.
From RC Require Import C13Prog.
Import ListNotations RecordSetNotations.
Local Open Scope N_scope.

(** the part of an object that is the user's value *)
Definition core (x : obj) :=
  (o_cls x, o_ismap x, o_fields x, o_wfields x, o_cleaner x, o_borrowed x, o_mslots x, o_mfree x, o_mborrowed x).

(** [m'] differs from [m] in the heap at most at [o], and there at most outside [core] *)
Definition hfr (o : id) (m m' : machine) : Prop :=
  (forall t, t <> o -> get m' t = get m t) /\
  (forall x, get m o = Some x -> exists y, get m' o = Some y /\ core y = core x).
(** the program variables other than the strong slots / values, and the allocator counter *)
Definition vfr (m m' : machine) : Prop :=
  slots m' = slots m /\ bag m' = bag m /\ cslots m' = cslots m /\ wparam m' = wparam m /\ values m' = values m /\
  st_alloc m' = st_alloc m.

Lemma hfr_refl o m : hfr o m m.
Proof. split; [reflexivity | eauto]. Qed.
Lemma hfr_trans o m1 m2 m3 : hfr o m1 m2 -> hfr o m2 m3 -> hfr o m1 m3.
Proof.
  intros (A1 & A2) (B1 & B2). split.
  - intros t Ht. rewrite B1, A1 by exact Ht. reflexivity.
  - intros x Hx. destruct (A2 x Hx) as (y & Hy & Hc). destruct (B2 y Hy) as (z & Hz & Hc'). exists z. split; [exact Hz | congruence].
Qed.
Lemma hfr_heap o m m' : heap m' = heap m -> hfr o m m'.
Proof. intros H. unfold hfr, get. rewrite H. split; [reflexivity | eauto]. Qed.
Lemma hfr_upd o f m : (forall x, core (f x) = core x) -> hfr o m (upd o f m).
Proof.
  intros Hf. split.
  - intros t Ht. apply get_upd_ne. congruence.
  - intros x Hx. exists (f x). split; [apply get_upd_eq, Hx | apply Hf].
Qed.
Lemma vfr_refl m : vfr m m.
Proof. repeat split. Qed.
Lemma vfr_trans m1 m2 m3 : vfr m1 m2 -> vfr m2 m3 -> vfr m1 m3.
Proof. unfold vfr. intuition congruence. Qed.

Section Val.
  Context (K : conf).
  Implicit Types (m : machine) (o : id) (x : obj).

  Lemma fr_remove_from_list o m : hfr o m (remove_from_list o m) /\ vfr m (remove_from_list o m).
  Proof.
    unfold remove_from_list. destruct (is_in_pc _); [|split; [apply hfr_refl | apply vfr_refl]].
    destruct (pc_alive m); [|split; [apply hfr_refl | apply vfr_refl]].
    split.
    - eapply hfr_trans; [apply (hfr_upd o (fun x => x <| o_hdr ::= set_mark NM |>)); reflexivity|].
      apply hfr_heap. unfold dec_size. match goal with |- context [if ?c then _ else _] => destruct c end; reflexivity.
    - unfold dec_size. match goal with |- context [if ?c then _ else _] => destruct c end; repeat split.
  Qed.
  Lemma fr_sfree o m : hfr o m (sfree o m) /\ vfr m (sfree o m).
  Proof.
    unfold sfree. destruct (get m o) as [x|]; [|split; [apply hfr_heap; reflexivity | repeat split]].
    destruct (o_side x) as [s|]; [|split; [apply hfr_heap; reflexivity | repeat split]].
    split.
    - eapply hfr_trans; [|apply hfr_heap; reflexivity].
      eapply hfr_trans; [|apply hfr_upd; reflexivity]. apply hfr_heap. destruct (sd_freed s); reflexivity.
    - destruct (sd_freed s); repeat split.
  Qed.
  Lemma fr_drop_metadata o m : hfr o m (drop_metadata K o m) /\ vfr m (drop_metadata K o m).
  Proof.
    unfold drop_metadata. destruct (negb (k_weak K)); [split; [apply hfr_refl | apply vfr_refl]|].
    destruct (get m o) as [x|]; [|split; [apply hfr_heap; reflexivity | repeat split]].
    destruct (h_side (o_hdr x)); [|split; [apply hfr_refl | apply vfr_refl]].
    destruct (o_side x) as [s|]; [|split; [apply hfr_heap; reflexivity | repeat split]].
    destruct (w_cnt (sd_wk s) =? 0).
    - destruct (fr_sfree o (if sd_freed s then emit_bad UseAfterFree o m else m)) as (A & B). split.
      + eapply hfr_trans; [|exact A]. apply hfr_heap. destruct (sd_freed s); reflexivity.
      + eapply vfr_trans; [|exact B]. destruct (sd_freed s); repeat split.
    - split.
      + eapply hfr_trans; [|unfold uside; apply hfr_upd; reflexivity]. apply hfr_heap. destruct (sd_freed s); reflexivity.
      + destruct (sd_freed s); repeat split.
  Qed.

  Lemma fr_dealloc o m x : get m o = Some x ->
    hfr o m (dealloc K o m) /\ slots (dealloc K o m) = slots m /\ bag (dealloc K o m) = bag m /\
    cslots (dealloc K o m) = cslots m /\ wparam (dealloc K o m) = wparam m /\ values (dealloc K o m) = values m /\
    st_alloc (dealloc K o m) = st_alloc m - (box_layout K x).1.
  Proof.
    intros Hx. unfold dealloc. rewrite Hx. destruct (box_layout K x) as [sz al]. cbn [fst]. split.
    - eapply hfr_trans; [|apply hfr_heap; reflexivity]. eapply hfr_trans; [|apply hfr_upd; reflexivity].
      apply hfr_heap. match goal with |- context [if ?c then _ else _] => destruct c end; destruct (o_box x); reflexivity.
    - match goal with |- context [if ?c then _ else _] => destruct c end; destruct (o_box x); repeat split.
  Qed.

  (** the Ok path of [try_unwrap] through slot [i] *)
  Lemma fr_try_unwrap i v m o x :
    (i < nslots)%nat -> values m !! v = Some None -> slots m !! i = Some (Some o) -> get m o = Some x ->
    h_rc (o_hdr x) = 1 -> st_collecting m || st_dropping m || (k_fin K && st_finalizing m) = false ->
    let m1 := (cmd_try_unwrap K None (LS i) v m).1 in
    hfr o m m1 /\ slots m1 = <[i := None]> (slots m) /\ bag m1 = bag m /\ cslots m1 = cslots m /\
    wparam m1 = wparam m /\ values m1 = <[v := Some o]> (values m) /\
    st_alloc m1 = st_alloc m - (box_layout K x).1.
  Proof.
    intros Hi Hv Hs Hx Hrc Hfl. cbv zeta. unfold cmd_try_unwrap. cbn [resolve]. rewrite decide_True by exact Hi.
    rewrite Hv. cbn [read_loc]. rewrite Hs. cbn [mjoin option_join]. rewrite (hdr_of_get _ _ _ Hx), Hrc, N.eqb_refl, Hfl. cbn [negb].
    unfold ok. cbn [fst write_loc].
    set (m1 := m <| slots ::= <[i := None]> |>). set (m2 := remove_from_list o m1).
    set (m3 := upd o (fun x => x <| o_vst := VMoved |>) m2). set (m4 := m3 <| values ::= <[v := Some o]> |>).
    set (m5 := drop_metadata K o m4).
    destruct (fr_remove_from_list o m1) as (A2 & B2). fold m2 in A2, B2.
    destruct (fr_drop_metadata o m4) as (A5 & B5). fold m5 in A5, B5.
    assert (A4 : hfr o m m4).
    { eapply hfr_trans; [apply (hfr_heap o m m1); reflexivity|]. eapply hfr_trans; [exact A2|].
      eapply hfr_trans; [apply (hfr_upd o (fun x => x <| o_vst := VMoved |>)); reflexivity|]. apply hfr_heap. reflexivity. }
    assert (A5' : hfr o m m5) by (eapply hfr_trans; eauto).
    destruct (proj2 A5' x Hx) as (x5 & Hx5 & Hc5).
    destruct (fr_dealloc o m5 x5 Hx5) as (A6 & S6 & G6 & C6 & W6 & V6 & L6).
    assert (Hbl : box_layout K x5 = box_layout K x).
    { unfold box_layout. assert (Hm : o_ismap x5 = o_ismap x) by (unfold core in Hc5; injection Hc5; auto). rewrite Hm. reflexivity. }
    change (get (emit ?e ?mm)) with (get mm). 
    split; [change (hfr o m (dealloc K o m5)); eapply hfr_trans; eauto|].
    destruct B5 as (S5 & G5 & C5 & W5 & V5 & L5). destruct B2 as (S2 & G2 & C2 & W2 & V2 & L2).
    cbn [slots bag cslots wparam values st_alloc emit set]. cbn.
    fold m1 m2 m3 m4 m5.
    rewrite S6, G6, C6, W6, V6, L6, S5, G5, C5, W5, V5, L5, Hbl.
    change (slots m4) with (slots m2). change (bag m4) with (bag m2). change (cslots m4) with (cslots m2).
    change (wparam m4) with (wparam m2). change (st_alloc m4) with (st_alloc m2).
    change (values m4) with (<[v := Some o]> (values m2)).
    rewrite S2, G2, C2, W2, V2, L2. repeat split.
  Qed.
End Val.

Lemma core_eq x y : core y = core x ->
  y = x <| o_hdr := o_hdr y |> <| o_vst := o_vst y |> <| o_box := o_box y |> <| o_side := o_side y |>.
Proof. destruct x, y. unfold core. cbn. intros H. injection H as -> -> -> -> -> -> -> -> ->. reflexivity. Qed.

Section ProgVal.
  Context (K : conf) (P : prog) (fuel : nat) (cmds : list cmd).
  Hypothesis Hconf : k_clean K = true -> k_weak K = true.
  Hypothesis Hwf : wf_prog P = true.
  Let m := fold_left (fun m c => exec_top K P fuel c m) cmds (init K).
  Hypothesis Hcl : clean m = true.

  (** (1') the value moved out is the value that was in the box; nothing else in the heap is
      touched; the handle left its slot and no strong handle to [o] remains; the allocator
      counter decreases by the size of the box *)
  Theorem prog_try_unwrap_value i v o :
    slots m !! i = Some (Some o) -> values m !! v = Some None -> h_rc (hdr_of m o) = 1 ->
    exists mf x y, cmd_try_unwrap K None (LS i) v m = ok mf RUnwrapOk /\
      get m o = Some x /\ get mf o = Some y /\
      y = x <| o_hdr := o_hdr y |> <| o_vst := VMoved |> <| o_box := BFreed |> <| o_side := o_side y |> /\
      (forall t, t <> o -> get mf t = get m t) /\
      slots mf = <[i := None]> (slots m) /\ values mf = <[v := Some o]> (values m) /\
      bag mf = bag m /\ wslots mf = wslots m /\ cslots mf = cslots m /\ wparam mf = wparam m /\
      refs mf o = 0%nat /\
      st_alloc mf = st_alloc m - (box_layout K x).1.
  Proof.
    intros Hs Hv Hrc.
    destruct (prog_try_unwrap_ok K P fuel cmds Hconf Hwf Hcl i v o Hs Hv Hrc)
      as (mf & x & Hx & _ & _ & Heq & _ & _ & _ & (y & Hy & Hvy & Hby & _) & _).
    fold m in Hx, Heq. 
    destruct (prog_slot_facts K P fuel cmds Hconf Hwf Hcl i o Hs) as (b & x' & _ & HI & _ & Hx' & _ & _ & Hfl & _).
    fold m in Hx', Hfl, HI. assert (x' = x) by congruence. subst x'.
    assert (Hi : (i < nslots)%nat).
    { rewrite <- (proj1 (sv_lens _ _ _ _ _ HI)). eapply lookup_lt_Some; eauto. }
    rewrite (hdr_of_get _ _ _ Hx) in Hrc.
    pose proof (fr_try_unwrap K i v m o x Hi Hv Hs Hx Hrc Hfl) as Hfr. cbv zeta in Hfr. rewrite Heq in Hfr.
    unfold ok in Hfr. cbn [fst] in Hfr.
    destruct Hfr as ((F1 & F2) & S1 & G1 & C1 & W1 & V1 & L1).
    destruct (F2 x Hx) as (y' & Hy' & Hc). change (get (emit (ERes RUnwrapOk) mf) o) with (get mf o) in Hy'.
    assert (y' = y) by congruence. subst y'.
    exists mf, x, y. split; [exact Heq|]. split; [exact Hx|]. split; [exact Hy|].
    split; [rewrite <- Hvy, <- Hby; apply core_eq, Hc|].
    split; [exact F1|]. split; [exact S1|]. split; [exact V1|]. split; [exact G1|].
    split; [pose proof (wslots_try_unwrap K i v m) as H; rewrite Heq in H; exact H|].
    split; [exact C1|]. split; [exact W1|]. split; [|exact L1].
    destruct (prog_after K P fuel cmds Hcl i v o mf RUnwrapOk Hs Heq) as (_ & Hfold & Hcl' & _).
    pose proof (safe_programs_sinv K P fuel (cmds ++ [CTryUnwrap (LS i) v]) Hconf Hwf) as HS. cbv zeta in HS.
    rewrite <- Hfold in HS. destruct (HS Hcl') as (b' & _ & HI' & _).
    assert (HIf : SInv K b' [] [] mf) by (eapply SInv_ieq; [apply ieq_unemit | exact HI']).
    pose proof (sv_obj _ _ _ _ _ HIf _ _ Hy) as Hok. apply (okN_freed K _ _ _ _ _ Hby) in Hok.
    destruct Hok as (Hz & _). lia.
  Qed.
End ProgVal.

Print Assumptions prog_try_unwrap_value.
