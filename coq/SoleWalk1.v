(** * SoleWalk1: the step cases of the frame for solely owned objects (activations other than
    commands and the two collector passes). *)
From Coq Require Import NArith Bool List Lia.
From stdpp Require Import base list option.
From RecordUpdate Require Import RecordSet.
From RC Require Import Hdr Machine RunInd.
From RC Require Import Inv InvP SafeHelpers.
From RC Require Import Clean CleanFrame CleanUFrame.
From RC Require Import SoleInv SolePrim SoleStep.
Import ListNotations RecordSetNotations.
Local Open Scope N_scope.

Section Walk.
  Context (K : conf) (P : prog) (U R : id -> Prop) (mu : id).
  Notation St := (St K U R mu).
  Notation SI := (SI K U R).
  Notation Args := (Args U R).
  Context (rec : call -> machine -> machine * outcome).
  Hypothesis Hrec : rec_ok (Pre2 K U R mu) (Post2 U R mu) rec.

  Lemma s_script self cs m : St m (Args (KScript self cs)) m -> St m True (step_script rec self cs m).1.
  Proof.
    intros HS. unfold step_script. destruct cs as [|c cs']; [sfin|].
    srec. { cbn [Args] in *. eapply SelfOK_mono; [eassumption|]. cbn [forallb]. intros H. apply andb_true_iff in H. apply H. }
    sadv; try sfin. cbn [Args] in *. eapply SelfOK_mono; [eassumption|]. cbn [forallb]. intros H. apply andb_true_iff in H. apply H.
  Qed.

  Lemma s_store r v m : St m (Args (KStore r v)) m -> St m True (step_store rec r v m).1.
  Proof.
    intros HS. unfold step_store. cbv zeta.
    learn (forall t, read_loc r m = Some t -> ~ U t). { cbn [Args] in *. conjs. intros t Ht. eapply read_loc_notU; eauto. }
    destruct (read_loc r m) as [t|] eqn:E.
    - sfin. cbn [Args]. auto.
    - sfin.
  Qed.

  Lemma s_drop_fields o j m : St m (Args (KDropFields o j)) m -> St m True (step_drop_fields rec o j m).1.
  Proof.
    intros HS. unfold step_drop_fields. destruct (get m o) as [x|] eqn:Hx; [|sfin].
    destruct (decide (j < length (o_fields x))%nat) as [Hj|Hj]; cbv zeta.
    - learn (forall t, mjoin (o_fields x !! j) = Some t -> ~ U t).
      { intros t Ht. apply mjoin_lookup in Ht. eapply SI_field; eauto. }
      change (upd o (fun x0 => x0 <| o_fields ::= <[j := None]> |>) m) with (write_loc (RField o j) None m).
      destruct (mjoin (o_fields x !! j)) as [t|] eqn:E.
      + go aargs.
      + go aargs.
    - learn (forall t, o_cleaner x = Some t -> ~ U t). { intros t Ht. eapply SI_cleaner; eauto. }
      destruct (o_cleaner x) as [t|] eqn:Ec.
      + change (upd o (fun x0 => x0 <| o_cleaner := None |>)) with (upd o (fun x0 => x0 <| o_cleaner := @None id |>)).
        sfin. aargs.
      + sfin.
  Qed.

  Lemma s_drop_map_slots o j m : St m True m -> St m True (step_drop_map_slots rec o j m).1.
  Proof. intros HS. unfold step_drop_map_slots. go aargs. Qed.

  Lemma s_clean_run mo aid sc m : St m True m -> St m True (step_clean_run K P rec mo aid sc m).1.
  Proof. intros HS. unfold step_clean_run. go aargs. Qed.

  Lemma s_trigger m : St m True m -> St m True (step_trigger K rec m).1.
  Proof. intros HS. unfold step_trigger. go aargs. Qed.
  Lemma s_collect_cycles m : St m True m -> St m True (step_collect_cycles K rec m).1.
  Proof. intros HS. unfold step_collect_cycles. go aargs. Qed.
  Lemma s_collect m : St m True m -> St m True (step_collect K rec m).1.
  Proof. intros HS. unfold step_collect. go aargs. Qed.
  Lemma s_collect_loop k m : St m True m -> St m True (step_collect_loop rec k m).1.
  Proof. intros HS. unfold step_collect_loop. go aargs. Qed.

  Lemma s_unbag k m : St m True m -> St m True (step_unbag rec k m).1.
  Proof.
    intros HS. unfold step_unbag. destruct k as [|k']; [sfin|]. destruct (bag m) as [|o b] eqn:Eb; [sfin|].
    learn (~ U o). { eapply SI_bag; eauto. rewrite Eb. left. }
    assert (HS1 : St m (True /\ ~ U o) (m <| bag := b |>)).
    { apply (St_q K U R mu m _ m _ HS0); [reflexivity|]. intros HSI HF. apply K_bag; [|apply Keep_refl].
      intros t Ht. left. rewrite Eb. right. exact Ht. }
    clear HS0. go aargs.
  Qed.

  Lemma s_drop_value o m : St m (Args (KDropValue o)) m -> St m True (step_drop_value K P rec o m).1.
  Proof.
    intros HS. unfold step_drop_value. destruct (get m o) as [x|] eqn:Hx; [|sfin].
    assert (Hmain : o_vst x <> VDropping ->
      St m True
        (let m1 := upd o (fun x0 => x0 <| o_vst := VDropping |>) m in
         if o_ismap x
         then let '(m2, r) := rec (KDropMapSlots o 0) m1 in (upd o (fun x0 => x0 <| o_vst := VDropped |>) m2, r)
         else
          let m2 := emit (ECb KDrop o (cur_flags K m1)) m1 in
          let '(m3, boom) := tick KDrop m2 in
          let '(m4, r) := if boom then (m3, raise m3) else rec (KScript (Some o) (oscript P (c_drop (class_of P (o_cls x))))) m3 in
          let '(m5, r0) :=
            match r with
            | ONormal => rec (KDropFields o 0) m4
            | OPanic => unwinding (rec (KDropFields o 0)) m4
            | _ => (m4, r)
            end in
          (upd o (fun x0 => x0 <| o_vst := VDropped |>) m5, r0)).1).
    { intros Hv. learn (~ R o). { eapply SI_notR_vst; eauto. }
      cbv zeta. go ltac:(aargs; try contradiction). }
    destruct (o_vst x); try (apply Hmain; discriminate); sfin.
  Qed.

  Lemma s_drop_cc o m :
    (exists x, get m o = Some x /\ (marked x = true \/ (h_rc (o_hdr x) =? 1) = false \/ o_vst x = VLive)) ->
    St m (Args (KDropCc o)) m -> St m True (step_drop_cc K P rec o m).1.
  Proof.
    intros (x & Hx & Hc) HS. unfold step_drop_cc. rewrite Hx. cbv zeta.
    destruct (is_in_list_or_queue (o_hdr x)) eqn:Hm; [go aargs|].
    destruct (h_rc (o_hdr x) =? 1) eqn:Hrc; [|go aargs].
    assert (Hv : o_vst x = VLive) by (destruct Hc as [?|[?|?]]; [unfold marked in *; congruence | congruence | assumption]).
    learn (~ R o). { eapply SI_notR_vst; eauto. congruence. }
    go ltac:(aargs; try contradiction).
  Qed.
End Walk.
