(** * Term: the collector terminates (property C06, termination half).

    In the fuelled model [run K P n c m] returns [OFuel] when the fuel [n] runs out.  This file
    proves
    - [OFuel] is never swallowed: an activation whose outcome is not [OFuel] did not reach a
      sub-activation that returned [OFuel] ([step_nofuel_ext]);
    - hence fuel monotonicity for every outcome other than [OFuel] ([run_fuel_mono]);
    - the collector's own control flow is bounded: [KCollect] is at most 10 (1 without
      finalization) iterations of [KCollectOnce]; [KCollectOnce] is the closed function
      [trace_pass] followed by one callback per member of the FIXED list computed by the pass.
      So, provided every callback activation (finalizer script, value destruction) that is started
      returns, and the tracing pass has enough of its own fuel (PassMain.pass_fuel_ok), a
      collection returns ([C06_collect_terminates]), with explicit fuel bounds
      ([drop_list_fuel], [finalize_list_fuel], [collect_loop_fuel]). *)
From Coq Require Import NArith Bool List Lia.
From stdpp Require Import base list option.
From RecordUpdate Require Import RecordSet.
From RC Require Import Hdr Machine RunInd Pass PassMain.
Import ListNotations RecordSetNotations.

(** ** 1. [OFuel] propagates; fuel monotonicity *)

Definition agree_on_nofuel (rec rec' : call -> machine -> machine * outcome) : Prop :=
  forall k m, (rec k m).2 <> OFuel -> rec' k m = rec k m.

Lemma raise_not_fuel m : raise m <> OFuel.
Proof. unfold raise. destruct (panicking m); discriminate. Qed.

Ltac nf_inner_scrut_in H k :=
  match type of H with
  | context [match ?x with _ => _ end] =>
    lazymatch x with
    | context [match _ with _ => _ end] => fail
    | _ => k x
    end
  end.

Ltac nf_simp_all := cbv beta iota zeta in *; cbn [fst snd andb negb] in *.

Section NoFuel.
  Context (K : conf) (P : prog).
  Context (rec rec' : call -> machine -> machine * outcome).
  Context (Hag : agree_on_nofuel rec rec').

  (** follow the path of [Hn : (X rec m).2 <> OFuel]: a sub-activation that did not return
      [OFuel] is the same for [rec']; one that did makes the activation return [OFuel], which
      contradicts [Hn] *)
  Ltac nstep Hn :=
    first
    [ (exfalso; apply Hn; reflexivity)
    | nf_inner_scrut_in Hn ltac:(fun x =>
        lazymatch x with
        | rec ?k ?m0 =>
          let E := fresh "E" in let m1 := fresh "m" in let r1 := fresh "r" in
          destruct (rec k m0) as [m1 r1] eqn:E; destruct r1;
          [ rewrite (Hag k m0) by (rewrite E; discriminate); rewrite ?E
          | rewrite (Hag k m0) by (rewrite E; discriminate); rewrite ?E
          | rewrite (Hag k m0) by (rewrite E; discriminate); rewrite ?E
          | ]
        | _ => destruct x eqn:?
        end) ]; nf_simp_all.

  Ltac nfin Hn :=
    try reflexivity;
    try (exfalso; apply Hn; reflexivity);
    try (match type of Hn with (rec ?k ?m0).2 <> OFuel => rewrite (Hag k m0 Hn); reflexivity end).

  Ltac ngo Hn := unfold unwinding in *; nf_simp_all; repeat nstep Hn; nfin Hn.

  Definition nf_strict (X : (call -> machine -> machine * outcome) -> machine -> machine * outcome) :=
    forall m, (X rec m).2 <> OFuel -> X rec' m = X rec m.

  Lemma n_step_script self cs : nf_strict (fun rc => step_script rc self cs).
  Proof. intros m Hn. unfold step_script in *. ngo Hn. Qed.
  Lemma n_step_store r v : nf_strict (fun rc => step_store rc r v).
  Proof. intros m Hn. unfold step_store in *. ngo Hn. Qed.
  Lemma n_step_drop_cc o : nf_strict (fun rc => step_drop_cc K P rc o).
  Proof. intros m Hn. unfold step_drop_cc in *. ngo Hn. Qed.
  Lemma n_step_drop_value o : nf_strict (fun rc => step_drop_value K P rc o).
  Proof. intros m Hn. unfold step_drop_value in *. ngo Hn. Qed.
  Lemma n_step_drop_fields o j : nf_strict (fun rc => step_drop_fields rc o j).
  Proof. intros m Hn. unfold step_drop_fields in *. ngo Hn. Qed.
  Lemma n_step_drop_map_slots o j : nf_strict (fun rc => step_drop_map_slots rc o j).
  Proof. intros m Hn. unfold step_drop_map_slots in *. ngo Hn. Qed.
  Lemma n_step_clean_run mo aid s : nf_strict (fun rc => step_clean_run K P rc mo aid s).
  Proof. intros m Hn. unfold step_clean_run in *. ngo Hn. Qed.
  Lemma n_step_unbag k : nf_strict (fun rc => step_unbag rc k).
  Proof. intros m Hn. unfold step_unbag in *. ngo Hn. Qed.
  Lemma n_step_trigger : nf_strict (fun rc => step_trigger K rc).
  Proof. intros m Hn. unfold step_trigger in *. ngo Hn. Qed.
  Lemma n_step_collect_cycles : nf_strict (fun rc => step_collect_cycles K rc).
  Proof. intros m Hn. unfold step_collect_cycles in *. ngo Hn. Qed.
  Lemma n_step_collect : nf_strict (fun rc => step_collect K rc).
  Proof. intros m Hn. unfold step_collect in *. ngo Hn. Qed.
  Lemma n_step_collect_loop k : nf_strict (fun rc => step_collect_loop rc k).
  Proof. intros m Hn. unfold step_collect_loop in *. ngo Hn. Qed.
  Lemma n_step_collect_once : nf_strict (fun rc => step_collect_once K P rc).
  Proof. intros m Hn. unfold step_collect_once in *. ngo Hn. Qed.
  Lemma n_step_finalize_list L rest any old_f :
    nf_strict (fun rc => step_finalize_list K P rc L rest any old_f).
  Proof. intros m Hn. unfold step_finalize_list in *. ngo Hn. Qed.
  Lemma n_step_drop_list L rest old_d : nf_strict (fun rc => step_drop_list K rc L rest old_d).
  Proof. intros m Hn. unfold step_drop_list in *. ngo Hn. Qed.
  Lemma n_cmd_new self dst cls : nf_strict (fun rc => cmd_new K P rc self dst cls).
  Proof. intros m Hn. unfold cmd_new in *. ngo Hn. Qed.
  Lemma n_cmd_clone self src dst : nf_strict (fun rc => cmd_clone rc self src dst).
  Proof. intros m Hn. unfold cmd_clone in *. ngo Hn. Qed.
  Lemma n_cmd_drop self l : nf_strict (fun rc => cmd_drop rc self l).
  Proof. intros m Hn. unfold cmd_drop in *. ngo Hn. Qed.
  Lemma n_cmd_move self src dst : nf_strict (fun rc => cmd_move rc self src dst).
  Proof. intros m Hn. unfold cmd_move in *. ngo Hn. Qed.
  Lemma n_cmd_collect self : nf_strict (fun rc => cmd_collect rc self).
  Proof. intros m Hn. unfold cmd_collect in *. ngo Hn. Qed.
  Lemma n_cmd_upgrade self w dst : nf_strict (fun rc => cmd_upgrade K rc self w dst).
  Proof. intros m Hn. unfold cmd_upgrade in *. ngo Hn. Qed.
  Lemma n_cmd_drop_value self v : nf_strict (fun rc => cmd_drop_value rc self v).
  Proof. intros m Hn. unfold cmd_drop_value in *. ngo Hn. Qed.
  Lemma n_cmd_new_cyclic self dst cls script sw :
    nf_strict (fun rc => cmd_new_cyclic K P rc self dst cls script sw).
  Proof. intros m Hn. unfold cmd_new_cyclic in *. ngo Hn. Qed.
  Lemma n_cmd_register self nd script cs :
    nf_strict (fun rc => cmd_register K P rc self nd script cs).
  Proof. intros m Hn. unfold cmd_register in *. ngo Hn. Qed.
  Lemma n_cmd_clean self cs : nf_strict (fun rc => cmd_clean K rc self cs).
  Proof. intros m Hn. unfold cmd_clean in *. ngo Hn. Qed.
  Lemma n_cmd_unbag self k : nf_strict (fun rc => cmd_unbag rc self k).
  Proof. intros m Hn. unfold cmd_unbag in *. ngo Hn. Qed.

  Lemma n_step_cmd self cm : nf_strict (fun rc => step_cmd K P rc self cm).
  Proof.
    intros m. destruct cm; cbn [step_cmd];
      first [ intros _; reflexivity
            | apply n_cmd_new
            | apply n_cmd_clone
            | apply n_cmd_drop
            | apply n_cmd_move
            | apply n_cmd_collect
            | apply n_cmd_upgrade
            | apply n_cmd_drop_value
            | apply n_cmd_new_cyclic
            | apply n_cmd_register
            | apply n_cmd_clean
            | apply n_cmd_unbag ].
  Qed.

  Lemma n_step k : nf_strict (fun rc => step K P rc k).
  Proof.
    intros m. destruct k; cbn [step];
      [ apply n_step_cmd
      | apply n_step_script
      | apply n_step_store
      | apply n_step_drop_cc
      | apply n_step_drop_value
      | apply n_step_drop_fields
      | apply n_step_drop_map_slots
      | apply n_step_trigger
      | apply n_step_collect_cycles
      | apply n_step_collect
      | apply n_step_collect_loop
      | apply n_step_collect_once
      | apply n_step_finalize_list
      | apply n_step_drop_list
      | apply n_step_unbag
      | apply n_step_clean_run ].
  Qed.
End NoFuel.

(** [OFuel] always propagates: if an activation did not return [OFuel], its result does not
    depend on what [rec] does at the points where [rec] returns [OFuel] (had it reached such a
    point it would have returned [OFuel] itself). *)
Theorem step_nofuel_ext K P rec rec' k m :
  agree_on_nofuel rec rec' ->
  (step K P rec k m).2 <> OFuel -> step K P rec' k m = step K P rec k m.
Proof. intros Hag Hn. exact (n_step K P rec rec' Hag k m Hn). Qed.

Lemma run_agree_nofuel_S K P n : agree_on_nofuel (run K P n) (run K P (S n)).
Proof.
  induction n as [|n IH]; intros k m Hn; [exfalso; apply Hn; reflexivity|].
  rewrite (run_S K P (S n)), (run_S K P n). rewrite run_S in Hn.
  apply step_nofuel_ext; assumption.
Qed.

(** Fuel monotonicity: a run that did not run out of fuel is independent of the remaining fuel
    (generalises Flags6.run_normal_stable from [ONormal] to every outcome but [OFuel]). *)
Theorem run_fuel_mono K P n n' c m :
  (run K P n c m).2 <> OFuel -> (n <= n')%nat -> run K P n' c m = run K P n c m.
Proof.
  intros Hn Hle. induction Hle as [|n' Hle IH]; [reflexivity|].
  rewrite <- IH. apply run_agree_nofuel_S. rewrite IH. exact Hn.
Qed.

Corollary run_fuel_mono_outcome K P n n' c m :
  (run K P n c m).2 <> OFuel -> (n <= n')%nat -> (run K P n' c m).2 <> OFuel.
Proof. intros Hn Hle. rewrite (run_fuel_mono K P n n' c m Hn Hle). exact Hn. Qed.

(** ** 2. Callbacks *)

(** the activations that run user code on behalf of the collector: a finalizer script and the
    destruction of a value (Drop script, then the fields) *)
Definition callback_call (c : call) : Prop :=
  match c with KScript _ _ | KDropValue _ => True | _ => False end.

(** "every finalizer script and every value destruction started from any state returns": a user
    finalizer / destructor that itself diverges is the program's non-termination, not the
    collector's *)
Definition callbacks_terminate (K : conf) (P : prog) : Prop :=
  forall c m, callback_call c -> exists n, (run K P n c m).2 <> OFuel.

(** the sharper premise actually used: only the scripts the collector can start, i.e. the
    finalizer scripts of [P]'s classes run on an object, and value destructions *)
Definition collector_callback (P : prog) (c : call) : Prop :=
  match c with
  | KScript (Some _) cs => exists cl, cs = oscript P (c_fin (class_of P cl))
  | KDropValue _ => True
  | _ => False
  end.

Definition collector_callbacks_terminate (K : conf) (P : prog) : Prop :=
  forall c m, collector_callback P c -> exists n, (run K P n c m).2 <> OFuel.

Lemma collector_callback_callback P c : collector_callback P c -> callback_call c.
Proof. destruct c as [| [?|] ? | | | | | | | | | | | | | |]; cbn; tauto. Qed.

Lemma callbacks_terminate_collector K P :
  callbacks_terminate K P -> collector_callbacks_terminate K P.
Proof. intros H c m Hc. apply H. exact (collector_callback_callback P c Hc). Qed.

(** ** 3. The collector's own control flow terminates *)
Section Term.
  Context (K : conf) (P : prog).
  Notation run := (run K P).

  Definition returns (c : call) (m : machine) : Prop := exists n, (run n c m).2 <> OFuel.

  Lemma run_max_l n1 n2 c m :
    (run n1 c m).2 <> OFuel -> run (Nat.max n1 n2) c m = run n1 c m.
  Proof. intros H. apply run_fuel_mono; [exact H | lia]. Qed.
  Lemma run_max_r n1 n2 c m :
    (run n2 c m).2 <> OFuel -> run (Nat.max n1 n2) c m = run n2 c m.
  Proof. intros H. apply run_fuel_mono; [exact H | lia]. Qed.

  Lemma returns_S c m : (exists n, (step K P (run n) c m).2 <> OFuel) -> returns c m.
  Proof. intros [n H]. exists (S n). exact H. Qed.

  (** *** the drop pass: one [KDropValue] per member of the fixed list, then the frees *)
  (** the state in which [step_drop_list] starts the destruction of member [g] *)
  Definition drop_list_pre (g : id) (m : machine) : machine :=
    let m := if is_in_list (hdr_of m g) then m else emit_bad AssertFail g m in
    if k_weak K then uhdr g set_dropped m else m.
  (** ToDropList::drop when a destructor unwinds *)
  Definition drop_list_unwind (L : list id) (old_d : bool) (m : machine) : machine :=
    fold_left (fun m g => uhdr g (fun h => let h := set_mark NM h in
                                           if k_weak K then set_dropped h else h) m) L m
      <| st_dropping := old_d |>.

  Lemma step_drop_list_nil rec L old_d m :
    step_drop_list K rec L [] old_d m =
    (fold_left (fun m g => dealloc K g (drop_metadata K g m)) L m <| st_dropping := old_d |>, ONormal).
  Proof. reflexivity. Qed.

  Lemma step_drop_list_cons rec L g rest old_d m :
    step_drop_list K rec L (g :: rest) old_d m =
    let '(m1, r) := rec (KDropValue g) (drop_list_pre g m) in
    match r with
    | ONormal => rec (KDropList L rest old_d) m1
    | _ => (drop_list_unwind L old_d m1, r)
    end.
  Proof. reflexivity. Qed.

  Lemma drop_list_terminates :
    collector_callbacks_terminate K P ->
    forall L rest old_d m, returns (KDropList L rest old_d) m.
  Proof.
    intros Hcb L rest. induction rest as [|g rest IH]; intros old_d m.
    - exists 1%nat. rewrite run_S. cbn [step]. rewrite step_drop_list_nil. cbn [snd]. discriminate.
    - destruct (Hcb (KDropValue g) (drop_list_pre g m) I) as [n1 H1].
      destruct (run n1 (KDropValue g) (drop_list_pre g m)) as [m1 r] eqn:E. cbn [snd] in H1.
      destruct r; [ | | |contradiction].
      + destruct (IH old_d m1) as [n2 H2]. exists (S (Nat.max n1 n2)).
        rewrite run_S. cbn [step]. rewrite step_drop_list_cons.
        rewrite run_max_l by (rewrite E; discriminate). rewrite E.
        rewrite run_max_r by exact H2. exact H2.
      + exists (S n1). rewrite run_S. cbn [step]. rewrite step_drop_list_cons, E. cbn [snd]. discriminate.
      + exists (S n1). rewrite run_S. cbn [step]. rewrite step_drop_list_cons, E. cbn [snd]. discriminate.
  Qed.

  (** *** the finalization pass: one finalizer script per member of the fixed list *)
  (** what [step_finalize_list] does for a member [g] that needs finalization: either it starts
      the finalizer script ([inl]) or there is nothing to run / the fuse makes it panic ([inr]) *)
  Definition fin_head (g : id) (m : machine) : (call * machine) + (machine * outcome) :=
    let m := uhdr g (set_fin true) m in
    if is_map m g then inr (m, ONormal)
    else
      let m := emit (ECb KFin g (cur_flags K m)) m in
      let '(m, boom) := tick KFin m in
      if boom then inr (m, raise m)
      else match get m g with
           | Some x => inl (KScript (Some g) (oscript P (c_fin (class_of P (o_cls x)))), m)
           | None => inr (m, ONormal)
           end.

  Lemma fin_head_callback g m c m0 : fin_head g m = inl (c, m0) -> collector_callback P c.
  Proof.
    unfold fin_head. cbv zeta. destruct (is_map _ g); [discriminate|].
    destruct (tick KFin _) as [m1 b]. destruct b; [discriminate|].
    destruct (get m1 g) as [x|]; [|discriminate]. intros [= <- _]. cbn. eauto.
  Qed.

  Lemma fin_head_nofuel g m m1 r : fin_head g m = inr (m1, r) -> r <> OFuel.
  Proof.
    unfold fin_head. cbv zeta. destruct (is_map _ g); [intros [= _ <-]; discriminate|].
    destruct (tick KFin _) as [m2 b]. destruct b; [intros [= <- <-]; apply raise_not_fuel|].
    destruct (get m2 g) as [x|]; [discriminate|]. intros [= _ <-]. discriminate.
  Qed.

  Lemma step_finalize_list_cons rec L g rest any old_f m :
    step_finalize_list K P rec L (g :: rest) any old_f m =
    if needs_fin (hdr_of m g) then
      let '(m1, r) := match fin_head g m with inl (c, m0) => rec c m0 | inr x => x end in
      match r with
      | ONormal => rec (KFinalizeList L rest true old_f) m1
      | _ => (unmark_all L (m1 <| st_finalizing := old_f |>), r)
      end
    else rec (KFinalizeList L rest any old_f) m.
  Proof.
    unfold step_finalize_list, fin_head. cbv zeta.
    destruct (needs_fin (hdr_of m g)); [|reflexivity].
    destruct (is_map _ g); [reflexivity|].
    destruct (tick KFin _) as [m1 b]. destruct b; [reflexivity|].
    destruct (get m1 g); reflexivity.
  Qed.

  (** the end of the finalization pass: nothing was finalized -> the drop pass on the same fixed
      list; otherwise the list goes back to the buffer *)
  Definition fin_requeue (L : list id) (m : machine) : machine :=
    fold_left (fun m g => uhdr g (fun h => set_mark PC (reset_tc h)) m) L m
      <| pc ::= fun old => L ++ old |> <| pc_size ::= fun s => (N.of_nat (length L) + s)%N |>.

  Lemma step_finalize_list_nil rec L any old_f m :
    step_finalize_list K P rec L [] any old_f m =
    let m := m <| st_finalizing := old_f |> in
    if any then (fin_requeue L m, ONormal)
    else rec (KDropList L L (st_dropping m)) (m <| st_dropping := true |> <| dead ::= app L |>).
  Proof. unfold step_finalize_list. destruct any; reflexivity. Qed.

  Lemma finalize_list_terminates :
    collector_callbacks_terminate K P ->
    forall L rest any old_f m, returns (KFinalizeList L rest any old_f) m.
  Proof.
    intros Hcb L rest. induction rest as [|g rest IH]; intros any old_f m.
    - apply returns_S. cbn [step]. setoid_rewrite step_finalize_list_nil. cbv zeta.
      destruct any.
      + exists 0%nat. cbn [snd]. discriminate.
      + apply drop_list_terminates, Hcb.
    - destruct (needs_fin (hdr_of m g)) eqn:Hnf.
      2:{ destruct (IH any old_f m) as [n Hn]. exists (S n).
          rewrite run_S. cbn [step]. rewrite step_finalize_list_cons, Hnf. exact Hn. }
      assert (Hcont : forall n1 m1,
                 (match fin_head g m with inl (c, m0) => run n1 c m0 | inr x => x end) = (m1, ONormal) ->
                 returns (KFinalizeList L (g :: rest) any old_f) m).
      { intros n1 m1 E. destruct (IH true old_f m1) as [n2 H2]. exists (S (Nat.max n1 n2)).
        rewrite run_S. cbn [step]. rewrite step_finalize_list_cons, Hnf.
        destruct (fin_head g m) as [[c m0]|x] eqn:Hh.
        - rewrite run_max_l by (rewrite E; discriminate). rewrite E.
          rewrite run_max_r by exact H2. exact H2.
        - rewrite E. rewrite run_max_r by exact H2. exact H2. }
      assert (Hstop : forall n1 m1 r,
                 (match fin_head g m with inl (c, m0) => run n1 c m0 | inr x => x end) = (m1, r) ->
                 r <> ONormal -> r <> OFuel ->
                 returns (KFinalizeList L (g :: rest) any old_f) m).
      { intros n1 m1 r E Hr1 Hr2. exists (S n1).
        rewrite run_S. cbn [step]. rewrite step_finalize_list_cons, Hnf, E.
        destruct r; cbn [snd]; congruence. }
      destruct (fin_head g m) as [[c m0]|[m1 r]] eqn:Hh.
      + destruct (Hcb c m0 (fin_head_callback g m c m0 Hh)) as [n1 H1].
        destruct (run n1 c m0) as [m1 r] eqn:E. cbn [snd] in H1.
        destruct r; [ eapply Hcont; exact E | eapply Hstop; [exact E|discriminate..]
                    | eapply Hstop; [exact E|discriminate..] | contradiction ].
      + pose proof (fin_head_nofuel g m m1 r Hh) as Hr.
        destruct r; [ apply (Hcont 0%nat m1); reflexivity
                    | apply (Hstop 0%nat m1 OPanic); [reflexivity|discriminate..]
                    | apply (Hstop 0%nat m1 OAbort); [reflexivity|discriminate..]
                    | contradiction ].
  Qed.

  (** *** one pass: the closed function [trace_pass], then one of the two list passes *)
  Lemma collect_once_terminates_at :
    collector_callbacks_terminate K P -> forall m,
    (trace_pass K P (m <| st_finalizing := false |> <| st_dropping := false |>)).2 <> PFuel ->
    returns KCollectOnce m.
  Proof.
    intros Hcb m Hp. apply returns_S. cbn [step]. unfold step_collect_once. cbv zeta.
    destruct (trace_pass K P (m <| st_finalizing := false |> <| st_dropping := false |>))
      as [m1 pr]. cbn [snd] in Hp.
    destruct pr as [L| |]; [| |contradiction].
    - destruct L as [|g L'].
      + exists 0%nat. discriminate.
      + destruct (k_fin K).
        * apply finalize_list_terminates, Hcb.
        * apply drop_list_terminates, Hcb.
    - exists 0%nat. cbn [snd]. apply raise_not_fuel.
  Qed.

  Lemma collect_once_terminates :
    collector_callbacks_terminate K P -> (forall m', (trace_pass K P m').2 <> PFuel) ->
    forall m, returns KCollectOnce m.
  Proof. intros Hcb Hpass m. apply collect_once_terminates_at; [exact Hcb | apply Hpass]. Qed.

  (** *** the loop: at most [k] passes *)
  Lemma step_collect_loop_O rec m : step_collect_loop rec 0 m = (m, ONormal).
  Proof. reflexivity. Qed.
  Lemma step_collect_loop_S rec k m :
    step_collect_loop rec (S k) m =
    match pc m with
    | [] => (m, ONormal)
    | _ => let '(m1, r) := rec KCollectOnce m in
           match r with ONormal => rec (KCollectLoop k) m1 | _ => (m1, r) end
    end.
  Proof. reflexivity. Qed.

  Lemma collect_loop_terminates :
    (forall m, returns KCollectOnce m) -> forall k m, returns (KCollectLoop k) m.
  Proof.
    intros Honce k. induction k as [|k IH]; intros m.
    - exists 1%nat. rewrite run_S. cbn [step]. rewrite step_collect_loop_O. discriminate.
    - destruct (pc m) as [|p q] eqn:Hpc.
      { exists 1%nat. rewrite run_S. cbn [step]. rewrite step_collect_loop_S, Hpc. discriminate. }
      destruct (Honce m) as [n1 H1].
      destruct (run n1 KCollectOnce m) as [m1 r] eqn:E. cbn [snd] in H1.
      destruct r; [ | | |contradiction].
      + destruct (IH m1) as [n2 H2]. exists (S (Nat.max n1 n2)).
        rewrite run_S. cbn [step]. rewrite step_collect_loop_S, Hpc.
        rewrite run_max_l by (rewrite E; discriminate). rewrite E.
        rewrite run_max_r by exact H2. exact H2.
      + exists (S n1). rewrite run_S. cbn [step]. rewrite step_collect_loop_S, Hpc, E. discriminate.
      + exists (S n1). rewrite run_S. cbn [step]. rewrite step_collect_loop_S, Hpc, E. discriminate.
  Qed.

  Lemma collect_terminates :
    (forall m, returns KCollectOnce m) -> forall m, returns KCollect m.
  Proof.
    intros Honce m.
    destruct (collect_loop_terminates Honce (if k_fin K then 10 else 1)%nat
                (m <| st_collecting := true |> <| st_exec ::= N.succ |>)) as [n Hn].
    exists (S n). rewrite run_S. cbn [step]. unfold step_collect. cbv zeta.
    destruct (run n _ _) as [m1 r]. exact Hn.
  Qed.

  Lemma collect_cycles_fuel n m :
    (run n KCollect m).2 <> OFuel ->
    (run (S n) KCollectCycles m).2 <> OFuel /\ (run (S n) KTrigger m).2 <> OFuel.
  Proof.
    intros Hn. rewrite !run_S. cbn [step]. unfold step_collect_cycles, step_trigger. split.
    - destruct (st_collecting m); [discriminate|].
      destruct (pc_alive m); [|discriminate].
      destruct (run n KCollect m) as [m1 r]. cbn [snd] in Hn. destruct r; cbn [snd]; congruence.
    - destruct (st_collecting m); [discriminate|].
      destruct (negb (pc_alive m)); [discriminate|].
      destruct (should_collect m); [|discriminate].
      destruct (run n KCollect m) as [m1 r]. cbn [snd] in Hn. destruct r; cbn [snd]; congruence.
  Qed.

  (** C06, termination half: provided every callback activation returns and the tracing pass has
      enough of its own fuel, a collection (explicit or triggered by an allocation) returns. *)
  Theorem collect_cycles_terminates :
    collector_callbacks_terminate K P -> (forall m', (trace_pass K P m').2 <> PFuel) ->
    forall m, exists n, (run n KCollectCycles m).2 <> OFuel /\ (run n KTrigger m).2 <> OFuel.
  Proof.
    intros Hcb Hpass m.
    destruct (collect_terminates (collect_once_terminates Hcb Hpass) m) as [n Hn].
    exists (S n). apply collect_cycles_fuel, Hn.
  Qed.

  (** ** 4. Bounded passes: exact unfoldings and fuel bounds *)
  Lemma collect_makes_at_most_10_passes n m :
    run (S n) KCollect m =
    (let '(m1, r) := run n (KCollectLoop (if k_fin K then 10 else 1)%nat)
                         (m <| st_collecting := true |> <| st_exec ::= N.succ |>) in
     (m1 <| st_collecting := false |>, r)).
  Proof. reflexivity. Qed.

  Lemma collect_loop_zero n m : run (S n) (KCollectLoop 0) m = (m, ONormal).
  Proof. reflexivity. Qed.

  Lemma collect_loop_step n k m :
    run (S n) (KCollectLoop (S k)) m =
    match pc m with
    | [] => (m, ONormal)
    | _ => let '(m1, r) := run n KCollectOnce m in
           match r with ONormal => run n (KCollectLoop k) m1 | _ => (m1, r) end
    end.
  Proof. reflexivity. Qed.

  (** the drop pass starts one [KDropValue] per member of [rest]: if each needs at most fuel [n],
      the pass needs at most [n + |rest| + 1] *)
  Lemma drop_list_fuel n :
    (forall g m', (run n (KDropValue g) m').2 <> OFuel) ->
    forall L rest old_d m,
      (run (n + length rest + 1) (KDropList L rest old_d) m).2 <> OFuel.
  Proof.
    intros Hcb L rest. induction rest as [|g rest IH]; intros old_d m.
    - replace (n + length (@nil id) + 1)%nat with (S n) by (cbn [length]; lia).
      rewrite run_S. cbn [step]. rewrite step_drop_list_nil. discriminate.
    - replace (n + length (g :: rest) + 1)%nat with (S (n + length rest + 1))
        by (cbn [length]; lia).
      rewrite run_S. cbn [step]. rewrite step_drop_list_cons.
      rewrite (run_fuel_mono K P n (n + length rest + 1)) by (first [apply Hcb | lia]).
      pose proof (Hcb g (drop_list_pre g m)) as H1.
      destruct (run n (KDropValue g) (drop_list_pre g m)) as [m1 r]. cbn [snd] in H1.
      destruct r; [apply IH | discriminate | discriminate | contradiction].
  Qed.

  (** the finalization pass starts at most one finalizer script per member of [rest] and then,
      possibly, the drop pass on [L] *)
  Lemma finalize_list_fuel n :
    (forall c m', collector_callback P c -> (run n c m').2 <> OFuel) ->
    forall L rest any old_f m,
      (run (n + length rest + length L + 2) (KFinalizeList L rest any old_f) m).2 <> OFuel.
  Proof.
    intros Hcb L rest. induction rest as [|g rest IH]; intros any old_f m.
    - replace (n + length (@nil id) + length L + 2)%nat with (S (n + length L + 1))
        by (cbn [length]; lia).
      rewrite run_S. cbn [step]. rewrite step_finalize_list_nil. cbv zeta.
      destruct any; [discriminate|].
      apply drop_list_fuel. intros g m'. apply Hcb. exact I.
    - replace (n + length (g :: rest) + length L + 2)%nat
        with (S (n + length rest + length L + 2)) by (cbn [length]; lia).
      rewrite run_S. cbn [step]. rewrite step_finalize_list_cons.
      destruct (needs_fin (hdr_of m g)); [|apply IH].
      destruct (fin_head g m) as [[c m0]|[m1 r]] eqn:Hh.
      + pose proof (Hcb c m0 (fin_head_callback g m c m0 Hh)) as H1.
        rewrite (run_fuel_mono K P n (n + length rest + length L + 2)) by (first [exact H1 | lia]).
        destruct (run n c m0) as [m1 r]. cbn [snd] in H1.
        destruct r; [apply IH | discriminate | discriminate | contradiction].
      + pose proof (fin_head_nofuel g m m1 r Hh) as Hr.
        destruct r; [apply IH | discriminate | discriminate | contradiction].
  Qed.

  (** the number of objects the pass started from [m] found unreachable *)
  Definition pass_len (m : machine) : nat :=
    match (trace_pass K P (m <| st_finalizing := false |> <| st_dropping := false |>)).2 with
    | PDone L => length L
    | _ => 0%nat
    end.

  (** one [__collect]: at most [2 * |L|] callbacks *)
  Lemma collect_once_fuel n :
    (forall c m', collector_callback P c -> (run n c m').2 <> OFuel) ->
    forall m,
      (trace_pass K P (m <| st_finalizing := false |> <| st_dropping := false |>)).2 <> PFuel ->
      (run (n + 2 * pass_len m + 3) KCollectOnce m).2 <> OFuel.
  Proof.
    intros Hcb m Hp. unfold pass_len.
    replace (n + 2 * _ + 3)%nat with (S (n + 2 * pass_len m + 2)) by (unfold pass_len; lia).
    rewrite run_S. cbn [step]. unfold step_collect_once, pass_len. cbv zeta.
    destruct (trace_pass K P (m <| st_finalizing := false |> <| st_dropping := false |>))
      as [m1 pr]. cbn [snd] in Hp |- *.
    destruct pr as [L| |]; [| |contradiction].
    - destruct L as [|g L']; [discriminate|].
      destruct (k_fin K).
      + replace (n + 2 * length (g :: L') + 2)%nat
          with (n + length (g :: L') + length (g :: L') + 2)%nat by lia.
        apply finalize_list_fuel, Hcb.
      + eapply run_fuel_mono_outcome; [apply drop_list_fuel; intros g' m'; apply Hcb; exact I|lia].
    - cbn [snd]. apply raise_not_fuel.
  Qed.

  (** the loop adds at most [k + 1] to the fuel needed by a single pass: it runs at most [k]
      passes *)
  Lemma collect_loop_fuel k n m :
    (forall m', (run n KCollectOnce m').2 <> OFuel) ->
    (run (n + k + 1) (KCollectLoop k) m).2 <> OFuel.
  Proof.
    intros Honce. revert m. induction k as [|k IH]; intros m.
    - replace (n + 0 + 1)%nat with (S n) by lia. rewrite collect_loop_zero. discriminate.
    - replace (n + S k + 1)%nat with (S (n + k + 1)) by lia. rewrite collect_loop_step.
      destruct (pc m) as [|p q]; [discriminate|].
      rewrite (run_fuel_mono K P n (n + k + 1)) by (first [apply Honce | lia]).
      pose proof (Honce m) as H1.
      destruct (run n KCollectOnce m) as [m1 r]. cbn [snd] in H1.
      destruct r; [apply IH | discriminate | discriminate | contradiction].
  Qed.

  (** a whole collection: at most 10 passes *)
  Lemma collect_fuel n m :
    (forall m', (run n KCollectOnce m').2 <> OFuel) ->
    (run (n + 12) KCollect m).2 <> OFuel /\
    (run (n + 13) KCollectCycles m).2 <> OFuel /\ (run (n + 13) KTrigger m).2 <> OFuel.
  Proof.
    intros Honce.
    assert (H : (run (n + 12) KCollect m).2 <> OFuel).
    { replace (n + 12)%nat with (S (n + 10 + 1)) by lia. rewrite collect_makes_at_most_10_passes.
      set (m0 := m <| st_collecting := true |> <| st_exec ::= N.succ |>).
      assert (Hl : (run (n + 10 + 1) (KCollectLoop (if k_fin K then 10 else 1)%nat) m0).2 <> OFuel).
      { destruct (k_fin K); [apply collect_loop_fuel, Honce|].
        eapply run_fuel_mono_outcome; [apply (collect_loop_fuel 1 n m0 Honce)|lia]. }
      destruct (run (n + 10 + 1) _ m0) as [m1 r]. exact Hl. }
    split; [exact H|]. replace (n + 13)%nat with (S (n + 12)) by lia.
    apply collect_cycles_fuel, H.
  Qed.
End Term.

(** ** C06 (termination half) *)
Theorem C06_collect_terminates K P :
  callbacks_terminate K P -> (forall m', (trace_pass K P m').2 <> PFuel) ->
  forall m, exists n,
    (run K P n KCollectCycles m).2 <> OFuel /\ (run K P n KTrigger m).2 <> OFuel.
Proof.
  intros Hcb Hpass. apply collect_cycles_terminates; [|exact Hpass].
  apply callbacks_terminate_collector, Hcb.
Qed.

(** *** a single [KCollectOnce] from a state satisfying the pass precondition: the pass's own
    fuel is sufficient there (PassMain.pass_fuel_ok), no premise on [trace_pass] is needed *)
Theorem collect_once_terminates_pre K P m ext :
  collector_callbacks_terminate K P -> PassPre P m ext ->
  exists n, (run K P n KCollectOnce m).2 <> OFuel.
Proof.
  intros Hcb Hpre. apply collect_once_terminates_at; [exact Hcb|].
  apply (pass_fuel_ok K P _ ext).
  apply (PassPre_heap P m _ ext); [reflexivity..|exact Hpre].
Qed.

Theorem collect_once_fuel_pre K P n m ext :
  (forall c m', collector_callback P c -> (run K P n c m').2 <> OFuel) -> PassPre P m ext ->
  (run K P (n + 2 * pass_len K P m + 3) KCollectOnce m).2 <> OFuel.
Proof.
  intros Hcb Hpre. apply collect_once_fuel; [exact Hcb|].
  apply (pass_fuel_ok K P _ ext).
  apply (PassPre_heap P m _ ext); [reflexivity..|exact Hpre].
Qed.

(** ** 5. The same, with the callbacks as an oracle.

    [callbacks_terminate] quantifies over all states, so it is a real proof obligation on the
    program.  The statement "the collector itself cannot loop" can also be made with no premise on
    the program at all: replace every callback activation (finalizer script, value destruction)
    by an ARBITRARY total state transformer [cb] - it may release, create or resurrect any number
    of objects - and give fuel only to the collector's own activations ([crun]).  Then every
    list pass returns within a fuel that only depends on the length of its fixed list, and a
    collection returns. *)
Section Oracle.
  Context (K : conf) (P : prog).
  Context (cb : call -> machine -> machine * outcome).
  Hypothesis cb_returns : forall c m, (cb c m).2 <> OFuel.

  Definition is_callback (c : call) : bool :=
    match c with KScript _ _ | KDropValue _ => true | _ => false end.

  Fixpoint crun (n : nat) (c : call) (m : machine) {struct n} : machine * outcome :=
    match n with
    | O => (m, OFuel)
    | S n => step K P (fun c' m' => if is_callback c' then cb c' m' else crun n c' m') c m
    end.

  Definition hyb (n : nat) (c : call) (m : machine) : machine * outcome :=
    if is_callback c then cb c m else crun n c m.

  Lemma crun_S n c m : crun (S n) c m = step K P (hyb n) c m.
  Proof. reflexivity. Qed.
  Lemma hyb_cb n c m : is_callback c = true -> hyb n c m = cb c m.
  Proof. unfold hyb. intros ->. reflexivity. Qed.
  Lemma hyb_run n c m : is_callback c = false -> hyb n c m = crun n c m.
  Proof. unfold hyb. intros ->. reflexivity. Qed.

  Lemma collector_callback_is_callback c : collector_callback P c -> is_callback c = true.
  Proof. destruct c as [| [?|] ? | | | | | | | | | | | | | |]; cbn; tauto. Qed.

  Lemma hyb_agree_S n : agree_on_nofuel (hyb n) (hyb (S n)).
  Proof.
    induction n as [|n IH]; intros c m Hn; unfold hyb in *; destruct (is_callback c); try reflexivity.
    - exfalso. apply Hn. reflexivity.
    - rewrite (crun_S (S n)), (crun_S n). rewrite crun_S in Hn.
      apply step_nofuel_ext; assumption.
  Qed.

  Lemma crun_mono n n' c m :
    (crun n c m).2 <> OFuel -> (n <= n')%nat -> crun n' c m = crun n c m.
  Proof.
    intros Hn Hle. induction Hle as [|n' Hle IH]; [reflexivity|].
    rewrite <- IH. destruct n' as [|n'].
    - assert (n = 0%nat) as -> by lia. exfalso. apply Hn. reflexivity.
    - rewrite (crun_S (S n')), (crun_S n'). apply step_nofuel_ext; [apply hyb_agree_S|].
      rewrite <- crun_S, IH. exact Hn.
  Qed.

  Lemma crun_mono_outcome n n' c m :
    (crun n c m).2 <> OFuel -> (n <= n')%nat -> (crun n' c m).2 <> OFuel.
  Proof. intros Hn Hle. rewrite (crun_mono n n' c m Hn Hle). exact Hn. Qed.

  (** the drop pass returns within fuel [|rest| + 1], whatever the destructors do *)
  Lemma odrop_list_fuel L rest old_d m :
    (crun (length rest + 1) (KDropList L rest old_d) m).2 <> OFuel.
  Proof.
    revert old_d m. induction rest as [|g rest IH]; intros old_d m.
    - cbn [length Nat.add]. rewrite crun_S. cbn [step]. rewrite step_drop_list_nil. discriminate.
    - replace (length (g :: rest) + 1)%nat with (S (length rest + 1)) by (cbn [length]; lia).
      rewrite crun_S. cbn [step]. rewrite step_drop_list_cons.
      rewrite hyb_cb by reflexivity.
      pose proof (cb_returns (KDropValue g) (drop_list_pre K g m)) as H1.
      destruct (cb (KDropValue g) (drop_list_pre K g m)) as [m1 r]. cbn [snd] in H1.
      destruct r; [rewrite hyb_run by reflexivity; apply IH
                  | discriminate | discriminate | contradiction].
  Qed.

  (** the finalization pass (and the drop pass it may tail-call) returns within fuel
      [|rest| + |L| + 2], whatever the finalizers do *)
  Lemma ofinalize_list_fuel L rest any old_f m :
    (crun (length rest + length L + 2) (KFinalizeList L rest any old_f) m).2 <> OFuel.
  Proof.
    revert any old_f m. induction rest as [|g rest IH]; intros any old_f m.
    - replace (length (@nil id) + length L + 2)%nat with (S (length L + 1)) by (cbn [length]; lia).
      rewrite crun_S. cbn [step]. rewrite step_finalize_list_nil. cbv zeta.
      destruct any; [discriminate|]. rewrite hyb_run by reflexivity. apply odrop_list_fuel.
    - replace (length (g :: rest) + length L + 2)%nat
        with (S (length rest + length L + 2)) by (cbn [length]; lia).
      rewrite crun_S. cbn [step]. rewrite step_finalize_list_cons.
      destruct (needs_fin (hdr_of m g)); [|rewrite hyb_run by reflexivity; apply IH].
      destruct (fin_head K P g m) as [[c m0]|[m1 r]] eqn:Hh.
      + rewrite hyb_cb
          by (apply collector_callback_is_callback; exact (fin_head_callback K P g m c m0 Hh)).
        pose proof (cb_returns c m0) as H1.
        destruct (cb c m0) as [m1 r]. cbn [snd] in H1.
        destruct r; [rewrite hyb_run by reflexivity; apply IH
                    | discriminate | discriminate | contradiction].
      + pose proof (fin_head_nofuel K P g m m1 r Hh) as Hr.
        destruct r; [rewrite hyb_run by reflexivity; apply IH
                    | discriminate | discriminate | contradiction].
  Qed.

  (** one [__collect] returns within fuel [2 * |L| + 3] *)
  Lemma ocollect_once_fuel m :
    (trace_pass K P (m <| st_finalizing := false |> <| st_dropping := false |>)).2 <> PFuel ->
    (crun (2 * pass_len K P m + 3) KCollectOnce m).2 <> OFuel.
  Proof.
    intros Hp.
    replace (2 * pass_len K P m + 3)%nat with (S (2 * pass_len K P m + 2)) by lia.
    rewrite crun_S. cbn [step]. unfold step_collect_once, pass_len. cbv zeta.
    destruct (trace_pass K P (m <| st_finalizing := false |> <| st_dropping := false |>))
      as [m1 pr]. cbn [snd] in Hp |- *.
    destruct pr as [L| |]; [| |contradiction].
    - destruct L as [|g L']; [discriminate|].
      destruct (k_fin K); rewrite hyb_run by reflexivity.
      + replace (2 * length (g :: L') + 2)%nat
          with (length (g :: L') + length (g :: L') + 2)%nat by lia.
        apply ofinalize_list_fuel.
      + eapply crun_mono_outcome; [apply odrop_list_fuel|lia].
    - cbn [snd]. apply raise_not_fuel.
  Qed.

  Lemma ocollect_loop_terminates :
    (forall m', (trace_pass K P m').2 <> PFuel) ->
    forall k m, exists n, (crun n (KCollectLoop k) m).2 <> OFuel.
  Proof.
    intros Hpass k. induction k as [|k IH]; intros m.
    - exists 1%nat. rewrite crun_S. cbn [step]. rewrite step_collect_loop_O. discriminate.
    - destruct (pc m) as [|p q] eqn:Hpc.
      { exists 1%nat. rewrite crun_S. cbn [step]. rewrite step_collect_loop_S, Hpc. discriminate. }
      pose proof (ocollect_once_fuel m (Hpass _)) as H1. set (n1 := (2 * pass_len K P m + 3)%nat) in *.
      destruct (crun n1 KCollectOnce m) as [m1 r] eqn:E. cbn [snd] in H1.
      destruct r; [ | | |contradiction].
      + destruct (IH m1) as [n2 H2]. exists (S (Nat.max n1 n2)).
        rewrite crun_S. cbn [step]. rewrite step_collect_loop_S, Hpc.
        rewrite hyb_run by reflexivity.
        rewrite (crun_mono n1 (Nat.max n1 n2)) by (first [rewrite E; discriminate | lia]). rewrite E.
        cbv beta iota. rewrite hyb_run by reflexivity.
        rewrite (crun_mono n2 (Nat.max n1 n2)) by (first [exact H2 | lia]). exact H2.
      + exists (S n1). rewrite crun_S. cbn [step]. rewrite step_collect_loop_S, Hpc.
        rewrite hyb_run by reflexivity. rewrite E. discriminate.
      + exists (S n1). rewrite crun_S. cbn [step]. rewrite step_collect_loop_S, Hpc.
        rewrite hyb_run by reflexivity. rewrite E. discriminate.
  Qed.

  (** whatever the callbacks do, a collection returns *)
  Theorem ocollect_terminates :
    (forall m', (trace_pass K P m').2 <> PFuel) ->
    forall m, exists n,
      (crun n KCollect m).2 <> OFuel /\
      (crun (S n) KCollectCycles m).2 <> OFuel /\ (crun (S n) KTrigger m).2 <> OFuel.
  Proof.
    intros Hpass m.
    assert (Hc : forall m, exists n, (crun n KCollect m).2 <> OFuel).
    { clear m. intros m.
      destruct (ocollect_loop_terminates Hpass (if k_fin K then 10 else 1)%nat
                  (m <| st_collecting := true |> <| st_exec ::= N.succ |>)) as [n Hn].
      exists (S n). rewrite crun_S. cbn [step]. unfold step_collect. cbv zeta.
      rewrite hyb_run by reflexivity. destruct (crun n _ _) as [m1 r]. exact Hn. }
    destruct (Hc m) as [n Hn]. exists n. split; [exact Hn|].
    rewrite !crun_S. cbn [step]. unfold step_collect_cycles, step_trigger. split.
    - destruct (st_collecting m); [discriminate|].
      destruct (pc_alive m); [|discriminate]. rewrite hyb_run by reflexivity.
      destruct (crun n KCollect m) as [m1 r]. cbn [snd] in Hn. destruct r; cbn [snd]; congruence.
    - destruct (st_collecting m); [discriminate|].
      destruct (negb (pc_alive m)); [discriminate|].
      destruct (should_collect m); [|discriminate]. rewrite hyb_run by reflexivity.
      destruct (crun n KCollect m) as [m1 r]. cbn [snd] in Hn. destruct r; cbn [snd]; congruence.
  Qed.
End Oracle.

(** one pass from a state satisfying the pass precondition: no premise left but [cb] total *)
Theorem ocollect_once_fuel_pre K P cb m ext :
  (forall c m', (cb c m').2 <> OFuel) -> PassPre P m ext ->
  (crun K P cb (2 * pass_len K P m + 3) KCollectOnce m).2 <> OFuel.
Proof.
  intros Hcb Hpre. apply ocollect_once_fuel; [exact Hcb|].
  apply (pass_fuel_ok K P _ ext).
  apply (PassPre_heap P m _ ext); [reflexivity..|exact Hpre].
Qed.
