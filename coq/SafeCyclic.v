(** * SafeCyclic: Cc::new_cyclic. The region between the push and the pop of the closure parameter is a frame of its own (own object: the box under construction) that is joined with the frame of the command. *)
From Coq Require Import NArith Bool List Lia.
From stdpp Require Import base list option.
From RecordUpdate Require Import RecordSet.
From RC Require Import Hdr Machine RunInd Inv InvP SafeHelpers SafePrims SafeCalls SafeGlue SafeDrop SafeCmd.
Import ListNotations RecordSetNotations.
Local Open Scope N_scope.

(** ** Moving the base and the end of a frame along updates that change neither heap, dying
    set nor the collecting flag (the push / pop of the parameter of a new_cyclic closure) *)
Section Proper.
  Context (K : conf).
  Implicit Types (m : machine) (o : id) (x : obj).

  Lemma get_heap_eq m m' o : heap m' = heap m -> get m' o = get m o.
  Proof. unfold get. intros ->. reflexivity. Qed.

  Lemma ObjFr_proper E ex m1 m2 m1' m2' o x x' :
    dead m1' = dead m1 -> st_collecting m1' = st_collecting m1 -> dead m2' = dead m2 ->
    ObjFr E ex m1 m2 o x x' -> ObjFr E ex m1' m2' o x x'.
  Proof.
    intros Hd1 Hc1 Hd2 [F1 F2 F3 F4 F5 F6 F7 F8 F8' Fu Fn Fd F9 F10].
    assert (HD1 : forall t, inD m1' t = inD m1 t) by (intros; apply inD_eq, Hd1).
    assert (HD2 : forall t, inD m2' t = inD m2 t) by (intros; apply inD_eq, Hd2).
    split; auto.
    - intros Hv Hex. rewrite HD1, HD2. auto.
    - intros Hi. rewrite HD1 in Hi. auto.
    - intros Hex Hb Hp. rewrite HD1, HD2, Hc1. apply F10; auto.
      destruct Hp as [Hp|[Hp Hq]]; [left; exact Hp | right; split; congruence].
  Qed.

  Lemma Fr_proper E ex m1 m2 m1' m2' :
    heap m1' = heap m1 -> dead m1' = dead m1 -> st_collecting m1' = st_collecting m1 ->
    heap m2' = heap m2 -> dead m2' = dead m2 -> st_collecting m2' = st_collecting m2 ->
    wparam m2' = wparam m1' ->
    Fr K E ex m1 m2 -> Fr K E ex m1' m2'.
  Proof.
    intros Hh1 Hd1 Hc1 Hh2 Hd2 Hc2 Hwp [F1 Fw F2 Fc F3 F4].
    assert (HD1 : forall t, inD m1' t = inD m1 t) by (intros; apply inD_eq, Hd1).
    assert (HD2 : forall t, inD m2' t = inD m2 t) by (intros; apply inD_eq, Hd2).
    split.
    - congruence.
    - exact Hwp.
    - intros o. rewrite HD1, HD2. auto.
    - intros Hc o. rewrite HD1, HD2. apply Fc. congruence.
    - intros o x Hx. rewrite (get_heap_eq _ _ _ Hh1) in Hx. destruct (F3 o x Hx) as (x' & Hx' & OF).
      exists x'. rewrite (get_heap_eq _ _ _ Hh2). split; [exact Hx'|]. eapply ObjFr_proper; eauto.
    - intros Hk o x' Hx' Hi Hb Hdr. rewrite (get_heap_eq _ _ _ Hh2) in Hx'. rewrite HD2 in Hi.
      destruct (F4 Hk o x' Hx' Hi Hb Hdr) as (x & Hx & Hi1 & Hb1 & Hd1').
      exists x. rewrite (get_heap_eq _ _ _ Hh1), HD1. auto.
  Qed.

  Lemma NDD_proper m1 m2 m1' m2' :
    dead m1' = dead m1 -> heap m2' = heap m2 -> dead m2' = dead m2 ->
    NewDeadDropped m1 m2 -> NewDeadDropped m1' m2'.
  Proof.
    intros Hd1 Hh2 Hd2 H o x' Hx' Hi Hi1. rewrite (get_heap_eq _ _ _ Hh2) in Hx'.
    rewrite (inD_eq _ _ _ Hd2) in Hi. rewrite (inD_eq _ _ _ Hd1) in Hi1. eapply H; eauto.
  Qed.
End Proper.

Section Bridge.
  Context (K : conf).
  Implicit Types (m : machine) (o : id) (x : obj).

  (** the region between the push and the pop of the closure parameter is a frame of its own
      (own object: the box under construction), which is then joined with the frame of the
      command *)
  Lemma Cur_bridge b b' n n' E0 o m0 Ea Wa ma Eq Wq mq w :
    Cur K b n E0 None m0 Ea Wa ma -> get m0 o = None ->
    Cur K b' n' E0 (Some o) (ma <| wparam ::= cons w |>) Eq Wq mq ->
    Cur K b' (n && n') E0 None m0 Eq (w :: Wq) (mq <| wparam ::= tail |>).
  Proof.
    intros Ca Hfresh [Q1 Q2 Q3 Q4].
    assert (Hwq : wparam mq = w :: wparam ma) by (rewrite (fr_wp _ _ _ _ _ Q3); reflexivity).
    apply (Cur_close_fresh K _ _ _ o _ _ _ _ Hfresh).
    eapply Cur_join; [apply Cur_weaken_ex, Ca|]. split.
    - eapply NoBad_log; [|exact Q1]. reflexivity.
    - eapply SInv_wparam_pop; eauto.
    - eapply (Fr_proper K E0 (Some o) _ mq ma _); [.. | exact Q3]; try reflexivity.
      change (wparam (mq <| wparam ::= tail |>)) with (tail (wparam mq)). rewrite Hwq. reflexivity.
    - intros Hn. eapply (NDD_proper _ mq ma _); [.. | apply Q4, Hn]; reflexivity.
  Qed.
End Bridge.

Section CycPrims.
  Context (K : conf).
  Implicit Types (m : machine) (o : id) (x : obj).

  (** the value of a fresh object is marked "under construction" *)
  Lemma Cur_set_uninit b n E0 ex m0 E W m o x :
    Cur K b n E0 ex m0 E W m -> get m o = Some x -> get m0 o = None ->
    o_box x = BNotYet -> o_vst x = VLive ->
    (forall j t, o_fields x !! j = Some (Some t) -> False) -> o_cleaner x = None ->
    Cur K b n E0 ex m0 E W (upd o (fun x => x <| o_vst := VUninit |>) m).
  Proof.
    intros C Hx Hfresh Hb Hv Hfl Hcl. pose proof (cur_inv _ _ _ _ _ _ _ _ _ C) as HI.
    pose proof (sv_obj _ _ _ _ _ HI _ _ Hx) as Hok. apply okN_notyet in Hok; [|exact Hb].
    destruct Hok as [Hnr Hnw].
    destruct (sv_objx _ _ _ _ _ HI _ _ Hx) as [X1 X2 X3 X4 X5 X6].
    assert (Hi : inD m o = false).
    { destruct (inD m o) eqn:Ei; [|reflexivity]. destruct (X6 eq_refl) as [? _]. congruence. }
    assert (Hr0 : refs m o = 0%nat) by lia. assert (He0 : cnt_id o E = 0%nat) by lia.
    set (f := fun x : obj => x <| o_vst := VUninit |>).
    eapply (Cur_status K b n E0 ex m0 E W E W m _ o f x C Hx); try reflexivity.
    - apply ext_eq_upd.
    - auto.
    - eapply NoBad_log; [reflexivity | apply C].
    - auto.
    - apply okN_notyet; [exact Hb|]. auto.
    - unfold f. split; cbn; rewrite ?Hi; try discriminate; try congruence; auto.
    - intros h c Hl. exfalso. eapply hloc_none_of_refs; eauto.
    - intros c t Hl. exfalso. inversion Hl as [| | p xp j t' Hp Hj | p xp t' Hp Hc]; subst.
      + assert (xp = x) by congruence. subst. eapply Hfl; eauto.
      + assert (xp = x) by congruence. subst. congruence.
    - intros t Ht. left. split; [|exact Ht]. intros ->. apply cnt_id_zero in He0. contradiction.
    - intros Hin. destruct (sv_pc _ _ _ _ _ HI _ Hin) as (y & Hy & Hby & _). congruence.
    - intros v Hvl. destruct (sv_values _ _ _ _ _ HI _ _ Hvl) as [(y & Hy & Hby & _) _]. congruence.
    - left. auto.
  Qed.
End CycPrims.

Section CycAlloc.
  Context (K : conf).
  Implicit Types (m : machine) (o : id) (x : obj).

  (** the box of a new_cyclic value: CcBox::new (strong count 1), the side record with the
      Weak of the closure parameter, then the strong count is taken back to 0 *)
  Definition cyc_obj (fin : bool) (x : obj) : obj :=
    x <| o_box := BAlloc |> <| o_hdr := Hdr 0 1 NM fin true |> <| o_side := Some (Side (Wk 1 true) false) |>.
  Definition cyc_alloc (o : id) (m : machine) : machine :=
    dec_rc_m o (uside o (fun k => default k (inc_wk k)) (init_side o (box_alloc K o m))).

  Lemma get_emit e m o : get (emit e m) o = get m o. Proof. reflexivity. Qed.

  Lemma cyc_alloc_shape m o x :
    get m o = Some x ->
    heap (cyc_alloc o m) = alter (cyc_obj (k_fin K && st_finalizing m)) o (heap m) /\
    ext_eq m (cyc_alloc o m) /\ st_dropping (cyc_alloc o m) = st_dropping m /\
    (NoBad m -> NoBad (cyc_alloc o m)).
  Proof.
    intros Hx. unfold cyc_alloc, box_alloc. rewrite Hx. destruct (box_layout K x) as [sz al].
    set (fin := k_fin K && st_finalizing m).
    set (fb := fun x : obj => x <| o_box := BAlloc |> <| o_hdr := hdr_new fin |>).
    set (ma := m <| st_alloc ::= fun a => a + sz |>).
    assert (Hxa : get ma o = Some x) by exact Hx.
    set (m1 := emit (EAlloc o sz al) (upd o fb ma)).
    assert (Hx1 : get m1 o = Some (fb x)) by (unfold m1; rewrite get_emit; apply get_upd_eq, Hxa).
    unfold init_side. rewrite Hx1. change (h_side (o_hdr (fb x))) with false. cbv iota.
    set (fs := fun x : obj => x <| o_side := Some (Side (wk_new true) false) |> <| o_hdr ::= set_side true |>).
    set (m2 := emit (ESAlloc o) (upd o fs m1)).
    assert (Hx2 : get m2 o = Some (fs (fb x))) by (unfold m2; rewrite get_emit; apply get_upd_eq, Hx1).
    unfold uside.
    set (fu := fun x : obj => x <| o_side ::= fmap (fun s => Side (default (sd_wk s) (inc_wk (sd_wk s))) (sd_freed s)) |>).
    set (m3 := upd o fu m2).
    assert (Hx3 : get m3 o = Some (fu (fs (fb x)))) by (apply get_upd_eq, Hx2).
    unfold dec_rc_m. rewrite (hdr_of_get _ _ _ Hx3).
    change (dec_rc (o_hdr (fu (fs (fb x))))) with (Some (Hdr 0 1 NM fin true)). cbv iota. unfold uhdr.
    set (fh := fun x : obj => x <| o_hdr ::= fun _ => Hdr 0 1 NM fin true |>).
    split; [|split; [|split]].
    - rewrite heap_upd. unfold m3. rewrite heap_upd. unfold m2.
      change (heap (emit (ESAlloc o) (upd o fs m1))) with (heap (upd o fs m1)). rewrite heap_upd. unfold m1.
      change (heap (emit (EAlloc o sz al) (upd o fb ma))) with (heap (upd o fb ma)). rewrite heap_upd.
      change (heap ma) with (heap m).
      rewrite <- !list_alter_compose. eapply alter_ext_at; [exact Hx|]. reflexivity.
    - repeat split.
    - reflexivity.
    - intros Hnb. apply (NoBad_log (emit (ESAlloc o) (emit (EAlloc o sz al) m))); [reflexivity|].
      apply NoBad_emit. split; [reflexivity|]. apply NoBad_emit. split; [reflexivity | exact Hnb].
  Qed.
End CycAlloc.

Section CycAlloc2.
  Context (K : conf).
  Implicit Types (m : machine) (o : id) (x : obj).

  Lemma cnt_wr_cons_ne o o' W : o' <> o -> cnt_wr o' (WTo o :: W) = cnt_wr o' W.
  Proof.
    intros Hne. rewrite cnt_wr_cons. cbn.
    destruct (Nat.eqb o o') eqn:E1; [apply Nat.eqb_eq in E1; congruence | reflexivity].
  Qed.
  Lemma cnt_wr_cons_eq o W : cnt_wr o (WTo o :: W) = S (cnt_wr o W).
  Proof. rewrite cnt_wr_cons. cbn. rewrite Nat.eqb_refl. reflexivity. Qed.

  Lemma Cur_cyc_alloc b n E0 ex m0 E W m o x :
    Cur K b n E0 ex m0 E W m -> get m o = Some x -> k_weak K = true -> get m0 o = None ->
    o_box x = BNotYet -> o_side x = None -> o_vst x = VUninit -> o_ismap x = false ->
    (forall j t, o_fields x !! j = Some (Some t) -> False) -> o_cleaner x = None ->
    Cur K b n E0 ex m0 E (WTo o :: W) (cyc_alloc K o m).
  Proof.
    intros C Hx Hk Hfresh Hb Hs Hv Hm Hfl Hcl. pose proof (cur_inv _ _ _ _ _ _ _ _ _ C) as HI.
    pose proof (sv_obj _ _ _ _ _ HI _ _ Hx) as Hok. apply okN_notyet in Hok; [|exact Hb].
    destruct Hok as [Hnr Hnw].
    destruct (sv_objx _ _ _ _ _ HI _ _ Hx) as [X1 X2 X3 X4 X5 X6].
    assert (Hi : inD m o = false).
    { destruct (inD m o) eqn:Ei; [|reflexivity]. destruct (X6 eq_refl) as [? _]. congruence. }
    assert (Hr0 : refs m o = 0%nat) by lia. assert (He0 : cnt_id o E = 0%nat) by lia.
    destruct (cyc_alloc_shape K m o x Hx) as (Hh & He & Hsd & Hnb).
    set (f := cyc_obj (k_fin K && st_finalizing m)) in *.
    eapply (Cur_status K b n E0 ex m0 E W E (WTo o :: W) m _ o f x C Hx Hh He); try reflexivity.
    - rewrite Hsd. auto.
    - apply Hnb, C.
    - intros o' Hne. split; [reflexivity | apply cnt_wr_cons_ne, Hne].
    - apply okN_alloc_intro; [reflexivity|]. unfold OkAlloc, f, cyc_obj, dying, is_live, is_dropped. cbn.
      rewrite Hv, Hk, cnt_wr_cons_eq, He0, Hr0. cbn.
      repeat split; try discriminate; try lia; auto; try (unfold max_rc; lia); try (unfold max_weak; lia).
    - unfold f, cyc_obj. split; cbn; rewrite ?Hv, ?Hi; try discriminate; try congruence; auto.
    - intros h c Hl. exfalso. eapply hloc_none_of_refs; eauto.
    - intros c t Hl. exfalso. inversion Hl as [| | p xp j t' Hp Hj | p xp t' Hp Hc]; subst.
      + assert (xp = x) by congruence. subst. eapply Hfl; eauto.
      + assert (xp = x) by congruence. subst. congruence.
    - intros t Ht. left. split; [|exact Ht]. intros ->. apply cnt_id_zero in He0. contradiction.
    - intros Hin. destruct (sv_pc _ _ _ _ _ HI _ Hin) as (y & Hy & Hby & _). congruence.
    - intros v Hvl. destruct (sv_values _ _ _ _ _ HI _ _ Hvl) as [(y & Hy & Hby & _) _]. congruence.
    - left. auto.
  Qed.
End CycAlloc2.

Section CycFinish.
  Context (K : conf).
  Implicit Types (m : machine) (o : id) (x : obj).

  (** the closure returned: the value is initialised and the first strong handle is created
      (inside the frame whose own object is the new box) *)
  Lemma Cur_cyc_finish b n E0 m0 E W m o x :
    Cur K b n E0 (Some o) m0 E W m -> get m o = Some x -> o_box x = BAlloc -> o_vst x = VUninit ->
    (forall j t, o_fields x !! j = Some (Some t) -> False) -> o_cleaner x = None ->
    Cur K b n E0 (Some o) m0 (o :: E) W
        (uhdr o (fun h => default h (inc_rc h)) (upd o (fun x => x <| o_vst := VLive |>) m)).
  Proof.
    intros C Hx Hb Hv Hfl Hcl. pose proof (cur_inv _ _ _ _ _ _ _ _ _ C) as HI.
    pose proof (sv_obj _ _ _ _ _ HI _ _ Hx) as Hok.
    destruct (okN_alloc K _ _ _ _ _ Hok Hb) as (O1 & O2 & O3 & O4 & O5 & O6).
    destruct (sv_objx _ _ _ _ _ HI _ _ Hx) as [X1 X2 X3 X4 X5 X6].
    destruct (X1 Hb Hv) as [Hrc Hnd].
    assert (Hi : inD m o = false).
    { destruct (inD m o) eqn:Ei; [|reflexivity]. destruct (X6 eq_refl) as (_ & _ & ?). congruence. }
    assert (Hr0 : refs m o = 0%nat) by lia. assert (He0 : cnt_id o E = 0%nat) by lia.
    set (f := fun x : obj => x <| o_vst := VLive |> <| o_hdr ::= fun h => default h (inc_rc h) |>).
    assert (Hhf : o_hdr (f x) = set_rc 1 (o_hdr x)).
    { unfold f. cbn. unfold inc_rc. rewrite Hrc. reflexivity. }
    eapply (Cur_status K b n E0 (Some o) m0 E W (o :: E) W m _ o f x C Hx); try reflexivity.
    - unfold uhdr. rewrite !heap_upd, <- list_alter_compose. reflexivity.
    - repeat split.
    - auto.
    - eapply NoBad_log; [reflexivity | apply C].
    - intros o' Hne. split; [apply cnt_id_cons_ne; congruence | reflexivity].
    - apply okN_alloc_intro; [exact Hb|]. unfold OkAlloc, dying, is_live, is_dropped in *. rewrite Hhf.
      change (o_vst (f x)) with VLive. change (o_side (f x)) with (o_side x). cbn.
      rewrite cnt_id_cons_eq, He0, Hr0. cbn.
      repeat split; try discriminate; try lia; auto; try (unfold max_rc; lia).
      destruct (k_weak K); [split; [discriminate|]|]; intros Hd; rewrite Hnd in Hd; discriminate.
    - split; unfold dying; change (o_vst (f x)) with VLive; rewrite ?Hi; try discriminate; auto.
    - intros h c Hl. exfalso. eapply hloc_none_of_refs; eauto.
    - intros c t Hl. exfalso. inversion Hl as [| | p xp j t' Hp Hj | p xp t' Hp Hc]; subst.
      + assert (xp = x) by congruence. subst. eapply Hfl; eauto.
      + assert (xp = x) by congruence. subst. congruence.
    - intros t Ht. apply elem_of_cons in Ht as [->|Ht]; [right; auto|left]. split; [|exact Ht].
      intros ->. apply cnt_id_zero in He0. contradiction.
    - intros Hin. destruct (sv_pc _ _ _ _ _ HI _ Hin) as (y & Hy & _ & Hvy & _). congruence.
    - intros v Hvl. destruct (sv_values _ _ _ _ _ HI _ _ Hvl) as [(y & Hy & Hby & _) _]. congruence.
    - right. split; [|intros _ Hd; congruence].
      split; try congruence; try discriminate; auto; try (intros; congruence).
      + intros Hm _. unfold marked in *. rewrite Hhf. exact Hm.
  Qed.
End CycFinish.

Section Cyclic.
  Context (K : conf) (P : prog).
  Context (PreC : bool -> list id -> call -> machine -> Prop)
          (PostC : bool -> list id -> call -> machine -> machine -> outcome -> Prop).
  Context (rec : call -> machine -> machine * outcome).
  Hypothesis Hrec : forall b E, rec_ok (Pre K PreC b E) (Post K PostC b E) rec.
  Hypothesis Hconf : k_clean K = true -> k_weak K = true.
  Implicit Types (m : machine) (o : id) (x : obj).

  Notation PostOf b E c m res := (Post K PostC b E c m (fst res) (snd res)).
  Notation rec_post := (rec_post K PreC PostC rec Hrec).

  Ltac triv_post := rewrite Post_nc by reflexivity; exact I.
  Ltac fin C := eapply Post_intro; [reflexivity | exact C | try exact I | try discriminate; auto].

  (** the box under construction, as the closure and the rest of the program see it *)
  Definition cyc_core (m : machine) (o : id) : Prop :=
    exists x, get m o = Some x /\ o_box x = BAlloc /\ o_vst x = VUninit /\ o_ismap x = false /\
              (forall j t, o_fields x !! j = Some (Some t) -> False) /\ o_cleaner x = None.
  (** ... and its Weak fields, which are still empty *)
  Definition cyc_box (m : machine) (o : id) (nw : nat) : Prop :=
    exists x, get m o = Some x /\ o_box x = BAlloc /\ o_vst x = VUninit /\ o_ismap x = false /\
              (forall j t, o_fields x !! j = Some (Some t) -> False) /\ o_cleaner x = None /\
              o_wfields x = replicate nw None.
  Lemma cyc_box_core m o nw : cyc_box m o nw -> cyc_core m o.
  Proof. intros (x & Hx & Hb & Hv & Hm & Hf & Hc & Hw). exists x. auto 10. Qed.

  Lemma cyc_box_fr E ex m m' o nw : Fr K E ex m m' -> ex <> Some o -> cyc_box m o nw -> cyc_box m' o nw.
  Proof.
    intros F Hex (x & Hx & Hb & Hv & Hm & Hf & Hc & Hw).
    destruct (fr_obj _ _ _ _ _ F o x Hx) as (x' & Hx' & OF).
    destruct (of_uninit _ _ _ _ _ _ _ OF Hex Hv Hb) as (U1 & U2 & U3 & U4 & U5).
    exists x'. rewrite U3, U4, U5, (of_ismap _ _ _ _ _ _ _ OF). auto 10.
  Qed.
  Lemma cyc_box_heap m m' o nw : heap m' = heap m -> cyc_box m o nw -> cyc_box m' o nw.
  Proof. intros Hh (x & Hx & H). exists x. rewrite (get_heap_eq _ _ _ Hh). auto. Qed.

  Section Tails.
    Context (b : bool) (E : list id) (self : option id) (c : cmd) (m ma : machine) (o : id).
    Hypothesis Hk : k_weak K = true.
    Hypothesis Ca : Cur K b true E None m E [WTo o] ma.
    Hypothesis Hfresh : get m o = None.
    Let mp := ma <| wparam ::= cons (WTo o) |>.

    (** the closure (or the clone for the Weak field) panicked: PanicGuard frees the box *)
    Lemma cyc_cleanup b' n' mq :
      Cur K b' n' E (Some o) mp E [] mq -> cyc_core mq o ->
      PostOf b E (KCmd self c) m
        (weak_drop (WTo o) (dealloc K o (drop_metadata K o mq) <| wparam ::= tail |>), OPanic).
    Proof.
      intros Cq (x & Hx & Hb & Hv & Hm & Hf & Hc).
      pose proof (cur_inv _ _ _ _ _ _ _ _ _ Cq) as HIq.
      destruct (sv_objx _ _ _ _ _ HIq _ _ Hx) as [X1 _ _ _ _ _]. destruct (X1 Hb Hv) as [Hrc _].
      destruct (okN_alloc K _ _ _ _ _ (sv_obj _ _ _ _ _ HIq _ _ Hx) Hb) as (O1 & _).
      assert (Hz : (refs mq o + cnt_id o E = 0)%nat) by lia.
      pose proof (Cur_free K _ _ _ _ _ _ _ mq o x Cq Hx Hb Hz) as Cf.
      specialize (Cf ltac:(unfold is_live; rewrite Hv; reflexivity) ltac:(congruence) (or_intror (or_intror eq_refl))).
      pose proof (Cur_bridge K _ _ _ _ E o m _ _ ma _ _ _ (WTo o) Ca Hfresh (Cur_weaken K _ _ _ _ _ _ _ _ Cf)) as Cb.
      pose proof (Cur_weak_drop K _ _ _ _ _ _ _ _ _ Cb Hk) as Cd.
      cbn [fst snd]. fin Cd.
    Qed.

    (** the value is complete: the first strong handle is created and stored *)
    Lemma cyc_finish_tail b0 E1 rd mq :
      SInv K b0 E1 [] m -> idx_valid m rd -> holder_good m rd ->
      Cur K b true E (Some o) mp E [] mq -> cyc_core mq o ->
      PostOf b E (KCmd self c) m
        (let m := upd o (fun x => x <| o_vst := VLive |>) mq in
         let m := uhdr o (fun h => default h (inc_rc h)) m in
         let m := m <| wparam ::= tail |> in
         let m := weak_drop (WTo o) m in
         let '(m, r3) := rec (KStore rd o) m in
         match r3 with ONormal => ok m ROk | _ => (m, r3) end).
    Proof.
      intros HI0 Hidx Hh Cq (x & Hx & Hb & Hv & Hm & Hf & Hc).
      pose proof (cur_inv _ _ _ _ _ _ _ _ _ Cq) as HIq.
      destruct (sv_objx _ _ _ _ _ HIq _ _ Hx) as [_ _ _ _ _ X6].
      assert (Hi : inD mq o = false).
      { destruct (inD mq o) eqn:Ei; [|reflexivity]. destruct (X6 eq_refl) as (_ & _ & ?). congruence. }
      pose proof (Cur_cyc_finish K _ _ _ _ _ _ _ o x Cq Hx Hb Hv Hf Hc) as Cf.
      pose proof (Cur_bridge K _ _ _ _ E o m _ _ ma _ _ _ (WTo o) Ca Hfresh Cf) as Cb.
      pose proof (Cur_weak_drop K _ _ _ _ _ _ _ _ _ Cb Hk) as Cd. cbn [andb] in Cd.
      cbv zeta.
      match type of Cd with Cur _ _ _ _ _ _ _ _ ?mm => set (mf := mm) in * end.
      apply (store_tail' K PreC PostC rec Hrec b b0 E E1 self c m mf rd o ROk HI0 Hidx Hh Cd).
      - assert (Hg : exists y, get mf o = Some y /\ o_ismap y = false).
        { unfold mf. 
          match goal with |- context [weak_drop _ ?mm] => destruct (weak_drop_keep (WTo o) mm o (x <| o_vst := VLive |> <| o_hdr ::= fun h => default h (inc_rc h) |>)) as (y & Hy & S) end.
          - unfold uhdr. apply (get_upd_eq o _ _ (x <| o_vst := VLive |>)). apply get_upd_eq, Hx.
          - exists y. split; [exact Hy|]. destruct S as (_ & _ & _ & _ & S5 & _). rewrite S5. exact Hm. }
        destruct Hg as (y & Hy & Hmy). unfold is_map. rewrite Hy. exact Hmy.
      - unfold mf, inD. rewrite dead_weak_drop. exact Hi.
    Qed.
  End Tails.

  Section NewCyclic.
    Context (b : bool) (E : list id) (self : option id) (m : machine).
    Hypothesis Hnb : NoBad m.
    Hypothesis HI : SInv K b E [] m.
    Let C0 : Cur K b true E None m E [] m := Cur_init K b true E None E [] m Hnb HI.

    Lemma cmd_new_cyclic_ok dst cls script sw : self_ok E self [CNewCyclic dst cls script sw] m ->
      PostOf b E (KCmd self (CNewCyclic dst cls script sw)) m (cmd_new_cyclic K P rec self dst cls script sw m).
    Proof.
      intros Hs. unfold cmd_new_cyclic. destruct (k_weak K) eqn:Hk; cbn [negb]; [|apply ok_post'; exact C0].
      destruct (resolve_ok' K b E [] m self dst HI (self_ok_loc _ _ _ _ dst Hs (fun H => H))) as (ro & -> & Hro).
      destruct ro as [r|]; [|apply ok_post'; exact C0].
      destruct (Hro r eq_refl) as (Hidx & Hh & _).
      pose proof (Cur_new_node K P b true E None m E [] m cls C0) as C1.
      set (o := length (heap m)).
      set (x0 := Obj (hdr_new false) VLive BNotYet None cls false (replicate (c_nf (class_of P cls)) None)
                     (replicate (c_nw (class_of P cls)) None) None false [] [] false).
      assert (Hfresh : get m o = None) by (apply lookup_ge_None_2; unfold o; lia).
      assert (Hx1 : get (new_node P cls m).1 o = Some x0) by (unfold new_node, get; cbn; apply list_lookup_middle; reflexivity).
      assert (Hnf : forall j t, replicate (c_nf (class_of P cls)) (@None id) !! j = Some (Some t) -> False).
      { intros j t Hj. apply lookup_replicate in Hj as [Hj _]. discriminate. }
      assert (Hnw : forall j w, replicate (c_nw (class_of P cls)) (@None wref) !! j = Some w -> w = None).
      { intros j w Hj. apply lookup_replicate in Hj as [Hj _]. congruence. }
      pose proof (Cur_set_uninit K _ _ _ _ _ _ _ _ o x0 C1 Hx1 Hfresh eq_refl eq_refl Hnf eq_refl) as C1u.
      set (xu := x0 <| o_vst := VUninit |>).
      assert (Hxu : get (upd o (fun x => x <| o_vst := VUninit |>) (new_node P cls m).1) o = Some xu) by (apply get_upd_eq, Hx1).
      unfold new_node in *. cbn [fst snd] in *. fold o.
      match goal with |- context [if k_auto K then rec KTrigger ?mm else _] => set (m1 := mm) in * end.
      destruct (if k_auto K then rec KTrigger m1 else (m1, ONormal)) as [m2 t] eqn:Htr.
      destruct (trigger_call K PreC PostC rec Hrec b E m true m1 C1u m2 t Htr) as (HtN & HtP & HtF).
      destruct t; try triv_post; [|cbn [fst snd]; pose proof (HtP eq_refl) as Cp; fin Cp].
      specialize (HtN eq_refl).
      assert (Hx2 : get m2 o = Some xu).
      { destruct (fr_obj _ _ _ _ _ (HtF (or_introl eq_refl)) o xu Hxu) as (x' & Hx' & OF).
        rewrite (of_notyet _ _ _ _ _ _ _ OF) in Hx'; [exact Hx' | reflexivity | discriminate | discriminate]. }
      (* the box, the side record and the Weak parameter *)
      pose proof (Cur_cyc_alloc K _ _ _ _ _ _ _ _ o xu HtN Hx2 Hk Hfresh eq_refl eq_refl eq_refl eq_refl Hnf eq_refl) as Ca.
      fold (cyc_alloc K o m2). set (ma := cyc_alloc K o m2) in *.
      destruct (cyc_alloc_shape K m2 o xu Hx2) as (Hha & _).
      pose proof (get_alter_eq _ _ _ _ _ Hha Hx2) as Hxa. fold ma in Hxa.
      set (xa := cyc_obj (k_fin K && st_finalizing m2) xu) in *.
      set (mp := ma <| wparam ::= cons (WTo o) |>).
      assert (Hboxp : cyc_box mp o (c_nw (class_of P cls))).
      { exists xa. split; [exact Hxa|]. unfold xa, cyc_obj, xu, x0. cbn. auto 10. }
      assert (HIp : SInv K b E [] mp).
      { apply SInv_wparam_push; [apply Ca|]. intros o' [= <-]. unfold is_map. rewrite Hxa. reflexivity. }
      pose proof (Cur_init K b true E (Some o) E [] mp (NoBad_log ma mp eq_refl (cur_nb _ _ _ _ _ _ _ _ _ Ca)) HIp) as Cp.
      pose proof (Cur_tick K _ _ _ _ _ _ _ _ KClosure (Cur_emit K _ _ _ _ _ _ _ _ (ECb KClosure o (cur_flags K mp)) Cp eq_refl)) as Ct.
      fold mp.
      assert (Hht : heap (tick KClosure (emit (ECb KClosure o (cur_flags K mp)) mp)).1 = heap mp).
      { unfold tick. destruct (get_fuse KClosure _ =? 0); reflexivity. }
      destruct (tick KClosure (emit (ECb KClosure o (cur_flags K mp)) mp)) as [mt boom]. cbn [fst] in Ct, Hht.
      pose proof (cyc_box_heap _ _ _ _ Hht Hboxp) as Hboxt.
      destruct boom.
      - (* the fuse of the closure fires *)
        unfold raise. destruct (panicking mt); [triv_post|].
        apply (cyc_cleanup b E self _ m ma o Hk Ca Hfresh _ _ mt Ct (cyc_box_core _ _ _ Hboxt)).
      - pose proof (rec_post b E (KScript None (script_of P script)) mt eq_refl (cur_nb _ _ _ _ _ _ _ _ _ Ct) (cur_inv _ _ _ _ _ _ _ _ _ Ct) I) as HP.
        destruct (rec (KScript None (script_of P script)) mt) as [mq r'].  cbn [fst snd] in HP.
        assert (HFq : r' = ONormal \/ r' = OPanic -> Fr K E None mt mq).
        { rewrite Post_nc in HP by reflexivity. intros [-> | ->]; apply HP. }
        destruct r'; try triv_post.
        + destruct (Cur_call_n K PostC (KScript None (script_of P script)) _ _ _ _ _ _ _ _ _ eq_refl Ct HP (cnt_le_refl E) (or_introl eq_refl)) as [Cq _].
          pose proof (cyc_box_fr _ _ _ _ o _ (HFq (or_introl eq_refl)) ltac:(discriminate) Hboxt) as Hboxq.
          destruct (sw && bool_decide (0 < c_nw (class_of P cls))%nat) eqn:Hsw.
          * apply andb_true_iff in Hsw as [_ Hnwpos]. apply bool_decide_eq_true in Hnwpos.
            destruct (weak_clone (WTo o) mq) as [mw|] eqn:Hcl.
            -- (* a clone of the parameter is stored in the first Weak field *)
               assert (Hwq : wparam mq = WTo o :: wparam ma) by (rewrite (fr_wp _ _ _ _ _ (cur_fr _ _ _ _ _ _ _ _ _ Cq)); reflexivity).
               pose proof (Cur_weak_clone K _ _ _ _ _ _ _ mq mw (WTo o) Cq Hk Hcl) as Cw.
               assert (Hpos : forall o', WTo o = WTo o' -> (0 < wrefs mq o' + cnt_wr o' [])%nat).
               { intros o' [= <-]. rewrite wrefs_unfold, Hwq. cbn [map]. rewrite cnt_w_cons. cbn. rewrite Nat.eqb_refl. lia. }
               specialize (Cw Hpos).
               assert (Hboxw : cyc_box mw o (c_nw (class_of P cls))).
               { unfold weak_clone in Hcl. destruct (side_wk mq o) as [k|]; [destruct (inc_wk k) as [k'|]; [|discriminate]|]; injection Hcl as <-.
                 - destruct Hboxq as (x & Hx & Hq). eexists. split; [apply get_upd_eq, Hx|]. cbn. exact Hq.
                 - apply (cyc_box_heap mq); [reflexivity | exact Hboxq]. }
               destruct Hboxw as (xw & Hxw & Hbw & Hvw & Hmw & Hfw & Hcw & Hww).
               pose proof (Cur_write_wfield K _ _ _ _ _ _ [] mw o 0%nat (Some (WTo o)) xw Cw Hxw) as Cww.
               assert (Hrd : read_wloc (RWField o 0) mw = None).
               { cbn. rewrite Hxw. cbn. rewrite Hww, lookup_replicate_2 by exact Hnwpos. reflexivity. }
               rewrite Hrd in Cww. cbn [olw app] in Cww.
               specialize (Cww ltac:(rewrite Hww, replicate_length; exact Hnwpos) ltac:(left; congruence) (or_intror eq_refl)).
               specialize (Cww ltac:(intros o' [= <-]; unfold is_map; rewrite Hxw; exact Hmw)).
               apply (cyc_finish_tail b E self _ m ma o Hk Ca Hfresh b E r _ HI Hidx Hh Cww).
               exists (xw <| o_wfields ::= <[0%nat := Some (WTo o)]> |>). split; [apply get_upd_eq, Hxw|]. cbn. auto 10.
            -- unfold raise. destruct (panicking mq); [triv_post|].
               apply (cyc_cleanup b E self _ m ma o Hk Ca Hfresh _ _ mq Cq (cyc_box_core _ _ _ Hboxq)).
          * apply (cyc_finish_tail b E self _ m ma o Hk Ca Hfresh b E r _ HI Hidx Hh Cq (cyc_box_core _ _ _ Hboxq)).
        + destruct (Cur_call_p K PostC (KScript None (script_of P script)) _ _ _ _ _ _ _ _ _ eq_refl Ct HP (cnt_le_refl E) (or_introl eq_refl)) as [Cq _].
          pose proof (cyc_box_fr _ _ _ _ o _ (HFq (or_intror eq_refl)) ltac:(discriminate) Hboxt) as Hboxq.
          apply (cyc_cleanup b E self _ m ma o Hk Ca Hfresh _ _ mq Cq (cyc_box_core _ _ _ Hboxq)).
    Qed.
  End NewCyclic.
End Cyclic.

