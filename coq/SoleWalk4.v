(** * SoleWalk4: the commands preserve the frame for solely owned objects (part 2). *)
From Coq Require Import NArith Bool List Lia.
From stdpp Require Import base list option.
From RecordUpdate Require Import RecordSet.
From RC Require Import Hdr Machine RunInd.
From RC Require Import Inv InvP SafeHelpers.
From RC Require Import Clean CleanFrame CleanUFrame.
From RC Require Import SoleInv SolePrim SoleStep.
Import ListNotations RecordSetNotations.
Local Open Scope N_scope.

Section Walk.
  Context (K : conf) (P : prog) (U R : id -> Prop) (mu : id).
  Notation St := (St K U R mu).
  Notation SI := (SI K U R).
  Notation Args := (Args U R).
  Notation Keep := (Keep U R).
  Context (rec : call -> machine -> machine * outcome).
  Hypothesis Hrec : rec_ok (Pre2 K U R mu) (Post2 U R mu) rec.

  Lemma c_new self dst cls m : St m (Args (KCmd self (CNew dst cls))) m -> St m True (cmd_new K P rec self dst cls m).1.
  Proof.
    intros HS. unfold cmd_new. sadv. destruct o as [r|]; [|sfin].
    learn (~ U (length (heap m0)) /\ ~ R (length (heap m0))).
    { split; [eapply SI_notU_new | eapply SI_notR_new]; eauto; apply lookup_ge_None_2; lia. }
    sq_to ((new_node P cls m0).1). unfold new_node in *. cbn [fst snd] in *. cbv beta iota zeta.
    go ltac:(aargs; try contradiction).
  Qed.

  Lemma c_drop_value self v m :
    (forall o, mjoin (values m !! v) = Some o -> exists x, get m o = Some x /\ o_vst x <> VLive) ->
    St m (Args (KCmd self (CDropValue v))) m -> St m True (cmd_drop_value rec self v m).1.
  Proof.
    intros Hc HS. unfold cmd_drop_value. destruct (mjoin (values m !! v)) as [o|] eqn:E; [|sfin].
    destruct (Hc o eq_refl) as (x & Hx & Hv).
    learn (~ U o). { eapply SI_notU_vst; eauto. }
    go aargs.
  Qed.

  Lemma c_bag self l k m : St m (Args (KCmd self (CBag l k))) m -> St m True (cmd_bag self l k m).1.
  Proof.
    intros HS. unfold cmd_bag. sadv. sadv; [|sfin]. sadv; [|sfin].
    generalize (N.to_nat k). intros n.
    assert (Hgen : forall mm F, St m F mm -> (F -> ~ U i) -> St m True
      ((fix go (k0 : nat) (m1 : machine) {struct k0} : machine * outcome :=
         match k0 with
         | 0%nat => ok m1 ROk
         | S k' => match inc_rc (hdr_of m1 i) with
                   | Some h => go k' (remove_from_list i (uhdr i (fun _ : hdr => h) m1) <| bag ::= cons i |>)
                   | None => (m1, raise m1)
                   end
         end) n mm).1).
    { induction n as [|n IH]; intros mm F HSm HF.
      - clear HS0. sfin.
      - destruct (inc_rc (hdr_of mm i)) as [h|]; [|clear HS0; sfin].
        apply (IH _ F); [|exact HF].
        apply (St_q K U R mu m F mm _ HSm); [cvdead|]. intros HSI HFF. specialize (HF HFF).
        change (remove_from_list i (uhdr i (fun _ : hdr => h) mm) <| bag ::= cons i |>) with
          (remove_from_list i (uhdr i (fun _ : hdr => h) mm) <| bag := i :: bag (remove_from_list i (uhdr i (fun _ : hdr => h) mm)) |>).
        apply K_bag; [|kq].
        intros t Ht. apply elem_of_cons in Ht as [->|Ht]; [right; exact HF | left; exact Ht]. }
    apply (Hgen _ _ HS0). intros HF. conjs. auto.
  Qed.

  Lemma c_w_clone self src dst m : St m (Args (KCmd self (CWClone src dst))) m -> St m True (cmd_w_clone K self src dst m).1.
  Proof.
    intros HS. unfold cmd_w_clone. destruct (negb (k_weak K)); [sfin|].
    sadv. sadv. sadv; [|sfin]. sadv; [|sfin]. destruct o0 as [rd|]; [|sfin]. destruct (negb (wloc_writable rd)); [sfin|].
    destruct w as [|o']; go aargs.
  Qed.

  Lemma c_try_unwrap self l v m :
    (forall r o, (resolve self l m).2 = Some r -> read_loc r (resolve self l m).1 = Some o ->
                 exists x, get m o = Some x /\ o_vst x = VLive) ->
    St m (Args (KCmd self (CTryUnwrap l v))) m -> St m True (cmd_try_unwrap K self l v m).1.
  Proof.
    intros Hc HS. unfold cmd_try_unwrap.
    learn (forall r o, (resolve self l m).2 = Some r -> read_loc r (resolve self l m).1 = Some o -> ~ R o).
    { intros r o Hr Ho. destruct (Hc r o Hr Ho) as (x & Hx & Hv). eapply SI_notR_vst; eauto. congruence. }
    sadv. destruct o as [r|]; [|sfin]. destruct (values m0 !! v) as [[?|]|]; try sfin.
    sadv; [|sfin]. learn (~ U i /\ ~ R i). { split; eauto. }
    go aargs.
  Qed.
End Walk.
