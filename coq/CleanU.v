(** * CleanU: the cleaner discipline at the nested activations of safe runs, part 1.

    The invariant of Clean*.v is strengthened by what holds of cleaner maps when their values
    are dropped: [KDropValue o] / [KDropMapSlots o j] start with no Cleaner naming the map [o],
    the members of a collector drop list are named by no Cleaner.  Establishing this needs three
    facts of the count / no-dangling layer at the entry of nested activations ([chkU] in
    CleanUChk.v), which are available through [Life.mrun_ind]: an induction principle for the
    interpreter [Life.mrun] that appends a marker [mu] to the ghost [dead] when the check fails
    and whose post-condition must be vacuous on marked ("tainted") states.  Hence everything
    below is stated modulo taint: [TR v0 m] := [m] is tainted or [Rel v0 (cv m)].  With
    [v0 = None] ([RelO None _ := False]) the same lemmas say that taint persists. *)
From Coq Require Import NArith Bool List Lia.
From stdpp Require Import base list option.
From RecordUpdate Require Import RecordSet.
From RC Require Import Hdr Machine RunInd Inv.
From RC Require Import Clean CleanFrame CleanStep CleanStep2 CleanUFrame.
Import ListNotations RecordSetNotations.

Definition RelO (v0 : option cview) (v : cview) : Prop :=
  match v0 with Some u => Rel u v | None => False end.
Definition RelWO (v0 : option cview) (v : cview) : Prop :=
  match v0 with Some u => RelW u v | None => False end.

Lemma RelO_RelWO v0 v : RelO v0 v -> RelWO v0 v.
Proof. destruct v0; [apply Rel_RelW|auto]. Qed.
Lemma RelO_trans v0 v v' : RelO v0 v -> Rel v v' -> RelO v0 v'.
Proof. destruct v0; [apply Rel_trans|auto]. Qed.
Lemma RelWO_trans v0 v v' : RelO v0 v -> RelW v v' -> RelWO v0 v'.
Proof. destruct v0; cbn; [|auto]. intros H1 H2. eapply RelW_trans; [apply Rel_RelW|]; eassumption. Qed.
Lemma RelO_CIv v0 v : RelO v0 v -> CIv v.
Proof. destruct v0; [apply Rel_CIv|intros []]. Qed.

Definition unl (m : machine) (o : nat) : Prop := unlinked (cv_h (cv m)) o.
Definition exl (m : machine) (o : nat) : Prop := o < length (cv_h (cv m)).

Section U.
  Context (mu : id).

  (** tainted or related *)
  Notation TR v0 m := (mem_id mu (dead m) = true \/ RelO v0 (cv m)).
  Notation TRW v0 m := (mem_id mu (dead m) = true \/ RelWO v0 (cv m)).

  Definition tres (v0 : option cview) (x : machine * outcome) : Prop :=
    match x.2 with OFuel => TRW v0 x.1 | _ => TR v0 x.1 end.

  Lemma TR_TRW v0 m : TR v0 m -> TRW v0 m.
  Proof. intros [H|H]; [left; exact H|right; apply RelO_RelWO, H]. Qed.
  Lemma tres_intro v0 m r : TR v0 m -> tres v0 (m, r).
  Proof. intros H. unfold tres. cbn [fst snd]. destruct r; auto using TR_TRW. Qed.
  Lemma tres_fuel v0 m : TRW v0 m -> tres v0 (m, OFuel).
  Proof. auto. Qed.
  Lemma tres_raise v0 m m' : TR v0 m -> tres v0 (m, raise m').
  Proof. intros H. unfold raise. destruct (panicking m'); apply tres_intro, H. Qed.
  Lemma tres_TRW v0 x : tres v0 x -> TRW v0 x.1.
  Proof. unfold tres. destruct x.2; auto using TR_TRW. Qed.
  Lemma tres_None x : tres None x -> mem_id mu (dead x.1) = true.
  Proof. intros H. apply tres_TRW in H. destruct H as [H|[]]. exact H. Qed.
  Lemma tres_of_res v0 m x : RelO v0 (cv m) -> res (cv m) x -> tres v0 x.
  Proof.
    intros H. unfold res, tres. destruct x.2; intros H2; right;
      first [eapply RelO_trans; eassumption | eapply RelWO_trans; eassumption].
  Qed.

  Lemma tres_unwinding v0 (k : machine -> machine * outcome) m :
    (forall m1, TR v0 m1 -> tres v0 (k m1)) -> TR v0 m -> tres v0 (unwinding k m).
  Proof.
    intros Hk H. unfold unwinding.
    assert (H1 : TR v0 (m <| panicking := true |>)) by (cvs; exact H).
    specialize (Hk _ H1). destruct (k (m <| panicking := true |>)) as [m1 r1].
    unfold tres in *. cbn [fst snd] in *. cvs.
    destruct r1, (panicking m); auto using TR_TRW.
  Qed.

  Lemma TR_new v0 v b (d : list id) :
    (mem_id mu d = true \/ RelO v0 v) ->
    mem_id mu d = true \/ RelO v0 (CV (cv_h v ++ [VObj b [] [] None]) (cv_n v) (cv_x v)).
  Proof.
    intros [H|H]; [left; exact H|right]. eapply RelO_trans; [exact H|]. apply Rel_new', (RelO_CIv _ _ H).
  Qed.
  Lemma TR_app v0 v (l d : list id) :
    (mem_id mu d = true \/ RelO v0 v) -> mem_id mu (l ++ d) = true \/ RelO v0 v.
  Proof.
    intros [H|H]; [left|right; exact H]. unfold mem_id in *. rewrite existsb_app. apply orb_true_iff. right. exact H.
  Qed.
  Lemma tres_unwinding' v0 (k : machine -> machine * outcome) m :
    tres v0 (k (m <| panicking := true |>)) -> tres v0 (unwinding k m).
  Proof.
    intros Hk. unfold unwinding. destruct (k (m <| panicking := true |>)) as [m1 r1].
    unfold tres in *. cbn [fst snd] in *. cvs.
    destruct r1, (panicking m); auto using TR_TRW.
  Qed.
  Lemma TR_clear_cl v0 v o (d : list id) :
    (mem_id mu d = true \/ RelO v0 v) ->
    mem_id mu d = true \/ RelO v0 (CV (alter (set_cl None) o (cv_h v)) (cv_n v) (cv_x v)).
  Proof.
    intros [H|H]; [left; exact H|right]. eapply RelO_trans; [exact H|]. apply Rel_clear_cl', (RelO_CIv _ _ H).
  Qed.

  (** ** Pre- and post-conditions *)
  Definition xPre (c : call) (m : machine) : Prop :=
    match c with
    | KCleanRun mo aid s => not_stored aid (cv m) /\ aid ∉ cv_x (cv m) /\ aid < cv_n (cv m)
    | KDropValue o => is_mapv m o -> unl m o
    | KDropMapSlots o j => unl m o
    | KDropList L rest old_d => forall g, g ∈ rest -> exl m g /\ unl m g
    | KFinalizeList L rest any old_f => any = false -> forall g, g ∈ L -> exl m g /\ unl m g
    | _ => True
    end.
  Definition xPost (c : call) (m m' : machine) (r : outcome) : Prop :=
    match c with
    | KCleanRun mo aid s => r <> OFuel -> aid ∈ cv_x (cv m')
    | KDropMapSlots o j => normalish r -> DMS o j (cv m) (cv m')
    | KDropValue o =>
      normalish r -> forall x, get m o = Some x -> o_ismap x = true ->
                               (o_vst x = VLive \/ o_vst x = VMoved) -> DMS o 0 (cv m) (cv m')
    | _ => True
    end.
  Definition PreU (c : call) (m : machine) : Prop := CIv (cv m) /\ xPre c m.
  Definition PostU (c : call) (m m' : machine) (r : outcome) : Prop :=
    res (cv m) (m', r) /\ xPost c m m' r.
  Definition Pre2 (c : call) (m : machine) : Prop := mem_id mu (dead m) = true \/ PreU c m.
  Definition Post2 (c : call) (m m' : machine) (r : outcome) : Prop :=
    mem_id mu (dead m') = true \/ (mem_id mu (dead m) = false /\ PostU c m m' r).

  Lemma Post2_vac c m m' r : mem_id mu (dead m') = true -> Post2 c m m' r.
  Proof. intros H. left. exact H. Qed.
  Lemma Post2_fuel c m : Pre2 c m -> Post2 c m m OFuel.
  Proof.
    intros [H|[HI Hx]]; [left; exact H|]. destruct (mem_id mu (dead m)) eqn:Hg; [left; exact Hg|].
    right. split; [exact Hg|]. split; [apply res_fuel, Rel_RelW, Rel_refl, HI|].
    destruct c; try exact I.
    - intros [Hn|Hn]; discriminate.
    - intros [Hn|Hn]; discriminate.
    - intros Hn. contradiction.
  Qed.

  Section RecCall.
    Context (rec : call -> machine -> machine * outcome).
    Context (Hrec : rec_ok Pre2 Post2 rec).

    (** a call from a tracked position; the extra pre-condition is only needed at good positions *)
    Lemma rec_call c v0 m :
      TR v0 m -> (mem_id mu (dead m) = false -> RelO v0 (cv m) -> xPre c m) -> tres v0 (rec c m).
    Proof.
      intros H Hx. destruct (mem_id mu (dead m)) eqn:Hg.
      - pose proof (Hrec c m (or_introl Hg)) as HP. destruct (rec c m) as [m' r]. cbn [fst snd] in HP.
        destruct HP as [HP|[HP _]]; [|congruence]. unfold tres. cbn [fst snd]. destruct r; left; exact HP.
      - destruct H as [H|H]; [discriminate|].
        pose proof (Hrec c m (or_intror (conj (RelO_CIv _ _ H) (Hx eq_refl H)))) as HP.
        destruct (rec c m) as [m' r]. cbn [fst snd] in HP.
        destruct HP as [HP|(_ & HR & _)]; [unfold tres; cbn [fst snd]; destruct r; left; exact HP|].
        eapply tres_of_res; eassumption.
    Qed.

    (** the full post-condition of a call from a good position *)
    Lemma rec_good c m :
      mem_id mu (dead m) = false -> CIv (cv m) -> xPre c m ->
      mem_id mu (dead (rec c m).1) = true \/ PostU c m (rec c m).1 (rec c m).2.
    Proof.
      intros Hg HI Hx. destruct (Hrec c m (or_intror (conj HI Hx))) as [H|[_ H]]; auto.
    Qed.
  End RecCall.
End U.

Notation TR mu v0 m := (mem_id mu (dead m) = true \/ RelO v0 (cv m)).
Notation TRW mu v0 m := (mem_id mu (dead m) = true \/ RelWO v0 (cv m)).

(** ** Tactics (as in CleanStep.v, modulo taint) *)
Ltac relU :=
  cvs;
  first [ eassumption
        | (eapply TR_TRW; eassumption)
        | (eapply TR_new; eassumption)
        | (eapply TR_TRW; eapply TR_new; eassumption)
        | (eapply TR_app; eassumption)
        | (left; assumption) ].

(** the extra pre-condition of a call: none for the generic calls; at a tainted position
    ([v0 = None]) none at all *)
Ltac xpre :=
  first [ (intros _ _; exact I)
        | (let H := fresh in intros _ H; exact (match H with end)) ].

Ltac finU :=
  unfold ok;
  lazymatch goal with
  | |- tres _ _ (unwinding _ _) => apply tres_unwinding; [intros; finU | relU]
  | |- tres _ _ (_, OFuel) => first [apply tres_fuel; relU | apply tres_intro; relU]
  | |- tres _ _ (_, raise _) => apply tres_raise; relU
  | |- tres _ _ (_, _) => apply tres_intro; relU
  | |- tres _ _ (_ _ _) => eapply rec_call; [eassumption | relU | xpre]
  end.

Ltac res_pairU x :=
  let Hr := fresh "Hr" in let m1 := fresh "m" in let r1 := fresh "r" in
  match goal with |- tres ?mu ?v0 _ => assert (Hr : tres mu v0 x) by finU end;
  destruct x as [m1 r1]; destruct r1; unfold tres in Hr; cbn [fst snd] in Hr.

Ltac mach_pairU x :=
  let Hr := fresh "Hr" in let m1 := fresh "m" in let y1 := fresh "y" in
  match goal with |- tres ?mu ?v0 _ => assert (Hr : TR mu v0 x.1) by relU end;
  destruct x as [m1 y1]; cbn [fst snd] in Hr.

Ltac adv1U :=
  inner_scrut ltac:(fun x =>
    lazymatch type of x with
    | (machine * outcome)%type => res_pairU x
    | option machine =>
      lazymatch x with
      | weak_clone ?w ?m0 =>
        let E := fresh "E" in let m' := fresh "m" in
        destruct x as [m'|] eqn:E;
        [ match goal with |- tres ?mu ?v0 _ =>
            assert (TR mu v0 m') by (rewrite (cv_weak_clone _ _ _ E), (dd_weak_clone _ _ _ E); relU) end | ]
      end
    | (machine * _)%type => mach_pairU x
    | _ => destruct x eqn:?
    end); cbv beta iota zeta; cbn [negb andb orb].

Ltac goU := cbv beta iota zeta; cbn [negb andb orb]; repeat adv1U; finU.

Definition gen_okU (mu : id) (X : machine -> machine * outcome) : Prop :=
  forall v0 m, TR mu v0 m -> tres mu v0 (X m).

Section StepsU.
  Context (mu : id) (K : conf) (P : prog).
  Context (rec : call -> machine -> machine * outcome).
  Context (Hrec : rec_ok (Pre2 mu) (Post2 mu) rec).
  Implicit Types (m : machine).

  Lemma u_step_script self cs : gen_okU mu (step_script rec self cs).
  Proof. intros v0 m H. unfold step_script. goU. Qed.
  Lemma u_step_store r v : gen_okU mu (step_store rec r v).
  Proof. intros v0 m H. unfold step_store. goU. Qed.
  Lemma u_step_drop_fields o j : gen_okU mu (step_drop_fields rec o j).
  Proof.
    intros v0 m H. unfold step_drop_fields.
    destruct (get m o) as [x|] eqn:Ex; [|goU].
    destruct (decide (j < length (o_fields x))); [goU|].
    cbv beta iota zeta.
    destruct (o_cleaner x) as [t|] eqn:Ec; [|goU].
    match goal with |- tres _ _ (rec _ ?M) => set (m1 := M) end.
    assert (H1 : TR mu v0 m1).
    { unfold m1. rewrite (cv_upd_alter _ (set_cl None)) by (intros; reflexivity). cvs.
      apply TR_clear_cl. exact H. }
    clearbody m1. finU.
  Qed.
  Lemma u_step_unbag k : gen_okU mu (step_unbag rec k).
  Proof. intros v0 m H. unfold step_unbag. goU. Qed.
  Lemma u_step_trigger : gen_okU mu (step_trigger K rec).
  Proof. intros v0 m H. unfold step_trigger. goU. Qed.
  Lemma u_step_collect_cycles : gen_okU mu (step_collect_cycles K rec).
  Proof. intros v0 m H. unfold step_collect_cycles. goU. Qed.
  Lemma u_step_collect : gen_okU mu (step_collect K rec).
  Proof. intros v0 m H. unfold step_collect. goU. Qed.
  Lemma u_step_collect_loop k : gen_okU mu (step_collect_loop rec k).
  Proof. intros v0 m H. unfold step_collect_loop. goU. Qed.

  Lemma u_cmd_clone self src dst : gen_okU mu (cmd_clone rec self src dst).
  Proof. intros v0 m H. unfold cmd_clone. goU. Qed.
  Lemma u_cmd_drop self l : gen_okU mu (cmd_drop rec self l).
  Proof. intros v0 m H. unfold cmd_drop. goU. Qed.
  Lemma u_cmd_move self src dst : gen_okU mu (cmd_move rec self src dst).
  Proof. intros v0 m H. unfold cmd_move. goU. Qed.
  Lemma u_cmd_mark_alive self l : gen_okU mu (cmd_mark_alive self l).
  Proof. intros v0 m H. unfold cmd_mark_alive. goU. Qed.
  Lemma u_cmd_collect self : gen_okU mu (cmd_collect rec self).
  Proof. intros v0 m H. unfold cmd_collect. goU. Qed.
  Lemma u_cmd_downgrade self l w : gen_okU mu (cmd_downgrade K self l w).
  Proof. intros v0 m H. unfold cmd_downgrade. goU. Qed.
  Lemma u_cmd_upgrade self w dst : gen_okU mu (cmd_upgrade K rec self w dst).
  Proof. intros v0 m H. unfold cmd_upgrade. goU. Qed.
  Lemma u_cmd_w_new self w : gen_okU mu (cmd_w_new K self w).
  Proof. intros v0 m H. unfold cmd_w_new. goU. Qed.
  Lemma u_cmd_w_clone self src dst : gen_okU mu (cmd_w_clone K self src dst).
  Proof. intros v0 m H. unfold cmd_w_clone. goU. Qed.
  Lemma u_cmd_w_drop self w : gen_okU mu (cmd_w_drop K self w).
  Proof. intros v0 m H. unfold cmd_w_drop. goU. Qed.
  Lemma u_cmd_try_unwrap self l v : gen_okU mu (cmd_try_unwrap K self l v).
  Proof. intros v0 m H. unfold cmd_try_unwrap. goU. Qed.
  Lemma u_cmd_fin_again self l : gen_okU mu (cmd_fin_again K self l).
  Proof. intros v0 m H. unfold cmd_fin_again. goU. Qed.
  Lemma u_cmd_new_cyclic self dst cls script sw :
    gen_okU mu (cmd_new_cyclic K P rec self dst cls script sw).
  Proof. intros v0 m H. unfold cmd_new_cyclic. goU. Qed.
  Lemma u_cmd_c_drop self c : gen_okU mu (cmd_c_drop K self c).
  Proof. intros v0 m H. unfold cmd_c_drop. goU. Qed.
  Lemma u_cmd_unbag self k : gen_okU mu (cmd_unbag rec self k).
  Proof. intros v0 m H. unfold cmd_unbag. goU. Qed.
  Lemma u_cmd_borrow self nd : gen_okU mu (cmd_borrow self nd).
  Proof. intros v0 m H. unfold cmd_borrow. goU. Qed.
  Lemma u_cmd_unborrow self nd : gen_okU mu (cmd_unborrow self nd).
  Proof. intros v0 m H. unfold cmd_unborrow. goU. Qed.
  Lemma u_cmd_cfg_auto self b : gen_okU mu (cmd_cfg_auto K self b).
  Proof. intros v0 m H. unfold cmd_cfg_auto. goU. Qed.
  Lemma u_cmd_cfg_percent self n e : gen_okU mu (cmd_cfg_percent K self n e).
  Proof. intros v0 m H. unfold cmd_cfg_percent. goU. Qed.
  Lemma u_cmd_cfg_buffered self b : gen_okU mu (cmd_cfg_buffered K self b).
  Proof. intros v0 m H. unfold cmd_cfg_buffered. goU. Qed.
  Lemma u_cmd_arm self k v : gen_okU mu (cmd_arm self k v).
  Proof. intros v0 m H. unfold cmd_arm. goU. Qed.
  Lemma u_cmd_panic self : gen_okU mu (cmd_panic self).
  Proof. intros v0 m H. unfold cmd_panic. goU. Qed.
  Lemma u_cmd_obs self l : gen_okU mu (cmd_obs self l).
  Proof. intros v0 m H. unfold cmd_obs. goU. Qed.
  Lemma u_cmd_w_obs self w : gen_okU mu (cmd_w_obs K self w).
  Proof. intros v0 m H. unfold cmd_w_obs. goU. Qed.
  Lemma u_cmd_s_obs self : gen_okU mu (cmd_s_obs K self).
  Proof. intros v0 m H. unfold cmd_s_obs. goU. Qed.
  Lemma u_cmd_bag self l k : gen_okU mu (cmd_bag self l k).
  Proof.
    intros v0 m H. unfold cmd_bag. cbv beta iota zeta. adv1U.
    destruct (y ≫= λ r, read_loc r m0) as [o|]; [|goU].
    generalize (N.to_nat k). intros n. revert m0 Hr.
    induction n as [|n IH]; intros m0 Hr; [goU|].
    destruct (inc_rc (hdr_of m0 o)) as [h|]; [|goU].
    apply IH. relU.
  Qed.
End StepsU.
