(** * PassMain: the pass theorems (fuel, marks, closedness = C01 core, no bad event, unwinding). *)
From Coq Require Import NArith Bool List Lia.
From stdpp Require Import base list option numbers list_numbers.
From RecordUpdate Require Import RecordSet.
From RC Require Import Hdr Machine Pass PassCount PassRoots.
Import ListNotations RecordSetNotations.

Section Main.
  Context (K : conf) (P : prog).

  Notation mk m v := (h_mark (hdr_of m v)).
  Notation tc m v := (h_tc (hdr_of m v)).
  Notation rc m v := (h_rc (hdr_of m v)).

  (** [PassPre] only looks at the heap and the buffer (e.g. it is insensitive to the collector
      flags that [step_collect_once] clears before calling [trace_pass]). *)
  Lemma reach_heap m m' o :
    heap m' = heap m → pc m' = pc m → reach P m o → reach P m' o.
  Proof.
    intros Hh Hp. induction 1 as [o Ho|p c _ IH Hc].
    - apply reach_pc. by rewrite Hp.
    - apply (reach_kid _ _ p); [done|]. unfold kids, traced_children, get in *. rewrite Hh.
      destruct (heap m !! p) as [x|]; [|done]. destruct (o_ismap x); [done|].
      destruct (o_vst x); try done. by destruct (o_borrowed x).
  Qed.
  Lemma PassPre_heap m m' ext :
    heap m' = heap m → pc m' = pc m → pc_size m' = pc_size m →
    PassPre P m ext → PassPre P m' ext.
  Proof.
    intros Hh Hp Hs [H1 H2 H3 H4 H5 H6 H7 H8 H9].
    assert (Hhd : ∀ v, hdr_of m' v = hdr_of m v) by (intros; by apply hdr_of_heap).
    assert (Hal : ∀ v, alloc m' v ↔ alloc m v) by (intros; unfold alloc, get; by rewrite Hh).
    assert (Hlm : ∀ v, live_or_map m' v ↔ live_or_map m v)
      by (intros; unfold live_or_map, get; by rewrite Hh).
    assert (Hre : ∀ v, reach P m' v → reach P m v) by (intros v; by apply reach_heap).
    split; rewrite ?Hp, ?Hs; try done.
    - intros o Ho. rewrite Hhd. by apply H2.
    - intros o Ho. rewrite Hhd. by apply H3, Hal.
    - intros o Ho. rewrite Hhd. intros ?. by apply H4; [apply Hal|].
    - intros o Ho. rewrite Hhd. by apply H6.
    - intros o Ho. rewrite Hhd. unfold in_fields. rewrite Hh. by apply H7, Hal.
    - intros o Ho. rewrite Hhd. by apply H8, Hre.
    - intros o Ho. rewrite Hhd, Hal, Hlm. by apply H9, Hre.
  Qed.

  (** Every run of the pass from a good state either unwinds into a clean state or completes
      both phases with their invariants. *)
  Lemma pass_cases m ext :
    PassPre P m ext →
    (∃ m', trace_pass K P m = (m', PPanicked) ∧ PanicPost K P m m') ∨
    (∃ s1 s', CInv K P m [] [] s1 ∧ pc (t_m s1) = [] ∧ t_q s1 = [] ∧
              RInv K P m s1 [] s' ∧ t_root s' = [] ∧ t_q s' = [] ∧
              trace_pass K P m = (t_m s', PDone (t_non s'))).
  Proof.
    intros Hpre. unfold trace_pass.
    destruct (counting_inv K P m ext Hpre (pass_fuel m) (TState m [] [] []))
      as (s1 & b & Hc & Hres).
    { by apply CInv_init with ext. }
    { unfold pass_fuel, proc. cbn. lia. }
    rewrite Hc. destruct b.
    - left. eauto.
    - destruct Hres as (HC & Hpc & Hq).
      pose proof (lists_bound K P m ext Hpre s1 HC Hpc Hq) as Hlb.
      destruct (roots_inv K P m ext Hpre s1 HC Hpc Hq (pass_fuel m) s1) as (s' & b & Hr & Hres).
      { by apply RInv_init. }
      { unfold pass_fuel. lia. }
      rewrite Hr. destruct b.
      + left. eauto.
      + right. destruct Hres as (HR & Hr' & Hq'). exists s1, s'. done.
  Qed.

  (** 1. the fuel [2*|heap|+2] suffices *)
  Theorem pass_fuel_ok m ext : PassPre P m ext → (trace_pass K P m).2 ≠ PFuel.
  Proof.
    intros Hpre. destruct (pass_cases m ext Hpre) as [(m' & -> & _)|(s1 & s' & H)]; [done|].
    destruct H as (_&_&_&_&_&_& ->). done.
  Qed.

  (** 5. the pass emits no bad event *)
  Theorem pass_no_bad m ext m' r :
    PassPre P m ext → trace_pass K P m = (m', r) →
    ∀ b o, EBad b o ∈ log m' → EBad b o ∈ log m.
  Proof.
    intros Hpre Hr. destruct (pass_cases m ext Hpre) as [(m1 & Hp & Hpp)|(s1 & s' & H)].
    - rewrite Hp in Hr. injection Hr as <- <-. apply Hpp.
    - destruct H as (_&_&_&HR&_&_& Hp). rewrite Hp in Hr. injection Hr as <- <-.
      apply (ri_nobad _ _ _ _ _ _ HR).
  Qed.

  (** 6. an unwound pass restores the buffer invariants (including [tc = 0], the F1 fix) *)
  Theorem pass_panicked m ext m' :
    PassPre P m ext → trace_pass K P m = (m', PPanicked) →
    (∀ o, alloc m' o → mk m' o = NM ∨ mk m' o = PC) ∧
    pc m' `suffix_of` pc m ∧ NoDup (pc m') ∧
    (∀ o, alloc m' o → mk m' o = PC ↔ o ∈ pc m') ∧
    pc_size m' = N.of_nat (length (pc m')) ∧
    (∀ o, o ∈ pc m' → tc m' o = 0%N) ∧
    (∀ o, rc m' o = rc m o).
  Proof.
    intros Hpre Hr. destruct (pass_cases m ext Hpre) as [(m1 & Hp & Hpp)|(s1 & s' & H)].
    - rewrite Hp in Hr. injection Hr as <-.
      destruct Hpp as (Hfr & _ & Hsuf & Hsz & Hmk & Htc & _).
      split; [|split; [|split; [|split; [|split; [|split]]]]]; try done.
      + intros o Ho. apply Hmk. by apply (mframe_alloc K _ _ o Hfr).
      + destruct Hsuf as [k Hk]. pose proof (pp_nodup _ _ _ Hpre) as Hnd. rewrite Hk in Hnd.
        by apply NoDup_app in Hnd as (_ & _ & ?).
      + intros o Ho. apply Hmk. by apply (mframe_alloc K _ _ o Hfr).
      + intros o. by apply mframe_rc with K.
    - destruct H as (_&_&_&_&_&_& Hp). rewrite Hp in Hr. done.
  Qed.

  (** 3. the state after a completed pass *)
  Theorem pass_done_marks m ext m' L :
    PassPre P m ext → trace_pass K P m = (m', PDone L) →
    NoDup L ∧ pc m' = [] ∧ pc_size m' = 0%N ∧
    (∀ o, alloc m' o → (mk m' o = IL ↔ o ∈ L) ∧ (o ∉ L → mk m' o = NM)) ∧
    (∀ o, o ∈ L → alloc m' o ∧ live_or_map m' o ∧ rc m' o = tc m' o).
  Proof.
    intros Hpre Hr. destruct (pass_cases m ext Hpre) as [(m1 & Hp & Hpp)|(s1 & s' & H)].
    { rewrite Hp in Hr. done. }
    destruct H as (HC & Hpc1 & Hq1 & HR & Hr' & Hq' & Hp). rewrite Hp in Hr.
    injection Hr as <- <-.
    pose proof HR as [Hfr Hnb Hpc Hsz Hh Hnd Hrs Hns Hil Hiq Hnp Hb Hcl Hresc Hunt].
    unfold lists in Hnd. rewrite Hr', Hq', (right_id_L [] (++)) in Hnd. cbn [app] in Hnd.
    split; [done|]. split; [done|]. split; [done|]. split.
    - intros o Ho. apply (mframe_alloc K _ _ o Hfr) in Ho.
      pose proof (Hil o Ho) as Hil'. rewrite Hr' in Hil'. cbn [app] in Hil'.
      split; [done|]. intros Hn.
      destruct (mk (t_m s') o) eqn:Hmk; [done| | |].
      + by apply Hnp in Hmk.
      + exfalso. apply Hn. by apply Hil'.
      + apply (Hiq o Ho) in Hmk. rewrite Hq' in Hmk. by apply elem_of_nil in Hmk.
    - intros o Ho.
      assert (Hn1 : o ∈ t_non s1) by (apply Hns, elem_of_app; by left).
      assert (HV : o ∈ V s1) by (unfold V, proc; apply elem_of_app; by right).
      pose proof (V_reach K P m s1 HC Hpc1 Hq1 o HV) as Hre.
      destruct (pp_reach _ _ _ Hpre o Hre) as (Hal & Hlm & _).
      split; [by apply (mframe_alloc K _ _ o Hfr)|].
      split; [by apply (mframe_live_or_map K _ _ o Hfr)|].
      rewrite (Hh o). cbn. by apply (ci_non _ _ _ _ _ _ HC).
  Qed.

  (** 4. THE theorem: the list handed to the finalize/drop phases is closed.  A member of [L]
      has no handle outside the heap, and every handle to it stored anywhere in the heap is a
      traced field of a live, unborrowed (non-map) member of [L]; in particular no untraced
      field and no cleaner handle points to it. *)
  Theorem pass_closed m ext m' L :
    PassPre P m ext → trace_pass K P m = (m', PDone L) →
    ∀ o, o ∈ L →
      ext o = 0%N ∧
      (∀ p x j, get m p = Some x → o_fields x !! j = Some (Some o) →
         p ∈ L ∧ c_traced (class_of P (o_cls x)) !! j = Some true ∧
         o_ismap x = false ∧ o_borrowed x = false ∧ o_vst x = VLive) ∧
      (∀ p x, get m p = Some x → o_cleaner x = Some o → False).
  Proof.
    intros Hpre Hr o Ho. destruct (pass_cases m ext Hpre) as [(m1 & Hp & Hpp)|(s1 & s' & H)].
    { rewrite Hp in Hr. done. }
    destruct H as (HC & Hpc1 & Hq1 & HR & Hr' & Hq' & Hp). rewrite Hp in Hr.
    injection Hr as <- <-.
    pose proof HR as [Hfr Hnb Hpc Hsz Hh Hnd Hrs Hns Hil Hiq Hnp Hb Hcl Hresc Hunt].
    assert (Hlists : ∀ v, v ∈ lists s' ↔ v ∈ t_non s').
    { intros v. unfold lists. by rewrite Hr', Hq', (right_id_L [] (++)). }
    assert (Hn1 : o ∈ t_non s1) by (apply Hns, elem_of_app; by left).
    assert (HV : o ∈ V s1) by (unfold V, proc; apply elem_of_app; by right).
    pose proof (V_nodup K P m s1 HC Hpc1 Hq1) as HVnd.
    assert (HVlt : ∀ p, p ∈ V s1 → (p < length (heap m))%nat).
    { intros p Hp'. by apply alloc_lt, (V_alloc K P m ext Hpre s1 HC Hpc1 Hq1). }
    pose proof (V_alloc K P m ext Hpre s1 HC Hpc1 Hq1 o HV) as Hal.
    pose proof (pp_count _ _ _ Hpre o Hal) as Hcount.
    pose proof (cnt_le_in_fields P m (V s1) o HVnd HVlt) as Hle.
    pose proof (V_tc K P m s1 HC Hpc1 Hq1 o HV) as Htc.
    pose proof (ci_non _ _ _ _ _ _ HC o Hn1) as Hrt.
    pose proof (mframe_rc K _ _ o (ci_frame _ _ _ _ _ _ HC)) as Hrc.
    assert (Heq : cnt P m (V s1) o = in_fields m o) by lia.
    destruct (cnt_eq_in_fields P m (V s1) o HVnd HVlt Heq) as [Hin Hout].
    assert (Hsrc : ∀ p x, get m p = Some x → (0 < handles_of x o)%nat →
              p ∈ V s1 ∧ occ (kids P m p) o = hnd m p o).
    { intros p x Hx Hpos. destruct (decide (p ∈ V s1)) as [HpV|HpV]; [by auto|]. exfalso.
      specialize (Hout p HpV). unfold hnd in Hout. rewrite Hx in Hout. lia. }
    split; [lia|]. split.
    - intros p x j Hx Hj.
      destruct (Hsrc p x Hx) as [HpV Hocc].
      { unfold handles_of. pose proof (occ_opt_pos _ _ _ Hj). lia. }
      destruct (kids_eq_hnd P m p o x Hx Hocc) as [_ Hf]. split; [|by apply Hf].
      destruct (decide (p ∈ t_non s')) as [|Hn]; [done|]. exfalso.
      apply (Hcl p o HpV); [by rewrite Hlists|apply not_elem_of_nil| |done].
      apply occ_pos. rewrite Hocc. unfold hnd. rewrite Hx. unfold handles_of.
      pose proof (occ_opt_pos _ _ _ Hj). lia.
    - intros p x Hx Hc.
      destruct (Hsrc p x Hx) as [HpV Hocc].
      { unfold handles_of. rewrite decide_True by done. lia. }
      by destruct (kids_eq_hnd P m p o x Hx Hocc) as [? _].
  Qed.

  (** 7. completeness (for C02): with the count hypothesis as an EQUALITY, a visited object is
      in [L] as soon as it and everything visited that reaches it through reported edges is
      [unpinned]: no handle outside the heap, every stored handle is a traced field of a
      visited, live, unborrowed, non-map object, no cleaner handle. *)
  Definition unpinned (m : machine) (ext : id → N) (v : id) : Prop :=
    ext v = 0%N ∧
    (∀ p x j, get m p = Some x → o_fields x !! j = Some (Some v) →
       reach P m p ∧ c_traced (class_of P (o_cls x)) !! j = Some true ∧
       o_ismap x = false ∧ o_borrowed x = false ∧ o_vst x = VLive) ∧
    (∀ p x, get m p = Some x → o_cleaner x ≠ Some v).

  Theorem pass_complete m ext m' L :
    PassPre P m ext →
    (∀ o, alloc m o → rc m o = (N.of_nat (in_fields m o) + ext o)%N) →
    trace_pass K P m = (m', PDone L) →
    ∀ v, reach P m v →
         (∀ u, reach P m u → treach P m u v → unpinned m ext u) →
         v ∈ L.
  Proof.
    intros Hpre Heqc Hr v Hv Hup. destruct (pass_cases m ext Hpre) as [(m1 & Hp & Hpp)|(s1 & s' & H)].
    { rewrite Hp in Hr. done. }
    destruct H as (HC & Hpc1 & Hq1 & HR & Hr' & Hq' & Hp). rewrite Hp in Hr.
    injection Hr as <- <-.
    pose proof HR as [Hfr Hnb Hpc Hsz Hh Hnd Hrs Hns Hil Hiq Hnp Hb Hcl Hresc Hunt].
    pose proof (V_nodup K P m s1 HC Hpc1 Hq1) as HVnd.
    assert (HVlt : ∀ p, p ∈ V s1 → (p < length (heap m))%nat).
    { intros p Hp'. by apply alloc_lt, (V_alloc K P m ext Hpre s1 HC Hpc1 Hq1). }
    (* every reachable object has been visited *)
    assert (HreachV : ∀ o, reach P m o → o ∈ V s1).
    { induction 1 as [o Ho|p c _ IH Hc].
      - destruct (decide (o ∈ V s1)) as [|Hn]; [done|]. exfalso.
        rewrite <- (V_tracked s1 Hpc1 Hq1) in Hn.
        destruct (ci_un _ _ _ _ _ _ HC o Hn) as [_ Hsame].
        assert (Hal : alloc m o) by (by apply (pp_reach _ _ _ Hpre), reach_pc).
        assert (Hmk : mk (t_m s1) o = PC) by (rewrite Hsame; by apply (pp_pc_mark _ _ _ Hpre)).
        apply (ci_pc _ _ _ _ _ _ HC o Hal) in Hmk. rewrite Hpc1 in Hmk. by apply elem_of_nil in Hmk.
      - by eapply (V_closed K P m s1 HC Hpc1 Hq1). }
    (* an unpinned visited object has rc = tc after the counting phase *)
    assert (Hgood : ∀ u, u ∈ V s1 → unpinned m ext u → u ∈ t_non s1).
    { intros u HuV (Hext & Hflds & Hcln).
      pose proof (V_alloc K P m ext Hpre s1 HC Hpc1 Hq1 u HuV) as Hal.
      assert (Hcnt : cnt P m (V s1) u = in_fields m u).
      { apply cnt_all_in_fields; [done|done| |].
        - intros p HpV. destruct (alloc_get _ _ (V_alloc K P m ext Hpre s1 HC Hpc1 Hq1 p HpV))
            as [x Hx]. apply (kids_all_hnd P m p u x Hx); [by eapply Hcln|].
          intros j Hj. by apply (Hflds p x j Hx Hj).
        - intros p HpV. unfold hnd. destruct (get m p) as [x|] eqn:Hx; [|done].
          unfold handles_of. rewrite decide_False by (by eapply Hcln).
          rewrite occ_opt_zero; [done|]. intros j Hj. apply HpV, HreachV.
          by apply (Hflds p x j Hx Hj). }
      pose proof (V_tc K P m s1 HC Hpc1 Hq1 u HuV) as Htc.
      pose proof (mframe_rc K _ _ u (ci_frame _ _ _ _ _ _ HC)) as Hrc.
      pose proof (Heqc u Hal) as Hrcu.
      unfold V, proc in HuV. apply elem_of_app in HuV as [Hroot|?]; [|done]. exfalso.
      apply (ci_root _ _ _ _ _ _ HC) in Hroot. apply Hroot. lia. }
    assert (Hv1 : v ∈ t_non s1).
    { apply Hgood; [by apply HreachV|]. apply Hup; [done|apply treach_refl]. }
    destruct (decide (v ∈ t_non s')) as [|Hn]; [done|]. exfalso.
    destruct (Hresc v Hv1 Hn) as (u & Hu & Ht).
    assert (HuV : u ∈ V s1) by (unfold V, proc; apply elem_of_app; by left).
    pose proof (V_reach K P m s1 HC Hpc1 Hq1 u HuV) as Hur.
    pose proof (Hgood u HuV (Hup u Hur Ht)) as Hun.
    apply (ci_root _ _ _ _ _ _ HC) in Hu. apply (ci_non _ _ _ _ _ _ HC) in Hun. done.
  Qed.

  (** 8. (for the safety invariants) every header is either untouched by the pass, or belongs
      to an object reachable from the buffer and ends with [tc <= rc]; whatever the result.
      In particular the "value already dropped" flag of no object changes. *)
  Theorem pass_hdr_bound m ext m' r :
    PassPre P m ext → trace_pass K P m = (m', r) →
    ∀ o, hdr_of m' o = hdr_of m o ∨ (reach P m o ∧ (tc m' o ≤ rc m o)%N).
  Proof.
    intros Hpre Hr. destruct (pass_cases m ext Hpre) as [(m1 & Hp & Hpp)|(s1 & s' & H)].
    - rewrite Hp in Hr. injection Hr as <- <-. apply Hpp.
    - destruct H as (HC & Hpc1 & Hq1 & HR & Hr' & Hq' & Hp). rewrite Hp in Hr.
      injection Hr as <- <-. intros o.
      destruct (decide (o ∈ V s1)) as [Ho|Ho].
      + right. split; [by apply (V_reach K P m s1 HC Hpc1 Hq1)|].
        rewrite (ri_hdr _ _ _ _ _ _ HR o). cbn [h_tc set_mark].
        apply (CInv_tc_le K P m ext Hpre [] s1 o HC). by rewrite (V_tracked s1 Hpc1 Hq1).
      + left. rewrite (ri_out _ _ _ _ _ _ HR o Ho).
        apply (ci_un _ _ _ _ _ _ HC). by rewrite (V_tracked s1 Hpc1 Hq1).
  Qed.

  Theorem pass_dropped_stable m ext m' r :
    PassPre P m ext → trace_pass K P m = (m', r) →
    ∀ o, is_dropped (hdr_of m' o) = is_dropped (hdr_of m o).
  Proof.
    intros Hpre Hr o. destruct (pass_hdr_bound m ext m' r Hpre Hr o) as [->|[Hre Hle]]; [done|].
    pose proof (pp_rcmax _ _ _ Hpre o Hre) as Hmax.
    destruct (pp_reach _ _ _ Hpre o Hre) as (_ & _ & Hnd).
    unfold is_dropped, tc_dropped, max_rc in *.
    destruct (N.eqb_spec (tc m' o) 16383) as [?|_]; [lia|].
    by destruct (N.eqb_spec (tc m o) 16383).
  Qed.

  (** 2. spelled-out consequences of [pass_frame] (Pass.v) *)
  Corollary pass_frame_full m m' r :
    trace_pass K P m = (m', r) →
    length (heap m') = length (heap m) ∧
    (∀ o, option_Forall2 obj_sim (get m o) (get m' o)) ∧
    (∀ o x, get m o = Some x → ∃ x', get m' o = Some x' ∧
        h_rc (o_hdr x') = h_rc (o_hdr x) ∧ h_fin (o_hdr x') = h_fin (o_hdr x) ∧
        h_side (o_hdr x') = h_side (o_hdr x) ∧ o_vst x' = o_vst x ∧ o_box x' = o_box x ∧
        o_side x' = o_side x ∧ o_cls x' = o_cls x ∧ o_ismap x' = o_ismap x ∧
        o_fields x' = o_fields x ∧ o_wfields x' = o_wfields x ∧ o_cleaner x' = o_cleaner x ∧
        o_borrowed x' = o_borrowed x ∧ o_mslots x' = o_mslots x ∧ o_mfree x' = o_mfree x ∧
        o_mborrowed x' = o_mborrowed x) ∧
    (∃ l, log m' = l ++ log m ∧
          Forall (λ e, (∃ o, e = ECb KTrace o (cur_flags K m)) ∨ (∃ b o, e = EBad b o)) l) ∧
    (fuse_trace m' ≤ fuse_trace m)%N ∧
    pc_alive m' = pc_alive m ∧ st_collecting m' = st_collecting m ∧
    st_finalizing m' = st_finalizing m ∧ st_dropping m' = st_dropping m ∧
    st_alloc m' = st_alloc m ∧ st_exec m' = st_exec m ∧ cf_thr m' = cf_thr m ∧
    cf_pnum m' = cf_pnum m ∧ cf_pexp m' = cf_pexp m ∧ cf_buf m' = cf_buf m ∧
    cf_auto m' = cf_auto m ∧ slots m' = slots m ∧ wslots m' = wslots m ∧
    cslots m' = cslots m ∧ values m' = values m ∧ bag m' = bag m ∧ wparam m' = wparam m ∧
    fuse_fin m' = fuse_fin m ∧ fuse_drop m' = fuse_drop m ∧ fuse_action m' = fuse_action m ∧
    fuse_closure m' = fuse_closure m ∧ panicking m' = panicking m ∧ next_aid m' = next_aid m ∧
    dead m' = dead m.
  Proof.
    intros Hr. pose proof (pass_frame K P m m' r Hr) as Hf.
    split; [by apply mframe_length with K|]. split; [intros o; by apply mframe_get with K|].
    split.
    { intros o x Hx. destruct (mframe_get_l K _ _ _ _ Hf Hx) as (y & Hy & Hs).
      exists y. split; [done|]. apply obj_sim_fields in Hs.
      destruct Hs as ((?&?&?)&?&?&?&?&?&?&?&?&?&?&?&?). repeat split; done. }
    split; [apply Hf|]. split; [apply Hf|]. apply mrest_proj, Hf.
  Qed.
End Main.

Print Assumptions pass_frame.
Print Assumptions pass_frame_full.
Print Assumptions pass_fuel_ok.
Print Assumptions pass_done_marks.
Print Assumptions pass_closed.
Print Assumptions pass_no_bad.
Print Assumptions pass_panicked.
Print Assumptions pass_complete.
Print Assumptions pass_hdr_bound.
Print Assumptions pass_dropped_stable.
