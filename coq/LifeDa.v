(** * LifeDa: promptness of deallocation (definitions, quiet helpers).

    [isDA x]: the value of [x] has been dropped but its box is still allocated.  In an execution
    where every sub-activation returns normally no activation leaves a new such object behind
    (except the value destructor itself, whose caller frees the box): [NdX].  [isFresh x]: a
    value that never got a box and was not dropped yet, or a value under construction; such
    objects are only touched by the activation that created them ([FrF]).

    "Quiet" for this layer ([QuietD]): the value and box states of all objects are unchanged
    (headers, fields, events do not matter). *)
From Coq Require Import NArith Bool List Lia.
From stdpp Require Import base list option.
From RecordUpdate Require Import RecordSet.
From RC Require Import Hdr Machine RunInd Flags.
From RC Require Import Inv InvP LifeInv.
Import ListNotations RecordSetNotations.
Local Open Scope N_scope.

Definition vb (x : obj) : vstate * bstate := (o_vst x, o_box x).
Definition isDA (x : obj) : Prop := o_vst x = VDropped /\ o_box x = BAlloc.
Definition isFresh (x : obj) : Prop := (o_vst x = VLive /\ o_box x = BNotYet) \/ o_vst x = VUninit.

Lemma isDA_vb x x' : vb x' = vb x -> isDA x' -> isDA x.
Proof. unfold vb, isDA. intros [= -> ->]. auto. Qed.
Lemma isFresh_vb x x' : vb x' = vb x -> isFresh x -> isFresh x'.
Proof. unfold vb, isFresh. intros [= -> ->]. auto. Qed.

Section Da.
  Context (mu : id).
  Notation G := (G mu).

  Definition NDA (ex : option id) (m m' : machine) : Prop :=
    forall o x', get m' o = Some x' -> isDA x' -> ex = Some o \/ exists x, get m o = Some x /\ isDA x.
  Definition FrF (ex : option id) (n0 : nat) (m m' : machine) : Prop :=
    forall o x, (o < n0)%nat -> ex <> Some o -> get m o = Some x -> isFresh x ->
      exists x', get m' o = Some x' /\ isFresh x'.
  Definition NdX (ex : option id) (n0 : nat) (m m' : machine) : Prop :=
    (G m' -> G m) /\ (G m' -> NDA ex m m' /\ FrF ex n0 m m').

  Lemma NdX_refl ex n0 m : NdX ex n0 m m.
  Proof.
    split; [auto|]. intros _. split.
    - intros o x' Hx Hd. right. eauto.
    - intros o x _ _ Hx Hf. eauto.
  Qed.
  Lemma NdX_trans ex n0 m1 m2 m3 : NdX ex n0 m1 m2 -> NdX ex n0 m2 m3 -> NdX ex n0 m1 m3.
  Proof.
    intros (A1 & A2) (B1 & B2). split; [auto|]. intros HG. destruct (B2 HG) as [BN BF]. destruct (A2 (B1 HG)) as [AN AF].
    split.
    - intros o x3 Hx3 Hd. destruct (BN o x3 Hx3 Hd) as [He|(x2 & Hx2 & Hd2)]; [auto|]. exact (AN o x2 Hx2 Hd2).
    - intros o x1 Ho He Hx1 Hf. destruct (AF o x1 Ho He Hx1 Hf) as (x2 & Hx2 & Hf2). exact (BF o x2 Ho He Hx2 Hf2).
  Qed.
  Lemma NdX_weaken ex n0 m m' : NdX None n0 m m' -> NdX ex n0 m m'.
  Proof.
    intros (A & B). split; [exact A|]. intros HG. destruct (B HG) as [BN BF]. split.
    - intros o x' Hx Hd. destruct (BN o x' Hx Hd) as [He|H]; [discriminate | auto].
    - intros o x Ho _ Hx Hf. apply (BF o x Ho); [discriminate | exact Hx | exact Hf].
  Qed.
  (** composing with the post-condition of a sub-activation (whose own bound is the heap length
      at its entry) *)
  Lemma NdX_step ex n0 m0 mi m' : NdX None n0 m0 mi -> NdX ex (length (heap mi)) mi m' -> NdX ex n0 m0 m'.
  Proof.
    intros (A1 & A2) (B1 & B2). split; [auto|]. intros HG. destruct (B2 HG) as [BN BF]. destruct (A2 (B1 HG)) as [AN AF].
    split.
    - intros o x3 Hx3 Hd. destruct (BN o x3 Hx3 Hd) as [He|(x2 & Hx2 & Hd2)]; [auto|].
      destruct (AN o x2 Hx2 Hd2) as [He|H]; [discriminate | auto].
    - intros o x1 Ho He Hx1 Hf. destruct (AF o x1 Ho ltac:(discriminate) Hx1 Hf) as (x2 & Hx2 & Hf2).
      exact (BF o x2 (lookup_lt_Some _ _ _ Hx2) He Hx2 Hf2).
  Qed.
  Lemma NdX_step' ex n0 m0 mi m' : NdX ex n0 m0 mi -> NdX None (length (heap mi)) mi m' -> NdX ex n0 m0 m'.
  Proof.
    intros (A1 & A2) (B1 & B2). split; [auto|]. intros HG. destruct (B2 HG) as [BN BF]. destruct (A2 (B1 HG)) as [AN AF].
    split.
    - intros o x3 Hx3 Hd. destruct (BN o x3 Hx3 Hd) as [He|(x2 & Hx2 & Hd2)]; [discriminate|]. exact (AN o x2 Hx2 Hd2).
    - intros o x1 Ho He Hx1 Hf. destruct (AF o x1 Ho He Hx1 Hf) as (x2 & Hx2 & Hf2).
      exact (BF o x2 (lookup_lt_Some _ _ _ Hx2) ltac:(discriminate) Hx2 Hf2).
  Qed.
  (** any update of the exempted object *)
  Lemma NdX_upd_ex o n0 f m : NdX (Some o) n0 m (upd o f m).
  Proof.
    split; [auto|]. intros _. split.
    - intros o' x' Hx' Hd. destruct (decide (o' = o)) as [->|Hne]; [left; reflexivity|]. right.
      unfold get, upd in Hx'. cbn in Hx'. rewrite list_lookup_alter_ne in Hx' by (intros E; apply Hne; symmetry; exact E). eauto.
    - intros o' x Ho He Hx Hf. exists x. split; [|exact Hf]. unfold get, upd. cbn.
      rewrite list_lookup_alter_ne by (intros E; apply He; rewrite E; reflexivity). exact Hx.
  Qed.
  (** closing the exemption *)
  Lemma NdX_close o n0 m m' : NdX (Some o) n0 m m' ->
    (G m' -> forall x', get m' o = Some x' -> ~ isDA x') ->
    (G m' -> (n0 <= o)%nat \/ forall x, get m o = Some x -> ~ isFresh x) ->
    NdX None n0 m m'.
  Proof.
    intros (A & B) Hd Hf. split; [exact A|]. intros HG. destruct (B HG) as [BN BF]. split.
    - intros o' x' Hx' Hda. destruct (BN o' x' Hx' Hda) as [He|H]; [|auto]. injection He as <-. destruct (Hd HG x' Hx' Hda).
    - intros o' x Ho _ Hx Hfr. destruct (decide (o' = o)) as [->|Hne].
      + destruct (Hf HG) as [Hge|Hnf]; [lia | destruct (Hnf x Hx Hfr)].
      + apply (BF o' x Ho); [congruence | exact Hx | exact Hfr].
  Qed.

  (** ** quiet changes for this layer *)
  Definition QuietD (m m' : machine) : Prop :=
    length (heap m') = length (heap m) /\ (forall o, vb <$> get m' o = vb <$> get m o) /\ (G m' -> G m).

  Lemma QuietD_refl m : QuietD m m.
  Proof. split; [reflexivity|]. split; [reflexivity | auto]. Qed.
  Lemma QuietD_trans m1 m2 m3 : QuietD m1 m2 -> QuietD m2 m3 -> QuietD m1 m3.
  Proof. intros (A1 & A2 & A3) (B1 & B2 & B3). split; [congruence|]. split; [intros o; rewrite B2; apply A2 | auto]. Qed.
  Lemma Quiet_QuietD m m' : Quiet m m' -> QuietD m m'.
  Proof.
    intros HQ. pose proof (Quiet_G mu m m' HQ) as HG. destruct HQ as (A1 & A2 & _). split; [exact A1|]. split; [|exact HG].
    intros o. specialize (A2 o). destruct (get m' o), (get m o); cbn in *; try discriminate; [|reflexivity].
    unfold lv, vb in *. congruence.
  Qed.
  Lemma QuietD_Nd n0 m m' : QuietD m m' -> NdX None n0 m m'.
  Proof.
    intros (A1 & A2 & A3). split; [exact A3|]. intros _. split.
    - intros o x' Hx' Hd. right. specialize (A2 o). rewrite Hx' in A2. destruct (get m o) as [x|]; [|discriminate].
      cbn in A2. exists x. split; [reflexivity | apply (isDA_vb x x'); congruence].
    - intros o x _ _ Hx Hf. specialize (A2 o). rewrite Hx in A2. destruct (get m' o) as [x'|]; [|discriminate].
      cbn in A2. exists x'. split; [reflexivity | apply (isFresh_vb x x'); congruence].
  Qed.

  Lemma QuietD_same m0 m m' : heap m' = heap m -> log m' = log m -> dead m' = dead m -> QuietD m0 m -> QuietD m0 m'.
  Proof.
    intros Eh El Ed HQ. eapply QuietD_trans; [exact HQ|]. unfold QuietD, get. rewrite Eh. split; [reflexivity|].
    split; [reflexivity|]. unfold LifeInv.G, no_badU. rewrite El, Ed. auto.
  Qed.
  Lemma QuietD_emit m0 e m : QuietD m0 m -> QuietD m0 (emit e m).
  Proof.
    intros HQ. eapply QuietD_trans; [exact HQ|]. split; [reflexivity|]. split; [reflexivity|].
    intros [H1 H2]. split; [|exact H2]. unfold no_badU in *. cbn in H1. apply andb_true_iff in H1. apply H1.
  Qed.
  Lemma QuietD_emit_bad m0 b o m : QuietD m0 m -> QuietD m0 (emit_bad b o m).
  Proof. apply QuietD_emit. Qed.
  Lemma QuietD_upd_at m0 o f m : (forall x, get m o = Some x -> vb (f x) = vb x) -> QuietD m0 m -> QuietD m0 (upd o f m).
  Proof.
    intros Hf HQ. eapply QuietD_trans; [exact HQ|]. unfold QuietD, get in *.
    change (heap (upd o f m)) with (alter f o (heap m)).
    split; [apply alter_length|]. split; [|auto].
    intros o'. destruct (decide (o = o')) as [->|Hne].
    - rewrite list_lookup_alter. unfold id in *.
      destruct (heap m !! o') as [y|]; [|reflexivity].
      change (Some (vb (f y)) = Some (vb y)). rewrite Hf; reflexivity.
    - rewrite list_lookup_alter_ne by exact Hne. reflexivity.
  Qed.
  Lemma QuietD_upd m0 o f m : (forall x, vb (f x) = vb x) -> QuietD m0 m -> QuietD m0 (upd o f m).
  Proof. intros Hf. apply QuietD_upd_at. auto. Qed.
  Lemma QuietD_uhdr m0 o f m : QuietD m0 m -> QuietD m0 (uhdr o f m).
  Proof. apply QuietD_upd. reflexivity. Qed.
  Lemma QuietD_dead m0 L m : QuietD m0 m -> QuietD m0 (m <| dead ::= app L |>).
  Proof.
    intros HQ. eapply QuietD_trans; [exact HQ|]. split; [reflexivity|]. split; [reflexivity|].
    intros [H1 H2]. split; [exact H1|]. cbn in H2. unfold mem_id in *. rewrite existsb_app in H2.
    apply orb_false_iff in H2. apply H2.
  Qed.
End Da.

Create HintDb lqd discriminated.
#[export] Hint Resolve QuietD_refl QuietD_emit QuietD_emit_bad QuietD_dead QuietD_uhdr : lqd.
#[export] Hint Extern 1 (QuietD _ _ (set _ _ ?X)) => (apply (QuietD_same _ _ X _ eq_refl eq_refl eq_refl)) : lqd.
#[export] Hint Extern 1 (QuietD _ _ (upd _ _ _)) => (apply QuietD_upd; [intros; reflexivity|]) : lqd.
Ltac lqd := eauto 12 with lqd.

Section HelpersD.
  Context (K : conf) (P : prog) (mu : id).
  Implicit Types (m : machine).

  Lemma qd_dec_size m0 o m : QuietD mu m0 m -> QuietD mu m0 (dec_size o m).
  Proof. unfold dec_size. intros; brk;lqd. Qed.
  Hint Resolve qd_dec_size : lqd.
  Lemma qd_remove_from_list m0 o m : QuietD mu m0 m -> QuietD mu m0 (remove_from_list o m).
  Proof. unfold remove_from_list. intros; brk;lqd. Qed.
  Lemma qd_add_to_list m0 o m : QuietD mu m0 m -> QuietD mu m0 (add_to_list o m).
  Proof. unfold add_to_list. intros; brk;lqd. Qed.
  Lemma qd_dec_rc_m m0 o m : QuietD mu m0 m -> QuietD mu m0 (dec_rc_m o m).
  Proof.
    unfold dec_rc_m, dec_rc. intros H. destruct (h_rc (hdr_of m o) =? 0); lqd.
  Qed.
  Hint Resolve qd_remove_from_list qd_add_to_list qd_dec_rc_m : lqd.
  Lemma qd_uside m0 o f m : QuietD mu m0 m -> QuietD mu m0 (uside o f m).
  Proof. unfold uside. lqd. Qed.
  Lemma qd_sfree m0 o m : QuietD mu m0 m -> QuietD mu m0 (sfree o m).
  Proof. unfold sfree. intros; brk;lqd. Qed.
  Hint Resolve qd_uside qd_sfree : lqd.
  Lemma qd_drop_metadata m0 o m : QuietD mu m0 m -> QuietD mu m0 (drop_metadata K o m).
  Proof. unfold drop_metadata. intros; brk;lqd. Qed.
  Lemma qd_init_side m0 o m : QuietD mu m0 m -> QuietD mu m0 (init_side o m).
  Proof. unfold init_side. intros; brk;lqd. Qed.
  Hint Resolve qd_drop_metadata qd_init_side : lqd.
  Lemma qd_weak_strong_count m0 w m : QuietD mu m0 m -> QuietD mu m0 (weak_strong_count w m).1.
  Proof. unfold weak_strong_count. intros; brk; cbn [fst];lqd. Qed.
  Lemma qd_weak_weak_count m0 w m : QuietD mu m0 m -> QuietD mu m0 (weak_weak_count w m).1.
  Proof. unfold weak_weak_count. intros; brk; cbn [fst];lqd. Qed.
  Lemma qd_weak_clone m0 w m m' : QuietD mu m0 m -> weak_clone w m = Some m' -> QuietD mu m0 m'.
  Proof. unfold weak_clone. intros H E; revert E; brk; intros [= <-];lqd. Qed.
  Lemma qd_weak_drop m0 w m : QuietD mu m0 m -> QuietD mu m0 (weak_drop w m).
  Proof. unfold weak_drop. intros; brk;lqd. Qed.
  Hint Resolve qd_weak_strong_count qd_weak_weak_count qd_weak_drop : lqd.
  Lemma qd_weak_drop_opt m0 w m : QuietD mu m0 m -> QuietD mu m0 (weak_drop_opt w m).
  Proof. unfold weak_drop_opt. intros; brk;lqd. Qed.
  Hint Resolve qd_weak_drop_opt : lqd.
  Lemma qd_node_via_slot m0 i m : QuietD mu m0 m -> QuietD mu m0 (node_via_slot i m).1.
  Proof. unfold node_via_slot. intros; brk; cbn [fst];lqd. Qed.
  Hint Resolve qd_node_via_slot : lqd.
  Lemma qd_resolve m0 self l m : QuietD mu m0 m -> QuietD mu m0 (resolve self l m).1.
  Proof.
    unfold resolve. intros H. destruct l as [i|j|i j]; cbn [fst]; auto.
    - brk; cbn [fst]; auto.
    - pose proof (qd_node_via_slot m0 i m H) as H'.
      destruct (node_via_slot i m) as [m1 n]. cbn [fst] in H'. brk; cbn [fst]; auto.
  Qed.
  Lemma qd_wresolve m0 self l m : QuietD mu m0 m -> QuietD mu m0 (wresolve self l m).1.
  Proof.
    unfold wresolve. intros H. destruct l as [i|j|i j|]; cbn [fst]; auto.
    - brk; cbn [fst]; auto.
    - pose proof (qd_node_via_slot m0 i m H) as H'.
      destruct (node_via_slot i m) as [m1 n]. cbn [fst] in H'. brk; cbn [fst]; auto.
  Qed.
  Lemma qd_nresolve m0 self n m : QuietD mu m0 m -> QuietD mu m0 (nresolve self n m).1.
  Proof. unfold nresolve. intros; brk; cbn [fst];lqd. Qed.
  Lemma qd_write_loc m0 r v m : QuietD mu m0 m -> QuietD mu m0 (write_loc r v m).
  Proof. unfold write_loc. intros; brk;lqd. Qed.
  Lemma qd_write_wloc m0 r v m : QuietD mu m0 m -> QuietD mu m0 (write_wloc r v m).
  Proof. unfold write_wloc. intros; brk;lqd. Qed.
  Hint Resolve qd_resolve qd_wresolve qd_nresolve qd_write_loc qd_write_wloc : lqd.
  Lemma qd_set_fuse m0 k n m : QuietD mu m0 m -> QuietD mu m0 (set_fuse k n m).
  Proof. unfold set_fuse. intros; brk;lqd. Qed.
  Hint Resolve qd_set_fuse : lqd.
  Lemma qd_tick m0 k m : QuietD mu m0 m -> QuietD mu m0 (tick k m).1.
  Proof. unfold tick. intros; brk; cbn [fst];lqd. Qed.
  Lemma qd_adjust m0 m : QuietD mu m0 m -> QuietD mu m0 (adjust K m).
  Proof. unfold adjust. intros; brk;lqd. Qed.
  Hint Resolve qd_tick qd_adjust : lqd.
  Lemma qd_adjust_trigger_point m0 m : QuietD mu m0 m -> QuietD mu m0 (adjust_trigger_point K m).
  Proof. unfold adjust_trigger_point. intros; brk;lqd. Qed.
  Lemma qd_map_insert m0 mo a s m : QuietD mu m0 m -> QuietD mu m0 (map_insert mo a s m).1.
  Proof. unfold map_insert. intros; brk; cbn [fst];lqd. Qed.
  Hint Resolve qd_adjust_trigger_point qd_map_insert : lqd.

  Lemma qd_fold {B} (f : machine -> B -> machine) m0 :
    (forall m a, QuietD mu m0 m -> QuietD mu m0 (f m a)) ->
    forall l m, QuietD mu m0 m -> QuietD mu m0 (fold_left f l m).
  Proof. intros Hf l. induction l as [|a l IH]; cbn; intros m H; auto. Qed.
  Lemma qd_unmark_all m0 l m : QuietD mu m0 m -> QuietD mu m0 (unmark_all l m).
  Proof. unfold unmark_all. apply qd_fold. intros;lqd. Qed.
  Lemma qd_reset_buffered m0 m : QuietD mu m0 m -> QuietD mu m0 (reset_buffered m).
  Proof. unfold reset_buffered. apply qd_fold. intros;lqd. Qed.
  Hint Resolve qd_unmark_all qd_reset_buffered : lqd.

  (** tracing *)
  Lemma qd_traced_children m0 m o : QuietD mu m0 m -> QuietD mu m0 (traced_children P m o).1.
  Proof. unfold traced_children. intros; brk; cbn [fst];lqd. Qed.
  Hint Resolve qd_traced_children : lqd.
  Lemma qd_trace_event m0 o m : QuietD mu m0 m -> QuietD mu m0 (trace_event K o m).1.
  Proof.
    unfold trace_event. intros H. destruct (is_map m o); cbn [fst]; auto.
    apply qd_tick. lqd.
  Qed.
  Lemma qd_visit_counting m0 s c : QuietD mu m0 (t_m s) -> QuietD mu m0 (t_m (visit_counting s c)).
  Proof.
    unfold visit_counting. intros H. brk; cbn [t_m];lqd.
  Qed.
  Lemma qd_visit_root m0 s c : QuietD mu m0 (t_m s) -> QuietD mu m0 (t_m (visit_root s c)).
  Proof. unfold visit_root. intros; brk; cbn [t_m];lqd. Qed.
  Lemma qd_fold_visit_counting m0 l s : QuietD mu m0 (t_m s) -> QuietD mu m0 (t_m (fold_left visit_counting l s)).
  Proof. revert s. induction l as [|a l IH]; cbn; intros s H; auto using qd_visit_counting. Qed.
  Lemma qd_fold_visit_root m0 l s : QuietD mu m0 (t_m s) -> QuietD mu m0 (t_m (fold_left visit_root l s)).
  Proof. revert s. induction l as [|a l IH]; cbn; intros s H; auto using qd_visit_root. Qed.

  Lemma qd_process_counting m0 s o : QuietD mu m0 (t_m s) -> QuietD mu m0 (t_m (process_counting K P s o).1).
  Proof.
    intros H. unfold process_counting.
    assert (H0 : QuietD mu m0 (uhdr o (set_mark IQ) (t_m s))) by lqd.
    pose proof (qd_trace_event m0 o _ H0) as H1.
    destruct (trace_event K o (uhdr o (set_mark IQ) (t_m s))) as [m1 boom]. cbn [fst] in H1.
    destruct boom; cbn [fst t_m].
    - lqd.
    - pose proof (qd_traced_children m0 m1 o H1) as H2.
      destruct (traced_children P m1 o) as [m2 kids]. cbn [fst] in H2.
      match goal with |- context [fold_left visit_counting kids ?s0] =>
        pose proof (qd_fold_visit_counting m0 kids s0 H2) as H3;
        destruct (fold_left visit_counting kids s0) as [m3 r3 n3 q3] end.
      cbn [t_m] in *. brk; cbn [fst t_m];lqd.
  Qed.
  Lemma qd_process_root m0 s o : QuietD mu m0 (t_m s) -> QuietD mu m0 (t_m (process_root K P s o).1).
  Proof.
    intros H. unfold process_root.
    pose proof (qd_trace_event m0 o _ H) as H1.
    destruct (trace_event K o (t_m s)) as [m1 boom]. cbn [fst] in H1.
    destruct boom; cbn [fst t_m].
    - lqd.
    - pose proof (qd_traced_children m0 m1 o H1) as H2.
      destruct (traced_children P m1 o) as [m2 kids]. cbn [fst] in H2.
      apply qd_fold_visit_root. exact H2.
  Qed.

  Lemma qd_counting m0 n : forall s r, QuietD mu m0 (t_m s) -> counting K P n s = Some r -> QuietD mu m0 (t_m r.1).
  Proof.
    induction n as [|n IH]; intros s r H E; cbn in E; [discriminate|].
    destruct (pc (t_m s)) as [|o rest] eqn:Epc.
    - destruct (t_q s) as [|o q'] eqn:Eq.
      + injection E as <-. exact H.
      + match type of E with context [process_counting K P ?s0 o] =>
          assert (H1 : QuietD mu m0 (t_m s0)) by (cbn [t_m];lqd);
          pose proof (qd_process_counting m0 s0 o H1) as H2;
          destruct (process_counting K P s0 o) as [s' boom] end.
        cbn [fst] in H2. destruct boom; [injection E as <-; exact H2 | eauto].
    - match type of E with context [process_counting K P ?s0 o] =>
        assert (H1 : QuietD mu m0 (t_m s0)) by (cbn [t_m];lqd);
        pose proof (qd_process_counting m0 s0 o H1) as H2;
        destruct (process_counting K P s0 o) as [s' boom] end.
      cbn [fst] in H2. destruct boom; [injection E as <-; exact H2 | eauto].
  Qed.
  Lemma qd_roots m0 n : forall s r, QuietD mu m0 (t_m s) -> roots K P n s = Some r -> QuietD mu m0 (t_m r.1).
  Proof.
    induction n as [|n IH]; intros s r H E; cbn in E; [discriminate|].
    destruct (t_root s) as [|o rest] eqn:Er.
    - destruct (t_q s) as [|o q'] eqn:Eq.
      + injection E as <-. exact H.
      + match type of E with context [process_root K P ?s0 o] =>
          assert (H1 : QuietD mu m0 (t_m s0)) by (cbn [t_m];lqd);
          pose proof (qd_process_root m0 s0 o H1) as H2;
          destruct (process_root K P s0 o) as [s' boom] end.
        cbn [fst] in H2. destruct boom; [injection E as <-; exact H2 | eauto].
    - match type of E with context [process_root K P ?s0 o] =>
        assert (H1 : QuietD mu m0 (t_m s0)) by (cbn [t_m];lqd);
        pose proof (qd_process_root m0 s0 o H1) as H2;
        destruct (process_root K P s0 o) as [s' boom] end.
      cbn [fst] in H2. destruct boom; [injection E as <-; exact H2 | eauto].
  Qed.
  Lemma qd_trace_pass m0 m : QuietD mu m0 m -> QuietD mu m0 (trace_pass K P m).1.
  Proof.
    intros H. unfold trace_pass.
    destruct (counting K P (pass_fuel m) (TState m [] [] [])) as [[s b]|] eqn:E1; [|exact H].
    pose proof (qd_counting m0 _ (TState m [] [] []) _ H E1) as H1. cbn [fst] in H1.
    destruct b; [exact H1|].
    destruct (roots K P (pass_fuel m) s) as [[s' b']|] eqn:E2; [|exact H1].
    pose proof (qd_roots m0 _ _ _ H1 E2) as H2. cbn [fst] in H2.
    destruct b'; exact H2.
  Qed.
End HelpersD.

#[export] Hint Resolve qd_dec_size qd_remove_from_list qd_add_to_list qd_dec_rc_m qd_uside qd_sfree
  qd_drop_metadata qd_init_side qd_weak_strong_count qd_weak_weak_count qd_weak_drop qd_weak_drop_opt
  qd_node_via_slot qd_resolve qd_wresolve qd_nresolve qd_write_loc qd_write_wloc qd_set_fuse qd_tick
  qd_adjust qd_adjust_trigger_point qd_map_insert qd_unmark_all qd_reset_buffered qd_traced_children
  qd_trace_pass : lqd.
