(** * SafeFinalC08: [Weak::upgrade] succeeds exactly while the value is alive and its destruction
    has not begun - except in the known-finding states F4. *)
From Coq Require Import NArith Bool List Lia.
From stdpp Require Import base list option.
From RecordUpdate Require Import RecordSet.
From RC Require Import Hdr Machine RunInd.
From RC Require Import Inv InvP SafeHelpers SafePrims SafeCalls SafeMain SafeProps SafeFinalPropsA SafeFinalProps.
Import ListNotations RecordSetNotations.
Local Open Scope N_scope.

(** the F4 situation: a live object, outside the dying set, linked in a tracing / finalization
    list (mark IL or IQ) while [dropping] is set (by a plain [Cc::drop] nested in the pass, or by
    an outer one the collection is nested in) *)
Definition KnownF4 (m : machine) (o : id) : Prop :=
  is_in_list_or_queue (hdr_of m o) = true /\ st_dropping m = true /\ inD m o = false.

Section UpgradeIff.
  Context (K : conf).
  Implicit Types (m : machine) (o : id) (x : obj).

  Lemma KnownF4_dec m o : {KnownF4 m o} + {~ KnownF4 m o}.
  Proof.
    unfold KnownF4. destruct (is_in_list_or_queue (hdr_of m o)), (st_dropping m), (inD m o);
      first [left; repeat split; reflexivity | right; intros (? & ? & ?); discriminate].
  Qed.

  (** what [Weak::strong_count] computes on an existing Weak *)
  Lemma weak_strong_count_value b E W m o x :
    SInv K b E W m -> k_weak K = true -> (0 < wrefs m o + cnt_wr o W)%nat -> get m o = Some x ->
    weak_strong_count (WTo o) m =
    (m, if negb (match o_box x with BAlloc => true | _ => false end) || (h_rc (o_hdr x) =? 0) ||
           is_dropped (o_hdr x) || (is_in_list_or_queue (o_hdr x) && st_dropping m)
        then 0 else h_rc (o_hdr x)).
  Proof.
    intros HI Hk Hpos Hx.
    destruct (weak_target K _ _ _ _ _ HI Hpos) as (x' & s & Hx' & Es & Hf & Hny & Hcnt & HA & HF).
    assert (x' = x) by congruence. subst x'.
    unfold weak_strong_count. rewrite Hx, Es, Hf.
    destruct (o_box x) eqn:Eb; [congruence | |].
    - destruct (HA eq_refl) as (-> & _). cbn [negb orb].
      destruct ((h_rc (o_hdr x) =? 0) || is_dropped (o_hdr x) || (is_in_list_or_queue (o_hdr x) && st_dropping m)); reflexivity.
    - rewrite (HF eq_refl). reflexivity.
  Qed.

  Theorem upgrade_iff b E W m o x :
    SInv K b E W m -> k_weak K = true -> (0 < wrefs m o + cnt_wr o W)%nat -> get m o = Some x ->
    ((weak_strong_count (WTo o) m).2 <> 0 <->
     o_box x = BAlloc /\ o_vst x = VLive /\ inD m o = false /\ h_rc (o_hdr x) <> 0 /\ ~ KnownF4 m o).
  Proof.
    intros HI Hk Hpos Hx. rewrite (weak_strong_count_value b E W m o x HI Hk Hpos Hx). cbn [snd]. split.
    - intros Hnz.
      destruct (weak_strong_count_ok K b E W m o HI Hk Hpos) as (sc & Hw & Hs).
      rewrite (weak_strong_count_value b E W m o x HI Hk Hpos Hx) in Hw. injection Hw as Hw. rewrite Hw in Hnz.
      destruct (Hs Hnz) as (x' & Hx' & Hb & Hv & Hi & Hrc & Hd). assert (x' = x) by congruence. subst x'.
      split; [exact Hb|]. split; [exact Hv|]. split; [exact Hi|]. split; [congruence|].
      intros (F1 & F2 & _). rewrite (hdr_of_get _ _ _ Hx) in F1.
      rewrite Hb, F1, F2 in Hw. cbn in Hw. rewrite !orb_true_r in Hw. congruence.
    - intros (Hb & Hv & Hi & Hrc & Hnf). rewrite Hb. cbn [negb orb].
      assert (E1 : (h_rc (o_hdr x) =? 0) = false) by (apply N.eqb_neq; exact Hrc).
      assert (E2 : is_dropped (o_hdr x) = false).
      { destruct (is_dropped (o_hdr x)) eqn:Ed; [|reflexivity]. exfalso.
        destruct (okN_alloc K _ _ _ _ _ (sv_obj _ _ _ _ _ HI _ _ Hx) Hb) as (_ & _ & _ & O4 & _).
        rewrite Hk in O4. destruct O4 as [_ O4]. destruct (O4 Ed) as [Hd|[Hd|Hd]]; try congruence.
        unfold dying in Hd. rewrite Hv in Hd. discriminate. }
      assert (E3 : is_in_list_or_queue (o_hdr x) && st_dropping m = false).
      { destruct (is_in_list_or_queue (o_hdr x)) eqn:Em; [|reflexivity]. destruct (st_dropping m) eqn:Es; [|reflexivity].
        exfalso. apply Hnf. unfold KnownF4. rewrite (hdr_of_get _ _ _ Hx). auto. }
      rewrite E1, E2, E3. cbn. exact Hrc.
  Qed.

  (** F4 is the only exception: an alive value whose Weak reports 0 is in a known-finding state *)
  Theorem F4_is_the_only_exception b E W m o x :
    SInv K b E W m -> k_weak K = true -> (0 < wrefs m o + cnt_wr o W)%nat -> get m o = Some x ->
    o_box x = BAlloc -> o_vst x = VLive -> inD m o = false -> h_rc (o_hdr x) <> 0 ->
    (weak_strong_count (WTo o) m).2 = 0 -> KnownF4 m o.
  Proof.
    intros HI Hk Hpos Hx Hb Hv Hi Hrc Hz. destruct (KnownF4_dec m o) as [H|H]; [exact H|]. exfalso.
    apply (proj2 (upgrade_iff b E W m o x HI Hk Hpos Hx)); auto 6.
  Qed.

  (** and when it succeeds the reported count is the strong count *)
  Theorem upgrade_count b E W m o x :
    SInv K b E W m -> k_weak K = true -> (0 < wrefs m o + cnt_wr o W)%nat -> get m o = Some x ->
    (weak_strong_count (WTo o) m).2 <> 0 -> (weak_strong_count (WTo o) m).2 = h_rc (o_hdr x).
  Proof.
    intros HI Hk Hpos Hx. rewrite (weak_strong_count_value b E W m o x HI Hk Hpos Hx). cbn [snd].
    destruct (_ || _); [congruence | reflexivity].
  Qed.
End UpgradeIff.

Print Assumptions upgrade_iff.
Print Assumptions F4_is_the_only_exception.
