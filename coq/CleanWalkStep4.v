(** * CleanWalkStep4: [Cc::drop], the drop glue of the fields, the collector's lists. *)
From Coq Require Import NArith Bool List Lia.
From stdpp Require Import base list option.
From RecordUpdate Require Import RecordSet.
From RC Require Import Hdr Machine RunInd Inv.
From RC Require Import Clean CleanFrame CleanStep CleanUFrame CleanU CleanUStep.
From RC Require Import CleanWalk CleanWalkRel CleanWalkChk CleanWalkStep CleanWalkStep2 CleanWalkStep3.
Import ListNotations RecordSetNotations.

Lemma zunl_of_b m o : unlinked_b m o = true -> zunl (zv m) o.
Proof.
  unfold unlinked_b. rewrite forallb_forall. intros H y w Hy Hc.
  destruct (zv_lookup_inv _ _ _ Hy) as (x & Hx & ->). cbn in Hc.
  assert (Hin : In x (heap m)) by (apply elem_of_list_In, elem_of_list_lookup; exists y; exact Hx).
  specialize (H x Hin). rewrite Hc in H. cbn in H. rewrite Nat.eqb_refl in H. discriminate.
Qed.

Section S4.
  Context (mu : id) (K : conf) (P : prog).
  Context (rec : call -> machine -> machine * outcome).
  Context (Hrec : rec_ok (Pre3 mu) (Post3 mu) rec).
  Implicit Types (m : machine).

  Notation tn m := (mem_id mu (dead m) = true).
  Notation gd m := (mem_id mu (dead m) = false).

  (** the box of an object that had one at [h0] is released *)
  Lemma TX_zbox_old s (d : list id) h o e n h0 w0 :
    s = Some (e, n, h0) -> h0 !! o = Some w0 -> z_box w0 <> BNotYet ->
    (mem_id mu d = true \/ RJv s h) -> mem_id mu d = true \/ RJv s (alter (zbox BFreed) o h).
  Proof.
    intros -> Hw0 Hb0 H. apply (TX_zbox' mu); [exact H|discriminate|].
    intros Hd e' n' h0' w [= <- <- <-] Hw. left.
    destruct H as [H|(HR & _)]; [congruence|].
    destruct (r_bm _ _ _ _ HR o w0 Hw0 Hb0) as (w' & Hw' & Hb'). congruence.
  Qed.

  Definition dpart (o : id) (m : machine) : machine * outcome :=
    let m := dec_rc_m o m in
    let m := remove_from_list o m in
    let old_d := st_dropping m in
    let m := m <| st_dropping := true |> in
    let m := if k_weak K then uhdr o set_dropped m else m in
    let '(m, r) := rec (KDropValue o) m in
    match r with
    | ONormal =>
      let m := drop_metadata K o m in
      let m := dealloc K o m in
      (m <| st_dropping := old_d |>, ONormal)
    | _ => (m <| st_dropping := old_d |>, r)
    end.

  Lemma dpart_post o m mc x :
    gd m -> J (zv m) -> get m o = Some x -> o_box x <> BNotYet ->
    (o_ismap x = true -> zunl (zv m) o) ->
    (tn mc \/ (R None (length (zv m)) (zv m) (zv mc) /\ J (zv mc))) ->
    (o_ismap x = true -> zv mc = zv m) ->
    Post3 mu (KDropCc o) m (dpart o mc).1 (dpart o mc).2.
  Proof.
    intros Hg HJ Ex Hb Hu Hc Hqm. unfold dpart. cbv zeta.
    match goal with |- context [rec (KDropValue o) ?M] => set (m1 := M) end.
    assert (E1 : zv m1 = zv mc) by (unfold m1; destruct (k_weak K); cvs; reflexivity).
    assert (D1 : dead m1 = dead mc) by (unfold m1; destruct (k_weak K); cvs; reflexivity).
    clearbody m1.
    assert (Hw : zv m !! o = Some (zview_obj x)) by (apply zv_lookup, Ex).
    assert (Hlt : o < length (zv m)) by (eapply lookup_lt_Some, Hw).
    assert (Htaint : forall m3 r3, tn m1 -> dead m3 = dead (rec (KDropValue o) m1).1 ->
               (okr r3 = true -> okr (rec (KDropValue o) m1).2 = true) -> Post3 mu (KDropCc o) m m3 r3).
    { intros m3 r3 Ht D3 Hr3 Hr. left. rewrite D3. apply (rec_taint mu rec Hrec); auto. }
    destruct (mem_id mu (dead m1)) eqn:G1.
    { destruct (rec (KDropValue o) m1) as [m2 r2]. cbn [fst snd] in Htaint.
      destruct r2; cbn [fst snd]; apply Htaint; auto; cvs; reflexivity. }
    clear Htaint. destruct Hc as [Hc|[HRc HJc]]; [congruence|].
    pose proof (rec_good mu rec Hrec (KDropValue o) m1) as HG. cbn [xPre ex3 xPost] in HG. rewrite !E1 in HG.
    specialize (HG G1 HJc).
    assert (Hx1 : forall w, zv mc !! o = Some w -> z_ismap w = true -> zunl (zv mc) o).
    { intros w Hw' Hm. destruct (r_ism _ _ _ _ HRc o _ Hw) as (w' & Hw'' & Em). pose proof (eq_trans (eq_sym Hw') Hw'') as [= <-].
      apply (zunl_mono _ _ _ _ _ HRc Hlt). apply Hu. cbn in Em. congruence. }
    specialize (HG Hx1).
    destruct (rec (KDropValue o) m1) as [m2 r2]. cbn [fst snd] in HG.
    assert (Hfin : forall m3 r3, zv m3 = alter (zbox BFreed) o (zv m2) \/ zv m3 = zv m2 -> dead m3 = dead m2 ->
              (okr r3 = true -> okr r2 = true) -> Post3 mu (KDropCc o) m m3 r3).
    { intros m3 r3 E3 D3 Hr3 Hr. destruct (HG (Hr3 Hr)) as [HT|(HR2 & HJ2 & Hq2)]; [left; rewrite D3; exact HT|].
      destruct (mem_id mu (dead m3)) eqn:G3; [left; reflexivity|right]. split; [exact Hg|].
      assert (HR2' : R None (length (zv m)) (zv m) (zv m2)).
      { apply (R_trans_ex None _ _ o _ (zv mc) _ HRc HR2); [apply (r_len _ _ _ _ HRc)|].
        right; right. intros w Hw'. left. pose proof (zv_get_eq _ _ _ _ Ex Hw') as ->. exact Hb. }
      assert (Hq : quiet o m m2).
      { intros w Hw' Hm Hna q Hne. pose proof (zv_get_eq _ _ _ _ Ex Hw') as ->. cbn in Hm.
        unfold quiet in Hq2. rewrite E1, (Hqm Hm) in Hq2. exact (Hq2 _ Hw Hm Hna q Hne). }
      destruct E3 as [E3|E3]; rewrite E3.
      - destruct (TX_zbox_old (Some (None, length (zv m), zv m)) [] (zv m2) o _ _ _ _ eq_refl Hw Hb) as [Hf|(A & B & _)];
          [right; split; [exact HR2'|split; [exact HJ2|lia]]|discriminate|].
        split; [exact A|]. split; [exact B|].
        intros w Hw' Hm Hna q Hne. rewrite E3, list_lookup_alter_ne by congruence. exact (Hq w Hw' Hm Hna q Hne).
      - split; [exact HR2'|]. split; [exact HJ2|].
        intros w Hw' Hm Hna q Hne. rewrite E3. exact (Hq w Hw' Hm Hna q Hne). }
    destruct r2; cbn [fst snd]; apply Hfin; auto; try (right; cvs; reflexivity); try (cvs; reflexivity).
    left. cvs. reflexivity.
  Qed.

  Lemma post3_same c m m' r :
    gd m -> J (zv m) -> zv m' = zv m -> dead m' = dead m ->
    (forall m'', zv m'' = zv m -> xPost c m m'') -> Post3 mu c m m' r.
  Proof.
    intros Hg HJ Ez Ed Hx _. right. split; [exact Hg|]. rewrite Ez. split; [apply R_refl|]. split; [exact HJ|].
    apply Hx, Ez.
  Qed.
  Lemma quiet_same o m m' : zv m' = zv m -> quiet o m m'.
  Proof. intros E w _ _ _ q _. rewrite E. reflexivity. Qed.

  Lemma W_step_drop_cc o m :
    Pre3 mu (KDropCc o) m -> chkW K P (KDropCc o) m = true ->
    Post3 mu (KDropCc o) m (step_drop_cc K P rec o m).1 (step_drop_cc K P rec o m).2.
  Proof.
    intros HP Hchk. destruct (mem_id mu (dead m)) eqn:Hg; [apply taint_post; [apply tok_step_drop_cc; exact Hrec|exact Hg]|].
    destruct HP as [HP|(HJ & _)]; [congruence|].
    pose proof (TX_self mu m None (length (zv m)) Hg HJ (le_n _)) as H0.
    unfold chkW in Hchk. apply andb_true_iff in Hchk as [HcU HcX]. cbn [chkU chkX] in HcU, HcX.
    unfold step_drop_cc.
    destruct (get m o) as [x|] eqn:Ex.
    2: { apply post3_same; auto. intros; apply quiet_same; assumption. }
    assert (Hb : o_box x <> BNotYet).
    { unfold nyb in HcX. rewrite Ex in HcX. intros E. rewrite E in HcX. discriminate. }
    cbv zeta.
    set (ma := match o_box x with BAlloc => m | _ => emit_bad UseAfterFree o m end).
    assert (Ea : zv ma = zv m) by (unfold ma; destruct (o_box x); reflexivity).
    assert (Da : dead ma = dead m) by (unfold ma; destruct (o_box x); reflexivity).
    clearbody ma.
    assert (Hsame : forall m' r, zv m' = zv m -> dead m' = dead m -> Post3 mu (KDropCc o) m m' r).
    { intros m' r E D. apply post3_same; auto. intros; apply quiet_same; assumption. }
    destruct (is_in_list_or_queue (o_hdr x)); [apply Hsame; cbn [fst snd]; cvs; assumption|].
    destruct (h_rc (o_hdr x) =? 1)%N eqn:E1; [|apply Hsame; cbn [fst snd]; cvs; assumption].
    assert (Hu : o_ismap x = true -> zunl (zv m) o).
    { intros Hm. rewrite Hm in HcU. cbn in HcU. apply zunl_of_b, HcU. }
    assert (Hdp : forall mc, (tn mc \/ (R None (length (zv m)) (zv m) (zv mc) /\ J (zv mc))) ->
              (o_ismap x = true -> zv mc = zv m) -> Post3 mu (KDropCc o) m (dpart o mc).1 (dpart o mc).2).
    { intros mc Hc Hq. exact (dpart_post o m mc x Hg HJ Ex Hb Hu Hc Hq). }
    assert (Hrefl : forall mc, zv mc = zv m -> dead mc = dead m ->
              (tn mc \/ (R None (length (zv m)) (zv m) (zv mc) /\ J (zv mc)))).
    { intros mc E D. right. rewrite E. split; [apply R_refl|exact HJ]. }
    destruct (k_fin K && needs_fin (o_hdr x)) eqn:Ef; cbv beta iota zeta.
    2: { cbn [negb]. apply Hdp; [apply Hrefl; assumption|intros _; exact Ea]. }
    destruct (o_ismap x) eqn:Em; cbv beta iota zeta.
    - (* a map: no finalizer code *)
      match goal with |- context [(h_rc (hdr_of ?M o) =? 1)%N] => destruct (h_rc (hdr_of M o) =? 1)%N end;
        cbv beta iota zeta; cbn [negb].
      + apply Hdp; [apply Hrefl; cvs; assumption|intros _; cvs; exact Ea].
      + apply Hsame; cbn [fst snd]; cvs; assumption.
    - (* a node: its finalizer runs *)
      assert (Hnm : forall m' r, xres mu (Some (None, length (zv m), zv m)) (m', r) -> Post3 mu (KDropCc o) m m' r).
      { intros m' r Hx. apply (post_of_xres mu (KDropCc o) m (m', r) Hg Hx).
        intros _ _ _ w Hw Hm. rewrite (zv_get_eq _ _ _ _ Ex Hw) in Hm. cbn in Hm. congruence. }
      match goal with |- context [tick KFin ?M] =>
        assert (Ht : TX mu (Some (None, length (zv m), zv m)) (tick KFin M).1) by (cvs; rewrite Ea, Da; exact H0);
        destruct (tick KFin M) as [mt boom] end.
      cbn [fst] in Ht. destruct boom.
      + (* the finalizer panics at once *)
        unfold raise. destruct (panicking mt); cbv beta iota zeta; cbn [negb]; apply Hnm;
          [exact I|apply xres_intro; cbn [fst snd]; cvs; exact Ht].
      + assert (Hr : xres mu (Some (None, length (zv m), zv m))
                       (rec (KScript (Some o) (oscript P (c_fin (class_of P (o_cls x))))) mt))
          by (eapply rec_call; [exact Hrec|exact Ht|reflexivity|intros _ _; exact I]).
        destruct (rec (KScript (Some o) (oscript P (c_fin (class_of P (o_cls x))))) mt) as [ms rs].
        unfold xres in Hr. cbn [fst snd] in Hr.
        destruct rs; cbv beta iota zeta; cbn [negb]; try (apply Hnm; first [exact I | apply xres_intro; cbn [fst snd]; cvs; exact Hr]).
        destruct (h_rc (hdr_of ms o) =? 1)%N; cbv beta iota zeta; cbn [negb].
        * apply Hdp; [|intros; discriminate]. cbn [fst snd]. cvs. destruct Hr as [Hr|(A & B & _)]; [left; exact Hr|right; auto].
        * apply Hnm. apply xres_intro. cbn [fst snd]. cvs. exact Hr.
  Qed.
End S4.
