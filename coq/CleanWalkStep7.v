(** * CleanWalkStep7: the commands that create a value: [Cc::new], [Cc::new_cyclic]. *)
From Coq Require Import NArith Bool List Lia.
From stdpp Require Import base list option.
From RecordUpdate Require Import RecordSet.
From RC Require Import Hdr Machine RunInd Inv.
From RC Require Import Clean CleanFrame CleanStep CleanUFrame CleanU CleanUStep.
From RC Require Import CleanWalk CleanWalkRel CleanWalkChk CleanWalkStep CleanWalkStep2 CleanWalkStep3 CleanWalkStep4 CleanWalkStep5.
Import ListNotations RecordSetNotations.

(** an update of the box of a fresh object *)
Lemma TX_zbox_fresh (mu : id) (d : list id) h b o e n h0 :
  n <= o -> b <> BNotYet ->
  (mem_id mu d = true \/ RJv (Some (e, n, h0)) h) ->
  mem_id mu d = true \/ RJv (Some (e, n, h0)) (alter (zbox b) o h).
Proof.
  intros Hn Hb H. apply (TX_zbox' mu); [exact H|exact Hb|].
  intros _ e' n' h0' w [= <- <- <-] _. right; right. exact Hn.
Qed.

(** updates of a fresh object [o] ([Hno : n <= o]) *)
Ltac rt7 Hno :=
  first
    [ eassumption
    | (rewrite (zv_upd_alter _ (zvst VUninit)) by (intros; reflexivity); cvs;
       eapply TX_vst_alive; [rt7 Hno|exact I])
    | (rewrite (zv_upd_alter _ (zvst VLive)) by (intros; reflexivity); cvs;
       eapply TX_vst_alive; [rt7 Hno|exact I])
    | (eapply TX_zbox_fresh; [exact Hno|discriminate|rt7 Hno]) ].

Section S7.
  Context (mu : id) (K : conf) (P : prog).
  Context (rec : call -> machine -> machine * outcome).
  Context (Hrec : rec_ok (Pre3 mu) (Post3 mu) rec).
  Implicit Types (m : machine).

  Notation tn m := (mem_id mu (dead m) = true).
  Notation gd m := (mem_id mu (dead m) = false).

  (** the entry of a generic step: tainted (then [tok] applies) or tracked *)
  Lemma gen_entry X s m :
    tok mu X ->
    (forall e n h0, s = Some (e, n, h0) -> gd m -> TX mu s m -> n <= length (zv m) ->
                    xres mu s (X m)) ->
    TX mu s m -> xres mu s (X m).
  Proof.
    intros Ht Hx H. destruct (mem_id mu (dead m)) eqn:Hg.
    - apply xres_None_sub, Ht. left. exact Hg.
    - destruct H as [H|H]; [congruence|]. destruct s as [[[e n] h0]|]; [|destruct H].
      apply (Hx e n h0 eq_refl eq_refl); [right; exact H|].
      destruct H as (HR & HJ & Hle). pose proof (r_len _ _ _ _ HR). lia.
  Qed.

  Lemma w_cmd_new_cyclic self dst cls sc sw : gen_okW mu (cmd_new_cyclic K P rec self dst cls sc sw).
  Proof.
    intros s m H. revert H. apply gen_entry; [apply tok_cmd_new_cyclic; exact Hrec|].
    intros e n h0 -> Hg H Hn.
    unfold cmd_new_cyclic. destruct (negb (k_weak K)); [goT|].
    assert (Hr1 : TX mu (Some (e, n, h0)) (resolve self dst m).1) by relW.
    assert (Ez : zv (resolve self dst m).1 = zv m) by (cvs; reflexivity).
    destruct (resolve self dst m) as [m0 r]. cbn [fst snd] in *.
    destruct r as [r|]; [|goT].
    assert (Hr2 : TX mu (Some (e, n, h0)) (new_node P cls m0).1) by relW.
    assert (Eo : (new_node P cls m0).2 = length (heap m0)) by reflexivity.
    destruct (new_node P cls m0) as [m1 o]. cbn [fst snd] in *.
    assert (Hno : n <= o) by (rewrite Eo, <- zv_length, Ez; exact Hn).
    clear Eo.
    goX fail ltac:(rt7 Hno).
  Qed.

  Lemma lookup_snoc_len {A} (l : list A) (a : A) : (l ++ [a]) !! length l = Some a.
  Proof. rewrite lookup_app_r by lia. rewrite Nat.sub_diag. reflexivity. Qed.

  Lemma w_cmd_new self dst cls : gen_okW mu (cmd_new K P rec self dst cls).
  Proof.
    intros s m H. revert H. apply gen_entry; [apply tok_cmd_new; exact Hrec|].
    intros e n h0 -> Hg H Hn.
    unfold cmd_new.
    assert (Hr1 : TX mu (Some (e, n, h0)) (resolve self dst m).1) by relW.
    assert (Ez : zv (resolve self dst m).1 = zv m) by (cvs; reflexivity).
    destruct (resolve self dst m) as [m0 r]. cbn [fst snd] in *.
    destruct r as [r|]; [|goT].
    assert (Hr2 : TX mu (Some (e, n, h0)) (new_node P cls m0).1) by relW.
    assert (Eo : (new_node P cls m0).2 = length (heap m0)) by reflexivity.
    pose proof (zv_new_node P cls m0) as E1.
    destruct (new_node P cls m0) as [m1 o]. cbn [fst snd] in *.
    assert (Hno : n <= o) by (rewrite Eo, <- zv_length, Ez; exact Hn).
    assert (Hw1 : zv m1 !! o = Some (ZObj VLive BNotYet false [] None)).
    { rewrite E1, Eo, <- zv_length. apply lookup_snoc_len. }
    clear Eo E1.
    set (X := if k_auto K then rec KTrigger m1 else (m1, ONormal)).
    assert (FX : xres mu (Some (e, n, h0)) X /\
                 (okr X.2 = true -> tn X.1 \/ forall w, zv X.1 !! o = Some w -> z_ismap w = false)).
    { unfold X. destruct (k_auto K).
      - destruct (rec_both mu rec Hrec KTrigger _ m1 Hr2 eq_refl (fun _ _ => I)) as [A B].
        split; [exact A|]. intros Hr. destruct (B Hr) as [HT|(_ & HRt)]; [left; exact HT|right].
        intros w Hw. destruct (r_ism _ _ _ _ HRt o _ Hw1) as (w' & Hw' & Em).
        pose proof (eq_trans (eq_sym Hw) Hw') as [= <-]. exact Em.
      - split; [apply xres_intro, Hr2|]. intros _. right. cbn [fst]. intros w Hw.
        pose proof (eq_trans (eq_sym Hw) Hw1) as [= ->]. reflexivity. }
    fold X. clearbody X. destruct X as [m2 t]. destruct FX as [Hr FI]. unfold xres in Hr. cbn [fst snd] in *.
    destruct t; cbv beta iota zeta.
    - goX fail ltac:(rt7 Hno).
    - apply xres_unwinding'. eapply rec_call_dv; [exact Hrec|relW|].
      intros Hg2 _. split; [|right; left; exact Hno].
      cbn [xPre]. cvs. intros w Hw Hm. exfalso.
      destruct (FI eq_refl) as [HT|Hi]; [autorewrite with cv in Hg2; congruence|].
      rewrite (Hi w Hw) in Hm. discriminate.
    - exact I.
    - exact I.
  Qed.
End S7.
