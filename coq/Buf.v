(** * Buf: the buffer-and-marks invariant holds of every run of the machine model, and its
    consequences for the introspection counters (property C11).

    Proved here (all configurations, programs, fuels, command lists, every panic path):
    [run_buf] (the [RunInd.run_ind] instance), [prog_G] / [prog_buf] (program level),
    [sobs_ok] (what [CSObs] reports), [buffered_count] and the enter/leave rules,
    [exec_mono] / [exec_inside] / [exec_collect].

    Shape of the statement.  [G K A m := dirty m \/ Ibuf K A m].  [dirty] = an
    [EBad UseAfterFree | DoubleFree | AssertFail | Fuel] event is in the log.  These are exactly
    the points where the model itself reports that the crate would be touching freed memory or
    failing a debug assertion; ruling them out needs I-count / I-ref / the pass theorem (e.g. a
    double [dealloc] makes [st_alloc] differ from [bytes] for ever), which are other files' job.

    Not part of [Ibuf]: "every member of [pc m] is allocated".  It is not inductive without
    I-count ([Clone for Cc] has no liveness check): Props/C11.v [ex_needs_count] is a concrete
    state.  What is proved instead: members of [pc m] / of the active list once had a box
    ([o_box <> BNotYet]), and [dealloc] is applied to objects outside [pc] in [try_unwrap] and
    at the end of the drop pass (whose members are marked IL, hence not in [pc]). *)
From Coq Require Import NArith Bool List Lia.
From stdpp Require Import base list option sets.
From RecordUpdate Require Import RecordSet.
From RC Require Import Hdr Machine RunInd BufBase BufPass BufStep BufCmd.
Import ListNotations RecordSetNotations.
Local Open Scope N_scope.

Section Run.
  Context (K : conf) (P : prog).

  Lemma step_rok rec : rok K rec -> rok K (step K P rec).
  Proof.
    intros Hrec A c m HP. destruct c; cbn [step].
    - destruct c; cbn [step_cmd].
      + apply ok_cmd_new; assumption.
      + apply ok_cmd_clone; assumption.
      + apply ok_cmd_drop; assumption.
      + apply ok_cmd_move; assumption.
      + apply ok_cmd_mark_alive; assumption.
      + apply ok_cmd_collect; assumption.
      + apply ok_cmd_downgrade; assumption.
      + apply ok_cmd_upgrade; assumption.
      + apply ok_cmd_w_new; assumption.
      + apply ok_cmd_w_clone; assumption.
      + apply ok_cmd_w_drop; assumption.
      + apply ok_cmd_try_unwrap; assumption.
      + apply ok_cmd_drop_value; assumption.
      + apply ok_cmd_fin_again; assumption.
      + apply ok_cmd_new_cyclic; assumption.
      + apply ok_cmd_register; assumption.
      + apply ok_cmd_clean; assumption.
      + apply ok_cmd_c_drop; assumption.
      + apply ok_cmd_bag; assumption.
      + apply ok_cmd_unbag; assumption.
      + apply ok_cmd_borrow; assumption.
      + apply ok_cmd_unborrow; assumption.
      + apply ok_cmd_cfg_auto; assumption.
      + apply ok_cmd_cfg_percent; assumption.
      + apply ok_cmd_cfg_buffered; assumption.
      + apply ok_cmd_arm; assumption.
      + apply ok_cmd_panic; assumption.
      + apply ok_cmd_obs; assumption.
      + apply ok_cmd_w_obs; assumption.
      + apply ok_cmd_s_obs; assumption.
    - apply ok_step_script; assumption.
    - apply ok_step_store; assumption.
    - apply ok_step_drop_cc; assumption.
    - apply ok_step_drop_value; assumption.
    - apply ok_step_drop_fields; assumption.
    - apply ok_step_drop_map_slots; assumption.
    - apply ok_step_trigger; assumption.
    - apply ok_step_collect_cycles; assumption.
    - apply ok_step_collect; assumption.
    - apply ok_step_collect_loop; assumption.
    - apply ok_step_collect_once; assumption.
    - apply ok_step_finalize_list; assumption.
    - apply ok_step_drop_list; assumption.
    - apply ok_step_unbag; assumption.
    - apply ok_step_clean_run; assumption.
  Qed.

  Lemma fuel_ok A c m : PreA K A c m -> PostA K A c m m OFuel.
  Proof.
    intros _. split; [apply frame_refl|]. split; [intros H; contradiction|intros _ H; contradiction].
  Qed.

  (** Theorem A, activation level: [run_ind] instance. *)
  Theorem run_buf_rec_ok n : rec_ok (Pre K) (Post K) (run K P n).
  Proof.
    apply run_ind.
    - intros rec H. apply rok_rec_ok, step_rok, rok_rec_ok, H.
    - intros c m _ A HP. apply fuel_ok, HP.
  Qed.

  Theorem run_buf n : rok K (run K P n).
  Proof. apply rok_rec_ok, run_buf_rec_ok. Qed.

  (** ** Programs *)
  Lemma init_buf : Ibuf K [] (init K).
  Proof.
    assert (Hn : forall o x, get (init K) o = Some x -> False).
    { intros o x E. unfold get in E. cbn in E. rewrite lookup_nil in E. discriminate. }
    split; [|split; [intros H; contradiction|intros o x E; destruct (Hn o x E)]]. split; cbn.
    - constructor.
    - reflexivity.
    - constructor.
    - intros o Ho. inversion Ho.
    - intros o x E. destruct (Hn o x E).
    - intros o x E. destruct (Hn o x E).
    - intros o x E. destruct (Hn o x E).
    - intros o x E. destruct (Hn o x E).
    - reflexivity.
    - reflexivity.
    - reflexivity.
  Qed.

  Lemma exec_top_G fuel c m : G K [] m -> G K [] (exec_top K P fuel c m).
  Proof.
    intros HG. unfold exec_top.
    destruct (run_buf fuel [] (KCmd None c) m HG) as (F & H & _).
    destruct (run K P fuel (KCmd None c) m) as [m1 r]. cbn [fst snd goalA] in *.
    destruct r.
    - apply H. discriminate.
    - eapply mild_G; [|apply H; discriminate]. mild_solve.
    - eapply mild_G; [|apply H; discriminate]. mild_solve.
    - left. apply dirty_emit_bad. reflexivity.
  Qed.

  Lemma prog_G_from fuel cmds : forall m,
    G K [] m -> G K [] (fold_left (fun m c => exec_top K P fuel c m) cmds m).
  Proof. induction cmds as [|c cmds IH]; cbn; intros m H; [exact H|]. apply IH, exec_top_G, H. Qed.

  (** no use-after-free / double free / failed debug assertion / fuel exhaustion was logged *)
  Definition clean (m : machine) : Prop :=
    forall b o, In (EBad b o) (log m) -> badk b = false.

  Lemma dirty_not_clean m : dirty m -> clean m -> False.
  Proof.
    unfold dirty, clean. intros D C. apply existsb_exists in D as (e & Hin & He).
    destruct e; try discriminate. cbn in He. rewrite (C _ _ Hin) in He. discriminate.
  Qed.
  Lemma G_clean A m : G K A m -> clean m -> Ibuf K A m.
  Proof. intros [D|I] C; [destruct (dirty_not_clean m D C)|exact I]. Qed.

  (** Theorem A, program level. *)
  Theorem prog_G fuel cmds :
    G K [] (fold_left (fun m c => exec_top K P fuel c m) cmds (init K)).
  Proof. apply prog_G_from. right. apply init_buf. Qed.

  Theorem prog_buf fuel cmds :
    let m := fold_left (fun m c => exec_top K P fuel c m) cmds (init K) in
    clean m -> Ibuf K [] m.
  Proof. intros m C. apply G_clean; [apply prog_G|exact C]. Qed.

  (** ** C11: allocated_bytes / buffered_objects_count as observed by [CSObs] *)
  Lemma cmd_s_obs_emits self m :
    cmd_s_obs K self m =
    (emit (ERes ROk)
       (emit (ESObs (st_alloc m) (if pc_alive m then Some (pc_size m) else None) (st_exec m)
                    (fl_t (cur_flags K m))) m), ONormal).
  Proof. reflexivity. Qed.

  Theorem sobs_ok A self m :
    Ibuf K A m ->
    cmd_s_obs K self m =
    (emit (ERes ROk)
       (emit (ESObs (bytes K m) (Some (N.of_nat (length (pc m)))) (st_exec m)
                    (fl_t (cur_flags K m))) m), ONormal).
  Proof.
    intros [I _]. rewrite cmd_s_obs_emits, (ik_bytes _ _ _ _ I), (ik_alive _ _ _ _ I), (ik_size _ _ _ _ I).
    reflexivity.
  Qed.

  (** every activation of [CSObs], at any depth, is this function of its start state *)
  Lemma run_s_obs n self m : run K P (S n) (KCmd self CSObs) m = cmd_s_obs K self m.
  Proof. reflexivity. Qed.

  Theorem sobs_top fuel cmds n :
    let m := fold_left (fun m c => exec_top K P fuel c m) cmds (init K) in
    clean m ->
    log (exec_top K P (S n) CSObs m) =
    ERes ROk :: ESObs (bytes K m) (Some (N.of_nat (length (pc m)))) (st_exec m) (fl_t (cur_flags K m))
             :: log m.
  Proof.
    intros m C. unfold exec_top. rewrite run_s_obs, (sobs_ok [] None m (prog_buf fuel cmds C)).
    reflexivity.
  Qed.

  (** ** C11: buffered_objects_count *)
  Definition buffered_ids (m : machine) : list id :=
    filter (fun o => is_in_pc (hdr_of m o) = true) (seq 0 (length (heap m))).

  Theorem buffered_count A m :
    Ibuf K A m ->
    NoDup (pc m) /\ pc_size m = N.of_nat (length (pc m)) /\ pc m ≡ₚ buffered_ids m /\
    length (pc m) = length (buffered_ids m) /\
    (forall o, o ∈ pc m -> exists x, get m o = Some x /\ h_mark (o_hdr x) = PC /\ o_box x <> BNotYet).
  Proof.
    intros [I _].
    assert (Hmem : forall o, o ∈ pc m <-> o ∈ buffered_ids m).
    { intros o. unfold buffered_ids. rewrite elem_of_list_filter, elem_of_seq. split.
      - intros Ho. destruct (ik_valid _ _ _ _ I o) as [x Ex]; [rewrite !elem_of_app; auto|].
        split; [|pose proof (get_lt _ _ _ Ex); lia].
        rewrite (hdr_of_get _ _ _ Ex). apply mark_pc. apply (ik_pc _ _ _ _ I o x Ex), Ho.
      - intros [Hm _]. destruct (is_in_pc_get _ _ Hm) as (x & Ex & Hx).
        apply (ik_pc _ _ _ _ I o x Ex), Hx. }
    assert (Hp : pc m ≡ₚ buffered_ids m).
    { apply NoDup_Permutation; [exact (ik_nodup _ _ _ _ I)| |exact Hmem].
      unfold buffered_ids. apply NoDup_filter, NoDup_seq. }
    split; [exact (ik_nodup _ _ _ _ I)|]. split; [exact (ik_size _ _ _ _ I)|].
    split; [exact Hp|]. split; [rewrite Hp; reflexivity|].
    intros o Ho. destruct (ik_valid _ _ _ _ I o) as [x Ex]; [rewrite !elem_of_app; auto|].
    exists x. split; [exact Ex|].
    assert (Hm : h_mark (o_hdr x) = PC) by (apply (ik_pc _ _ _ _ I o x Ex), Ho).
    split; [exact Hm|]. intros Hb. pose proof (ik_box _ _ _ _ I o x Ex Hb). congruence.
  Qed.

  (** enter / leave rules of the two primitives *)
  Lemma add_to_list_enter A m o x :
    Ibuf K A m -> get m o = Some x -> h_mark (o_hdr x) <> PC ->
    pc (add_to_list o m) = o :: pc m /\ pc_size (add_to_list o m) = N.succ (pc_size m) /\
    o ∉ pc m.
  Proof.
    intros [I _] Ex Hm. unfold add_to_list.
    assert (Epc : is_in_pc (hdr_of m o) = false).
    { rewrite (hdr_of_get _ _ _ Ex). destruct (is_in_pc (o_hdr x)) eqn:E; [|reflexivity].
      apply mark_pc in E. contradiction. }
    rewrite Epc, (ik_alive _ _ _ _ I).
    destruct (is_not_marked (hdr_of m o) && negb (is_dropped (hdr_of m o))); cbn;
      (split; [reflexivity|]; split; [reflexivity|];
       intros Hin; apply Hm, (ik_pc _ _ _ _ I o x Ex), Hin).
  Qed.
  Lemma add_to_list_noop A m o :
    Ibuf K A m -> o ∈ pc m -> add_to_list o m = m.
  Proof.
    intros [I _] Hin. unfold add_to_list.
    destruct (ik_valid _ _ _ _ I o) as [x Ex]; [rewrite !elem_of_app; auto|].
    rewrite (hdr_of_get _ _ _ Ex).
    assert (E : is_in_pc (o_hdr x) = true) by (apply mark_pc, (ik_pc _ _ _ _ I o x Ex), Hin).
    rewrite E. reflexivity.
  Qed.
  Lemma remove_from_list_leave A m o :
    Ibuf K A m -> o ∈ pc m ->
    pc (remove_from_list o m) = remove_id o (pc m) /\
    N.succ (pc_size (remove_from_list o m)) = pc_size m /\
    (forall o', o' ∈ pc (remove_from_list o m) <-> o' ∈ pc m /\ o' <> o).
  Proof.
    intros [I _] Hin. unfold remove_from_list.
    destruct (ik_valid _ _ _ _ I o) as [x Ex]; [rewrite !elem_of_app; auto|].
    rewrite (hdr_of_get _ _ _ Ex).
    assert (E : is_in_pc (o_hdr x) = true) by (apply mark_pc, (ik_pc _ _ _ _ I o x Ex), Hin).
    rewrite E, (ik_alive _ _ _ _ I). unfold dec_size.
    change (pc_size (uhdr o (set_mark NM) m <| pc ::= remove_id o |>)) with (pc_size m).
    pose proof (length_remove_id o (pc m) (ik_nodup _ _ _ _ I) Hin) as Hlen.
    pose proof (ik_size _ _ _ _ I) as Hsz.
    destruct (pc_size m =? 0) eqn:Ez; [apply N.eqb_eq in Ez; lia|]. cbn.
    split; [reflexivity|]. split; [lia|]. intros o'. apply remove_id_spec.
  Qed.
  Lemma remove_from_list_noop A m o :
    Ibuf K A m -> o ∉ pc m -> remove_from_list o m = m.
  Proof.
    intros [I _] Hin. unfold remove_from_list.
    destruct (is_in_pc (hdr_of m o)) eqn:E; [|reflexivity].
    destruct (is_in_pc_get _ _ E) as (x & Ex & Hx). exfalso. apply Hin, (ik_pc _ _ _ _ I o x Ex), Hx.
  Qed.
  Lemma remove_from_list_out A m o : Ibuf K A m -> o ∉ pc (remove_from_list o m).
  Proof.
    intros H. destruct (decide (o ∈ pc m)) as [Hin|Hin].
    - destruct (remove_from_list_leave A m o H Hin) as (_ & _ & Hm). rewrite Hm. tauto.
    - rewrite (remove_from_list_noop A m o H Hin). exact Hin.
  Qed.

  (** *** per command: who leaves / enters the buffer *)
  Lemma pc_sfree o m : pc (sfree o m) = pc m.
  Proof. unfold sfree. brk; reflexivity. Qed.
  Lemma pc_weak_drop w m : pc (weak_drop w m) = pc m.
  Proof. unfold weak_drop. brk; rewrite ?pc_sfree; reflexivity. Qed.
  Lemma pc_weak_drop_opt w m : pc (weak_drop_opt w m) = pc m.
  Proof. unfold weak_drop_opt. destruct w; [apply pc_weak_drop|reflexivity]. Qed.
  Lemma pc_drop_metadata o m : pc (drop_metadata K o m) = pc m.
  Proof. unfold drop_metadata. brk; rewrite ?pc_sfree; reflexivity. Qed.
  Lemma pc_dealloc o m : pc (dealloc K o m) = pc m.
  Proof. unfold dealloc. brk; reflexivity. Qed.
  Lemma pc_init_side o m : pc (init_side o m) = pc m.
  Proof. unfold init_side. brk; reflexivity. Qed.
  Lemma pc_write_wloc r v m : pc (write_wloc r v m) = pc m.
  Proof. unfold write_wloc. brk; reflexivity. Qed.
  Lemma pc_write_loc r v m : pc (write_loc r v m) = pc m.
  Proof. unfold write_loc. brk; reflexivity. Qed.

  Lemma G_unbuffer A o m :
    G K A m -> dirty (remove_from_list o m) \/ o ∉ pc (remove_from_list o m).
  Proof.
    intros [D|I]; [left; eapply frame_dirty; [apply frame_remove_from_list|exact D]|right].
    eapply remove_from_list_out, I.
  Qed.

  (** [Cc::mark_alive]: the target is not buffered afterwards *)
  Theorem mark_alive_unbuffers A self l m :
    G K A m ->
    let '(m1, r) := resolve self l m in
    forall o, r ≫= (fun r => read_loc r m1) = Some o ->
    let m' := (cmd_mark_alive self l m).1 in dirty m' \/ o ∉ pc m'.
  Proof.
    intros HG. unfold cmd_mark_alive. pose proof (mild_resolve K self l m) as M.
    destruct (resolve self l m) as [m1 r]. cbn [fst] in M. intros o E. rewrite E. cbn [fst ok].
    destruct (G_unbuffer A o m1 (mild_G K _ _ _ M HG)) as [D|H]; [left; apply dirty_emit, D|right; exact H].
  Qed.

  (** [Clone for Cc] / [Weak::upgrade] (Some): the state handed to the store of the new handle *)
  Theorem clone_unbuffers A o h m :
    G K A m -> inc_rc (hdr_of m o) = Some h ->
    let m' := remove_from_list o (uhdr o (fun _ => h) m) in dirty m' \/ o ∉ pc m'.
  Proof.
    intros HG E. apply (G_unbuffer A). eapply mild_G; [|exact HG].
    apply mild_uhdr_const; [apply (inc_rc_mark _ _ E)|apply (inc_rc_tc _ _ E)].
  Qed.

  (** [Cc::downgrade] *)
  Theorem downgrade_unbuffers A o k rw m :
    G K A m ->
    let m1 := remove_from_list o (uside o (fun _ => k) m) in
    let m' := weak_drop_opt (read_wloc rw m1) (write_wloc rw (Some (WTo o)) m1) in
    dirty m' \/ o ∉ pc m'.
  Proof.
    intros HG m1 m'. subst m'. rewrite pc_weak_drop_opt, pc_write_wloc.
    destruct (G_unbuffer A o (uside o (fun _ => k) m)) as [D|H].
    - eapply mild_G; [|exact HG]. mild_solve.
    - left. eapply frame_dirty; [|exact D]. apply (mild_frame K). mild_solve.
    - right. exact H.
  Qed.

  (** [Cc::try_unwrap] (Ok): un-buffered, then freed; [dealloc] acts on an object outside the
      buffer *)
  Theorem try_unwrap_unbuffers A o r v m :
    G K A m ->
    let m1 := remove_from_list o (write_loc r None m) in
    let m2 := drop_metadata K o (upd o (fun x => x <| o_vst := VMoved |>) m1 <| values ::= <[v := Some o]> |>) in
    (dirty m1 \/ o ∉ pc m2) /\ pc (dealloc K o m2) = pc m2.
  Proof.
    intros HG m1 m2. split; [|apply pc_dealloc]. subst m2. rewrite pc_drop_metadata. cbn [pc set upd].
    apply (G_unbuffer A). eapply mild_G; [|exact HG]. mild_solve.
  Qed.

  (** [Cc::drop] with other handles left: the object is in the buffer afterwards *)
  Theorem drop_buffers A o m :
    Ibuf K A m -> is_Some (get m o) -> o ∈ pc (add_to_list o (dec_rc_m o m)).
  Proof.
    intros HI [x Ex].
    assert (HI' : G K A (dec_rc_m o m)) by (eapply mild_G; [apply mild_dec_rc_m|right; exact HI]).
    assert (Hal : pc_alive (dec_rc_m o m) = true).
    { unfold dec_rc_m. destruct (dec_rc (hdr_of m o)); apply (ik_alive _ _ _ _ (proj1 HI)). }
    assert (Hpc : pc (dec_rc_m o m) = pc m).
    { unfold dec_rc_m. destruct (dec_rc (hdr_of m o)); reflexivity. }
    unfold add_to_list. destruct (is_in_pc (hdr_of (dec_rc_m o m) o)) eqn:E.
    - rewrite Hpc. destruct (is_in_pc_get _ _ E) as (y & Ey & Hy).
      assert (exists x', get m o = Some x' /\ h_mark (o_hdr x') = PC) as (x' & Ex' & Hx').
      { unfold dec_rc_m in Ey. destruct (dec_rc (hdr_of m o)) as [h|] eqn:Ed.
        - unfold uhdr in Ey. rewrite (get_upd_eq _ _ _ _ Ex) in Ey. injection Ey as <-.
          exists x. split; [exact Ex|]. cbn in Hy. rewrite (dec_rc_mark _ _ Ed), (hdr_of_get _ _ _ Ex) in Hy. exact Hy.
        - exists y. auto. }
      apply (ik_pc _ _ _ _ (proj1 HI) o x' Ex'), Hx'.
    - rewrite Hal. cbn. destruct (_ && _); cbn; apply elem_of_cons; auto.
  Qed.

  (** ** C11: executions_count *)
  Theorem exec_mono n A c m :
    PreA K A c m -> st_exec m <= st_exec (run K P n c m).1.
  Proof. intros HP. destruct (run_buf n A c m HP) as (F & _). apply F. Qed.

  Theorem exec_inside n A c m :
    PreA K A c m -> st_collecting m = true -> st_exec (run K P n c m).1 = st_exec m.
  Proof. intros HP Hc. destruct (run_buf n A c m HP) as (F & _). apply (fr_exec_eq _ _ F Hc). Qed.

  Theorem exec_collect n A m :
    PreA K A KCollect m -> (run K P n KCollect m).2 <> OFuel ->
    st_exec (run K P n KCollect m).1 = N.succ (st_exec m).
  Proof. intros HP Hr. destruct (run_buf n A KCollect m HP) as (_ & _ & H). apply H; auto. Qed.

  (** the collecting flag is restored by every activation *)
  Theorem collecting_restored n A c m :
    PreA K A c m -> st_collecting (run K P n c m).1 = st_collecting m.
  Proof. intros HP. destruct (run_buf n A c m HP) as (F & _). apply F. Qed.

  (** when a collection is started *)
  Lemma step_collect_exec rec m :
    st_exec (step_collect K rec m).1 =
    st_exec (rec (KCollectLoop (if k_fin K then 10 else 1)%nat)
                 (m <| st_collecting := true |> <| st_exec ::= N.succ |>)).1.
  Proof. unfold step_collect. destruct (rec _ _). reflexivity. Qed.

  Lemma step_trigger_spec rec m :
    step_trigger K rec m =
    if negb (st_collecting m) && pc_alive m && should_collect m then
      let '(m1, r) := rec KCollect m in
      match r with ONormal => (adjust_trigger_point K m1, ONormal) | _ => (m1, r) end
    else (m, ONormal).
  Proof.
    unfold step_trigger. destruct (st_collecting m), (pc_alive m), (should_collect m); reflexivity.
  Qed.
  Lemma step_collect_cycles_spec rec m :
    step_collect_cycles K rec m =
    if st_collecting m then (m, ONormal)
    else if pc_alive m then
      let '(m1, r) := rec KCollect m in
      match r with ONormal => (adjust_trigger_point K m1, ONormal) | _ => (m1, r) end
    else (adjust_trigger_point K m, ONormal).
  Proof.
    unfold step_collect_cycles. destruct (st_collecting m), (pc_alive m); reflexivity.
  Qed.

  (** ** The invariant, spelled out *)
  Lemma uflow_spec m : uflow m = false <-> forall o, ~ In (EBad Underflow o) (log m).
  Proof.
    unfold uflow. split.
    - intros H o Hin. assert (existsb uf_ev (log m) = true); [|congruence].
      apply existsb_exists. exists (EBad Underflow o). auto.
    - intros H. destruct (existsb uf_ev (log m)) eqn:E; [|reflexivity].
      apply existsb_exists in E as (e & Hin & He). destruct e; try discriminate.
      destruct b; try discriminate. destruct (H _ Hin).
  Qed.

  Theorem Ibuf_spec A m :
    Ibuf K A m ->
    (* 1 *) (NoDup (pc m) /\ pc_size m = N.of_nat (length (pc m))) /\
    (* 2 *) ((forall o, o ∈ pc m -> exists x, get m o = Some x /\ h_mark (o_hdr x) = PC /\ o_box x <> BNotYet) /\
             (forall o x, get m o = Some x -> h_mark (o_hdr x) = PC -> o ∈ pc m)) /\
    (* 3 *) (NoDup A /\
             (forall o, o ∈ A -> exists x, get m o = Some x /\ h_mark (o_hdr x) = IL /\ o_box x <> BNotYet) /\
             (forall o x, alloc m o x -> h_mark (o_hdr x) = IL -> o ∈ A) /\
             (forall o x, get m o = Some x -> h_mark (o_hdr x) <> IQ)) /\
    (* 4 *) st_alloc m = bytes K m /\
    (* 5 *) pc_alive m = true /\
    (* 6 *) (forall o, ~ In (EBad Underflow o) (log m)) /\
    (* 7 *) (A <> [] -> st_collecting m = true) /\
    (* 8, I-tc *) (forall o, o ∈ pc m -> h_tc (hdr_of m o) = 0).
  Proof.
    intros (I & HA & Hz). destruct (buffered_count A m (conj I (conj HA Hz))) as (B1 & B2 & _ & _ & B5).
    split; [auto|]. split; [split; [exact B5|]|].
    { intros o x Ex Hm. apply (ik_pc _ _ _ _ I o x Ex), Hm. }
    split.
    { pose proof (ik_lists _ _ _ _ I) as Hnd. rewrite app_nil_r in Hnd. split; [exact Hnd|]. split; [|split].
      - intros o Ho. destruct (ik_valid _ _ _ _ I o) as [x Ex]; [rewrite !elem_of_app; auto|].
        exists x. split; [exact Ex|]. destruct (ik_il _ _ _ _ I o x Ex) as [H1 _].
        split; [auto|]. intros Hb. pose proof (ik_box _ _ _ _ I o x Ex Hb). rewrite (H1 Ho) in *. discriminate.
      - intros o x [Ex Hb] Hm. destruct (ik_il _ _ _ _ I o x Ex) as [_ H2].
        destruct (H2 Hm) as [?|Hf]; [assumption|congruence].
      - intros o x Ex Hm. apply (ik_iq _ _ _ _ I o x Ex) in Hm. inversion Hm. }
    split; [exact (ik_bytes _ _ _ _ I)|]. split; [exact (ik_alive _ _ _ _ I)|].
    split; [apply uflow_spec, (ik_uflow _ _ _ _ I)|]. split; [exact HA|].
    intros o Ho. destruct (B5 o Ho) as (x & Ex & Hm & _). rewrite (hdr_of_get _ _ _ Ex).
    exact (Hz o x Ex Hm).
  Qed.

  (** I-tc: every buffered object has tracing counter 0 *)
  Theorem buffered_tc_zero A m : Ibuf K A m -> forall o, o ∈ pc m -> h_tc (hdr_of m o) = 0.
  Proof. intros H. apply (Ibuf_spec A m H). Qed.

  (** a decidable reading of [clean], for examples *)
  Definition cleanb (m : machine) : bool := forallb (fun e => negb (bad_ev e)) (log m).
  Lemma cleanb_clean m : cleanb m = true -> clean m.
  Proof.
    unfold cleanb, clean. rewrite forallb_forall. intros H b o Hin.
    specialize (H _ Hin). cbn in H. destruct (badk b); [discriminate|reflexivity].
  Qed.

  Lemma step_collect_succ rec m :
    (forall c m0, st_exec (rec c m0).1 = st_exec m0) ->
    st_exec (step_collect K rec m).1 = N.succ (st_exec m).
  Proof. intros H. rewrite step_collect_exec, H. reflexivity. Qed.

  (** ** The two ways a collection pass ends *)
  (** drop pass completed: every member of the list is freed *)
  Theorem drop_pass_frees rec L old_d m o :
    o ∈ L -> is_Some (get m o) ->
    box_of (step_drop_list K rec L [] old_d m).1 o = Some BFreed.
  Proof.
    intros Ho [x Ex]. unfold step_drop_list. cbn [fst].
    change (box_of (fold_left (fun m g => dealloc K g (drop_metadata K g m)) L m) o = Some BFreed).
    rewrite box_of_fold_dealloc, decide_True by exact Ho. unfold box_of. rewrite Ex. reflexivity.
  Qed.
  (** finalization pass completed with at least one finalizer run: the list goes back to the
      front of the buffer, in order *)
  Theorem finalize_pass_rebuffers rec L old_f m :
    pc (step_finalize_list K P rec L [] true old_f m).1 = L ++ pc m /\
    pc_size (step_finalize_list K P rec L [] true old_f m).1 = N.of_nat (length L) + pc_size m.
  Proof.
    unfold step_finalize_list. cbn [negb fst].
    match goal with |- context [fold_left ?f L ?X] =>
      destruct (fold_uhdr_proj (fun h => set_mark PC (reset_tc h)) L X) as (A1 & A2 & _) end.
    split.
    - match goal with |- pc ?Y = _ => change (pc Y) with (L ++ pc (fold_left (fun m g => uhdr g (fun h => set_mark PC (reset_tc h)) m) L (m <| st_finalizing := old_f |>))) end.
      f_equal. etransitivity; [exact A1|reflexivity].
    - match goal with |- pc_size ?Y = _ => change (pc_size Y) with (N.of_nat (length L) + pc_size (fold_left (fun m g => uhdr g (fun h => set_mark PC (reset_tc h)) m) L (m <| st_finalizing := old_f |>))) end.
      f_equal. etransitivity; [exact A2|reflexivity].
  Qed.
End Run.
