(** * CoverStep: the coverage invariant (I-cover, property C02) at inner points of a run:
    definitions and the preservation lemmas for the primitive state updates.

    - [rust_cmd] / [rust_prog]: the programs expressible in safe Rust (no
      [CMove (LS i) (LFA i j)]).
    - [MO X A m]: every allocated live CleanerMap outside [X] is owned (positive strong count) and
      no member of the active list [A] is a CleanerMap.
    - [transfer2] / [CoverE_move]: the generic transfer of the classification [Cl] from a state
      [m] to a state [m'].
    - [nsim Xs m m']: "neutral" updates (nothing becomes live, no edge becomes reported, no
      handle moves, no owned map loses its last handle); [CoverE_nsim], [MO_nsim]; one lemma per
      primitive of Machine.v.
    - activations ([CoverE_upd_act]), root changes ([CoverE_reroot]), handle moves (slots,
      fields, cleaner handle, bag, values). *)
From Coq Require Import NArith Bool List Lia.
From stdpp Require Import base list option list_numbers.
From RecordUpdate Require Import RecordSet.
From RC Require Import Hdr Machine RunInd.
From RC Require BufBase Buf.
From RC Require Pass PassCount PassMain.
From RC Require Import Inv InvP SafeHelpers Cover SafeColl SafeCollPass Quiet QuietCover.
Import ListNotations RecordSetNotations.

(** ** Programs expressible in safe Rust *)
Definition rust_cmd (c : cmd) : bool :=
  match c with
  | CMove (LS i) (LFA i' _) => negb (Nat.eqb i i')
  | _ => true
  end.
Definition rust_script (cs : list cmd) : bool := forallb rust_cmd cs.
Definition rust_ok (P : prog) (cmds : list cmd) : bool :=
  forallb rust_script (p_scripts P) && rust_script cmds.

Section Defs.
  Context (K : conf) (P : prog).
  Implicit Types (m : machine) (o p t c r a : id) (x y : obj) (E A X : list id).

  Notation Cl := (Cl P).
  Notation CoverE := (CoverE P).

  Definition alive x : Prop := o_box x = BAlloc /\ o_vst x = VLive.

  Lemma reported_alive x j : reported P x j -> alive x.
  Proof. intros (Hb & _ & Hv & _). split; assumption. Qed.

  (** *** owned maps *)
  Definition MO X A m : Prop :=
    (forall o x, get m o = Some x -> o_ismap x = true -> alive x -> o ∉ X -> h_rc (o_hdr x) <> 0%N) /\
    (forall g, g ∈ A -> exists x, get m g = Some x /\ o_ismap x = false).

  Lemma MO_MapsOwned m : MO [] [] m -> MapsOwned m.
  Proof.
    intros [H _] o x Hx Hm Hb Hv. apply (H o x Hx Hm); [split; assumption|]. apply not_elem_of_nil.
  Qed.

  Lemma MO_mono X X' A A' m :
    (forall r, r ∈ X -> r ∈ X') -> (forall r, r ∈ A' -> r ∈ A) -> MO X A m -> MO X' A' m.
  Proof. intros HX HA [H1 H2]. split; [intros o x Hx Hm Ha Hn; apply (H1 o x Hx Hm Ha); auto | auto]. Qed.

  (** *** roots *)
  Lemma Cl_E E A m o : o ∈ E -> Cl E A m o.
  Proof. intros H. left. apply Reach_root. right. exact H. Qed.
  Lemma Cl_A E A m o : o ∈ A -> Cl E A m o.
  Proof. intros H. right; left. apply Reach_root. right. exact H. Qed.
  Lemma Cl_pc E A m o : o ∈ pc m -> Cl E A m o.
  Proof. intros H. right; left. apply Reach_root. left. exact H. Qed.
  Lemma Cl_root E A m o : o ∈ prog_roots m -> Cl E A m o.
  Proof. intros H. left. apply Reach_root. left. exact H. Qed.
  Lemma Cl_pin E A m o : PinRoot P m o -> Cl E A m o.
  Proof. intros H. right; right. apply Reach_root. exact H. Qed.
  Lemma Cl_slot E A m i o : slots m !! i = Some (Some o) -> Cl E A m o.
  Proof.
    intros H. apply Cl_root. unfold prog_roots. rewrite !elem_of_app. left.
    apply elem_of_list_omap. exists (Some o). split; [eapply elem_of_list_lookup_2, H | reflexivity].
  Qed.
  Lemma Cl_bag E A m o : o ∈ bag m -> Cl E A m o.
  Proof. intros H. apply Cl_root. unfold prog_roots. rewrite !elem_of_app. right; left. exact H. Qed.
  Lemma prog_roots_values m v o r :
    values m !! v = Some (Some o) -> r ∈ all_succ m o -> r ∈ prog_roots m.
  Proof.
    intros Hv Hr. unfold prog_roots. rewrite !elem_of_app. right; right.
    apply elem_of_list_In, in_concat. exists (all_succ m o). split; [|apply elem_of_list_In, Hr].
    apply elem_of_list_In, elem_of_list_omap. exists (Some o). split; [eapply elem_of_list_lookup_2, Hv | reflexivity].
  Qed.
  Lemma prog_roots_inv m r :
    r ∈ prog_roots m ->
    (exists i, slots m !! i = Some (Some r)) \/ r ∈ bag m \/
    (exists v o, values m !! v = Some (Some o) /\ r ∈ all_succ m o).
  Proof.
    unfold prog_roots. rewrite !elem_of_app. intros [H|[H|H]].
    - left. apply elem_of_list_omap in H as (a & Ha & ->). apply elem_of_list_lookup in Ha. exact Ha.
    - right; left. exact H.
    - right; right. apply elem_of_list_In, in_concat in H as (l & Hl & Hr).
      apply elem_of_list_In, elem_of_list_omap in Hl as (vv & Hin & Hv).
      destruct vv as [o|]; [|discriminate]. injection Hv as <-.
      apply elem_of_list_lookup in Hin as [v Hv]. exists v, o. split; [exact Hv | apply elem_of_list_In, Hr].
  Qed.

  Lemma prog_roots_slot m i o : slots m !! i = Some (Some o) -> o ∈ prog_roots m.
  Proof.
    intros H. unfold prog_roots. rewrite !elem_of_app. left.
    apply elem_of_list_omap. exists (Some o). split; [eapply elem_of_list_lookup_2, H | reflexivity].
  Qed.
  Lemma prog_roots_bag m o : o ∈ bag m -> o ∈ prog_roots m.
  Proof. intros H. unfold prog_roots. rewrite !elem_of_app. right; left. exact H. Qed.

  (** the targets of a holder that is not alive are pin roots *)
  Lemma succ_pin m p x c : get m p = Some x -> ~ alive x -> c ∈ all_succ m p -> PinRoot P m c.
  Proof.
    intros Hx Hna Hc. rewrite (all_succ_get m p x Hx) in Hc. apply strong_targets_elem in Hc as [[j Hj]|Hc].
    - eapply PR_field; eauto. intros Hr. apply Hna. eapply reported_alive, Hr.
    - eapply PR_cleaner; eauto.
  Qed.

  (** *** the generic transfer *)
  Section Transfer2.
    Variables (m m' : machine) (E E' A A' : list id) (Lost : id -> Prop).
    Let Good u := Cl E' A' m' u \/ Lost u.
    Hypothesis R1 : forall r, r ∈ prog_roots m \/ r ∈ E -> Good r.
    Hypothesis R2 : forall r, r ∈ pc m \/ r ∈ A -> Good r.
    Hypothesis R3 : forall r, PinRoot P m r -> Good r.
    Hypothesis S : forall p c, c ∈ all_succ m p -> Good p -> Good c.

    Lemma transfer2 u : Cl E A m u -> Good u.
    Proof.
      intros [H|[H|H]].
      - induction H as [r Hr|p c _ IH Hc]; [apply R1, Hr | eapply S; eauto].
      - induction H as [r Hr|p c _ IH Hc]; [apply R2, Hr|].
        eapply S; [apply (traced_succ_all P), Hc | exact IH].
      - induction H as [r Hr|p c _ IH Hc]; [apply R3, Hr | eapply S; eauto].
    Qed.

    Lemma CoverE_transfer2 :
      CoverE E A [] m ->
      (forall u y, get m' u = Some y -> alive y ->
         u ∈ dead m' \/ Cl E' A' m' u \/
         (~ Lost u /\ exists x, get m u = Some x /\ alive x /\ (u ∈ dead m -> u ∈ dead m'))) ->
      CoverE E' A' [] m'.
    Proof.
      intros H HL u y Hy Hb Hv. destruct (HL u y Hy (conj Hb Hv)) as [Hd|[Hc|(Hnl & x & Hx & [Hbx Hvx] & Hd)]]; [auto | auto |].
      destruct (H u x Hx Hbx Hvx) as [?|[Hn|Hc]]; [auto | inversion Hn |].
      destruct (transfer2 u Hc) as [?|?]; [auto | contradiction].
    Qed.
  End Transfer2.

  (** the workhorse: everything of [m] is still there in [m'], or classified *)
  Theorem CoverE_move E E' A A' m m' :
    (forall r, r ∈ prog_roots m -> r ∈ prog_roots m' \/ Cl E' A' m' r) ->
    (forall r, r ∈ E -> Cl E' A' m' r) ->
    (forall r, r ∈ pc m -> r ∈ pc m' \/ Cl E' A' m' r) ->
    (forall r, r ∈ A -> Cl E' A' m' r) ->
    (forall r, PinRoot P m r -> PinRoot P m' r \/ Cl E' A' m' r) ->
    (forall p c, c ∈ all_succ m p -> c ∈ all_succ m' p \/ Cl E' A' m' c) ->
    (forall u y, get m' u = Some y -> alive y ->
       u ∈ dead m' \/ Cl E' A' m' u \/ exists x, get m u = Some x /\ alive x /\ (u ∈ dead m -> u ∈ dead m')) ->
    CoverE E A [] m -> CoverE E' A' [] m'.
  Proof.
    intros Hr HE Hpc HA Hpin Hs Hl H.
    apply (CoverE_transfer2 m m' E E' A A' (fun _ => False)); [| | | |exact H|].
    - intros r [Hr'|Hr']; left; [destruct (Hr r Hr'); [apply Cl_root|]; assumption | apply HE, Hr'].
    - intros r [Hr'|Hr']; left; [destruct (Hpc r Hr'); [apply Cl_pc|]; assumption | apply HA, Hr'].
    - intros r Hr'. left. destruct (Hpin r Hr'); [apply Cl_pin|]; assumption.
    - intros p c Hc [Hp|[]]. left. destruct (Hs p c Hc) as [Hc'|?]; [|assumption]. eapply Cl_step; eauto.
    - intros u y Hy Ha. destruct (Hl u y Hy Ha) as [?|[?|(x & ? & ? & ?)]]; [auto | auto |].
      right; right. split; [tauto|]. eauto.
  Qed.

  (** *** changing the roots in a fixed state: a root may be forgotten when it is classified
      otherwise or when it is not alive (its targets are pin roots then) *)
  Definition notalive m o : Prop := forall x, get m o = Some x -> ~ alive x.

  Theorem CoverE_reroot E E' A A' m :
    (forall r, r ∈ E -> Cl E' A' m r \/ notalive m r) ->
    (forall r, r ∈ A -> Cl E' A' m r \/ notalive m r) ->
    CoverE E A [] m -> CoverE E' A' [] m.
  Proof.
    intros HE HA H. apply (CoverE_transfer2 m m E E' A A' (notalive m)); [| | | |exact H|].
    - intros r [Hr|Hr]; [left; apply Cl_root, Hr | apply HE, Hr].
    - intros r [Hr|Hr]; [left; apply Cl_pc, Hr | apply HA, Hr].
    - intros r Hr. left. apply Cl_pin, Hr.
    - intros p c Hc [Hp|Hp]; left; [eapply Cl_step; eauto|].
      unfold all_succ in Hc. destruct (heap m !! p) as [x|] eqn:Hx; [|inversion Hc].
      apply Cl_pin. eapply (succ_pin m p x c Hx (Hp x Hx)). unfold all_succ. rewrite Hx. exact Hc.
    - intros u y Hy Ha. right; right. split; [intros Hn; apply (Hn y Hy Ha)|]. exists y. auto.
  Qed.

  Corollary CoverE_drop_root_cl E A o m : Cl E A m o -> CoverE (o :: E) A [] m -> CoverE E A [] m.
  Proof.
    intros Ho. apply CoverE_reroot; [|intros r Hr; left; apply Cl_A, Hr].
    intros r Hr. left. apply elem_of_cons in Hr as [->|Hr]; [exact Ho | apply Cl_E, Hr].
  Qed.
  Corollary CoverE_drop_root_dead E A o m : notalive m o -> CoverE (o :: E) A [] m -> CoverE E A [] m.
  Proof.
    intros Ho. apply CoverE_reroot; [|intros r Hr; left; apply Cl_A, Hr].
    intros r Hr. apply elem_of_cons in Hr as [->|Hr]; [right; exact Ho | left; apply Cl_E, Hr].
  Qed.
  Corollary CoverE_more E E' A A' m :
    (forall r, r ∈ E -> r ∈ E') -> (forall r, r ∈ A -> r ∈ A') -> CoverE E A [] m -> CoverE E' A' [] m.
  Proof. intros HE HA. apply CoverE_reroot; intros r Hr; left; [apply Cl_E | apply Cl_A]; auto. Qed.

  (** a root without successors contributes nothing but itself *)
  Lemma Cl_fresh_root E A m o u : all_succ m o = [] -> u <> o -> Cl (o :: E) A m u -> Cl E A m u.
  Proof.
    intros Hs Hne [H|[H|H]]; [|right; left; exact H | right; right; exact H]. left.
    assert (G : u = o \/ ProgReachE E m u); [|destruct G; [contradiction | assumption]].
    clear Hne. induction H as [r [Hr|Hr]|p c _ IH Hc].
    - right. apply Reach_root. left. exact Hr.
    - apply elem_of_cons in Hr as [->|Hr]; [left; reflexivity | right; apply Reach_root; right; exact Hr].
    - right. destruct IH as [->|IH]; [rewrite Hs in Hc; inversion Hc | eapply Reach_step; eauto].
  Qed.
End Defs.

(** ** Neutral updates *)
Section Nsim.
  Context (K : conf) (P : prog).
  Implicit Types (m : machine) (o p t c r a : id) (x y : obj) (E A X Xs : list id).

  Notation Cl := (Cl P).
  Notation CoverE := (CoverE P).

  Record osim (x y : obj) : Prop := {
    os_fields : o_fields y = o_fields x;
    os_cleaner : o_cleaner y = o_cleaner x;
    os_ismap : o_ismap y = o_ismap x;
    os_rep : forall j, reported P y j -> reported P x j;
    os_alive : alive y -> alive x;
  }.
  (** an owned map stays owned *)
  Definition rcok (x y : obj) : Prop :=
    o_ismap x = true -> alive y -> h_rc (o_hdr x) <> 0%N -> h_rc (o_hdr y) <> 0%N.

  Lemma osim_refl x : osim x x.
  Proof. split; auto. Qed.
  Lemma osim_trans x y z : osim x y -> osim y z -> osim x z.
  Proof. intros [A1 A2 A3 A4 A5] [B1 B2 B3 B4 B5]. split; try congruence; auto. Qed.
  Lemma rcok_refl x : rcok x x.
  Proof. intros _ _ H. exact H. Qed.
  Lemma rcok_trans x y z : osim x y -> osim y z -> rcok x y -> rcok y z -> rcok x z.
  Proof.
    intros Sxy Syz R1 R2 Hm Ha Hr. apply R2; [rewrite (os_ismap _ _ Sxy); exact Hm | exact Ha|].
    apply R1; [exact Hm | apply (os_alive _ _ Syz), Ha | exact Hr].
  Qed.

  (** the common case: same status, same handles, same class flags, same strong count *)
  Lemma osim_same x y :
    o_fields y = o_fields x -> o_cleaner y = o_cleaner x -> o_ismap y = o_ismap x ->
    o_box y = o_box x -> o_vst y = o_vst x -> o_cls y = o_cls x -> o_borrowed y = o_borrowed x ->
    osim x y.
  Proof.
    intros H1 H2 H3 H4 H5 H6 H7. split; auto.
    - intros j. unfold reported. rewrite H3, H4, H5, H6, H7. auto.
    - unfold alive. rewrite H4, H5. auto.
  Qed.
  (** an object that is not alive afterwards *)
  Lemma osim_dead x y :
    o_fields y = o_fields x -> o_cleaner y = o_cleaner x -> o_ismap y = o_ismap x -> ~ alive y -> osim x y.
  Proof.
    intros H1 H2 H3 Hn. split; auto.
    - intros j Hr. destruct Hn. eapply reported_alive, Hr.
    - intros Ha. contradiction.
  Qed.
  Lemma rcok_same x y : h_rc (o_hdr y) = h_rc (o_hdr x) -> rcok x y.
  Proof. intros H _ _. rewrite H. auto. Qed.
  Lemma rcok_dead x y : ~ alive y -> rcok x y.
  Proof. intros H _ Ha. contradiction. Qed.

  Record nsim (Xs : list id) (m m' : machine) : Prop := {
    ns_old : forall o x, get m o = Some x -> exists y, get m' o = Some y /\ osim x y /\ (o ∉ Xs -> rcok x y);
    ns_new : forall o y, get m' o = Some y -> get m o = None -> ~ alive y;
    ns_slots : slots m' = slots m;
    ns_bag : bag m' = bag m;
    ns_values : values m' = values m;
    ns_dead : dead m' = dead m;
  }.

  Lemma nsim_refl Xs m : nsim Xs m m.
  Proof.
    split; try reflexivity.
    - intros o x Hx. exists x. split; [exact Hx|]. split; [apply osim_refl | intros _; apply rcok_refl].
    - intros o y Hy Hn. congruence.
  Qed.
  Lemma nsim_trans Xs m1 m2 m3 : nsim Xs m1 m2 -> nsim Xs m2 m3 -> nsim Xs m1 m3.
  Proof.
    intros [A1 A2 A3 A4 A5 A6] [B1 B2 B3 B4 B5 B6]. split; try congruence.
    - intros o x Hx. destruct (A1 o x Hx) as (y & Hy & Sxy & Rxy). destruct (B1 o y Hy) as (z & Hz & Syz & Ryz).
      exists z. split; [exact Hz|]. split; [eapply osim_trans; eauto|].
      intros Hn. eapply rcok_trans; eauto.
    - intros o z Hz Hn. destruct (get m2 o) as [y|] eqn:Hy.
      + destruct (B1 o y Hy) as (z' & Hz' & Syz & _). assert (z' = z) by congruence. subst z'.
        intros Ha. apply (A2 o y Hy Hn). apply (os_alive _ _ Syz), Ha.
      + apply (B2 o z Hz Hy).
  Qed.
  Lemma nsim_weaken Xs Xs' m m' : (forall r, r ∈ Xs -> r ∈ Xs') -> nsim Xs m m' -> nsim Xs' m m'.
  Proof.
    intros HX [A1 A2 A3 A4 A5 A6]. split; auto.
    intros o x Hx. destruct (A1 o x Hx) as (y & Hy & S & R). exists y. split; [exact Hy|]. split; [exact S|].
    intros Hn. apply R. intros Hin. apply Hn, HX, Hin.
  Qed.

  (** the heap is the same *)
  Lemma nsim_same Xs m m' :
    heap m' = heap m -> slots m' = slots m -> bag m' = bag m -> values m' = values m -> dead m' = dead m ->
    nsim Xs m m'.
  Proof.
    intros Hh H1 H2 H3 H4. split; auto.
    - intros o x Hx. exists x. unfold get in *. rewrite Hh. split; [exact Hx|]. split; [apply osim_refl | intros _; apply rcok_refl].
    - intros o y Hy Hn. unfold get in *. rewrite Hh in Hy. congruence.
  Qed.

  (** one object is updated *)
  Lemma nsim_alter Xs m m' a f :
    heap m' = alter f a (heap m) -> slots m' = slots m -> bag m' = bag m -> values m' = values m -> dead m' = dead m ->
    (forall x, get m a = Some x -> osim x (f x) /\ (a ∉ Xs -> rcok x (f x))) ->
    nsim Xs m m'.
  Proof.
    intros Hh H1 H2 H3 H4 Hf. split; auto.
    - intros o x Hx. rewrite (get_alter _ _ _ _ o Hh). destruct (decide (a = o)) as [->|Hne].
      + rewrite Hx. cbn. exists (f x). split; [reflexivity | apply Hf, Hx].
      + exists x. split; [exact Hx|]. split; [apply osim_refl | intros _; apply rcok_refl].
    - intros o y Hy Hn. rewrite (get_alter _ _ _ _ o Hh) in Hy. destruct (decide (a = o)) as [->|Hne].
      + rewrite Hn in Hy. discriminate.
      + congruence.
  Qed.
  Lemma nsim_upd Xs m a f :
    (forall x, get m a = Some x -> osim x (f x) /\ (a ∉ Xs -> rcok x (f x))) -> nsim Xs m (upd a f m).
  Proof. intros Hf. eapply nsim_alter; try reflexivity. exact Hf. Qed.

  (** a fresh object that is not alive is appended *)
  Lemma nsim_app Xs m x0 : ~ alive x0 -> nsim Xs m (m <| heap ::= fun h => h ++ [x0] |>).
  Proof.
    intros Hn. split; try reflexivity.
    - intros o x Hx. exists x. split; [|split; [apply osim_refl | intros _; apply rcok_refl]].
      unfold get in *. cbn. apply lookup_app_l_Some, Hx.
    - intros o y Hy Hnone. unfold get in *. cbn in Hy.
      apply lookup_ge_None in Hnone. rewrite lookup_app_r in Hy by exact Hnone.
      destruct (o - length (heap m))%nat; cbn in Hy; [injection Hy as <-; exact Hn | discriminate].
  Qed.

  Lemma nsim_all_succ Xs m m' p x : nsim Xs m m' -> get m p = Some x -> all_succ m' p = all_succ m p.
  Proof.
    intros H Hx. destruct (ns_old _ _ _ H p x Hx) as (y & Hy & S & _).
    rewrite (all_succ_get m p x Hx), (all_succ_get m' p y Hy). unfold strong_targets.
    rewrite (os_fields _ _ S), (os_cleaner _ _ S). reflexivity.
  Qed.
  Lemma nsim_succ Xs m m' p c : nsim Xs m m' -> c ∈ all_succ m p -> c ∈ all_succ m' p.
  Proof.
    intros H Hc. destruct (get m p) as [x|] eqn:Hx.
    - rewrite (nsim_all_succ Xs m m' p x H Hx). exact Hc.
    - unfold all_succ in Hc. unfold get in Hx. rewrite Hx in Hc. inversion Hc.
  Qed.
  Lemma nsim_prog_roots Xs m m' r : nsim Xs m m' -> r ∈ prog_roots m -> r ∈ prog_roots m'.
  Proof.
    intros H Hr. apply prog_roots_inv in Hr as [[i Hi]|[Hb|(v & o & Hv & Hr)]].
    - apply (prog_roots_slot m' i). rewrite (ns_slots _ _ _ H). exact Hi.
    - apply prog_roots_bag. rewrite (ns_bag _ _ _ H). exact Hb.
    - apply (prog_roots_values m' v o); [rewrite (ns_values _ _ _ H); exact Hv | eapply nsim_succ; eauto].
  Qed.
  Lemma nsim_reported Xs m m' p x y j :
    nsim Xs m m' -> get m p = Some x -> get m' p = Some y -> reported P y j -> reported P x j.
  Proof.
    intros H Hx Hy. destruct (ns_old _ _ _ H p x Hx) as (y' & Hy' & S & _).
    assert (y' = y) by congruence. subst. apply (os_rep _ _ S).
  Qed.
  Lemma nsim_PinRoot Xs m m' r : nsim Xs m m' -> PinRoot P m r -> PinRoot P m' r.
  Proof.
    intros H [p x j t Hx Hj Hn|p x t Hx Hc|t Hd].
    - destruct (ns_old _ _ _ H p x Hx) as (y & Hy & S & _).
      eapply PR_field; [exact Hy | rewrite (os_fields _ _ S); exact Hj|].
      intros Hr. apply Hn, (os_rep _ _ S), Hr.
    - destruct (ns_old _ _ _ H p x Hx) as (y & Hy & S & _).
      eapply PR_cleaner; [exact Hy | rewrite (os_cleaner _ _ S); exact Hc].
    - apply PR_dead. rewrite (ns_dead _ _ _ H). exact Hd.
  Qed.

  Theorem CoverE_nsim Xs E A m m' :
    nsim Xs m m' -> (forall r, r ∈ pc m -> r ∈ pc m' \/ Cl E A m' r) ->
    CoverE E A [] m -> CoverE E A [] m'.
  Proof.
    intros H Hpc. apply CoverE_move.
    - intros r Hr. left. eapply nsim_prog_roots; eauto.
    - intros r Hr. apply Cl_E, Hr.
    - exact Hpc.
    - intros r Hr. apply Cl_A, Hr.
    - intros r Hr. left. eapply nsim_PinRoot; eauto.
    - intros p c Hc. left. eapply nsim_succ; eauto.
    - intros u y Hy Ha. right; right. destruct (get m u) as [x|] eqn:Hx.
      + destruct (ns_old _ _ _ H u x Hx) as (y' & Hy' & S & _). assert (y' = y) by congruence. subst y'.
        exists x. split; [reflexivity|]. split; [apply (os_alive _ _ S), Ha|]. rewrite (ns_dead _ _ _ H). auto.
      + destruct (ns_new _ _ _ H u y Hy Hx Ha).
  Qed.

  Theorem MO_nsim Xs X A m m' : nsim Xs m m' -> MO X A m -> MO (Xs ++ X) A m'.
  Proof.
    intros H [M1 M2]. split.
    - intros o y Hy Hm Ha Hn. rewrite elem_of_app in Hn. destruct (get m o) as [x|] eqn:Hx.
      + destruct (ns_old _ _ _ H o x Hx) as (y' & Hy' & S & R). assert (y' = y) by congruence. subst y'.
        rewrite (os_ismap _ _ S) in Hm. apply R; [tauto | exact Hm | exact Ha|].
        apply (M1 o x Hx Hm); [apply (os_alive _ _ S), Ha | tauto].
      + destruct (ns_new _ _ _ H o y Hy Hx Ha).
    - intros g Hg. destruct (M2 g Hg) as (x & Hx & Hm). destruct (ns_old _ _ _ H g x Hx) as (y & Hy & S & _).
      exists y. split; [exact Hy|]. rewrite (os_ismap _ _ S). exact Hm.
  Qed.
  Corollary MO_nsim0 X A m m' : nsim [] m m' -> MO X A m -> MO X A m'.
  Proof. intros H M. apply (MO_nsim [] X A m m' H M). Qed.

  (** *** the primitives of Machine.v *)
  Ltac same := apply nsim_same; reflexivity.

  Lemma nsim_emit Xs e m : nsim Xs m (emit e m).
  Proof. same. Qed.
  Lemma nsim_emit_bad Xs b o m : nsim Xs m (emit_bad b o m).
  Proof. same. Qed.
  Lemma nsim_tick Xs k m : nsim Xs m (tick k m).1.
  Proof. unfold tick. destruct (get_fuse k m =? 0)%N; [apply nsim_refl|]. destruct k; same. Qed.
  Lemma nsim_set_fuse Xs k n m : nsim Xs m (set_fuse k n m).
  Proof. destruct k; same. Qed.
  Lemma nsim_dec_size Xs o m : nsim Xs m (dec_size o m).
  Proof. unfold dec_size. destruct (pc_size m =? 0)%N; same. Qed.
  Lemma nsim_adjust Xs m : nsim Xs m (adjust_trigger_point K m).
  Proof.
    unfold adjust_trigger_point, adjust. destruct (k_auto K); [|apply nsim_refl].
    destruct (cf_thr m <=? st_alloc m)%N; [same|]. destruct (fprod_is_zero _ _); [apply nsim_refl | same].
  Qed.

  (** header-only updates *)
  Lemma osim_hdr x g : osim x (x <| o_hdr ::= g |>).
  Proof. apply osim_same; reflexivity. Qed.
  Lemma nsim_uhdr Xs o g m :
    (o ∈ Xs \/ forall h, h_rc h <> 0%N -> h_rc (g h) <> 0%N) -> nsim Xs m (uhdr o g m).
  Proof.
    intros Hg. apply nsim_upd. intros x Hx. split; [apply osim_hdr|].
    intros Hn _ _ Hr. destruct Hg as [?|Hg]; [contradiction | apply Hg, Hr].
  Qed.
  Lemma nsim_uhdr_rc Xs o g m : (forall h, h_rc (g h) = h_rc h) -> nsim Xs m (uhdr o g m).
  Proof. intros Hg. apply nsim_uhdr. right. intros h. rewrite Hg. auto. Qed.

  (** updates of fields that neither Cover nor MO read *)
  Lemma nsim_upd_same Xs a f m :
    (forall x, o_fields (f x) = o_fields x /\ o_cleaner (f x) = o_cleaner x /\ o_ismap (f x) = o_ismap x /\
               o_box (f x) = o_box x /\ o_vst (f x) = o_vst x /\ o_cls (f x) = o_cls x /\
               o_borrowed (f x) = o_borrowed x /\ h_rc (o_hdr (f x)) = h_rc (o_hdr x)) ->
    nsim Xs m (upd a f m).
  Proof.
    intros Hf. apply nsim_upd. intros x _. destruct (Hf x) as (H1 & H2 & H3 & H4 & H5 & H6 & H7 & H8).
    split; [apply osim_same; assumption | intros _; apply rcok_same, H8].
  Qed.
  (** the object is not alive afterwards *)
  Lemma nsim_upd_dead Xs a f m :
    (forall x, o_fields (f x) = o_fields x /\ o_cleaner (f x) = o_cleaner x /\ o_ismap (f x) = o_ismap x /\
               ~ alive (f x)) ->
    nsim Xs m (upd a f m).
  Proof.
    intros Hf. apply nsim_upd. intros x _. destruct (Hf x) as (H1 & H2 & H3 & H4).
    split; [apply osim_dead; assumption | intros _; apply rcok_dead, H4].
  Qed.

  Lemma nsim_remove_from_list Xs o m : nsim Xs m (remove_from_list o m).
  Proof.
    unfold remove_from_list. destruct (is_in_pc (hdr_of m o)); [|apply nsim_refl].
    destruct (pc_alive m); [|apply nsim_refl].
    eapply nsim_trans; [|apply nsim_dec_size].
    eapply nsim_trans; [apply (nsim_uhdr_rc Xs o (set_mark NM)); reflexivity | same].
  Qed.
  Lemma nsim_add_to_list Xs o m : nsim Xs m (add_to_list o m).
  Proof.
    unfold add_to_list. destruct (is_in_pc (hdr_of m o)); [apply nsim_refl|].
    destruct (pc_alive m); [|apply nsim_refl].
    set (m1 := if _ : bool then m else emit_bad AssertFail o m).
    assert (H1 : nsim Xs m m1) by (subst m1; destruct (_ && _); [apply nsim_refl | apply nsim_emit_bad]).
    eapply nsim_trans; [exact H1|]. eapply nsim_trans; [|apply nsim_uhdr_rc; reflexivity]. same.
  Qed.

  Lemma nsim_dec_rc Xs o m :
    (o ∈ Xs \/ forall x, get m o = Some x -> o_ismap x = true -> h_rc (o_hdr x) <> 1%N) ->
    nsim Xs m (dec_rc_m o m).
  Proof.
    intros Ho. unfold dec_rc_m, dec_rc. destruct (h_rc (hdr_of m o) =? 0)%N eqn:Ez; [apply nsim_emit_bad|].
    apply nsim_upd. intros x Hx. split; [apply osim_hdr|]. intros Hn Hm _ Hr. cbn.
    destruct Ho as [?|Ho]; [contradiction|]. specialize (Ho x Hx Hm). rewrite (hdr_of_get _ _ _ Hx). cbn. lia.
  Qed.

  Lemma nsim_dealloc Xs o m : nsim Xs m (dealloc K o m).
  Proof.
    unfold dealloc. destruct (get m o) as [x|] eqn:Hx; [|apply nsim_emit_bad].
    destruct (box_layout K x) as [sz al].
    set (m1 := match o_box x with BAlloc => m | _ => emit_bad DoubleFree o m end).
    assert (H1 : nsim Xs m m1) by (subst m1; destruct (o_box x); first [apply nsim_refl | apply nsim_emit_bad]).
    set (m2 := if (st_alloc m1 <? sz)%N then emit_bad Underflow o m1 else m1).
    assert (H2 : nsim Xs m1 m2) by (subst m2; destruct (_ <? _)%N; [apply nsim_emit_bad | apply nsim_refl]).
    eapply nsim_trans; [exact H1|]. eapply nsim_trans; [exact H2|].
    eapply nsim_trans; [|apply nsim_emit]. eapply nsim_trans; [|apply nsim_upd_dead].
    - same.
    - intros y. repeat split. intros [Hb _]. discriminate Hb.
  Qed.

  Lemma nsim_uside Xs o f m : nsim Xs m (uside o f m).
  Proof. apply nsim_upd_same. intros x. repeat split. Qed.
  Lemma nsim_sfree Xs o m : nsim Xs m (sfree o m).
  Proof.
    unfold sfree. destruct (get m o) as [x|]; [|apply nsim_emit_bad].
    destruct (o_side x) as [s|]; [|apply nsim_emit_bad].
    eapply nsim_trans; [|apply nsim_emit]. eapply nsim_trans; [|apply nsim_upd_same; intros y; repeat split].
    destruct (sd_freed s); [apply nsim_emit_bad | apply nsim_refl].
  Qed.
  Lemma nsim_drop_metadata Xs o m : nsim Xs m (drop_metadata K o m).
  Proof.
    unfold drop_metadata. destruct (negb (k_weak K)); [apply nsim_refl|].
    destruct (get m o) as [x|]; [|apply nsim_emit_bad]. destruct (h_side (o_hdr x)); [|apply nsim_refl].
    destruct (o_side x) as [s|]; [|apply nsim_emit_bad].
    set (m1 := if sd_freed s then emit_bad UseAfterFree o m else m).
    assert (H1 : nsim Xs m m1) by (subst m1; destruct (sd_freed s); [apply nsim_emit_bad | apply nsim_refl]).
    eapply nsim_trans; [exact H1|]. destruct (_ =? 0)%N; [apply nsim_sfree | apply nsim_uside].
  Qed.
  Lemma nsim_init_side Xs o m : nsim Xs m (init_side o m).
  Proof.
    unfold init_side. destruct (get m o) as [x|]; [|apply nsim_emit_bad].
    destruct (h_side (o_hdr x)); [apply nsim_refl|].
    eapply nsim_trans; [|apply nsim_emit]. apply nsim_upd_same. intros y. repeat split.
  Qed.
  Lemma nsim_weak_drop Xs w m : nsim Xs m (weak_drop w m).
  Proof.
    destruct w as [|o]; [apply nsim_refl|]. unfold weak_drop.
    destruct (get m o) as [x|]; [|apply nsim_emit_bad]. destruct (o_side x) as [s|]; [|apply nsim_emit_bad].
    set (m1 := if sd_freed s then emit_bad UseAfterFree o m else m).
    assert (H1 : nsim Xs m m1) by (subst m1; destruct (sd_freed s); [apply nsim_emit_bad | apply nsim_refl]).
    eapply nsim_trans; [exact H1|]. destruct (dec_wk (sd_wk s)) as [k'|]; [|apply nsim_emit_bad].
    destruct (_ && _); [eapply nsim_trans; [apply nsim_uside | apply nsim_sfree] | apply nsim_uside].
  Qed.
  Lemma nsim_weak_drop_opt Xs w m : nsim Xs m (weak_drop_opt w m).
  Proof. destruct w; [apply nsim_weak_drop | apply nsim_refl]. Qed.
  Lemma nsim_fold_weak_drop Xs l : forall m, nsim Xs m (fold_left (fun m w => weak_drop_opt w m) l m).
  Proof.
    induction l as [|w l IH]; intros m; [apply nsim_refl|]. cbn.
    eapply nsim_trans; [apply nsim_weak_drop_opt | apply IH].
  Qed.
  Lemma nsim_weak_clone Xs w m m' : weak_clone w m = Some m' -> nsim Xs m m'.
  Proof.
    destruct w as [|o]; cbn; [intros [= <-]; apply nsim_refl|].
    destruct (side_wk m o) as [k|]; [|intros [= <-]; apply nsim_emit_bad].
    destruct (inc_wk k); [|discriminate]. intros [= <-]. apply nsim_uside.
  Qed.
  Lemma nsim_weak_strong_count Xs w m : nsim Xs m (weak_strong_count w m).1.
  Proof.
    destruct w as [|o]; cbn; [apply nsim_refl|].
    destruct (get m o) as [x|]; [|apply nsim_emit_bad]. destruct (o_side x) as [s|]; [|apply nsim_emit_bad].
    set (m1 := if sd_freed s then emit_bad UseAfterFree o m else m).
    assert (H1 : nsim Xs m m1) by (subst m1; destruct (sd_freed s); [apply nsim_emit_bad | apply nsim_refl]).
    destruct (w_acc (sd_wk s)); [|exact H1].
    set (m2 := match o_box x with BAlloc => m1 | _ => emit_bad UseAfterFree o m1 end).
    assert (H2 : nsim Xs m1 m2) by (subst m2; destruct (o_box x); first [apply nsim_refl | apply nsim_emit_bad]).
    destruct (_ || _); cbn; eapply nsim_trans; eauto.
  Qed.
  Lemma nsim_weak_weak_count Xs w m : nsim Xs m (weak_weak_count w m).1.
  Proof.
    destruct w as [|o]; cbn; [apply nsim_refl|].
    destruct (get m o) as [x|]; [|apply nsim_emit_bad]. destruct (o_side x) as [s|]; [|apply nsim_emit_bad].
    cbn. destruct (sd_freed s); [apply nsim_emit_bad | apply nsim_refl].
  Qed.
  Lemma nsim_write_wloc Xs (rw : rwloc) v m : nsim Xs m (write_wloc rw v m).
  Proof.
    destruct rw as [i|o j|]; cbn; [same | | apply nsim_refl]. apply nsim_upd_same. intros x. repeat split.
  Qed.
  Lemma nsim_map_insert Xs mo aid sc m : nsim Xs m (map_insert mo aid sc m).1.
  Proof.
    unfold map_insert. destruct (get m mo) as [x|]; [|apply nsim_emit_bad].
    destruct (o_mfree x); cbn; apply nsim_upd_same; intros y; repeat split.
  Qed.
  Lemma nsim_new_node Xs cls m : nsim Xs m (new_node P cls m).1.
  Proof. unfold new_node. cbn. apply nsim_app. intros [Hb _]. discriminate Hb. Qed.
  Lemma nsim_new_map Xs m : nsim Xs m (new_map m).1.
  Proof. unfold new_map. cbn. apply nsim_app. intros [Hb _]. discriminate Hb. Qed.

  (** value-state transitions away from [VLive], the borrow flag being set *)
  Lemma nsim_set_vst Xs a v m : v <> VLive -> nsim Xs m (upd a (fun x => x <| o_vst := v |>) m).
  Proof. intros Hv. apply nsim_upd_dead. intros x. repeat split. intros [_ Hl]. cbn in Hl. contradiction. Qed.
  Lemma nsim_borrow Xs a m : nsim Xs m (upd a (fun x => x <| o_borrowed := true |>) m).
  Proof.
    apply nsim_upd. intros x _. split; [|intros _; apply rcok_same; reflexivity].
    split; try reflexivity; [|auto]. intros j (_ & _ & _ & Hb & _). discriminate Hb.
  Qed.

  (** the tracing pass and other mark / tracing-counter changes *)
  Lemma nsim_gsim Xs m m' : gsim m m' -> nsim Xs m m'.
  Proof.
    intros Hg. pose proof Hg as (_ & G2 & G3 & G4 & G5). split; auto.
    - intros o x Hx. destruct (gsim_get_l m m' o x Hg Hx) as (y & Hy & Hs).
      pose proof (Pass.obj_sim_fields _ _ Hs) as ((Hrc & _) & Ev & Eb & _ & Ec & Em & Ef & _ & Ecl & Ebo & _).
      exists y. split; [exact Hy|]. split; [apply osim_same; assumption | intros _; apply rcok_same, Hrc].
    - intros o y Hy Hn. destruct (gsim_get_r m m' o y Hg Hy) as (x & Hx & _). congruence.
  Qed.
End Nsim.

(** ** Activations and handle moves *)
Section Moves.
  Context (K : conf) (P : prog).
  Implicit Types (m : machine) (o p t c r a : id) (x y : obj) (E A X Xs : list id).

  Notation Cl := (Cl P).
  Notation CoverE := (CoverE P).

  Lemma get_upd_ne' a f m q : q <> a -> get (upd a f m) q = get m q.
  Proof. intros H. apply get_upd_ne. auto. Qed.

  Lemma all_succ_upd_ne a f m p : p <> a -> all_succ (upd a f m) p = all_succ m p.
  Proof. intros Hne. unfold all_succ. fold (get (upd a f m) p). fold (get m p). rewrite (get_upd_ne' _ _ _ _ Hne). reflexivity. Qed.
  Lemma all_succ_upd_same a f m x :
    get m a = Some x -> o_fields (f x) = o_fields x -> o_cleaner (f x) = o_cleaner x ->
    forall p, all_succ (upd a f m) p = all_succ m p.
  Proof.
    intros Hx Hf Hc p. destruct (decide (p = a)) as [->|Hne]; [|apply all_succ_upd_ne, Hne].
    rewrite (all_succ_get m a x Hx), (all_succ_get _ a (f x) (get_upd_eq _ _ _ _ Hx)).
    unfold strong_targets. rewrite Hf, Hc. reflexivity.
  Qed.

  (** program roots when only the heap changes *)
  Lemma prog_roots_heap m m' r :
    slots m' = slots m -> bag m' = bag m -> values m' = values m ->
    (forall p c, c ∈ all_succ m p -> c ∈ all_succ m' p) ->
    r ∈ prog_roots m -> r ∈ prog_roots m'.
  Proof.
    intros H1 H2 H3 Hs Hr. apply prog_roots_inv in Hr as [[i Hi]|[Hb|(v & o & Hv & Hr)]].
    - apply (prog_roots_slot m' i). rewrite H1. exact Hi.
    - apply prog_roots_bag. rewrite H2. exact Hb.
    - apply (prog_roots_values m' v o); [rewrite H3; exact Hv | apply Hs, Hr].
  Qed.

  (** *** an object is updated while it is classified in the new state: whatever its new status,
      its handles being the same *)
  Theorem CoverE_upd_act E A a f m x :
    get m a = Some x -> o_fields (f x) = o_fields x -> o_cleaner (f x) = o_cleaner x ->
    Cl E A (upd a f m) a -> CoverE E A [] m -> CoverE E A [] (upd a f m).
  Proof.
    intros Hx Hf Hc Ha. pose proof (all_succ_upd_same a f m x Hx Hf Hc) as Hs.
    apply CoverE_move.
    - intros r Hr. left. apply (prog_roots_heap m (upd a f m) r); [reflexivity | reflexivity | reflexivity | | exact Hr].
      intros p c. rewrite Hs. auto.
    - intros r Hr. apply Cl_E, Hr.
    - intros r Hr. left. exact Hr.
    - intros r Hr. apply Cl_A, Hr.
    - intros r [p y j t Hy Hj Hn|p y t Hy Hcl|t Hd].
      + destruct (decide (p = a)) as [->|Hne].
        * right. eapply Cl_step; [exact Ha|]. rewrite Hs. eapply all_succ_field; eauto.
        * left. eapply PR_field; [rewrite (get_upd_ne' _ _ _ _ Hne); exact Hy | exact Hj | exact Hn].
      + destruct (decide (p = a)) as [->|Hne].
        * right. eapply Cl_step; [exact Ha|]. rewrite Hs. eapply all_succ_cleaner; eauto.
        * left. eapply PR_cleaner; [rewrite (get_upd_ne' _ _ _ _ Hne); exact Hy | exact Hcl].
      + left. apply PR_dead. exact Hd.
    - intros p c Hc'. left. rewrite Hs. exact Hc'.
    - intros u y Hy Hal. destruct (decide (u = a)) as [->|Hne]; [right; left; exact Ha|].
      right; right. rewrite (get_upd_ne' _ _ _ _ Hne) in Hy. exists y. auto.
  Qed.

  (** *** program variables change, the heap does not *)
  Theorem CoverE_vars E E' A m m' :
    heap m' = heap m -> pc m' = pc m -> dead m' = dead m ->
    (forall r, r ∈ prog_roots m -> r ∈ prog_roots m' \/ Cl E' A m' r) ->
    (forall r, r ∈ E -> Cl E' A m' r) ->
    CoverE E A [] m -> CoverE E' A [] m'.
  Proof.
    intros Hh Hpc Hd Hr HE.
    assert (Hg : forall o, get m' o = get m o) by (intros o; unfold get; rewrite Hh; reflexivity).
    assert (Hs : forall p, all_succ m' p = all_succ m p) by (intros p; unfold all_succ; rewrite Hh; reflexivity).
    apply CoverE_move; auto.
    - intros r Hr'. left. rewrite Hpc. exact Hr'.
    - intros r Hr'. apply Cl_A, Hr'.
    - intros r [p y j t Hy Hj Hn|p y t Hy Hcl|t Ht]; left.
      + eapply PR_field; [rewrite Hg; exact Hy | exact Hj | exact Hn].
      + eapply PR_cleaner; [rewrite Hg; exact Hy | exact Hcl].
      + apply PR_dead. rewrite Hd. exact Ht.
    - intros p c Hc. left. rewrite Hs. exact Hc.
    - intros u y Hy Ha. right; right. rewrite Hg in Hy. exists y. rewrite Hd. auto.
  Qed.

  Lemma CoverE_bag_pop E A o b m :
    bag m = o :: b -> CoverE E A [] m -> CoverE (o :: E) A [] (m <| bag := b |>).
  Proof.
    intros Hb. apply CoverE_vars; try reflexivity.
    - intros r Hr. apply prog_roots_inv in Hr as [[i Hi]|[Hbg|(v & o' & Hv & Hr)]].
      + left. eapply prog_roots_slot. exact Hi.
      + rewrite Hb in Hbg. apply elem_of_cons in Hbg as [->|Hbg]; [right; apply Cl_E; left | left; apply prog_roots_bag; exact Hbg].
      + left. eapply (prog_roots_values _ v o'); [exact Hv | exact Hr].
    - intros r Hr. apply Cl_E. right. exact Hr.
  Qed.
  Lemma CoverE_bag_push E A o m :
    CoverE (o :: E) A [] m -> CoverE E A [] (m <| bag ::= cons o |>).
  Proof.
    apply CoverE_vars; try reflexivity.
    - intros r Hr. left. apply prog_roots_inv in Hr as [[i Hi]|[Hbg|(v & o' & Hv & Hr)]].
      + eapply prog_roots_slot. exact Hi.
      + apply prog_roots_bag. cbn. right. exact Hbg.
      + eapply (prog_roots_values _ v o'); [exact Hv | exact Hr].
    - intros r Hr. apply elem_of_cons in Hr as [->|Hr]; [apply Cl_bag; cbn; left | apply Cl_E, Hr].
  Qed.
  Lemma CoverE_values_unset E A v o m :
    values m !! v = Some (Some o) -> CoverE E A [] m -> CoverE (o :: E) A [] (m <| values ::= <[v := None]> |>).
  Proof.
    intros Hv. apply CoverE_vars; try reflexivity.
    - intros r Hr. apply prog_roots_inv in Hr as [[i Hi]|[Hbg|(v' & o' & Hv' & Hr)]].
      + left. eapply prog_roots_slot. exact Hi.
      + left. apply prog_roots_bag. exact Hbg.
      + destruct (decide (v' = v)) as [->|Hne].
        * right. assert (o' = o) by congruence. subst o'. left. eapply Reach_step; [apply Reach_root; right; left | exact Hr].
        * left. eapply (prog_roots_values _ v' o'); [cbn; rewrite list_lookup_insert_ne by auto; exact Hv' | exact Hr].
    - intros r Hr. apply Cl_E. right. exact Hr.
  Qed.
  Lemma CoverE_values_set E A v o m :
    values m !! v = Some None -> CoverE E A [] m -> CoverE E A [] (m <| values ::= <[v := Some o]> |>).
  Proof.
    intros Hv. apply CoverE_vars; try reflexivity.
    - intros r Hr. left. apply prog_roots_inv in Hr as [[i Hi]|[Hbg|(v' & o' & Hv' & Hr)]].
      + eapply prog_roots_slot. exact Hi.
      + apply prog_roots_bag. exact Hbg.
      + assert (v' <> v) by congruence.
        eapply (prog_roots_values _ v' o'); [cbn; rewrite list_lookup_insert_ne by auto; exact Hv' | exact Hr].
    - intros r Hr. apply Cl_E, Hr.
  Qed.

  (** *** the cleaner handle of an object *)
  Lemma CoverE_take_cleaner E A a t m x :
    get m a = Some x -> o_cleaner x = Some t ->
    CoverE E A [] m -> CoverE (t :: E) A [] (upd a (fun x => x <| o_cleaner := None |>) m).
  Proof.
    intros Hx Hc. set (m' := upd a _ m).
    assert (Hg : get m' a = Some (x <| o_cleaner := None |>)) by (apply get_upd_eq, Hx).
    assert (Hs : forall p c, c ∈ all_succ m p -> c ∈ all_succ m' p \/ c = t).
    { intros p c Hc'. destruct (decide (p = a)) as [->|Hne]; [|left; unfold m'; rewrite all_succ_upd_ne by auto; exact Hc'].
      rewrite (all_succ_get m a x Hx) in Hc'. rewrite (all_succ_get m' a _ Hg).
      apply strong_targets_elem in Hc' as [[j Hj]|Hc']; [left; apply strong_targets_elem; left; eauto | right; congruence]. }
    apply CoverE_move.
    - intros r Hr. apply prog_roots_inv in Hr as [[i Hi]|[Hbg|(v & o' & Hv & Hr)]].
      + left. eapply prog_roots_slot. exact Hi.
      + left. apply prog_roots_bag. exact Hbg.
      + destruct (Hs o' r Hr) as [Hr'| ->]; [left; eapply (prog_roots_values m' v o'); [exact Hv | exact Hr'] | right; apply Cl_E; left].
    - intros r Hr. apply Cl_E. right. exact Hr.
    - intros r Hr. left. exact Hr.
    - intros r Hr. apply Cl_A, Hr.
    - intros r [p y j t' Hy Hj Hn|p y t' Hy Hcl|t' Hd].
      + left. destruct (decide (p = a)) as [->|Hne].
        * assert (y = x) by congruence. subst y. eapply PR_field; [exact Hg | exact Hj | exact Hn].
        * eapply PR_field; [unfold m'; rewrite (get_upd_ne' _ _ _ _ Hne); exact Hy | exact Hj | exact Hn].
      + destruct (decide (p = a)) as [->|Hne].
        * right. assert (t' = t) by congruence. subst t'. apply Cl_E. left.
        * left. eapply PR_cleaner; [unfold m'; rewrite (get_upd_ne' _ _ _ _ Hne); exact Hy | exact Hcl].
      + left. apply PR_dead. exact Hd.
    - intros p c Hc'. destruct (Hs p c Hc') as [?| ->]; [left; assumption | right; apply Cl_E; left].
    - intros u y Hy Ha. right; right. destruct (decide (u = a)) as [->|Hne].
      + rewrite Hg in Hy. injection Hy as <-. exists x. auto.
      + unfold m' in Hy. rewrite (get_upd_ne' _ _ _ _ Hne) in Hy. exists y. auto.
  Qed.

  Lemma CoverE_set_cleaner E A a t m x :
    get m a = Some x -> o_cleaner x = None ->
    CoverE (t :: E) A [] m -> CoverE E A [] (upd a (fun x => x <| o_cleaner := Some t |>) m).
  Proof.
    intros Hx Hc. set (m' := upd a _ m).
    assert (Hg : get m' a = Some (x <| o_cleaner := Some t |>)) by (apply get_upd_eq, Hx).
    assert (Hs : forall p c, c ∈ all_succ m p -> c ∈ all_succ m' p).
    { intros p c Hc'. destruct (decide (p = a)) as [->|Hne]; [|unfold m'; rewrite all_succ_upd_ne by auto; exact Hc'].
      rewrite (all_succ_get m a x Hx) in Hc'. rewrite (all_succ_get m' a _ Hg).
      apply strong_targets_elem in Hc' as [[j Hj]|Hc']; [apply strong_targets_elem; left; eauto | congruence]. }
    apply CoverE_move.
    - intros r Hr. left. apply (prog_roots_heap m m' r); [reflexivity | reflexivity | reflexivity | exact Hs | exact Hr].
    - intros r Hr. apply elem_of_cons in Hr as [->|Hr]; [|apply Cl_E, Hr].
      apply Cl_pin. eapply PR_cleaner; [exact Hg | reflexivity].
    - intros r Hr. left. exact Hr.
    - intros r Hr. apply Cl_A, Hr.
    - intros r [p y j t' Hy Hj Hn|p y t' Hy Hcl|t' Hd]; left.
      + destruct (decide (p = a)) as [->|Hne].
        * assert (y = x) by congruence. subst y. eapply PR_field; [exact Hg | exact Hj | exact Hn].
        * eapply PR_field; [unfold m'; rewrite (get_upd_ne' _ _ _ _ Hne); exact Hy | exact Hj | exact Hn].
      + destruct (decide (p = a)) as [->|Hne]; [congruence|].
        eapply PR_cleaner; [unfold m'; rewrite (get_upd_ne' _ _ _ _ Hne); exact Hy | exact Hcl].
      + apply PR_dead. exact Hd.
    - intros p c Hc'. left. apply Hs, Hc'.
    - intros u y Hy Ha. right; right. destruct (decide (u = a)) as [->|Hne].
      + rewrite Hg in Hy. injection Hy as <-. exists x. auto.
      + unfold m' in Hy. rewrite (get_upd_ne' _ _ _ _ Hne) in Hy. exists y. auto.
  Qed.

  (** *** stores through [write_loc] *)
  Definition store_ok E A (rl : rloc) m : Prop :=
    match rl with
    | RSlot _ => True
    | RField p j => forall xp, get m p = Some xp -> reported P xp j -> p ∈ dead m \/ Cl E A m p
    end.
  Definition idx_ok (rl : rloc) m : Prop :=
    match rl with
    | RSlot i => (i < length (slots m))%nat
    | RField p j => exists xp, get m p = Some xp /\ (j < length (o_fields xp))%nat
    end.

  Theorem CoverE_write_loc E A rl v m :
    idx_ok rl m -> (forall t, v = Some t -> store_ok E A rl m) ->
    CoverE (olist v ++ E) A [] m -> CoverE (olist (read_loc rl m) ++ E) A [] (write_loc rl v m).
  Proof.
    destruct rl as [i|p j]; intros Hi Hs H.
    - apply CoverE_write_slot; assumption.
    - destruct Hi as (xp & Hx & Hj). apply (CoverE_write_field P E A [] p j v m xp Hx Hj); [|exact H].
      intros t Hv Hr. apply (Hs t Hv xp Hx Hr).
  Qed.

  (** *** [MO] *)
  Lemma MO_heap X A m m' : heap m' = heap m -> MO X A m -> MO X A m'.
  Proof. intros Hh [M1 M2]. split; intros o; unfold get; rewrite Hh; [apply M1 | apply M2]. Qed.
  Lemma MO_upd X A a f m :
    (forall x, get m a = Some x -> o_ismap (f x) = o_ismap x /\
       (o_ismap x = true -> alive (f x) -> a ∉ X -> h_rc (o_hdr (f x)) <> 0%N)) ->
    MO X A m -> MO X A (upd a f m).
  Proof.
    intros Hf [M1 M2]. split.
    - intros o y Hy Hm Ha Hn. destruct (decide (o = a)) as [->|Hne].
      + rewrite get_upd, decide_True in Hy by reflexivity. destruct (get m a) as [x|] eqn:Hx; [|discriminate].
        injection Hy as <-. destruct (Hf x eq_refl) as [F1 F2]. rewrite F1 in Hm. apply F2; assumption.
      + rewrite (get_upd_ne' _ _ _ _ Hne) in Hy. apply (M1 o y Hy Hm Ha Hn).
    - intros g Hg. destruct (M2 g Hg) as (x & Hx & Hm). destruct (decide (g = a)) as [->|Hne].
      + exists (f x). split; [apply get_upd_eq, Hx|]. destruct (Hf x Hx) as [F1 _]. congruence.
      + exists x. split; [rewrite (get_upd_ne' _ _ _ _ Hne); exact Hx | exact Hm].
  Qed.
  (** fields, cleaner handle, flags: everything but header, box, value state *)
  Lemma MO_upd_same X A a f m :
    (forall x, o_ismap (f x) = o_ismap x /\ o_box (f x) = o_box x /\ o_vst (f x) = o_vst x /\ o_hdr (f x) = o_hdr x) ->
    MO X A m -> MO X A (upd a f m).
  Proof.
    intros Hf M. pose proof M as [M1 _]. apply MO_upd; [|exact M]. intros x Hx. destruct (Hf x) as (F1 & F2 & F3 & F4).
    split; [exact F1|]. intros Hm [Hb Hv] Hn. rewrite F4. apply (M1 a x Hx Hm); [split; congruence | exact Hn].
  Qed.
  Lemma MO_write_loc X A rl v m : MO X A m -> MO X A (write_loc rl v m).
  Proof.
    destruct rl as [i|p j]; cbn; [apply MO_heap; reflexivity|]. apply MO_upd_same. intros x. repeat split.
  Qed.
End Moves.

(** ** The specification of every activation (layered over [InvP.Pre] / [InvP.Post]) *)
Section Spec.
  Context (P : prog).

  (** extra roots of the call: the handles it owns; for [KDropValue o] the object whose last
      handle was just released (alive with strong count 0 until its value state changes) *)
  Definition roots_of (c : call) : list id := match c with KDropValue o => [o] | _ => own_of c end.
  Definition exempt_of (c : call) : list id := match c with KDropValue o => [o] | _ => [] end.
  (** the active list *)
  Definition actA (A : list id) (c : call) : list id :=
    match c with
    | KCollectLoop _ | KCollectOnce => []
    | KFinalizeList L _ _ _ | KDropList L _ _ => L
    | _ => A
    end.
  Definition postA (A : list id) (c : call) : list id :=
    match c with
    | KCollectLoop _ | KCollectOnce | KFinalizeList _ _ _ _ | KDropList _ _ _ => []
    | _ => A
    end.

  Definition Cv (E A X : list id) (m : machine) : Prop := CoverE P E A [] m /\ MO X A m.

  Definition CvPre (E A : list id) (c : call) (m : machine) : Prop :=
    Cv (roots_of c ++ E) (actA A c) (exempt_of c) m /\
    match c with
    | KCmd _ c => rust_cmd c = true
    | KScript _ cs => rust_script cs = true
    | KStore rl _ => store_ok P E A rl m
    | _ => True
    end.
  Definition CvPost (E A : list id) (c : call) (m' : machine) : Prop := Cv E (postA A c) [] m'.

  Lemma Cv_nil m : Cv [] [] [] m -> Cover P m /\ MapsOwned m.
  Proof. intros [H1 H2]. split; [apply CoverE_nil, H1 | apply MO_MapsOwned, H2]. Qed.

  Lemma Cv_nsim Xs E A X m m' :
    nsim P Xs m m' -> (forall r, r ∈ pc m -> r ∈ pc m' \/ Cl P E A m' r) -> Cv E A X m -> Cv E A (Xs ++ X) m'.
  Proof. intros H Hpc [C M]. split; [eapply CoverE_nsim; eauto | eapply MO_nsim; eauto]. Qed.
  Lemma Cv_nsim0 E A X m m' :
    nsim P [] m m' -> (forall r, r ∈ pc m -> r ∈ pc m') -> Cv E A X m -> Cv E A X m'.
  Proof. intros H Hpc. apply (Cv_nsim [] E A X m m' H). intros r Hr. left. apply Hpc, Hr. Qed.
End Spec.

(** ** Neutral updates that do not shrink the buffer *)
Section Nsimp.
  Context (K : conf) (P : prog).
  Implicit Types (m : machine) (o : id) (Xs : list id).

  Definition nsimp Xs m m' : Prop := nsim P Xs m m' /\ forall r, r ∈ pc m -> r ∈ pc m'.

  Lemma nsimp_refl Xs m : nsimp Xs m m.
  Proof. split; [apply nsim_refl | auto]. Qed.
  Lemma nsimp_trans Xs m1 m2 m3 : nsimp Xs m1 m2 -> nsimp Xs m2 m3 -> nsimp Xs m1 m3.
  Proof. intros [A1 A2] [B1 B2]. split; [eapply nsim_trans; eauto | auto]. Qed.
  Lemma nsimp_weaken Xs Xs' m m' : (forall r, r ∈ Xs -> r ∈ Xs') -> nsimp Xs m m' -> nsimp Xs' m m'.
  Proof. intros HX [A1 A2]. split; [eapply nsim_weaken; eauto | auto]. Qed.
  Lemma nsimp_pceq Xs m m' : nsim P Xs m m' -> pc m' = pc m -> nsimp Xs m m'.
  Proof. intros H Hpc. split; [exact H|]. rewrite Hpc. auto. Qed.

  Lemma Cv_nsimp Xs E A X m m' : nsimp Xs m m' -> Cv P E A X m -> Cv P E A (Xs ++ X) m'.
  Proof. intros [H Hpc]. apply Cv_nsim; [exact H|]. intros r Hr. left. apply Hpc, Hr. Qed.
  Lemma Cv_nsimp0 E A X m m' : nsimp [] m m' -> Cv P E A X m -> Cv P E A X m'.
  Proof. apply (Cv_nsimp [] E A X m m'). Qed.

  Lemma Cv_same E A X m m' :
    heap m' = heap m -> slots m' = slots m -> bag m' = bag m -> values m' = values m -> dead m' = dead m ->
    pc m' = pc m -> Cv P E A X m -> Cv P E A X m'.
  Proof.
    intros H1 H2 H3 H4 H5 H6. apply Cv_nsimp0. split; [apply nsim_same; assumption|]. rewrite H6. auto.
  Qed.

  Lemma pc_dec_size o m : pc (dec_size o m) = pc m.
  Proof. unfold dec_size. destruct (pc_size m =? 0)%N; reflexivity. Qed.
  Lemma pc_tick k m : pc (tick k m).1 = pc m.
  Proof. unfold tick. destruct (get_fuse k m =? 0)%N; [reflexivity|]. destruct k; reflexivity. Qed.
  Lemma pc_dec_rc_m o m : pc (dec_rc_m o m) = pc m.
  Proof. unfold dec_rc_m. destruct (dec_rc (hdr_of m o)); reflexivity. Qed.
  Lemma pc_sfree o m : pc (sfree o m) = pc m.
  Proof.
    unfold sfree. destruct (get m o) as [x|]; [|reflexivity]. destruct (o_side x) as [s|]; [|reflexivity].
    destruct (sd_freed s); reflexivity.
  Qed.
  Lemma pc_drop_metadata o m : pc (drop_metadata K o m) = pc m.
  Proof.
    unfold drop_metadata. destruct (negb (k_weak K)); [reflexivity|]. destruct (get m o) as [x|]; [|reflexivity].
    destruct (h_side (o_hdr x)); [|reflexivity]. destruct (o_side x) as [s|]; [|reflexivity].
    destruct (_ =? 0)%N; [rewrite pc_sfree|]; destruct (sd_freed s); reflexivity.
  Qed.
  Lemma pc_dealloc o m : pc (dealloc K o m) = pc m.
  Proof.
    unfold dealloc. destruct (get m o) as [x|]; [|reflexivity]. destruct (box_layout K x) as [sz al].
    cbn. destruct (o_box x); cbn; match goal with |- context [if ?c then _ else _] => destruct c end; reflexivity.
  Qed.
  Lemma pc_init_side o m : pc (init_side o m) = pc m.
  Proof. unfold init_side. destruct (get m o) as [x|]; [|reflexivity]. destruct (h_side (o_hdr x)); reflexivity. Qed.
  Lemma pc_weak_drop w m : pc (weak_drop w m) = pc m.
  Proof.
    destruct w as [|o]; [reflexivity|]. unfold weak_drop. destruct (get m o) as [x|]; [|reflexivity].
    destruct (o_side x) as [s|]; [|reflexivity]. destruct (dec_wk (sd_wk s)) as [k'|]; [|destruct (sd_freed s); reflexivity].
    destruct (_ && _); [rewrite pc_sfree|]; destruct (sd_freed s); reflexivity.
  Qed.
  Lemma pc_weak_drop_opt w m : pc (weak_drop_opt w m) = pc m.
  Proof. destruct w; [apply pc_weak_drop | reflexivity]. Qed.
  Lemma pc_fold_weak_drop l : forall m, pc (fold_left (fun m w => weak_drop_opt w m) l m) = pc m.
  Proof. induction l as [|w l IH]; intros m; [reflexivity|]. cbn. rewrite IH. apply pc_weak_drop_opt. Qed.
  Lemma pc_weak_clone w m m' : weak_clone w m = Some m' -> pc m' = pc m.
  Proof.
    destruct w as [|o]; cbn; [intros [= <-]; reflexivity|]. destruct (side_wk m o) as [k|]; [|intros [= <-]; reflexivity].
    destruct (inc_wk k); [|discriminate]. intros [= <-]. reflexivity.
  Qed.
  Lemma pc_add_to_list' o m r : r ∈ pc m -> r ∈ pc (add_to_list o m).
  Proof. apply pc_add_to_list. Qed.
  Lemma pc_map_insert mo aid sc m : pc (map_insert mo aid sc m).1 = pc m.
  Proof. unfold map_insert. destruct (get m mo) as [x|]; [|reflexivity]. destruct (o_mfree x); reflexivity. Qed.
  Lemma pc_write_wloc (rw : rwloc) v m : pc (write_wloc rw v m) = pc m.
  Proof. destruct rw; reflexivity. Qed.
  Lemma pc_weak_strong_count w m : pc (weak_strong_count w m).1 = pc m.
  Proof.
    destruct w as [|o]; cbn; [reflexivity|]. destruct (get m o) as [x|]; [|reflexivity].
    destruct (o_side x) as [s|]; [|reflexivity]. destruct (w_acc (sd_wk s)); [|destruct (sd_freed s); reflexivity].
    destruct (_ || _); cbn; destruct (o_box x), (sd_freed s); reflexivity.
  Qed.

  Lemma nsimp_emit Xs e m : nsimp Xs m (emit e m).
  Proof. apply nsimp_pceq; [apply nsim_emit | reflexivity]. Qed.
  Lemma nsimp_emit_bad Xs b o m : nsimp Xs m (emit_bad b o m).
  Proof. apply nsimp_pceq; [apply nsim_emit_bad | reflexivity]. Qed.
  Lemma nsimp_tick Xs k m : nsimp Xs m (tick k m).1.
  Proof. apply nsimp_pceq; [apply nsim_tick | apply pc_tick]. Qed.
  Lemma nsimp_same Xs m m' :
    heap m' = heap m -> slots m' = slots m -> bag m' = bag m -> values m' = values m -> dead m' = dead m ->
    pc m' = pc m -> nsimp Xs m m'.
  Proof. intros. apply nsimp_pceq; [apply nsim_same|]; assumption. Qed.
  Lemma nsimp_uhdr Xs o g m :
    (o ∈ Xs \/ forall h, h_rc h <> 0%N -> h_rc (g h) <> 0%N) -> nsimp Xs m (uhdr o g m).
  Proof. intros H. apply nsimp_pceq; [apply nsim_uhdr, H | reflexivity]. Qed.
  Lemma nsimp_uhdr_rc Xs o g m : (forall h, h_rc (g h) = h_rc h) -> nsimp Xs m (uhdr o g m).
  Proof. intros H. apply nsimp_pceq; [apply nsim_uhdr_rc, H | reflexivity]. Qed.
  Lemma nsimp_upd_same Xs a f m :
    (forall x, o_fields (f x) = o_fields x /\ o_cleaner (f x) = o_cleaner x /\ o_ismap (f x) = o_ismap x /\
               o_box (f x) = o_box x /\ o_vst (f x) = o_vst x /\ o_cls (f x) = o_cls x /\
               o_borrowed (f x) = o_borrowed x /\ h_rc (o_hdr (f x)) = h_rc (o_hdr x)) ->
    nsimp Xs m (upd a f m).
  Proof. intros H. apply nsimp_pceq; [apply nsim_upd_same, H | reflexivity]. Qed.
  Lemma nsimp_set_vst Xs a v m : v <> VLive -> nsimp Xs m (upd a (fun x => x <| o_vst := v |>) m).
  Proof. intros H. apply nsimp_pceq; [apply nsim_set_vst, H | reflexivity]. Qed.
  Lemma nsimp_borrow Xs a m : nsimp Xs m (upd a (fun x => x <| o_borrowed := true |>) m).
  Proof. apply nsimp_pceq; [apply nsim_borrow | reflexivity]. Qed.
  Lemma nsimp_add_to_list Xs o m : nsimp Xs m (add_to_list o m).
  Proof. split; [apply nsim_add_to_list | apply pc_add_to_list]. Qed.
  Lemma nsimp_dec_rc Xs o m :
    (o ∈ Xs \/ forall x, get m o = Some x -> o_ismap x = true -> h_rc (o_hdr x) <> 1%N) ->
    nsimp Xs m (dec_rc_m o m).
  Proof. intros H. apply nsimp_pceq; [apply nsim_dec_rc, H | apply pc_dec_rc_m]. Qed.
  Lemma nsimp_dealloc Xs o m : nsimp Xs m (dealloc K o m).
  Proof. apply nsimp_pceq; [apply nsim_dealloc | apply pc_dealloc]. Qed.
  Lemma nsimp_drop_metadata Xs o m : nsimp Xs m (drop_metadata K o m).
  Proof. apply nsimp_pceq; [apply nsim_drop_metadata | apply pc_drop_metadata]. Qed.
  Lemma nsimp_init_side Xs o m : nsimp Xs m (init_side o m).
  Proof. apply nsimp_pceq; [apply nsim_init_side | apply pc_init_side]. Qed.
  Lemma nsimp_uside Xs o f m : nsimp Xs m (uside o f m).
  Proof. apply nsimp_pceq; [apply nsim_uside | reflexivity]. Qed.
  Lemma nsimp_weak_drop Xs w m : nsimp Xs m (weak_drop w m).
  Proof. apply nsimp_pceq; [apply nsim_weak_drop | apply pc_weak_drop]. Qed.
  Lemma nsimp_weak_drop_opt Xs w m : nsimp Xs m (weak_drop_opt w m).
  Proof. apply nsimp_pceq; [apply nsim_weak_drop_opt | apply pc_weak_drop_opt]. Qed.
  Lemma nsimp_fold_weak_drop Xs l m : nsimp Xs m (fold_left (fun m w => weak_drop_opt w m) l m).
  Proof. apply nsimp_pceq; [apply nsim_fold_weak_drop | apply pc_fold_weak_drop]. Qed.
  Lemma nsimp_weak_clone Xs w m m' : weak_clone w m = Some m' -> nsimp Xs m m'.
  Proof. intros H. apply nsimp_pceq; [eapply nsim_weak_clone, H | eapply pc_weak_clone, H]. Qed.
  Lemma nsimp_weak_strong_count Xs w m : nsimp Xs m (weak_strong_count w m).1.
  Proof. apply nsimp_pceq; [apply nsim_weak_strong_count | apply pc_weak_strong_count]. Qed.
  Lemma nsimp_write_wloc Xs (rw : rwloc) v m : nsimp Xs m (write_wloc rw v m).
  Proof. apply nsimp_pceq; [apply nsim_write_wloc | apply pc_write_wloc]. Qed.
  Lemma nsimp_map_insert Xs mo aid sc m : nsimp Xs m (map_insert mo aid sc m).1.
  Proof. apply nsimp_pceq; [apply nsim_map_insert | apply pc_map_insert]. Qed.
  Lemma nsimp_new_node Xs cls m : nsimp Xs m (new_node P cls m).1.
  Proof. apply nsimp_pceq; [apply nsim_new_node | reflexivity]. Qed.
  Lemma nsimp_new_map Xs m : nsimp Xs m (new_map m).1.
  Proof. apply nsimp_pceq; [apply nsim_new_map | reflexivity]. Qed.
  Lemma nsimp_adjust Xs m : nsimp Xs m (adjust_trigger_point K m).
  Proof.
    apply nsimp_pceq; [apply nsim_adjust|]. unfold adjust_trigger_point, adjust. destruct (k_auto K); [|reflexivity].
    destruct (_ <=? _)%N; [reflexivity|]. destruct (fprod_is_zero _ _); reflexivity.
  Qed.
  Lemma nsimp_set_fuse Xs k n m : nsimp Xs m (set_fuse k n m).
  Proof. apply nsimp_pceq; [apply nsim_set_fuse | destruct k; reflexivity]. Qed.
End Nsimp.

(** ** Un-buffering an object that is classified independently of the buffer *)
Section Unbuffer.
  Context (K : conf) (P : prog).
  Implicit Types (m : machine) (o p t c r a : id) (x y : obj) (E A X Xs : list id).
  Notation Cl := (Cl P).

  Lemma Cl_nsim Xs E A m m' u :
    nsim P Xs m m' -> (forall r, r ∈ pc m -> Cl E A m' r) -> Cl E A m u -> Cl E A m' u.
  Proof.
    intros H Hpc Hu.
    destruct (transfer2 P m m' E E A A (fun _ => False)) with (u := u) as [?|[]]; auto.
    - intros r [Hr|Hr]; left; [apply Cl_root; eapply nsim_prog_roots; eauto | apply Cl_E, Hr].
    - intros r [Hr|Hr]; left; [apply Hpc, Hr | apply Cl_A, Hr].
    - intros r Hr. left. apply Cl_pin. eapply nsim_PinRoot; eauto.
    - intros p c Hc [Hp|[]]. left. eapply Cl_step; [exact Hp | eapply nsim_succ; eauto].
  Qed.

  (** [o] is classified without the help of the buffer *)
  Definition ClNP E A m o : Prop := Cl E A (m <| pc := [] |>) o.

  Lemma ClNP_nsim Xs E A m m' o : nsim P Xs m m' -> ClNP E A m o -> Cl E A m' o.
  Proof.
    intros H. apply (Cl_nsim Xs); [|intros r Hr; inversion Hr].
    apply (nsim_trans P Xs (m <| pc := [] |>) m m'); [apply nsim_same; reflexivity | exact H].
  Qed.

  Theorem Cv_unbuffer E A X o m0 m :
    nsim P [] m0 m -> ClNP E A m0 o -> Cv P E A X m -> Cv P E A X (remove_from_list o m).
  Proof.
    intros H0 Ho V. apply (Cv_nsim P [] E A X m); [apply nsim_remove_from_list | | exact V].
    intros r Hr. destruct (decide (r = o)) as [->|Hne]; [right | left; apply pc_remove_from_list; assumption].
    eapply ClNP_nsim; [|exact Ho]. eapply nsim_trans; [exact H0 | apply nsim_remove_from_list].
  Qed.

  Lemma ClNP_E E A m o : o ∈ E -> ClNP E A m o.
  Proof. unfold ClNP. apply Cl_E. Qed.
  Lemma ClNP_A E A m o : o ∈ A -> ClNP E A m o.
  Proof. unfold ClNP. apply Cl_A. Qed.
  Lemma ClNP_slot E A m i o : slots m !! i = Some (Some o) -> ClNP E A m o.
  Proof. intros H. unfold ClNP. eapply (Cl_slot P E A _ i o). exact H. Qed.
  Lemma ClNP_bag E A m o : o ∈ bag m -> ClNP E A m o.
  Proof. intros H. unfold ClNP. eapply (Cl_bag P E A _ o). exact H. Qed.
  Lemma ClNP_pin E A m o : PinRoot P m o -> ClNP E A m o.
  Proof.
    intros H. unfold ClNP. apply Cl_pin. destruct H as [p x j t Hx Hj Hn|p x t Hx Hc|t Hd];
      [eapply PR_field | eapply PR_cleaner | apply PR_dead]; eauto.
  Qed.
  Lemma ClNP_field E A m p x j o :
    get m p = Some x -> o_fields x !! j = Some (Some o) -> ClNP E A m p -> ClNP E A m o.
  Proof. intros Hx Hj Hp. unfold ClNP in *. eapply Cl_step; [exact Hp|]. eapply all_succ_field; [exact Hx | exact Hj]. Qed.
End Unbuffer.
