(** * Derive: a model of [#[derive(Trace)]] / [#[derive(Finalize)]] (property C18).

    Hand-written executable model of what /repo/derive/src/lib.rs generates through
    synstructure 0.13 (the expansion performed by the macro is *modelled*, not verified; the
    correspondence check tools/check_derive.py compiles generated type definitions with the
    real macro and compares, field by field, what the generated [trace] reports with
    [derived_visit]).

    ** What the macro does (derive/src/lib.rs)

    - l.17-19  [no_drop] := some type-level attribute contains [unsafe_no_drop].
    - l.23-27  [s.filter(..)]: in every variant, drop the bindings (fields) that carry
               [#[rust_cc(ignore)]].
    - l.30-36  ONLY IF the input is an enum: [s.filter_variants(..)]: drop the variants that
               carry [#[rust_cc(ignore)]].  For a struct synstructure builds a single
               variant whose attributes are the attributes of the struct itself; it is never
               filtered.  (A type-level [ignore] is anyway rejected: while looking for
               [unsafe_no_drop] at l.17-19, [attr_contains] meets the other allowed word and
               emits "Invalid attribute position", l.132-134; [abort_if_dirty] at l.39 then
               aborts.  The same happens for [unsafe_no_drop] on a field or a variant.)
    - l.48-55  [s.each(..)]: one match arm per remaining variant, whose body calls
               [<ty as Trace>::trace(binding, ctx)] once for every remaining binding, in
               declaration order (synstructure lib.rs:696-709); if a variant was dropped, a
               final [_ => {}] arm is added (synstructure lib.rs:1121-1134, 1469-1479).
    - l.67-77  [fn trace(&self, ctx) { match *self { #body } }].
    - l.79-92  unless [no_drop]: [impl Drop for @Self { fn drop(&mut self) {} }].
    - l.149-158 derive(Finalize): [impl Finalize for @Self {}], i.e. the default empty
               [finalize] (src/trace.rs:63-64). *)
From Coq Require Import List Arith Bool Lia PeanoNat.
Import ListNotations.
From RC Require Import Containers.

Set Implicit Arguments.

(** ** Type descriptions. *)

Inductive vkind := KUnit | KTuple | KNamed.

(** The attributes written at one position (type, variant or field), flattened in source
    order to the words that matter: [WIgnore] / [WNoDrop] for the two words accepted inside
    [#[rust_cc(..)]], [WOther] for any attribute that is not [rust_cc] (doc comments,
    [#[allow(..)]], [#[cfg_attr(..)]] that does not expand to [rust_cc], ...), which
    [get_meta_items] skips (lib.rs:100-112).

    Looking for a word, lib.rs does [attrs.iter().any(|a| attr_contains(a, WORD))]:
    [attr_contains] walks the words of one [rust_cc(..)] attribute and returns at the first
    match, [any] stops at the first attribute that matched.  On the flattened list this is:
    the word is *found* iff it occurs anywhere ([existsb]), and the scan stops at its first
    occurrence - the other allowed word met *before* that point is reported as
    "Invalid attribute position" (lib.rs:132-134), one met after it is never looked at. *)
Inductive word := WIgnore | WNoDrop | WOther.
Definition attrs := list word.
Definition is_ignore (w : word) : bool := match w with WIgnore => true | _ => false end.
Definition is_no_drop (w : word) : bool := match w with WNoDrop => true | _ => false end.
Definition a_ignore (a : attrs) : bool := existsb is_ignore a.
Definition a_no_drop (a : attrs) : bool := existsb is_no_drop a.

(** [scan_err target bad a]: while looking for [target], a [bad] word is met first. *)
Fixpoint scan_err (target bad : word -> bool) (a : attrs) : bool :=
  match a with
  | [] => false
  | w :: t => if target w then false else bad w || scan_err target bad t
  end.

Record fdesc := FDesc { f_attrs : attrs }.
Definition f_ignore (f : fdesc) : bool := a_ignore (f_attrs f).

Record vdesc := VDesc { v_attrs : attrs; v_kind : vkind; v_fields : list fdesc }.

Inductive tdesc :=
| TStruct (a : attrs) (k : vkind) (fs : list fdesc)
| TEnum (a : attrs) (vs : list vdesc).

Definition type_attrs (d : tdesc) : attrs :=
  match d with TStruct a _ _ | TEnum a _ => a end.
Definition is_enum (d : tdesc) : bool :=
  match d with TStruct _ _ _ => false | TEnum _ _ => true end.
Definition no_drop (d : tdesc) : bool := a_no_drop (type_attrs d).

(** The variants as synstructure's [Structure::new] sees them: a struct is one variant
    carrying the attributes of the struct. *)
Definition variants (d : tdesc) : list vdesc :=
  match d with
  | TStruct a k fs => [VDesc a k fs]
  | TEnum _ vs => vs
  end.

Definition wf_vdesc (vd : vdesc) : bool :=
  match v_kind vd with KUnit => match v_fields vd with [] => true | _ => false end | _ => true end.
Definition wf_tdesc (d : tdesc) : bool := forallb wf_vdesc (variants d).

(** A value of the described type: the active variant and one container value per field. *)
Record tvalue := TV { tv_variant : nat; tv_fields : list value }.

Definition wf_tvalue (d : tdesc) (tv : tvalue) : Prop :=
  exists vd, nth_error (variants d) (tv_variant tv) = Some vd /\
             length (tv_fields tv) = length (v_fields vd).

(** ** Acceptance: attribute-position errors (lib.rs:17-39, 114-145). *)
Definition derive_accepts (d : tdesc) : bool :=
  (* l.17-19: looking for unsafe_no_drop on the type *)
  negb (scan_err is_no_drop is_ignore (type_attrs d)) &&
  forallb (fun vd =>
             (* l.30-36: looking for ignore on the variants of an enum *)
             (negb (is_enum d) || negb (scan_err is_ignore is_no_drop (v_attrs vd))) &&
             (* l.23-27: looking for ignore on every field *)
             forallb (fun f => negb (scan_err is_ignore is_no_drop (f_attrs f))) (v_fields vd))
          (variants d).

(** ** The generated [trace]. *)

Fixpoint indexed_from (A : Type) (s : nat) (l : list A) : list (nat * A) :=
  match l with
  | [] => []
  | x :: t => (s, x) :: indexed_from (S s) t
  end.

(** lib.rs:23-27 - the bindings that survive [s.filter], by field index. *)
Definition kept_bindings (vd : vdesc) : list nat :=
  map fst (filter (fun p => negb (f_ignore (snd p))) (indexed_from 0 (v_fields vd))).

(** lib.rs:30-36 - [filter_variants] is applied to enums only. *)
Definition variant_kept (d : tdesc) (vd : vdesc) : bool :=
  negb (is_enum d && a_ignore (v_attrs vd)).

(** lib.rs:48-55 - the match arms: (variant index, indices of the bindings traced in it). *)
Definition arms (d : tdesc) : list (nat * list nat) :=
  map (fun p => (fst p, kept_bindings (snd p)))
      (filter (fun p => variant_kept d (snd p)) (indexed_from 0 (variants d))).

(** synstructure lib.rs:1130-1132 - the catch-all arm exists iff a variant was dropped. *)
Definition omitted_variants (d : tdesc) : bool :=
  negb (length (arms d) =? length (variants d)).

(** [match *self { #body }] on a value whose active variant is [i]: the field indices whose
    [trace] is called, in order.  When no arm matches, the [_ => {}] arm runs. *)
Definition derived_calls (d : tdesc) (i : nat) : list nat :=
  match find (fun arm => fst arm =? i) (arms d) with
  | Some arm => snd arm
  | None => []
  end.

(** [obs] is what one [trace] call on a field value makes observable: [visit] (the [Cc]s it
    reports) or [utrace] (the user [trace] calls it makes). *)
Definition field_obs (obs : value -> list nat) (fields : list value) (j : nat) : list nat :=
  match nth_error fields j with Some x => obs x | None => [] end.

Definition derived_obs (obs : value -> list nat) (d : tdesc) (tv : tvalue) : list nat :=
  flat_map (field_obs obs (tv_fields tv)) (derived_calls d (tv_variant tv)).

(** What one call of the derived [trace] reports. *)
Definition field_visit := field_obs visit.
Definition derived_visit (d : tdesc) (tv : tvalue) : list nat := derived_obs visit d tv.

(** The user [trace] calls one call of the derived [trace] makes. *)
Definition derived_utrace (d : tdesc) (tv : tvalue) : list nat := derived_obs utrace d tv.

(** lib.rs:79-92. *)
Definition emits_drop (d : tdesc) : bool := negb (no_drop d).

(** Coherence (rustc E0119): at most one [impl Drop for T] may exist. *)
Definition drop_impls (d : tdesc) (user_drop : bool) : nat :=
  (if emits_drop d then 1 else 0) + (if user_drop then 1 else 0).
Definition coherent (d : tdesc) (user_drop : bool) : bool := drop_impls d user_drop <=? 1.

(** lib.rs:149-158 - the derived finalizer forwards to no field at all. *)
Definition derived_finalize (d : tdesc) (tv : tvalue) : list nat := [].

(** ** Specification. *)

(** Field indices that must be traced: the non-ignored fields of the active variant, unless
    that variant is itself ignored (only an enum variant can be). *)
Definition variant_ignored (d : tdesc) (vd : vdesc) : bool := is_enum d && a_ignore (v_attrs vd).

Definition spec_indices (fds : list fdesc) : list nat :=
  filter (fun j => match nth_error fds j with Some f => negb (f_ignore f) | None => false end)
         (seq 0 (length fds)).

Definition spec_calls (d : tdesc) (i : nat) : list nat :=
  match nth_error (variants d) i with
  | Some vd => if variant_ignored d vd then [] else spec_indices (v_fields vd)
  | None => []
  end.

(** The field values that must be traced, in order. *)
Definition traced_fields (d : tdesc) (tv : tvalue) : list value :=
  match nth_error (variants d) (tv_variant tv) with
  | Some vd =>
      if variant_ignored d vd then []
      else map snd (filter (fun p => negb (f_ignore (fst p))) (combine (v_fields vd) (tv_fields tv)))
  | None => []
  end.

(** ** Proofs. *)

Lemma find_arm (A B : Type) (keep : A -> bool) (g : A -> B) (l : list A) : forall s i,
  find (fun arm => fst arm =? i)
       (map (fun p => (fst p, g (snd p))) (filter (fun p => keep (snd p)) (indexed_from s l))) =
  if i <? s then None
  else match nth_error l (i - s) with
       | Some x => if keep x then Some (i, g x) else None
       | None => None
       end.
Proof.
  induction l as [|x t IH]; intros s i; simpl.
  - destruct (i <? s); auto. destruct (i - s); auto.
  - destruct (i <? s) eqn:Hlt.
    + apply Nat.ltb_lt in Hlt.
      destruct (keep x); simpl.
      * destruct (s =? i) eqn:He; [apply Nat.eqb_eq in He; lia|].
        rewrite IH. replace (i <? S s) with true; auto. symmetry; apply Nat.ltb_lt; lia.
      * rewrite IH. replace (i <? S s) with true; auto. symmetry; apply Nat.ltb_lt; lia.
    + apply Nat.ltb_ge in Hlt.
      destruct (Nat.eq_dec s i) as [->|Hne].
      * rewrite Nat.sub_diag. simpl.
        destruct (keep x); simpl.
        -- now rewrite Nat.eqb_refl.
        -- rewrite IH. replace (i <? S i) with true; auto. symmetry; apply Nat.ltb_lt; lia.
      * replace (i - s) with (S (i - S s)) by lia. simpl.
        assert (Hge : (i <? S s) = false) by (apply Nat.ltb_ge; lia).
        destruct (keep x); simpl.
        -- destruct (s =? i) eqn:He; [apply Nat.eqb_eq in He; lia|].
           rewrite IH, Hge. reflexivity.
        -- rewrite IH, Hge. reflexivity.
Qed.

Lemma kept_indices_from (fds : list fdesc) : forall s,
  map fst (filter (fun p => negb (f_ignore (snd p))) (indexed_from s fds)) =
  filter (fun j => match nth_error fds (j - s) with Some f => negb (f_ignore f) | None => false end)
         (seq s (length fds)).
Proof.
  induction fds as [|f t IH]; intros s; simpl; auto.
  rewrite Nat.sub_diag. simpl.
  assert (Hext : filter (fun j => match nth_error (f :: t) (j - s) with
                                  | Some f0 => negb (f_ignore f0) | None => false end)
                        (seq (S s) (length t)) =
                 filter (fun j => match nth_error t (j - S s) with
                                  | Some f0 => negb (f_ignore f0) | None => false end)
                        (seq (S s) (length t))).
  { apply filter_ext_in. intros j Hj. apply in_seq in Hj.
    replace (j - s) with (S (j - S s)) by lia. reflexivity. }
  destruct (negb (f_ignore f)); simpl; rewrite IH, Hext; reflexivity.
Qed.

Lemma kept_bindings_spec vd : kept_bindings vd = spec_indices (v_fields vd).
Proof.
  unfold kept_bindings, spec_indices. rewrite kept_indices_from.
  apply filter_ext. intros j. now rewrite Nat.sub_0_r.
Qed.

(** The derived [trace] calls [trace] on exactly the specified fields, in order. *)
Theorem derived_calls_spec : forall d i, derived_calls d i = spec_calls d i.
Proof.
  intros d i. unfold derived_calls, spec_calls, arms.
  rewrite (find_arm (variant_kept d) kept_bindings (variants d) 0 i).
  replace (i <? 0) with false by (symmetry; apply Nat.ltb_ge; lia).
  rewrite Nat.sub_0_r.
  destruct (nth_error (variants d) i) as [vd|]; auto.
  unfold variant_kept, variant_ignored.
  destruct (is_enum d && a_ignore (v_attrs vd)); simpl; auto using kept_bindings_spec.
Qed.

Lemma flat_map_field_obs (obs : value -> list nat) (fds : list fdesc) : forall (fields pre : list value),
  length fds = length fields ->
  flat_map (field_obs obs (pre ++ fields))
           (map fst (filter (fun p => negb (f_ignore (snd p))) (indexed_from (length pre) fds))) =
  flat_map obs (map snd (filter (fun p => negb (f_ignore (fst p))) (combine fds fields))).
Proof.
  induction fds as [|f t IH]; intros fields pre Hlen; destruct fields as [|x xs];
    simpl in *; try discriminate; auto.
  injection Hlen as Hlen.
  specialize (IH xs (pre ++ [x]) Hlen).
  rewrite <- app_assoc, app_length in IH. simpl in IH.
  rewrite Nat.add_1_r in IH.
  destruct (negb (f_ignore f)); simpl; rewrite IH; auto.
  f_equal. unfold field_obs.
  rewrite nth_error_app2 by lia. now rewrite Nat.sub_diag.
Qed.

(** C18, trace half: the derived [trace] reports exactly what the non-ignored fields of the
    active variant report, each field once, in declaration order; nothing if the active
    variant is ignored. *)
Theorem C18_obs : forall obs d tv, wf_tvalue d tv ->
  derived_obs obs d tv = concat (map obs (traced_fields d tv)).
Proof.
  intros obs d [i fields] (vd & Hvd & Hlen). simpl in *.
  unfold derived_obs, traced_fields. simpl.
  rewrite derived_calls_spec. unfold spec_calls. rewrite Hvd.
  destruct (variant_ignored d vd); auto.
  rewrite <- flat_map_concat_map, <- kept_bindings_spec.
  symmetry in Hlen.
  exact (flat_map_field_obs obs (v_fields vd) fields [] Hlen).
Qed.

Theorem C18_visit : forall d tv, wf_tvalue d tv ->
  derived_visit d tv = concat (map visit (traced_fields d tv)).
Proof. exact (C18_obs visit). Qed.

(** Same statement for the user [trace] calls (fields that cannot hold a [Cc]). *)
Theorem C18_utrace : forall d tv, wf_tvalue d tv ->
  derived_utrace d tv = concat (map utrace (traced_fields d tv)).
Proof. exact (C18_obs utrace). Qed.

(** Each field exactly once, ignored ones never - at the level of the [trace] calls the
    generated code makes, for arbitrary field values. *)
Theorem C18_calls_NoDup : forall d i, NoDup (derived_calls d i).
Proof.
  intros d i. rewrite derived_calls_spec. unfold spec_calls.
  destruct (nth_error (variants d) i) as [vd|]; [|constructor].
  destruct (variant_ignored d vd); [constructor|].
  apply NoDup_filter, seq_NoDup.
Qed.

Theorem C18_calls_iff : forall d i j,
  In j (derived_calls d i) <->
  exists vd f, nth_error (variants d) i = Some vd /\ variant_ignored d vd = false /\
               nth_error (v_fields vd) j = Some f /\ f_ignore f = false.
Proof.
  intros d i j. rewrite derived_calls_spec. unfold spec_calls. split.
  - destruct (nth_error (variants d) i) as [vd|]; [|intros []].
    destruct (variant_ignored d vd) eqn:Hv; [intros []|].
    unfold spec_indices. rewrite filter_In. intros [_ Hj].
    destruct (nth_error (v_fields vd) j) as [f|] eqn:Hf; [|discriminate].
    exists vd, f. repeat split; auto. now apply negb_true_iff.
  - intros (vd & f & -> & -> & Hf & Hi).
    unfold spec_indices. rewrite filter_In, Hf, Hi. split; auto.
    apply in_seq. split; [lia|]. simpl. apply nth_error_Some. congruence.
Qed.

Theorem C18_field_count : forall d i j,
  count_occ Nat.eq_dec (derived_calls d i) j =
  match nth_error (variants d) i with
  | Some vd => match nth_error (v_fields vd) j with
               | Some f => if variant_ignored d vd || f_ignore f then 0 else 1
               | None => 0
               end
  | None => 0
  end.
Proof.
  intros d i j.
  pose proof (C18_calls_NoDup d i) as Hnd.
  pose proof (C18_calls_iff d i j) as Hiff.
  destruct (nth_error (variants d) i) as [vd|] eqn:Hvd.
  - destruct (nth_error (v_fields vd) j) as [f|] eqn:Hf.
    + destruct (variant_ignored d vd || f_ignore f) eqn:Hig.
      * apply count_occ_not_In. intros Hin. apply Hiff in Hin.
        destruct Hin as (vd' & f' & E1 & Hv & E2 & Hi).
        injection E1 as <-. rewrite Hf in E2. injection E2 as <-.
        rewrite Hv, Hi in Hig. discriminate.
      * apply orb_false_iff in Hig. destruct Hig as [Hv Hi].
        apply NoDup_count_occ_1; auto. apply Hiff. eauto 6.
    + apply count_occ_not_In. intros Hin. apply Hiff in Hin.
      destruct Hin as (vd' & f' & E1 & _ & E2 & _).
      injection E1 as <-. congruence.
  - apply count_occ_not_In. intros Hin. apply Hiff in Hin.
    destruct Hin as (vd' & f' & E1 & _). discriminate.
Qed.

(** The generated [match] is exhaustive: whenever no arm matches the active variant, a
    variant was dropped and synstructure has added the catch-all [_ => {}] arm. *)
Lemma filter_length_le' (A : Type) (f : A -> bool) (l : list A) :
  length (filter f l) <= length l.
Proof. induction l as [|a t IH]; simpl; auto. destruct (f a); simpl; lia. Qed.

Lemma filter_length_all (A : Type) (f : A -> bool) (l : list A) :
  length (filter f l) = length l -> forall x, In x l -> f x = true.
Proof.
  induction l as [|a t IH]; simpl; intros Hlen x Hin; [contradiction|].
  pose proof (filter_length_le' f t) as Hle.
  destruct (f a) eqn:Hfa; simpl in Hlen.
  - destruct Hin as [<-|Hin]; auto.
  - lia.
Qed.

Lemma indexed_from_In (A : Type) (l : list A) : forall s i x,
  nth_error l i = Some x -> In (s + i, x) (indexed_from s l).
Proof.
  induction l as [|a t IH]; intros s i x Hn; destruct i; simpl in *; try discriminate.
  - injection Hn as <-. rewrite Nat.add_0_r. now left.
  - right. rewrite <- Nat.add_succ_comm. now apply IH.
Qed.

Lemma indexed_from_length (A : Type) (l : list A) : forall s, length (indexed_from s l) = length l.
Proof. induction l; simpl; auto. Qed.

Theorem catch_all_arm_present : forall d i vd,
  nth_error (variants d) i = Some vd ->
  find (fun arm => fst arm =? i) (arms d) = None ->
  omitted_variants d = true.
Proof.
  intros d i vd Hvd Hfind. unfold arms in Hfind.
  rewrite (find_arm (variant_kept d) kept_bindings (variants d) 0 i) in Hfind.
  replace (i <? 0) with false in Hfind by (symmetry; apply Nat.ltb_ge; lia).
  rewrite Nat.sub_0_r, Hvd in Hfind.
  destruct (variant_kept d vd) eqn:Hk; [discriminate|].
  unfold omitted_variants, arms. rewrite map_length.
  apply negb_true_iff, Nat.eqb_neq. intros Hlen.
  rewrite <- (indexed_from_length (variants d) 0) in Hlen.
  pose proof (filter_length_all _ _ Hlen (0 + i, vd) (indexed_from_In _ 0 _ Hvd)) as Hall.
  simpl in Hall. congruence.
Qed.

(** An ignored variant, and a field of an ignored variant, is never traced. *)
Theorem C18_ignored_variant : forall d tv vd,
  nth_error (variants d) (tv_variant tv) = Some vd -> variant_ignored d vd = true ->
  derived_visit d tv = [].
Proof.
  intros d tv vd Hvd Hig. unfold derived_visit, derived_obs.
  rewrite derived_calls_spec. unfold spec_calls. now rewrite Hvd, Hig.
Qed.

(** A struct is never "variant-ignored": [filter_variants] is not applied to it. *)
Theorem C18_struct_not_filtered : forall a k fs vd,
  variant_ignored (TStruct a k fs) vd = false.
Proof. reflexivity. Qed.

(** ... but a type-level [ignore] (struct or enum) and a field/variant-level
    [unsafe_no_drop] are rejected by the macro. *)
Lemma scan_err_absent target bad a :
  existsb target a = false -> scan_err target bad a = existsb bad a.
Proof.
  induction a as [|w t IH]; simpl; auto.
  intros H. apply orb_false_iff in H. destruct H as [Hw Ht].
  now rewrite Hw, IH.
Qed.

Theorem C18_type_level_ignore_rejected : forall d,
  a_ignore (type_attrs d) = true -> no_drop d = false -> derive_accepts d = false.
Proof.
  intros d Hi Hn. unfold derive_accepts, no_drop, a_no_drop, a_ignore in *.
  now rewrite (scan_err_absent _ is_ignore _ Hn), Hi.
Qed.

(** Whether an attribute position is "ignored" depends only on the presence of the word, not
    on where it stands among the other attributes, nor on how often it is repeated. *)
Theorem C18_ignore_position_irrelevant : forall pre post : attrs,
  a_ignore (pre ++ WIgnore :: post) = true.
Proof. intros. unfold a_ignore. rewrite existsb_app. simpl. apply orb_true_r. Qed.

Theorem C18_other_attrs_irrelevant : forall a : attrs,
  a_ignore a = a_ignore (filter (fun w => negb match w with WOther => true | _ => false end) a).
Proof.
  induction a as [|w t IH]; simpl; auto.
  destruct w; simpl; auto.
Qed.

(** Quirk of the scan order (not part of the property): a type-level [ignore] written *after*
    [unsafe_no_drop] is never looked at, hence not rejected - and has no effect whatsoever,
    since [variant_ignored] is [false] for a struct and looks at the variants' own attributes
    for an enum. *)
Example type_level_ignore_after_no_drop_accepted : forall k,
  derive_accepts (TStruct [WNoDrop; WIgnore] k []) = true /\
  derive_accepts (TStruct [WIgnore; WNoDrop] k []) = false.
Proof. intros; split; reflexivity. Qed.

(** C18, Drop half. *)
Theorem C18_drop : forall d,
  emits_drop d = negb (no_drop d) /\
  coherent d true = no_drop d /\
  coherent d false = true.
Proof.
  intros d. unfold coherent, drop_impls, emits_drop.
  destruct (no_drop d); simpl; auto.
Qed.

(** The Drop impl does not depend on what is traced: also a type in which nothing ends up
    traced (unit struct, no fields, every field or every variant ignored) gets it. *)
Theorem C18_drop_untraced : forall d,
  (forall i, derived_calls d i = []) -> no_drop d = false ->
  emits_drop d = true /\ coherent d true = false.
Proof.
  intros d _ Hn. unfold coherent, drop_impls, emits_drop. now rewrite Hn.
Qed.

(** C18, Finalize half: the derived finalizer is empty - it forwards to no field, whatever
    user values the fields contain. *)
Theorem C18_finalize_empty : forall d tv, derived_finalize d tv = [].
Proof. reflexivity. Qed.

(** ** Executable glue for the correspondence check. *)
Definition derived_owned (tv : tvalue) : list nat := flat_map owned (tv_fields tv).

Definition derived_balanced (k : nat) (d : tdesc) (tv : tvalue) : bool :=
  forallb (fun c => count_occ Nat.eq_dec (derived_visit d tv) c =?
                    count_occ Nat.eq_dec (derived_owned tv) c) (seq 0 k).

Definition derived_e2e_expect (k : nat) (d : tdesc) (tv : tvalue) : list nat :=
  let b := if derived_balanced k d tv then 1 else 0 in
  b :: map (fun c => if count_occ Nat.eq_dec (derived_owned tv) c =? 0 then 1 else b) (seq 0 k).

Definition derived_keep_expect (k : nat) (tv : tvalue) : list nat :=
  match derived_owned tv with
  | [] => []
  | j :: _ => j :: 0 :: map (fun c => if count_occ Nat.eq_dec (derived_owned tv) c =? 0 then 1 else 0) (seq 0 k)
  end.

(** Boolean well-formedness of the generated cases (the checker requires [true]). *)
Definition wf_tvalueb (d : tdesc) (tv : tvalue) : bool :=
  match nth_error (variants d) (tv_variant tv) with
  | Some vd => length (tv_fields tv) =? length (v_fields vd)
  | None => false
  end.

Lemma wf_tvalueb_sound d tv : wf_tvalueb d tv = true -> wf_tvalue d tv.
Proof.
  unfold wf_tvalueb, wf_tvalue.
  destruct (nth_error (variants d) (tv_variant tv)) as [vd|]; [|discriminate].
  intros H. apply Nat.eqb_eq in H. eauto.
Qed.

