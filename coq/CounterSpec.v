(** * CounterSpec: the code generated from src/counter_marker.rs implements the abstract header.

    [RC.gen.CounterMarkerGen] is regenerated from the Rust text on every run.  This file proves,
    for ALL 16-bit words [tw], [cw], that every generated operation is the corresponding abstract
    operation of [Hdr] under [hdr_decode].  Every operation touches one of the two words only:

    - *locality* ("the other word is returned untouched and does not influence the result") is
      proved by unfolding the generated definition (tactic [local_tac], shape independent);
    - the behaviour on the touched word is proved by an exhaustive boolean check over all 65536
      values, evaluated by [vm_compute] and lifted with [Word.forall_below].

    Any semantic change of the Rust source changes the generated terms and makes one of the
    exhaustive checks (or a locality lemma) fail. *)
From Coq Require Import NArith Bool List Lia.
From RC Require Import Hdr Word.
From RC.gen Require CounterMarkerGen.
Module G := CounterMarkerGen.
Local Open Scope N_scope.

Local Notation cm := G.counter_marker.
Local Notation mk := G.mk_counter_marker.
Local Notation twd := G.tracing_counter_cell.
Local Notation cwd := G.counter_cell.

Definition decode (s : cm) : hdr := hdr_decode (twd s) (cwd s).
Definition wf (s : cm) : Prop := twd s < 65536 /\ cwd s < 65536.

(** ** Views: what [hdr_decode] reads from each word *)
Definition cv := (N * bool * bool)%type.     (* rc, finalized, side *)
Definition tv := (N * mark)%type.            (* tc, mark *)
Definition cview (cw : N) : cv := (cw mod 16384, N.testbit cw 14, N.testbit cw 15).
Definition tview (tw : N) : tv := (tw mod 16384, mark_of_bits (tw / 16384 mod 4)).
Definition of_views (t : tv) (c : cv) : hdr :=
  Hdr (fst (fst c)) (fst t) (snd t) (snd (fst c)) (snd c).

Lemma decode_views s : decode s = of_views (tview (twd s)) (cview (cwd s)).
Proof. reflexivity. Qed.

Definition cv_eqb (a b : cv) : bool :=
  (fst (fst a) =? fst (fst b)) && Bool.eqb (snd (fst a)) (snd (fst b)) && Bool.eqb (snd a) (snd b).
Definition tv_eqb (a b : tv) : bool := (fst a =? fst b) && mark_eqb (snd a) (snd b).

Lemma cv_eqb_eq a b : cv_eqb a b = true -> a = b.
Proof.
  destruct a as [[r1 f1] s1], b as [[r2 f2] s2]; unfold cv_eqb; cbn.
  rewrite !andb_true_iff, N.eqb_eq, !eqb_true_iff. intros [[-> ->] ->]; reflexivity.
Qed.

Lemma tv_eqb_eq a b : tv_eqb a b = true -> a = b.
Proof.
  destruct a as [c1 m1], b as [c2 m2]; unfold tv_eqb; cbn.
  rewrite andb_true_iff, N.eqb_eq. intros [-> Hm].
  destruct (mark_eqb_spec m1 m2); congruence.
Qed.

Lemma N_eqb_eq' (a b : N) : (a =? b) = true -> a = b.
Proof. apply N.eqb_eq. Qed.
Lemma bool_eqb_eq' (a b : bool) : Bool.eqb a b = true -> a = b.
Proof. apply eqb_true_iff. Qed.

(** ** Generic lifting of per-word exhaustive checks *)
Section Lift.
  Variables (V : Type) (view : N -> V) (veqb : V -> V -> bool).
  Hypothesis veqb_eq : forall a b, veqb a b = true -> a = b.
  Variables (get other : cm -> N) (put : N -> N -> cm).
  Hypothesis get_put : forall o w, get (put o w) = w.
  Hypothesis other_put : forall o w, other (put o w) = o.
  Hypothesis put_eta : forall s, s = put (other s) (get s).

  (** mutators returning the record *)
  Lemma lift_mut (op : cm -> cm) (abs : V -> V) :
    (forall o w, op (put o w) = put o (get (op (put 0 w)))) ->
    forallb (fun w => let w' := get (op (put 0 w)) in
                      (w' <? 65536) && veqb (view w') (abs (view w))) all_u16 = true ->
    forall s, get s < 65536 ->
      other (op s) = other s /\ get (op s) < 65536 /\ view (get (op s)) = abs (view (get s)).
  Proof.
    intros Hloc Hchk s. rewrite (put_eta s). generalize (other s) (get s). clear s. intros o w.
    rewrite !get_put, !other_put. intros Hw.
    pose proof (forall_u16 _ Hchk _ Hw) as H; cbn beta zeta in H.
    apply andb_true_iff in H; destruct H as [H1 H2].
    apply N.ltb_lt in H1; apply veqb_eq in H2.
    rewrite Hloc, other_put, get_put. auto.
  Qed.

  (** fallible mutators returning (record, is_err) *)
  Lemma lift_res (op : cm -> cm * bool) (pre : V -> bool) (abs : V -> option V) :
    (forall o w, op (put o w) = (put o (get (fst (op (put 0 w)))), snd (op (put 0 w)))) ->
    forallb (fun w => let r := op (put 0 w) in let w' := get (fst r) in
                      implb (pre (view w))
                      match abs (view w) with
                      | None => snd r && (w' =? w)
                      | Some v => negb (snd r) && (w' <? 65536) && veqb (view w') v
                      end) all_u16 = true ->
    forall s, get s < 65536 -> pre (view (get s)) = true ->
      match abs (view (get s)) with
      | None => op s = (s, true)
      | Some v => snd (op s) = false /\ other (fst (op s)) = other s /\
                  get (fst (op s)) < 65536 /\ view (get (fst (op s))) = v
      end.
  Proof.
    intros Hloc Hchk s. rewrite (put_eta s). generalize (other s) (get s). clear s. intros o w.
    rewrite !get_put. intros Hw Hpre.
    pose proof (forall_u16 _ Hchk _ Hw) as H; cbn beta zeta in H.
    rewrite Hpre in H; cbn [implb] in H.
    rewrite Hloc; cbn [fst snd]. rewrite !get_put, !other_put.
    destruct (abs (view w)) as [v|].
    - apply andb_true_iff in H; destruct H as [H H3].
      apply andb_true_iff in H; destruct H as [H1 H2].
      apply negb_true_iff in H1. apply N.ltb_lt in H2. apply veqb_eq in H3. auto.
    - apply andb_true_iff in H; destruct H as [H1 H2]. apply N.eqb_eq in H2.
      rewrite H1, H2. reflexivity.
  Qed.

  (** queries *)
  Lemma lift_query (A : Type) (aeqb : A -> A -> bool)
        (aeqb_eq : forall a b, aeqb a b = true -> a = b) (q : cm -> A) (abs : V -> A) :
    (forall o w, q (put o w) = q (put 0 w)) ->
    forallb (fun w => aeqb (q (put 0 w)) (abs (view w))) all_u16 = true ->
    forall s, get s < 65536 -> q s = abs (view (get s)).
  Proof.
    intros Hloc Hchk s. rewrite (put_eta s). generalize (other s) (get s). clear s. intros o w.
    rewrite !get_put. intros Hw.
    pose proof (forall_u16 _ Hchk _ Hw) as H; cbn beta in H. apply aeqb_eq in H.
    rewrite Hloc. exact H.
  Qed.
End Lift.

(** Instances for the two words. *)
Definition putc (o w : N) : cm := mk o w.   (* counter word is touched, tracing word is "other" *)
Definition putt (o w : N) : cm := mk w o.   (* tracing word is touched *)

Lemma putc_eta s : s = putc (twd s) (cwd s). Proof. destruct s; reflexivity. Qed.
Lemma putt_eta s : s = putt (cwd s) (twd s). Proof. destruct s; reflexivity. Qed.

Definition liftC_mut := lift_mut cv cview cv_eqb cv_eqb_eq cwd twd putc
                                 (fun _ _ => eq_refl) (fun _ _ => eq_refl) putc_eta.
Definition liftC_res := lift_res cv cview cv_eqb cv_eqb_eq cwd twd putc
                                 (fun _ _ => eq_refl) (fun _ _ => eq_refl) putc_eta.
Definition liftC_query := lift_query cv cview cwd twd putc (fun _ _ => eq_refl) putc_eta.
Definition liftT_mut := lift_mut tv tview tv_eqb tv_eqb_eq twd cwd putt
                                 (fun _ _ => eq_refl) (fun _ _ => eq_refl) putt_eta.
Definition liftT_res := lift_res tv tview tv_eqb tv_eqb_eq twd cwd putt
                                 (fun _ _ => eq_refl) (fun _ _ => eq_refl) putt_eta.
Definition liftT_query := lift_query tv tview twd cwd putt (fun _ _ => eq_refl) putt_eta.

(** Locality by unfolding: independent of the exact shape of the generated term. *)
Ltac local_tac :=
  intros; unfold putc, putt; autounfold with cmgen;
  cbn [G.tracing_counter_cell G.counter_cell fst snd];
  repeat match goal with
         | |- context [if ?c then _ else _] =>
           destruct c; cbn [G.tracing_counter_cell G.counter_cell fst snd]
         end;
  reflexivity.

(** Exhaustive check by computation (the kernel re-runs the VM at [Qed]). *)
Ltac exhaustive := vm_cast_no_check (eq_refl true).

(** ** Constants *)
Theorem gen_max_spec : G.MAX = max_rc /\ G.COUNTER_MASK = 16383.
Proof. split; vm_compute; reflexivity. Qed.

Lemma gen_consts :
  G.NON_MARKED = 0 /\ G.IN_POSSIBLE_CYCLES = 16384 /\ G.IN_LIST = 32768 /\ G.IN_QUEUE = 49152 /\
  G.FIRST_BIT_MASK = 32768 /\ G.FINALIZED_MASK = 16384 /\ G.BITS_MASK = 49152 /\
  G.COUNTER_MASK = field_mask /\ G.COUNTER_MASK = tc_dropped.
Proof. repeat split; vm_compute; reflexivity. Qed.

(** ** Encode / decode *)
Lemma cview_encode_ok :
  forallb (fun rc => forallb (fun f => forallb (fun sd =>
     cv_eqb (cview (b2n sd * 32768 + b2n f * 16384 + rc)) (rc, f, sd))
     (true :: false :: nil)) (true :: false :: nil)) all_u14 = true.
Proof. exhaustive. Qed.

Lemma tview_encode_ok :
  forallb (fun tc => forallb (fun m => tv_eqb (tview (mark_bits m * 16384 + tc)) (tc, m))
     (NM :: PC :: IL :: IQ :: nil)) all_u14 = true.
Proof. exhaustive. Qed.

Theorem decode_encode h :
  hdr_wf h -> hdr_decode (fst (hdr_encode h)) (snd (hdr_encode h)) = h.
Proof.
  destruct h as [rc tc m f sd]; intros [Hrc Htc]; cbn in Hrc, Htc.
  change (hdr_decode _ _) with
      (of_views (tview (mark_bits m * 16384 + tc)) (cview (b2n sd * 32768 + b2n f * 16384 + rc))).
  pose proof (forall_below _ _ cview_encode_ok rc Hrc) as Hc; cbn beta in Hc.
  pose proof (forall_below _ _ tview_encode_ok tc Htc) as Ht; cbn beta in Ht.
  rewrite forallb_forall in Hc. specialize (Hc f). rewrite forallb_forall in Hc.
  assert (Hf : forall b : bool, In b (true :: false :: nil)) by (intros []; cbn; auto).
  specialize (Hc (Hf f) sd (Hf sd)). apply cv_eqb_eq in Hc.
  rewrite forallb_forall in Ht. specialize (Ht m).
  assert (Hm : In m (NM :: PC :: IL :: IQ :: nil)) by (destruct m; cbn; auto).
  specialize (Ht Hm). apply tv_eqb_eq in Ht.
  rewrite Hc, Ht. reflexivity.
Qed.

Lemma encode_lt h :
  hdr_wf h -> fst (hdr_encode h) < 65536 /\ snd (hdr_encode h) < 65536.
Proof.
  destruct h as [rc tc m f sd]; intros [Hrc Htc].
  unfold hdr_encode; cbn [fst snd h_mark h_tc h_side h_fin h_rc] in *.
  destruct m, f, sd; unfold b2n, mark_bits; lia.
Qed.

(** ** new_with_counter_to_one *)
Theorem gen_new_spec b : decode (G.new_with_counter_to_one b) = hdr_new b.
Proof. destruct b; vm_compute; reflexivity. Qed.

Lemma gen_new_wf b : wf (G.new_with_counter_to_one b).
Proof. destruct b; vm_compute; split; reflexivity. Qed.

(** ** Abstract operations on views *)
Definition v_inc (v : N * bool * bool) : option cv :=
  let '(rc, f, sd) := v in if rc =? max_rc then None else Some (rc + 1, f, sd).
Definition v_dec (v : N * bool * bool) : option cv :=
  let '(rc, f, sd) := v in if rc =? 0 then None else Some (rc - 1, f, sd).
Definition t_inc (v : tv) : option tv :=
  let '(tc, m) := v in if tc =? max_rc then None else Some (tc + 1, m).
Definition t_dec (v : tv) : option tv :=
  let '(tc, m) := v in if tc =? 0 then None else Some (tc - 1, m).

(** ** increment_counter / decrement_counter / increment_tracing_counter

    The value 16383 of the strong count is reserved ("should not be used", never reached because
    [inc_rc] stops at [max_rc] = 16382); for the tracing count it means "already dropped".  The
    increments are specified for headers whose field is not the reserved value: on the reserved
    value the Rust code would carry into the flag bits (and its [debug_assert!] fires), while
    [Hdr.inc_rc] would produce the ill-formed count 16384. The decrements need no side condition. *)
Definition rc_not_reserved (v : cv) : bool := negb (fst (fst v) =? 16383).
Definition tc_not_reserved (v : tv) : bool := negb (fst v =? 16383).
Definition no_pre_c (v : cv) : bool := true.
Definition no_pre_t (v : tv) : bool := true.

Lemma inc_rc_local o w :
  G.increment_counter (putc o w) =
  (putc o (cwd (fst (G.increment_counter (putc 0 w)))), snd (G.increment_counter (putc 0 w))).
Proof. local_tac. Qed.

Lemma inc_rc_chk :
  forallb (fun w => let r := G.increment_counter (putc 0 w) in let w' := cwd (fst r) in
     implb (rc_not_reserved (cview w))
     match v_inc (cview w) with
     | None => snd r && (w' =? w)
     | Some v => negb (snd r) && (w' <? 65536) && cv_eqb (cview w') v
     end) all_u16 = true.
Proof. exhaustive. Qed.

Lemma not_reserved_c s : h_rc (decode s) <> 16383 -> rc_not_reserved (cview (cwd s)) = true.
Proof. intros H. apply negb_true_iff, N.eqb_neq. exact H. Qed.
Lemma not_reserved_t s : h_tc (decode s) <> 16383 -> tc_not_reserved (tview (twd s)) = true.
Proof. intros H. apply negb_true_iff, N.eqb_neq. exact H. Qed.

Theorem gen_inc_rc_spec s : wf s -> h_rc (decode s) <> 16383 ->
  match inc_rc (decode s) with
  | None => G.increment_counter s = (s, true)
  | Some h' => snd (G.increment_counter s) = false /\
               decode (fst (G.increment_counter s)) = h' /\ wf (fst (G.increment_counter s))
  end.
Proof.
  intros [Ht Hc] Hres.
  pose proof (liftC_res _ _ _ inc_rc_local inc_rc_chk s Hc (not_reserved_c s Hres)) as H.
  rewrite decode_views. unfold inc_rc, of_views; cbn [h_rc set_rc h_tc h_mark h_fin h_side].
  destruct (cview (cwd s)) as [[rc f] sd] eqn:E. cbn [fst snd v_inc] in *.
  destruct (rc =? max_rc); [exact H|].
  destruct H as (H1 & H2 & H3 & H4). split; [exact H1|]. split.
  - rewrite decode_views, H2, H4. reflexivity.
  - split; [rewrite H2; exact Ht | exact H3].
Qed.

Lemma dec_rc_local o w :
  G.decrement_counter (putc o w) =
  (putc o (cwd (fst (G.decrement_counter (putc 0 w)))), snd (G.decrement_counter (putc 0 w))).
Proof. local_tac. Qed.

Lemma dec_rc_chk :
  forallb (fun w => let r := G.decrement_counter (putc 0 w) in let w' := cwd (fst r) in
     implb (no_pre_c (cview w))
     match v_dec (cview w) with
     | None => snd r && (w' =? w)
     | Some v => negb (snd r) && (w' <? 65536) && cv_eqb (cview w') v
     end) all_u16 = true.
Proof. exhaustive. Qed.

Theorem gen_dec_rc_spec s : wf s ->
  match dec_rc (decode s) with
  | None => G.decrement_counter s = (s, true)
  | Some h' => snd (G.decrement_counter s) = false /\
               decode (fst (G.decrement_counter s)) = h' /\ wf (fst (G.decrement_counter s))
  end.
Proof.
  intros [Ht Hc].
  pose proof (liftC_res _ _ _ dec_rc_local dec_rc_chk s Hc eq_refl) as H.
  rewrite decode_views. unfold dec_rc, of_views; cbn [h_rc set_rc h_tc h_mark h_fin h_side].
  destruct (cview (cwd s)) as [[rc f] sd] eqn:E. cbn [fst snd v_dec] in *.
  destruct (rc =? 0); [exact H|].
  destruct H as (H1 & H2 & H3 & H4). split; [exact H1|]. split.
  - rewrite decode_views, H2, H4. reflexivity.
  - split; [rewrite H2; exact Ht | exact H3].
Qed.

Lemma inc_tc_local o w :
  G.increment_tracing_counter (putt o w) =
  (putt o (twd (fst (G.increment_tracing_counter (putt 0 w)))),
   snd (G.increment_tracing_counter (putt 0 w))).
Proof. local_tac. Qed.

Lemma inc_tc_chk :
  forallb (fun w => let r := G.increment_tracing_counter (putt 0 w) in let w' := twd (fst r) in
     implb (tc_not_reserved (tview w))
     match t_inc (tview w) with
     | None => snd r && (w' =? w)
     | Some v => negb (snd r) && (w' <? 65536) && tv_eqb (tview w') v
     end) all_u16 = true.
Proof. exhaustive. Qed.

Theorem gen_inc_tc_spec s : wf s -> h_tc (decode s) <> 16383 ->
  match inc_tc (decode s) with
  | None => G.increment_tracing_counter s = (s, true)
  | Some h' => snd (G.increment_tracing_counter s) = false /\
               decode (fst (G.increment_tracing_counter s)) = h' /\
               wf (fst (G.increment_tracing_counter s))
  end.
Proof.
  intros [Ht Hc] Hres.
  pose proof (liftT_res _ _ _ inc_tc_local inc_tc_chk s Ht (not_reserved_t s Hres)) as H.
  rewrite decode_views. unfold inc_tc, of_views; cbn [h_rc set_tc h_tc h_mark h_fin h_side].
  destruct (tview (twd s)) as [tc m] eqn:E. cbn [fst snd t_inc] in *.
  destruct (tc =? max_rc); [exact H|].
  destruct H as (H1 & H2 & H3 & H4). split; [exact H1|]. split.
  - rewrite decode_views, H2, H4. reflexivity.
  - split; [exact H3 | rewrite H2; exact Hc].
Qed.

(** [_decrement_tracing_counter] (unused by the crate, translated and specified all the same) *)
Lemma dec_tc_local o w :
  G._decrement_tracing_counter (putt o w) =
  (putt o (twd (fst (G._decrement_tracing_counter (putt 0 w)))),
   snd (G._decrement_tracing_counter (putt 0 w))).
Proof. local_tac. Qed.

Lemma dec_tc_chk :
  forallb (fun w => let r := G._decrement_tracing_counter (putt 0 w) in let w' := twd (fst r) in
     implb (no_pre_t (tview w))
     match t_dec (tview w) with
     | None => snd r && (w' =? w)
     | Some v => negb (snd r) && (w' <? 65536) && tv_eqb (tview w') v
     end) all_u16 = true.
Proof. exhaustive. Qed.

Theorem gen_dec_tc_spec s : wf s ->
  if h_tc (decode s) =? 0 then G._decrement_tracing_counter s = (s, true)
  else snd (G._decrement_tracing_counter s) = false /\
       decode (fst (G._decrement_tracing_counter s)) = set_tc (h_tc (decode s) - 1) (decode s) /\
       wf (fst (G._decrement_tracing_counter s)).
Proof.
  intros [Ht Hc].
  pose proof (liftT_res _ _ _ dec_tc_local dec_tc_chk s Ht eq_refl) as H.
  rewrite decode_views. unfold of_views; cbn [h_rc set_tc h_tc h_mark h_fin h_side].
  destruct (tview (twd s)) as [tc m] eqn:E. cbn [fst snd t_dec] in *.
  destruct (tc =? 0); [exact H|].
  destruct H as (H1 & H2 & H3 & H4). split; [exact H1|]. split.
  - rewrite decode_views, H2, H4. reflexivity.
  - split; [exact H3 | rewrite H2; exact Hc].
Qed.

(** ** Readers of the counters *)
Lemma counter_local o w : G.counter (putc o w) = G.counter (putc 0 w).
Proof. local_tac. Qed.
Lemma counter_chk :
  forallb (fun w => G.counter (putc 0 w) =? (fun v : cv => fst (fst v)) (cview w)) all_u16 = true.
Proof. exhaustive. Qed.

Theorem gen_counter_spec s : wf s -> G.counter s = h_rc (decode s).
Proof.
  intros [_ Hc]. rewrite (liftC_query N N.eqb N_eqb_eq' _ _ counter_local counter_chk s Hc).
  reflexivity.
Qed.

Lemma tracing_counter_local o w : G.tracing_counter (putt o w) = G.tracing_counter (putt 0 w).
Proof. local_tac. Qed.
Lemma tracing_counter_chk :
  forallb (fun w => G.tracing_counter (putt 0 w) =? (fun v : tv => fst v) (tview w)) all_u16 = true.
Proof. exhaustive. Qed.

Theorem gen_tracing_counter_spec s : wf s -> G.tracing_counter s = h_tc (decode s).
Proof.
  intros [Ht _].
  rewrite (liftT_query N N.eqb N_eqb_eq' _ _ tracing_counter_local tracing_counter_chk s Ht).
  reflexivity.
Qed.

(** ** Mutators of the tracing word *)
Ltac finish_t H Hc :=
  destruct H as (H1 & H2 & H3); split;
  [ rewrite !decode_views, H1, H3;
    match goal with |- context [tview ?w] => destruct (tview w) end; reflexivity
  | split; [exact H2 | rewrite H1; exact Hc] ].

Ltac finish_c H Ht :=
  destruct H as (H1 & H2 & H3); split;
  [ rewrite !decode_views, H1, H3;
    match goal with |- context [cview ?w] => destruct (cview w) as [[? ?] ?] end; reflexivity
  | split; [rewrite H1; exact Ht | exact H2] ].

Lemma reset_tc_local o w :
  G.reset_tracing_counter (putt o w) = putt o (twd (G.reset_tracing_counter (putt 0 w))).
Proof. local_tac. Qed.
Lemma reset_tc_chk :
  forallb (fun w => let w' := twd (G.reset_tracing_counter (putt 0 w)) in
     (w' <? 65536) && tv_eqb (tview w') ((fun v : tv => (0, snd v)) (tview w))) all_u16 = true.
Proof. exhaustive. Qed.

Theorem gen_reset_tc_spec s : wf s ->
  decode (G.reset_tracing_counter s) = reset_tc (decode s) /\ wf (G.reset_tracing_counter s).
Proof.
  intros [Ht Hc]. pose proof (liftT_mut _ _ reset_tc_local reset_tc_chk s Ht) as H.
  finish_t H Hc.
Qed.

Lemma set_dropped_local b o w :
  G.set_dropped (putt o w) b = putt o (twd (G.set_dropped (putt 0 w) b)).
Proof. local_tac. Qed.
Lemma set_dropped_true_chk :
  forallb (fun w => let w' := twd (G.set_dropped (putt 0 w) true) in
     (w' <? 65536) && tv_eqb (tview w') ((fun v : tv => (tc_dropped, snd v)) (tview w)))
    all_u16 = true.
Proof. exhaustive. Qed.
Lemma set_dropped_false_chk :
  forallb (fun w => let w' := twd (G.set_dropped (putt 0 w) false) in
     (w' <? 65536) && tv_eqb (tview w') ((fun v : tv => (0, snd v)) (tview w))) all_u16 = true.
Proof. exhaustive. Qed.

(** [set_dropped(true)] is [Hdr.set_dropped]; [set_dropped(false)] clears the whole tracing
    counter field (tc := 0, mark unchanged) -- it is never called by the crate. *)
Theorem gen_set_dropped_spec s : wf s ->
  (decode (G.set_dropped s true) = set_dropped (decode s) /\ wf (G.set_dropped s true)) /\
  (decode (G.set_dropped s false) = set_tc 0 (decode s) /\ wf (G.set_dropped s false)).
Proof.
  intros [Ht Hc]. split.
  - pose proof (liftT_mut (fun s => G.set_dropped s true) _
                          (set_dropped_local true) set_dropped_true_chk s Ht) as H.
    cbn beta in H. finish_t H Hc.
  - pose proof (liftT_mut (fun s => G.set_dropped s false) _
                          (set_dropped_local false) set_dropped_false_chk s Ht) as H.
    cbn beta in H. finish_t H Hc.
Qed.

Definition mark_of (m : mark) : G.Mark :=
  match m with NM => G.NonMarked | PC => G.PossibleCycles | IL => G.InList | IQ => G.InQueue end.

Lemma mark_local k o w : G.mark (putt o w) k = putt o (twd (G.mark (putt 0 w) k)).
Proof. local_tac. Qed.
Lemma mark_chk m :
  forallb (fun w => let w' := twd (G.mark (putt 0 w) (mark_of m)) in
     (w' <? 65536) && tv_eqb (tview w') ((fun v : tv => (fst v, m)) (tview w))) all_u16 = true.
Proof. destruct m; exhaustive. Qed.

Theorem gen_mark_spec m s : wf s ->
  decode (G.mark s (mark_of m)) = set_mark m (decode s) /\ wf (G.mark s (mark_of m)).
Proof.
  intros [Ht Hc].
  pose proof (liftT_mut (fun s => G.mark s (mark_of m)) _ (mark_local _) (mark_chk m) s Ht) as H.
  cbn beta in H. finish_t H Hc.
Qed.

(** ** Mutators of the counter word *)
Lemma set_fin_local b o w :
  G.set_finalized (putc o w) b = putc o (cwd (G.set_finalized (putc 0 w) b)).
Proof. local_tac. Qed.
Lemma set_fin_chk b :
  forallb (fun w => let w' := cwd (G.set_finalized (putc 0 w) b) in
     (w' <? 65536) && cv_eqb (cview w') ((fun v : cv => (fst (fst v), b, snd v)) (cview w)))
    all_u16 = true.
Proof. destruct b; exhaustive. Qed.

Theorem gen_set_finalized_spec b s : wf s ->
  decode (G.set_finalized s b) = set_fin b (decode s) /\ wf (G.set_finalized s b).
Proof.
  intros [Ht Hc].
  pose proof (liftC_mut (fun s => G.set_finalized s b) _ (set_fin_local b) (set_fin_chk b) s Hc) as H.
  cbn beta in H. finish_c H Ht.
Qed.

Lemma set_side_local b o w :
  G.set_allocated_for_metadata (putc o w) b = putc o (cwd (G.set_allocated_for_metadata (putc 0 w) b)).
Proof. local_tac. Qed.
Lemma set_side_chk b :
  forallb (fun w => let w' := cwd (G.set_allocated_for_metadata (putc 0 w) b) in
     (w' <? 65536) && cv_eqb (cview w') ((fun v : cv => (fst (fst v), snd (fst v), b)) (cview w)))
    all_u16 = true.
Proof. destruct b; exhaustive. Qed.

Theorem gen_set_side_spec b s : wf s ->
  decode (G.set_allocated_for_metadata s b) = set_side b (decode s) /\
  wf (G.set_allocated_for_metadata s b).
Proof.
  intros [Ht Hc].
  pose proof (liftC_mut (fun s => G.set_allocated_for_metadata s b) _
                        (set_side_local b) (set_side_chk b) s Hc) as H.
  cbn beta in H. finish_c H Ht.
Qed.

(** ** Boolean queries *)
Ltac query_c lem loc chk s Hc :=
  rewrite (liftC_query bool Bool.eqb bool_eqb_eq' _ _ loc chk s Hc), decode_views;
  destruct (cview (cwd s)) as [[? ?] ?]; reflexivity.
Ltac query_t loc chk s Ht :=
  rewrite (liftT_query bool Bool.eqb bool_eqb_eq' _ _ loc chk s Ht), decode_views;
  destruct (tview (twd s)) as [? []]; reflexivity.

Lemma needs_fin_local o w : G.needs_finalization (putc o w) = G.needs_finalization (putc 0 w).
Proof. local_tac. Qed.
Lemma needs_fin_chk :
  forallb (fun w => Bool.eqb (G.needs_finalization (putc 0 w))
                             ((fun v : cv => negb (snd (fst v))) (cview w))) all_u16 = true.
Proof. exhaustive. Qed.
Theorem gen_needs_fin_spec s : wf s -> G.needs_finalization s = needs_fin (decode s).
Proof. intros [_ Hc]. query_c tt needs_fin_local needs_fin_chk s Hc. Qed.

Lemma has_side_local o w :
  G.has_allocated_for_metadata (putc o w) = G.has_allocated_for_metadata (putc 0 w).
Proof. local_tac. Qed.
Lemma has_side_chk :
  forallb (fun w => Bool.eqb (G.has_allocated_for_metadata (putc 0 w))
                             ((fun v : cv => snd v) (cview w))) all_u16 = true.
Proof. exhaustive. Qed.
Theorem gen_has_side_spec s : wf s -> G.has_allocated_for_metadata s = h_side (decode s).
Proof. intros [_ Hc]. query_c tt has_side_local has_side_chk s Hc. Qed.

Lemma is_dropped_local o w : G.is_dropped (putt o w) = G.is_dropped (putt 0 w).
Proof. local_tac. Qed.
Lemma is_dropped_chk :
  forallb (fun w => Bool.eqb (G.is_dropped (putt 0 w))
                             ((fun v : tv => fst v =? tc_dropped) (tview w))) all_u16 = true.
Proof. exhaustive. Qed.
Theorem gen_is_dropped_spec s : wf s -> G.is_dropped s = is_dropped (decode s).
Proof. intros [Ht _]. query_t is_dropped_local is_dropped_chk s Ht. Qed.

Lemma is_not_marked_local o w : G.is_not_marked (putt o w) = G.is_not_marked (putt 0 w).
Proof. local_tac. Qed.
Lemma is_not_marked_chk :
  forallb (fun w => Bool.eqb (G.is_not_marked (putt 0 w))
     ((fun v : tv => match snd v with NM | PC => true | _ => false end) (tview w))) all_u16 = true.
Proof. exhaustive. Qed.
Theorem gen_is_not_marked_spec s : wf s -> G.is_not_marked s = is_not_marked (decode s).
Proof. intros [Ht _]. query_t is_not_marked_local is_not_marked_chk s Ht. Qed.

Lemma is_in_pc_local o w : G.is_in_possible_cycles (putt o w) = G.is_in_possible_cycles (putt 0 w).
Proof. local_tac. Qed.
Lemma is_in_pc_chk :
  forallb (fun w => Bool.eqb (G.is_in_possible_cycles (putt 0 w))
     ((fun v : tv => mark_eqb (snd v) PC) (tview w))) all_u16 = true.
Proof. exhaustive. Qed.
Theorem gen_is_in_pc_spec s : wf s -> G.is_in_possible_cycles s = is_in_pc (decode s).
Proof. intros [Ht _]. query_t is_in_pc_local is_in_pc_chk s Ht. Qed.

Lemma is_in_list_local o w : G.is_in_list (putt o w) = G.is_in_list (putt 0 w).
Proof. local_tac. Qed.
Lemma is_in_list_chk :
  forallb (fun w => Bool.eqb (G.is_in_list (putt 0 w))
     ((fun v : tv => mark_eqb (snd v) IL) (tview w))) all_u16 = true.
Proof. exhaustive. Qed.
Theorem gen_is_in_list_spec s : wf s -> G.is_in_list s = is_in_list (decode s).
Proof. intros [Ht _]. query_t is_in_list_local is_in_list_chk s Ht. Qed.

Lemma is_in_queue_local o w : G._is_in_queue (putt o w) = G._is_in_queue (putt 0 w).
Proof. local_tac. Qed.
Lemma is_in_queue_chk :
  forallb (fun w => Bool.eqb (G._is_in_queue (putt 0 w))
     ((fun v : tv => mark_eqb (snd v) IQ) (tview w))) all_u16 = true.
Proof. exhaustive. Qed.
Theorem gen_is_in_queue_spec s : wf s -> G._is_in_queue s = mark_eqb (h_mark (decode s)) IQ.
Proof. intros [Ht _]. query_t is_in_queue_local is_in_queue_chk s Ht. Qed.

Lemma is_in_loq_local o w : G.is_in_list_or_queue (putt o w) = G.is_in_list_or_queue (putt 0 w).
Proof. local_tac. Qed.
Lemma is_in_loq_chk :
  forallb (fun w => Bool.eqb (G.is_in_list_or_queue (putt 0 w))
     ((fun v : tv => match snd v with IL | IQ => true | _ => false end) (tview w))) all_u16 = true.
Proof. exhaustive. Qed.
Theorem gen_is_in_list_or_queue_spec s : wf s ->
  G.is_in_list_or_queue s = is_in_list_or_queue (decode s).
Proof. intros [Ht _]. query_t is_in_loq_local is_in_loq_chk s Ht. Qed.

(** ** Debug assertions and debug-build overflow checks

    In a debug build an operation panics iff [op_asserts && op_noovf = false].  Whenever the field
    an operation reads does not hold the reserved value 16383, no debug assertion fires and no
    arithmetic overflows.  (For the tracing counter, 16383 means "already dropped".) *)
Definition rc_ok (s : cm) : bool := negb (fst (fst (cview (cwd s))) =? 16383).
Definition tc_ok (s : cm) : bool := negb (fst (tview (twd s)) =? 16383).

Definition c_debug_ok (s : cm) : bool :=
  implb (rc_ok s)
    (G.counter_asserts s && G.counter_noovf s &&
     G.increment_counter_asserts s && G.increment_counter_noovf s &&
     G.decrement_counter_asserts s && G.decrement_counter_noovf s).
Definition t_debug_ok (s : cm) : bool :=
  implb (tc_ok s)
    (G.tracing_counter_asserts s && G.tracing_counter_noovf s &&
     G.increment_tracing_counter_asserts s && G.increment_tracing_counter_noovf s &&
     G._decrement_tracing_counter_asserts s && G._decrement_tracing_counter_noovf s &&
     G.reset_tracing_counter_asserts s && G.reset_tracing_counter_noovf s).

Lemma c_debug_local o w : c_debug_ok (putc o w) = c_debug_ok (putc 0 w).
Proof. unfold c_debug_ok, rc_ok. local_tac. Qed.
Lemma c_debug_chk :
  forallb (fun w => Bool.eqb (c_debug_ok (putc 0 w)) ((fun _ : cv => true) (cview w))) all_u16 = true.
Proof. exhaustive. Qed.
Lemma t_debug_local o w : t_debug_ok (putt o w) = t_debug_ok (putt 0 w).
Proof. unfold t_debug_ok, tc_ok. local_tac. Qed.
Lemma t_debug_chk :
  forallb (fun w => Bool.eqb (t_debug_ok (putt 0 w)) ((fun _ : tv => true) (tview w))) all_u16 = true.
Proof. exhaustive. Qed.

Theorem gen_rc_asserts s : wf s -> h_rc (decode s) <> 16383 ->
  G.counter_asserts s = true /\ G.counter_noovf s = true /\
  G.increment_counter_asserts s = true /\ G.increment_counter_noovf s = true /\
  G.decrement_counter_asserts s = true /\ G.decrement_counter_noovf s = true.
Proof.
  intros [_ Hc] Hne.
  pose proof (liftC_query bool Bool.eqb bool_eqb_eq' _ _ c_debug_local c_debug_chk s Hc) as H.
  unfold c_debug_ok, rc_ok in H.
  replace (fst (fst (cview (cwd s))) =? 16383) with false in H
    by (symmetry; apply N.eqb_neq; exact Hne).
  cbn [negb implb] in H. rewrite !andb_true_iff in H. tauto.
Qed.

Theorem gen_tc_asserts s : wf s -> h_tc (decode s) <> 16383 ->
  G.tracing_counter_asserts s = true /\ G.tracing_counter_noovf s = true /\
  G.increment_tracing_counter_asserts s = true /\ G.increment_tracing_counter_noovf s = true /\
  G._decrement_tracing_counter_asserts s = true /\ G._decrement_tracing_counter_noovf s = true /\
  G.reset_tracing_counter_asserts s = true /\ G.reset_tracing_counter_noovf s = true.
Proof.
  intros [Ht _] Hne.
  pose proof (liftT_query bool Bool.eqb bool_eqb_eq' _ _ t_debug_local t_debug_chk s Ht) as H.
  unfold t_debug_ok, tc_ok in H.
  replace (fst (tview (twd s)) =? 16383) with false in H
    by (symmetry; apply N.eqb_neq; exact Hne).
  cbn [negb implb] in H. rewrite !andb_true_iff in H. tauto.
Qed.

(** The remaining operations contain no [debug_assert!] and no overflowing arithmetic at all. *)
Theorem gen_other_asserts s b k :
  G.needs_finalization_asserts s && G.needs_finalization_noovf s &&
  G.set_finalized_asserts s b && G.set_finalized_noovf s b &&
  G.has_allocated_for_metadata_asserts s && G.has_allocated_for_metadata_noovf s &&
  G.set_allocated_for_metadata_asserts s b && G.set_allocated_for_metadata_noovf s b &&
  G.is_dropped_asserts s && G.is_dropped_noovf s &&
  G.set_dropped_asserts s b && G.set_dropped_noovf s b &&
  G.is_not_marked_asserts s && G.is_not_marked_noovf s &&
  G.is_in_possible_cycles_asserts s && G.is_in_possible_cycles_noovf s &&
  G.is_in_list_asserts s && G.is_in_list_noovf s &&
  G._is_in_queue_asserts s && G._is_in_queue_noovf s &&
  G.is_in_list_or_queue_asserts s && G.is_in_list_or_queue_noovf s &&
  G.mark_asserts s k && G.mark_noovf s k &&
  G.new_with_counter_to_one_asserts b && G.new_with_counter_to_one_noovf b = true.
Proof. reflexivity. Qed.

(** The strong / tracing count can neither wrap nor spill into a flag bit: corollaries. *)
Corollary gen_inc_rc_flags s : wf s -> h_rc (decode s) <> 16383 ->
  snd (G.increment_counter s) = false ->
  let h := decode s in let h' := decode (fst (G.increment_counter s)) in
  h_rc h' = h_rc h + 1 /\ h_rc h' <= max_rc /\
  h_tc h' = h_tc h /\ h_mark h' = h_mark h /\ h_fin h' = h_fin h /\ h_side h' = h_side h.
Proof.
  intros Hwf Hres Hok. pose proof (gen_inc_rc_spec s Hwf Hres) as H. unfold inc_rc in H.
  destruct (h_rc (decode s) =? max_rc) eqn:E.
  - rewrite H in Hok; discriminate.
  - destruct H as (_ & H & _). cbv zeta. rewrite H.
    cbn [set_rc h_rc h_tc h_mark h_fin h_side]. apply N.eqb_neq in E.
    assert (h_rc (decode s) < 16384) by (apply N.mod_lt; discriminate).
    set (r := h_rc (decode s)) in *. unfold max_rc in *. repeat split; lia.
Qed.

(** ** Field-level corollaries (property C16: the counters saturate, never wrap, never spill) *)
Lemma gen_max_val : G.MAX = 16382 /\ G.COUNTER_MASK = 16383.
Proof. exact gen_max_spec. Qed.

Lemma h_rc_lt s : h_rc (decode s) < 16384.
Proof. apply N.mod_lt; discriminate. Qed.
Lemma h_tc_lt s : h_tc (decode s) < 16384.
Proof. apply N.mod_lt; discriminate. Qed.

Theorem inc_rc_saturates s : wf s -> h_rc (decode s) = max_rc ->
  G.increment_counter s = (s, true).
Proof.
  intros Hwf E. assert (Hres : h_rc (decode s) <> 16383) by (rewrite E; discriminate).
  pose proof (gen_inc_rc_spec s Hwf Hres) as H. unfold inc_rc in H.
  rewrite E, N.eqb_refl in H. exact H.
Qed.

Theorem inc_rc_increments s : wf s -> h_rc (decode s) < max_rc ->
  let s' := fst (G.increment_counter s) in
  snd (G.increment_counter s) = false /\
  h_rc (decode s') = h_rc (decode s) + 1 /\ h_tc (decode s') = h_tc (decode s) /\
  h_mark (decode s') = h_mark (decode s) /\ h_fin (decode s') = h_fin (decode s) /\
  h_side (decode s') = h_side (decode s) /\ wf s'.
Proof.
  intros Hwf Hlt. unfold max_rc in Hlt.
  assert (Hres : h_rc (decode s) <> 16383) by lia.
  pose proof (gen_inc_rc_spec s Hwf Hres) as H. unfold inc_rc in H.
  replace (h_rc (decode s) =? max_rc) with false in H
    by (symmetry; apply N.eqb_neq; unfold max_rc; lia).
  destruct H as (H1 & H2 & H3 & H4). cbv zeta. rewrite H2.
  cbn [set_rc h_rc h_tc h_mark h_fin h_side]. repeat split; assumption.
Qed.

Theorem inc_rc_no_wrap s : wf s -> h_rc (decode s) <> 16383 ->
  let s' := fst (G.increment_counter s) in
  h_rc (decode s) <= h_rc (decode s') /\ h_rc (decode s') <= max_rc /\ h_rc (decode s') <> 16383.
Proof.
  intros Hwf Hres. cbv zeta. pose proof (h_rc_lt s) as Hlt.
  destruct (N.eq_dec (h_rc (decode s)) max_rc) as [E|E].
  - rewrite (inc_rc_saturates s Hwf E). cbn [fst]. rewrite E. unfold max_rc. lia.
  - assert (Hlt' : h_rc (decode s) < max_rc) by (unfold max_rc in *; lia).
    destruct (inc_rc_increments s Hwf Hlt') as (_ & H & _). cbv zeta in H. rewrite H.
    unfold max_rc in *. lia.
Qed.

Theorem dec_rc_zero s : wf s -> h_rc (decode s) = 0 -> G.decrement_counter s = (s, true).
Proof.
  intros Hwf E. pose proof (gen_dec_rc_spec s Hwf) as H. unfold dec_rc in H.
  rewrite E in H. exact H.
Qed.

Theorem dec_rc_decrements s : wf s -> 0 < h_rc (decode s) ->
  let s' := fst (G.decrement_counter s) in
  snd (G.decrement_counter s) = false /\
  h_rc (decode s') = h_rc (decode s) - 1 /\ h_tc (decode s') = h_tc (decode s) /\
  h_mark (decode s') = h_mark (decode s) /\ h_fin (decode s') = h_fin (decode s) /\
  h_side (decode s') = h_side (decode s) /\ wf s'.
Proof.
  intros Hwf Hpos. pose proof (gen_dec_rc_spec s Hwf) as H. unfold dec_rc in H.
  replace (h_rc (decode s) =? 0) with false in H by (symmetry; apply N.eqb_neq; lia).
  destruct H as (H1 & H2 & H3 & H4). cbv zeta. rewrite H2.
  cbn [set_rc h_rc h_tc h_mark h_fin h_side]. repeat split; assumption.
Qed.

Theorem inc_tc_saturates s : wf s -> h_tc (decode s) = max_rc ->
  G.increment_tracing_counter s = (s, true).
Proof.
  intros Hwf E. assert (Hres : h_tc (decode s) <> 16383) by (rewrite E; discriminate).
  pose proof (gen_inc_tc_spec s Hwf Hres) as H. unfold inc_tc in H.
  rewrite E, N.eqb_refl in H. exact H.
Qed.

Theorem inc_tc_increments s : wf s -> h_tc (decode s) < max_rc ->
  let s' := fst (G.increment_tracing_counter s) in
  snd (G.increment_tracing_counter s) = false /\
  h_tc (decode s') = h_tc (decode s) + 1 /\ h_rc (decode s') = h_rc (decode s) /\
  h_mark (decode s') = h_mark (decode s) /\ h_fin (decode s') = h_fin (decode s) /\
  h_side (decode s') = h_side (decode s) /\ wf s'.
Proof.
  intros Hwf Hlt. unfold max_rc in Hlt.
  assert (Hres : h_tc (decode s) <> 16383) by lia.
  pose proof (gen_inc_tc_spec s Hwf Hres) as H. unfold inc_tc in H.
  replace (h_tc (decode s) =? max_rc) with false in H
    by (symmetry; apply N.eqb_neq; unfold max_rc; lia).
  destruct H as (H1 & H2 & H3 & H4). cbv zeta. rewrite H2.
  cbn [set_tc h_rc h_tc h_mark h_fin h_side]. repeat split; assumption.
Qed.

Theorem inc_tc_no_wrap s : wf s -> h_tc (decode s) <> 16383 ->
  let s' := fst (G.increment_tracing_counter s) in
  h_tc (decode s) <= h_tc (decode s') /\ h_tc (decode s') <= max_rc /\ h_tc (decode s') <> 16383.
Proof.
  intros Hwf Hres. cbv zeta. pose proof (h_tc_lt s) as Hlt.
  destruct (N.eq_dec (h_tc (decode s)) max_rc) as [E|E].
  - rewrite (inc_tc_saturates s Hwf E). cbn [fst]. rewrite E. unfold max_rc. lia.
  - assert (Hlt' : h_tc (decode s) < max_rc) by (unfold max_rc in *; lia).
    destruct (inc_tc_increments s Hwf Hlt') as (_ & H & _). cbv zeta in H. rewrite H.
    unfold max_rc in *. lia.
Qed.
