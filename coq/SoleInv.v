(** * SoleInv: the frame for solely owned objects, definitions and the helpers.

    A set [U] of object ids (the objects solely owned, transitively, by a value whose
    destruction is running) and a set [R] (those values) are FIXED.  [SI m]: every member of
    [U] is alive with strong count 1, unlinked, finalized (if the feature is on), no weak
    handle location names it and every strong handle location that names it is a field of a
    member of [U] or [R]; the members of [R] are being destroyed.  [Keep m m']: the relevant
    view of the members of [U] / [R] is unchanged and no handle location into [U] appeared.
    [Keep] is a preorder and preserves [SI]. *)
From Coq Require Import NArith Bool List Lia.
From stdpp Require Import base list option.
From RecordUpdate Require Import RecordSet.
From RC Require Import Hdr Machine RunInd.
From RC Require Import Inv InvP SafeHelpers.
Import ListNotations RecordSetNotations.
Local Open Scope N_scope.

Definition NoMu (mu : id) (m : machine) : Prop := mem_id mu (dead m) = false.

(** a weak handle location names [t] *)
Definition wloc (m : machine) (t : id) : Prop :=
  (exists i, wslots m !! i = Some (Some (WTo t))) \/ WTo t ∈ wparam m \/
  (exists c cr, cslots m !! c = Some (Some cr) /\ cr_map cr = t) \/
  (exists p xp j, get m p = Some xp /\ o_wfields xp !! j = Some (Some (WTo t))).

Lemma wloc_ext m m' t :
  heap m' = heap m -> wslots m' = wslots m -> wparam m' = wparam m -> cslots m' = cslots m ->
  wloc m' t -> wloc m t.
Proof. unfold wloc, get. intros -> -> -> ->. auto. Qed.

Section Sole.
  Context (K : conf) (U R : id -> Prop).
  Implicit Types (m : machine) (o s t p : id) (x : obj).

  Definition Ugood m t : Prop :=
    exists x, get m t = Some x /\ o_box x = BAlloc /\ o_vst x = VLive /\ h_rc (o_hdr x) = 1 /\
              marked x = false /\ k_fin K && needs_fin (o_hdr x) = false.

  Record SI m : Prop := {
    si_u : forall t, U t -> Ugood m t;
    si_w : forall t, U t -> ~ wloc m t;
    si_r : forall p, R p -> exists x, get m p = Some x /\ o_vst x = VDropping;
    si_iso : forall h c t, hloc m h c t -> U t -> exists s, h = Some s /\ c = false /\ (U s \/ R s);
    si_hold : forall t, U t -> exists s xs j, (U s \/ R s) /\ get m s = Some xs /\ o_fields xs !! j = Some (Some t);
    si_wf : forall Q : id -> Prop,
        (forall t, U t -> (forall s xs j, U s -> get m s = Some xs -> o_fields xs !! j = Some (Some t) -> Q s) -> Q t) ->
        forall t, U t -> Q t;
  }.

  Definition uview (x x' : obj) : Prop :=
    o_box x' = o_box x /\ o_vst x' = o_vst x /\ h_rc (o_hdr x') = h_rc (o_hdr x) /\ o_fields x' = o_fields x /\
    (marked x = false -> marked x' = false) /\ (h_fin (o_hdr x) = true -> h_fin (o_hdr x') = true).
  Definition rview (x x' : obj) : Prop :=
    o_fields x' = o_fields x /\ (o_vst x = VDropping -> o_vst x' = VDropping).

  Lemma uview_refl x : uview x x.
  Proof. repeat split; auto. Qed.
  Lemma rview_refl x : rview x x.
  Proof. split; auto. Qed.
  Lemma uview_trans x y z : uview x y -> uview y z -> uview x z.
  Proof. intros (A1 & A2 & A3 & A4 & A5 & A6) (B1 & B2 & B3 & B4 & B5 & B6). repeat split; try congruence; auto. Qed.
  Lemma rview_trans x y z : rview x y -> rview y z -> rview x z.
  Proof. intros (A1 & A2) (B1 & B2). split; [congruence | auto]. Qed.

  Record Keep (m m' : machine) : Prop := {
    k_u : forall t x, U t -> get m t = Some x -> exists x', get m' t = Some x' /\ uview x x';
    k_r : forall p x, R p -> get m p = Some x -> exists x', get m' p = Some x' /\ rview x x';
    k_h : forall h c t, U t -> hloc m' h c t -> hloc m h c t;
    k_w : forall t, U t -> wloc m' t -> wloc m t;
  }.

  Lemma Keep_refl m : Keep m m.
  Proof. split; eauto using uview_refl, rview_refl. Qed.
  Lemma Keep_trans m1 m2 m3 : Keep m1 m2 -> Keep m2 m3 -> Keep m1 m3.
  Proof.
    intros [A1 A2 A3 A4] [B1 B2 B3 B4]. split.
    - intros t x Ht Hx. destruct (A1 t x Ht Hx) as (y & Hy & V1). destruct (B1 t y Ht Hy) as (z & Hz & V2).
      exists z. split; [exact Hz | eapply uview_trans; eauto].
    - intros p x Hp Hx. destruct (A2 p x Hp Hx) as (y & Hy & V1). destruct (B2 p y Hp Hy) as (z & Hz & V2).
      exists z. split; [exact Hz | eapply rview_trans; eauto].
    - eauto.
    - eauto.
  Qed.

  Lemma Keep_SI m m' : SI m -> Keep m m' -> SI m'.
  Proof.
    intros [S1 S2 S3 S4 S5 S6] [A1 A2 A3 A4]. split.
    - intros t Ht. destruct (S1 t Ht) as (x & Hx & Hb & Hv & Hrc & Hmk & Hfin).
      destruct (A1 t x Ht Hx) as (x' & Hx' & B1 & B2 & B3 & B4 & B5 & B6).
      exists x'. split; [exact Hx'|]. repeat split; try congruence; auto.
      destruct (k_fin K); [|reflexivity]. cbn in *. unfold needs_fin in *.
      apply negb_false_iff in Hfin. rewrite (B6 Hfin). reflexivity.
    - intros t Ht Hw. apply (S2 t Ht). auto.
    - intros p Hp. destruct (S3 p Hp) as (x & Hx & Hv). destruct (A2 p x Hp Hx) as (x' & Hx' & _ & B2). eauto.
    - intros h c t Hl Ht. apply (S4 h c t); auto.
    - intros t Ht. destruct (S5 t Ht) as (s & xs & j & Hs & Hxs & Hj). destruct Hs as [Hs|Hs].
      + destruct (A1 s xs Hs Hxs) as (xs' & Hxs' & _ & _ & _ & Hf & _). exists s, xs', j. rewrite Hf. auto.
      + destruct (A2 s xs Hs Hxs) as (xs' & Hxs' & Hf & _). exists s, xs', j. rewrite Hf. auto.
    - intros Q HQ. apply S6. intros t Ht IH. apply (HQ t Ht). intros s xs' j Hs Hxs' Hj.
      destruct (S1 s Hs) as (xs & Hxs & _). destruct (A1 s xs Hs Hxs) as (y & Hy & _ & _ & _ & Hf & _).
      assert (y = xs') by congruence. subst y. rewrite Hf in Hj. apply (IH s xs j Hs Hxs Hj).
  Qed.

  (** ** Consequences of [SI] *)
  Lemma SI_get m t : SI m -> U t -> exists x, get m t = Some x /\ o_vst x = VLive /\ o_box x = BAlloc /\ h_rc (o_hdr x) = 1.
  Proof. intros HS Ht. destruct (si_u _ HS t Ht) as (x & ? & ? & ? & ? & _). eauto 6. Qed.
  Lemma SI_notU_vst m t x : SI m -> get m t = Some x -> o_vst x <> VLive -> ~ U t.
  Proof. intros HS Hx Hv Ht. destruct (SI_get m t HS Ht) as (y & Hy & Hvy & _). congruence. Qed.
  Lemma SI_notU_new m t : SI m -> get m t = None -> ~ U t.
  Proof. intros HS Hx Ht. destruct (SI_get m t HS Ht) as (y & Hy & _). congruence. Qed.
  Lemma SI_notR_vst m t x : SI m -> get m t = Some x -> o_vst x <> VDropping -> ~ R t.
  Proof. intros HS Hx Hv Ht. destruct (si_r _ HS t Ht) as (y & Hy & Hvy). congruence. Qed.
  Lemma SI_notR_new m t : SI m -> get m t = None -> ~ R t.
  Proof. intros HS Hx Ht. destruct (si_r _ HS t Ht) as (y & Hy & _). congruence. Qed.
  Lemma SI_UR_disj m t : SI m -> U t -> R t -> False.
  Proof. intros HS Hu Hr. destruct (SI_get m t HS Hu) as (y & Hy & Hvy & _). destruct (si_r _ HS t Hr) as (z & Hz & Hvz). congruence. Qed.
  Lemma SI_slot m i t : SI m -> slots m !! i = Some (Some t) -> ~ U t.
  Proof. intros HS Hi Ht. destruct (si_iso _ HS None false t) as (s & Hs & _); [econstructor 1; eauto | exact Ht | discriminate]. Qed.
  Lemma SI_bag m t : SI m -> t ∈ bag m -> ~ U t.
  Proof. intros HS Hi Ht. destruct (si_iso _ HS None false t) as (s & Hs & _); [econstructor 2; eauto | exact Ht | discriminate]. Qed.
  Lemma SI_field m q xq j t : SI m -> get m q = Some xq -> o_fields xq !! j = Some (Some t) -> ~ U q -> ~ R q -> ~ U t.
  Proof.
    intros HS Hq Hj Hu Hr Ht. destruct (si_iso _ HS (Some q) false t) as (s & Hs & _ & [H|H]); [econstructor 3; eauto | exact Ht | |];
      injection Hs as <-; contradiction.
  Qed.
  Lemma SI_cleaner m q xq t : SI m -> get m q = Some xq -> o_cleaner xq = Some t -> ~ U t.
  Proof. intros HS Hq Hj Ht. destruct (si_iso _ HS (Some q) true t) as (s & _ & Hc & _); [econstructor 4; eauto | exact Ht | discriminate]. Qed.
  Lemma SI_wloc m t : SI m -> wloc m t -> ~ U t.
  Proof. intros HS Hw Ht. exact (si_w _ HS t Ht Hw). Qed.

  (** ** Building [Keep] *)
  (** a change outside the heap and the handle locations *)
  Lemma Keep_same m m' :
    heap m' = heap m -> slots m' = slots m -> bag m' = bag m -> wslots m' = wslots m -> wparam m' = wparam m ->
    cslots m' = cslots m -> Keep m m'.
  Proof.
    intros Hh Hs Hb H1 H2 H3. split.
    - intros t x _ Hx. exists x. unfold get in *. rewrite Hh. split; [exact Hx | apply uview_refl].
    - intros t x _ Hx. exists x. unfold get in *. rewrite Hh. split; [exact Hx | apply rview_refl].
    - intros h c t _. apply hloc_ext; assumption.
    - intros t _. apply wloc_ext; assumption.
  Qed.

  (** the update of one object *)
  Definition upd_ok (o : id) (x y : obj) : Prop :=
    (U o -> uview x y) /\ (R o -> rview x y) /\
    (forall j t, U t -> o_fields y !! j = Some (Some t) -> exists j', o_fields x !! j' = Some (Some t)) /\
    (forall t, U t -> o_cleaner y = Some t -> o_cleaner x = Some t) /\
    (forall j t, U t -> o_wfields y !! j = Some (Some (WTo t)) -> exists j', o_wfields x !! j' = Some (Some (WTo t))).

  Lemma Keep_upd o f m : (forall x, get m o = Some x -> upd_ok o x (f x)) -> Keep m (upd o f m).
  Proof.
    intros Hf.
    assert (Hget : forall p, get (upd o f m) p = if decide (o = p) then f <$> get m p else get m p) by (intros; apply get_upd).
    split.
    - intros t x Ht Hx. rewrite Hget. destruct (decide (o = t)) as [->|Hne].
      + rewrite Hx. cbn. eexists. split; [reflexivity|]. apply (Hf x Hx), Ht.
      + exists x. split; [exact Hx | apply uview_refl].
    - intros t x Ht Hx. rewrite Hget. destruct (decide (o = t)) as [->|Hne].
      + rewrite Hx. cbn. eexists. split; [reflexivity|]. apply (Hf x Hx), Ht.
      + exists x. split; [exact Hx | apply rview_refl].
    - intros h c t Ht Hl. destruct Hl as [i t' H | t' H | p xp j t' Hp Hj | p xp t' Hp Hc].
      + econstructor 1; eauto.
      + constructor 2; exact H.
      + rewrite Hget in Hp. destruct (decide (o = p)) as [->|Hne]; [|econstructor 3; eauto].
        destruct (get m p) as [x|] eqn:Ex; cbn in Hp; [|discriminate]. injection Hp as <-.
        destruct (Hf x eq_refl) as (_ & _ & H3 & _). destruct (H3 j t' Ht Hj) as (j' & Hj'). econstructor 3; eauto.
      + rewrite Hget in Hp. destruct (decide (o = p)) as [->|Hne]; [|econstructor 4; eauto].
        destruct (get m p) as [x|] eqn:Ex; cbn in Hp; [|discriminate]. injection Hp as <-.
        destruct (Hf x eq_refl) as (_ & _ & _ & H4 & _). econstructor 4; eauto.
    - intros t Ht [H|[H|[H|(p & xp & j & Hp & Hj)]]]; [left; exact H | right; left; exact H | right; right; left; exact H|].
      right; right; right. rewrite Hget in Hp. destruct (decide (o = p)) as [->|Hne]; [|eauto].
      destruct (get m p) as [x|] eqn:Ex; cbn in Hp; [|discriminate]. injection Hp as <-.
      destruct (Hf x eq_refl) as (_ & _ & _ & _ & H5). destruct (H5 j t Ht Hj) as (j' & Hj'). eauto.
  Qed.

  (** quiet update: box, value state, strong count, fields, cleaner, weak fields unchanged, list
      marks only disappear, the finalized flag is only set *)
  Definition oq (x y : obj) : Prop :=
    o_box y = o_box x /\ o_vst y = o_vst x /\ h_rc (o_hdr y) = h_rc (o_hdr x) /\ o_fields y = o_fields x /\
    o_cleaner y = o_cleaner x /\ o_wfields y = o_wfields x /\
    (marked x = false -> marked y = false) /\ (h_fin (o_hdr x) = true -> h_fin (o_hdr y) = true).
  Lemma oq_ok o x y : oq x y -> upd_ok o x y.
  Proof.
    intros (A1 & A2 & A3 & A4 & A5 & A6 & A7 & A8). unfold upd_ok, uview, rview. rewrite A1, A2, A3, A4, A5, A6.
    repeat split; eauto.
  Qed.
  Lemma Keep_upd_q o f m : (forall x, get m o = Some x -> oq x (f x)) -> Keep m (upd o f m).
  Proof. intros H. apply Keep_upd. intros x Hx. apply oq_ok, H, Hx. Qed.

  (** an update of an object outside [U] that keeps its handle fields *)
  Lemma Keep_upd_out o f m :
    ~ U o ->
    (forall x, get m o = Some x -> o_fields (f x) = o_fields x /\ o_cleaner (f x) = o_cleaner x /\
                                   o_wfields (f x) = o_wfields x /\ (R o -> o_vst x = VDropping -> o_vst (f x) = VDropping)) ->
    Keep m (upd o f m).
  Proof.
    intros Hu Hf. apply Keep_upd. intros x Hx. destruct (Hf x Hx) as (A1 & A2 & A3 & A4). unfold upd_ok, rview.
    rewrite A1, A2, A3. split; [contradiction|]. repeat split; eauto.
  Qed.

  (** a new object without handles *)
  Lemma Keep_new m y :
    (forall j t, o_fields y !! j = Some (Some t) -> False) -> o_cleaner y = None ->
    (forall j w, o_wfields y !! j = Some (Some w) -> False) ->
    Keep m (m <| heap ::= fun h => h ++ [y] |>).
  Proof.
    intros Hf Hc Hw.
    assert (Hget : forall p z, get (m <| heap ::= fun h => h ++ [y] |>) p = Some z -> get m p = Some z \/ z = y).
    { intros p z. unfold get. cbn. intros H. destruct (decide (p < length (heap m))%nat).
      - rewrite lookup_app_l in H by assumption. auto.
      - rewrite lookup_app_r in H by lia. destruct (p - length (heap m))%nat as [|k]; cbn in H; [|try discriminate; destruct k; discriminate].
        injection H as <-. auto. }
    assert (Hold : forall p z, get m p = Some z -> get (m <| heap ::= fun h => h ++ [y] |>) p = Some z).
    { intros p z. unfold get. cbn. intros H. rewrite lookup_app_l; [exact H | eapply lookup_lt_Some; eauto]. }
    split.
    - intros t x _ Hx. exists x. split; [apply Hold, Hx | apply uview_refl].
    - intros t x _ Hx. exists x. split; [apply Hold, Hx | apply rview_refl].
    - intros h c t _ Hl. destruct Hl as [i t' H | t' H | p xp j t' Hp Hj | p xp t' Hp Hc'].
      + econstructor 1; eauto.
      + constructor 2; exact H.
      + destruct (Hget p xp Hp) as [H| ->]; [econstructor 3; eauto | destruct (Hf j t' Hj)].
      + destruct (Hget p xp Hp) as [H| ->]; [econstructor 4; eauto | congruence].
    - intros t _ [H|[H|[H|(p & xp & j & Hp & Hj)]]]; [left; exact H | right; left; exact H | right; right; left; exact H|].
      destruct (Hget p xp Hp) as [H| ->]; [right; right; right; eauto | destruct (Hw j _ Hj)].
  Qed.
End Sole.
