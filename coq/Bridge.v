(** * Bridge: the trigger policy of the hand-written machine model IS the generated code.

    [Machine.should_collect] / [Machine.adjust] (coq/Machine.v, "Trigger policy") are written by
    hand so that the model can be extracted and run; [ConfigGen.should_collect] / [ConfigGen.adjust]
    are regenerated from src/config.rs on every run.  This file proves them equal, for the float
    interpretation [Fl] under which the generated abstract float operations become exactly the
    machine's [fle_prod] / [fprod_is_zero] (IEEE round-to-nearest-even of the product at 53 bits,
    operands exact).  Consequently property C15, proved on the generated code for every float
    interpretation ([ConfigSpec.adjust_spec]), holds for the machine ([machine_adjust_spec]). *)
From Coq Require Import NArith Bool List Lia.
From RC Require Import Hdr Word Machine ConfigSpec.
From RC.gen Require ConfigGen.
Local Open Scope N_scope.

Local Notation T0 := ConfigGen.DEFAULT_BYTES_THRESHOLD.

(** ** should_collect *)
Theorem bridge_should_collect (m : machine) :
  Machine.should_collect m =
  ConfigGen.should_collect (cf_auto m) (cf_thr m)
                           (if cf_buf m =? 0 then None else Some (cf_buf m))
                           (st_alloc m) (pc_size m).
Proof.
  rewrite should_collect_spec. unfold Machine.should_collect.
  destruct (cf_buf m =? 0); reflexivity.
Qed.

(** ** The float interpretation

    [(a, b, e)] denotes the f64 value [round53 (a * b) / 2^e] where [a], [b] are exactly
    representable integers ([usize as f64] below 2^53, the numerator of the percent). *)
Definition Fl := (N * N * N)%type.
Definition fl_of_usize (n : N) : Fl := (n, 1, 0).
Definition fl_mul (x y : Fl) : Fl :=
  (fst (fst x) * fst (fst y), snd (fst x) * snd (fst y), snd x + snd y).
Definition fl_eq0 (x : Fl) : bool := fst (fst x) * snd (fst x) =? 0.
Definition fl_le (x y : Fl) : bool :=
  let '(ax, bx, ex) := x in let '(ay, by_, ey) := y in
  let '(q, s) := Machine.round53 (ay * by_) in
  N.shiftl (ax * bx) ey <=? N.shiftl q (s + ex).

(** the percent [num / 2^e] *)
Definition fl_percent (num e : N) : Fl := (1, num, e).

Lemma fl_le_prod alloc thr num e :
  fl_le (fl_of_usize alloc) (fl_mul (fl_of_usize thr) (fl_percent num e)) =
  Machine.fle_prod alloc thr num e.
Proof.
  unfold fl_le, fl_mul, fl_of_usize, fl_percent, Machine.fle_prod; cbn [fst snd].
  rewrite !N.mul_1_r, N.mul_1_l, N.add_0_l.
  destruct (Machine.round53 (thr * num)) as [q s]. rewrite N.add_0_r. reflexivity.
Qed.

Lemma fl_eq0_prod thr num e :
  fl_eq0 (fl_mul (fl_of_usize thr) (fl_percent num e)) = Machine.fprod_is_zero thr num.
Proof.
  unfold fl_eq0, fl_mul, fl_of_usize, fl_percent, Machine.fprod_is_zero; cbn [fst snd].
  rewrite N.mul_1_r, N.mul_1_l. reflexivity.
Qed.

Notation gen_adjust := (ConfigGen.adjust Fl fl_of_usize fl_mul fl_le fl_eq0).
Notation gen_loop2 := (ConfigGen.adjust_loop2 Fl fl_of_usize fl_mul fl_le).

(** ** The loops: generated (out of fuel = [None]) versus machine (out of fuel = current value) *)
Lemma pow64 : 2 ^ 64 = 18446744073709551616. Proof. reflexivity. Qed.

Lemma bridge_loop1 : forall f alloc t r,
  ConfigGen.adjust_loop1 f alloc t = Some r ->
  forall f', (f <= f')%nat -> Machine.adjust_up f' t alloc = r.
Proof.
  induction f as [|f IH]; intros alloc t r H f' Hle; [discriminate|].
  destruct f' as [|f']; [lia|].
  cbn [ConfigGen.adjust_loop1 Machine.adjust_up] in *.
  rewrite Usz_checked_shl1_eq, pow64 in H.
  destruct (alloc <? (t * 2) mod 18446744073709551616).
  - injection H as <-. reflexivity.
  - apply IH with (1 := H). lia.
Qed.

Section Loop2.
  Variable K : conf.
  Hypothesis HK : k_thr0 K = T0.

  Lemma shr1 t : Usz.shr t 1 = N.shiftr t 1.
  Proof. rewrite N.shiftr_div_pow2. reflexivity. Qed.

  Lemma bridge_loop2 : forall f alloc t num e r,
    gen_loop2 f (fl_percent num e) alloc t = Some r ->
    forall f', (f <= f')%nat -> Machine.adjust_down K f' t alloc num e = r.
  Proof.
    induction f as [|f IH]; intros alloc t num e r H f' Hle; [discriminate|].
    destruct f' as [|f']; [lia|].
    cbn [ConfigGen.adjust_loop2 Machine.adjust_down] in *.
    rewrite fl_le_prod, shr1 in H. rewrite HK.
    destruct (Machine.fle_prod alloc t num e).
    - destruct (N.shiftr t 1 <=? alloc); [injection H as <-; reflexivity|].
      destruct (N.shiftr t 1 <=? T0); [injection H as <-; reflexivity|].
      apply IH with (1 := H). lia.
    - injection H as <-. reflexivity.
  Qed.
End Loop2.

Local Opaque ConfigGen.DEFAULT_BYTES_THRESHOLD.

(** [Machine.adjust] is a record update of [cf_thr] only. *)
Theorem bridge_adjust_frame (K : conf) (m : machine) :
  Machine.adjust K m =
  Machine (heap m) (pc m) (pc_size m) (pc_alive m) (st_collecting m) (st_finalizing m)
          (st_dropping m) (st_alloc m) (st_exec m)
          (cf_thr (Machine.adjust K m)) (cf_pnum m) (cf_pexp m) (cf_buf m) (cf_auto m)
          (slots m) (wslots m) (cslots m) (values m) (bag m) (wparam m)
          (fuse_trace m) (fuse_fin m) (fuse_drop m) (fuse_action m) (fuse_closure m)
          (panicking m) (next_aid m) (log m) (dead m).
Proof.
  unfold Machine.adjust.
  destruct (cf_thr m <=? st_alloc m); [destruct m; reflexivity|].
  destruct (Machine.fprod_is_zero (cf_thr m) (cf_pnum m)); destruct m; reflexivity.
Qed.

Lemma fuel_le_70_200 : (70 <= 200)%nat.
Proof. lia. Qed.

Lemma fuel70 n : n < 2 ^ 62 -> n < 2 ^ N.of_nat 70.
Proof.
  intros H. apply N.lt_le_trans with (1 := H).
  apply N.pow_le_mono_r; [discriminate|]. vm_compute; discriminate.
Qed.

(** ** adjust *)
Theorem bridge_adjust (K : conf) (m : machine) (k : N) :
  k_thr0 K = T0 -> cf_thr m = T0 * 2 ^ k -> cf_thr m < 2 ^ 62 -> st_alloc m < 2 ^ 62 ->
  gen_adjust 200 (cf_thr m) (fl_percent (cf_pnum m) (cf_pexp m)) (st_alloc m) =
  Some (cf_thr (Machine.adjust K m)).
Proof.
  intros HK Hk Ht Ha. pose proof T0pos as HT. pose proof (pow2_ge1 k) as Hp.
  unfold ConfigGen.adjust, Machine.adjust.
  destruct (cf_thr m <=? st_alloc m) eqn:E.
  - apply N.leb_le in E.
    assert (Hfuel : st_alloc m < cf_thr m * 2 ^ N.of_nat 70).
    { apply N.lt_le_trans with (1 := fuel70 _ Ha).
      rewrite <- (N.mul_1_l (2 ^ N.of_nat 70)) at 1. apply N.mul_le_mono_r. nia. }
    destruct (loop1_spec 70 (cf_thr m) (st_alloc m)) as (j & Hj & _); try assumption; try nia.
    rewrite (loop1_mono _ _ _ _ _ fuel_le_70_200 Hj).
    rewrite (bridge_loop1 _ _ _ _ Hj 70%nat (le_n _)).
    destruct m; reflexivity.
  - apply N.leb_gt in E. rewrite fl_eq0_prod.
    destruct (Machine.fprod_is_zero (cf_thr m) (cf_pnum m)); [reflexivity|].
    rewrite Hk in E, Ht.
    destruct (loop2_spec Fl fl_of_usize fl_mul fl_le 70 k
                         (fl_percent (cf_pnum m) (cf_pexp m)) (st_alloc m) E (fuel70 _ Ht))
      as (r & Hr & _).
    rewrite <- Hk in Hr.
    rewrite (loop2_mono Fl fl_of_usize fl_mul fl_le _ _ _ _ _ _ fuel_le_70_200 Hr).
    rewrite (bridge_loop2 K HK _ _ _ _ _ _ Hr 70%nat (le_n _)).
    destruct m; reflexivity.
Qed.

(** ** C15 for the machine *)
Theorem machine_adjust_spec (K : conf) (m : machine) (k : N) :
  k_thr0 K = T0 -> cf_thr m = T0 * 2 ^ k -> cf_thr m < 2 ^ 62 -> st_alloc m < 2 ^ 62 ->
  let thr' := cf_thr (Machine.adjust K m) in
  (exists k', thr' = T0 * 2 ^ k') /\ T0 <= thr' /\ st_alloc m < thr' /\
  (Machine.fprod_is_zero thr' (cf_pnum m) = false ->
   Machine.fle_prod (st_alloc m) thr' (cf_pnum m) (cf_pexp m) = false \/
   thr' / 2 <= st_alloc m \/ thr' = T0).
Proof.
  intros HK Hk Ht Ha.
  destruct (adjust_spec Fl fl_of_usize fl_mul fl_le fl_eq0 (cf_thr m) (st_alloc m)
                        (fl_percent (cf_pnum m) (cf_pexp m)) k Hk Ha Ht)
    as (thr' & H1 & H2 & H3 & H4 & H5).
  rewrite (bridge_adjust K m k HK Hk Ht Ha) in H1. injection H1 as <-.
  rewrite fl_eq0_prod, fl_le_prod in H5. cbv zeta. auto.
Qed.

(** The same with the hypotheses that the interpreter maintains: [adjust] runs only at the
    trigger point, and only when auto-collect is configured. *)
Corollary machine_adjust_trigger_point (K : conf) (m : machine) :
  Machine.adjust_trigger_point K m = if k_auto K then Machine.adjust K m else m.
Proof. reflexivity. Qed.
