(** * SafeFinalOwn2: "the last owner's drop reclaims everything it solely owned, recursively" (C04),
    reduced to one explicit frame hypothesis.

    [SolelyOwned m o t]: [t] is reached from [o] through strong fields, and every object on the
    way ([t] included) is alive, has strong count 1, is not linked in a collector list, has no
    finalizer to run ([k_fin K && needs_fin = false], as in [SafeFinalOwn.owned_field_freed]) and
    NO Weak handle points to it ([wrefs = 0]).  (Cleaner handles are not followed.)

    THEOREM [last_owner_recursive]: if [Cc::drop] of the last owner of [o] (strong count 1, not
    linked, no finalizer to run) returns normally, then [o] and every [t] with [SolelyOwned m o t]
    are freed and their values destroyed.  It holds for every [run K P n] under the conditions
    [Pre]/[Q] under which every activation of every program runs, RELATIVE TO the hypothesis
    [SoleFrame]: no activation other than the drop glue of [p] changes, for the objects solely
    owned (transitively) by a value [p] whose destruction is running, the facts in [sole_at]
    (alive, count 1, not linked, finalizer flag, no Weak, the holder's field).

    Status of [SoleFrame]:
    - It is NOT a consequence of part A's post-conditions ([InvP.Fr] says nothing about the
      strong count of an unprotected object) and it is not proved here: it needs a second
      induction over all activations (for the collector: that the tracing pass only touches
      objects reachable from the buffer), of the size of parts A+B.  Adding it to [InvP.ObjFr]
      is not possible without re-proving part B ([ObjFr_hs], used for every header update of
      the collector, would get a non-soleness premise).
    - WITHOUT the side condition [wrefs = 0] it is FALSE (so the conjunct [of_sole] as proposed
      in SafeFinalOwn.v is false): a Drop impl (of the owner, or of an earlier field's target)
      can upgrade a Weak to a solely owned child and store the handle: legal resurrection.
      Executed counterexample (rig code 13242/23242):
        class 0 nf=1 drop=0 ; class 1 nf=1 ; script 0 : upgrade w0 s3
        main : new s0 0 ; new s1 1 ; downgrade s1 w0 ; move s1 a0.0 ; drop s0 ; obs s3
    - Header EQUALITY is false even without Weak: a solely owned object that sits in the
      possible-cycle buffer (mark PC) is traced by a collection started from a Drop impl
      (tracing count / mark change; rig code 244).  The facts in [sole_at] survive.
    - As stated here it is validated by the executable checker SafeRig.v (codes 243/245, every
      activation boundary, also inside callbacks) on the directed corpus and 3600 random
      programs (tools/gen.py, all profiles) without a violation. *)
From Coq Require Import NArith Bool List Lia.
From stdpp Require Import base list option.
From RecordUpdate Require Import RecordSet.
From RC Require Import Hdr Machine RunInd.
From RC Require BufBase BufPass BufStep Buf.
From RC Require SafeCollDec SafeCollNf SafeCollGuard.
From RC Require Import Inv InvP SafeHelpers SafePrims SafeCalls SafeGlue SafeDrop SafeCmd SafeCyclic SafeMain SafeProps.
From RC Require Import SafeColl SafeCollTop SafeFinal SafeFinalPropsA SafeFinalProps SafeFinalOwn.
Import ListNotations RecordSetNotations.
Local Open Scope N_scope.

(** ** Sole ownership *)
Section Sole.
  Context (K : conf).
  Implicit Types (m : machine) (o s t u : id) (x : obj).

  Definition Freed m t : Prop := exists y, get m t = Some y /\ o_box y = BFreed /\ o_vst y = VDropped.

  (** [t] is alive, its strong count is 1, it is not linked in a collector list, it has no
      finalizer to run, no Weak handle points to it, and a strong field of [s] points to it *)
  Definition sole_at m s t : Prop :=
    exists xt xs, get m t = Some xt /\ o_box xt = BAlloc /\ o_vst xt = VLive /\ h_rc (o_hdr xt) = 1 /\
      is_in_list_or_queue (o_hdr xt) = false /\ k_fin K && needs_fin (o_hdr xt) = false /\
      wrefs m t = 0%nat /\ get m s = Some xs /\ exists j, o_fields xs !! j = Some (Some t).

  Inductive SolelyOwned m o : id -> Prop :=
  | so_child t : sole_at m o t -> SolelyOwned m o t
  | so_step s t : SolelyOwned m o s -> sole_at m s t -> SolelyOwned m o t.

  Lemma SO_mono m m' r :
    (forall s t, (s = r \/ SolelyOwned m r s) -> sole_at m s t -> sole_at m' s t) ->
    forall u, SolelyOwned m r u -> SolelyOwned m' r u.
  Proof.
    intros H u Hu. induction Hu as [t Ht | s t Hs IH Ht].
    - apply so_child. apply H; auto.
    - eapply so_step; [exact IH|]. apply H; auto.
  Qed.

  Lemma SO_split m o u : SolelyOwned m o u -> exists t1, sole_at m o t1 /\ (u = t1 \/ SolelyOwned m t1 u).
  Proof.
    intros Hu. induction Hu as [t Ht | s t Hs (t1 & H1 & IH) Ht].
    - exists t. auto.
    - exists t1. split; [exact H1|]. right. destruct IH as [-> | IH]; [apply so_child; exact Ht | eapply so_step; eauto].
  Qed.

  Lemma SO_under m o t1 u : SolelyOwned m t1 u -> sole_at m o t1 -> SolelyOwned m o u.
  Proof.
    intros Hu H1. induction Hu as [t Ht | s t Hs IH Ht].
    - eapply so_step; [apply so_child; exact H1 | exact Ht].
    - eapply so_step; eauto.
  Qed.

  (** members are alive *)
  Lemma SO_live m o u : SolelyOwned m o u -> exists xu, get m u = Some xu /\ o_vst xu = VLive /\ o_box xu = BAlloc.
  Proof. intros [t (xt & xs & H) | s t _ (xt & xs & H)]; exists xt; tauto. Qed.

  (** the edges persist under an update of another object that keeps the Weak fields and the
      strong fields pointing to [t] *)
  Lemma sole_at_other m m' a s t :
    t <> a -> (forall p, p <> a -> get m' p = get m p) -> wrefs m' t = wrefs m t ->
    (s = a -> forall xs, get m a = Some xs -> exists xs', get m' a = Some xs' /\
       forall j, o_fields xs !! j = Some (Some t) -> exists j', o_fields xs' !! j' = Some (Some t)) ->
    sole_at m s t -> sole_at m' s t.
  Proof.
    intros Hne Hot Hw Hs (xt & xs & Ht & Hb & Hv & Hrc & Hmk & Hfin & Hw0 & Hxs & j & Hj).
    destruct (decide (s = a)) as [->|Hsa].
    - destruct (Hs eq_refl xs Hxs) as (xs' & Hxs' & Hf). destruct (Hf j Hj) as (j' & Hj').
      exists xt, xs'. rewrite (Hot t Hne), Hw. eauto 15.
    - exists xt, xs. rewrite (Hot t Hne), (Hot s Hsa), Hw. eauto 15.
  Qed.

  Lemma Freed_fr E ex m m' t : Fr K E ex m m' -> Freed m t -> Freed m' t.
  Proof.
    intros F (y & Hy & Hb & Hv). destruct (fr_obj _ _ _ _ _ F t y Hy) as (y' & Hy' & OF).
    exists y'. split; [exact Hy'|]. split; [apply (of_box2 _ _ _ _ _ _ _ OF Hb) | apply (of_dropped _ _ _ _ _ _ _ OF Hv)].
  Qed.
  Lemma Freed_other m m' a t : t <> a -> (forall p, p <> a -> get m' p = get m p) -> Freed m t -> Freed m' t.
  Proof. intros Hne Hot (y & Hy & H). exists y. rewrite (Hot t Hne). auto. Qed.

  (** what every activation other than the drop glue of [p] leaves alone: the objects solely
      owned, transitively, by a value [p] whose destruction is running *)
  Definition sole_persist (ex : option id) (m m' : machine) : Prop :=
    forall p xp, get m p = Some xp -> o_vst xp = VDropping -> ex <> Some p ->
    forall s t, (s = p \/ SolelyOwned m p s) -> sole_at m s t -> sole_at m' s t.

  Lemma sole_persist_SO ex m m' p xp u :
    sole_persist ex m m' -> get m p = Some xp -> o_vst xp = VDropping -> ex <> Some p ->
    SolelyOwned m p u -> SolelyOwned m' p u.
  Proof. intros H Hp Hv Hex. apply SO_mono. intros s t Hs Ht. eapply H; eauto. Qed.
End Sole.
Section WrefsKeep.
  Context (K : conf).
  Implicit Types (m : machine) (o t : id).

  Lemma wrefs_uhdr o g m t : wrefs (uhdr o g m) t = wrefs m t.
  Proof. unfold uhdr. eapply wrefs_alter_same; reflexivity. Qed.
  Lemma wrefs_dec_rc_m o m t : wrefs (dec_rc_m o m) t = wrefs m t.
  Proof. unfold dec_rc_m. destruct (dec_rc _); [apply wrefs_uhdr | apply wrefs_ext; reflexivity]. Qed.
  Lemma wrefs_remove_from_list o m t : wrefs (remove_from_list o m) t = wrefs m t.
  Proof.
    unfold remove_from_list. destruct (is_in_pc _); [|reflexivity]. destruct (pc_alive m); [|reflexivity].
    unfold dec_size. 
    match goal with |- wrefs ?mm t = _ => transitivity (wrefs (uhdr o (set_mark NM) m) t) end; [|apply wrefs_uhdr].
    apply wrefs_ext; destruct (pc_size _ =? 0); reflexivity.
  Qed.
  Lemma wrefs_last_owner_mid o m t : wrefs (last_owner_mid K o m) t = wrefs m t.
  Proof.
    unfold last_owner_mid. cbv zeta.
    assert (H : wrefs (remove_from_list o (dec_rc_m o m) <| st_dropping := true |>) t = wrefs m t).
    { rewrite <- (wrefs_dec_rc_m o m t), <- (wrefs_remove_from_list o (dec_rc_m o m) t). apply wrefs_ext; reflexivity. }
    destruct (k_weak K); [rewrite wrefs_uhdr|]; exact H.
  Qed.
End WrefsKeep.
Section OwnStep.
  Context (K : conf) (P : prog).
  Context (PreC : bool -> list id -> call -> machine -> Prop)
          (PostC : bool -> list id -> call -> machine -> machine -> outcome -> Prop).
  Context (rec : call -> machine -> machine * outcome).
  Hypothesis Hrec : forall b E, rec_ok (Pre K PreC b E) (Post K PostC b E) rec.
  Hypothesis Hwf : wf_prog P = true.
  Implicit Types (m : machine) (o s t u : id) (x : obj).

  Definition LastOwner m t : Prop :=
    exists xt, get m t = Some xt /\ h_rc (o_hdr xt) = 1 /\ is_in_list_or_queue (o_hdr xt) = false /\
               k_fin K && needs_fin (o_hdr xt) = false.

  (** the callees: the frame for solely owned objects, and the statements being proved *)
  Hypothesis Hsole : forall b E c m m' r, Pre K PreC b E c m -> rec c m = (m', r) -> r = ONormal \/ r = OPanic ->
    sole_persist K (ex_of c) m m'.
  Hypothesis HA : forall b E t m m', Pre K PreC b E (KDropCc t) m -> LastOwner m t -> rec (KDropCc t) m = (m', ONormal) ->
    Freed m' t /\ forall u, SolelyOwned K m t u -> Freed m' u.
  Hypothesis HV : forall b E t m m', Pre K PreC b E (KDropValue t) m -> (forall x, get m t = Some x -> h_rc (o_hdr x) = 0) ->
    rec (KDropValue t) m = (m', ONormal) ->
    forall u, SolelyOwned K m t u -> Freed m' u.
  Hypothesis HB : forall b E o j m m' x, Pre K PreC b E (KDropFields o j) m -> get m o = Some x ->
    (forall i t, (i < j)%nat -> o_fields x !! i = Some (Some t) -> False) ->
    rec (KDropFields o j) m = (m', ONormal) -> forall u, SolelyOwned K m o u -> Freed m' u.

  Lemma unwinding_not_normal f m m' : unwinding f m = (m', ONormal) -> False.
  Proof. unfold unwinding. destruct (f _) as [m1 r]. destruct r, (panicking m); discriminate. Qed.

  Lemma sole_at_live m s t : sole_at K m s t -> exists xt, get m t = Some xt /\ o_vst xt = VLive.
  Proof. intros (xt & xs & H). exists xt. tauto. Qed.

  (** clearing field [j] of a value under destruction *)
  Lemma sole_at_clear m o x j s t :
    get m o = Some x -> o_vst x = VDropping -> (s <> o \/ o_fields x !! j <> Some (Some t)) ->
    sole_at K m s t -> sole_at K (upd o (fun x => x <| o_fields ::= <[j := None]> |>) m) s t.
  Proof.
    intros Hx Hv Hc Hs. destruct (sole_at_live _ _ _ Hs) as (xt & Hxt & Hvt).
    assert (Hne : t <> o) by (intros ->; congruence).
    apply (sole_at_other K m _ o s t Hne); [| | | exact Hs].
    - intros p Hp. apply get_upd_ne. congruence.
    - eapply wrefs_alter_same; reflexivity.
    - intros -> xs Hxs. assert (xs = x) by congruence. subst xs. eexists. split; [apply get_upd_eq, Hx|].
      intros j0 Hj0. exists j0. cbn. destruct Hc as [Hc|Hc]; [congruence|].
      rewrite list_lookup_insert_ne; [exact Hj0|]. intros <-. congruence.
  Qed.

  Lemma step_fields_own b E o j m m' x :
    Pre K PreC b E (KDropFields o j) m -> get m o = Some x ->
    (forall i t, (i < j)%nat -> o_fields x !! i = Some (Some t) -> False) ->
    step_drop_fields rec o j m = (m', ONormal) -> forall u, SolelyOwned K m o u -> Freed m' u.
  Proof.
    rewrite Pre_nc by reflexivity. cbn [own_of app]. intros (Hnb & HI & x0 & Hx0 & Hv) Hx Hlow Hstep u Hu.
    assert (x0 = x) by congruence. subst x0.
    destruct (SO_split K m o u Hu) as (t1 & H1 & Hu1).
    pose proof H1 as (xt1 & xs & Hxt1 & Hbt1 & Hvt1 & Hrc1 & Hmk1 & Hfin1 & Hw1 & Hxs & j1 & Hj1).
    assert (xs = x) by congruence. subst xs.
    assert (Hj1j : (j <= j1)%nat) by (destruct (decide (j <= j1)%nat); [assumption | exfalso; apply (Hlow j1 t1); [lia | exact Hj1]]).
    unfold step_drop_fields in Hstep. rewrite Hx in Hstep.
    destruct (decide (j < length (o_fields x))%nat) as [Hj|Hj]; [|exfalso; apply lookup_lt_Some in Hj1; lia].
    cbv zeta in Hstep.
    set (m1 := upd o (fun x => x <| o_fields ::= <[j := None]> |>) m) in *.
    pose proof (Cur_init K b true E (Some o) E [] m Hnb HI) as C0.
    assert (Hrl : read_loc (RField o j) m = mjoin (o_fields x !! j)) by (cbn; rewrite Hx; reflexivity).
    assert (C1 : Cur K b true E (Some o) m (ol (mjoin (o_fields x !! j)) ++ E) [] m1).
    { rewrite <- Hrl. apply (Cur_write_loc K b true E (Some o) m E [] m (RField o j) None C0).
      - cbn. eauto.
      - discriminate.
      - intros p j' y [= <- <-] Hy. assert (y = x) by congruence. subst. split; [auto|]. split; [auto|]. split; [congruence | auto]. }
    set (x1 := x <| o_fields ::= <[j := None]> |>).
    assert (Hx1 : get m1 o = Some x1) by (apply get_upd_eq, Hx).
    assert (Hlow1 : forall i t, (i < S j)%nat -> o_fields x1 !! i = Some (Some t) -> False).
    { intros i t Hi Hl. unfold x1 in Hl. cbn in Hl. destruct (decide (i = j)) as [->|Hne].
      - rewrite list_lookup_insert in Hl by exact Hj. discriminate.
      - rewrite list_lookup_insert_ne in Hl by congruence. apply (Hlow i t); [lia | exact Hl]. }
    (* the subtree below a member is not affected by the update of [o] *)
    assert (Hsub : forall t0 u0, sole_at K m o t0 -> SolelyOwned K m t0 u0 -> SolelyOwned K m1 t0 u0).
    { intros t0 u0 H0. apply SO_mono. intros s t Hs Ht. apply (sole_at_clear m o x j s t Hx Hv); [|exact Ht]. left.
      assert (Hls : exists xs, get m s = Some xs /\ o_vst xs = VLive).
      { destruct Hs as [-> | Hs]; [apply (sole_at_live _ _ _ H0) | destruct (SO_live K _ _ _ Hs) as (y & ? & ? & _); eauto]. }
      destruct Hls as (xs & Hxs' & Hvs). intros ->. congruence. }
    destruct (o_fields x !! j) as [[tj|]|] eqn:Hfld; cbn [mjoin option_join ol app] in *;
      [ | | apply lookup_ge_None_1 in Hfld; lia].
    - (* field j holds a handle *)
      change (mjoin (Some (Some tj))) with (Some tj) in *. cbn [ol app] in C1.
      destruct (rec (KDropCc tj) m1) as [m2 r1] eqn:E1.
      destruct r1; [ | exfalso; eapply unwinding_not_normal; exact Hstep | discriminate | discriminate].
      assert (Hown : own_ok m1 tj).
      { intros Hd. change (inD m1 tj) with (inD m tj) in Hd.
        assert (Hl : hloc m (Some o) false tj) by (econstructor 3; eauto).
        destruct (sv_loc _ _ _ _ _ HI _ _ _ Hl) as (xt' & Hxt' & _ & _ & Hc). destruct (Hc x Hx) as [_ Hc2].
        destruct (Hc2 Hd) as (_ & _ & Hm). specialize (Hm Hv).
        unfold m1. rewrite marked_at_upd by reflexivity. rewrite (marked_at_get _ _ _ Hxt'). exact Hm. }
      assert (Hpre1 : Pre K PreC b E (KDropCc tj) m1).
      { rewrite Pre_nc by reflexivity. cbn [own_of app]. split; [apply C1|]. split; [apply C1 | exact Hown]. }
      pose proof (Hrec b E (KDropCc tj) m1 Hpre1) as HP1. rewrite E1 in HP1. cbn [fst snd] in HP1.
      destruct (Cur_call_n K PostC (KDropCc tj) _ _ _ _ _ _ _ _ _ eq_refl C1 HP1 (cnt_le_refl E) (or_introl eq_refl)) as [C2 _].
      assert (HF12 : Fr K E None m1 m2) by (rewrite Post_nc in HP1 by reflexivity; apply HP1).
      destruct (fr_obj _ _ _ _ _ HF12 o x1 Hx1) as (x2 & Hx2 & OF2).
      destruct (of_dropping _ _ _ _ _ _ _ OF2 Hv) as (V2 & F2 & _); [discriminate|].
      assert (Hpre2 : Pre K PreC b E (KDropFields o (S j)) m2).
      { rewrite Pre_nc by reflexivity. cbn [own_of app]. split; [apply C2|]. split; [apply C2|]. exists x2. auto. }
      assert (Hlow2 : forall i t, (i < S j)%nat -> o_fields x2 !! i = Some (Some t) -> False) by (rewrite F2; exact Hlow1).
      destruct (decide (t1 = tj)) as [->|Hne1].
      + (* the member is the target of this field: its own Cc::drop frees it and its subtree *)
        assert (Hlo : LastOwner m1 tj).
        { exists xt1. split; [unfold m1; rewrite get_upd_ne; [exact Hxt1 | intros ->; congruence]|]. auto. }
        destruct (HA b E tj m1 m2 Hpre1 Hlo E1) as [Hf1 Hf2].
        assert (Hfu : Freed m2 u) by (destruct Hu1 as [-> | Hu1]; [exact Hf1 | apply Hf2, (Hsub tj u H1 Hu1)]).
        pose proof (Hrec b E (KDropFields o (S j)) m2 Hpre2) as HP2. rewrite Hstep in HP2. cbn [fst snd] in HP2.
        rewrite Post_nc in HP2 by reflexivity. destruct HP2 as (_ & _ & HF2 & _).
        apply (Freed_fr K _ _ _ _ _ HF2 Hfu).
      + (* another member: frozen while the target of field j is dropped *)
        assert (Hu1' : SolelyOwned K m1 o u).
        { assert (H1' : sole_at K m1 o t1) by (apply (sole_at_clear m o x j o t1 Hx Hv); [right; congruence | exact H1]).
          destruct Hu1 as [-> | Hu1]; [apply so_child; exact H1' | eapply SO_under; [apply (Hsub t1 u H1 Hu1) | exact H1']]. }
        pose proof (Hsole b E (KDropCc tj) m1 m2 ONormal Hpre1 E1 (or_introl eq_refl)) as Hsp.
        pose proof (sole_persist_SO K _ _ _ o x1 u Hsp Hx1 Hv ltac:(discriminate) Hu1') as Hu2.
        apply (HB b E o (S j) m2 m' x2 Hpre2 Hx2 Hlow2 Hstep u Hu2).
    - (* field j is empty *)
      change (mjoin (Some None)) with (@None id) in *. cbn [ol app] in C1.
      assert (Hpre2 : Pre K PreC b E (KDropFields o (S j)) m1).
      { rewrite Pre_nc by reflexivity. cbn [own_of app]. split; [apply C1|]. split; [apply C1|]. exists x1. auto. }
      assert (Hu1' : SolelyOwned K m1 o u).
      { assert (H1' : sole_at K m1 o t1) by (apply (sole_at_clear m o x j o t1 Hx Hv); [right; congruence | exact H1]).
        destruct Hu1 as [-> | Hu1]; [apply so_child; exact H1' | eapply SO_under; [apply (Hsub t1 u H1 Hu1) | exact H1']]. }
      apply (HB b E o (S j) m1 m' x1 Hpre2 Hx1 Hlow1 Hstep u Hu1').
  Qed.

  Lemma sole_at_heap m m' s t :
    heap m' = heap m -> wslots m' = wslots m -> wparam m' = wparam m -> cslots m' = cslots m ->
    sole_at K m s t -> sole_at K m' s t.
  Proof.
    intros Hh H1 H2 H3 (xt & xs & H). exists xt, xs. rewrite !(get_heap_eq _ _ _ Hh), (wrefs_ext m m' t H1 H2 H3 Hh). exact H.
  Qed.

  (** the value destructor; [t] is not pointed to by its own subtree because its count is 0 *)
  Lemma step_value_own b E t m m' :
    Pre K PreC b E (KDropValue t) m -> (forall x, get m t = Some x -> h_rc (o_hdr x) = 0) ->
    step_drop_value K P rec t m = (m', ONormal) -> forall u, SolelyOwned K m t u -> Freed m' u.
  Proof.
    rewrite Pre_nc by reflexivity. cbn [own_of app]. intros (Hnb & HI & Hdr) Hrc0 Hstep u Hu.
    pose proof (Cur_init K b true E (Some t) E [] m Hnb HI) as C0.
    pose proof (Cur_vst_dropping K b true E m E [] m t C0 Hdr) as C1.
    destruct Hdr as (x & Hx & He0 & Hdr).
    (* no edge of the subtree points to [t] *)
    assert (Hnot : forall s t0, sole_at K m s t0 -> t0 <> t).
    { intros s t0 (xt & xs & Hxt & _ & _ & Hrc & _) ->. assert (xt = x) by congruence. subst. rewrite (Hrc0 x Hx) in Hrc. discriminate. }
    assert (Hut : u <> t) by (destruct Hu as [t0 H0 | s t0 _ H0]; apply (Hnot _ _ H0)).
    destruct (SO_split K m t u Hu) as (t1 & H1 & _).
    pose proof H1 as (xt1 & xs & _ & _ & _ & _ & _ & _ & _ & Hxs & j1 & Hj1). assert (xs = x) by congruence. subst xs.
    assert (Hnm : o_ismap x = false).
    { destruct (o_ismap x) eqn:Hm; [|reflexivity]. destruct (sv_objx _ _ _ _ _ HI _ _ Hx) as [_ _ _ _ X5 _].
      destruct (X5 Hm) as (Hf & _). rewrite Hf in Hj1. discriminate. }
    unfold step_drop_value in Hstep. rewrite Hx, Hnm in Hstep.
    set (m1 := upd t (fun x => x <| o_vst := VDropping |>) m) in *.
    set (x1 := x <| o_vst := VDropping |>).
    assert (Hx1 : get m1 t = Some x1) by (apply get_upd_eq, Hx).
    assert (Hmain : (let m := emit (ECb KDrop t (cur_flags K m1)) m1 in
            let '(m, boom) := tick KDrop m in
            let '(m, r) := if boom then (m, raise m)
                           else rec (KScript (Some t) (oscript P (c_drop (class_of P (o_cls x))))) m in
            let '(m, r) :=
              match r with
              | ONormal => rec (KDropFields t 0) m
              | OPanic => unwinding (rec (KDropFields t 0)) m
              | _ => (m, r)
              end in
            (upd t (fun x => x <| o_vst := VDropped |>) m, r)) = (m', ONormal)).
    { destruct (o_vst x); try exact Hstep; destruct (o_box x); cbn in Hdr; try discriminate; destruct Hdr; discriminate. }
    clear Hstep. cbv zeta in Hmain.
    set (script := oscript P (c_drop (class_of P (o_cls x)))) in *.
    (* the subtree at [m1] *)
    assert (Hu1 : SolelyOwned K m1 t u).
    { revert Hu. apply SO_mono. intros s t0 _ H0. apply (sole_at_other K m m1 t s t0 (Hnot _ _ H0)); [| | | exact H0].
      - intros p Hp. apply get_upd_ne. congruence.
      - eapply wrefs_alter_same; reflexivity.
      - intros -> xs Hxs'. assert (xs = x) by congruence. subst xs. exists x1. split; [exact Hx1|]. intros j0 Hj0. exists j0. exact Hj0. }
    pose proof (Cur_tick K _ _ _ _ _ _ _ _ KDrop (Cur_emit K _ _ _ _ _ _ _ _ (ECb KDrop t (cur_flags K m1)) C1 eq_refl)) as C2.
    assert (Hh2 : forall mm, mm = (tick KDrop (emit (ECb KDrop t (cur_flags K m1)) m1)).1 ->
              heap mm = heap m1 /\ wslots mm = wslots m1 /\ wparam mm = wparam m1 /\ cslots mm = cslots m1).
    { intros mm ->. unfold tick. destruct (get_fuse KDrop _ =? 0); repeat split. }
    destruct (tick KDrop (emit (ECb KDrop t (cur_flags K m1)) m1)) as [m2 boom]; cbn [fst] in C2, Hh2.
    destruct (Hh2 m2 eq_refl) as (G1 & G2 & G3 & G4).
    assert (Hx2 : get m2 t = Some x1) by (rewrite (get_heap_eq _ _ _ G1); exact Hx1).
    assert (Hu2 : SolelyOwned K m2 t u).
    { revert Hu1. apply SO_mono. intros s t0 _ H0. apply (sole_at_heap m1 m2 s t0 G1 G2 G3 G4 H0). }
    destruct boom.
    { exfalso. unfold raise in Hmain. destruct (panicking m2); [discriminate|].
      destruct (unwinding (rec (KDropFields t 0)) m2) as [m4 r4] eqn:Hunw. injection Hmain as _ ->.
      eapply unwinding_not_normal; exact Hunw. }
    assert (Hso : self_ok E (Some t) script m2) by (right; split; [apply (wf_drop_script P Hwf) | exists x1; auto]).
    assert (Hpre2 : Pre K PreC b E (KScript (Some t) script) m2).
    { rewrite Pre_nc by reflexivity. cbn [own_of app]. split; [apply C2|]. split; [apply C2 | exact Hso]. }
    pose proof (Hrec b E (KScript (Some t) script) m2 Hpre2) as HP2.
    destruct (rec (KScript (Some t) script) m2) as [m3 r] eqn:E2. cbn [fst snd] in HP2.
    destruct r; [ | exfalso | discriminate | discriminate].
    2:{ destruct (unwinding (rec (KDropFields t 0)) m3) as [m4 r4] eqn:Hunw. injection Hmain as _ ->.
        eapply unwinding_not_normal; exact Hunw. }
    pose proof (Hsole b E _ m2 m3 ONormal Hpre2 E2 (or_introl eq_refl)) as Hsp.
    pose proof (sole_persist_SO K _ _ _ t x1 u Hsp Hx2 eq_refl ltac:(discriminate) Hu2) as Hu3.
    destruct (Cur_call_n K PostC (KScript (Some t) script) _ _ _ _ _ _ _ _ _ eq_refl C2 HP2 (cnt_le_refl E) (or_introl eq_refl)) as [C3 _].
    assert (HF23 : Fr K E None m2 m3) by (rewrite Post_nc in HP2 by reflexivity; apply HP2).
    destruct (fr_obj _ _ _ _ _ HF23 t x1 Hx2) as (x3 & Hx3 & OF3).
    destruct (of_dropping _ _ _ _ _ _ _ OF3 eq_refl) as (V3 & _); [discriminate|].
    assert (Hpre3 : Pre K PreC b E (KDropFields t 0) m3).
    { rewrite Pre_nc by reflexivity. cbn [own_of app]. split; [apply C3|]. split; [apply C3|]. exists x3. auto. }
    destruct (rec (KDropFields t 0) m3) as [m4 r4] eqn:E3. injection Hmain as <- ->.
    pose proof (HB b E t 0%nat m3 m4 x3 Hpre3 Hx3 ltac:(intros; lia) E3 u Hu3) as Hf.
    apply (Freed_other m4 _ t u Hut); [|exact Hf]. intros p Hp. apply get_upd_ne. congruence.
  Qed.

  (** Cc::drop of the last owner: the state in which the value destructor is entered *)
  Lemma pre_mid b E t m xt :
    Pre K PreC b E (KDropCc t) m -> get m t = Some xt -> is_in_list_or_queue (o_hdr xt) = false -> h_rc (o_hdr xt) = 1 ->
    Pre K PreC b E (KDropValue t) (last_owner_mid K t m) /\
    (exists x4, get (last_owner_mid K t m) t = Some x4 /\ h_rc (o_hdr x4) = 0 /\ o_fields x4 = o_fields xt) /\
    o_box xt = BAlloc /\ refs m t = 0%nat.
  Proof.
    rewrite Pre_nc by reflexivity. cbn [own_of app]. intros (Hnb & HI & Hown) Hx Hmk Hrc.
    pose proof (Cur_init K b true E None (t :: E) [] m Hnb HI) as Cg.
    destruct (Cur_own_alloc K _ _ _ _ _ _ _ _ _ Cg) as (x' & Hx' & Hbg & Hcnt & _). assert (x' = xt) by congruence. subst x'.
    assert (Hr0 : refs m t = 0%nat) by (rewrite Hrc in Hcnt; lia).
    assert (Hig : inD m t = false).
    { destruct (inD m t) eqn:Ei; [|reflexivity]. specialize (Hown Ei). rewrite (marked_at_get _ _ _ Hx) in Hown.
      unfold marked in Hown. congruence. }
    destruct (inflight_live K _ _ _ _ _ _ HI Hx Hig) as (_ & Hvg & Hdg & Hnz).
    unfold last_owner_mid. cbv zeta.
    pose proof (Cur_dec_rc K _ _ _ _ _ _ _ _ _ Cg) as C1.
    rewrite (dec_rc_m_eq m t xt Hx Hnz) in *.
    set (x1 := xt <| o_hdr ::= fun _ => set_rc (h_rc (o_hdr xt) - 1) (o_hdr xt) |>).
    set (m1 := uhdr t (fun _ => set_rc (h_rc (o_hdr xt) - 1) (o_hdr xt)) m) in *.
    assert (Hx1 : get m1 t = Some x1) by (apply get_upd_eq, Hx).
    pose proof (Cur_remove_from_list K _ _ _ _ _ _ _ _ t x1 C1 Hx1 Hbg) as C2.
    destruct (remove_from_list_obj m1 t x1 Hx1) as (x2 & Hx2 & (S1 & S2 & S3 & S4 & S5 & S6 & S7 & S8 & S9) & R1 & R2 & R3 & R4 & R5 & R6).
    set (m2' := remove_from_list t m1) in *.
    assert (Hrc2 : h_rc (o_hdr x2) = 0) by (rewrite R1; unfold x1; cbn; rewrite Hrc; reflexivity).
    assert (Hb2 : o_box x2 = BAlloc) by (rewrite S2; exact Hbg).
    assert (Hv2 : o_vst x2 = VLive) by (rewrite S1; exact Hvg).
    assert (Hi2 : inD m2' t = false) by (unfold inD; rewrite R6; exact Hig).
    assert (Hd2 : is_dropped (o_hdr x2) = false) by (unfold is_dropped; rewrite R2; exact Hdg).
    assert (Hnpc : t ∉ pc m2') by (apply (remove_from_list_notin K b E [] m1 t (cur_inv _ _ _ _ _ _ _ _ _ C1))).
    pose proof (cur_inv _ _ _ _ _ _ _ _ _ C2) as HI2.
    assert (He0 : cnt_id t E = 0%nat).
    { destruct (okN_alloc K _ _ _ _ _ (sv_obj _ _ _ _ _ HI2 _ _ Hx2)) as (O1 & _); [congruence|]. rewrite Hrc2 in O1. lia. }
    pose proof (Cur_init K b true E (Some t) E [] m2' (cur_nb _ _ _ _ _ _ _ _ _ C2) HI2) as D0.
    pose proof (Cur_set_dropping_true K _ _ _ _ _ _ _ _ D0) as D1.
    set (m3 := m2' <| st_dropping := true |>) in *.
    assert (Hx3 : get m3 t = Some x2) by exact Hx2.
    set (m4 := if k_weak K then uhdr t set_dropped m3 else m3) in *.
    assert (D2 : Cur K b true E (Some t) m2' E [] m4 /\
                 exists x4, get m4 t = Some x4 /\ o_box x4 = BAlloc /\ o_vst x4 = VLive /\ h_rc (o_hdr x4) = 0 /\
                            (k_weak K = true -> is_dropped (o_hdr x4) = true) /\ inD m4 t = false /\ t ∉ pc m4 /\
                            o_fields x4 = o_fields xt).
    { unfold m4. destruct (k_weak K) eqn:Hk.
      - split.
        + apply (Cur_set_dropped K _ _ _ _ _ _ _ _ t x2 D1 Hx3); auto; congruence.
        + exists (x2 <| o_hdr ::= set_dropped |>). split; [apply get_upd_eq, Hx3|]. cbn. repeat split; auto; congruence.
      - split; [exact D1|]. exists x2. repeat split; auto; try congruence; try discriminate. }
    destruct D2 as (D2 & x4 & Hx4 & Hb4 & Hv4 & Hrc4 & Hdr4 & Hi4 & Hpc4 & Hf4).
    assert (Hdroppable : droppable K E m4 t).
    { exists x4. split; [exact Hx4|]. split; [exact He0|]. rewrite Hb4. split; [exact Hv4|]. split; [exact Hdr4|]. left. auto. }
    split; [|split; [exists x4; auto | auto]].
    rewrite Pre_nc by reflexivity. cbn [own_of app]. split; [apply D2|]. split; [apply D2 | exact Hdroppable].
  Qed.

  Lemma ot_last_owner_mid t m : only_touches t m (last_owner_mid K t m).
  Proof.
    unfold last_owner_mid. cbv zeta.
    assert (H : only_touches t m (remove_from_list t (dec_rc_m t m) <| st_dropping := true |>)).
    { apply (ot_trans t m (dec_rc_m t m)); [apply ot_dec_rc_m|].
      apply (ot_trans t _ (remove_from_list t (dec_rc_m t m))); [apply ot_remove_from_list | apply ot_heap; reflexivity]. }
    destruct (k_weak K); [|exact H]. eapply ot_trans; [exact H|]. apply (ot_alter t (fun x => x <| o_hdr ::= set_dropped |>)). reflexivity.
  Qed.

  Lemma step_cc_own b E t m m' :
    Pre K PreC b E (KDropCc t) m -> LastOwner m t -> step_drop_cc K P rec t m = (m', ONormal) ->
    Freed m' t /\ forall u, SolelyOwned K m t u -> Freed m' u.
  Proof.
    intros Hpre (xt & Hxt & Hrc & Hmk & Hfin) Hstep.
    destruct (pre_mid b E t m xt Hpre Hxt Hmk Hrc) as (HpreV & (x4 & Hx4 & Hrc4 & Hf4) & Hbt & Hr0).
    pose proof Hstep as Hstep0.
    rewrite (step_drop_cc_last_owner K P rec t m xt Hxt Hbt Hmk Hrc Hfin) in Hstep. fold (last_owner_mid K t m) in Hstep.
    destruct (rec (KDropValue t) (last_owner_mid K t m)) as [m2 r] eqn:Ev.
    destruct r; try (injection Hstep as _ Hr; discriminate Hr). injection Hstep as Hm'.
    split.
    - destruct (last_owner K P PreC PostC rec Hrec b E t m xt m2 Hpre Hxt Hmk Hrc Hfin Ev) as (mf & yf & Hs & Hg & Hbf & Hvf & _).
      assert (mf = m') by congruence. subst mf. exists yf. auto.
    - intros u Hu.
      assert (Hnot : forall s t0, sole_at K m s t0 -> t0 <> t).
      { intros s t0 (xt0 & xs & _ & _ & _ & _ & _ & _ & _ & Hxs & j & Hj) ->.
        assert (Hl : hloc m (Some s) false t) by (econstructor 3; eauto). apply hloc_refs_pos in Hl. lia. }
      assert (Hut : u <> t) by (destruct Hu as [t0 H0 | s t0 _ H0]; apply (Hnot _ _ H0)).
      assert (Hum : SolelyOwned K (last_owner_mid K t m) t u).
      { revert Hu. apply SO_mono. intros s t0 _ H0.
        apply (sole_at_other K m _ t s t0 (Hnot _ _ H0) (ot_last_owner_mid t m) (wrefs_last_owner_mid K t m t0)); [|exact H0].
        intros -> xs Hxs. assert (xs = xt) by congruence. subst xs. exists x4. split; [exact Hx4|]. rewrite Hf4. eauto. }
      pose proof (HV b E t _ m2 HpreV ltac:(intros y Hy; assert (y = x4) by congruence; subst; exact Hrc4) Ev u Hum) as Hf.
      subst m'. apply (Freed_other m2 _ t u Hut); [|exact Hf].
      apply (ot_trans t m2 (drop_metadata K t m2)); [apply ot_drop_metadata|].
      apply (ot_trans t _ (dealloc K t (drop_metadata K t m2))); [apply ot_dealloc | apply ot_heap; reflexivity].
  Qed.
End OwnStep.
Section OwnTop.
  Context (K : conf) (P : prog).
  Hypothesis Hconf : k_clean K = true -> k_weak K = true.
  Hypothesis Hwf : wf_prog P = true.

  (** THE HYPOTHESIS (not proved; see the header of the file): no activation other than the drop
      glue of [p] touches the objects solely owned, transitively, by a value [p] whose
      destruction is running.  [Pre]/[Q] are the conditions under which every activation of every
      program runs ([SafeFinal.run_okQ]). *)
  Definition SoleFrame : Prop :=
    forall n b E A c m m' r, Pre K (PreC K) b E c m -> Q K A c m -> run K P n c m = (m', r) ->
      r = ONormal \/ r = OPanic -> sole_persist K (ex_of c) m m'.
  Hypothesis HSF : SoleFrame.

  Notation GR A n := (SafeCollGuard.guarded K (Qdec K) A (run K P n)).

  Lemma GR_result A n c m m' r : GR A n c m = (m', r) -> r <> OFuel -> Q K A c m /\ run K P n c m = (m', r).
  Proof.
    unfold SafeCollGuard.guarded. destruct (Qdec K A c m) as [HQ|HQ]; [auto|]. intros [= <- <-] H. congruence.
  Qed.

  Lemma GR_sole A n b E c m m' r :
    Pre K (PreC K) b E c m -> GR A n c m = (m', r) -> r = ONormal \/ r = OPanic -> sole_persist K (ex_of c) m m'.
  Proof.
    intros Hpre Hr Hrr. destruct (GR_result A n c m m' r Hr) as [HQ Hrun]; [destruct Hrr; subst; discriminate|].
    eapply HSF; eauto.
  Qed.

  Definition SA (rec : call -> machine -> machine * outcome) : Prop :=
    forall b E t m m', Pre K (PreC K) b E (KDropCc t) m -> LastOwner K m t -> rec (KDropCc t) m = (m', ONormal) ->
      Freed m' t /\ forall u, SolelyOwned K m t u -> Freed m' u.
  Definition SV (rec : call -> machine -> machine * outcome) : Prop :=
    forall b E t m m', Pre K (PreC K) b E (KDropValue t) m -> (forall x, get m t = Some x -> h_rc (o_hdr x) = 0) ->
      rec (KDropValue t) m = (m', ONormal) -> forall u, SolelyOwned K m t u -> Freed m' u.
  Definition SB (rec : call -> machine -> machine * outcome) : Prop :=
    forall b E o j m m' x, Pre K (PreC K) b E (KDropFields o j) m -> get m o = Some x ->
      (forall i t, (i < j)%nat -> o_fields x !! i = Some (Some t) -> False) ->
      rec (KDropFields o j) m = (m', ONormal) -> forall u, SolelyOwned K m o u -> Freed m' u.

  Lemma GR_step A n c m m' : noncoll c = true ->
    GR A (S n) c m = (m', ONormal) -> step K P (GR A n) c m = (m', ONormal).
  Proof.
    intros Hc Hr. destruct (GR_result A (S n) c m m' ONormal Hr ltac:(discriminate)) as [HQ Hrun].
    rewrite (SafeCollGuard.closure K P (Qdec K) A (run K P n) c m (Buf.run_buf K P n) (SafeCollNf.run_nofuel K P n) Hc HQ).
    exact Hrun.
  Qed.

  Lemma own_all A n : SA (GR A n) /\ SV (GR A n) /\ SB (GR A n).
  Proof.
    induction n as [|n (IA & IV & IB)].
    - assert (H0 : forall c m m', GR A 0 c m = (m', ONormal) -> False).
      { intros c m m'. unfold SafeCollGuard.guarded. destruct (Qdec K A c m); cbn; discriminate. }
      split; [|split]; red; intros; exfalso; eapply H0; eauto.
    - pose proof (guarded_rec_ok K P Hconf Hwf A n) as Hrec.
      pose proof (fun b E c m m' r => GR_sole A n b E c m m' r) as Hs.
      split; [|split]; red.
      + intros b E t m m' Hpre Hlo Hr. apply GR_step in Hr; [|reflexivity].
        apply (step_cc_own K P (PreC K) (PostC K) (GR A n) Hrec IV b E t m m' Hpre Hlo Hr).
      + intros b E t m m' Hpre Hrc Hr. apply GR_step in Hr; [|reflexivity].
        apply (step_value_own K P (PreC K) (PostC K) (GR A n) Hrec Hwf Hs IB b E t m m' Hpre Hrc Hr).
      + intros b E o j m m' x Hpre Hx Hlow Hr. apply GR_step in Hr; [|reflexivity].
        apply (step_fields_own K (PreC K) (PostC K) (GR A n) Hrec Hs IA IB b E o j m m' x Hpre Hx Hlow Hr).
  Qed.

  (** the last owner's drop reclaims everything it solely owned, recursively *)
  Theorem last_owner_recursive n b E A o m m' :
    Pre K (PreC K) b E (KDropCc o) m -> Q K A (KDropCc o) m -> LastOwner K m o ->
    run K P n (KDropCc o) m = (m', ONormal) ->
    Freed m' o /\ forall u, SolelyOwned K m o u -> Freed m' u.
  Proof.
    intros Hpre HQ Hlo Hrun. destruct (own_all A n) as (IA & _ & _).
    apply (IA b E o m m' Hpre Hlo). rewrite SafeCollGuard.guard_pass by exact HQ. exact Hrun.
  Qed.
End OwnTop.

Print Assumptions last_owner_recursive.
