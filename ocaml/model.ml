
type __ = Obj.t
let __ = let rec f _ = Obj.repr f in Obj.repr f

(** val implb : bool -> bool -> bool **)

let implb b1 b2 =
  if b1 then b2 else true

(** val xorb : bool -> bool -> bool **)

let xorb b1 b2 =
  if b1 then if b2 then false else true else b2

(** val negb : bool -> bool **)

let negb = function
| true -> false
| false -> true

type nat =
| O
| S of nat

(** val option_map : ('a1 -> 'a2) -> 'a1 option -> 'a2 option **)

let option_map f = function
| Some a -> Some (f a)
| None -> None

type ('a, 'b) sum =
| Inl of 'a
| Inr of 'b

(** val fst : ('a1 * 'a2) -> 'a1 **)

let fst = function
| (x, _) -> x

(** val snd : ('a1 * 'a2) -> 'a2 **)

let snd = function
| (_, y) -> y

(** val length : 'a1 list -> nat **)

let rec length = function
| [] -> O
| _ :: l' -> S (length l')

(** val app : 'a1 list -> 'a1 list -> 'a1 list **)

let rec app l m =
  match l with
  | [] -> m
  | a :: l1 -> a :: (app l1 m)

type comparison =
| Eq
| Lt
| Gt

type compareSpecT =
| CompEqT
| CompLtT
| CompGtT

(** val compareSpec2Type : comparison -> compareSpecT **)

let compareSpec2Type = function
| Eq -> CompEqT
| Lt -> CompLtT
| Gt -> CompGtT

type 'a compSpecT = compareSpecT

(** val compSpec2Type : 'a1 -> 'a1 -> comparison -> 'a1 compSpecT **)

let compSpec2Type _ _ =
  compareSpec2Type

(** val id : __ -> __ **)

let id x =
  x

type 'a sig0 = 'a
  (* singleton inductive, whose constructor was exist *)



type uint =
| Nil
| D0 of uint
| D1 of uint
| D2 of uint
| D3 of uint
| D4 of uint
| D5 of uint
| D6 of uint
| D7 of uint
| D8 of uint
| D9 of uint

type signed_int =
| Pos of uint
| Neg of uint

(** val nzhead : uint -> uint **)

let rec nzhead d = match d with
| D0 d0 -> nzhead d0
| _ -> d

(** val unorm : uint -> uint **)

let unorm d =
  match nzhead d with
  | Nil -> D0 Nil
  | x -> x

(** val norm : signed_int -> signed_int **)

let norm = function
| Pos d0 -> Pos (unorm d0)
| Neg d0 -> (match nzhead d0 with
             | Nil -> Pos (D0 Nil)
             | x -> Neg x)

(** val revapp : uint -> uint -> uint **)

let rec revapp d d' =
  match d with
  | Nil -> d'
  | D0 d0 -> revapp d0 (D0 d')
  | D1 d0 -> revapp d0 (D1 d')
  | D2 d0 -> revapp d0 (D2 d')
  | D3 d0 -> revapp d0 (D3 d')
  | D4 d0 -> revapp d0 (D4 d')
  | D5 d0 -> revapp d0 (D5 d')
  | D6 d0 -> revapp d0 (D6 d')
  | D7 d0 -> revapp d0 (D7 d')
  | D8 d0 -> revapp d0 (D8 d')
  | D9 d0 -> revapp d0 (D9 d')

(** val rev : uint -> uint **)

let rev d =
  revapp d Nil

module Little =
 struct
  (** val succ : uint -> uint **)

  let rec succ = function
  | Nil -> D1 Nil
  | D0 d0 -> D1 d0
  | D1 d0 -> D2 d0
  | D2 d0 -> D3 d0
  | D3 d0 -> D4 d0
  | D4 d0 -> D5 d0
  | D5 d0 -> D6 d0
  | D6 d0 -> D7 d0
  | D7 d0 -> D8 d0
  | D8 d0 -> D9 d0
  | D9 d0 -> D0 (succ d0)
 end

type uint0 =
| Nil0
| D10 of uint0
| D11 of uint0
| D12 of uint0
| D13 of uint0
| D14 of uint0
| D15 of uint0
| D16 of uint0
| D17 of uint0
| D18 of uint0
| D19 of uint0
| Da of uint0
| Db of uint0
| Dc of uint0
| Dd of uint0
| De of uint0
| Df of uint0

type signed_int0 =
| Pos0 of uint0
| Neg0 of uint0

(** val nzhead0 : uint0 -> uint0 **)

let rec nzhead0 d = match d with
| D10 d0 -> nzhead0 d0
| _ -> d

(** val unorm0 : uint0 -> uint0 **)

let unorm0 d =
  match nzhead0 d with
  | Nil0 -> D10 Nil0
  | x -> x

(** val norm0 : signed_int0 -> signed_int0 **)

let norm0 = function
| Pos0 d0 -> Pos0 (unorm0 d0)
| Neg0 d0 -> (match nzhead0 d0 with
              | Nil0 -> Pos0 (D10 Nil0)
              | x -> Neg0 x)

(** val revapp0 : uint0 -> uint0 -> uint0 **)

let rec revapp0 d d' =
  match d with
  | Nil0 -> d'
  | D10 d0 -> revapp0 d0 (D10 d')
  | D11 d0 -> revapp0 d0 (D11 d')
  | D12 d0 -> revapp0 d0 (D12 d')
  | D13 d0 -> revapp0 d0 (D13 d')
  | D14 d0 -> revapp0 d0 (D14 d')
  | D15 d0 -> revapp0 d0 (D15 d')
  | D16 d0 -> revapp0 d0 (D16 d')
  | D17 d0 -> revapp0 d0 (D17 d')
  | D18 d0 -> revapp0 d0 (D18 d')
  | D19 d0 -> revapp0 d0 (D19 d')
  | Da d0 -> revapp0 d0 (Da d')
  | Db d0 -> revapp0 d0 (Db d')
  | Dc d0 -> revapp0 d0 (Dc d')
  | Dd d0 -> revapp0 d0 (Dd d')
  | De d0 -> revapp0 d0 (De d')
  | Df d0 -> revapp0 d0 (Df d')

(** val rev0 : uint0 -> uint0 **)

let rev0 d =
  revapp0 d Nil0

module Coq_Little =
 struct
  (** val succ : uint0 -> uint0 **)

  let rec succ = function
  | Nil0 -> D11 Nil0
  | D10 d0 -> D11 d0
  | D11 d0 -> D12 d0
  | D12 d0 -> D13 d0
  | D13 d0 -> D14 d0
  | D14 d0 -> D15 d0
  | D15 d0 -> D16 d0
  | D16 d0 -> D17 d0
  | D17 d0 -> D18 d0
  | D18 d0 -> D19 d0
  | D19 d0 -> Da d0
  | Da d0 -> Db d0
  | Db d0 -> Dc d0
  | Dc d0 -> Dd d0
  | Dd d0 -> De d0
  | De d0 -> Df d0
  | Df d0 -> D10 (succ d0)
 end

type uint1 =
| UIntDecimal of uint
| UIntHexadecimal of uint0

type signed_int1 =
| IntDecimal of signed_int
| IntHexadecimal of signed_int0

module Coq__1 = struct
 (** val add : nat -> nat -> nat **)
 let rec add n0 m =
   match n0 with
   | O -> m
   | S p -> S (add p m)
end
include Coq__1

(** val mul : nat -> nat -> nat **)

let rec mul n0 m =
  match n0 with
  | O -> O
  | S p -> add m (mul p m)

type positive =
| XI of positive
| XO of positive
| XH

type n =
| N0
| Npos of positive

(** val compose : ('a2 -> 'a3) -> ('a1 -> 'a2) -> 'a1 -> 'a3 **)

let compose g f x =
  g (f x)

(** val eqb : bool -> bool -> bool **)

let eqb b1 b2 =
  if b1 then b2 else if b2 then false else true

type reflect =
| ReflectT
| ReflectF

(** val iff_reflect : bool -> reflect **)

let iff_reflect = function
| true -> ReflectT
| false -> ReflectF

module Nat =
 struct
  type t = nat

  (** val zero : nat **)

  let zero =
    O

  (** val one : nat **)

  let one =
    S O

  (** val two : nat **)

  let two =
    S (S O)

  (** val succ : nat -> nat **)

  let succ x =
    S x

  (** val pred : nat -> nat **)

  let pred n0 = match n0 with
  | O -> n0
  | S u -> u

  (** val add : nat -> nat -> nat **)

  let rec add n0 m =
    match n0 with
    | O -> m
    | S p -> S (add p m)

  (** val double : nat -> nat **)

  let double n0 =
    add n0 n0

  (** val mul : nat -> nat -> nat **)

  let rec mul n0 m =
    match n0 with
    | O -> O
    | S p -> add m (mul p m)

  (** val sub : nat -> nat -> nat **)

  let rec sub n0 m =
    match n0 with
    | O -> n0
    | S k -> (match m with
              | O -> n0
              | S l -> sub k l)

  (** val eqb : nat -> nat -> bool **)

  let rec eqb n0 m =
    match n0 with
    | O -> (match m with
            | O -> true
            | S _ -> false)
    | S n' -> (match m with
               | O -> false
               | S m' -> eqb n' m')

  (** val leb : nat -> nat -> bool **)

  let rec leb n0 m =
    match n0 with
    | O -> true
    | S n' -> (match m with
               | O -> false
               | S m' -> leb n' m')

  (** val ltb : nat -> nat -> bool **)

  let ltb n0 m =
    leb (S n0) m

  (** val compare : nat -> nat -> comparison **)

  let rec compare n0 m =
    match n0 with
    | O -> (match m with
            | O -> Eq
            | S _ -> Lt)
    | S n' -> (match m with
               | O -> Gt
               | S m' -> compare n' m')

  (** val max : nat -> nat -> nat **)

  let rec max n0 m =
    match n0 with
    | O -> m
    | S n' -> (match m with
               | O -> n0
               | S m' -> S (max n' m'))

  (** val min : nat -> nat -> nat **)

  let rec min n0 m =
    match n0 with
    | O -> O
    | S n' -> (match m with
               | O -> O
               | S m' -> S (min n' m'))

  (** val even : nat -> bool **)

  let rec even = function
  | O -> true
  | S n1 -> (match n1 with
             | O -> false
             | S n' -> even n')

  (** val odd : nat -> bool **)

  let odd n0 =
    negb (even n0)

  (** val pow : nat -> nat -> nat **)

  let rec pow n0 = function
  | O -> S O
  | S m0 -> mul n0 (pow n0 m0)

  (** val tail_add : nat -> nat -> nat **)

  let rec tail_add n0 m =
    match n0 with
    | O -> m
    | S n1 -> tail_add n1 (S m)

  (** val tail_addmul : nat -> nat -> nat -> nat **)

  let rec tail_addmul r n0 m =
    match n0 with
    | O -> r
    | S n1 -> tail_addmul (tail_add m r) n1 m

  (** val tail_mul : nat -> nat -> nat **)

  let tail_mul n0 m =
    tail_addmul O n0 m

  (** val of_uint_acc : uint -> nat -> nat **)

  let rec of_uint_acc d acc =
    match d with
    | Nil -> acc
    | D0 d0 ->
      of_uint_acc d0 (tail_mul (S (S (S (S (S (S (S (S (S (S O)))))))))) acc)
    | D1 d0 ->
      of_uint_acc d0 (S
        (tail_mul (S (S (S (S (S (S (S (S (S (S O)))))))))) acc))
    | D2 d0 ->
      of_uint_acc d0 (S (S
        (tail_mul (S (S (S (S (S (S (S (S (S (S O)))))))))) acc)))
    | D3 d0 ->
      of_uint_acc d0 (S (S (S
        (tail_mul (S (S (S (S (S (S (S (S (S (S O)))))))))) acc))))
    | D4 d0 ->
      of_uint_acc d0 (S (S (S (S
        (tail_mul (S (S (S (S (S (S (S (S (S (S O)))))))))) acc)))))
    | D5 d0 ->
      of_uint_acc d0 (S (S (S (S (S
        (tail_mul (S (S (S (S (S (S (S (S (S (S O)))))))))) acc))))))
    | D6 d0 ->
      of_uint_acc d0 (S (S (S (S (S (S
        (tail_mul (S (S (S (S (S (S (S (S (S (S O)))))))))) acc)))))))
    | D7 d0 ->
      of_uint_acc d0 (S (S (S (S (S (S (S
        (tail_mul (S (S (S (S (S (S (S (S (S (S O)))))))))) acc))))))))
    | D8 d0 ->
      of_uint_acc d0 (S (S (S (S (S (S (S (S
        (tail_mul (S (S (S (S (S (S (S (S (S (S O)))))))))) acc)))))))))
    | D9 d0 ->
      of_uint_acc d0 (S (S (S (S (S (S (S (S (S
        (tail_mul (S (S (S (S (S (S (S (S (S (S O)))))))))) acc))))))))))

  (** val of_uint : uint -> nat **)

  let of_uint d =
    of_uint_acc d O

  (** val of_hex_uint_acc : uint0 -> nat -> nat **)

  let rec of_hex_uint_acc d acc =
    match d with
    | Nil0 -> acc
    | D10 d0 ->
      of_hex_uint_acc d0
        (tail_mul (S (S (S (S (S (S (S (S (S (S (S (S (S (S (S (S
          O)))))))))))))))) acc)
    | D11 d0 ->
      of_hex_uint_acc d0 (S
        (tail_mul (S (S (S (S (S (S (S (S (S (S (S (S (S (S (S (S
          O)))))))))))))))) acc))
    | D12 d0 ->
      of_hex_uint_acc d0 (S (S
        (tail_mul (S (S (S (S (S (S (S (S (S (S (S (S (S (S (S (S
          O)))))))))))))))) acc)))
    | D13 d0 ->
      of_hex_uint_acc d0 (S (S (S
        (tail_mul (S (S (S (S (S (S (S (S (S (S (S (S (S (S (S (S
          O)))))))))))))))) acc))))
    | D14 d0 ->
      of_hex_uint_acc d0 (S (S (S (S
        (tail_mul (S (S (S (S (S (S (S (S (S (S (S (S (S (S (S (S
          O)))))))))))))))) acc)))))
    | D15 d0 ->
      of_hex_uint_acc d0 (S (S (S (S (S
        (tail_mul (S (S (S (S (S (S (S (S (S (S (S (S (S (S (S (S
          O)))))))))))))))) acc))))))
    | D16 d0 ->
      of_hex_uint_acc d0 (S (S (S (S (S (S
        (tail_mul (S (S (S (S (S (S (S (S (S (S (S (S (S (S (S (S
          O)))))))))))))))) acc)))))))
    | D17 d0 ->
      of_hex_uint_acc d0 (S (S (S (S (S (S (S
        (tail_mul (S (S (S (S (S (S (S (S (S (S (S (S (S (S (S (S
          O)))))))))))))))) acc))))))))
    | D18 d0 ->
      of_hex_uint_acc d0 (S (S (S (S (S (S (S (S
        (tail_mul (S (S (S (S (S (S (S (S (S (S (S (S (S (S (S (S
          O)))))))))))))))) acc)))))))))
    | D19 d0 ->
      of_hex_uint_acc d0 (S (S (S (S (S (S (S (S (S
        (tail_mul (S (S (S (S (S (S (S (S (S (S (S (S (S (S (S (S
          O)))))))))))))))) acc))))))))))
    | Da d0 ->
      of_hex_uint_acc d0 (S (S (S (S (S (S (S (S (S (S
        (tail_mul (S (S (S (S (S (S (S (S (S (S (S (S (S (S (S (S
          O)))))))))))))))) acc)))))))))))
    | Db d0 ->
      of_hex_uint_acc d0 (S (S (S (S (S (S (S (S (S (S (S
        (tail_mul (S (S (S (S (S (S (S (S (S (S (S (S (S (S (S (S
          O)))))))))))))))) acc))))))))))))
    | Dc d0 ->
      of_hex_uint_acc d0 (S (S (S (S (S (S (S (S (S (S (S (S
        (tail_mul (S (S (S (S (S (S (S (S (S (S (S (S (S (S (S (S
          O)))))))))))))))) acc)))))))))))))
    | Dd d0 ->
      of_hex_uint_acc d0 (S (S (S (S (S (S (S (S (S (S (S (S (S
        (tail_mul (S (S (S (S (S (S (S (S (S (S (S (S (S (S (S (S
          O)))))))))))))))) acc))))))))))))))
    | De d0 ->
      of_hex_uint_acc d0 (S (S (S (S (S (S (S (S (S (S (S (S (S (S
        (tail_mul (S (S (S (S (S (S (S (S (S (S (S (S (S (S (S (S
          O)))))))))))))))) acc)))))))))))))))
    | Df d0 ->
      of_hex_uint_acc d0 (S (S (S (S (S (S (S (S (S (S (S (S (S (S (S
        (tail_mul (S (S (S (S (S (S (S (S (S (S (S (S (S (S (S (S
          O)))))))))))))))) acc))))))))))))))))

  (** val of_hex_uint : uint0 -> nat **)

  let of_hex_uint d =
    of_hex_uint_acc d O

  (** val of_num_uint : uint1 -> nat **)

  let of_num_uint = function
  | UIntDecimal d0 -> of_uint d0
  | UIntHexadecimal d0 -> of_hex_uint d0

  (** val to_little_uint : nat -> uint -> uint **)

  let rec to_little_uint n0 acc =
    match n0 with
    | O -> acc
    | S n1 -> to_little_uint n1 (Little.succ acc)

  (** val to_uint : nat -> uint **)

  let to_uint n0 =
    rev (to_little_uint n0 (D0 Nil))

  (** val to_little_hex_uint : nat -> uint0 -> uint0 **)

  let rec to_little_hex_uint n0 acc =
    match n0 with
    | O -> acc
    | S n1 -> to_little_hex_uint n1 (Coq_Little.succ acc)

  (** val to_hex_uint : nat -> uint0 **)

  let to_hex_uint n0 =
    rev0 (to_little_hex_uint n0 (D10 Nil0))

  (** val to_num_uint : nat -> uint1 **)

  let to_num_uint n0 =
    UIntDecimal (to_uint n0)

  (** val to_num_hex_uint : nat -> uint1 **)

  let to_num_hex_uint n0 =
    UIntHexadecimal (to_hex_uint n0)

  (** val of_int : signed_int -> nat option **)

  let of_int d =
    match norm d with
    | Pos u -> Some (of_uint u)
    | Neg _ -> None

  (** val of_hex_int : signed_int0 -> nat option **)

  let of_hex_int d =
    match norm0 d with
    | Pos0 u -> Some (of_hex_uint u)
    | Neg0 _ -> None

  (** val of_num_int : signed_int1 -> nat option **)

  let of_num_int = function
  | IntDecimal d0 -> of_int d0
  | IntHexadecimal d0 -> of_hex_int d0

  (** val to_int : nat -> signed_int **)

  let to_int n0 =
    Pos (to_uint n0)

  (** val to_hex_int : nat -> signed_int0 **)

  let to_hex_int n0 =
    Pos0 (to_hex_uint n0)

  (** val to_num_int : nat -> signed_int1 **)

  let to_num_int n0 =
    IntDecimal (to_int n0)

  (** val divmod : nat -> nat -> nat -> nat -> nat * nat **)

  let rec divmod x y q u =
    match x with
    | O -> (q, u)
    | S x' ->
      (match u with
       | O -> divmod x' y (S q) y
       | S u' -> divmod x' y q u')

  (** val div : nat -> nat -> nat **)

  let div x y = match y with
  | O -> y
  | S y' -> fst (divmod x y' O y')

  (** val modulo : nat -> nat -> nat **)

  let modulo x = function
  | O -> x
  | S y' -> sub y' (snd (divmod x y' O y'))

  (** val gcd : nat -> nat -> nat **)

  let rec gcd a b =
    match a with
    | O -> b
    | S a' -> gcd (modulo b (S a')) (S a')

  (** val square : nat -> nat **)

  let square n0 =
    mul n0 n0

  (** val sqrt_iter : nat -> nat -> nat -> nat -> nat **)

  let rec sqrt_iter k p q r =
    match k with
    | O -> p
    | S k' ->
      (match r with
       | O -> sqrt_iter k' (S p) (S (S q)) (S (S q))
       | S r' -> sqrt_iter k' p q r')

  (** val sqrt : nat -> nat **)

  let sqrt n0 =
    sqrt_iter n0 O O O

  (** val log2_iter : nat -> nat -> nat -> nat -> nat **)

  let rec log2_iter k p q r =
    match k with
    | O -> p
    | S k' ->
      (match r with
       | O -> log2_iter k' (S p) (S q) q
       | S r' -> log2_iter k' p (S q) r')

  (** val log2 : nat -> nat **)

  let log2 n0 =
    log2_iter (pred n0) O (S O) O

  (** val iter : nat -> ('a1 -> 'a1) -> 'a1 -> 'a1 **)

  let rec iter n0 f x =
    match n0 with
    | O -> x
    | S n1 -> f (iter n1 f x)

  (** val div2 : nat -> nat **)

  let rec div2 = function
  | O -> O
  | S n1 -> (match n1 with
             | O -> O
             | S n' -> S (div2 n'))

  (** val testbit : nat -> nat -> bool **)

  let rec testbit a = function
  | O -> odd a
  | S n1 -> testbit (div2 a) n1

  (** val shiftl : nat -> nat -> nat **)

  let rec shiftl a = function
  | O -> a
  | S n1 -> double (shiftl a n1)

  (** val shiftr : nat -> nat -> nat **)

  let rec shiftr a = function
  | O -> a
  | S n1 -> div2 (shiftr a n1)

  (** val bitwise : (bool -> bool -> bool) -> nat -> nat -> nat -> nat **)

  let rec bitwise op n0 a b =
    match n0 with
    | O -> O
    | S n' ->
      add (if op (odd a) (odd b) then S O else O)
        (mul (S (S O)) (bitwise op n' (div2 a) (div2 b)))

  (** val coq_land : nat -> nat -> nat **)

  let coq_land a b =
    bitwise (&&) a a b

  (** val coq_lor : nat -> nat -> nat **)

  let coq_lor a b =
    bitwise (||) (max a b) a b

  (** val ldiff : nat -> nat -> nat **)

  let ldiff a b =
    bitwise (fun b0 b' -> (&&) b0 (negb b')) a a b

  (** val coq_lxor : nat -> nat -> nat **)

  let coq_lxor a b =
    bitwise xorb (max a b) a b

  (** val recursion : 'a1 -> (nat -> 'a1 -> 'a1) -> nat -> 'a1 **)

  let rec recursion x f0 = function
  | O -> x
  | S n1 -> f0 n1 (recursion x f0 n1)

  (** val eq_dec : nat -> nat -> bool **)

  let rec eq_dec n0 m =
    match n0 with
    | O -> (match m with
            | O -> true
            | S _ -> false)
    | S n1 -> (match m with
               | O -> false
               | S n2 -> eq_dec n1 n2)

  (** val leb_spec0 : nat -> nat -> reflect **)

  let leb_spec0 x y =
    iff_reflect (leb x y)

  (** val ltb_spec0 : nat -> nat -> reflect **)

  let ltb_spec0 x y =
    iff_reflect (ltb x y)

  module Private_OrderTac =
   struct
    module IsTotal =
     struct
     end

    module Tac =
     struct
     end
   end

  module Private_Tac =
   struct
   end

  module Private_Dec =
   struct
    (** val max_case_strong :
        nat -> nat -> (nat -> nat -> __ -> 'a1 -> 'a1) -> (__ -> 'a1) -> (__
        -> 'a1) -> 'a1 **)

    let max_case_strong n0 m compat hl hr =
      let c = compSpec2Type n0 m (compare n0 m) in
      (match c with
       | CompGtT -> compat n0 (max n0 m) __ (hl __)
       | _ -> compat m (max n0 m) __ (hr __))

    (** val max_case :
        nat -> nat -> (nat -> nat -> __ -> 'a1 -> 'a1) -> 'a1 -> 'a1 -> 'a1 **)

    let max_case n0 m x x0 x1 =
      max_case_strong n0 m x (fun _ -> x0) (fun _ -> x1)

    (** val max_dec : nat -> nat -> bool **)

    let max_dec n0 m =
      max_case n0 m (fun _ _ _ h0 -> h0) true false

    (** val min_case_strong :
        nat -> nat -> (nat -> nat -> __ -> 'a1 -> 'a1) -> (__ -> 'a1) -> (__
        -> 'a1) -> 'a1 **)

    let min_case_strong n0 m compat hl hr =
      let c = compSpec2Type n0 m (compare n0 m) in
      (match c with
       | CompGtT -> compat m (min n0 m) __ (hr __)
       | _ -> compat n0 (min n0 m) __ (hl __))

    (** val min_case :
        nat -> nat -> (nat -> nat -> __ -> 'a1 -> 'a1) -> 'a1 -> 'a1 -> 'a1 **)

    let min_case n0 m x x0 x1 =
      min_case_strong n0 m x (fun _ -> x0) (fun _ -> x1)

    (** val min_dec : nat -> nat -> bool **)

    let min_dec n0 m =
      min_case n0 m (fun _ _ _ h0 -> h0) true false
   end

  (** val max_case_strong :
      nat -> nat -> (__ -> 'a1) -> (__ -> 'a1) -> 'a1 **)

  let max_case_strong n0 m x x0 =
    Private_Dec.max_case_strong n0 m (fun _ _ _ x1 -> x1) x x0

  (** val max_case : nat -> nat -> 'a1 -> 'a1 -> 'a1 **)

  let max_case n0 m x x0 =
    max_case_strong n0 m (fun _ -> x) (fun _ -> x0)

  (** val max_dec : nat -> nat -> bool **)

  let max_dec =
    Private_Dec.max_dec

  (** val min_case_strong :
      nat -> nat -> (__ -> 'a1) -> (__ -> 'a1) -> 'a1 **)

  let min_case_strong n0 m x x0 =
    Private_Dec.min_case_strong n0 m (fun _ _ _ x1 -> x1) x x0

  (** val min_case : nat -> nat -> 'a1 -> 'a1 -> 'a1 **)

  let min_case n0 m x x0 =
    min_case_strong n0 m (fun _ -> x) (fun _ -> x0)

  (** val min_dec : nat -> nat -> bool **)

  let min_dec =
    Private_Dec.min_dec

  module Private_Parity =
   struct
   end

  module Private_NZPow =
   struct
   end

  module Private_NZSqrt =
   struct
   end

  (** val sqrt_up : nat -> nat **)

  let sqrt_up a =
    match compare O a with
    | Lt -> S (sqrt (pred a))
    | _ -> O

  (** val log2_up : nat -> nat **)

  let log2_up a =
    match compare (S O) a with
    | Lt -> S (log2 (pred a))
    | _ -> O

  module Private_NZDiv =
   struct
   end

  (** val lcm : nat -> nat -> nat **)

  let lcm a b =
    mul a (div b (gcd a b))

  (** val eqb_spec : nat -> nat -> reflect **)

  let eqb_spec x y =
    iff_reflect (eqb x y)

  (** val b2n : bool -> nat **)

  let b2n = function
  | true -> S O
  | false -> O

  (** val setbit : nat -> nat -> nat **)

  let setbit a n0 =
    coq_lor a (shiftl (S O) n0)

  (** val clearbit : nat -> nat -> nat **)

  let clearbit a n0 =
    ldiff a (shiftl (S O) n0)

  (** val ones : nat -> nat **)

  let ones n0 =
    pred (shiftl (S O) n0)

  (** val lnot : nat -> nat -> nat **)

  let lnot a n0 =
    coq_lxor a (ones n0)

  (** val coq_Even_Odd_dec : nat -> bool **)

  let rec coq_Even_Odd_dec = function
  | O -> true
  | S n1 -> if coq_Even_Odd_dec n1 then false else true

  type coq_EvenT = nat

  type coq_OddT = nat

  (** val coq_EvenT_0 : coq_EvenT **)

  let coq_EvenT_0 =
    O

  (** val coq_EvenT_2 : nat -> coq_EvenT -> coq_EvenT **)

  let coq_EvenT_2 _ h0 =
    S h0

  (** val coq_OddT_1 : coq_OddT **)

  let coq_OddT_1 =
    O

  (** val coq_OddT_2 : nat -> coq_OddT -> coq_OddT **)

  let coq_OddT_2 _ h0 =
    S h0

  (** val coq_EvenT_S_OddT : nat -> coq_EvenT -> coq_OddT **)

  let coq_EvenT_S_OddT _ = function
  | O -> assert false (* absurd case *)
  | S n0 -> n0

  (** val coq_OddT_S_EvenT : nat -> coq_OddT -> coq_EvenT **)

  let coq_OddT_S_EvenT _ h =
    h

  (** val even_EvenT : nat -> coq_EvenT **)

  let rec even_EvenT = function
  | O -> coq_EvenT_0
  | S n1 ->
    (match n1 with
     | O -> assert false (* absurd case *)
     | S n2 -> let he = even_EvenT n2 in coq_EvenT_2 n2 he)

  (** val odd_OddT : nat -> coq_OddT **)

  let rec odd_OddT = function
  | O -> assert false (* absurd case *)
  | S n1 ->
    (match n1 with
     | O -> coq_OddT_1
     | S n2 -> let he = odd_OddT n2 in coq_OddT_2 n2 he)

  (** val coq_Even_EvenT : nat -> coq_EvenT **)

  let coq_Even_EvenT =
    even_EvenT

  (** val coq_Odd_OddT : nat -> coq_OddT **)

  let coq_Odd_OddT =
    odd_OddT

  (** val coq_EvenT_OddT_dec : nat -> (coq_EvenT, coq_OddT) sum **)

  let coq_EvenT_OddT_dec n0 =
    if even n0 then Inl (even_EvenT n0) else Inr (odd_OddT n0)

  (** val coq_OddT_EvenT_rect :
      (nat -> coq_EvenT -> 'a2 -> 'a1) -> 'a2 -> (nat -> coq_OddT -> 'a1 ->
      'a2) -> nat -> coq_OddT -> 'a1 **)

  let rec coq_OddT_EvenT_rect hQP hQ0 hPQ n0 h =
    match n0 with
    | O -> assert false (* absurd case *)
    | S n1 ->
      (match n1 with
       | O -> hQP O coq_EvenT_0 hQ0
       | S n2 ->
         let hES = coq_OddT_S_EvenT (S n2) h in
         let hO = coq_EvenT_S_OddT n2 hES in
         hQP (S n2) hES (hPQ n2 hO (coq_OddT_EvenT_rect hQP hQ0 hPQ n2 hO)))

  (** val coq_EvenT_OddT_rect :
      (nat -> coq_EvenT -> 'a2 -> 'a1) -> 'a2 -> (nat -> coq_OddT -> 'a1 ->
      'a2) -> nat -> coq_EvenT -> 'a2 **)

  let coq_EvenT_OddT_rect hQP hQ0 hPQ n0 hES =
    match n0 with
    | O -> hQ0
    | S n1 ->
      let hO = coq_EvenT_S_OddT n1 hES in
      hPQ n1 hO (coq_OddT_EvenT_rect hQP hQ0 hPQ n1 hO)
 end

module Pos =
 struct
  type mask =
  | IsNul
  | IsPos of positive
  | IsNeg
 end

module Coq_Pos =
 struct
  (** val succ : positive -> positive **)

  let rec succ = function
  | XI p -> XO (succ p)
  | XO p -> XI p
  | XH -> XO XH

  (** val add : positive -> positive -> positive **)

  let rec add x y =
    match x with
    | XI p ->
      (match y with
       | XI q -> XO (add_carry p q)
       | XO q -> XI (add p q)
       | XH -> XO (succ p))
    | XO p ->
      (match y with
       | XI q -> XI (add p q)
       | XO q -> XO (add p q)
       | XH -> XI p)
    | XH -> (match y with
             | XI q -> XO (succ q)
             | XO q -> XI q
             | XH -> XO XH)

  (** val add_carry : positive -> positive -> positive **)

  and add_carry x y =
    match x with
    | XI p ->
      (match y with
       | XI q -> XI (add_carry p q)
       | XO q -> XO (add_carry p q)
       | XH -> XI (succ p))
    | XO p ->
      (match y with
       | XI q -> XO (add_carry p q)
       | XO q -> XI (add p q)
       | XH -> XO (succ p))
    | XH ->
      (match y with
       | XI q -> XI (succ q)
       | XO q -> XO (succ q)
       | XH -> XI XH)

  (** val pred_double : positive -> positive **)

  let rec pred_double = function
  | XI p -> XI (XO p)
  | XO p -> XI (pred_double p)
  | XH -> XH

  type mask = Pos.mask =
  | IsNul
  | IsPos of positive
  | IsNeg

  (** val succ_double_mask : mask -> mask **)

  let succ_double_mask = function
  | IsNul -> IsPos XH
  | IsPos p -> IsPos (XI p)
  | IsNeg -> IsNeg

  (** val double_mask : mask -> mask **)

  let double_mask = function
  | IsPos p -> IsPos (XO p)
  | x0 -> x0

  (** val double_pred_mask : positive -> mask **)

  let double_pred_mask = function
  | XI p -> IsPos (XO (XO p))
  | XO p -> IsPos (XO (pred_double p))
  | XH -> IsNul

  (** val sub_mask : positive -> positive -> mask **)

  let rec sub_mask x y =
    match x with
    | XI p ->
      (match y with
       | XI q -> double_mask (sub_mask p q)
       | XO q -> succ_double_mask (sub_mask p q)
       | XH -> IsPos (XO p))
    | XO p ->
      (match y with
       | XI q -> succ_double_mask (sub_mask_carry p q)
       | XO q -> double_mask (sub_mask p q)
       | XH -> IsPos (pred_double p))
    | XH -> (match y with
             | XH -> IsNul
             | _ -> IsNeg)

  (** val sub_mask_carry : positive -> positive -> mask **)

  and sub_mask_carry x y =
    match x with
    | XI p ->
      (match y with
       | XI q -> succ_double_mask (sub_mask_carry p q)
       | XO q -> double_mask (sub_mask p q)
       | XH -> IsPos (pred_double p))
    | XO p ->
      (match y with
       | XI q -> double_mask (sub_mask_carry p q)
       | XO q -> succ_double_mask (sub_mask_carry p q)
       | XH -> double_pred_mask p)
    | XH -> IsNeg

  (** val mul : positive -> positive -> positive **)

  let rec mul x y =
    match x with
    | XI p -> add y (XO (mul p y))
    | XO p -> XO (mul p y)
    | XH -> y

  (** val iter : ('a1 -> 'a1) -> 'a1 -> positive -> 'a1 **)

  let rec iter f x = function
  | XI n' -> f (iter f (iter f x n') n')
  | XO n' -> iter f (iter f x n') n'
  | XH -> f x

  (** val size : positive -> positive **)

  let rec size = function
  | XI p0 -> succ (size p0)
  | XO p0 -> succ (size p0)
  | XH -> XH

  (** val compare_cont : comparison -> positive -> positive -> comparison **)

  let rec compare_cont r x y =
    match x with
    | XI p ->
      (match y with
       | XI q -> compare_cont r p q
       | XO q -> compare_cont Gt p q
       | XH -> Gt)
    | XO p ->
      (match y with
       | XI q -> compare_cont Lt p q
       | XO q -> compare_cont r p q
       | XH -> Gt)
    | XH -> (match y with
             | XH -> r
             | _ -> Lt)

  (** val compare : positive -> positive -> comparison **)

  let compare =
    compare_cont Eq

  (** val eqb : positive -> positive -> bool **)

  let rec eqb p q =
    match p with
    | XI p0 -> (match q with
                | XI q0 -> eqb p0 q0
                | _ -> false)
    | XO p0 -> (match q with
                | XO q0 -> eqb p0 q0
                | _ -> false)
    | XH -> (match q with
             | XH -> true
             | _ -> false)

  (** val shiftl : positive -> n -> positive **)

  let shiftl p = function
  | N0 -> p
  | Npos n1 -> iter (fun x -> XO x) p n1

  (** val iter_op : ('a1 -> 'a1 -> 'a1) -> positive -> 'a1 -> 'a1 **)

  let rec iter_op op p a =
    match p with
    | XI p0 -> op a (iter_op op p0 (op a a))
    | XO p0 -> iter_op op p0 (op a a)
    | XH -> a

  (** val to_nat : positive -> nat **)

  let to_nat x =
    iter_op Coq__1.add x (S O)

  (** val of_succ_nat : nat -> positive **)

  let rec of_succ_nat = function
  | O -> XH
  | S x -> succ (of_succ_nat x)
 end

module N =
 struct
  (** val succ_double : n -> n **)

  let succ_double = function
  | N0 -> Npos XH
  | Npos p -> Npos (XI p)

  (** val double : n -> n **)

  let double = function
  | N0 -> N0
  | Npos p -> Npos (XO p)

  (** val succ : n -> n **)

  let succ = function
  | N0 -> Npos XH
  | Npos p -> Npos (Coq_Pos.succ p)

  (** val add : n -> n -> n **)

  let add n0 m =
    match n0 with
    | N0 -> m
    | Npos p -> (match m with
                 | N0 -> n0
                 | Npos q -> Npos (Coq_Pos.add p q))

  (** val sub : n -> n -> n **)

  let sub n0 m =
    match n0 with
    | N0 -> N0
    | Npos n' ->
      (match m with
       | N0 -> n0
       | Npos m' ->
         (match Coq_Pos.sub_mask n' m' with
          | Coq_Pos.IsPos p -> Npos p
          | _ -> N0))

  (** val mul : n -> n -> n **)

  let mul n0 m =
    match n0 with
    | N0 -> N0
    | Npos p -> (match m with
                 | N0 -> N0
                 | Npos q -> Npos (Coq_Pos.mul p q))

  (** val compare : n -> n -> comparison **)

  let compare n0 m =
    match n0 with
    | N0 -> (match m with
             | N0 -> Eq
             | Npos _ -> Lt)
    | Npos n' -> (match m with
                  | N0 -> Gt
                  | Npos m' -> Coq_Pos.compare n' m')

  (** val eqb : n -> n -> bool **)

  let eqb n0 m =
    match n0 with
    | N0 -> (match m with
             | N0 -> true
             | Npos _ -> false)
    | Npos p -> (match m with
                 | N0 -> false
                 | Npos q -> Coq_Pos.eqb p q)

  (** val leb : n -> n -> bool **)

  let leb x y =
    match compare x y with
    | Gt -> false
    | _ -> true

  (** val ltb : n -> n -> bool **)

  let ltb x y =
    match compare x y with
    | Lt -> true
    | _ -> false

  (** val div2 : n -> n **)

  let div2 = function
  | N0 -> N0
  | Npos p0 -> (match p0 with
                | XI p -> Npos p
                | XO p -> Npos p
                | XH -> N0)

  (** val even : n -> bool **)

  let even = function
  | N0 -> true
  | Npos p -> (match p with
               | XO _ -> true
               | _ -> false)

  (** val odd : n -> bool **)

  let odd n0 =
    negb (even n0)

  (** val size : n -> n **)

  let size = function
  | N0 -> N0
  | Npos p -> Npos (Coq_Pos.size p)

  (** val pos_div_eucl : positive -> n -> n * n **)

  let rec pos_div_eucl a b =
    match a with
    | XI a' ->
      let (q, r) = pos_div_eucl a' b in
      let r' = succ_double r in
      if leb b r' then ((succ_double q), (sub r' b)) else ((double q), r')
    | XO a' ->
      let (q, r) = pos_div_eucl a' b in
      let r' = double r in
      if leb b r' then ((succ_double q), (sub r' b)) else ((double q), r')
    | XH ->
      (match b with
       | N0 -> (N0, (Npos XH))
       | Npos p -> (match p with
                    | XH -> ((Npos XH), N0)
                    | _ -> (N0, (Npos XH))))

  (** val div_eucl : n -> n -> n * n **)

  let div_eucl a b =
    match a with
    | N0 -> (N0, N0)
    | Npos na -> (match b with
                  | N0 -> (N0, a)
                  | Npos _ -> pos_div_eucl na b)

  (** val modulo : n -> n -> n **)

  let modulo a b =
    snd (div_eucl a b)

  (** val shiftl : n -> n -> n **)

  let shiftl a n0 =
    match a with
    | N0 -> N0
    | Npos a0 -> Npos (Coq_Pos.shiftl a0 n0)

  (** val shiftr : n -> n -> n **)

  let shiftr a = function
  | N0 -> a
  | Npos p -> Coq_Pos.iter div2 a p

  (** val to_nat : n -> nat **)

  let to_nat = function
  | N0 -> O
  | Npos p -> Coq_Pos.to_nat p

  (** val of_nat : nat -> n **)

  let of_nat = function
  | O -> N0
  | S n' -> Npos (Coq_Pos.of_succ_nat n')
 end

(** val le_lt_dec : nat -> nat -> bool **)

let rec le_lt_dec n0 m =
  match n0 with
  | O -> true
  | S n1 -> (match m with
             | O -> false
             | S n2 -> le_lt_dec n1 n2)

(** val le_gt_dec : nat -> nat -> bool **)

let le_gt_dec =
  le_lt_dec

(** val le_dec : nat -> nat -> bool **)

let le_dec =
  le_gt_dec

(** val lt_dec : nat -> nat -> bool **)

let lt_dec n0 m =
  le_dec (S n0) m

(** val hd_error : 'a1 list -> 'a1 option **)

let hd_error = function
| [] -> None
| x :: _ -> Some x

(** val tl : 'a1 list -> 'a1 list **)

let tl = function
| [] -> []
| _ :: m -> m

(** val concat : 'a1 list list -> 'a1 list **)

let rec concat = function
| [] -> []
| x :: l0 -> app x (concat l0)

(** val map : ('a1 -> 'a2) -> 'a1 list -> 'a2 list **)

let rec map f = function
| [] -> []
| a :: t0 -> (f a) :: (map f t0)

(** val fold_left : ('a1 -> 'a2 -> 'a1) -> 'a2 list -> 'a1 -> 'a1 **)

let rec fold_left f l a0 =
  match l with
  | [] -> a0
  | b :: t0 -> fold_left f t0 (f a0 b)

(** val fold_right : ('a2 -> 'a1 -> 'a1) -> 'a1 -> 'a2 list -> 'a1 **)

let rec fold_right f a0 = function
| [] -> a0
| b :: t0 -> f b (fold_right f a0 t0)

(** val existsb : ('a1 -> bool) -> 'a1 list -> bool **)

let rec existsb f = function
| [] -> false
| a :: l0 -> (||) (f a) (existsb f l0)

(** val forallb : ('a1 -> bool) -> 'a1 list -> bool **)

let rec forallb f = function
| [] -> true
| a :: l0 -> (&&) (f a) (forallb f l0)

(** val seq : nat -> nat -> nat list **)

let rec seq start = function
| O -> []
| S len0 -> start :: (seq (S start) len0)

type mark =
| NM
| PC
| IL
| IQ

(** val mark_eqb : mark -> mark -> bool **)

let mark_eqb a b =
  match a with
  | NM -> (match b with
           | NM -> true
           | _ -> false)
  | PC -> (match b with
           | PC -> true
           | _ -> false)
  | IL -> (match b with
           | IL -> true
           | _ -> false)
  | IQ -> (match b with
           | IQ -> true
           | _ -> false)

type hdr = { h_rc : n; h_tc : n; h_mark : mark; h_fin : bool; h_side : bool }

(** val max_rc : n **)

let max_rc =
  Npos (XO (XI (XI (XI (XI (XI (XI (XI (XI (XI (XI (XI (XI XH)))))))))))))

(** val tc_dropped : n **)

let tc_dropped =
  Npos (XI (XI (XI (XI (XI (XI (XI (XI (XI (XI (XI (XI (XI XH)))))))))))))

(** val set_rc : n -> hdr -> hdr **)

let set_rc n0 h =
  { h_rc = n0; h_tc = h.h_tc; h_mark = h.h_mark; h_fin = h.h_fin; h_side =
    h.h_side }

(** val set_tc : n -> hdr -> hdr **)

let set_tc n0 h =
  { h_rc = h.h_rc; h_tc = n0; h_mark = h.h_mark; h_fin = h.h_fin; h_side =
    h.h_side }

(** val set_mark : mark -> hdr -> hdr **)

let set_mark m h =
  { h_rc = h.h_rc; h_tc = h.h_tc; h_mark = m; h_fin = h.h_fin; h_side =
    h.h_side }

(** val set_fin : bool -> hdr -> hdr **)

let set_fin b h =
  { h_rc = h.h_rc; h_tc = h.h_tc; h_mark = h.h_mark; h_fin = b; h_side =
    h.h_side }

(** val set_side : bool -> hdr -> hdr **)

let set_side b h =
  { h_rc = h.h_rc; h_tc = h.h_tc; h_mark = h.h_mark; h_fin = h.h_fin;
    h_side = b }

(** val hdr_new : bool -> hdr **)

let hdr_new already_finalized =
  { h_rc = (Npos XH); h_tc = (Npos XH); h_mark = NM; h_fin =
    already_finalized; h_side = false }

(** val inc_rc : hdr -> hdr option **)

let inc_rc h =
  if N.eqb h.h_rc max_rc
  then None
  else Some (set_rc (N.add h.h_rc (Npos XH)) h)

(** val dec_rc : hdr -> hdr option **)

let dec_rc h =
  if N.eqb h.h_rc N0 then None else Some (set_rc (N.sub h.h_rc (Npos XH)) h)

(** val inc_tc : hdr -> hdr option **)

let inc_tc h =
  if N.eqb h.h_tc max_rc
  then None
  else Some (set_tc (N.add h.h_tc (Npos XH)) h)

(** val reset_tc : hdr -> hdr **)

let reset_tc h =
  set_tc N0 h

(** val needs_fin : hdr -> bool **)

let needs_fin h =
  negb h.h_fin

(** val is_dropped : hdr -> bool **)

let is_dropped h =
  N.eqb h.h_tc tc_dropped

(** val set_dropped : hdr -> hdr **)

let set_dropped h =
  set_tc tc_dropped h

(** val is_not_marked : hdr -> bool **)

let is_not_marked h =
  match h.h_mark with
  | NM -> true
  | PC -> true
  | _ -> false

(** val is_in_pc : hdr -> bool **)

let is_in_pc h =
  mark_eqb h.h_mark PC

(** val is_in_list : hdr -> bool **)

let is_in_list h =
  mark_eqb h.h_mark IL

(** val is_in_list_or_queue : hdr -> bool **)

let is_in_list_or_queue h =
  match h.h_mark with
  | NM -> false
  | PC -> false
  | _ -> true

type wk = { w_cnt : n; w_acc : bool }

(** val max_weak : n **)

let max_weak =
  Npos (XI (XI (XI (XI (XI (XI (XI (XI (XI (XI (XI (XI (XI (XI
    XH))))))))))))))

(** val wk_new : bool -> wk **)

let wk_new accessible =
  { w_cnt = N0; w_acc = accessible }

(** val inc_wk : wk -> wk option **)

let inc_wk w =
  if N.eqb w.w_cnt max_weak
  then None
  else Some { w_cnt = (N.add w.w_cnt (Npos XH)); w_acc = w.w_acc }

(** val dec_wk : wk -> wk option **)

let dec_wk w =
  if N.eqb w.w_cnt N0
  then None
  else Some { w_cnt = (N.sub w.w_cnt (Npos XH)); w_acc = w.w_acc }

(** val set_acc : bool -> wk -> wk **)

let set_acc b w =
  { w_cnt = w.w_cnt; w_acc = b }

(** val is_tracing_spec : bool -> bool -> bool -> bool -> bool **)

let is_tracing_spec feat_fin collecting finalizing dropping =
  if feat_fin
  then (&&) ((&&) collecting (negb finalizing)) (negb dropping)
  else (&&) collecting (negb dropping)

type decision = bool

(** val decide : decision -> bool **)

let decide decision0 =
  decision0

type ('a, 'b) relDecision = 'a -> 'b -> decision

(** val decide_rel : ('a1, 'a2) relDecision -> 'a1 -> 'a2 -> decision **)

let decide_rel relDecision0 =
  relDecision0

(** val zip_with : ('a1 -> 'a2 -> 'a3) -> 'a1 list -> 'a2 list -> 'a3 list **)

let rec zip_with f l1 l2 =
  match l1 with
  | [] -> []
  | x1 :: l3 ->
    (match l2 with
     | [] -> []
     | x2 :: l4 -> (f x1 x2) :: (zip_with f l3 l4))

type ('a, 'b) filter = __ -> ('a -> decision) -> 'b -> 'b

(** val filter0 : ('a1, 'a2) filter -> ('a1 -> decision) -> 'a2 -> 'a2 **)

let filter0 filter1 h x =
  filter1 __ h x

type 'm mBind = __ -> __ -> (__ -> 'm) -> 'm -> 'm

(** val mbind : 'a1 mBind -> ('a2 -> 'a1) -> 'a1 -> 'a1 **)

let mbind mBind0 x x0 =
  Obj.magic mBind0 __ __ x x0

type 'm mJoin = __ -> 'm -> 'm

(** val mjoin : 'a1 mJoin -> 'a1 -> 'a1 **)

let mjoin mJoin0 x =
  mJoin0 __ x

type 'm fMap = __ -> __ -> (__ -> __) -> 'm -> 'm

(** val fmap : 'a1 fMap -> ('a2 -> 'a3) -> 'a1 -> 'a1 **)

let fmap fMap0 x x0 =
  Obj.magic fMap0 __ __ x x0

type 'm oMap = __ -> __ -> (__ -> __ option) -> 'm -> 'm

(** val omap : 'a1 oMap -> ('a2 -> 'a3 option) -> 'a1 -> 'a1 **)

let omap oMap0 x x0 =
  Obj.magic oMap0 __ __ x x0

type ('k, 'a, 'm) lookup = 'k -> 'm -> 'a option

(** val lookup0 : ('a1, 'a2, 'a3) lookup -> 'a1 -> 'a3 -> 'a2 option **)

let lookup0 lookup1 =
  lookup1

type ('k, 'a, 'm) insert = 'k -> 'a -> 'm -> 'm

(** val insert0 : ('a1, 'a2, 'a3) insert -> 'a1 -> 'a2 -> 'a3 -> 'a3 **)

let insert0 insert1 =
  insert1

type ('k, 'a, 'm) alter = ('a -> 'a) -> 'k -> 'm -> 'm

(** val alter0 :
    ('a1, 'a2, 'a3) alter -> ('a2 -> 'a2) -> 'a1 -> 'a3 -> 'a3 **)

let alter0 alter1 =
  alter1

module Coq_Nat = Nat

(** val not_dec : decision -> decision **)

let not_dec = function
| true -> false
| false -> true

(** val bool_eq_dec : (bool, bool) relDecision **)

let bool_eq_dec x y =
  if x then if y then true else false else if y then false else true

(** val bool_decide : decision -> bool **)

let bool_decide = function
| true -> true
| false -> false

(** val from_option : ('a1 -> 'a2) -> 'a2 -> 'a1 option -> 'a2 **)

let from_option f y = function
| Some x -> f x
| None -> y

(** val option_bind : (__ -> __ option) -> __ option -> __ option **)

let option_bind f = function
| Some x -> f x
| None -> None

(** val option_join : __ option -> __ option **)

let option_join = function
| Some mx -> Obj.magic mx
| None -> None

(** val option_fmap : (__ -> __) -> __ option -> __ option **)

let option_fmap =
  option_map

module Coq0_Nat =
 struct
  (** val eq_dec : (nat, nat) relDecision **)

  let eq_dec =
    Nat.eq_dec

  (** val lt_dec : (nat, nat) relDecision **)

  let lt_dec =
    lt_dec
 end

(** val list_lookup : (nat, 'a1, 'a1 list) lookup **)

let rec list_lookup i = function
| [] -> None
| x :: l0 -> (match i with
              | O -> Some x
              | S i0 -> lookup0 list_lookup i0 l0)

(** val list_alter : (nat, 'a1, 'a1 list) alter **)

let rec list_alter f i = function
| [] -> []
| x :: l0 ->
  (match i with
   | O -> (f x) :: l0
   | S i0 -> x :: (list_alter f i0 l0))

(** val list_insert : (nat, 'a1, 'a1 list) insert **)

let rec list_insert i y = function
| [] -> []
| x :: l0 ->
  (match i with
   | O -> y :: l0
   | S i0 -> x :: (insert0 list_insert i0 y l0))

(** val list_filter : ('a1 -> decision) -> 'a1 list -> 'a1 list **)

let rec list_filter x = function
| [] -> []
| x0 :: l0 ->
  if decide (x x0)
  then x0 :: (filter0 (fun _ -> list_filter) x l0)
  else filter0 (fun _ -> list_filter) x l0

(** val replicate : nat -> 'a1 -> 'a1 list **)

let rec replicate n0 x =
  match n0 with
  | O -> []
  | S n1 -> x :: (replicate n1 x)

(** val list_fmap : (__ -> __) -> __ list -> __ list **)

let rec list_fmap f = function
| [] -> []
| x :: l0 -> (f x) :: (list_fmap f l0)

(** val list_omap : (__ -> __ option) -> __ list -> __ list **)

let rec list_omap f = function
| [] -> []
| x :: l0 ->
  (match f x with
   | Some y -> y :: (list_omap f l0)
   | None -> list_omap f l0)

(** val imap : (nat -> 'a1 -> 'a2) -> 'a1 list -> 'a2 list **)

let rec imap f = function
| [] -> []
| x :: l0 -> (f O x) :: (imap (compose f (fun x0 -> S x0)) l0)

type ('r, 't) setter = ('t -> 't) -> 'r -> 'r

(** val set :
    ('a1 -> 'a2) -> ('a1, 'a2) setter -> ('a2 -> 'a2) -> 'a1 -> 'a1 **)

let set _ setter0 =
  setter0

type id0 = nat

type loc =
| LS of nat
| LFS of nat
| LFA of nat * nat

type wloc =
| WS of nat
| WFS of nat
| WFA of nat * nat
| WP

type nodeloc =
| NSelf
| NSlot of nat

type cbkind =
| KTrace
| KFin
| KDrop
| KAction
| KClosure

type cmd =
| CNew of loc * nat
| CClone of loc * loc
| CDrop of loc
| CMove of loc * loc
| CMarkAlive of loc
| CCollect
| CDowngrade of loc * wloc
| CUpgrade of wloc * loc
| CWNew of wloc
| CWClone of wloc * wloc
| CWDrop of wloc
| CTryUnwrap of loc * nat
| CDropValue of nat
| CFinAgain of loc
| CNewCyclic of loc * nat * nat * bool
| CRegister of nodeloc * nat * nat
| CClean of nat
| CCDrop of nat
| CBag of loc * n
| CUnbag of n
| CBorrow of nodeloc
| CUnborrow of nodeloc
| CCfgAuto of bool
| CCfgPercent of n * n
| CCfgBuffered of n
| CArm of cbkind * n
| CPanic
| CObs of loc
| CWObs of wloc
| CSObs

type cls = { c_nf : nat; c_traced : bool list; c_nw : nat; c_cleaner : 
             bool; c_fin : nat option; c_drop : nat option }

type prog = { p_classes : cls list; p_scripts : cmd list list;
              p_main : cmd list }

type conf = { k_fin : bool; k_weak : bool; k_clean : bool; k_auto : bool;
              k_debug : bool; k_nsize : n; k_nalign : n; k_msize : n;
              k_malign : n; k_thr0 : n }

type vstate =
| VLive
| VUninit
| VDropping
| VDropped
| VMoved

type bstate =
| BNotYet
| BAlloc
| BFreed

type wref =
| WNull
| WTo of id0

type mslot =
| MVacant
| MAction of nat * nat

type side = { sd_wk : wk; sd_freed : bool }

type obj = { o_hdr : hdr; o_vst : vstate; o_box : bstate;
             o_side : side option; o_cls : nat; o_ismap : bool;
             o_fields : id0 option list; o_wfields : wref option list;
             o_cleaner : id0 option; o_borrowed : bool;
             o_mslots : mslot list; o_mfree : nat list; o_mborrowed : 
             bool }

type cref = { cr_map : id0; cr_slot : nat; cr_aid : nat }

type flags = { fl_c : bool; fl_f : bool; fl_d : bool; fl_t : bool }

type bad =
| UseAfterDrop
| UseAfterFree
| DoubleDrop
| DoubleFree
| UninitDrop
| AssertFail
| Underflow
| BadState
| Abort
| Fuel

type res =
| ROk
| RSkip
| RSome of id0
| RNone
| RUnwrapOk
| RUnwrapErr
| RPanicked

type event =
| ECb of cbkind * nat * flags
| EAlloc of id0 * n * n
| EFree of id0 * n * n
| ESAlloc of id0
| ESFree of id0
| ERes of res
| EObs of id0 * n * n * bool * bool
| EWObs of n * n
| ESObs of n * n option * n * bool
| EBad of bad * nat

type machine = { heap : obj list; pc : id0 list; pc_size : n;
                 pc_alive : bool; st_collecting : bool; st_finalizing : 
                 bool; st_dropping : bool; st_alloc : n; st_exec : n;
                 cf_thr : n; cf_pnum : n; cf_pexp : n; cf_buf : n;
                 cf_auto : bool; slots : id0 option list;
                 wslots : wref option list; cslots : cref option list;
                 values : id0 option list; bag : id0 list;
                 wparam : wref list; fuse_trace : n; fuse_fin : n;
                 fuse_drop : n; fuse_action : n; fuse_closure : n;
                 panicking : bool; next_aid : nat; log : event list;
                 dead : id0 list }

type outcome =
| ONormal
| OPanic
| OAbort
| OFuel

(** val nslots : nat **)

let nslots =
  S (S (S (S (S (S O)))))

(** val init : conf -> machine **)

let init k =
  { heap = []; pc = []; pc_size = N0; pc_alive = true; st_collecting = false;
    st_finalizing = false; st_dropping = false; st_alloc = N0; st_exec = N0;
    cf_thr = k.k_thr0; cf_pnum = (Npos (XI (XO (XI (XI (XO (XO (XI (XI (XO
    (XO (XI (XI (XO (XO (XI (XI (XO (XO (XI (XI (XO (XO (XI (XI (XO (XO (XI
    (XI (XO (XO (XI (XI (XO (XO (XI (XI (XO (XO (XI (XI (XO (XO (XI (XI (XO
    (XO (XI (XI (XO (XO (XI
    XH)))))))))))))))))))))))))))))))))))))))))))))))))))); cf_pexp = (Npos
    (XI (XI (XI (XO (XI XH)))))); cf_buf = N0; cf_auto = true; slots =
    (replicate nslots None); wslots = (replicate nslots None); cslots =
    (replicate nslots None); values = (replicate nslots None); bag = [];
    wparam = []; fuse_trace = N0; fuse_fin = N0; fuse_drop = N0;
    fuse_action = N0; fuse_closure = N0; panicking = false; next_aid = O;
    log = []; dead = [] }

(** val emit : event -> machine -> machine **)

let emit e m =
  set (fun m0 -> m0.log) (fun f ->
    let l = fun r -> f r.log in
    (fun x -> { heap = x.heap; pc = x.pc; pc_size = x.pc_size; pc_alive =
    x.pc_alive; st_collecting = x.st_collecting; st_finalizing =
    x.st_finalizing; st_dropping = x.st_dropping; st_alloc = x.st_alloc;
    st_exec = x.st_exec; cf_thr = x.cf_thr; cf_pnum = x.cf_pnum; cf_pexp =
    x.cf_pexp; cf_buf = x.cf_buf; cf_auto = x.cf_auto; slots = x.slots;
    wslots = x.wslots; cslots = x.cslots; values = x.values; bag = x.bag;
    wparam = x.wparam; fuse_trace = x.fuse_trace; fuse_fin = x.fuse_fin;
    fuse_drop = x.fuse_drop; fuse_action = x.fuse_action; fuse_closure =
    x.fuse_closure; panicking = x.panicking; next_aid = x.next_aid; log =
    (l x); dead = x.dead })) (fun x -> e :: x) m

(** val emit_bad : bad -> nat -> machine -> machine **)

let emit_bad b o m =
  emit (EBad (b, o)) m

(** val get : machine -> id0 -> obj option **)

let get m o =
  lookup0 list_lookup o m.heap

(** val upd : id0 -> (obj -> obj) -> machine -> machine **)

let upd o f m =
  set (fun m0 -> m0.heap) (fun f0 ->
    let l = fun r -> f0 r.heap in
    (fun x -> { heap = (l x); pc = x.pc; pc_size = x.pc_size; pc_alive =
    x.pc_alive; st_collecting = x.st_collecting; st_finalizing =
    x.st_finalizing; st_dropping = x.st_dropping; st_alloc = x.st_alloc;
    st_exec = x.st_exec; cf_thr = x.cf_thr; cf_pnum = x.cf_pnum; cf_pexp =
    x.cf_pexp; cf_buf = x.cf_buf; cf_auto = x.cf_auto; slots = x.slots;
    wslots = x.wslots; cslots = x.cslots; values = x.values; bag = x.bag;
    wparam = x.wparam; fuse_trace = x.fuse_trace; fuse_fin = x.fuse_fin;
    fuse_drop = x.fuse_drop; fuse_action = x.fuse_action; fuse_closure =
    x.fuse_closure; panicking = x.panicking; next_aid = x.next_aid; log =
    x.log; dead = x.dead })) (alter0 list_alter f o) m

(** val uhdr : id0 -> (hdr -> hdr) -> machine -> machine **)

let uhdr o f m =
  upd o (fun x ->
    set (fun o0 -> o0.o_hdr) (fun f0 ->
      let h = fun r -> f0 r.o_hdr in
      (fun x0 -> { o_hdr = (h x0); o_vst = x0.o_vst; o_box = x0.o_box;
      o_side = x0.o_side; o_cls = x0.o_cls; o_ismap = x0.o_ismap; o_fields =
      x0.o_fields; o_wfields = x0.o_wfields; o_cleaner = x0.o_cleaner;
      o_borrowed = x0.o_borrowed; o_mslots = x0.o_mslots; o_mfree =
      x0.o_mfree; o_mborrowed = x0.o_mborrowed })) f x) m

(** val hdr_of : machine -> id0 -> hdr **)

let hdr_of m o =
  match get m o with
  | Some x -> x.o_hdr
  | None -> hdr_new false

(** val cur_flags : conf -> machine -> flags **)

let cur_flags k m =
  { fl_c = m.st_collecting; fl_f = m.st_finalizing; fl_d = m.st_dropping;
    fl_t =
    (is_tracing_spec k.k_fin m.st_collecting m.st_finalizing m.st_dropping) }

(** val class_of : prog -> nat -> cls **)

let class_of p c =
  from_option (Obj.magic id) { c_nf = O; c_traced = []; c_nw = O; c_cleaner =
    false; c_fin = None; c_drop = None } (lookup0 list_lookup c p.p_classes)

(** val script_of : prog -> nat -> cmd list **)

let script_of p s =
  from_option (Obj.magic id) [] (lookup0 list_lookup s p.p_scripts)

(** val oscript : prog -> nat option -> cmd list **)

let oscript p = function
| Some i -> script_of p i
| None -> []

(** val get_fuse : cbkind -> machine -> n **)

let get_fuse k m =
  match k with
  | KTrace -> m.fuse_trace
  | KFin -> m.fuse_fin
  | KDrop -> m.fuse_drop
  | KAction -> m.fuse_action
  | KClosure -> m.fuse_closure

(** val set_fuse : cbkind -> n -> machine -> machine **)

let set_fuse k n0 m =
  match k with
  | KTrace ->
    set (fun m0 -> m0.fuse_trace) (fun f ->
      let n1 = fun r -> f r.fuse_trace in
      (fun x -> { heap = x.heap; pc = x.pc; pc_size = x.pc_size; pc_alive =
      x.pc_alive; st_collecting = x.st_collecting; st_finalizing =
      x.st_finalizing; st_dropping = x.st_dropping; st_alloc = x.st_alloc;
      st_exec = x.st_exec; cf_thr = x.cf_thr; cf_pnum = x.cf_pnum; cf_pexp =
      x.cf_pexp; cf_buf = x.cf_buf; cf_auto = x.cf_auto; slots = x.slots;
      wslots = x.wslots; cslots = x.cslots; values = x.values; bag = x.bag;
      wparam = x.wparam; fuse_trace = (n1 x); fuse_fin = x.fuse_fin;
      fuse_drop = x.fuse_drop; fuse_action = x.fuse_action; fuse_closure =
      x.fuse_closure; panicking = x.panicking; next_aid = x.next_aid; log =
      x.log; dead = x.dead })) (fun _ -> n0) m
  | KFin ->
    set (fun m0 -> m0.fuse_fin) (fun f ->
      let n1 = fun r -> f r.fuse_fin in
      (fun x -> { heap = x.heap; pc = x.pc; pc_size = x.pc_size; pc_alive =
      x.pc_alive; st_collecting = x.st_collecting; st_finalizing =
      x.st_finalizing; st_dropping = x.st_dropping; st_alloc = x.st_alloc;
      st_exec = x.st_exec; cf_thr = x.cf_thr; cf_pnum = x.cf_pnum; cf_pexp =
      x.cf_pexp; cf_buf = x.cf_buf; cf_auto = x.cf_auto; slots = x.slots;
      wslots = x.wslots; cslots = x.cslots; values = x.values; bag = x.bag;
      wparam = x.wparam; fuse_trace = x.fuse_trace; fuse_fin = (n1 x);
      fuse_drop = x.fuse_drop; fuse_action = x.fuse_action; fuse_closure =
      x.fuse_closure; panicking = x.panicking; next_aid = x.next_aid; log =
      x.log; dead = x.dead })) (fun _ -> n0) m
  | KDrop ->
    set (fun m0 -> m0.fuse_drop) (fun f ->
      let n1 = fun r -> f r.fuse_drop in
      (fun x -> { heap = x.heap; pc = x.pc; pc_size = x.pc_size; pc_alive =
      x.pc_alive; st_collecting = x.st_collecting; st_finalizing =
      x.st_finalizing; st_dropping = x.st_dropping; st_alloc = x.st_alloc;
      st_exec = x.st_exec; cf_thr = x.cf_thr; cf_pnum = x.cf_pnum; cf_pexp =
      x.cf_pexp; cf_buf = x.cf_buf; cf_auto = x.cf_auto; slots = x.slots;
      wslots = x.wslots; cslots = x.cslots; values = x.values; bag = x.bag;
      wparam = x.wparam; fuse_trace = x.fuse_trace; fuse_fin = x.fuse_fin;
      fuse_drop = (n1 x); fuse_action = x.fuse_action; fuse_closure =
      x.fuse_closure; panicking = x.panicking; next_aid = x.next_aid; log =
      x.log; dead = x.dead })) (fun _ -> n0) m
  | KAction ->
    set (fun m0 -> m0.fuse_action) (fun f ->
      let n1 = fun r -> f r.fuse_action in
      (fun x -> { heap = x.heap; pc = x.pc; pc_size = x.pc_size; pc_alive =
      x.pc_alive; st_collecting = x.st_collecting; st_finalizing =
      x.st_finalizing; st_dropping = x.st_dropping; st_alloc = x.st_alloc;
      st_exec = x.st_exec; cf_thr = x.cf_thr; cf_pnum = x.cf_pnum; cf_pexp =
      x.cf_pexp; cf_buf = x.cf_buf; cf_auto = x.cf_auto; slots = x.slots;
      wslots = x.wslots; cslots = x.cslots; values = x.values; bag = x.bag;
      wparam = x.wparam; fuse_trace = x.fuse_trace; fuse_fin = x.fuse_fin;
      fuse_drop = x.fuse_drop; fuse_action = (n1 x); fuse_closure =
      x.fuse_closure; panicking = x.panicking; next_aid = x.next_aid; log =
      x.log; dead = x.dead })) (fun _ -> n0) m
  | KClosure ->
    set (fun m0 -> m0.fuse_closure) (fun f ->
      let n1 = fun r -> f r.fuse_closure in
      (fun x -> { heap = x.heap; pc = x.pc; pc_size = x.pc_size; pc_alive =
      x.pc_alive; st_collecting = x.st_collecting; st_finalizing =
      x.st_finalizing; st_dropping = x.st_dropping; st_alloc = x.st_alloc;
      st_exec = x.st_exec; cf_thr = x.cf_thr; cf_pnum = x.cf_pnum; cf_pexp =
      x.cf_pexp; cf_buf = x.cf_buf; cf_auto = x.cf_auto; slots = x.slots;
      wslots = x.wslots; cslots = x.cslots; values = x.values; bag = x.bag;
      wparam = x.wparam; fuse_trace = x.fuse_trace; fuse_fin = x.fuse_fin;
      fuse_drop = x.fuse_drop; fuse_action = x.fuse_action; fuse_closure =
      (n1 x); panicking = x.panicking; next_aid = x.next_aid; log = x.log;
      dead = x.dead })) (fun _ -> n0) m

(** val tick : cbkind -> machine -> machine * bool **)

let tick k m =
  let n0 = get_fuse k m in
  if N.eqb n0 N0
  then (m, false)
  else ((set_fuse k (N.sub n0 (Npos XH)) m), (N.eqb n0 (Npos XH)))

(** val raise : machine -> outcome **)

let raise m =
  if m.panicking then OAbort else OPanic

(** val remove_id : id0 -> id0 list -> id0 list **)

let remove_id x l =
  filter0 (fun _ -> list_filter) (fun x0 ->
    not_dec (decide_rel Coq0_Nat.eq_dec x0 x)) l

(** val dec_size : id0 -> machine -> machine **)

let dec_size o m =
  if N.eqb m.pc_size N0
  then emit_bad Underflow o m
  else set (fun m0 -> m0.pc_size) (fun f ->
         let n0 = fun r -> f r.pc_size in
         (fun x -> { heap = x.heap; pc = x.pc; pc_size = (n0 x); pc_alive =
         x.pc_alive; st_collecting = x.st_collecting; st_finalizing =
         x.st_finalizing; st_dropping = x.st_dropping; st_alloc = x.st_alloc;
         st_exec = x.st_exec; cf_thr = x.cf_thr; cf_pnum = x.cf_pnum;
         cf_pexp = x.cf_pexp; cf_buf = x.cf_buf; cf_auto = x.cf_auto; slots =
         x.slots; wslots = x.wslots; cslots = x.cslots; values = x.values;
         bag = x.bag; wparam = x.wparam; fuse_trace = x.fuse_trace;
         fuse_fin = x.fuse_fin; fuse_drop = x.fuse_drop; fuse_action =
         x.fuse_action; fuse_closure = x.fuse_closure; panicking =
         x.panicking; next_aid = x.next_aid; log = x.log; dead = x.dead }))
         (fun n0 -> N.sub n0 (Npos XH)) m

(** val remove_from_list : id0 -> machine -> machine **)

let remove_from_list o m =
  if is_in_pc (hdr_of m o)
  then if m.pc_alive
       then dec_size o
              (set (fun m0 -> m0.pc) (fun f ->
                let l = fun r -> f r.pc in
                (fun x -> { heap = x.heap; pc = (l x); pc_size = x.pc_size;
                pc_alive = x.pc_alive; st_collecting = x.st_collecting;
                st_finalizing = x.st_finalizing; st_dropping = x.st_dropping;
                st_alloc = x.st_alloc; st_exec = x.st_exec; cf_thr =
                x.cf_thr; cf_pnum = x.cf_pnum; cf_pexp = x.cf_pexp; cf_buf =
                x.cf_buf; cf_auto = x.cf_auto; slots = x.slots; wslots =
                x.wslots; cslots = x.cslots; values = x.values; bag = x.bag;
                wparam = x.wparam; fuse_trace = x.fuse_trace; fuse_fin =
                x.fuse_fin; fuse_drop = x.fuse_drop; fuse_action =
                x.fuse_action; fuse_closure = x.fuse_closure; panicking =
                x.panicking; next_aid = x.next_aid; log = x.log; dead =
                x.dead })) (remove_id o) (uhdr o (set_mark NM) m))
       else m
  else m

(** val add_to_list : id0 -> machine -> machine **)

let add_to_list o m =
  if is_in_pc (hdr_of m o)
  then m
  else if m.pc_alive
       then let m0 =
              if (&&) (is_not_marked (hdr_of m o))
                   (negb (is_dropped (hdr_of m o)))
              then m
              else emit_bad AssertFail o m
            in
            uhdr o (fun h -> set_mark PC (reset_tc h))
              (set (fun m1 -> m1.pc_size) (fun f ->
                let n0 = fun r -> f r.pc_size in
                (fun x -> { heap = x.heap; pc = x.pc; pc_size = (n0 x);
                pc_alive = x.pc_alive; st_collecting = x.st_collecting;
                st_finalizing = x.st_finalizing; st_dropping = x.st_dropping;
                st_alloc = x.st_alloc; st_exec = x.st_exec; cf_thr =
                x.cf_thr; cf_pnum = x.cf_pnum; cf_pexp = x.cf_pexp; cf_buf =
                x.cf_buf; cf_auto = x.cf_auto; slots = x.slots; wslots =
                x.wslots; cslots = x.cslots; values = x.values; bag = x.bag;
                wparam = x.wparam; fuse_trace = x.fuse_trace; fuse_fin =
                x.fuse_fin; fuse_drop = x.fuse_drop; fuse_action =
                x.fuse_action; fuse_closure = x.fuse_closure; panicking =
                x.panicking; next_aid = x.next_aid; log = x.log; dead =
                x.dead })) N.succ
                (set (fun m1 -> m1.pc) (fun f ->
                  let l = fun r -> f r.pc in
                  (fun x -> { heap = x.heap; pc = (l x); pc_size = x.pc_size;
                  pc_alive = x.pc_alive; st_collecting = x.st_collecting;
                  st_finalizing = x.st_finalizing; st_dropping =
                  x.st_dropping; st_alloc = x.st_alloc; st_exec = x.st_exec;
                  cf_thr = x.cf_thr; cf_pnum = x.cf_pnum; cf_pexp =
                  x.cf_pexp; cf_buf = x.cf_buf; cf_auto = x.cf_auto; slots =
                  x.slots; wslots = x.wslots; cslots = x.cslots; values =
                  x.values; bag = x.bag; wparam = x.wparam; fuse_trace =
                  x.fuse_trace; fuse_fin = x.fuse_fin; fuse_drop =
                  x.fuse_drop; fuse_action = x.fuse_action; fuse_closure =
                  x.fuse_closure; panicking = x.panicking; next_aid =
                  x.next_aid; log = x.log; dead = x.dead })) (fun x ->
                  o :: x) m0))
       else m

(** val dec_rc_m : id0 -> machine -> machine **)

let dec_rc_m o m =
  match dec_rc (hdr_of m o) with
  | Some h -> uhdr o (fun _ -> h) m
  | None -> emit_bad AssertFail o m

(** val box_layout : conf -> obj -> n * n **)

let box_layout k x =
  if x.o_ismap then (k.k_msize, k.k_malign) else (k.k_nsize, k.k_nalign)

(** val dealloc : conf -> id0 -> machine -> machine **)

let dealloc k o m =
  match get m o with
  | Some x ->
    let (sz, al) = box_layout k x in
    let m0 = match x.o_box with
             | BAlloc -> m
             | _ -> emit_bad DoubleFree o m in
    let m1 = if N.ltb m0.st_alloc sz then emit_bad Underflow o m0 else m0 in
    emit (EFree (o, sz, al))
      (upd o (fun x0 ->
        set (fun o0 -> o0.o_box) (fun f ->
          let b = fun r -> f r.o_box in
          (fun x1 -> { o_hdr = x1.o_hdr; o_vst = x1.o_vst; o_box = (b x1);
          o_side = x1.o_side; o_cls = x1.o_cls; o_ismap = x1.o_ismap;
          o_fields = x1.o_fields; o_wfields = x1.o_wfields; o_cleaner =
          x1.o_cleaner; o_borrowed = x1.o_borrowed; o_mslots = x1.o_mslots;
          o_mfree = x1.o_mfree; o_mborrowed = x1.o_mborrowed })) (fun _ ->
          BFreed) x0)
        (set (fun m2 -> m2.st_alloc) (fun f ->
          let n0 = fun r -> f r.st_alloc in
          (fun x0 -> { heap = x0.heap; pc = x0.pc; pc_size = x0.pc_size;
          pc_alive = x0.pc_alive; st_collecting = x0.st_collecting;
          st_finalizing = x0.st_finalizing; st_dropping = x0.st_dropping;
          st_alloc = (n0 x0); st_exec = x0.st_exec; cf_thr = x0.cf_thr;
          cf_pnum = x0.cf_pnum; cf_pexp = x0.cf_pexp; cf_buf = x0.cf_buf;
          cf_auto = x0.cf_auto; slots = x0.slots; wslots = x0.wslots;
          cslots = x0.cslots; values = x0.values; bag = x0.bag; wparam =
          x0.wparam; fuse_trace = x0.fuse_trace; fuse_fin = x0.fuse_fin;
          fuse_drop = x0.fuse_drop; fuse_action = x0.fuse_action;
          fuse_closure = x0.fuse_closure; panicking = x0.panicking;
          next_aid = x0.next_aid; log = x0.log; dead = x0.dead })) (fun a ->
          N.sub a sz) m1))
  | None -> emit_bad BadState o m

(** val sfree : id0 -> machine -> machine **)

let sfree o m =
  match get m o with
  | Some x ->
    (match x.o_side with
     | Some s ->
       let m0 = if s.sd_freed then emit_bad DoubleFree o m else m in
       emit (ESFree o)
         (upd o (fun x0 ->
           set (fun o0 -> o0.o_side) (fun f ->
             let o0 = fun r -> f r.o_side in
             (fun x1 -> { o_hdr = x1.o_hdr; o_vst = x1.o_vst; o_box =
             x1.o_box; o_side = (o0 x1); o_cls = x1.o_cls; o_ismap =
             x1.o_ismap; o_fields = x1.o_fields; o_wfields = x1.o_wfields;
             o_cleaner = x1.o_cleaner; o_borrowed = x1.o_borrowed; o_mslots =
             x1.o_mslots; o_mfree = x1.o_mfree; o_mborrowed =
             x1.o_mborrowed })) (fun _ -> Some { sd_wk = s.sd_wk; sd_freed =
             true }) x0) m0)
     | None -> emit_bad BadState o m)
  | None -> emit_bad BadState o m

(** val uside : id0 -> (wk -> wk) -> machine -> machine **)

let uside o f m =
  upd o (fun x ->
    set (Obj.magic (fun o0 -> o0.o_side)) (fun f0 ->
      let o0 = fun r -> Obj.magic f0 r.o_side in
      (fun x0 -> { o_hdr = x0.o_hdr; o_vst = x0.o_vst; o_box = x0.o_box;
      o_side = (o0 x0); o_cls = x0.o_cls; o_ismap = x0.o_ismap; o_fields =
      x0.o_fields; o_wfields = x0.o_wfields; o_cleaner = x0.o_cleaner;
      o_borrowed = x0.o_borrowed; o_mslots = x0.o_mslots; o_mfree =
      x0.o_mfree; o_mborrowed = x0.o_mborrowed }))
      (fmap (fun _ _ -> option_fmap) (fun s -> { sd_wk = (f s.sd_wk);
        sd_freed = s.sd_freed })) x) m

(** val drop_metadata : conf -> id0 -> machine -> machine **)

let drop_metadata k o m =
  if negb k.k_weak
  then m
  else (match get m o with
        | Some x ->
          if x.o_hdr.h_side
          then (match x.o_side with
                | Some s ->
                  let m0 = if s.sd_freed then emit_bad UseAfterFree o m else m
                  in
                  if N.eqb s.sd_wk.w_cnt N0
                  then sfree o m0
                  else uside o (set_acc false) m0
                | None -> emit_bad BadState o m)
          else m
        | None -> emit_bad BadState o m)

(** val init_side : id0 -> machine -> machine **)

let init_side o m =
  match get m o with
  | Some x ->
    if x.o_hdr.h_side
    then m
    else emit (ESAlloc o)
           (upd o (fun x0 ->
             set (fun o0 -> o0.o_hdr) (fun f ->
               let h = fun r -> f r.o_hdr in
               (fun x1 -> { o_hdr = (h x1); o_vst = x1.o_vst; o_box =
               x1.o_box; o_side = x1.o_side; o_cls = x1.o_cls; o_ismap =
               x1.o_ismap; o_fields = x1.o_fields; o_wfields = x1.o_wfields;
               o_cleaner = x1.o_cleaner; o_borrowed = x1.o_borrowed;
               o_mslots = x1.o_mslots; o_mfree = x1.o_mfree; o_mborrowed =
               x1.o_mborrowed })) (set_side true)
               (set (fun o0 -> o0.o_side) (fun f ->
                 let o0 = fun r -> f r.o_side in
                 (fun x1 -> { o_hdr = x1.o_hdr; o_vst = x1.o_vst; o_box =
                 x1.o_box; o_side = (o0 x1); o_cls = x1.o_cls; o_ismap =
                 x1.o_ismap; o_fields = x1.o_fields; o_wfields =
                 x1.o_wfields; o_cleaner = x1.o_cleaner; o_borrowed =
                 x1.o_borrowed; o_mslots = x1.o_mslots; o_mfree = x1.o_mfree;
                 o_mborrowed = x1.o_mborrowed })) (fun _ -> Some { sd_wk =
                 (wk_new true); sd_freed = false }) x0)) m)
  | None -> emit_bad BadState o m

(** val side_wk : machine -> id0 -> wk option **)

let side_wk m o =
  mbind (Obj.magic (fun _ _ -> option_bind)) (fun x ->
    mbind (Obj.magic (fun _ _ -> option_bind)) (fun s -> Some s.sd_wk)
      (Obj.magic x.o_side)) (Obj.magic get m o)

(** val weak_strong_count : wref -> machine -> machine * n **)

let weak_strong_count w m =
  match w with
  | WNull -> (m, N0)
  | WTo o ->
    (match get m o with
     | Some x ->
       (match x.o_side with
        | Some s ->
          let m0 = if s.sd_freed then emit_bad UseAfterFree o m else m in
          if s.sd_wk.w_acc
          then let m1 =
                 match x.o_box with
                 | BAlloc -> m0
                 | _ -> emit_bad UseAfterFree o m0
               in
               let h = x.o_hdr in
               if (||) ((||) (N.eqb h.h_rc N0) (is_dropped h))
                    ((&&) (is_in_list_or_queue h) m1.st_dropping)
               then (m1, N0)
               else (m1, h.h_rc)
          else (m0, N0)
        | None -> ((emit_bad BadState o m), N0))
     | None -> ((emit_bad BadState o m), N0))

(** val weak_weak_count : wref -> machine -> machine * n **)

let weak_weak_count w m =
  match w with
  | WNull -> (m, N0)
  | WTo o ->
    (match get m o with
     | Some x ->
       (match x.o_side with
        | Some s ->
          ((if s.sd_freed then emit_bad UseAfterFree o m else m),
            s.sd_wk.w_cnt)
        | None -> ((emit_bad BadState o m), N0))
     | None -> ((emit_bad BadState o m), N0))

(** val weak_clone : wref -> machine -> machine option **)

let weak_clone w m =
  match w with
  | WNull -> Some m
  | WTo o ->
    (match side_wk m o with
     | Some k ->
       (match inc_wk k with
        | Some k' -> Some (uside o (fun _ -> k') m)
        | None -> None)
     | None -> Some (emit_bad BadState o m))

(** val weak_drop : wref -> machine -> machine **)

let weak_drop w m =
  match w with
  | WNull -> m
  | WTo o ->
    (match get m o with
     | Some x ->
       (match x.o_side with
        | Some s ->
          let m0 = if s.sd_freed then emit_bad UseAfterFree o m else m in
          (match dec_wk s.sd_wk with
           | Some k' ->
             let m1 = uside o (fun _ -> k') m0 in
             if (&&) (N.eqb k'.w_cnt N0) (negb k'.w_acc)
             then sfree o m1
             else m1
           | None -> emit_bad AssertFail o m0)
        | None -> emit_bad BadState o m)
     | None -> emit_bad BadState o m)

(** val weak_drop_opt : wref option -> machine -> machine **)

let weak_drop_opt w m =
  match w with
  | Some w0 -> weak_drop w0 m
  | None -> m

type rloc =
| RSlot of nat
| RField of id0 * nat

type rwloc =
| RWSlot of nat
| RWField of id0 * nat
| RWParam

(** val value_accessible : bool -> obj -> bool **)

let value_accessible self_access x =
  match x.o_vst with
  | VLive -> true
  | VDropping -> self_access
  | _ -> false

(** val node_via_slot : nat -> machine -> machine * id0 option **)

let node_via_slot i m =
  match lookup0 list_lookup i m.slots with
  | Some y ->
    (match y with
     | Some o ->
       (match get m o with
        | Some x ->
          (match x.o_box with
           | BAlloc ->
             if (&&) (value_accessible false x) (negb x.o_ismap)
             then (m, (Some o))
             else ((emit_bad UseAfterDrop o m), None)
           | _ -> ((emit_bad UseAfterFree o m), None))
        | None -> ((emit_bad BadState o m), None))
     | None -> (m, None))
  | None -> (m, None)

(** val self_node : id0 option -> machine -> id0 option **)

let self_node self m =
  match self with
  | Some o ->
    (match get m o with
     | Some x -> if value_accessible true x then Some o else None
     | None -> None)
  | None -> None

(** val resolve : id0 option -> loc -> machine -> machine * rloc option **)

let resolve self l m =
  match l with
  | LS i ->
    (m,
      (if decide (decide_rel Coq0_Nat.lt_dec i nslots)
       then Some (RSlot i)
       else None))
  | LFS j ->
    (match self_node self m with
     | Some o ->
       (m,
         (match get m o with
          | Some x ->
            if decide (decide_rel Coq0_Nat.lt_dec j (length x.o_fields))
            then Some (RField (o, j))
            else None
          | None -> None))
     | None -> (m, None))
  | LFA (i, j) ->
    let (m0, n0) = node_via_slot i m in
    (match n0 with
     | Some o ->
       (m0,
         (match get m0 o with
          | Some x ->
            if decide (decide_rel Coq0_Nat.lt_dec j (length x.o_fields))
            then Some (RField (o, j))
            else None
          | None -> None))
     | None -> (m0, None))

(** val wresolve : id0 option -> wloc -> machine -> machine * rwloc option **)

let wresolve self l m =
  match l with
  | WS i ->
    (m,
      (if decide (decide_rel Coq0_Nat.lt_dec i nslots)
       then Some (RWSlot i)
       else None))
  | WFS j ->
    (match self_node self m with
     | Some o ->
       (m,
         (match get m o with
          | Some x ->
            if decide (decide_rel Coq0_Nat.lt_dec j (length x.o_wfields))
            then Some (RWField (o, j))
            else None
          | None -> None))
     | None -> (m, None))
  | WFA (i, j) ->
    let (m0, n0) = node_via_slot i m in
    (match n0 with
     | Some o ->
       (m0,
         (match get m0 o with
          | Some x ->
            if decide (decide_rel Coq0_Nat.lt_dec j (length x.o_wfields))
            then Some (RWField (o, j))
            else None
          | None -> None))
     | None -> (m0, None))
  | WP -> (m, (match m.wparam with
               | [] -> None
               | _ :: _ -> Some RWParam))

(** val nresolve :
    id0 option -> nodeloc -> machine -> machine * id0 option **)

let nresolve self n0 m =
  match n0 with
  | NSelf -> (m, (self_node self m))
  | NSlot i -> node_via_slot i m

(** val read_loc : rloc -> machine -> id0 option **)

let read_loc r m =
  match r with
  | RSlot i ->
    mjoin (Obj.magic (fun _ -> option_join))
      (lookup0 (Obj.magic list_lookup) i m.slots)
  | RField (o, j) ->
    mbind (Obj.magic (fun _ _ -> option_bind)) (fun x ->
      mjoin (Obj.magic (fun _ -> option_join))
        (lookup0 (Obj.magic list_lookup) j x.o_fields)) (Obj.magic get m o)

(** val write_loc : rloc -> id0 option -> machine -> machine **)

let write_loc r v m =
  match r with
  | RSlot i ->
    set (fun m0 -> m0.slots) (fun f ->
      let l = fun r0 -> f r0.slots in
      (fun x -> { heap = x.heap; pc = x.pc; pc_size = x.pc_size; pc_alive =
      x.pc_alive; st_collecting = x.st_collecting; st_finalizing =
      x.st_finalizing; st_dropping = x.st_dropping; st_alloc = x.st_alloc;
      st_exec = x.st_exec; cf_thr = x.cf_thr; cf_pnum = x.cf_pnum; cf_pexp =
      x.cf_pexp; cf_buf = x.cf_buf; cf_auto = x.cf_auto; slots = (l x);
      wslots = x.wslots; cslots = x.cslots; values = x.values; bag = x.bag;
      wparam = x.wparam; fuse_trace = x.fuse_trace; fuse_fin = x.fuse_fin;
      fuse_drop = x.fuse_drop; fuse_action = x.fuse_action; fuse_closure =
      x.fuse_closure; panicking = x.panicking; next_aid = x.next_aid; log =
      x.log; dead = x.dead })) (insert0 list_insert i v) m
  | RField (o, j) ->
    upd o (fun x ->
      set (fun o0 -> o0.o_fields) (fun f ->
        let l = fun r0 -> f r0.o_fields in
        (fun x0 -> { o_hdr = x0.o_hdr; o_vst = x0.o_vst; o_box = x0.o_box;
        o_side = x0.o_side; o_cls = x0.o_cls; o_ismap = x0.o_ismap;
        o_fields = (l x0); o_wfields = x0.o_wfields; o_cleaner =
        x0.o_cleaner; o_borrowed = x0.o_borrowed; o_mslots = x0.o_mslots;
        o_mfree = x0.o_mfree; o_mborrowed = x0.o_mborrowed }))
        (insert0 list_insert j v) x) m

(** val read_wloc : rwloc -> machine -> wref option **)

let read_wloc r m =
  match r with
  | RWSlot i ->
    mjoin (Obj.magic (fun _ -> option_join))
      (lookup0 (Obj.magic list_lookup) i m.wslots)
  | RWField (o, j) ->
    mbind (Obj.magic (fun _ _ -> option_bind)) (fun x ->
      mjoin (Obj.magic (fun _ -> option_join))
        (lookup0 (Obj.magic list_lookup) j x.o_wfields)) (Obj.magic get m o)
  | RWParam -> hd_error m.wparam

(** val write_wloc : rwloc -> wref option -> machine -> machine **)

let write_wloc r v m =
  match r with
  | RWSlot i ->
    set (fun m0 -> m0.wslots) (fun f ->
      let l = fun r0 -> f r0.wslots in
      (fun x -> { heap = x.heap; pc = x.pc; pc_size = x.pc_size; pc_alive =
      x.pc_alive; st_collecting = x.st_collecting; st_finalizing =
      x.st_finalizing; st_dropping = x.st_dropping; st_alloc = x.st_alloc;
      st_exec = x.st_exec; cf_thr = x.cf_thr; cf_pnum = x.cf_pnum; cf_pexp =
      x.cf_pexp; cf_buf = x.cf_buf; cf_auto = x.cf_auto; slots = x.slots;
      wslots = (l x); cslots = x.cslots; values = x.values; bag = x.bag;
      wparam = x.wparam; fuse_trace = x.fuse_trace; fuse_fin = x.fuse_fin;
      fuse_drop = x.fuse_drop; fuse_action = x.fuse_action; fuse_closure =
      x.fuse_closure; panicking = x.panicking; next_aid = x.next_aid; log =
      x.log; dead = x.dead })) (insert0 list_insert i v) m
  | RWField (o, j) ->
    upd o (fun x ->
      set (fun o0 -> o0.o_wfields) (fun f ->
        let l = fun r0 -> f r0.o_wfields in
        (fun x0 -> { o_hdr = x0.o_hdr; o_vst = x0.o_vst; o_box = x0.o_box;
        o_side = x0.o_side; o_cls = x0.o_cls; o_ismap = x0.o_ismap;
        o_fields = x0.o_fields; o_wfields = (l x0); o_cleaner = x0.o_cleaner;
        o_borrowed = x0.o_borrowed; o_mslots = x0.o_mslots; o_mfree =
        x0.o_mfree; o_mborrowed = x0.o_mborrowed }))
        (insert0 list_insert j v) x) m
  | RWParam -> m

(** val wloc_writable : rwloc -> bool **)

let wloc_writable = function
| RWParam -> false
| _ -> true

(** val traced_children : prog -> machine -> id0 -> machine * id0 list **)

let traced_children p m p0 =
  match get m p0 with
  | Some x ->
    if x.o_ismap
    then (m, [])
    else (match x.o_vst with
          | VLive ->
            if x.o_borrowed
            then (m, [])
            else (m,
                   (omap (Obj.magic (fun _ _ -> list_omap)) (fun pat ->
                     let (f, t0) = pat in if t0 then f else None)
                     (zip_with (Obj.magic (fun x0 x1 -> (x0, x1))) x.o_fields
                       (class_of p x.o_cls).c_traced)))
          | _ -> ((emit_bad UseAfterDrop p0 m), []))
  | None -> ((emit_bad BadState p0 m), [])

(** val is_map : machine -> id0 -> bool **)

let is_map m o =
  match get m o with
  | Some x -> x.o_ismap
  | None -> false

(** val trace_event : conf -> id0 -> machine -> machine * bool **)

let trace_event k p m =
  if is_map m p
  then (m, false)
  else tick KTrace (emit (ECb (KTrace, p, (cur_flags k m))) m)

type tstate = { t_m : machine; t_root : id0 list; t_non : id0 list;
                t_q : id0 list }

(** val visit_counting : tstate -> id0 -> tstate **)

let visit_counting s c =
  let m = s.t_m in
  (match get m c with
   | Some x ->
     let m0 = match x.o_box with
              | BAlloc -> m
              | _ -> emit_bad UseAfterFree c m
     in
     let h = x.o_hdr in
     if is_in_list_or_queue h
     then let m1 =
            if (&&) (N.ltb h.h_tc h.h_rc) (negb (is_dropped h))
            then m0
            else emit_bad AssertFail c m0
          in
          let h' = from_option (Obj.magic id) h (inc_tc h) in
          let m2 = uhdr c (fun _ -> h') m1 in
          if (&&) (is_in_list h') (N.eqb h'.h_rc h'.h_tc)
          then { t_m = m2; t_root = (remove_id c s.t_root); t_non =
                 (c :: s.t_non); t_q = s.t_q }
          else { t_m = m2; t_root = s.t_root; t_non = s.t_non; t_q = s.t_q }
     else if is_in_pc h
          then let m1 = if is_dropped h then emit_bad AssertFail c m0 else m0
               in
               { t_m =
               (uhdr c (fun h0 -> from_option (Obj.magic id) h0 (inc_tc h0))
                 m1); t_root = s.t_root; t_non = s.t_non; t_q = s.t_q }
          else let m1 = if is_dropped h then emit_bad AssertFail c m0 else m0
               in
               { t_m =
               (uhdr c (fun h0 ->
                 set_mark IQ
                   (from_option (Obj.magic id) h0 (inc_tc (reset_tc h0)))) m1);
               t_root = s.t_root; t_non = s.t_non; t_q =
               (app s.t_q (c :: [])) }
   | None ->
     { t_m = (emit_bad BadState c m); t_root = s.t_root; t_non = s.t_non;
       t_q = s.t_q })

(** val unmark_all : id0 list -> machine -> machine **)

let unmark_all l m =
  fold_left (fun m0 o -> uhdr o (set_mark NM) m0) l m

(** val reset_buffered : machine -> machine **)

let reset_buffered m =
  fold_left (fun m0 o -> uhdr o reset_tc m0) m.pc m

(** val process_counting : conf -> prog -> tstate -> id0 -> tstate * bool **)

let process_counting k p s p0 =
  let m = uhdr p0 (set_mark IQ) s.t_m in
  let (m0, boom) = trace_event k p0 m in
  if boom
  then let m1 = uhdr p0 (set_mark NM) m0 in
       let m2 = unmark_all (app s.t_root (app s.t_non s.t_q)) m1 in
       ({ t_m = (reset_buffered m2); t_root = []; t_non = []; t_q = [] },
       true)
  else let (m1, kids) = traced_children p m0 p0 in
       let s0 =
         fold_left visit_counting kids { t_m = m1; t_root = s.t_root; t_non =
           s.t_non; t_q = s.t_q }
       in
       let h = hdr_of s0.t_m p0 in
       let m2 = uhdr p0 (set_mark IL) s0.t_m in
       if N.eqb h.h_rc h.h_tc
       then ({ t_m = m2; t_root = s0.t_root; t_non = (p0 :: s0.t_non); t_q =
              s0.t_q }, false)
       else ({ t_m = m2; t_root = (p0 :: s0.t_root); t_non = s0.t_non; t_q =
              s0.t_q }, false)

(** val counting : conf -> prog -> nat -> tstate -> (tstate * bool) option **)

let rec counting k p fuel s =
  match fuel with
  | O -> None
  | S f ->
    let m = s.t_m in
    (match m.pc with
     | [] ->
       (match s.t_q with
        | [] -> Some (s, false)
        | p0 :: q' ->
          let m0 = uhdr p0 (set_mark NM) m in
          let (s', boom) =
            process_counting k p { t_m = m0; t_root = s.t_root; t_non =
              s.t_non; t_q = q' } p0
          in
          if boom then Some (s', true) else counting k p f s')
     | p0 :: rest ->
       let m0 =
         dec_size p0
           (set (fun m0 -> m0.pc) (fun f0 ->
             let l = fun r -> f0 r.pc in
             (fun x -> { heap = x.heap; pc = (l x); pc_size = x.pc_size;
             pc_alive = x.pc_alive; st_collecting = x.st_collecting;
             st_finalizing = x.st_finalizing; st_dropping = x.st_dropping;
             st_alloc = x.st_alloc; st_exec = x.st_exec; cf_thr = x.cf_thr;
             cf_pnum = x.cf_pnum; cf_pexp = x.cf_pexp; cf_buf = x.cf_buf;
             cf_auto = x.cf_auto; slots = x.slots; wslots = x.wslots;
             cslots = x.cslots; values = x.values; bag = x.bag; wparam =
             x.wparam; fuse_trace = x.fuse_trace; fuse_fin = x.fuse_fin;
             fuse_drop = x.fuse_drop; fuse_action = x.fuse_action;
             fuse_closure = x.fuse_closure; panicking = x.panicking;
             next_aid = x.next_aid; log = x.log; dead = x.dead })) (fun _ ->
             rest) (uhdr p0 (set_mark NM) m))
       in
       let (s', boom) =
         process_counting k p { t_m = m0; t_root = s.t_root; t_non = s.t_non;
           t_q = s.t_q } p0
       in
       if boom then Some (s', true) else counting k p f s')

(** val visit_root : tstate -> id0 -> tstate **)

let visit_root s c =
  let m = s.t_m in
  (match get m c with
   | Some x ->
     let m0 = match x.o_box with
              | BAlloc -> m
              | _ -> emit_bad UseAfterFree c m
     in
     let h = x.o_hdr in
     if (&&) (is_in_list h) (N.eqb h.h_rc h.h_tc)
     then { t_m = (uhdr c (set_mark IQ) m0); t_root = s.t_root; t_non =
            (remove_id c s.t_non); t_q = (app s.t_q (c :: [])) }
     else { t_m = m0; t_root = s.t_root; t_non = s.t_non; t_q = s.t_q }
   | None ->
     { t_m = (emit_bad BadState c m); t_root = s.t_root; t_non = s.t_non;
       t_q = s.t_q })

(** val process_root : conf -> prog -> tstate -> id0 -> tstate * bool **)

let process_root k p s p0 =
  let (m, boom) = trace_event k p0 s.t_m in
  if boom
  then let m0 = unmark_all (app s.t_root (app s.t_non s.t_q)) m in
       ({ t_m = m0; t_root = []; t_non = []; t_q = [] }, true)
  else let (m0, kids) = traced_children p m p0 in
       ((fold_left visit_root kids { t_m = m0; t_root = s.t_root; t_non =
          s.t_non; t_q = s.t_q }), false)

(** val roots : conf -> prog -> nat -> tstate -> (tstate * bool) option **)

let rec roots k p fuel s =
  match fuel with
  | O -> None
  | S f ->
    (match s.t_root with
     | [] ->
       (match s.t_q with
        | [] -> Some (s, false)
        | p0 :: q' ->
          let m = uhdr p0 (set_mark NM) s.t_m in
          let (s', boom) =
            process_root k p { t_m = m; t_root = []; t_non = s.t_non; t_q =
              q' } p0
          in
          if boom then Some (s', true) else roots k p f s')
     | p0 :: rest ->
       let m = uhdr p0 (set_mark NM) s.t_m in
       let (s', boom) =
         process_root k p { t_m = m; t_root = rest; t_non = s.t_non; t_q =
           s.t_q } p0
       in
       if boom then Some (s', true) else roots k p f s')

type pass_result =
| PDone of id0 list
| PPanicked
| PFuel

(** val pass_fuel : machine -> nat **)

let pass_fuel m =
  add (mul (S (S O)) (length m.heap)) (S (S O))

(** val trace_pass : conf -> prog -> machine -> machine * pass_result **)

let trace_pass k p m =
  let fuel = pass_fuel m in
  (match counting k p fuel { t_m = m; t_root = []; t_non = []; t_q = [] } with
   | Some p0 ->
     let (s, b) = p0 in
     if b
     then (s.t_m, PPanicked)
     else (match roots k p fuel s with
           | Some p1 ->
             let (s', b0) = p1 in
             if b0 then (s'.t_m, PPanicked) else (s'.t_m, (PDone s'.t_non))
           | None -> (s.t_m, PFuel))
   | None -> (m, PFuel))

(** val should_collect : machine -> bool **)

let should_collect m =
  (&&) m.cf_auto
    ((||) (N.ltb m.cf_thr m.st_alloc)
      (if N.eqb m.cf_buf N0 then false else N.ltb m.cf_buf m.pc_size))

(** val round53 : n -> n * n **)

let round53 p =
  let b = N.size p in
  if N.leb b (Npos (XI (XO (XI (XO (XI XH))))))
  then (p, N0)
  else let s = N.sub b (Npos (XI (XO (XI (XO (XI XH)))))) in
       let q = N.shiftr p s in
       let r = N.sub p (N.shiftl q s) in
       let half = N.shiftl (Npos XH) (N.sub s (Npos XH)) in
       let q' =
         if (||) (N.ltb half r) ((&&) (N.eqb r half) (N.odd q))
         then N.add q (Npos XH)
         else q
       in
       (q', s)

(** val fprod_is_zero : n -> n -> bool **)

let fprod_is_zero thr num =
  N.eqb (N.mul thr num) N0

(** val fle_prod : n -> n -> n -> n -> bool **)

let fle_prod x thr num e =
  let (q, s) = round53 (N.mul thr num) in N.leb (N.shiftl x e) (N.shiftl q s)

(** val adjust_up : nat -> n -> n -> n **)

let rec adjust_up fuel thr alloc =
  match fuel with
  | O -> thr
  | S f ->
    let t0 =
      N.modulo (N.mul thr (Npos (XO XH))) (Npos (XO (XO (XO (XO (XO (XO (XO
        (XO (XO (XO (XO (XO (XO (XO (XO (XO (XO (XO (XO (XO (XO (XO (XO (XO
        (XO (XO (XO (XO (XO (XO (XO (XO (XO (XO (XO (XO (XO (XO (XO (XO (XO
        (XO (XO (XO (XO (XO (XO (XO (XO (XO (XO (XO (XO (XO (XO (XO (XO (XO
        (XO (XO (XO (XO (XO (XO
        XH)))))))))))))))))))))))))))))))))))))))))))))))))))))))))))))))))
    in
    if N.ltb alloc t0 then t0 else adjust_up f t0 alloc

(** val adjust_down : conf -> nat -> n -> n -> n -> n -> n **)

let rec adjust_down k fuel thr alloc num e =
  match fuel with
  | O -> thr
  | S f ->
    if fle_prod alloc thr num e
    then let t0 = N.shiftr thr (Npos XH) in
         if N.leb t0 alloc
         then thr
         else if N.leb t0 k.k_thr0
              then k.k_thr0
              else adjust_down k f t0 alloc num e
    else thr

(** val adjust : conf -> machine -> machine **)

let adjust k m =
  if N.leb m.cf_thr m.st_alloc
  then set (fun m0 -> m0.cf_thr) (fun f ->
         let n0 = fun r -> f r.cf_thr in
         (fun x -> { heap = x.heap; pc = x.pc; pc_size = x.pc_size;
         pc_alive = x.pc_alive; st_collecting = x.st_collecting;
         st_finalizing = x.st_finalizing; st_dropping = x.st_dropping;
         st_alloc = x.st_alloc; st_exec = x.st_exec; cf_thr = (n0 x);
         cf_pnum = x.cf_pnum; cf_pexp = x.cf_pexp; cf_buf = x.cf_buf;
         cf_auto = x.cf_auto; slots = x.slots; wslots = x.wslots; cslots =
         x.cslots; values = x.values; bag = x.bag; wparam = x.wparam;
         fuse_trace = x.fuse_trace; fuse_fin = x.fuse_fin; fuse_drop =
         x.fuse_drop; fuse_action = x.fuse_action; fuse_closure =
         x.fuse_closure; panicking = x.panicking; next_aid = x.next_aid;
         log = x.log; dead = x.dead })) (fun _ ->
         adjust_up (S (S (S (S (S (S (S (S (S (S (S (S (S (S (S (S (S (S (S
           (S (S (S (S (S (S (S (S (S (S (S (S (S (S (S (S (S (S (S (S (S (S
           (S (S (S (S (S (S (S (S (S (S (S (S (S (S (S (S (S (S (S (S (S (S
           (S (S (S (S (S (S (S
           O))))))))))))))))))))))))))))))))))))))))))))))))))))))))))))))))))))))
           m.cf_thr m.st_alloc) m
  else if fprod_is_zero m.cf_thr m.cf_pnum
       then m
       else set (fun m0 -> m0.cf_thr) (fun f ->
              let n0 = fun r -> f r.cf_thr in
              (fun x -> { heap = x.heap; pc = x.pc; pc_size = x.pc_size;
              pc_alive = x.pc_alive; st_collecting = x.st_collecting;
              st_finalizing = x.st_finalizing; st_dropping = x.st_dropping;
              st_alloc = x.st_alloc; st_exec = x.st_exec; cf_thr = (n0 x);
              cf_pnum = x.cf_pnum; cf_pexp = x.cf_pexp; cf_buf = x.cf_buf;
              cf_auto = x.cf_auto; slots = x.slots; wslots = x.wslots;
              cslots = x.cslots; values = x.values; bag = x.bag; wparam =
              x.wparam; fuse_trace = x.fuse_trace; fuse_fin = x.fuse_fin;
              fuse_drop = x.fuse_drop; fuse_action = x.fuse_action;
              fuse_closure = x.fuse_closure; panicking = x.panicking;
              next_aid = x.next_aid; log = x.log; dead = x.dead })) (fun _ ->
              adjust_down k (S (S (S (S (S (S (S (S (S (S (S (S (S (S (S (S
                (S (S (S (S (S (S (S (S (S (S (S (S (S (S (S (S (S (S (S (S
                (S (S (S (S (S (S (S (S (S (S (S (S (S (S (S (S (S (S (S (S
                (S (S (S (S (S (S (S (S (S (S (S (S (S (S
                O))))))))))))))))))))))))))))))))))))))))))))))))))))))))))))))))))))))
                m.cf_thr m.st_alloc m.cf_pnum m.cf_pexp) m

(** val adjust_trigger_point : conf -> machine -> machine **)

let adjust_trigger_point k m =
  if k.k_auto then adjust k m else m

(** val map_insert : id0 -> nat -> nat -> machine -> machine * nat **)

let map_insert mo aid script m =
  match get m mo with
  | Some x ->
    (match x.o_mfree with
     | [] ->
       ((upd mo (fun x0 ->
          set (fun o -> o.o_mslots) (fun f ->
            let l = fun r -> f r.o_mslots in
            (fun x1 -> { o_hdr = x1.o_hdr; o_vst = x1.o_vst; o_box =
            x1.o_box; o_side = x1.o_side; o_cls = x1.o_cls; o_ismap =
            x1.o_ismap; o_fields = x1.o_fields; o_wfields = x1.o_wfields;
            o_cleaner = x1.o_cleaner; o_borrowed = x1.o_borrowed; o_mslots =
            (l x1); o_mfree = x1.o_mfree; o_mborrowed = x1.o_mborrowed }))
            (fun l -> app l ((MAction (aid, script)) :: [])) x0) m),
         (length x.o_mslots))
     | i :: fr ->
       ((upd mo (fun x0 ->
          set (fun o -> o.o_mfree) (fun f ->
            let l = fun r -> f r.o_mfree in
            (fun x1 -> { o_hdr = x1.o_hdr; o_vst = x1.o_vst; o_box =
            x1.o_box; o_side = x1.o_side; o_cls = x1.o_cls; o_ismap =
            x1.o_ismap; o_fields = x1.o_fields; o_wfields = x1.o_wfields;
            o_cleaner = x1.o_cleaner; o_borrowed = x1.o_borrowed; o_mslots =
            x1.o_mslots; o_mfree = (l x1); o_mborrowed = x1.o_mborrowed }))
            (fun _ -> fr)
            (set (fun o -> o.o_mslots) (fun f ->
              let l = fun r -> f r.o_mslots in
              (fun x1 -> { o_hdr = x1.o_hdr; o_vst = x1.o_vst; o_box =
              x1.o_box; o_side = x1.o_side; o_cls = x1.o_cls; o_ismap =
              x1.o_ismap; o_fields = x1.o_fields; o_wfields = x1.o_wfields;
              o_cleaner = x1.o_cleaner; o_borrowed = x1.o_borrowed;
              o_mslots = (l x1); o_mfree = x1.o_mfree; o_mborrowed =
              x1.o_mborrowed }))
              (insert0 list_insert i (MAction (aid, script))) x0)) m), i))
  | None -> ((emit_bad BadState mo m), O)

type call =
| KCmd of id0 option * cmd
| KScript of id0 option * cmd list
| KStore of rloc * id0
| KDropCc of id0
| KDropValue of id0
| KDropFields of id0 * nat
| KDropMapSlots of id0 * nat
| KTrigger
| KCollectCycles
| KCollect
| KCollectLoop of nat
| KCollectOnce
| KFinalizeList of id0 list * id0 list * bool * bool
| KDropList of id0 list * id0 list * bool
| KUnbag of nat
| KCleanRun of id0 * nat * nat

(** val ok : machine -> res -> machine * outcome **)

let ok m r =
  ((emit (ERes r) m), ONormal)

(** val unwinding :
    (machine -> machine * outcome) -> machine -> machine * outcome **)

let unwinding f m =
  let old = m.panicking in
  let (m', r) =
    f
      (set (fun m0 -> m0.panicking) (fun f0 ->
        let b = fun r -> f0 r.panicking in
        (fun x -> { heap = x.heap; pc = x.pc; pc_size = x.pc_size; pc_alive =
        x.pc_alive; st_collecting = x.st_collecting; st_finalizing =
        x.st_finalizing; st_dropping = x.st_dropping; st_alloc = x.st_alloc;
        st_exec = x.st_exec; cf_thr = x.cf_thr; cf_pnum = x.cf_pnum;
        cf_pexp = x.cf_pexp; cf_buf = x.cf_buf; cf_auto = x.cf_auto; slots =
        x.slots; wslots = x.wslots; cslots = x.cslots; values = x.values;
        bag = x.bag; wparam = x.wparam; fuse_trace = x.fuse_trace; fuse_fin =
        x.fuse_fin; fuse_drop = x.fuse_drop; fuse_action = x.fuse_action;
        fuse_closure = x.fuse_closure; panicking = (b x); next_aid =
        x.next_aid; log = x.log; dead = x.dead })) (fun _ -> true) m)
  in
  ((set (fun m0 -> m0.panicking) (fun f0 ->
     let b = fun r0 -> f0 r0.panicking in
     (fun x -> { heap = x.heap; pc = x.pc; pc_size = x.pc_size; pc_alive =
     x.pc_alive; st_collecting = x.st_collecting; st_finalizing =
     x.st_finalizing; st_dropping = x.st_dropping; st_alloc = x.st_alloc;
     st_exec = x.st_exec; cf_thr = x.cf_thr; cf_pnum = x.cf_pnum; cf_pexp =
     x.cf_pexp; cf_buf = x.cf_buf; cf_auto = x.cf_auto; slots = x.slots;
     wslots = x.wslots; cslots = x.cslots; values = x.values; bag = x.bag;
     wparam = x.wparam; fuse_trace = x.fuse_trace; fuse_fin = x.fuse_fin;
     fuse_drop = x.fuse_drop; fuse_action = x.fuse_action; fuse_closure =
     x.fuse_closure; panicking = (b x); next_aid = x.next_aid; log = x.log;
     dead = x.dead })) (fun _ -> old) m'),
  (match r with
   | ONormal -> if old then OAbort else OPanic
   | OPanic -> if old then OAbort else OPanic
   | x -> x))

(** val new_node : prog -> nat -> machine -> machine * id0 **)

let new_node p cls0 m =
  let c = class_of p cls0 in
  let o = length m.heap in
  ((set (fun m0 -> m0.heap) (fun f ->
     let l = fun r -> f r.heap in
     (fun x -> { heap = (l x); pc = x.pc; pc_size = x.pc_size; pc_alive =
     x.pc_alive; st_collecting = x.st_collecting; st_finalizing =
     x.st_finalizing; st_dropping = x.st_dropping; st_alloc = x.st_alloc;
     st_exec = x.st_exec; cf_thr = x.cf_thr; cf_pnum = x.cf_pnum; cf_pexp =
     x.cf_pexp; cf_buf = x.cf_buf; cf_auto = x.cf_auto; slots = x.slots;
     wslots = x.wslots; cslots = x.cslots; values = x.values; bag = x.bag;
     wparam = x.wparam; fuse_trace = x.fuse_trace; fuse_fin = x.fuse_fin;
     fuse_drop = x.fuse_drop; fuse_action = x.fuse_action; fuse_closure =
     x.fuse_closure; panicking = x.panicking; next_aid = x.next_aid; log =
     x.log; dead = x.dead })) (fun h ->
     app h ({ o_hdr = (hdr_new false); o_vst = VLive; o_box = BNotYet;
       o_side = None; o_cls = cls0; o_ismap = false; o_fields =
       (replicate c.c_nf None); o_wfields = (replicate c.c_nw None);
       o_cleaner = None; o_borrowed = false; o_mslots = []; o_mfree = [];
       o_mborrowed = false } :: [])) m), o)

(** val new_map : machine -> machine * id0 **)

let new_map m =
  let o = length m.heap in
  ((set (fun m0 -> m0.heap) (fun f ->
     let l = fun r -> f r.heap in
     (fun x -> { heap = (l x); pc = x.pc; pc_size = x.pc_size; pc_alive =
     x.pc_alive; st_collecting = x.st_collecting; st_finalizing =
     x.st_finalizing; st_dropping = x.st_dropping; st_alloc = x.st_alloc;
     st_exec = x.st_exec; cf_thr = x.cf_thr; cf_pnum = x.cf_pnum; cf_pexp =
     x.cf_pexp; cf_buf = x.cf_buf; cf_auto = x.cf_auto; slots = x.slots;
     wslots = x.wslots; cslots = x.cslots; values = x.values; bag = x.bag;
     wparam = x.wparam; fuse_trace = x.fuse_trace; fuse_fin = x.fuse_fin;
     fuse_drop = x.fuse_drop; fuse_action = x.fuse_action; fuse_closure =
     x.fuse_closure; panicking = x.panicking; next_aid = x.next_aid; log =
     x.log; dead = x.dead })) (fun h ->
     app h ({ o_hdr = (hdr_new false); o_vst = VLive; o_box = BNotYet;
       o_side = None; o_cls = O; o_ismap = true; o_fields = []; o_wfields =
       []; o_cleaner = None; o_borrowed = false; o_mslots = []; o_mfree = [];
       o_mborrowed = false } :: [])) m), o)

(** val box_alloc : conf -> id0 -> machine -> machine **)

let box_alloc k o m =
  match get m o with
  | Some x ->
    let (sz, al) = box_layout k x in
    let fin = (&&) k.k_fin m.st_finalizing in
    emit (EAlloc (o, sz, al))
      (upd o (fun x0 ->
        set (fun o0 -> o0.o_hdr) (fun f ->
          let h = fun r -> f r.o_hdr in
          (fun x1 -> { o_hdr = (h x1); o_vst = x1.o_vst; o_box = x1.o_box;
          o_side = x1.o_side; o_cls = x1.o_cls; o_ismap = x1.o_ismap;
          o_fields = x1.o_fields; o_wfields = x1.o_wfields; o_cleaner =
          x1.o_cleaner; o_borrowed = x1.o_borrowed; o_mslots = x1.o_mslots;
          o_mfree = x1.o_mfree; o_mborrowed = x1.o_mborrowed })) (fun _ ->
          hdr_new fin)
          (set (fun o0 -> o0.o_box) (fun f ->
            let b = fun r -> f r.o_box in
            (fun x1 -> { o_hdr = x1.o_hdr; o_vst = x1.o_vst; o_box = 
            (b x1); o_side = x1.o_side; o_cls = x1.o_cls; o_ismap =
            x1.o_ismap; o_fields = x1.o_fields; o_wfields = x1.o_wfields;
            o_cleaner = x1.o_cleaner; o_borrowed = x1.o_borrowed; o_mslots =
            x1.o_mslots; o_mfree = x1.o_mfree; o_mborrowed = x1.o_mborrowed }))
            (fun _ -> BAlloc) x0))
        (set (fun m0 -> m0.st_alloc) (fun f ->
          let n0 = fun r -> f r.st_alloc in
          (fun x0 -> { heap = x0.heap; pc = x0.pc; pc_size = x0.pc_size;
          pc_alive = x0.pc_alive; st_collecting = x0.st_collecting;
          st_finalizing = x0.st_finalizing; st_dropping = x0.st_dropping;
          st_alloc = (n0 x0); st_exec = x0.st_exec; cf_thr = x0.cf_thr;
          cf_pnum = x0.cf_pnum; cf_pexp = x0.cf_pexp; cf_buf = x0.cf_buf;
          cf_auto = x0.cf_auto; slots = x0.slots; wslots = x0.wslots;
          cslots = x0.cslots; values = x0.values; bag = x0.bag; wparam =
          x0.wparam; fuse_trace = x0.fuse_trace; fuse_fin = x0.fuse_fin;
          fuse_drop = x0.fuse_drop; fuse_action = x0.fuse_action;
          fuse_closure = x0.fuse_closure; panicking = x0.panicking;
          next_aid = x0.next_aid; log = x0.log; dead = x0.dead })) (fun a ->
          N.add a sz) m))
  | None -> emit_bad BadState o m

(** val step_script :
    (call -> machine -> machine * outcome) -> id0 option -> cmd list ->
    machine -> machine * outcome **)

let step_script rec0 self cs m =
  match cs with
  | [] -> (m, ONormal)
  | c :: cs' ->
    let (m0, r) = rec0 (KCmd (self, c)) m in
    (match r with
     | ONormal -> rec0 (KScript (self, cs')) m0
     | _ -> (m0, r))

(** val step_store :
    (call -> machine -> machine * outcome) -> rloc -> id0 -> machine ->
    machine * outcome **)

let step_store rec0 r v m =
  let old = read_loc r m in
  let m0 = write_loc r (Some v) m in
  (match old with
   | Some t0 -> rec0 (KDropCc t0) m0
   | None -> (m0, ONormal))

(** val step_drop_cc :
    conf -> prog -> (call -> machine -> machine * outcome) -> id0 -> machine
    -> machine * outcome **)

let step_drop_cc k p rec0 o m =
  match get m o with
  | Some x ->
    let m0 = match x.o_box with
             | BAlloc -> m
             | _ -> emit_bad UseAfterFree o m
    in
    let h = x.o_hdr in
    if is_in_list_or_queue h
    then ((dec_rc_m o m0), ONormal)
    else if N.eqb h.h_rc (Npos XH)
         then let fin_step = fun m1 ->
                if (&&) k.k_fin (needs_fin h)
                then let old_f = m1.st_finalizing in
                     let m2 =
                       set (fun m2 -> m2.st_finalizing) (fun f ->
                         let b = fun r -> f r.st_finalizing in
                         (fun x0 -> { heap = x0.heap; pc = x0.pc; pc_size =
                         x0.pc_size; pc_alive = x0.pc_alive; st_collecting =
                         x0.st_collecting; st_finalizing = (b x0);
                         st_dropping = x0.st_dropping; st_alloc =
                         x0.st_alloc; st_exec = x0.st_exec; cf_thr =
                         x0.cf_thr; cf_pnum = x0.cf_pnum; cf_pexp =
                         x0.cf_pexp; cf_buf = x0.cf_buf; cf_auto =
                         x0.cf_auto; slots = x0.slots; wslots = x0.wslots;
                         cslots = x0.cslots; values = x0.values; bag =
                         x0.bag; wparam = x0.wparam; fuse_trace =
                         x0.fuse_trace; fuse_fin = x0.fuse_fin; fuse_drop =
                         x0.fuse_drop; fuse_action = x0.fuse_action;
                         fuse_closure = x0.fuse_closure; panicking =
                         x0.panicking; next_aid = x0.next_aid; log = x0.log;
                         dead = x0.dead })) (fun _ -> true) m1
                     in
                     let m3 = uhdr o (set_fin true) m2 in
                     let (m4, r) =
                       if x.o_ismap
                       then (m3, ONormal)
                       else let m4 = emit (ECb (KFin, o, (cur_flags k m3))) m3
                            in
                            let (m5, boom) = tick KFin m4 in
                            if boom
                            then (m5, (raise m5))
                            else rec0 (KScript ((Some o),
                                   (oscript p (class_of p x.o_cls).c_fin))) m5
                     in
                     (match r with
                      | ONormal ->
                        if N.eqb (hdr_of m4 o).h_rc (Npos XH)
                        then (((set (fun m5 -> m5.st_finalizing) (fun f ->
                                 let b = fun r0 -> f r0.st_finalizing in
                                 (fun x0 -> { heap = x0.heap; pc = x0.pc;
                                 pc_size = x0.pc_size; pc_alive =
                                 x0.pc_alive; st_collecting =
                                 x0.st_collecting; st_finalizing = (b x0);
                                 st_dropping = x0.st_dropping; st_alloc =
                                 x0.st_alloc; st_exec = x0.st_exec; cf_thr =
                                 x0.cf_thr; cf_pnum = x0.cf_pnum; cf_pexp =
                                 x0.cf_pexp; cf_buf = x0.cf_buf; cf_auto =
                                 x0.cf_auto; slots = x0.slots; wslots =
                                 x0.wslots; cslots = x0.cslots; values =
                                 x0.values; bag = x0.bag; wparam = x0.wparam;
                                 fuse_trace = x0.fuse_trace; fuse_fin =
                                 x0.fuse_fin; fuse_drop = x0.fuse_drop;
                                 fuse_action = x0.fuse_action; fuse_closure =
                                 x0.fuse_closure; panicking = x0.panicking;
                                 next_aid = x0.next_aid; log = x0.log; dead =
                                 x0.dead })) (fun _ -> old_f) m4), ONormal),
                               true)
                        else (((set (fun m5 -> m5.st_finalizing) (fun f ->
                                 let b = fun r0 -> f r0.st_finalizing in
                                 (fun x0 -> { heap = x0.heap; pc = x0.pc;
                                 pc_size = x0.pc_size; pc_alive =
                                 x0.pc_alive; st_collecting =
                                 x0.st_collecting; st_finalizing = (b x0);
                                 st_dropping = x0.st_dropping; st_alloc =
                                 x0.st_alloc; st_exec = x0.st_exec; cf_thr =
                                 x0.cf_thr; cf_pnum = x0.cf_pnum; cf_pexp =
                                 x0.cf_pexp; cf_buf = x0.cf_buf; cf_auto =
                                 x0.cf_auto; slots = x0.slots; wslots =
                                 x0.wslots; cslots = x0.cslots; values =
                                 x0.values; bag = x0.bag; wparam = x0.wparam;
                                 fuse_trace = x0.fuse_trace; fuse_fin =
                                 x0.fuse_fin; fuse_drop = x0.fuse_drop;
                                 fuse_action = x0.fuse_action; fuse_closure =
                                 x0.fuse_closure; panicking = x0.panicking;
                                 next_aid = x0.next_aid; log = x0.log; dead =
                                 x0.dead })) (fun _ -> old_f)
                                 (add_to_list o (dec_rc_m o m4))), ONormal),
                               false)
                      | _ ->
                        (((set (fun m5 -> m5.st_finalizing) (fun f ->
                            let b = fun r0 -> f r0.st_finalizing in
                            (fun x0 -> { heap = x0.heap; pc = x0.pc;
                            pc_size = x0.pc_size; pc_alive = x0.pc_alive;
                            st_collecting = x0.st_collecting; st_finalizing =
                            (b x0); st_dropping = x0.st_dropping; st_alloc =
                            x0.st_alloc; st_exec = x0.st_exec; cf_thr =
                            x0.cf_thr; cf_pnum = x0.cf_pnum; cf_pexp =
                            x0.cf_pexp; cf_buf = x0.cf_buf; cf_auto =
                            x0.cf_auto; slots = x0.slots; wslots = x0.wslots;
                            cslots = x0.cslots; values = x0.values; bag =
                            x0.bag; wparam = x0.wparam; fuse_trace =
                            x0.fuse_trace; fuse_fin = x0.fuse_fin;
                            fuse_drop = x0.fuse_drop; fuse_action =
                            x0.fuse_action; fuse_closure = x0.fuse_closure;
                            panicking = x0.panicking; next_aid = x0.next_aid;
                            log = x0.log; dead = x0.dead })) (fun _ -> old_f)
                            m4), r), false))
                else ((m1, ONormal), true)
              in
              let (p0, go) = fin_step m0 in
              let (m1, r) = p0 in
              if negb go
              then (m1, r)
              else let m2 = dec_rc_m o m1 in
                   let m3 = remove_from_list o m2 in
                   let old_d = m3.st_dropping in
                   let m4 =
                     set (fun m4 -> m4.st_dropping) (fun f ->
                       let b = fun r0 -> f r0.st_dropping in
                       (fun x0 -> { heap = x0.heap; pc = x0.pc; pc_size =
                       x0.pc_size; pc_alive = x0.pc_alive; st_collecting =
                       x0.st_collecting; st_finalizing = x0.st_finalizing;
                       st_dropping = (b x0); st_alloc = x0.st_alloc;
                       st_exec = x0.st_exec; cf_thr = x0.cf_thr; cf_pnum =
                       x0.cf_pnum; cf_pexp = x0.cf_pexp; cf_buf = x0.cf_buf;
                       cf_auto = x0.cf_auto; slots = x0.slots; wslots =
                       x0.wslots; cslots = x0.cslots; values = x0.values;
                       bag = x0.bag; wparam = x0.wparam; fuse_trace =
                       x0.fuse_trace; fuse_fin = x0.fuse_fin; fuse_drop =
                       x0.fuse_drop; fuse_action = x0.fuse_action;
                       fuse_closure = x0.fuse_closure; panicking =
                       x0.panicking; next_aid = x0.next_aid; log = x0.log;
                       dead = x0.dead })) (fun _ -> true) m3
                   in
                   let m5 = if k.k_weak then uhdr o set_dropped m4 else m4 in
                   let (m6, r0) = rec0 (KDropValue o) m5 in
                   (match r0 with
                    | ONormal ->
                      let m7 = drop_metadata k o m6 in
                      let m8 = dealloc k o m7 in
                      ((set (fun m9 -> m9.st_dropping) (fun f ->
                         let b = fun r1 -> f r1.st_dropping in
                         (fun x0 -> { heap = x0.heap; pc = x0.pc; pc_size =
                         x0.pc_size; pc_alive = x0.pc_alive; st_collecting =
                         x0.st_collecting; st_finalizing = x0.st_finalizing;
                         st_dropping = (b x0); st_alloc = x0.st_alloc;
                         st_exec = x0.st_exec; cf_thr = x0.cf_thr; cf_pnum =
                         x0.cf_pnum; cf_pexp = x0.cf_pexp; cf_buf =
                         x0.cf_buf; cf_auto = x0.cf_auto; slots = x0.slots;
                         wslots = x0.wslots; cslots = x0.cslots; values =
                         x0.values; bag = x0.bag; wparam = x0.wparam;
                         fuse_trace = x0.fuse_trace; fuse_fin = x0.fuse_fin;
                         fuse_drop = x0.fuse_drop; fuse_action =
                         x0.fuse_action; fuse_closure = x0.fuse_closure;
                         panicking = x0.panicking; next_aid = x0.next_aid;
                         log = x0.log; dead = x0.dead })) (fun _ -> old_d) m8),
                      ONormal)
                    | _ ->
                      ((set (fun m7 -> m7.st_dropping) (fun f ->
                         let b = fun r1 -> f r1.st_dropping in
                         (fun x0 -> { heap = x0.heap; pc = x0.pc; pc_size =
                         x0.pc_size; pc_alive = x0.pc_alive; st_collecting =
                         x0.st_collecting; st_finalizing = x0.st_finalizing;
                         st_dropping = (b x0); st_alloc = x0.st_alloc;
                         st_exec = x0.st_exec; cf_thr = x0.cf_thr; cf_pnum =
                         x0.cf_pnum; cf_pexp = x0.cf_pexp; cf_buf =
                         x0.cf_buf; cf_auto = x0.cf_auto; slots = x0.slots;
                         wslots = x0.wslots; cslots = x0.cslots; values =
                         x0.values; bag = x0.bag; wparam = x0.wparam;
                         fuse_trace = x0.fuse_trace; fuse_fin = x0.fuse_fin;
                         fuse_drop = x0.fuse_drop; fuse_action =
                         x0.fuse_action; fuse_closure = x0.fuse_closure;
                         panicking = x0.panicking; next_aid = x0.next_aid;
                         log = x0.log; dead = x0.dead })) (fun _ -> old_d) m6),
                        r0))
         else ((add_to_list o (dec_rc_m o m0)), ONormal)
  | None -> ((emit_bad BadState o m), ONormal)

(** val step_drop_value :
    conf -> prog -> (call -> machine -> machine * outcome) -> id0 -> machine
    -> machine * outcome **)

let step_drop_value k p rec0 o m =
  match get m o with
  | Some x ->
    (match x.o_vst with
     | VLive ->
       let m0 =
         upd o (fun x0 ->
           set (fun o0 -> o0.o_vst) (fun f ->
             let v = fun r -> f r.o_vst in
             (fun x1 -> { o_hdr = x1.o_hdr; o_vst = (v x1); o_box = x1.o_box;
             o_side = x1.o_side; o_cls = x1.o_cls; o_ismap = x1.o_ismap;
             o_fields = x1.o_fields; o_wfields = x1.o_wfields; o_cleaner =
             x1.o_cleaner; o_borrowed = x1.o_borrowed; o_mslots =
             x1.o_mslots; o_mfree = x1.o_mfree; o_mborrowed =
             x1.o_mborrowed })) (fun _ -> VDropping) x0) m
       in
       if x.o_ismap
       then let (m1, r) = rec0 (KDropMapSlots (o, O)) m0 in
            ((upd o (fun x0 ->
               set (fun o0 -> o0.o_vst) (fun f ->
                 let v = fun r0 -> f r0.o_vst in
                 (fun x1 -> { o_hdr = x1.o_hdr; o_vst = (v x1); o_box =
                 x1.o_box; o_side = x1.o_side; o_cls = x1.o_cls; o_ismap =
                 x1.o_ismap; o_fields = x1.o_fields; o_wfields =
                 x1.o_wfields; o_cleaner = x1.o_cleaner; o_borrowed =
                 x1.o_borrowed; o_mslots = x1.o_mslots; o_mfree = x1.o_mfree;
                 o_mborrowed = x1.o_mborrowed })) (fun _ -> VDropped) x0) m1),
            r)
       else let m1 = emit (ECb (KDrop, o, (cur_flags k m0))) m0 in
            let (m2, boom) = tick KDrop m1 in
            let (m3, r) =
              if boom
              then (m2, (raise m2))
              else rec0 (KScript ((Some o),
                     (oscript p (class_of p x.o_cls).c_drop))) m2
            in
            let (m4, r0) =
              match r with
              | ONormal -> rec0 (KDropFields (o, O)) m3
              | OPanic -> unwinding (rec0 (KDropFields (o, O))) m3
              | _ -> (m3, r)
            in
            ((upd o (fun x0 ->
               set (fun o0 -> o0.o_vst) (fun f ->
                 let v = fun r1 -> f r1.o_vst in
                 (fun x1 -> { o_hdr = x1.o_hdr; o_vst = (v x1); o_box =
                 x1.o_box; o_side = x1.o_side; o_cls = x1.o_cls; o_ismap =
                 x1.o_ismap; o_fields = x1.o_fields; o_wfields =
                 x1.o_wfields; o_cleaner = x1.o_cleaner; o_borrowed =
                 x1.o_borrowed; o_mslots = x1.o_mslots; o_mfree = x1.o_mfree;
                 o_mborrowed = x1.o_mborrowed })) (fun _ -> VDropped) x0) m4),
            r0)
     | VUninit -> ((emit_bad UninitDrop o m), ONormal)
     | VMoved ->
       let m0 =
         upd o (fun x0 ->
           set (fun o0 -> o0.o_vst) (fun f ->
             let v = fun r -> f r.o_vst in
             (fun x1 -> { o_hdr = x1.o_hdr; o_vst = (v x1); o_box = x1.o_box;
             o_side = x1.o_side; o_cls = x1.o_cls; o_ismap = x1.o_ismap;
             o_fields = x1.o_fields; o_wfields = x1.o_wfields; o_cleaner =
             x1.o_cleaner; o_borrowed = x1.o_borrowed; o_mslots =
             x1.o_mslots; o_mfree = x1.o_mfree; o_mborrowed =
             x1.o_mborrowed })) (fun _ -> VDropping) x0) m
       in
       if x.o_ismap
       then let (m1, r) = rec0 (KDropMapSlots (o, O)) m0 in
            ((upd o (fun x0 ->
               set (fun o0 -> o0.o_vst) (fun f ->
                 let v = fun r0 -> f r0.o_vst in
                 (fun x1 -> { o_hdr = x1.o_hdr; o_vst = (v x1); o_box =
                 x1.o_box; o_side = x1.o_side; o_cls = x1.o_cls; o_ismap =
                 x1.o_ismap; o_fields = x1.o_fields; o_wfields =
                 x1.o_wfields; o_cleaner = x1.o_cleaner; o_borrowed =
                 x1.o_borrowed; o_mslots = x1.o_mslots; o_mfree = x1.o_mfree;
                 o_mborrowed = x1.o_mborrowed })) (fun _ -> VDropped) x0) m1),
            r)
       else let m1 = emit (ECb (KDrop, o, (cur_flags k m0))) m0 in
            let (m2, boom) = tick KDrop m1 in
            let (m3, r) =
              if boom
              then (m2, (raise m2))
              else rec0 (KScript ((Some o),
                     (oscript p (class_of p x.o_cls).c_drop))) m2
            in
            let (m4, r0) =
              match r with
              | ONormal -> rec0 (KDropFields (o, O)) m3
              | OPanic -> unwinding (rec0 (KDropFields (o, O))) m3
              | _ -> (m3, r)
            in
            ((upd o (fun x0 ->
               set (fun o0 -> o0.o_vst) (fun f ->
                 let v = fun r1 -> f r1.o_vst in
                 (fun x1 -> { o_hdr = x1.o_hdr; o_vst = (v x1); o_box =
                 x1.o_box; o_side = x1.o_side; o_cls = x1.o_cls; o_ismap =
                 x1.o_ismap; o_fields = x1.o_fields; o_wfields =
                 x1.o_wfields; o_cleaner = x1.o_cleaner; o_borrowed =
                 x1.o_borrowed; o_mslots = x1.o_mslots; o_mfree = x1.o_mfree;
                 o_mborrowed = x1.o_mborrowed })) (fun _ -> VDropped) x0) m4),
            r0)
     | _ -> ((emit_bad DoubleDrop o m), ONormal))
  | None -> ((emit_bad BadState o m), ONormal)

(** val step_drop_fields :
    (call -> machine -> machine * outcome) -> id0 -> nat -> machine ->
    machine * outcome **)

let step_drop_fields rec0 o j m =
  match get m o with
  | Some x ->
    if decide (decide_rel Coq0_Nat.lt_dec j (length x.o_fields))
    then let f =
           mjoin (Obj.magic (fun _ -> option_join))
             (lookup0 list_lookup j x.o_fields)
         in
         let m0 =
           upd o (fun x0 ->
             set (fun o0 -> o0.o_fields) (fun f0 ->
               let l = fun r -> f0 r.o_fields in
               (fun x1 -> { o_hdr = x1.o_hdr; o_vst = x1.o_vst; o_box =
               x1.o_box; o_side = x1.o_side; o_cls = x1.o_cls; o_ismap =
               x1.o_ismap; o_fields = (l x1); o_wfields = x1.o_wfields;
               o_cleaner = x1.o_cleaner; o_borrowed = x1.o_borrowed;
               o_mslots = x1.o_mslots; o_mfree = x1.o_mfree; o_mborrowed =
               x1.o_mborrowed })) (insert0 list_insert j None) x0) m
         in
         let (m1, r) =
           match f with
           | Some t0 -> rec0 (KDropCc (Obj.magic t0)) m0
           | None -> (m0, ONormal)
         in
         (match r with
          | ONormal -> rec0 (KDropFields (o, (S j))) m1
          | OPanic -> unwinding (rec0 (KDropFields (o, (S j)))) m1
          | _ -> (m1, r))
    else let m0 = fold_left (fun m0 w -> weak_drop_opt w m0) x.o_wfields m in
         let m1 =
           upd o (fun x0 ->
             set (Obj.magic (fun o0 -> o0.o_wfields)) (fun f ->
               let l = fun r -> Obj.magic f r.o_wfields in
               (fun x1 -> { o_hdr = x1.o_hdr; o_vst = x1.o_vst; o_box =
               x1.o_box; o_side = x1.o_side; o_cls = x1.o_cls; o_ismap =
               x1.o_ismap; o_fields = x1.o_fields; o_wfields = (l x1);
               o_cleaner = x1.o_cleaner; o_borrowed = x1.o_borrowed;
               o_mslots = x1.o_mslots; o_mfree = x1.o_mfree; o_mborrowed =
               x1.o_mborrowed }))
               (fmap (fun _ _ -> list_fmap) (fun _ -> None)) x0) m0
         in
         (match x.o_cleaner with
          | Some t0 ->
            rec0 (KDropCc t0)
              (upd o (fun x0 ->
                set (fun o0 -> o0.o_cleaner) (fun f ->
                  let o0 = fun r -> f r.o_cleaner in
                  (fun x1 -> { o_hdr = x1.o_hdr; o_vst = x1.o_vst; o_box =
                  x1.o_box; o_side = x1.o_side; o_cls = x1.o_cls; o_ismap =
                  x1.o_ismap; o_fields = x1.o_fields; o_wfields =
                  x1.o_wfields; o_cleaner = (o0 x1); o_borrowed =
                  x1.o_borrowed; o_mslots = x1.o_mslots; o_mfree =
                  x1.o_mfree; o_mborrowed = x1.o_mborrowed })) (fun _ ->
                  None) x0) m1)
          | None -> (m1, ONormal))
  | None -> ((emit_bad BadState o m), ONormal)

(** val step_drop_map_slots :
    (call -> machine -> machine * outcome) -> id0 -> nat -> machine ->
    machine * outcome **)

let step_drop_map_slots rec0 o j m =
  match get m o with
  | Some x ->
    (match lookup0 list_lookup j x.o_mslots with
     | Some sl ->
       let m0 =
         upd o (fun x0 ->
           set (fun o0 -> o0.o_mslots) (fun f ->
             let l = fun r -> f r.o_mslots in
             (fun x1 -> { o_hdr = x1.o_hdr; o_vst = x1.o_vst; o_box =
             x1.o_box; o_side = x1.o_side; o_cls = x1.o_cls; o_ismap =
             x1.o_ismap; o_fields = x1.o_fields; o_wfields = x1.o_wfields;
             o_cleaner = x1.o_cleaner; o_borrowed = x1.o_borrowed; o_mslots =
             (l x1); o_mfree = x1.o_mfree; o_mborrowed = x1.o_mborrowed }))
             (insert0 list_insert j MVacant) x0) m
       in
       let (m1, r) =
         match sl with
         | MVacant -> (m0, ONormal)
         | MAction (aid, script) -> rec0 (KCleanRun (o, aid, script)) m0
       in
       (match r with
        | ONormal -> rec0 (KDropMapSlots (o, (S j))) m1
        | OPanic -> unwinding (rec0 (KDropMapSlots (o, (S j)))) m1
        | _ -> (m1, r))
     | None -> (m, ONormal))
  | None -> ((emit_bad BadState o m), ONormal)

(** val step_clean_run :
    conf -> prog -> (call -> machine -> machine * outcome) -> id0 -> nat ->
    nat -> machine -> machine * outcome **)

let step_clean_run k p rec0 _ aid script m =
  let m0 = emit (ECb (KAction, aid, (cur_flags k m))) m in
  let (m1, boom) = tick KAction m0 in
  if boom
  then (m1, (raise m1))
  else rec0 (KScript (None, (script_of p script))) m1

(** val step_trigger :
    conf -> (call -> machine -> machine * outcome) -> machine ->
    machine * outcome **)

let step_trigger k rec0 m =
  if m.st_collecting
  then (m, ONormal)
  else if negb m.pc_alive
       then (m, ONormal)
       else if should_collect m
            then let (m0, r) = rec0 KCollect m in
                 (match r with
                  | ONormal -> ((adjust_trigger_point k m0), ONormal)
                  | _ -> (m0, r))
            else (m, ONormal)

(** val step_collect_cycles :
    conf -> (call -> machine -> machine * outcome) -> machine ->
    machine * outcome **)

let step_collect_cycles k rec0 m =
  if m.st_collecting
  then (m, ONormal)
  else let (m0, r) = if m.pc_alive then rec0 KCollect m else (m, ONormal) in
       (match r with
        | ONormal -> ((adjust_trigger_point k m0), ONormal)
        | _ -> (m0, r))

(** val step_collect :
    conf -> (call -> machine -> machine * outcome) -> machine ->
    machine * outcome **)

let step_collect k rec0 m =
  let m0 =
    set (fun m0 -> m0.st_exec) (fun f ->
      let n0 = fun r -> f r.st_exec in
      (fun x -> { heap = x.heap; pc = x.pc; pc_size = x.pc_size; pc_alive =
      x.pc_alive; st_collecting = x.st_collecting; st_finalizing =
      x.st_finalizing; st_dropping = x.st_dropping; st_alloc = x.st_alloc;
      st_exec = (n0 x); cf_thr = x.cf_thr; cf_pnum = x.cf_pnum; cf_pexp =
      x.cf_pexp; cf_buf = x.cf_buf; cf_auto = x.cf_auto; slots = x.slots;
      wslots = x.wslots; cslots = x.cslots; values = x.values; bag = x.bag;
      wparam = x.wparam; fuse_trace = x.fuse_trace; fuse_fin = x.fuse_fin;
      fuse_drop = x.fuse_drop; fuse_action = x.fuse_action; fuse_closure =
      x.fuse_closure; panicking = x.panicking; next_aid = x.next_aid; log =
      x.log; dead = x.dead })) N.succ
      (set (fun m0 -> m0.st_collecting) (fun f ->
        let b = fun r -> f r.st_collecting in
        (fun x -> { heap = x.heap; pc = x.pc; pc_size = x.pc_size; pc_alive =
        x.pc_alive; st_collecting = (b x); st_finalizing = x.st_finalizing;
        st_dropping = x.st_dropping; st_alloc = x.st_alloc; st_exec =
        x.st_exec; cf_thr = x.cf_thr; cf_pnum = x.cf_pnum; cf_pexp =
        x.cf_pexp; cf_buf = x.cf_buf; cf_auto = x.cf_auto; slots = x.slots;
        wslots = x.wslots; cslots = x.cslots; values = x.values; bag = x.bag;
        wparam = x.wparam; fuse_trace = x.fuse_trace; fuse_fin = x.fuse_fin;
        fuse_drop = x.fuse_drop; fuse_action = x.fuse_action; fuse_closure =
        x.fuse_closure; panicking = x.panicking; next_aid = x.next_aid; log =
        x.log; dead = x.dead })) (fun _ -> true) m)
  in
  let (m1, r) =
    rec0 (KCollectLoop
      (if k.k_fin then S (S (S (S (S (S (S (S (S (S O))))))))) else S O)) m0
  in
  ((set (fun m2 -> m2.st_collecting) (fun f ->
     let b = fun r0 -> f r0.st_collecting in
     (fun x -> { heap = x.heap; pc = x.pc; pc_size = x.pc_size; pc_alive =
     x.pc_alive; st_collecting = (b x); st_finalizing = x.st_finalizing;
     st_dropping = x.st_dropping; st_alloc = x.st_alloc; st_exec = x.st_exec;
     cf_thr = x.cf_thr; cf_pnum = x.cf_pnum; cf_pexp = x.cf_pexp; cf_buf =
     x.cf_buf; cf_auto = x.cf_auto; slots = x.slots; wslots = x.wslots;
     cslots = x.cslots; values = x.values; bag = x.bag; wparam = x.wparam;
     fuse_trace = x.fuse_trace; fuse_fin = x.fuse_fin; fuse_drop =
     x.fuse_drop; fuse_action = x.fuse_action; fuse_closure = x.fuse_closure;
     panicking = x.panicking; next_aid = x.next_aid; log = x.log; dead =
     x.dead })) (fun _ -> false) m1), r)

(** val step_collect_loop :
    (call -> machine -> machine * outcome) -> nat -> machine ->
    machine * outcome **)

let step_collect_loop rec0 k m =
  match k with
  | O -> (m, ONormal)
  | S k' ->
    (match m.pc with
     | [] -> (m, ONormal)
     | _ :: _ ->
       let (m0, r) = rec0 KCollectOnce m in
       (match r with
        | ONormal -> rec0 (KCollectLoop k') m0
        | _ -> (m0, r)))

(** val step_collect_once :
    conf -> prog -> (call -> machine -> machine * outcome) -> machine ->
    machine * outcome **)

let step_collect_once k p rec0 m =
  let old_f = m.st_finalizing in
  let old_d = m.st_dropping in
  let (m0, pr) =
    trace_pass k p
      (set (fun m0 -> m0.st_dropping) (fun f ->
        let b = fun r -> f r.st_dropping in
        (fun x -> { heap = x.heap; pc = x.pc; pc_size = x.pc_size; pc_alive =
        x.pc_alive; st_collecting = x.st_collecting; st_finalizing =
        x.st_finalizing; st_dropping = (b x); st_alloc = x.st_alloc;
        st_exec = x.st_exec; cf_thr = x.cf_thr; cf_pnum = x.cf_pnum;
        cf_pexp = x.cf_pexp; cf_buf = x.cf_buf; cf_auto = x.cf_auto; slots =
        x.slots; wslots = x.wslots; cslots = x.cslots; values = x.values;
        bag = x.bag; wparam = x.wparam; fuse_trace = x.fuse_trace; fuse_fin =
        x.fuse_fin; fuse_drop = x.fuse_drop; fuse_action = x.fuse_action;
        fuse_closure = x.fuse_closure; panicking = x.panicking; next_aid =
        x.next_aid; log = x.log; dead = x.dead })) (fun _ -> false)
        (set (fun m0 -> m0.st_finalizing) (fun f ->
          let b = fun r -> f r.st_finalizing in
          (fun x -> { heap = x.heap; pc = x.pc; pc_size = x.pc_size;
          pc_alive = x.pc_alive; st_collecting = x.st_collecting;
          st_finalizing = (b x); st_dropping = x.st_dropping; st_alloc =
          x.st_alloc; st_exec = x.st_exec; cf_thr = x.cf_thr; cf_pnum =
          x.cf_pnum; cf_pexp = x.cf_pexp; cf_buf = x.cf_buf; cf_auto =
          x.cf_auto; slots = x.slots; wslots = x.wslots; cslots = x.cslots;
          values = x.values; bag = x.bag; wparam = x.wparam; fuse_trace =
          x.fuse_trace; fuse_fin = x.fuse_fin; fuse_drop = x.fuse_drop;
          fuse_action = x.fuse_action; fuse_closure = x.fuse_closure;
          panicking = x.panicking; next_aid = x.next_aid; log = x.log; dead =
          x.dead })) (fun _ -> false) m))
  in
  let m1 =
    set (fun m1 -> m1.st_dropping) (fun f ->
      let b = fun r -> f r.st_dropping in
      (fun x -> { heap = x.heap; pc = x.pc; pc_size = x.pc_size; pc_alive =
      x.pc_alive; st_collecting = x.st_collecting; st_finalizing =
      x.st_finalizing; st_dropping = (b x); st_alloc = x.st_alloc; st_exec =
      x.st_exec; cf_thr = x.cf_thr; cf_pnum = x.cf_pnum; cf_pexp = x.cf_pexp;
      cf_buf = x.cf_buf; cf_auto = x.cf_auto; slots = x.slots; wslots =
      x.wslots; cslots = x.cslots; values = x.values; bag = x.bag; wparam =
      x.wparam; fuse_trace = x.fuse_trace; fuse_fin = x.fuse_fin; fuse_drop =
      x.fuse_drop; fuse_action = x.fuse_action; fuse_closure =
      x.fuse_closure; panicking = x.panicking; next_aid = x.next_aid; log =
      x.log; dead = x.dead })) (fun _ -> old_d)
      (set (fun m1 -> m1.st_finalizing) (fun f ->
        let b = fun r -> f r.st_finalizing in
        (fun x -> { heap = x.heap; pc = x.pc; pc_size = x.pc_size; pc_alive =
        x.pc_alive; st_collecting = x.st_collecting; st_finalizing = 
        (b x); st_dropping = x.st_dropping; st_alloc = x.st_alloc; st_exec =
        x.st_exec; cf_thr = x.cf_thr; cf_pnum = x.cf_pnum; cf_pexp =
        x.cf_pexp; cf_buf = x.cf_buf; cf_auto = x.cf_auto; slots = x.slots;
        wslots = x.wslots; cslots = x.cslots; values = x.values; bag = x.bag;
        wparam = x.wparam; fuse_trace = x.fuse_trace; fuse_fin = x.fuse_fin;
        fuse_drop = x.fuse_drop; fuse_action = x.fuse_action; fuse_closure =
        x.fuse_closure; panicking = x.panicking; next_aid = x.next_aid; log =
        x.log; dead = x.dead })) (fun _ -> old_f) m0)
  in
  (match pr with
   | PDone l ->
     (match l with
      | [] -> (m1, ONormal)
      | _ :: _ ->
        if k.k_fin
        then let old_f0 = m1.st_finalizing in
             rec0 (KFinalizeList (l, l, false, old_f0))
               (set (fun m2 -> m2.st_finalizing) (fun f ->
                 let b = fun r -> f r.st_finalizing in
                 (fun x -> { heap = x.heap; pc = x.pc; pc_size = x.pc_size;
                 pc_alive = x.pc_alive; st_collecting = x.st_collecting;
                 st_finalizing = (b x); st_dropping = x.st_dropping;
                 st_alloc = x.st_alloc; st_exec = x.st_exec; cf_thr =
                 x.cf_thr; cf_pnum = x.cf_pnum; cf_pexp = x.cf_pexp; cf_buf =
                 x.cf_buf; cf_auto = x.cf_auto; slots = x.slots; wslots =
                 x.wslots; cslots = x.cslots; values = x.values; bag = x.bag;
                 wparam = x.wparam; fuse_trace = x.fuse_trace; fuse_fin =
                 x.fuse_fin; fuse_drop = x.fuse_drop; fuse_action =
                 x.fuse_action; fuse_closure = x.fuse_closure; panicking =
                 x.panicking; next_aid = x.next_aid; log = x.log; dead =
                 x.dead })) (fun _ -> true) m1)
        else let old_d0 = m1.st_dropping in
             rec0 (KDropList (l, l, old_d0))
               (set (fun m2 -> m2.dead) (fun f ->
                 let l0 = fun r -> f r.dead in
                 (fun x -> { heap = x.heap; pc = x.pc; pc_size = x.pc_size;
                 pc_alive = x.pc_alive; st_collecting = x.st_collecting;
                 st_finalizing = x.st_finalizing; st_dropping =
                 x.st_dropping; st_alloc = x.st_alloc; st_exec = x.st_exec;
                 cf_thr = x.cf_thr; cf_pnum = x.cf_pnum; cf_pexp = x.cf_pexp;
                 cf_buf = x.cf_buf; cf_auto = x.cf_auto; slots = x.slots;
                 wslots = x.wslots; cslots = x.cslots; values = x.values;
                 bag = x.bag; wparam = x.wparam; fuse_trace = x.fuse_trace;
                 fuse_fin = x.fuse_fin; fuse_drop = x.fuse_drop;
                 fuse_action = x.fuse_action; fuse_closure = x.fuse_closure;
                 panicking = x.panicking; next_aid = x.next_aid; log = x.log;
                 dead = (l0 x) })) (app l)
                 (set (fun m2 -> m2.st_dropping) (fun f ->
                   let b = fun r -> f r.st_dropping in
                   (fun x -> { heap = x.heap; pc = x.pc; pc_size = x.pc_size;
                   pc_alive = x.pc_alive; st_collecting = x.st_collecting;
                   st_finalizing = x.st_finalizing; st_dropping = (b x);
                   st_alloc = x.st_alloc; st_exec = x.st_exec; cf_thr =
                   x.cf_thr; cf_pnum = x.cf_pnum; cf_pexp = x.cf_pexp;
                   cf_buf = x.cf_buf; cf_auto = x.cf_auto; slots = x.slots;
                   wslots = x.wslots; cslots = x.cslots; values = x.values;
                   bag = x.bag; wparam = x.wparam; fuse_trace = x.fuse_trace;
                   fuse_fin = x.fuse_fin; fuse_drop = x.fuse_drop;
                   fuse_action = x.fuse_action; fuse_closure =
                   x.fuse_closure; panicking = x.panicking; next_aid =
                   x.next_aid; log = x.log; dead = x.dead })) (fun _ -> true)
                   m1)))
   | PPanicked -> (m1, (raise m1))
   | PFuel -> ((emit_bad Fuel O m1), OFuel))

(** val step_finalize_list :
    conf -> prog -> (call -> machine -> machine * outcome) -> id0 list -> id0
    list -> bool -> bool -> machine -> machine * outcome **)

let step_finalize_list k p rec0 l rest any old_f m =
  match rest with
  | [] ->
    let m0 =
      set (fun m0 -> m0.st_finalizing) (fun f ->
        let b = fun r -> f r.st_finalizing in
        (fun x -> { heap = x.heap; pc = x.pc; pc_size = x.pc_size; pc_alive =
        x.pc_alive; st_collecting = x.st_collecting; st_finalizing = 
        (b x); st_dropping = x.st_dropping; st_alloc = x.st_alloc; st_exec =
        x.st_exec; cf_thr = x.cf_thr; cf_pnum = x.cf_pnum; cf_pexp =
        x.cf_pexp; cf_buf = x.cf_buf; cf_auto = x.cf_auto; slots = x.slots;
        wslots = x.wslots; cslots = x.cslots; values = x.values; bag = x.bag;
        wparam = x.wparam; fuse_trace = x.fuse_trace; fuse_fin = x.fuse_fin;
        fuse_drop = x.fuse_drop; fuse_action = x.fuse_action; fuse_closure =
        x.fuse_closure; panicking = x.panicking; next_aid = x.next_aid; log =
        x.log; dead = x.dead })) (fun _ -> old_f) m
    in
    if negb any
    then let old_d = m0.st_dropping in
         rec0 (KDropList (l, l, old_d))
           (set (fun m1 -> m1.dead) (fun f ->
             let l0 = fun r -> f r.dead in
             (fun x -> { heap = x.heap; pc = x.pc; pc_size = x.pc_size;
             pc_alive = x.pc_alive; st_collecting = x.st_collecting;
             st_finalizing = x.st_finalizing; st_dropping = x.st_dropping;
             st_alloc = x.st_alloc; st_exec = x.st_exec; cf_thr = x.cf_thr;
             cf_pnum = x.cf_pnum; cf_pexp = x.cf_pexp; cf_buf = x.cf_buf;
             cf_auto = x.cf_auto; slots = x.slots; wslots = x.wslots;
             cslots = x.cslots; values = x.values; bag = x.bag; wparam =
             x.wparam; fuse_trace = x.fuse_trace; fuse_fin = x.fuse_fin;
             fuse_drop = x.fuse_drop; fuse_action = x.fuse_action;
             fuse_closure = x.fuse_closure; panicking = x.panicking;
             next_aid = x.next_aid; log = x.log; dead = (l0 x) })) (app l)
             (set (fun m1 -> m1.st_dropping) (fun f ->
               let b = fun r -> f r.st_dropping in
               (fun x -> { heap = x.heap; pc = x.pc; pc_size = x.pc_size;
               pc_alive = x.pc_alive; st_collecting = x.st_collecting;
               st_finalizing = x.st_finalizing; st_dropping = (b x);
               st_alloc = x.st_alloc; st_exec = x.st_exec; cf_thr = x.cf_thr;
               cf_pnum = x.cf_pnum; cf_pexp = x.cf_pexp; cf_buf = x.cf_buf;
               cf_auto = x.cf_auto; slots = x.slots; wslots = x.wslots;
               cslots = x.cslots; values = x.values; bag = x.bag; wparam =
               x.wparam; fuse_trace = x.fuse_trace; fuse_fin = x.fuse_fin;
               fuse_drop = x.fuse_drop; fuse_action = x.fuse_action;
               fuse_closure = x.fuse_closure; panicking = x.panicking;
               next_aid = x.next_aid; log = x.log; dead = x.dead }))
               (fun _ -> true) m0))
    else let m1 =
           fold_left (fun m1 g ->
             uhdr g (fun h -> set_mark PC (reset_tc h)) m1) l m0
         in
         ((set (fun m2 -> m2.pc_size) (fun f ->
            let n0 = fun r -> f r.pc_size in
            (fun x -> { heap = x.heap; pc = x.pc; pc_size = (n0 x);
            pc_alive = x.pc_alive; st_collecting = x.st_collecting;
            st_finalizing = x.st_finalizing; st_dropping = x.st_dropping;
            st_alloc = x.st_alloc; st_exec = x.st_exec; cf_thr = x.cf_thr;
            cf_pnum = x.cf_pnum; cf_pexp = x.cf_pexp; cf_buf = x.cf_buf;
            cf_auto = x.cf_auto; slots = x.slots; wslots = x.wslots; cslots =
            x.cslots; values = x.values; bag = x.bag; wparam = x.wparam;
            fuse_trace = x.fuse_trace; fuse_fin = x.fuse_fin; fuse_drop =
            x.fuse_drop; fuse_action = x.fuse_action; fuse_closure =
            x.fuse_closure; panicking = x.panicking; next_aid = x.next_aid;
            log = x.log; dead = x.dead })) (fun s ->
            N.add (N.of_nat (length l)) s)
            (set (fun m2 -> m2.pc) (fun f ->
              let l0 = fun r -> f r.pc in
              (fun x -> { heap = x.heap; pc = (l0 x); pc_size = x.pc_size;
              pc_alive = x.pc_alive; st_collecting = x.st_collecting;
              st_finalizing = x.st_finalizing; st_dropping = x.st_dropping;
              st_alloc = x.st_alloc; st_exec = x.st_exec; cf_thr = x.cf_thr;
              cf_pnum = x.cf_pnum; cf_pexp = x.cf_pexp; cf_buf = x.cf_buf;
              cf_auto = x.cf_auto; slots = x.slots; wslots = x.wslots;
              cslots = x.cslots; values = x.values; bag = x.bag; wparam =
              x.wparam; fuse_trace = x.fuse_trace; fuse_fin = x.fuse_fin;
              fuse_drop = x.fuse_drop; fuse_action = x.fuse_action;
              fuse_closure = x.fuse_closure; panicking = x.panicking;
              next_aid = x.next_aid; log = x.log; dead = x.dead }))
              (fun old -> app l old) m1)), ONormal)
  | g :: rest' ->
    let h = hdr_of m g in
    if needs_fin h
    then let m0 = uhdr g (set_fin true) m in
         let (m1, r) =
           if is_map m0 g
           then (m0, ONormal)
           else let m1 = emit (ECb (KFin, g, (cur_flags k m0))) m0 in
                let (m2, boom) = tick KFin m1 in
                if boom
                then (m2, (raise m2))
                else (match get m2 g with
                      | Some x ->
                        rec0 (KScript ((Some g),
                          (oscript p (class_of p x.o_cls).c_fin))) m2
                      | None -> (m2, ONormal))
         in
         (match r with
          | ONormal -> rec0 (KFinalizeList (l, rest', true, old_f)) m1
          | _ ->
            ((unmark_all l
               (set (fun m2 -> m2.st_finalizing) (fun f ->
                 let b = fun r0 -> f r0.st_finalizing in
                 (fun x -> { heap = x.heap; pc = x.pc; pc_size = x.pc_size;
                 pc_alive = x.pc_alive; st_collecting = x.st_collecting;
                 st_finalizing = (b x); st_dropping = x.st_dropping;
                 st_alloc = x.st_alloc; st_exec = x.st_exec; cf_thr =
                 x.cf_thr; cf_pnum = x.cf_pnum; cf_pexp = x.cf_pexp; cf_buf =
                 x.cf_buf; cf_auto = x.cf_auto; slots = x.slots; wslots =
                 x.wslots; cslots = x.cslots; values = x.values; bag = x.bag;
                 wparam = x.wparam; fuse_trace = x.fuse_trace; fuse_fin =
                 x.fuse_fin; fuse_drop = x.fuse_drop; fuse_action =
                 x.fuse_action; fuse_closure = x.fuse_closure; panicking =
                 x.panicking; next_aid = x.next_aid; log = x.log; dead =
                 x.dead })) (fun _ -> old_f) m1)), r))
    else rec0 (KFinalizeList (l, rest', any, old_f)) m

(** val step_drop_list :
    conf -> (call -> machine -> machine * outcome) -> id0 list -> id0 list ->
    bool -> machine -> machine * outcome **)

let step_drop_list k rec0 l rest old_d m =
  match rest with
  | [] ->
    let m0 = fold_left (fun m0 g -> dealloc k g (drop_metadata k g m0)) l m in
    ((set (fun m1 -> m1.st_dropping) (fun f ->
       let b = fun r -> f r.st_dropping in
       (fun x -> { heap = x.heap; pc = x.pc; pc_size = x.pc_size; pc_alive =
       x.pc_alive; st_collecting = x.st_collecting; st_finalizing =
       x.st_finalizing; st_dropping = (b x); st_alloc = x.st_alloc; st_exec =
       x.st_exec; cf_thr = x.cf_thr; cf_pnum = x.cf_pnum; cf_pexp =
       x.cf_pexp; cf_buf = x.cf_buf; cf_auto = x.cf_auto; slots = x.slots;
       wslots = x.wslots; cslots = x.cslots; values = x.values; bag = x.bag;
       wparam = x.wparam; fuse_trace = x.fuse_trace; fuse_fin = x.fuse_fin;
       fuse_drop = x.fuse_drop; fuse_action = x.fuse_action; fuse_closure =
       x.fuse_closure; panicking = x.panicking; next_aid = x.next_aid; log =
       x.log; dead = x.dead })) (fun _ -> old_d) m0), ONormal)
  | g :: rest' ->
    let m0 = if is_in_list (hdr_of m g) then m else emit_bad AssertFail g m in
    let m1 = if k.k_weak then uhdr g set_dropped m0 else m0 in
    let (m2, r) = rec0 (KDropValue g) m1 in
    (match r with
     | ONormal -> rec0 (KDropList (l, rest', old_d)) m2
     | _ ->
       let m3 =
         fold_left (fun m3 g0 ->
           uhdr g0 (fun h ->
             let h0 = set_mark NM h in if k.k_weak then set_dropped h0 else h0)
             m3) l m2
       in
       ((set (fun m4 -> m4.st_dropping) (fun f ->
          let b = fun r0 -> f r0.st_dropping in
          (fun x -> { heap = x.heap; pc = x.pc; pc_size = x.pc_size;
          pc_alive = x.pc_alive; st_collecting = x.st_collecting;
          st_finalizing = x.st_finalizing; st_dropping = (b x); st_alloc =
          x.st_alloc; st_exec = x.st_exec; cf_thr = x.cf_thr; cf_pnum =
          x.cf_pnum; cf_pexp = x.cf_pexp; cf_buf = x.cf_buf; cf_auto =
          x.cf_auto; slots = x.slots; wslots = x.wslots; cslots = x.cslots;
          values = x.values; bag = x.bag; wparam = x.wparam; fuse_trace =
          x.fuse_trace; fuse_fin = x.fuse_fin; fuse_drop = x.fuse_drop;
          fuse_action = x.fuse_action; fuse_closure = x.fuse_closure;
          panicking = x.panicking; next_aid = x.next_aid; log = x.log; dead =
          x.dead })) (fun _ -> old_d) m3), r))

(** val step_unbag :
    (call -> machine -> machine * outcome) -> nat -> machine ->
    machine * outcome **)

let step_unbag rec0 k m =
  match k with
  | O -> (m, ONormal)
  | S k' ->
    (match m.bag with
     | [] -> (m, ONormal)
     | o :: b ->
       let (m0, r) =
         rec0 (KDropCc o)
           (set (fun m0 -> m0.bag) (fun f ->
             let l = fun r -> f r.bag in
             (fun x -> { heap = x.heap; pc = x.pc; pc_size = x.pc_size;
             pc_alive = x.pc_alive; st_collecting = x.st_collecting;
             st_finalizing = x.st_finalizing; st_dropping = x.st_dropping;
             st_alloc = x.st_alloc; st_exec = x.st_exec; cf_thr = x.cf_thr;
             cf_pnum = x.cf_pnum; cf_pexp = x.cf_pexp; cf_buf = x.cf_buf;
             cf_auto = x.cf_auto; slots = x.slots; wslots = x.wslots;
             cslots = x.cslots; values = x.values; bag = (l x); wparam =
             x.wparam; fuse_trace = x.fuse_trace; fuse_fin = x.fuse_fin;
             fuse_drop = x.fuse_drop; fuse_action = x.fuse_action;
             fuse_closure = x.fuse_closure; panicking = x.panicking;
             next_aid = x.next_aid; log = x.log; dead = x.dead })) (fun _ ->
             b) m)
       in
       (match r with
        | ONormal -> rec0 (KUnbag k') m0
        | _ -> (m0, r)))

(** val cmd_new :
    conf -> prog -> (call -> machine -> machine * outcome) -> id0 option ->
    loc -> nat -> machine -> machine * outcome **)

let cmd_new k p rec0 self dst cls0 m =
  let (m0, r) = resolve self dst m in
  (match r with
   | Some r0 ->
     let (m1, o) = new_node p cls0 m0 in
     let (m2, t0) = if k.k_auto then rec0 KTrigger m1 else (m1, ONormal) in
     (match t0 with
      | ONormal ->
        let m3 = box_alloc k o m2 in
        let (m4, r') = rec0 (KStore (r0, o)) m3 in
        (match r' with
         | ONormal -> ok m4 ROk
         | _ -> (m4, r'))
      | OPanic -> unwinding (rec0 (KDropValue o)) m2
      | _ -> (m2, t0))
   | None -> ok m0 RSkip)

(** val cmd_clone :
    (call -> machine -> machine * outcome) -> id0 option -> loc -> loc ->
    machine -> machine * outcome **)

let cmd_clone rec0 self src dst m =
  let (m0, rs) = resolve self src m in
  let (m1, rd) = resolve self dst m0 in
  (match rs with
   | Some rs0 ->
     (match rd with
      | Some rd0 ->
        (match read_loc rs0 m1 with
         | Some o ->
           (match inc_rc (hdr_of m1 o) with
            | Some h ->
              let m2 = remove_from_list o (uhdr o (fun _ -> h) m1) in
              let (m3, r') = rec0 (KStore (rd0, o)) m2 in
              (match r' with
               | ONormal -> ok m3 ROk
               | _ -> (m3, r'))
            | None -> (m1, (raise m1)))
         | None -> ok m1 RSkip)
      | None -> ok m1 RSkip)
   | None -> ok m1 RSkip)

(** val cmd_drop :
    (call -> machine -> machine * outcome) -> id0 option -> loc -> machine ->
    machine * outcome **)

let cmd_drop rec0 self l m =
  let (m0, r) = resolve self l m in
  (match r with
   | Some r0 ->
     (match read_loc r0 m0 with
      | Some o ->
        let (m1, r') = rec0 (KDropCc o) (write_loc r0 None m0) in
        (match r' with
         | ONormal -> ok m1 ROk
         | _ -> (m1, r'))
      | None -> ok m0 RSkip)
   | None -> ok m0 RSkip)

(** val cmd_move :
    (call -> machine -> machine * outcome) -> id0 option -> loc -> loc ->
    machine -> machine * outcome **)

let cmd_move rec0 self src dst m =
  let (m0, rs) = resolve self src m in
  let (m1, rd) = resolve self dst m0 in
  (match rs with
   | Some rs0 ->
     (match rd with
      | Some rd0 ->
        (match read_loc rs0 m1 with
         | Some o ->
           let (m2, r') = rec0 (KStore (rd0, o)) (write_loc rs0 None m1) in
           (match r' with
            | ONormal -> ok m2 ROk
            | _ -> (m2, r'))
         | None -> ok m1 RSkip)
      | None -> ok m1 RSkip)
   | None -> ok m1 RSkip)

(** val cmd_mark_alive : id0 option -> loc -> machine -> machine * outcome **)

let cmd_mark_alive self l m =
  let (m0, r) = resolve self l m in
  (match mbind (Obj.magic (fun _ _ -> option_bind)) (fun r0 ->
           Obj.magic read_loc r0 m0) r with
   | Some o -> ok (remove_from_list (Obj.magic o) m0) ROk
   | None -> ok m0 RSkip)

(** val cmd_collect :
    (call -> machine -> machine * outcome) -> id0 option -> machine ->
    machine * outcome **)

let cmd_collect rec0 _ m =
  let (m0, r) = rec0 KCollectCycles m in
  (match r with
   | ONormal -> ok m0 ROk
   | _ -> (m0, r))

(** val cmd_downgrade :
    conf -> id0 option -> loc -> wloc -> machine -> machine * outcome **)

let cmd_downgrade k self l w m =
  if negb k.k_weak
  then ok m RSkip
  else let (m0, r) = resolve self l m in
       let (m1, rw) = wresolve self w m0 in
       (match mbind (Obj.magic (fun _ _ -> option_bind)) (fun r0 ->
                Obj.magic read_loc r0 m1) r with
        | Some o ->
          (match rw with
           | Some rw0 ->
             if negb (wloc_writable rw0)
             then ok m1 RSkip
             else let m2 = init_side (Obj.magic o) m1 in
                  (match mbind (Obj.magic (fun _ _ -> option_bind)) inc_wk
                           (side_wk m2 (Obj.magic o)) with
                   | Some k0 ->
                     let m3 =
                       remove_from_list (Obj.magic o)
                         (uside (Obj.magic o) (fun _ -> k0) m2)
                     in
                     let old = read_wloc rw0 m3 in
                     let m4 = write_wloc rw0 (Some (WTo (Obj.magic o))) m3 in
                     ok (weak_drop_opt old m4) ROk
                   | None -> (m2, (raise m2)))
           | None -> ok m1 RSkip)
        | None -> ok m1 RSkip)

(** val cmd_upgrade :
    conf -> (call -> machine -> machine * outcome) -> id0 option -> wloc ->
    loc -> machine -> machine * outcome **)

let cmd_upgrade k rec0 self w dst m =
  if negb k.k_weak
  then ok m RSkip
  else let (m0, rw) = wresolve self w m in
       let (m1, rd) = resolve self dst m0 in
       (match mbind (Obj.magic (fun _ _ -> option_bind)) (fun rw0 ->
                Obj.magic read_wloc rw0 m1) rw with
        | Some wr ->
          (match rd with
           | Some rd0 ->
             let (m2, sc) = weak_strong_count (Obj.magic wr) m1 in
             if N.eqb sc N0
             then ok m2 RNone
             else (match Obj.magic wr with
                   | WNull -> ok m2 RNone
                   | WTo o ->
                     (match inc_rc (hdr_of m2 o) with
                      | Some h ->
                        let m3 = remove_from_list o (uhdr o (fun _ -> h) m2)
                        in
                        let (m4, r') = rec0 (KStore (rd0, o)) m3 in
                        (match r' with
                         | ONormal -> ok m4 (RSome o)
                         | _ -> (m4, r'))
                      | None -> (m2, (raise m2))))
           | None -> ok m1 RSkip)
        | None -> ok m1 RSkip)

(** val cmd_w_new :
    conf -> id0 option -> wloc -> machine -> machine * outcome **)

let cmd_w_new k self w m =
  if negb k.k_weak
  then ok m RSkip
  else let (m0, rw) = wresolve self w m in
       (match rw with
        | Some rw0 ->
          if negb (wloc_writable rw0)
          then ok m0 RSkip
          else let old = read_wloc rw0 m0 in
               ok (weak_drop_opt old (write_wloc rw0 (Some WNull) m0)) ROk
        | None -> ok m0 RSkip)

(** val cmd_w_clone :
    conf -> id0 option -> wloc -> wloc -> machine -> machine * outcome **)

let cmd_w_clone k self src dst m =
  if negb k.k_weak
  then ok m RSkip
  else let (m0, rs) = wresolve self src m in
       let (m1, rd) = wresolve self dst m0 in
       (match mbind (Obj.magic (fun _ _ -> option_bind)) (fun rs0 ->
                Obj.magic read_wloc rs0 m1) rs with
        | Some wr ->
          (match rd with
           | Some rd0 ->
             if negb (wloc_writable rd0)
             then ok m1 RSkip
             else (match weak_clone (Obj.magic wr) m1 with
                   | Some m2 ->
                     let old = read_wloc rd0 m2 in
                     ok
                       (weak_drop_opt old
                         (write_wloc rd0 (Some (Obj.magic wr)) m2)) ROk
                   | None -> (m1, (raise m1)))
           | None -> ok m1 RSkip)
        | None -> ok m1 RSkip)

(** val cmd_w_drop :
    conf -> id0 option -> wloc -> machine -> machine * outcome **)

let cmd_w_drop k self w m =
  if negb k.k_weak
  then ok m RSkip
  else let (m0, rw) = wresolve self w m in
       (match rw with
        | Some rw0 ->
          if negb (wloc_writable rw0)
          then ok m0 RSkip
          else (match read_wloc rw0 m0 with
                | Some wr -> ok (weak_drop wr (write_wloc rw0 None m0)) ROk
                | None -> ok m0 RSkip)
        | None -> ok m0 RSkip)

(** val cmd_try_unwrap :
    conf -> id0 option -> loc -> nat -> machine -> machine * outcome **)

let cmd_try_unwrap k self l v m =
  let (m0, r) = resolve self l m in
  (match r with
   | Some r0 ->
     (match lookup0 list_lookup v m0.values with
      | Some y ->
        (match y with
         | Some _ -> ok m0 RSkip
         | None ->
           (match read_loc r0 m0 with
            | Some o ->
              let h = hdr_of m0 o in
              if negb (N.eqb h.h_rc (Npos XH))
              then ok m0 RUnwrapErr
              else if (||) ((||) m0.st_collecting m0.st_dropping)
                        ((&&) k.k_fin m0.st_finalizing)
                   then ok m0 RUnwrapErr
                   else let m1 = write_loc r0 None m0 in
                        let m2 = remove_from_list o m1 in
                        let m3 =
                          upd o (fun x ->
                            set (fun o0 -> o0.o_vst) (fun f ->
                              let v0 = fun r1 -> f r1.o_vst in
                              (fun x0 -> { o_hdr = x0.o_hdr; o_vst = 
                              (v0 x0); o_box = x0.o_box; o_side = x0.o_side;
                              o_cls = x0.o_cls; o_ismap = x0.o_ismap;
                              o_fields = x0.o_fields; o_wfields =
                              x0.o_wfields; o_cleaner = x0.o_cleaner;
                              o_borrowed = x0.o_borrowed; o_mslots =
                              x0.o_mslots; o_mfree = x0.o_mfree;
                              o_mborrowed = x0.o_mborrowed })) (fun _ ->
                              VMoved) x) m2
                        in
                        let m4 =
                          set (fun m4 -> m4.values) (fun f ->
                            let l0 = fun r1 -> f r1.values in
                            (fun x -> { heap = x.heap; pc = x.pc; pc_size =
                            x.pc_size; pc_alive = x.pc_alive; st_collecting =
                            x.st_collecting; st_finalizing = x.st_finalizing;
                            st_dropping = x.st_dropping; st_alloc =
                            x.st_alloc; st_exec = x.st_exec; cf_thr =
                            x.cf_thr; cf_pnum = x.cf_pnum; cf_pexp =
                            x.cf_pexp; cf_buf = x.cf_buf; cf_auto =
                            x.cf_auto; slots = x.slots; wslots = x.wslots;
                            cslots = x.cslots; values = (l0 x); bag = x.bag;
                            wparam = x.wparam; fuse_trace = x.fuse_trace;
                            fuse_fin = x.fuse_fin; fuse_drop = x.fuse_drop;
                            fuse_action = x.fuse_action; fuse_closure =
                            x.fuse_closure; panicking = x.panicking;
                            next_aid = x.next_aid; log = x.log; dead =
                            x.dead })) (insert0 list_insert v (Some o)) m3
                        in
                        let m5 = drop_metadata k o m4 in
                        let m6 = dealloc k o m5 in ok m6 RUnwrapOk
            | None -> ok m0 RSkip))
      | None -> ok m0 RSkip)
   | None -> ok m0 RSkip)

(** val cmd_drop_value :
    (call -> machine -> machine * outcome) -> id0 option -> nat -> machine ->
    machine * outcome **)

let cmd_drop_value rec0 _ v m =
  match mjoin (Obj.magic (fun _ -> option_join))
          (lookup0 list_lookup v m.values) with
  | Some o ->
    let m0 =
      set (fun m0 -> m0.values) (fun f ->
        let l = fun r -> f r.values in
        (fun x -> { heap = x.heap; pc = x.pc; pc_size = x.pc_size; pc_alive =
        x.pc_alive; st_collecting = x.st_collecting; st_finalizing =
        x.st_finalizing; st_dropping = x.st_dropping; st_alloc = x.st_alloc;
        st_exec = x.st_exec; cf_thr = x.cf_thr; cf_pnum = x.cf_pnum;
        cf_pexp = x.cf_pexp; cf_buf = x.cf_buf; cf_auto = x.cf_auto; slots =
        x.slots; wslots = x.wslots; cslots = x.cslots; values = (l x); bag =
        x.bag; wparam = x.wparam; fuse_trace = x.fuse_trace; fuse_fin =
        x.fuse_fin; fuse_drop = x.fuse_drop; fuse_action = x.fuse_action;
        fuse_closure = x.fuse_closure; panicking = x.panicking; next_aid =
        x.next_aid; log = x.log; dead = x.dead }))
        (insert0 list_insert v None) m
    in
    let (m1, r) = rec0 (KDropValue (Obj.magic o)) m0 in
    (match r with
     | ONormal -> ok m1 ROk
     | _ -> (m1, r))
  | None -> ok m RSkip

(** val cmd_fin_again :
    conf -> id0 option -> loc -> machine -> machine * outcome **)

let cmd_fin_again k self l m =
  if negb k.k_fin
  then ok m RSkip
  else let (m0, r) = resolve self l m in
       (match mbind (Obj.magic (fun _ _ -> option_bind)) (fun r0 ->
                Obj.magic read_loc r0 m0) r with
        | Some o ->
          if (||) ((||) m0.st_collecting m0.st_finalizing) m0.st_dropping
          then (m0, (raise m0))
          else ok (uhdr (Obj.magic o) (set_fin false) m0) ROk
        | None -> ok m0 RSkip)

(** val cmd_new_cyclic :
    conf -> prog -> (call -> machine -> machine * outcome) -> id0 option ->
    loc -> nat -> nat -> bool -> machine -> machine * outcome **)

let cmd_new_cyclic k p rec0 self dst cls0 script selfweak m =
  if negb k.k_weak
  then ok m RSkip
  else let (m0, r) = resolve self dst m in
       (match r with
        | Some r0 ->
          let (m1, o) = new_node p cls0 m0 in
          let m2 =
            upd o (fun x ->
              set (fun o0 -> o0.o_vst) (fun f ->
                let v = fun r1 -> f r1.o_vst in
                (fun x0 -> { o_hdr = x0.o_hdr; o_vst = (v x0); o_box =
                x0.o_box; o_side = x0.o_side; o_cls = x0.o_cls; o_ismap =
                x0.o_ismap; o_fields = x0.o_fields; o_wfields = x0.o_wfields;
                o_cleaner = x0.o_cleaner; o_borrowed = x0.o_borrowed;
                o_mslots = x0.o_mslots; o_mfree = x0.o_mfree; o_mborrowed =
                x0.o_mborrowed })) (fun _ -> VUninit) x) m1
          in
          let (m3, t0) = if k.k_auto then rec0 KTrigger m2 else (m2, ONormal)
          in
          (match t0 with
           | ONormal ->
             let m4 = box_alloc k o m3 in
             let m5 = init_side o m4 in
             let m6 =
               uside o (fun k0 -> from_option (Obj.magic id) k0 (inc_wk k0))
                 m5
             in
             let m7 = dec_rc_m o m6 in
             let m8 =
               set (fun m8 -> m8.wparam) (fun f ->
                 let l = fun r1 -> f r1.wparam in
                 (fun x -> { heap = x.heap; pc = x.pc; pc_size = x.pc_size;
                 pc_alive = x.pc_alive; st_collecting = x.st_collecting;
                 st_finalizing = x.st_finalizing; st_dropping =
                 x.st_dropping; st_alloc = x.st_alloc; st_exec = x.st_exec;
                 cf_thr = x.cf_thr; cf_pnum = x.cf_pnum; cf_pexp = x.cf_pexp;
                 cf_buf = x.cf_buf; cf_auto = x.cf_auto; slots = x.slots;
                 wslots = x.wslots; cslots = x.cslots; values = x.values;
                 bag = x.bag; wparam = (l x); fuse_trace = x.fuse_trace;
                 fuse_fin = x.fuse_fin; fuse_drop = x.fuse_drop;
                 fuse_action = x.fuse_action; fuse_closure = x.fuse_closure;
                 panicking = x.panicking; next_aid = x.next_aid; log = x.log;
                 dead = x.dead })) (fun x -> (WTo o) :: x) m7
             in
             let m9 = emit (ECb (KClosure, o, (cur_flags k m8))) m8 in
             let (m10, boom) = tick KClosure m9 in
             let (m11, r') =
               if boom
               then (m10, (raise m10))
               else rec0 (KScript (None, (script_of p script))) m10
             in
             (match r' with
              | ONormal ->
                if (&&) selfweak
                     (bool_decide
                       (decide_rel Coq0_Nat.lt_dec O (class_of p cls0).c_nw))
                then (match weak_clone (WTo o) m11 with
                      | Some m12 ->
                        let m13 =
                          upd o (fun x ->
                            set (fun o0 -> o0.o_wfields) (fun f ->
                              let l = fun r1 -> f r1.o_wfields in
                              (fun x0 -> { o_hdr = x0.o_hdr; o_vst =
                              x0.o_vst; o_box = x0.o_box; o_side = x0.o_side;
                              o_cls = x0.o_cls; o_ismap = x0.o_ismap;
                              o_fields = x0.o_fields; o_wfields = (l x0);
                              o_cleaner = x0.o_cleaner; o_borrowed =
                              x0.o_borrowed; o_mslots = x0.o_mslots;
                              o_mfree = x0.o_mfree; o_mborrowed =
                              x0.o_mborrowed }))
                              (insert0 list_insert O (Some (WTo o))) x) m12
                        in
                        let r'' = ONormal in
                        (match r'' with
                         | ONormal ->
                           let m14 =
                             upd o (fun x ->
                               set (fun o0 -> o0.o_vst) (fun f ->
                                 let v = fun r1 -> f r1.o_vst in
                                 (fun x0 -> { o_hdr = x0.o_hdr; o_vst =
                                 (v x0); o_box = x0.o_box; o_side =
                                 x0.o_side; o_cls = x0.o_cls; o_ismap =
                                 x0.o_ismap; o_fields = x0.o_fields;
                                 o_wfields = x0.o_wfields; o_cleaner =
                                 x0.o_cleaner; o_borrowed = x0.o_borrowed;
                                 o_mslots = x0.o_mslots; o_mfree =
                                 x0.o_mfree; o_mborrowed = x0.o_mborrowed }))
                                 (fun _ -> VLive) x) m13
                           in
                           let m15 =
                             uhdr o (fun h ->
                               from_option (Obj.magic id) h (inc_rc h)) m14
                           in
                           let m16 =
                             set (fun m16 -> m16.wparam) (fun f ->
                               let l = fun r1 -> f r1.wparam in
                               (fun x -> { heap = x.heap; pc = x.pc;
                               pc_size = x.pc_size; pc_alive = x.pc_alive;
                               st_collecting = x.st_collecting;
                               st_finalizing = x.st_finalizing; st_dropping =
                               x.st_dropping; st_alloc = x.st_alloc;
                               st_exec = x.st_exec; cf_thr = x.cf_thr;
                               cf_pnum = x.cf_pnum; cf_pexp = x.cf_pexp;
                               cf_buf = x.cf_buf; cf_auto = x.cf_auto;
                               slots = x.slots; wslots = x.wslots; cslots =
                               x.cslots; values = x.values; bag = x.bag;
                               wparam = (l x); fuse_trace = x.fuse_trace;
                               fuse_fin = x.fuse_fin; fuse_drop =
                               x.fuse_drop; fuse_action = x.fuse_action;
                               fuse_closure = x.fuse_closure; panicking =
                               x.panicking; next_aid = x.next_aid; log =
                               x.log; dead = x.dead })) tl m15
                           in
                           let m17 = weak_drop (WTo o) m16 in
                           let (m18, r3) = rec0 (KStore (r0, o)) m17 in
                           (match r3 with
                            | ONormal -> ok m18 ROk
                            | _ -> (m18, r3))
                         | _ ->
                           let m14 = dealloc k o (drop_metadata k o m13) in
                           let m15 =
                             set (fun m15 -> m15.wparam) (fun f ->
                               let l = fun r1 -> f r1.wparam in
                               (fun x -> { heap = x.heap; pc = x.pc;
                               pc_size = x.pc_size; pc_alive = x.pc_alive;
                               st_collecting = x.st_collecting;
                               st_finalizing = x.st_finalizing; st_dropping =
                               x.st_dropping; st_alloc = x.st_alloc;
                               st_exec = x.st_exec; cf_thr = x.cf_thr;
                               cf_pnum = x.cf_pnum; cf_pexp = x.cf_pexp;
                               cf_buf = x.cf_buf; cf_auto = x.cf_auto;
                               slots = x.slots; wslots = x.wslots; cslots =
                               x.cslots; values = x.values; bag = x.bag;
                               wparam = (l x); fuse_trace = x.fuse_trace;
                               fuse_fin = x.fuse_fin; fuse_drop =
                               x.fuse_drop; fuse_action = x.fuse_action;
                               fuse_closure = x.fuse_closure; panicking =
                               x.panicking; next_aid = x.next_aid; log =
                               x.log; dead = x.dead })) tl m14
                           in
                           ((weak_drop (WTo o) m15), r''))
                      | None ->
                        let r'' = raise m11 in
                        (match r'' with
                         | ONormal ->
                           let m12 =
                             upd o (fun x ->
                               set (fun o0 -> o0.o_vst) (fun f ->
                                 let v = fun r1 -> f r1.o_vst in
                                 (fun x0 -> { o_hdr = x0.o_hdr; o_vst =
                                 (v x0); o_box = x0.o_box; o_side =
                                 x0.o_side; o_cls = x0.o_cls; o_ismap =
                                 x0.o_ismap; o_fields = x0.o_fields;
                                 o_wfields = x0.o_wfields; o_cleaner =
                                 x0.o_cleaner; o_borrowed = x0.o_borrowed;
                                 o_mslots = x0.o_mslots; o_mfree =
                                 x0.o_mfree; o_mborrowed = x0.o_mborrowed }))
                                 (fun _ -> VLive) x) m11
                           in
                           let m13 =
                             uhdr o (fun h ->
                               from_option (Obj.magic id) h (inc_rc h)) m12
                           in
                           let m14 =
                             set (fun m14 -> m14.wparam) (fun f ->
                               let l = fun r1 -> f r1.wparam in
                               (fun x -> { heap = x.heap; pc = x.pc;
                               pc_size = x.pc_size; pc_alive = x.pc_alive;
                               st_collecting = x.st_collecting;
                               st_finalizing = x.st_finalizing; st_dropping =
                               x.st_dropping; st_alloc = x.st_alloc;
                               st_exec = x.st_exec; cf_thr = x.cf_thr;
                               cf_pnum = x.cf_pnum; cf_pexp = x.cf_pexp;
                               cf_buf = x.cf_buf; cf_auto = x.cf_auto;
                               slots = x.slots; wslots = x.wslots; cslots =
                               x.cslots; values = x.values; bag = x.bag;
                               wparam = (l x); fuse_trace = x.fuse_trace;
                               fuse_fin = x.fuse_fin; fuse_drop =
                               x.fuse_drop; fuse_action = x.fuse_action;
                               fuse_closure = x.fuse_closure; panicking =
                               x.panicking; next_aid = x.next_aid; log =
                               x.log; dead = x.dead })) tl m13
                           in
                           let m15 = weak_drop (WTo o) m14 in
                           let (m16, r3) = rec0 (KStore (r0, o)) m15 in
                           (match r3 with
                            | ONormal -> ok m16 ROk
                            | _ -> (m16, r3))
                         | _ ->
                           let m12 = dealloc k o (drop_metadata k o m11) in
                           let m13 =
                             set (fun m13 -> m13.wparam) (fun f ->
                               let l = fun r1 -> f r1.wparam in
                               (fun x -> { heap = x.heap; pc = x.pc;
                               pc_size = x.pc_size; pc_alive = x.pc_alive;
                               st_collecting = x.st_collecting;
                               st_finalizing = x.st_finalizing; st_dropping =
                               x.st_dropping; st_alloc = x.st_alloc;
                               st_exec = x.st_exec; cf_thr = x.cf_thr;
                               cf_pnum = x.cf_pnum; cf_pexp = x.cf_pexp;
                               cf_buf = x.cf_buf; cf_auto = x.cf_auto;
                               slots = x.slots; wslots = x.wslots; cslots =
                               x.cslots; values = x.values; bag = x.bag;
                               wparam = (l x); fuse_trace = x.fuse_trace;
                               fuse_fin = x.fuse_fin; fuse_drop =
                               x.fuse_drop; fuse_action = x.fuse_action;
                               fuse_closure = x.fuse_closure; panicking =
                               x.panicking; next_aid = x.next_aid; log =
                               x.log; dead = x.dead })) tl m12
                           in
                           ((weak_drop (WTo o) m13), r'')))
                else let r'' = ONormal in
                     (match r'' with
                      | ONormal ->
                        let m12 =
                          upd o (fun x ->
                            set (fun o0 -> o0.o_vst) (fun f ->
                              let v = fun r1 -> f r1.o_vst in
                              (fun x0 -> { o_hdr = x0.o_hdr; o_vst = 
                              (v x0); o_box = x0.o_box; o_side = x0.o_side;
                              o_cls = x0.o_cls; o_ismap = x0.o_ismap;
                              o_fields = x0.o_fields; o_wfields =
                              x0.o_wfields; o_cleaner = x0.o_cleaner;
                              o_borrowed = x0.o_borrowed; o_mslots =
                              x0.o_mslots; o_mfree = x0.o_mfree;
                              o_mborrowed = x0.o_mborrowed })) (fun _ ->
                              VLive) x) m11
                        in
                        let m13 =
                          uhdr o (fun h ->
                            from_option (Obj.magic id) h (inc_rc h)) m12
                        in
                        let m14 =
                          set (fun m14 -> m14.wparam) (fun f ->
                            let l = fun r1 -> f r1.wparam in
                            (fun x -> { heap = x.heap; pc = x.pc; pc_size =
                            x.pc_size; pc_alive = x.pc_alive; st_collecting =
                            x.st_collecting; st_finalizing = x.st_finalizing;
                            st_dropping = x.st_dropping; st_alloc =
                            x.st_alloc; st_exec = x.st_exec; cf_thr =
                            x.cf_thr; cf_pnum = x.cf_pnum; cf_pexp =
                            x.cf_pexp; cf_buf = x.cf_buf; cf_auto =
                            x.cf_auto; slots = x.slots; wslots = x.wslots;
                            cslots = x.cslots; values = x.values; bag =
                            x.bag; wparam = (l x); fuse_trace = x.fuse_trace;
                            fuse_fin = x.fuse_fin; fuse_drop = x.fuse_drop;
                            fuse_action = x.fuse_action; fuse_closure =
                            x.fuse_closure; panicking = x.panicking;
                            next_aid = x.next_aid; log = x.log; dead =
                            x.dead })) tl m13
                        in
                        let m15 = weak_drop (WTo o) m14 in
                        let (m16, r3) = rec0 (KStore (r0, o)) m15 in
                        (match r3 with
                         | ONormal -> ok m16 ROk
                         | _ -> (m16, r3))
                      | _ ->
                        let m12 = dealloc k o (drop_metadata k o m11) in
                        let m13 =
                          set (fun m13 -> m13.wparam) (fun f ->
                            let l = fun r1 -> f r1.wparam in
                            (fun x -> { heap = x.heap; pc = x.pc; pc_size =
                            x.pc_size; pc_alive = x.pc_alive; st_collecting =
                            x.st_collecting; st_finalizing = x.st_finalizing;
                            st_dropping = x.st_dropping; st_alloc =
                            x.st_alloc; st_exec = x.st_exec; cf_thr =
                            x.cf_thr; cf_pnum = x.cf_pnum; cf_pexp =
                            x.cf_pexp; cf_buf = x.cf_buf; cf_auto =
                            x.cf_auto; slots = x.slots; wslots = x.wslots;
                            cslots = x.cslots; values = x.values; bag =
                            x.bag; wparam = (l x); fuse_trace = x.fuse_trace;
                            fuse_fin = x.fuse_fin; fuse_drop = x.fuse_drop;
                            fuse_action = x.fuse_action; fuse_closure =
                            x.fuse_closure; panicking = x.panicking;
                            next_aid = x.next_aid; log = x.log; dead =
                            x.dead })) tl m12
                        in
                        ((weak_drop (WTo o) m13), r''))
              | OFuel -> (m11, OFuel)
              | _ ->
                let m12 = dealloc k o (drop_metadata k o m11) in
                let m13 =
                  set (fun m13 -> m13.wparam) (fun f ->
                    let l = fun r1 -> f r1.wparam in
                    (fun x -> { heap = x.heap; pc = x.pc; pc_size =
                    x.pc_size; pc_alive = x.pc_alive; st_collecting =
                    x.st_collecting; st_finalizing = x.st_finalizing;
                    st_dropping = x.st_dropping; st_alloc = x.st_alloc;
                    st_exec = x.st_exec; cf_thr = x.cf_thr; cf_pnum =
                    x.cf_pnum; cf_pexp = x.cf_pexp; cf_buf = x.cf_buf;
                    cf_auto = x.cf_auto; slots = x.slots; wslots = x.wslots;
                    cslots = x.cslots; values = x.values; bag = x.bag;
                    wparam = (l x); fuse_trace = x.fuse_trace; fuse_fin =
                    x.fuse_fin; fuse_drop = x.fuse_drop; fuse_action =
                    x.fuse_action; fuse_closure = x.fuse_closure; panicking =
                    x.panicking; next_aid = x.next_aid; log = x.log; dead =
                    x.dead })) tl m12
                in
                ((weak_drop (WTo o) m13), r'))
           | _ -> (m3, t0))
        | None -> ok m0 RSkip)

(** val cmd_register :
    conf -> prog -> (call -> machine -> machine * outcome) -> id0 option ->
    nodeloc -> nat -> nat -> machine -> machine * outcome **)

let cmd_register k p rec0 self nd script c m =
  if negb k.k_clean
  then ok m RSkip
  else let (m0, no) = nresolve self nd m in
       (match no with
        | Some o ->
          (match lookup0 list_lookup c m0.cslots with
           | Some _ ->
             (match get m0 o with
              | Some x ->
                if (||) (negb (class_of p x.o_cls).c_cleaner) x.o_ismap
                then ok m0 RSkip
                else let (p0, r) =
                       match x.o_cleaner with
                       | Some mo -> ((m0, mo), ONormal)
                       | None ->
                         let (m1, mo) = new_map m0 in
                         let (m2, t0) =
                           if k.k_auto
                           then rec0 KTrigger m1
                           else (m1, ONormal)
                         in
                         (match t0 with
                          | ONormal ->
                            let m3 = box_alloc k mo m2 in
                            (match mbind (Obj.magic (fun _ _ -> option_bind))
                                     (Obj.magic (fun o0 -> o0.o_cleaner))
                                     (get m3 o) with
                             | Some existing ->
                               let (m4, r) = rec0 (KDropCc mo) m3 in
                               ((m4, (Obj.magic existing)), r)
                             | None ->
                               (((upd o (fun x0 ->
                                   set (fun o0 -> o0.o_cleaner) (fun f ->
                                     let o0 = fun r -> f r.o_cleaner in
                                     (fun x1 -> { o_hdr = x1.o_hdr; o_vst =
                                     x1.o_vst; o_box = x1.o_box; o_side =
                                     x1.o_side; o_cls = x1.o_cls; o_ismap =
                                     x1.o_ismap; o_fields = x1.o_fields;
                                     o_wfields = x1.o_wfields; o_cleaner =
                                     (o0 x1); o_borrowed = x1.o_borrowed;
                                     o_mslots = x1.o_mslots; o_mfree =
                                     x1.o_mfree; o_mborrowed =
                                     x1.o_mborrowed })) (fun _ -> Some mo) x0)
                                   m3), mo), ONormal))
                          | OPanic ->
                            let (m3, r) = unwinding (rec0 (KDropValue mo)) m2
                            in
                            ((m3, mo), r)
                          | _ -> ((m2, mo), t0))
                     in
                     let (m1, mo) = p0 in
                     (match r with
                      | ONormal ->
                        (match get m1 mo with
                         | Some mx ->
                           if mx.o_mborrowed
                           then (m1, (raise m1))
                           else let aid = m1.next_aid in
                                let m2 =
                                  set (fun m2 -> m2.next_aid) (fun f ->
                                    let n0 = fun r0 -> f r0.next_aid in
                                    (fun x0 -> { heap = x0.heap; pc = x0.pc;
                                    pc_size = x0.pc_size; pc_alive =
                                    x0.pc_alive; st_collecting =
                                    x0.st_collecting; st_finalizing =
                                    x0.st_finalizing; st_dropping =
                                    x0.st_dropping; st_alloc = x0.st_alloc;
                                    st_exec = x0.st_exec; cf_thr = x0.cf_thr;
                                    cf_pnum = x0.cf_pnum; cf_pexp =
                                    x0.cf_pexp; cf_buf = x0.cf_buf; cf_auto =
                                    x0.cf_auto; slots = x0.slots; wslots =
                                    x0.wslots; cslots = x0.cslots; values =
                                    x0.values; bag = x0.bag; wparam =
                                    x0.wparam; fuse_trace = x0.fuse_trace;
                                    fuse_fin = x0.fuse_fin; fuse_drop =
                                    x0.fuse_drop; fuse_action =
                                    x0.fuse_action; fuse_closure =
                                    x0.fuse_closure; panicking =
                                    x0.panicking; next_aid = (n0 x0); log =
                                    x0.log; dead = x0.dead })) (fun _ -> S
                                    aid) m1
                                in
                                let (m3, slot) = map_insert mo aid script m2
                                in
                                let m4 = init_side mo m3 in
                                (match mbind
                                         (Obj.magic (fun _ _ -> option_bind))
                                         inc_wk (side_wk m4 mo) with
                                 | Some k0 ->
                                   let m5 =
                                     remove_from_list mo
                                       (uside mo (fun _ -> k0) m4)
                                   in
                                   let old =
                                     mjoin (Obj.magic (fun _ -> option_join))
                                       (lookup0 list_lookup c m5.cslots)
                                   in
                                   let m6 =
                                     set (fun m6 -> m6.cslots) (fun f ->
                                       let l = fun r0 -> f r0.cslots in
                                       (fun x0 -> { heap = x0.heap; pc =
                                       x0.pc; pc_size = x0.pc_size;
                                       pc_alive = x0.pc_alive;
                                       st_collecting = x0.st_collecting;
                                       st_finalizing = x0.st_finalizing;
                                       st_dropping = x0.st_dropping;
                                       st_alloc = x0.st_alloc; st_exec =
                                       x0.st_exec; cf_thr = x0.cf_thr;
                                       cf_pnum = x0.cf_pnum; cf_pexp =
                                       x0.cf_pexp; cf_buf = x0.cf_buf;
                                       cf_auto = x0.cf_auto; slots =
                                       x0.slots; wslots = x0.wslots; cslots =
                                       (l x0); values = x0.values; bag =
                                       x0.bag; wparam = x0.wparam;
                                       fuse_trace = x0.fuse_trace; fuse_fin =
                                       x0.fuse_fin; fuse_drop = x0.fuse_drop;
                                       fuse_action = x0.fuse_action;
                                       fuse_closure = x0.fuse_closure;
                                       panicking = x0.panicking; next_aid =
                                       x0.next_aid; log = x0.log; dead =
                                       x0.dead }))
                                       (insert0 list_insert c (Some
                                         { cr_map = mo; cr_slot = slot;
                                         cr_aid = aid })) m5
                                   in
                                   let m7 =
                                     match old with
                                     | Some cr ->
                                       weak_drop (WTo (Obj.magic cr).cr_map)
                                         m6
                                     | None -> m6
                                   in
                                   ok m7 ROk
                                 | None -> (m4, (raise m4)))
                         | None -> ((emit_bad BadState mo m1), ONormal))
                      | _ -> (m1, r))
              | None -> ok m0 RSkip)
           | None -> ok m0 RSkip)
        | None -> ok m0 RSkip)

(** val cmd_clean :
    conf -> (call -> machine -> machine * outcome) -> id0 option -> nat ->
    machine -> machine * outcome **)

let cmd_clean k rec0 _ c m =
  if negb k.k_clean
  then ok m RSkip
  else (match mjoin (Obj.magic (fun _ -> option_join))
                (lookup0 list_lookup c m.cslots) with
        | Some cr ->
          let mo = (Obj.magic cr).cr_map in
          let (m0, sc) = weak_strong_count (WTo mo) m in
          if N.eqb sc N0
          then ok m0 ROk
          else (match inc_rc (hdr_of m0 mo) with
                | Some h ->
                  let m1 = remove_from_list mo (uhdr mo (fun _ -> h) m0) in
                  (match get m1 mo with
                   | Some mx ->
                     if mx.o_mborrowed
                     then let (m2, r) = rec0 (KDropCc mo) m1 in
                          (match r with
                           | ONormal -> ok m2 ROk
                           | _ -> (m2, r))
                     else let m2 =
                            upd mo (fun x ->
                              set (fun o -> o.o_mborrowed) (fun f ->
                                let b = fun r -> f r.o_mborrowed in
                                (fun x0 -> { o_hdr = x0.o_hdr; o_vst =
                                x0.o_vst; o_box = x0.o_box; o_side =
                                x0.o_side; o_cls = x0.o_cls; o_ismap =
                                x0.o_ismap; o_fields = x0.o_fields;
                                o_wfields = x0.o_wfields; o_cleaner =
                                x0.o_cleaner; o_borrowed = x0.o_borrowed;
                                o_mslots = x0.o_mslots; o_mfree = x0.o_mfree;
                                o_mborrowed = (b x0) })) (fun _ -> true) x) m1
                          in
                          let (m3, r) =
                            match lookup0 list_lookup (Obj.magic cr).cr_slot
                                    mx.o_mslots with
                            | Some y ->
                              (match y with
                               | MVacant -> (m2, ONormal)
                               | MAction (aid, script) ->
                                 if decide
                                      (decide_rel Coq0_Nat.eq_dec aid
                                        (Obj.magic cr).cr_aid)
                                 then let m3 =
                                        upd mo (fun x ->
                                          set (fun o -> o.o_mfree) (fun f ->
                                            let l = fun r -> f r.o_mfree in
                                            (fun x0 -> { o_hdr = x0.o_hdr;
                                            o_vst = x0.o_vst; o_box =
                                            x0.o_box; o_side = x0.o_side;
                                            o_cls = x0.o_cls; o_ismap =
                                            x0.o_ismap; o_fields =
                                            x0.o_fields; o_wfields =
                                            x0.o_wfields; o_cleaner =
                                            x0.o_cleaner; o_borrowed =
                                            x0.o_borrowed; o_mslots =
                                            x0.o_mslots; o_mfree = (l x0);
                                            o_mborrowed = x0.o_mborrowed }))
                                            (fun x0 ->
                                            (Obj.magic cr).cr_slot :: x0)
                                            (set (fun o -> o.o_mslots)
                                              (fun f ->
                                              let l = fun r -> f r.o_mslots in
                                              (fun x0 -> { o_hdr = x0.o_hdr;
                                              o_vst = x0.o_vst; o_box =
                                              x0.o_box; o_side = x0.o_side;
                                              o_cls = x0.o_cls; o_ismap =
                                              x0.o_ismap; o_fields =
                                              x0.o_fields; o_wfields =
                                              x0.o_wfields; o_cleaner =
                                              x0.o_cleaner; o_borrowed =
                                              x0.o_borrowed; o_mslots =
                                              (l x0); o_mfree = x0.o_mfree;
                                              o_mborrowed = x0.o_mborrowed }))
                                              (insert0 list_insert
                                                (Obj.magic cr).cr_slot
                                                MVacant) x)) m2
                                      in
                                      rec0 (KCleanRun (mo, aid, script)) m3
                                 else (m2, ONormal))
                            | None -> (m2, ONormal)
                          in
                          let m4 =
                            upd mo (fun x ->
                              set (fun o -> o.o_mborrowed) (fun f ->
                                let b = fun r0 -> f r0.o_mborrowed in
                                (fun x0 -> { o_hdr = x0.o_hdr; o_vst =
                                x0.o_vst; o_box = x0.o_box; o_side =
                                x0.o_side; o_cls = x0.o_cls; o_ismap =
                                x0.o_ismap; o_fields = x0.o_fields;
                                o_wfields = x0.o_wfields; o_cleaner =
                                x0.o_cleaner; o_borrowed = x0.o_borrowed;
                                o_mslots = x0.o_mslots; o_mfree = x0.o_mfree;
                                o_mborrowed = (b x0) })) (fun _ -> false) x)
                              m3
                          in
                          (match r with
                           | ONormal ->
                             let (m5, r0) = rec0 (KDropCc mo) m4 in
                             (match r0 with
                              | ONormal -> ok m5 ROk
                              | _ -> (m5, r0))
                           | OPanic -> unwinding (rec0 (KDropCc mo)) m4
                           | _ -> (m4, r))
                   | None -> ((emit_bad BadState mo m1), ONormal))
                | None -> (m0, (raise m0)))
        | None -> ok m RSkip)

(** val cmd_c_drop :
    conf -> id0 option -> nat -> machine -> machine * outcome **)

let cmd_c_drop k _ c m =
  if negb k.k_clean
  then ok m RSkip
  else (match mjoin (Obj.magic (fun _ -> option_join))
                (lookup0 list_lookup c m.cslots) with
        | Some cr ->
          ok
            (weak_drop (WTo (Obj.magic cr).cr_map)
              (set (fun m0 -> m0.cslots) (fun f ->
                let l = fun r -> f r.cslots in
                (fun x -> { heap = x.heap; pc = x.pc; pc_size = x.pc_size;
                pc_alive = x.pc_alive; st_collecting = x.st_collecting;
                st_finalizing = x.st_finalizing; st_dropping = x.st_dropping;
                st_alloc = x.st_alloc; st_exec = x.st_exec; cf_thr =
                x.cf_thr; cf_pnum = x.cf_pnum; cf_pexp = x.cf_pexp; cf_buf =
                x.cf_buf; cf_auto = x.cf_auto; slots = x.slots; wslots =
                x.wslots; cslots = (l x); values = x.values; bag = x.bag;
                wparam = x.wparam; fuse_trace = x.fuse_trace; fuse_fin =
                x.fuse_fin; fuse_drop = x.fuse_drop; fuse_action =
                x.fuse_action; fuse_closure = x.fuse_closure; panicking =
                x.panicking; next_aid = x.next_aid; log = x.log; dead =
                x.dead })) (insert0 list_insert c None) m)) ROk
        | None -> ok m RSkip)

(** val cmd_bag : id0 option -> loc -> n -> machine -> machine * outcome **)

let cmd_bag self l k m =
  let (m0, r) = resolve self l m in
  (match mbind (Obj.magic (fun _ _ -> option_bind)) (fun r0 ->
           Obj.magic read_loc r0 m0) r with
   | Some o ->
     let rec go k0 m1 =
       match k0 with
       | O -> ok m1 ROk
       | S k' ->
         (match inc_rc (hdr_of m1 (Obj.magic o)) with
          | Some h ->
            go k'
              (set (Obj.magic (fun m2 -> m2.bag)) (fun f ->
                let l0 = fun r0 -> Obj.magic f r0.bag in
                (fun x -> { heap = x.heap; pc = x.pc; pc_size = x.pc_size;
                pc_alive = x.pc_alive; st_collecting = x.st_collecting;
                st_finalizing = x.st_finalizing; st_dropping = x.st_dropping;
                st_alloc = x.st_alloc; st_exec = x.st_exec; cf_thr =
                x.cf_thr; cf_pnum = x.cf_pnum; cf_pexp = x.cf_pexp; cf_buf =
                x.cf_buf; cf_auto = x.cf_auto; slots = x.slots; wslots =
                x.wslots; cslots = x.cslots; values = x.values; bag = 
                (l0 x); wparam = x.wparam; fuse_trace = x.fuse_trace;
                fuse_fin = x.fuse_fin; fuse_drop = x.fuse_drop; fuse_action =
                x.fuse_action; fuse_closure = x.fuse_closure; panicking =
                x.panicking; next_aid = x.next_aid; log = x.log; dead =
                x.dead })) (fun x -> o :: x)
                (remove_from_list (Obj.magic o)
                  (uhdr (Obj.magic o) (fun _ -> h) m1)))
          | None -> (m1, (raise m1)))
     in go (N.to_nat k) m0
   | None -> ok m0 RSkip)

(** val cmd_unbag :
    (call -> machine -> machine * outcome) -> id0 option -> n -> machine ->
    machine * outcome **)

let cmd_unbag rec0 _ k m =
  let (m0, r) = rec0 (KUnbag (N.to_nat k)) m in
  (match r with
   | ONormal -> ok m0 ROk
   | _ -> (m0, r))

(** val cmd_borrow : id0 option -> nodeloc -> machine -> machine * outcome **)

let cmd_borrow self nd m =
  let (m0, no) = nresolve self nd m in
  (match no with
   | Some o ->
     ok
       (upd o (fun x ->
         set (fun o0 -> o0.o_borrowed) (fun f ->
           let b = fun r -> f r.o_borrowed in
           (fun x0 -> { o_hdr = x0.o_hdr; o_vst = x0.o_vst; o_box = x0.o_box;
           o_side = x0.o_side; o_cls = x0.o_cls; o_ismap = x0.o_ismap;
           o_fields = x0.o_fields; o_wfields = x0.o_wfields; o_cleaner =
           x0.o_cleaner; o_borrowed = (b x0); o_mslots = x0.o_mslots;
           o_mfree = x0.o_mfree; o_mborrowed = x0.o_mborrowed })) (fun _ ->
           true) x) m0) ROk
   | None -> ok m0 RSkip)

(** val cmd_unborrow :
    id0 option -> nodeloc -> machine -> machine * outcome **)

let cmd_unborrow self nd m =
  let (m0, no) = nresolve self nd m in
  (match no with
   | Some o ->
     ok
       (upd o (fun x ->
         set (fun o0 -> o0.o_borrowed) (fun f ->
           let b = fun r -> f r.o_borrowed in
           (fun x0 -> { o_hdr = x0.o_hdr; o_vst = x0.o_vst; o_box = x0.o_box;
           o_side = x0.o_side; o_cls = x0.o_cls; o_ismap = x0.o_ismap;
           o_fields = x0.o_fields; o_wfields = x0.o_wfields; o_cleaner =
           x0.o_cleaner; o_borrowed = (b x0); o_mslots = x0.o_mslots;
           o_mfree = x0.o_mfree; o_mborrowed = x0.o_mborrowed })) (fun _ ->
           false) x) m0) ROk
   | None -> ok m0 RSkip)

(** val cmd_cfg_auto :
    conf -> id0 option -> bool -> machine -> machine * outcome **)

let cmd_cfg_auto k _ b m =
  if k.k_auto
  then ok
         (set (fun m0 -> m0.cf_auto) (fun f ->
           let b0 = fun r -> f r.cf_auto in
           (fun x -> { heap = x.heap; pc = x.pc; pc_size = x.pc_size;
           pc_alive = x.pc_alive; st_collecting = x.st_collecting;
           st_finalizing = x.st_finalizing; st_dropping = x.st_dropping;
           st_alloc = x.st_alloc; st_exec = x.st_exec; cf_thr = x.cf_thr;
           cf_pnum = x.cf_pnum; cf_pexp = x.cf_pexp; cf_buf = x.cf_buf;
           cf_auto = (b0 x); slots = x.slots; wslots = x.wslots; cslots =
           x.cslots; values = x.values; bag = x.bag; wparam = x.wparam;
           fuse_trace = x.fuse_trace; fuse_fin = x.fuse_fin; fuse_drop =
           x.fuse_drop; fuse_action = x.fuse_action; fuse_closure =
           x.fuse_closure; panicking = x.panicking; next_aid = x.next_aid;
           log = x.log; dead = x.dead })) (fun _ -> b) m) ROk
  else ok m RSkip

(** val cmd_cfg_percent :
    conf -> id0 option -> n -> n -> machine -> machine * outcome **)

let cmd_cfg_percent k _ num e m =
  if k.k_auto
  then if N.ltb (N.shiftl (Npos XH) e) num
       then (m, (raise m))
       else ok
              (set (fun m0 -> m0.cf_pexp) (fun f ->
                let n0 = fun r -> f r.cf_pexp in
                (fun x -> { heap = x.heap; pc = x.pc; pc_size = x.pc_size;
                pc_alive = x.pc_alive; st_collecting = x.st_collecting;
                st_finalizing = x.st_finalizing; st_dropping = x.st_dropping;
                st_alloc = x.st_alloc; st_exec = x.st_exec; cf_thr =
                x.cf_thr; cf_pnum = x.cf_pnum; cf_pexp = (n0 x); cf_buf =
                x.cf_buf; cf_auto = x.cf_auto; slots = x.slots; wslots =
                x.wslots; cslots = x.cslots; values = x.values; bag = x.bag;
                wparam = x.wparam; fuse_trace = x.fuse_trace; fuse_fin =
                x.fuse_fin; fuse_drop = x.fuse_drop; fuse_action =
                x.fuse_action; fuse_closure = x.fuse_closure; panicking =
                x.panicking; next_aid = x.next_aid; log = x.log; dead =
                x.dead })) (fun _ -> e)
                (set (fun m0 -> m0.cf_pnum) (fun f ->
                  let n0 = fun r -> f r.cf_pnum in
                  (fun x -> { heap = x.heap; pc = x.pc; pc_size = x.pc_size;
                  pc_alive = x.pc_alive; st_collecting = x.st_collecting;
                  st_finalizing = x.st_finalizing; st_dropping =
                  x.st_dropping; st_alloc = x.st_alloc; st_exec = x.st_exec;
                  cf_thr = x.cf_thr; cf_pnum = (n0 x); cf_pexp = x.cf_pexp;
                  cf_buf = x.cf_buf; cf_auto = x.cf_auto; slots = x.slots;
                  wslots = x.wslots; cslots = x.cslots; values = x.values;
                  bag = x.bag; wparam = x.wparam; fuse_trace = x.fuse_trace;
                  fuse_fin = x.fuse_fin; fuse_drop = x.fuse_drop;
                  fuse_action = x.fuse_action; fuse_closure = x.fuse_closure;
                  panicking = x.panicking; next_aid = x.next_aid; log =
                  x.log; dead = x.dead })) (fun _ -> num) m)) ROk
  else ok m RSkip

(** val cmd_cfg_buffered :
    conf -> id0 option -> n -> machine -> machine * outcome **)

let cmd_cfg_buffered k _ b m =
  if k.k_auto
  then ok
         (set (fun m0 -> m0.cf_buf) (fun f ->
           let n0 = fun r -> f r.cf_buf in
           (fun x -> { heap = x.heap; pc = x.pc; pc_size = x.pc_size;
           pc_alive = x.pc_alive; st_collecting = x.st_collecting;
           st_finalizing = x.st_finalizing; st_dropping = x.st_dropping;
           st_alloc = x.st_alloc; st_exec = x.st_exec; cf_thr = x.cf_thr;
           cf_pnum = x.cf_pnum; cf_pexp = x.cf_pexp; cf_buf = (n0 x);
           cf_auto = x.cf_auto; slots = x.slots; wslots = x.wslots; cslots =
           x.cslots; values = x.values; bag = x.bag; wparam = x.wparam;
           fuse_trace = x.fuse_trace; fuse_fin = x.fuse_fin; fuse_drop =
           x.fuse_drop; fuse_action = x.fuse_action; fuse_closure =
           x.fuse_closure; panicking = x.panicking; next_aid = x.next_aid;
           log = x.log; dead = x.dead })) (fun _ -> b) m) ROk
  else ok m RSkip

(** val cmd_arm :
    id0 option -> cbkind -> n -> machine -> machine * outcome **)

let cmd_arm _ k v m =
  ok (set_fuse k v m) ROk

(** val cmd_panic : id0 option -> machine -> machine * outcome **)

let cmd_panic _ m =
  (m, (raise m))

(** val cmd_obs : id0 option -> loc -> machine -> machine * outcome **)

let cmd_obs self l m =
  let (m0, r) = resolve self l m in
  (match mbind (Obj.magic (fun _ _ -> option_bind)) (fun r0 ->
           Obj.magic read_loc r0 m0) r with
   | Some o ->
     (match get m0 (Obj.magic o) with
      | Some x ->
        let m1 =
          match x.o_box with
          | BAlloc -> m0
          | _ -> emit_bad UseAfterFree (Obj.magic o) m0
        in
        let wc =
          if x.o_hdr.h_side
          then (match x.o_side with
                | Some s -> s.sd_wk.w_cnt
                | None -> N0)
          else N0
        in
        let alive = match x.o_vst with
                    | VLive -> true
                    | _ -> false in
        let m2 = if alive then m1 else emit_bad UseAfterDrop (Obj.magic o) m1
        in
        ok
          (emit (EObs ((Obj.magic o), x.o_hdr.h_rc, wc, x.o_hdr.h_fin,
            alive)) m2) ROk
      | None -> ok (emit_bad BadState (Obj.magic o) m0) ROk)
   | None -> ok m0 RSkip)

(** val cmd_w_obs :
    conf -> id0 option -> wloc -> machine -> machine * outcome **)

let cmd_w_obs k self w m =
  if negb k.k_weak
  then ok m RSkip
  else let (m0, rw) = wresolve self w m in
       (match mbind (Obj.magic (fun _ _ -> option_bind)) (fun rw0 ->
                Obj.magic read_wloc rw0 m0) rw with
        | Some wr ->
          let (m1, sc) = weak_strong_count (Obj.magic wr) m0 in
          let (m2, wc) = weak_weak_count (Obj.magic wr) m1 in
          ok (emit (EWObs (sc, wc)) m2) ROk
        | None -> ok m0 RSkip)

(** val cmd_s_obs : conf -> id0 option -> machine -> machine * outcome **)

let cmd_s_obs k _ m =
  ok
    (emit (ESObs (m.st_alloc, (if m.pc_alive then Some m.pc_size else None),
      m.st_exec, (cur_flags k m).fl_t)) m) ROk

(** val step_cmd :
    conf -> prog -> (call -> machine -> machine * outcome) -> id0 option ->
    cmd -> machine -> machine * outcome **)

let step_cmd k p rec0 self c m =
  match c with
  | CNew (dst, cls0) -> cmd_new k p rec0 self dst cls0 m
  | CClone (src, dst) -> cmd_clone rec0 self src dst m
  | CDrop l -> cmd_drop rec0 self l m
  | CMove (src, dst) -> cmd_move rec0 self src dst m
  | CMarkAlive l -> cmd_mark_alive self l m
  | CCollect -> cmd_collect rec0 self m
  | CDowngrade (l, w) -> cmd_downgrade k self l w m
  | CUpgrade (w, dst) -> cmd_upgrade k rec0 self w dst m
  | CWNew w -> cmd_w_new k self w m
  | CWClone (src, dst) -> cmd_w_clone k self src dst m
  | CWDrop w -> cmd_w_drop k self w m
  | CTryUnwrap (l, v) -> cmd_try_unwrap k self l v m
  | CDropValue v -> cmd_drop_value rec0 self v m
  | CFinAgain l -> cmd_fin_again k self l m
  | CNewCyclic (dst, cls0, script, selfweak) ->
    cmd_new_cyclic k p rec0 self dst cls0 script selfweak m
  | CRegister (nd, script, c0) -> cmd_register k p rec0 self nd script c0 m
  | CClean c0 -> cmd_clean k rec0 self c0 m
  | CCDrop c0 -> cmd_c_drop k self c0 m
  | CBag (l, k0) -> cmd_bag self l k0 m
  | CUnbag k0 -> cmd_unbag rec0 self k0 m
  | CBorrow nd -> cmd_borrow self nd m
  | CUnborrow nd -> cmd_unborrow self nd m
  | CCfgAuto b -> cmd_cfg_auto k self b m
  | CCfgPercent (num, e) -> cmd_cfg_percent k self num e m
  | CCfgBuffered b -> cmd_cfg_buffered k self b m
  | CArm (k0, v) -> cmd_arm self k0 v m
  | CPanic -> cmd_panic self m
  | CObs l -> cmd_obs self l m
  | CWObs w -> cmd_w_obs k self w m
  | CSObs -> cmd_s_obs k self m

(** val step :
    conf -> prog -> (call -> machine -> machine * outcome) -> call -> machine
    -> machine * outcome **)

let step k p rec0 c m =
  match c with
  | KCmd (self, c0) -> step_cmd k p rec0 self c0 m
  | KScript (self, cs) -> step_script rec0 self cs m
  | KStore (r, v) -> step_store rec0 r v m
  | KDropCc o -> step_drop_cc k p rec0 o m
  | KDropValue o -> step_drop_value k p rec0 o m
  | KDropFields (o, j) -> step_drop_fields rec0 o j m
  | KDropMapSlots (o, j) -> step_drop_map_slots rec0 o j m
  | KTrigger -> step_trigger k rec0 m
  | KCollectCycles -> step_collect_cycles k rec0 m
  | KCollect -> step_collect k rec0 m
  | KCollectLoop k0 -> step_collect_loop rec0 k0 m
  | KCollectOnce -> step_collect_once k p rec0 m
  | KFinalizeList (l, rest, any, old_f) ->
    step_finalize_list k p rec0 l rest any old_f m
  | KDropList (l, rest, old_d) -> step_drop_list k rec0 l rest old_d m
  | KUnbag k0 -> step_unbag rec0 k0 m
  | KCleanRun (mo, aid, script) -> step_clean_run k p rec0 mo aid script m

(** val run : conf -> prog -> nat -> call -> machine -> machine * outcome **)

let rec run k p fuel c m =
  match fuel with
  | O -> (m, OFuel)
  | S n0 -> step k p (run k p n0) c m

(** val exec_top : conf -> prog -> nat -> cmd -> machine -> machine **)

let exec_top k p fuel c m =
  let (m0, r) = run k p fuel (KCmd (None, c)) m in
  (match r with
   | ONormal -> m0
   | OPanic -> emit (ERes RPanicked) m0
   | OAbort -> emit_bad Abort O m0
   | OFuel -> emit_bad Fuel O m0)

(** val run_main : conf -> prog -> nat -> machine -> machine **)

let run_main k p fuel m =
  fold_left (fun m0 c -> exec_top k p fuel c m0) p.p_main m

(** val eqb_oid : id0 option -> id0 -> bool **)

let eqb_oid a o =
  match a with
  | Some x -> Coq_Nat.eqb x o
  | None -> false

(** val cnt_opt : id0 -> id0 option list -> nat **)

let cnt_opt o l =
  length
    (filter0 (fun _ -> list_filter) (fun x ->
      decide_rel bool_eq_dec (eqb_oid x o) true) l)

(** val cnt_id : id0 -> id0 list -> nat **)

let cnt_id o l =
  length
    (filter0 (fun _ -> list_filter) (fun x ->
      decide_rel bool_eq_dec (Coq_Nat.eqb x o) true) l)

(** val obj_refs : id0 -> obj -> nat **)

let obj_refs o x =
  add (cnt_opt o x.o_fields) (if eqb_oid x.o_cleaner o then S O else O)

(** val heap_refs : machine -> id0 -> nat **)

let heap_refs m o =
  fold_right (fun x acc -> add (obj_refs o x) acc) O m.heap

(** val ext_refs : machine -> id0 -> nat **)

let ext_refs m o =
  add (cnt_opt o m.slots) (cnt_id o m.bag)

(** val refs : machine -> id0 -> nat **)

let refs m o =
  add (ext_refs m o) (heap_refs m o)

(** val eqb_wref : wref option -> id0 -> bool **)

let eqb_wref a o =
  match a with
  | Some w -> (match w with
               | WNull -> false
               | WTo x -> Coq_Nat.eqb x o)
  | None -> false

(** val cnt_w : id0 -> wref option list -> nat **)

let cnt_w o l =
  length
    (filter0 (fun _ -> list_filter) (fun x ->
      decide_rel bool_eq_dec (eqb_wref x o) true) l)

(** val wrefs : machine -> id0 -> nat **)

let wrefs m o =
  add
    (add (add (cnt_w o m.wslots) (cnt_w o (map (fun x -> Some x) m.wparam)))
      (length
        (filter0 (fun _ -> list_filter) (fun x ->
          decide_rel bool_eq_dec
            (match x with
             | Some cr -> Coq_Nat.eqb cr.cr_map o
             | None -> false) true) m.cslots)))
    (fold_right (fun x acc -> add (cnt_w o x.o_wfields) acc) O m.heap)

(** val is_alloc : obj -> bool **)

let is_alloc x =
  match x.o_box with
  | BAlloc -> true
  | _ -> false

(** val is_live : obj -> bool **)

let is_live x =
  match x.o_vst with
  | VLive -> true
  | _ -> false

(** val mem_id : id0 -> id0 list -> bool **)

let mem_id o l =
  existsb (Coq_Nat.eqb o) l

(** val handle_locs : machine -> (id0 option * id0) list **)

let handle_locs m =
  app
    (omap (Obj.magic (fun _ _ -> list_omap)) (fun a ->
      match a with
      | Some t0 -> Some (None, t0)
      | None -> None) (Obj.magic m.slots))
    (app (map (fun t0 -> (None, t0)) m.bag)
      (concat
        (imap (fun p x ->
          app
            (omap (Obj.magic (fun _ _ -> list_omap)) (fun a ->
              match a with
              | Some t0 -> Some ((Some p), t0)
              | None -> None) (Obj.magic x.o_fields))
            (match x.o_cleaner with
             | Some t0 -> ((Some p), t0) :: []
             | None -> [])) m.heap)))

(** val obj_ok :
    conf -> id0 list -> id0 list -> machine -> id0 -> obj -> bool **)

let obj_ok k e d m o x =
  let h = x.o_hdr in
  (match x.o_box with
   | BNotYet ->
     (&&) (Coq_Nat.eqb (add (refs m o) (cnt_id o e)) O)
       (Coq_Nat.eqb (wrefs m o) O)
   | BAlloc ->
     (&&)
       ((&&)
         ((&&)
           ((&&)
             ((&&) (N.leb (N.of_nat (add (refs m o) (cnt_id o e))) h.h_rc)
               (N.leb h.h_rc max_rc))
             (let dying =
                match x.o_vst with
                | VDropping -> true
                | VDropped -> true
                | _ -> false
              in
              if k.k_weak
              then (&&) (implb dying (is_dropped h))
                     (implb (is_dropped h)
                       ((||) ((||) dying (mem_id o d)) (N.eqb h.h_rc N0)))
              else (||) (negb (is_dropped h)) (negb (is_live x))))
           (eqb h.h_side (match x.o_side with
                          | Some _ -> true
                          | None -> false)))
         (match x.o_side with
          | Some s ->
            (&&)
              ((&&) ((&&) (negb s.sd_freed) s.sd_wk.w_acc)
                (N.eqb s.sd_wk.w_cnt (N.of_nat (wrefs m o))))
              (N.leb s.sd_wk.w_cnt max_weak)
          | None -> Coq_Nat.eqb (wrefs m o) O))
       (match x.o_vst with
        | VMoved -> false
        | _ -> true)
   | BFreed ->
     (&&)
       ((&&) (Coq_Nat.eqb (add (refs m o) (cnt_id o e)) O) (negb (is_live x)))
       (match x.o_side with
        | Some s ->
          if s.sd_freed
          then Coq_Nat.eqb (wrefs m o) O
          else (&&)
                 ((&&) (negb s.sd_wk.w_acc)
                   (N.eqb s.sd_wk.w_cnt (N.of_nat (wrefs m o))))
                 (negb (N.eqb s.sd_wk.w_cnt N0))
        | None -> Coq_Nat.eqb (wrefs m o) O))

(** val loc_ok : id0 list -> machine -> (id0 option * id0) -> bool **)

let loc_ok d m = function
| (holder, t0) ->
  (match lookup0 list_lookup t0 m.heap with
   | Some xt ->
     (&&) (is_alloc xt)
       (let outside =
          match holder with
          | Some p ->
            (match lookup0 list_lookup p m.heap with
             | Some xp -> (&&) (is_live xp) (negb (mem_id p d))
             | None -> false)
          | None -> true
        in
        if outside then (&&) (is_live xt) (negb (mem_id t0 d)) else true)
   | None -> false)

(** val inv_b : conf -> id0 list -> machine -> bool **)

let inv_b k e m =
  let d = m.dead in
  (&&)
    ((&&)
      ((&&)
        (forallb (fun pat -> let (o, x) = pat in obj_ok k e d m o x)
          (imap (fun o x -> (o, x)) m.heap))
        (forallb (loc_ok d m) (handle_locs m)))
      (forallb (fun t0 ->
        match lookup0 list_lookup t0 m.heap with
        | Some xt -> is_alloc xt
        | None -> false) e))
    (forallb (fun t0 ->
      match lookup0 list_lookup t0 m.heap with
      | Some xt -> (&&) ((&&) (is_alloc xt) (is_live xt)) (negb (mem_id t0 d))
      | None -> false) m.pc)

(** val loc_no_self : loc -> bool **)

let loc_no_self = function
| LFS _ -> false
| _ -> true

(** val node_no_self : nodeloc -> bool **)

let node_no_self = function
| NSelf -> false
| NSlot _ -> true

(** val cmd_no_self : cmd -> bool **)

let cmd_no_self = function
| CNew (d, _) -> loc_no_self d
| CClone (a, b) -> (&&) (loc_no_self a) (loc_no_self b)
| CDrop l -> loc_no_self l
| CMove (a, b) -> (&&) (loc_no_self a) (loc_no_self b)
| CMarkAlive l -> loc_no_self l
| CDowngrade (l, _) -> loc_no_self l
| CUpgrade (_, d) -> loc_no_self d
| CTryUnwrap (l, _) -> loc_no_self l
| CFinAgain l -> loc_no_self l
| CNewCyclic (d, _, _, _) -> loc_no_self d
| CRegister (n0, _, _) -> node_no_self n0
| CBag (l, _) -> loc_no_self l
| CBorrow n0 -> node_no_self n0
| CUnborrow n0 -> node_no_self n0
| CObs l -> loc_no_self l
| _ -> true

(** val wf_prog : prog -> bool **)

let wf_prog p =
  forallb (fun c ->
    match c.c_drop with
    | Some s ->
      forallb cmd_no_self
        (from_option (Obj.magic id) [] (lookup0 list_lookup s p.p_scripts))
    | None -> true) p.p_classes

(** val exact_b : id0 list -> machine -> bool **)

let exact_b e m =
  forallb (fun pat ->
    let (o, x) = pat in
    if is_alloc x
    then N.eqb x.o_hdr.h_rc (N.of_nat (add (refs m o) (cnt_id o e)))
    else true) (imap (fun o x -> (o, x)) m.heap)

(** val no_panic_yet : machine -> bool **)

let no_panic_yet m =
  forallb (fun e ->
    match e with
    | ERes r -> (match r with
                 | RPanicked -> false
                 | _ -> true)
    | _ -> true) m.log

(** val no_bad : machine -> bool **)

let no_bad m =
  forallb (fun e ->
    match e with
    | EBad (b, _) -> (match b with
                      | Abort -> true
                      | Fuel -> true
                      | _ -> false)
    | _ -> true) m.log

(** val mem_nat : nat -> nat list -> bool **)

let mem_nat x l =
  existsb (Coq_Nat.eqb x) l

(** val add_new : nat list -> nat list -> nat list **)

let add_new l acc =
  fold_left (fun a x -> if mem_nat x a then a else x :: a) l acc

(** val closure : (nat -> nat list) -> nat -> nat list -> nat list **)

let rec closure succ0 fuel seen =
  match fuel with
  | O -> seen
  | S f ->
    let next = add_new (concat (map succ0 seen)) seen in
    if Coq_Nat.eqb (length next) (length seen)
    then seen
    else closure succ0 f next

(** val strong_targets : obj -> id0 list **)

let strong_targets x =
  app
    (omap (Obj.magic (fun _ _ -> list_omap)) (fun a -> a)
      (Obj.magic x.o_fields))
    (match x.o_cleaner with
     | Some t0 -> t0 :: []
     | None -> [])

(** val all_succ : machine -> id0 -> id0 list **)

let all_succ m p =
  match lookup0 list_lookup p m.heap with
  | Some x -> strong_targets x
  | None -> []

(** val traced_succ : prog -> machine -> id0 -> id0 list **)

let traced_succ p m p0 =
  match lookup0 list_lookup p0 m.heap with
  | Some x ->
    if x.o_ismap
    then []
    else (match x.o_vst with
          | VLive ->
            if x.o_borrowed
            then []
            else omap (Obj.magic (fun _ _ -> list_omap)) (fun pat ->
                   let (f, t0) = pat in if t0 then f else None)
                   (zip_with (Obj.magic (fun x0 x1 -> (x0, x1))) x.o_fields
                     (from_option (Obj.magic id) { c_nf = O; c_traced = [];
                       c_nw = O; c_cleaner = false; c_fin = None; c_drop =
                       None } (lookup0 list_lookup x.o_cls p.p_classes)).c_traced)
          | _ -> [])
  | None -> []

(** val unreported : prog -> machine -> id0 -> obj -> id0 list **)

let unreported p _ _ x =
  let cl = match x.o_cleaner with
           | Some t0 -> t0 :: []
           | None -> [] in
  if x.o_ismap
  then strong_targets x
  else (match x.o_vst with
        | VLive ->
          if x.o_borrowed
          then strong_targets x
          else app
                 (omap (Obj.magic (fun _ _ -> list_omap)) (fun pat ->
                   let (f, t0) = pat in if t0 then None else f)
                   (zip_with (fun f i ->
                     Obj.magic (f,
                       (from_option (Obj.magic id) false
                         (lookup0 list_lookup i
                           (from_option (Obj.magic id) { c_nf = O; c_traced =
                             []; c_nw = O; c_cleaner = false; c_fin = None;
                             c_drop = None }
                             (lookup0 list_lookup x.o_cls p.p_classes)).c_traced))))
                     x.o_fields (seq O (length x.o_fields)))) cl
        | _ -> strong_targets x)

(** val pin_targets : prog -> machine -> id0 list **)

let pin_targets p m =
  concat
    (imap (fun p0 x ->
      match x.o_box with
      | BFreed -> []
      | _ ->
        app (unreported p m p0 x)
          (if mem_nat p0 m.dead then strong_targets x else [])) m.heap)

(** val prog_roots : machine -> id0 list **)

let prog_roots m =
  app
    (omap (Obj.magic (fun _ _ -> list_omap)) (fun a -> a) (Obj.magic m.slots))
    (app m.bag
      (concat
        (omap (Obj.magic (fun _ _ -> list_omap)) (fun v ->
          match v with
          | Some o -> Some (all_succ m o)
          | None -> None) (Obj.magic m.values))))

(** val cover_b : prog -> machine -> bool **)

let cover_b p m =
  let n0 = S (length m.heap) in
  let reach = closure (all_succ m) n0 (add_new (prog_roots m) []) in
  let covered = closure (traced_succ p m) n0 (add_new m.pc []) in
  let pinned =
    closure (all_succ m) n0 (add_new (app (pin_targets p m) m.dead) [])
  in
  forallb (fun pat ->
    let (o, x) = pat in
    (match x.o_box with
     | BAlloc ->
       (match x.o_vst with
        | VLive ->
          (||)
            ((||) ((||) (mem_nat o m.dead) (mem_nat o reach))
              (mem_nat o covered)) (mem_nat o pinned)
        | _ -> true)
     | _ -> true)) (imap (fun o x -> (o, x)) m.heap)

(** val maps_owned_b : machine -> bool **)

let maps_owned_b m =
  forallb (fun x ->
    (||)
      ((||) ((||) (negb x.o_ismap) (negb (is_alloc x))) (negb (is_live x)))
      (negb (N.eqb x.o_hdr.h_rc N0))) m.heap
