(* modelrun: reads program files (see DESIGN.md Appendix D), runs the extracted Coq model and
   prints the canonical event log, one program after the other.  Everything semantic is in
   model.ml (extracted); this file only parses, iterates exec_top and prints. *)
open Model

(* ---------- conversions ---------- *)
let nat_of_int i = let r = ref O in for _ = 1 to i do r := S !r done; !r
let int_of_nat n = let rec go acc = function O -> acc | S n -> go (acc + 1) n in go 0 n
let rec pos_of_int i = if i <= 1 then XH else if i land 1 = 0 then XO (pos_of_int (i lsr 1)) else XI (pos_of_int (i lsr 1))
let n_of_int i = if i <= 0 then N0 else Npos (pos_of_int i)
let rec int_of_pos = function XH -> 1 | XO p -> 2 * int_of_pos p | XI p -> 2 * int_of_pos p + 1
let int_of_n = function N0 -> 0 | Npos p -> int_of_pos p
(* decimal rendering of an N that may exceed 63 bits *)
let string_of_n x =
  let rec bits = function XH -> [1] | XO p -> 0 :: bits p | XI p -> 1 :: bits p in
  match x with
  | N0 -> "0"
  | Npos p ->
    let bs = List.rev (bits p) in
    if List.length bs <= 62 then string_of_int (int_of_pos p)
    else begin
      (* big: decimal via repeated doubling on a digit array *)
      let digits = ref [0] in
      let double_add b =
        let carry = ref b in
        digits := List.map (fun d -> let v = d * 2 + !carry in carry := v / 10; v mod 10) !digits;
        if !carry > 0 then digits := !digits @ [!carry] in
      List.iter double_add bs;
      String.concat "" (List.rev_map string_of_int !digits)
    end

(* ---------- parsing ---------- *)
exception Parse of string
let fail s = Stdlib.raise (Parse s)
let int s = try int_of_string s with _ -> fail ("int: " ^ s)
let nat s = nat_of_int (int s)
let num s = n_of_int (int s)

let parse_loc s =
  let l = String.length s in
  if l >= 2 && s.[0] = 's' then LS (nat (String.sub s 1 (l - 1)))
  else if l >= 2 && s.[0] = 'f' then LFS (nat (String.sub s 1 (l - 1)))
  else if l >= 4 && s.[0] = 'a' then
    (match String.split_on_char '.' (String.sub s 1 (l - 1)) with
     | [i; j] -> LFA (nat i, nat j) | _ -> fail ("loc: " ^ s))
  else fail ("loc: " ^ s)

let parse_wloc s =
  let l = String.length s in
  if s = "wp" then WP
  else if l >= 3 && String.sub s 0 2 = "wf" then WFS (nat (String.sub s 2 (l - 2)))
  else if l >= 5 && String.sub s 0 2 = "wa" then
    (match String.split_on_char '.' (String.sub s 2 (l - 2)) with
     | [i; j] -> WFA (nat i, nat j) | _ -> fail ("wloc: " ^ s))
  else if l >= 2 && s.[0] = 'w' then WS (nat (String.sub s 1 (l - 1)))
  else fail ("wloc: " ^ s)

let parse_node s =
  if s = "self" then NSelf
  else if String.length s >= 2 && s.[0] = 'n' then NSlot (nat (String.sub s 1 (String.length s - 1)))
  else fail ("node: " ^ s)

let parse_kind = function
  | "trace" -> KTrace | "fin" -> KFin | "drop" -> KDrop | "action" -> KAction | "closure" -> KClosure
  | s -> fail ("kind: " ^ s)

let parse_cmd toks =
  match toks with
  | ["new"; l; c] -> CNew (parse_loc l, nat c)
  | ["clone"; a; b] -> CClone (parse_loc a, parse_loc b)
  | ["drop"; l] -> CDrop (parse_loc l)
  | ["move"; a; b] -> CMove (parse_loc a, parse_loc b)
  | ["markalive"; l] -> CMarkAlive (parse_loc l)
  | ["collect"] -> CCollect
  | ["downgrade"; l; w] -> CDowngrade (parse_loc l, parse_wloc w)
  | ["upgrade"; w; l] -> CUpgrade (parse_wloc w, parse_loc l)
  | ["wnew"; w] -> CWNew (parse_wloc w)
  | ["wclone"; a; b] -> CWClone (parse_wloc a, parse_wloc b)
  | ["wdrop"; w] -> CWDrop (parse_wloc w)
  | ["tryunwrap"; l; v] -> CTryUnwrap (parse_loc l, nat v)
  | ["dropvalue"; v] -> CDropValue (nat v)
  | ["finagain"; l] -> CFinAgain (parse_loc l)
  | ["newcyclic"; l; c; s; b] -> CNewCyclic (parse_loc l, nat c, nat s, b = "1")
  | ["register"; n; s; c] -> CRegister (parse_node n, nat s, nat c)
  | ["clean"; c] -> CClean (nat c)
  | ["cdrop"; c] -> CCDrop (nat c)
  | ["bag"; l; n] -> CBag (parse_loc l, num n)
  | ["unbag"; n] -> CUnbag (num n)
  | ["borrow"; n] -> CBorrow (parse_node n)
  | ["unborrow"; n] -> CUnborrow (parse_node n)
  | ["cfgauto"; b] -> CCfgAuto (b = "1")
  | ["cfgpercent"; a; e] -> CCfgPercent (num a, num e)
  | ["cfgbuffered"; n] -> CCfgBuffered (num n)
  | ["arm"; k; n] -> CArm (parse_kind k, num n)
  | ["panic"] -> CPanic
  | ["obs"; l] -> CObs (parse_loc l)
  | ["wobs"; w] -> CWObs (parse_wloc w)
  | ["sobs"] -> CSObs
  | _ -> fail ("cmd: " ^ String.concat " " toks)

let words s = List.filter (fun w -> w <> "") (String.split_on_char ' ' s)

let parse_cmds s =
  String.split_on_char ';' s
  |> List.map words |> List.filter (fun l -> l <> []) |> List.map parse_cmd

let kv toks =
  List.filter_map (fun t -> match String.index_opt t '=' with
      | Some i -> Some (String.sub t 0 i, String.sub t (i + 1) (String.length t - i - 1))
      | None -> None) toks
let getk l k = try List.assoc k l with Not_found -> fail ("missing key " ^ k)

type parsed = { conf : conf; classes : (int * cls) list; scripts : (int * cmd list) list; main : cmd list; header : string }

let after_colon line =
  match String.index_opt line ':' with
  | Some i -> String.sub line (i + 1) (String.length line - i - 1)
  | None -> fail ("no colon: " ^ line)

let dense what l =
  let l = List.sort compare l in
  List.mapi (fun i (k, v) -> if i <> k then fail (what ^ " indices not dense") else v) l

(* ---------- printing ---------- *)
let b2s b = if b then "1" else "0"
let kind_s = function KTrace -> "trace" | KFin -> "fin" | KDrop -> "drop" | KAction -> "action" | KClosure -> "closure"
let bad_s = function
  | UseAfterDrop -> "UseAfterDrop" | UseAfterFree -> "UseAfterFree" | DoubleDrop -> "DoubleDrop"
  | DoubleFree -> "DoubleFree" | UninitDrop -> "UninitDrop" | AssertFail -> "AssertFail"
  | Underflow -> "Underflow" | BadState -> "BadState" | Abort -> "Abort" | Fuel -> "Fuel"
let res_s = function
  | ROk -> "ok" | RSkip -> "skip" | RSome o -> "some " ^ string_of_int (int_of_nat o) | RNone -> "none"
  | RUnwrapOk -> "unwrap-ok" | RUnwrapErr -> "unwrap-err" | RPanicked -> "panicked"
let ni = string_of_n
let oi o = string_of_int (int_of_nat o)
let event_s = function
  | ECb (k, o, f) -> Printf.sprintf "cb %s %s %s%s%s%s" (kind_s k) (oi o) (b2s f.fl_c) (b2s f.fl_f) (b2s f.fl_d) (b2s f.fl_t)
  | EAlloc (o, s, a) -> Printf.sprintf "alloc %s %s %s" (oi o) (ni s) (ni a)
  | EFree (o, s, a) -> Printf.sprintf "free %s %s %s" (oi o) (ni s) (ni a)
  | ESAlloc o -> "salloc " ^ oi o
  | ESFree o -> "sfree " ^ oi o
  | ERes r -> "res " ^ res_s r
  | EObs (o, rc, wc, fin, alive) -> Printf.sprintf "obs %s rc=%s wc=%s fin=%s alive=%s" (oi o) (ni rc) (ni wc) (b2s fin) (b2s alive)
  | EWObs (sc, wc) -> Printf.sprintf "wobs sc=%s wc=%s" (ni sc) (ni wc)
  | ESObs (b, buf, ex, t) -> Printf.sprintf "sobs bytes=%s buffered=%s exec=%s tracing=%s" (ni b)
                               (match buf with Some n -> ni n | None -> "err") (ni ex) (b2s t)
  | EBad (b, o) -> Printf.sprintf "BAD %s %s" (bad_s b) (oi o)

let mark_s = function NM -> "NM" | PC -> "PC" | IL -> "IL" | IQ -> "IQ"

let snapshot (m : machine) =
  let buf = Buffer.create 256 in
  List.iteri (fun i (x : obj) ->
      match x.o_box with
      | BAlloc ->
        let h = x.o_hdr in
        Buffer.add_string buf (Printf.sprintf "snap %d rc=%s tc=%s mark=%s fin=%s side=%s" i (ni h.h_rc) (ni h.h_tc)
                                 (mark_s h.h_mark) (b2s h.h_fin) (b2s h.h_side));
        (match x.o_side with
         | Some s when not s.sd_freed -> Buffer.add_string buf (Printf.sprintf " weak=%s acc=%s" (ni s.sd_wk.w_cnt) (b2s s.sd_wk.w_acc))
         | _ -> ());
        Buffer.add_char buf '\n'
      | _ -> ()) m.heap;
  Buffer.add_string buf (Printf.sprintf "buf%s size=%s\n" (String.concat "" (List.map (fun o -> " " ^ oi o) m.pc)) (ni m.pc_size));
  Buffer.add_string buf (Printf.sprintf "state c=%s f=%s d=%s thr=%s\n" (b2s m.st_collecting) (b2s m.st_finalizing) (b2s m.st_dropping) (ni m.cf_thr));
  Buffer.contents buf

(* ---------- running ---------- *)
let fuel_int = ref 2_000_000
let with_snap = ref true
let with_inv = ref false

(* Slots through whose object a top-level command reaches its operands (a<i>.<j>, wa<i>.<j>, n<i>).
   The harness (and the model) reach such an object through a raw pointer without holding a handle;
   safe Rust would keep it borrowed for the duration of the call.  If that object is destroyed by
   a callback while the command runs (e.g. a finalizer drops the slot holding its last handle
   during the collection started by the Cc::new inside Cleaner::register), the program is not
   expressible in safe Rust and the real crate is driven through a dangling pointer: the run
   prints ILLEGAL and the check discards the program. *)
let holder_slots (c : cmd) : nat list =
  let l = function LFA (i, _) -> [i] | _ -> [] in
  let nd = function NSlot i -> [i] | NSelf -> [] in
  match c with
  (* only the commands in which the crate (or the harness) goes on using the operand after user
     callbacks may have run: Cleaner::register after its Cc::new, and the store that follows
     Cc::new / Cc::new_cyclic *)
  | CNew (a, _) | CNewCyclic (a, _, _, _) -> l a
  | CRegister (n, _, _) -> nd n
  | _ -> []

let rec nth_opt_nat (l : 'a list) (i : nat) : 'a option =
  match l, i with
  | [], _ -> None
  | x :: _, O -> Some x
  | _ :: r, S j -> nth_opt_nat r j

let live_holders (m : machine) (c : cmd) : nat list =
  List.filter_map (fun i ->
      match nth_opt_nat m.slots i with
      | Some (Some o) ->
        (match nth_opt_nat m.heap o with
         | Some x when x.o_vst = VLive && x.o_box = BAlloc -> Some o
         | _ -> None)
      | _ -> None) (holder_slots c)

let run_one (p : parsed) idx =
  let prog = { p_classes = dense "class" p.classes; p_scripts = dense "script" p.scripts; p_main = p.main } in
  let fuel = nat_of_int !fuel_int in
  Printf.printf "== program %d %s\n" idx p.header;
  if !with_inv && not (wf_prog prog) then Printf.printf "INV NOTWF 0\n";
  let m = ref (init p.conf) in
  let halted = ref false in
  List.iteri (fun k c ->
      if not !halted then begin
        Printf.printf "-- %d\n" k;
        let before = List.length !m.log in
        let holders = live_holders !m c in
        m := exec_top p.conf prog fuel c !m;
        List.iter (fun o ->
            match nth_opt_nat !m.heap o with
            | Some x when x.o_vst = VLive && x.o_box = BAlloc -> ()
            | _ -> Printf.printf "ILLEGAL the object %s through which command %d reaches its operand was destroyed while the command ran\n" (oi o) k)
          holders;
        let evs = !m.log in
        let fresh = List.filteri (fun i _ -> i < List.length evs - before) evs in
        List.iter (fun e ->
            print_endline (event_s e);
            (match e with EBad ((Abort | Fuel), _) -> halted := true | _ -> ())) (List.rev fresh);
        if !with_snap && not !halted then print_string (snapshot !m);
        if !with_inv && not !halted then begin
          if not (inv_b p.conf [] !m) then Printf.printf "INV FAIL %d\n" k;
          if not (no_bad !m) then Printf.printf "INV BAD %d\n" k;
          if no_panic_yet !m && not (exact_b [] !m) then Printf.printf "INV EXACT FAIL %d\n" k;
          if no_panic_yet !m && not (cover_b prog !m) then Printf.printf "INV COVER FAIL %d\n" k;
          if no_panic_yet !m && not (maps_owned_b !m) then Printf.printf "INV COVER MAPS %d\n" k
        end
      end) prog.p_main;
  Printf.printf "== end %d\n" idx

let () =
  let files = ref [] in
  Arg.parse [ "--fuel", Arg.Set_int fuel_int, "fuel (default 2000000)";
              "--no-snap", Arg.Clear with_snap, "do not print state snapshots";
              "--inv", Arg.Set with_inv, "evaluate the Coq invariant checker after every top-level command" ]
    (fun f -> files := f :: !files) "modelrun [--fuel n] [--no-snap] file...";
  List.iter (fun file ->
      let ic = open_in file in
      let idx = ref 0 in
      let cur = ref None in
      let fresh header = { conf = { k_fin = true; k_weak = true; k_clean = true; k_auto = true; k_debug = true;
                                    k_nsize = N0; k_nalign = N0; k_msize = N0; k_malign = N0; k_thr0 = n_of_int 100 };
                           classes = []; scripts = []; main = []; header } in
      let get () = match !cur with Some p -> p | None -> let p = fresh "" in cur := Some p; p in
      (try
         while true do
           let line = String.trim (input_line ic) in
           if line = "" then ()
           else if line.[0] = '#' then (match !cur with None -> cur := Some (fresh line) | Some _ -> ())
           else begin
             let toks = words line in
             match toks with
             | "conf" :: rest ->
               let l = kv rest in
               let b k = getk l k = "1" in
               let p = get () in
               cur := Some { p with conf = { k_fin = b "fin"; k_weak = b "weak"; k_clean = b "clean"; k_auto = b "auto"; k_debug = b "debug";
                                             k_nsize = num (getk l "nsize"); k_nalign = num (getk l "nalign");
                                             k_msize = num (getk l "msize"); k_malign = num (getk l "malign");
                                             k_thr0 = num (getk l "thr0") } }
             | "class" :: i :: rest ->
               let l = kv rest in
               let opt k = match getk l k with "-" -> None | s -> Some (nat s) in
               let traced = List.init (String.length (getk l "traced")) (fun j -> (getk l "traced").[j] = '1') in
               let c = { c_nf = nat (getk l "nf"); c_traced = traced; c_nw = nat (getk l "nw");
                         c_cleaner = getk l "cleaner" = "1"; c_fin = opt "fin"; c_drop = opt "drop" } in
               let p = get () in cur := Some { p with classes = (int i, c) :: p.classes }
             | "script" :: i :: _ ->
               let p = get () in cur := Some { p with scripts = (int i, parse_cmds (after_colon line)) :: p.scripts }
             | "main" :: _ ->
               let p = get () in cur := Some { p with main = parse_cmds (after_colon line) }
             | ["end"] ->
               run_one (get ()) !idx; incr idx; cur := None
             | _ -> fail ("line: " ^ line)
           end
         done
       with End_of_file -> close_in ic);
      (match !cur with Some p when p.main <> [] -> run_one p !idx | _ -> ())) (List.rev !files)
