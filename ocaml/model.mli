
type __ = Obj.t

val implb : bool -> bool -> bool

val xorb : bool -> bool -> bool

val negb : bool -> bool

type nat =
| O
| S of nat

val option_map : ('a1 -> 'a2) -> 'a1 option -> 'a2 option

type ('a, 'b) sum =
| Inl of 'a
| Inr of 'b

val fst : ('a1 * 'a2) -> 'a1

val snd : ('a1 * 'a2) -> 'a2

val length : 'a1 list -> nat

val app : 'a1 list -> 'a1 list -> 'a1 list

type comparison =
| Eq
| Lt
| Gt

type compareSpecT =
| CompEqT
| CompLtT
| CompGtT

val compareSpec2Type : comparison -> compareSpecT

type 'a compSpecT = compareSpecT

val compSpec2Type : 'a1 -> 'a1 -> comparison -> 'a1 compSpecT

val id : __ -> __

type 'a sig0 = 'a
  (* singleton inductive, whose constructor was exist *)



type uint =
| Nil
| D0 of uint
| D1 of uint
| D2 of uint
| D3 of uint
| D4 of uint
| D5 of uint
| D6 of uint
| D7 of uint
| D8 of uint
| D9 of uint

type signed_int =
| Pos of uint
| Neg of uint

val nzhead : uint -> uint

val unorm : uint -> uint

val norm : signed_int -> signed_int

val revapp : uint -> uint -> uint

val rev : uint -> uint

module Little :
 sig
  val succ : uint -> uint
 end

type uint0 =
| Nil0
| D10 of uint0
| D11 of uint0
| D12 of uint0
| D13 of uint0
| D14 of uint0
| D15 of uint0
| D16 of uint0
| D17 of uint0
| D18 of uint0
| D19 of uint0
| Da of uint0
| Db of uint0
| Dc of uint0
| Dd of uint0
| De of uint0
| Df of uint0

type signed_int0 =
| Pos0 of uint0
| Neg0 of uint0

val nzhead0 : uint0 -> uint0

val unorm0 : uint0 -> uint0

val norm0 : signed_int0 -> signed_int0

val revapp0 : uint0 -> uint0 -> uint0

val rev0 : uint0 -> uint0

module Coq_Little :
 sig
  val succ : uint0 -> uint0
 end

type uint1 =
| UIntDecimal of uint
| UIntHexadecimal of uint0

type signed_int1 =
| IntDecimal of signed_int
| IntHexadecimal of signed_int0

val add : nat -> nat -> nat

val mul : nat -> nat -> nat

type positive =
| XI of positive
| XO of positive
| XH

type n =
| N0
| Npos of positive

val compose : ('a2 -> 'a3) -> ('a1 -> 'a2) -> 'a1 -> 'a3

val eqb : bool -> bool -> bool

type reflect =
| ReflectT
| ReflectF

val iff_reflect : bool -> reflect

module Nat :
 sig
  type t = nat

  val zero : nat

  val one : nat

  val two : nat

  val succ : nat -> nat

  val pred : nat -> nat

  val add : nat -> nat -> nat

  val double : nat -> nat

  val mul : nat -> nat -> nat

  val sub : nat -> nat -> nat

  val eqb : nat -> nat -> bool

  val leb : nat -> nat -> bool

  val ltb : nat -> nat -> bool

  val compare : nat -> nat -> comparison

  val max : nat -> nat -> nat

  val min : nat -> nat -> nat

  val even : nat -> bool

  val odd : nat -> bool

  val pow : nat -> nat -> nat

  val tail_add : nat -> nat -> nat

  val tail_addmul : nat -> nat -> nat -> nat

  val tail_mul : nat -> nat -> nat

  val of_uint_acc : uint -> nat -> nat

  val of_uint : uint -> nat

  val of_hex_uint_acc : uint0 -> nat -> nat

  val of_hex_uint : uint0 -> nat

  val of_num_uint : uint1 -> nat

  val to_little_uint : nat -> uint -> uint

  val to_uint : nat -> uint

  val to_little_hex_uint : nat -> uint0 -> uint0

  val to_hex_uint : nat -> uint0

  val to_num_uint : nat -> uint1

  val to_num_hex_uint : nat -> uint1

  val of_int : signed_int -> nat option

  val of_hex_int : signed_int0 -> nat option

  val of_num_int : signed_int1 -> nat option

  val to_int : nat -> signed_int

  val to_hex_int : nat -> signed_int0

  val to_num_int : nat -> signed_int1

  val divmod : nat -> nat -> nat -> nat -> nat * nat

  val div : nat -> nat -> nat

  val modulo : nat -> nat -> nat

  val gcd : nat -> nat -> nat

  val square : nat -> nat

  val sqrt_iter : nat -> nat -> nat -> nat -> nat

  val sqrt : nat -> nat

  val log2_iter : nat -> nat -> nat -> nat -> nat

  val log2 : nat -> nat

  val iter : nat -> ('a1 -> 'a1) -> 'a1 -> 'a1

  val div2 : nat -> nat

  val testbit : nat -> nat -> bool

  val shiftl : nat -> nat -> nat

  val shiftr : nat -> nat -> nat

  val bitwise : (bool -> bool -> bool) -> nat -> nat -> nat -> nat

  val coq_land : nat -> nat -> nat

  val coq_lor : nat -> nat -> nat

  val ldiff : nat -> nat -> nat

  val coq_lxor : nat -> nat -> nat

  val recursion : 'a1 -> (nat -> 'a1 -> 'a1) -> nat -> 'a1

  val eq_dec : nat -> nat -> bool

  val leb_spec0 : nat -> nat -> reflect

  val ltb_spec0 : nat -> nat -> reflect

  module Private_OrderTac :
   sig
    module IsTotal :
     sig
     end

    module Tac :
     sig
     end
   end

  module Private_Tac :
   sig
   end

  module Private_Dec :
   sig
    val max_case_strong :
      nat -> nat -> (nat -> nat -> __ -> 'a1 -> 'a1) -> (__ -> 'a1) -> (__ ->
      'a1) -> 'a1

    val max_case :
      nat -> nat -> (nat -> nat -> __ -> 'a1 -> 'a1) -> 'a1 -> 'a1 -> 'a1

    val max_dec : nat -> nat -> bool

    val min_case_strong :
      nat -> nat -> (nat -> nat -> __ -> 'a1 -> 'a1) -> (__ -> 'a1) -> (__ ->
      'a1) -> 'a1

    val min_case :
      nat -> nat -> (nat -> nat -> __ -> 'a1 -> 'a1) -> 'a1 -> 'a1 -> 'a1

    val min_dec : nat -> nat -> bool
   end

  val max_case_strong : nat -> nat -> (__ -> 'a1) -> (__ -> 'a1) -> 'a1

  val max_case : nat -> nat -> 'a1 -> 'a1 -> 'a1

  val max_dec : nat -> nat -> bool

  val min_case_strong : nat -> nat -> (__ -> 'a1) -> (__ -> 'a1) -> 'a1

  val min_case : nat -> nat -> 'a1 -> 'a1 -> 'a1

  val min_dec : nat -> nat -> bool

  module Private_Parity :
   sig
   end

  module Private_NZPow :
   sig
   end

  module Private_NZSqrt :
   sig
   end

  val sqrt_up : nat -> nat

  val log2_up : nat -> nat

  module Private_NZDiv :
   sig
   end

  val lcm : nat -> nat -> nat

  val eqb_spec : nat -> nat -> reflect

  val b2n : bool -> nat

  val setbit : nat -> nat -> nat

  val clearbit : nat -> nat -> nat

  val ones : nat -> nat

  val lnot : nat -> nat -> nat

  val coq_Even_Odd_dec : nat -> bool

  type coq_EvenT = nat

  type coq_OddT = nat

  val coq_EvenT_0 : coq_EvenT

  val coq_EvenT_2 : nat -> coq_EvenT -> coq_EvenT

  val coq_OddT_1 : coq_OddT

  val coq_OddT_2 : nat -> coq_OddT -> coq_OddT

  val coq_EvenT_S_OddT : nat -> coq_EvenT -> coq_OddT

  val coq_OddT_S_EvenT : nat -> coq_OddT -> coq_EvenT

  val even_EvenT : nat -> coq_EvenT

  val odd_OddT : nat -> coq_OddT

  val coq_Even_EvenT : nat -> coq_EvenT

  val coq_Odd_OddT : nat -> coq_OddT

  val coq_EvenT_OddT_dec : nat -> (coq_EvenT, coq_OddT) sum

  val coq_OddT_EvenT_rect :
    (nat -> coq_EvenT -> 'a2 -> 'a1) -> 'a2 -> (nat -> coq_OddT -> 'a1 ->
    'a2) -> nat -> coq_OddT -> 'a1

  val coq_EvenT_OddT_rect :
    (nat -> coq_EvenT -> 'a2 -> 'a1) -> 'a2 -> (nat -> coq_OddT -> 'a1 ->
    'a2) -> nat -> coq_EvenT -> 'a2
 end

module Pos :
 sig
  type mask =
  | IsNul
  | IsPos of positive
  | IsNeg
 end

module Coq_Pos :
 sig
  val succ : positive -> positive

  val add : positive -> positive -> positive

  val add_carry : positive -> positive -> positive

  val pred_double : positive -> positive

  type mask = Pos.mask =
  | IsNul
  | IsPos of positive
  | IsNeg

  val succ_double_mask : mask -> mask

  val double_mask : mask -> mask

  val double_pred_mask : positive -> mask

  val sub_mask : positive -> positive -> mask

  val sub_mask_carry : positive -> positive -> mask

  val mul : positive -> positive -> positive

  val iter : ('a1 -> 'a1) -> 'a1 -> positive -> 'a1

  val size : positive -> positive

  val compare_cont : comparison -> positive -> positive -> comparison

  val compare : positive -> positive -> comparison

  val eqb : positive -> positive -> bool

  val shiftl : positive -> n -> positive

  val iter_op : ('a1 -> 'a1 -> 'a1) -> positive -> 'a1 -> 'a1

  val to_nat : positive -> nat

  val of_succ_nat : nat -> positive
 end

module N :
 sig
  val succ_double : n -> n

  val double : n -> n

  val succ : n -> n

  val add : n -> n -> n

  val sub : n -> n -> n

  val mul : n -> n -> n

  val compare : n -> n -> comparison

  val eqb : n -> n -> bool

  val leb : n -> n -> bool

  val ltb : n -> n -> bool

  val div2 : n -> n

  val even : n -> bool

  val odd : n -> bool

  val size : n -> n

  val pos_div_eucl : positive -> n -> n * n

  val div_eucl : n -> n -> n * n

  val modulo : n -> n -> n

  val shiftl : n -> n -> n

  val shiftr : n -> n -> n

  val to_nat : n -> nat

  val of_nat : nat -> n
 end

val le_lt_dec : nat -> nat -> bool

val le_gt_dec : nat -> nat -> bool

val le_dec : nat -> nat -> bool

val lt_dec : nat -> nat -> bool

val hd_error : 'a1 list -> 'a1 option

val tl : 'a1 list -> 'a1 list

val concat : 'a1 list list -> 'a1 list

val map : ('a1 -> 'a2) -> 'a1 list -> 'a2 list

val fold_left : ('a1 -> 'a2 -> 'a1) -> 'a2 list -> 'a1 -> 'a1

val fold_right : ('a2 -> 'a1 -> 'a1) -> 'a1 -> 'a2 list -> 'a1

val existsb : ('a1 -> bool) -> 'a1 list -> bool

val forallb : ('a1 -> bool) -> 'a1 list -> bool

val seq : nat -> nat -> nat list

type mark =
| NM
| PC
| IL
| IQ

val mark_eqb : mark -> mark -> bool

type hdr = { h_rc : n; h_tc : n; h_mark : mark; h_fin : bool; h_side : bool }

val max_rc : n

val tc_dropped : n

val set_rc : n -> hdr -> hdr

val set_tc : n -> hdr -> hdr

val set_mark : mark -> hdr -> hdr

val set_fin : bool -> hdr -> hdr

val set_side : bool -> hdr -> hdr

val hdr_new : bool -> hdr

val inc_rc : hdr -> hdr option

val dec_rc : hdr -> hdr option

val inc_tc : hdr -> hdr option

val reset_tc : hdr -> hdr

val needs_fin : hdr -> bool

val is_dropped : hdr -> bool

val set_dropped : hdr -> hdr

val is_not_marked : hdr -> bool

val is_in_pc : hdr -> bool

val is_in_list : hdr -> bool

val is_in_list_or_queue : hdr -> bool

type wk = { w_cnt : n; w_acc : bool }

val max_weak : n

val wk_new : bool -> wk

val inc_wk : wk -> wk option

val dec_wk : wk -> wk option

val set_acc : bool -> wk -> wk

val is_tracing_spec : bool -> bool -> bool -> bool -> bool

type decision = bool

val decide : decision -> bool

type ('a, 'b) relDecision = 'a -> 'b -> decision

val decide_rel : ('a1, 'a2) relDecision -> 'a1 -> 'a2 -> decision

val zip_with : ('a1 -> 'a2 -> 'a3) -> 'a1 list -> 'a2 list -> 'a3 list

type ('a, 'b) filter = __ -> ('a -> decision) -> 'b -> 'b

val filter0 : ('a1, 'a2) filter -> ('a1 -> decision) -> 'a2 -> 'a2

type 'm mBind = __ -> __ -> (__ -> 'm) -> 'm -> 'm

val mbind : 'a1 mBind -> ('a2 -> 'a1) -> 'a1 -> 'a1

type 'm mJoin = __ -> 'm -> 'm

val mjoin : 'a1 mJoin -> 'a1 -> 'a1

type 'm fMap = __ -> __ -> (__ -> __) -> 'm -> 'm

val fmap : 'a1 fMap -> ('a2 -> 'a3) -> 'a1 -> 'a1

type 'm oMap = __ -> __ -> (__ -> __ option) -> 'm -> 'm

val omap : 'a1 oMap -> ('a2 -> 'a3 option) -> 'a1 -> 'a1

type ('k, 'a, 'm) lookup = 'k -> 'm -> 'a option

val lookup0 : ('a1, 'a2, 'a3) lookup -> 'a1 -> 'a3 -> 'a2 option

type ('k, 'a, 'm) insert = 'k -> 'a -> 'm -> 'm

val insert0 : ('a1, 'a2, 'a3) insert -> 'a1 -> 'a2 -> 'a3 -> 'a3

type ('k, 'a, 'm) alter = ('a -> 'a) -> 'k -> 'm -> 'm

val alter0 : ('a1, 'a2, 'a3) alter -> ('a2 -> 'a2) -> 'a1 -> 'a3 -> 'a3

module Coq_Nat :
 sig
  type t = nat

  val zero : nat

  val one : nat

  val two : nat

  val succ : nat -> nat

  val pred : nat -> nat

  val add : nat -> nat -> nat

  val double : nat -> nat

  val mul : nat -> nat -> nat

  val sub : nat -> nat -> nat

  val eqb : nat -> nat -> bool

  val leb : nat -> nat -> bool

  val ltb : nat -> nat -> bool

  val compare : nat -> nat -> comparison

  val max : nat -> nat -> nat

  val min : nat -> nat -> nat

  val even : nat -> bool

  val odd : nat -> bool

  val pow : nat -> nat -> nat

  val tail_add : nat -> nat -> nat

  val tail_addmul : nat -> nat -> nat -> nat

  val tail_mul : nat -> nat -> nat

  val of_uint_acc : uint -> nat -> nat

  val of_uint : uint -> nat

  val of_hex_uint_acc : uint0 -> nat -> nat

  val of_hex_uint : uint0 -> nat

  val of_num_uint : uint1 -> nat

  val to_little_uint : nat -> uint -> uint

  val to_uint : nat -> uint

  val to_little_hex_uint : nat -> uint0 -> uint0

  val to_hex_uint : nat -> uint0

  val to_num_uint : nat -> uint1

  val to_num_hex_uint : nat -> uint1

  val of_int : signed_int -> nat option

  val of_hex_int : signed_int0 -> nat option

  val of_num_int : signed_int1 -> nat option

  val to_int : nat -> signed_int

  val to_hex_int : nat -> signed_int0

  val to_num_int : nat -> signed_int1

  val divmod : nat -> nat -> nat -> nat -> nat * nat

  val div : nat -> nat -> nat

  val modulo : nat -> nat -> nat

  val gcd : nat -> nat -> nat

  val square : nat -> nat

  val sqrt_iter : nat -> nat -> nat -> nat -> nat

  val sqrt : nat -> nat

  val log2_iter : nat -> nat -> nat -> nat -> nat

  val log2 : nat -> nat

  val iter : nat -> ('a1 -> 'a1) -> 'a1 -> 'a1

  val div2 : nat -> nat

  val testbit : nat -> nat -> bool

  val shiftl : nat -> nat -> nat

  val shiftr : nat -> nat -> nat

  val bitwise : (bool -> bool -> bool) -> nat -> nat -> nat -> nat

  val coq_land : nat -> nat -> nat

  val coq_lor : nat -> nat -> nat

  val ldiff : nat -> nat -> nat

  val coq_lxor : nat -> nat -> nat

  val recursion : 'a1 -> (nat -> 'a1 -> 'a1) -> nat -> 'a1

  val eq_dec : nat -> nat -> bool

  val leb_spec0 : nat -> nat -> reflect

  val ltb_spec0 : nat -> nat -> reflect

  module Private_OrderTac :
   sig
    module IsTotal :
     sig
     end

    module Tac :
     sig
     end
   end

  module Private_Tac :
   sig
   end

  module Private_Dec :
   sig
    val max_case_strong :
      nat -> nat -> (nat -> nat -> __ -> 'a1 -> 'a1) -> (__ -> 'a1) -> (__ ->
      'a1) -> 'a1

    val max_case :
      nat -> nat -> (nat -> nat -> __ -> 'a1 -> 'a1) -> 'a1 -> 'a1 -> 'a1

    val max_dec : nat -> nat -> bool

    val min_case_strong :
      nat -> nat -> (nat -> nat -> __ -> 'a1 -> 'a1) -> (__ -> 'a1) -> (__ ->
      'a1) -> 'a1

    val min_case :
      nat -> nat -> (nat -> nat -> __ -> 'a1 -> 'a1) -> 'a1 -> 'a1 -> 'a1

    val min_dec : nat -> nat -> bool
   end

  val max_case_strong : nat -> nat -> (__ -> 'a1) -> (__ -> 'a1) -> 'a1

  val max_case : nat -> nat -> 'a1 -> 'a1 -> 'a1

  val max_dec : nat -> nat -> bool

  val min_case_strong : nat -> nat -> (__ -> 'a1) -> (__ -> 'a1) -> 'a1

  val min_case : nat -> nat -> 'a1 -> 'a1 -> 'a1

  val min_dec : nat -> nat -> bool

  module Private_Parity :
   sig
   end

  module Private_NZPow :
   sig
   end

  module Private_NZSqrt :
   sig
   end

  val sqrt_up : nat -> nat

  val log2_up : nat -> nat

  module Private_NZDiv :
   sig
   end

  val lcm : nat -> nat -> nat

  val eqb_spec : nat -> nat -> reflect

  val b2n : bool -> nat

  val setbit : nat -> nat -> nat

  val clearbit : nat -> nat -> nat

  val ones : nat -> nat

  val lnot : nat -> nat -> nat

  val coq_Even_Odd_dec : nat -> bool

  type coq_EvenT = nat

  type coq_OddT = nat

  val coq_EvenT_0 : coq_EvenT

  val coq_EvenT_2 : nat -> coq_EvenT -> coq_EvenT

  val coq_OddT_1 : coq_OddT

  val coq_OddT_2 : nat -> coq_OddT -> coq_OddT

  val coq_EvenT_S_OddT : nat -> coq_EvenT -> coq_OddT

  val coq_OddT_S_EvenT : nat -> coq_OddT -> coq_EvenT

  val even_EvenT : nat -> coq_EvenT

  val odd_OddT : nat -> coq_OddT

  val coq_Even_EvenT : nat -> coq_EvenT

  val coq_Odd_OddT : nat -> coq_OddT

  val coq_EvenT_OddT_dec : nat -> (coq_EvenT, coq_OddT) sum

  val coq_OddT_EvenT_rect :
    (nat -> coq_EvenT -> 'a2 -> 'a1) -> 'a2 -> (nat -> coq_OddT -> 'a1 ->
    'a2) -> nat -> coq_OddT -> 'a1

  val coq_EvenT_OddT_rect :
    (nat -> coq_EvenT -> 'a2 -> 'a1) -> 'a2 -> (nat -> coq_OddT -> 'a1 ->
    'a2) -> nat -> coq_EvenT -> 'a2
 end

val not_dec : decision -> decision

val bool_eq_dec : (bool, bool) relDecision

val bool_decide : decision -> bool

val from_option : ('a1 -> 'a2) -> 'a2 -> 'a1 option -> 'a2

val option_bind : (__ -> __ option) -> __ option -> __ option

val option_join : __ option -> __ option

val option_fmap : (__ -> __) -> __ option -> __ option

module Coq0_Nat :
 sig
  val eq_dec : (nat, nat) relDecision

  val lt_dec : (nat, nat) relDecision
 end

val list_lookup : (nat, 'a1, 'a1 list) lookup

val list_alter : (nat, 'a1, 'a1 list) alter

val list_insert : (nat, 'a1, 'a1 list) insert

val list_filter : ('a1 -> decision) -> 'a1 list -> 'a1 list

val replicate : nat -> 'a1 -> 'a1 list

val list_fmap : (__ -> __) -> __ list -> __ list

val list_omap : (__ -> __ option) -> __ list -> __ list

val imap : (nat -> 'a1 -> 'a2) -> 'a1 list -> 'a2 list

type ('r, 't) setter = ('t -> 't) -> 'r -> 'r

val set : ('a1 -> 'a2) -> ('a1, 'a2) setter -> ('a2 -> 'a2) -> 'a1 -> 'a1

type id0 = nat

type loc =
| LS of nat
| LFS of nat
| LFA of nat * nat

type wloc =
| WS of nat
| WFS of nat
| WFA of nat * nat
| WP

type nodeloc =
| NSelf
| NSlot of nat

type cbkind =
| KTrace
| KFin
| KDrop
| KAction
| KClosure

type cmd =
| CNew of loc * nat
| CClone of loc * loc
| CDrop of loc
| CMove of loc * loc
| CMarkAlive of loc
| CCollect
| CDowngrade of loc * wloc
| CUpgrade of wloc * loc
| CWNew of wloc
| CWClone of wloc * wloc
| CWDrop of wloc
| CTryUnwrap of loc * nat
| CDropValue of nat
| CFinAgain of loc
| CNewCyclic of loc * nat * nat * bool
| CRegister of nodeloc * nat * nat
| CClean of nat
| CCDrop of nat
| CBag of loc * n
| CUnbag of n
| CBorrow of nodeloc
| CUnborrow of nodeloc
| CCfgAuto of bool
| CCfgPercent of n * n
| CCfgBuffered of n
| CArm of cbkind * n
| CPanic
| CObs of loc
| CWObs of wloc
| CSObs

type cls = { c_nf : nat; c_traced : bool list; c_nw : nat; c_cleaner : 
             bool; c_fin : nat option; c_drop : nat option }

type prog = { p_classes : cls list; p_scripts : cmd list list;
              p_main : cmd list }

type conf = { k_fin : bool; k_weak : bool; k_clean : bool; k_auto : bool;
              k_debug : bool; k_nsize : n; k_nalign : n; k_msize : n;
              k_malign : n; k_thr0 : n }

type vstate =
| VLive
| VUninit
| VDropping
| VDropped
| VMoved

type bstate =
| BNotYet
| BAlloc
| BFreed

type wref =
| WNull
| WTo of id0

type mslot =
| MVacant
| MAction of nat * nat

type side = { sd_wk : wk; sd_freed : bool }

type obj = { o_hdr : hdr; o_vst : vstate; o_box : bstate;
             o_side : side option; o_cls : nat; o_ismap : bool;
             o_fields : id0 option list; o_wfields : wref option list;
             o_cleaner : id0 option; o_borrowed : bool;
             o_mslots : mslot list; o_mfree : nat list; o_mborrowed : 
             bool }

type cref = { cr_map : id0; cr_slot : nat; cr_aid : nat }

type flags = { fl_c : bool; fl_f : bool; fl_d : bool; fl_t : bool }

type bad =
| UseAfterDrop
| UseAfterFree
| DoubleDrop
| DoubleFree
| UninitDrop
| AssertFail
| Underflow
| BadState
| Abort
| Fuel

type res =
| ROk
| RSkip
| RSome of id0
| RNone
| RUnwrapOk
| RUnwrapErr
| RPanicked

type event =
| ECb of cbkind * nat * flags
| EAlloc of id0 * n * n
| EFree of id0 * n * n
| ESAlloc of id0
| ESFree of id0
| ERes of res
| EObs of id0 * n * n * bool * bool
| EWObs of n * n
| ESObs of n * n option * n * bool
| EBad of bad * nat

type machine = { heap : obj list; pc : id0 list; pc_size : n;
                 pc_alive : bool; st_collecting : bool; st_finalizing : 
                 bool; st_dropping : bool; st_alloc : n; st_exec : n;
                 cf_thr : n; cf_pnum : n; cf_pexp : n; cf_buf : n;
                 cf_auto : bool; slots : id0 option list;
                 wslots : wref option list; cslots : cref option list;
                 values : id0 option list; bag : id0 list;
                 wparam : wref list; fuse_trace : n; fuse_fin : n;
                 fuse_drop : n; fuse_action : n; fuse_closure : n;
                 panicking : bool; next_aid : nat; log : event list;
                 dead : id0 list }

type outcome =
| ONormal
| OPanic
| OAbort
| OFuel

val nslots : nat

val init : conf -> machine

val emit : event -> machine -> machine

val emit_bad : bad -> nat -> machine -> machine

val get : machine -> id0 -> obj option

val upd : id0 -> (obj -> obj) -> machine -> machine

val uhdr : id0 -> (hdr -> hdr) -> machine -> machine

val hdr_of : machine -> id0 -> hdr

val cur_flags : conf -> machine -> flags

val class_of : prog -> nat -> cls

val script_of : prog -> nat -> cmd list

val oscript : prog -> nat option -> cmd list

val get_fuse : cbkind -> machine -> n

val set_fuse : cbkind -> n -> machine -> machine

val tick : cbkind -> machine -> machine * bool

val raise : machine -> outcome

val remove_id : id0 -> id0 list -> id0 list

val dec_size : id0 -> machine -> machine

val remove_from_list : id0 -> machine -> machine

val add_to_list : id0 -> machine -> machine

val dec_rc_m : id0 -> machine -> machine

val box_layout : conf -> obj -> n * n

val dealloc : conf -> id0 -> machine -> machine

val sfree : id0 -> machine -> machine

val uside : id0 -> (wk -> wk) -> machine -> machine

val drop_metadata : conf -> id0 -> machine -> machine

val init_side : id0 -> machine -> machine

val side_wk : machine -> id0 -> wk option

val weak_strong_count : wref -> machine -> machine * n

val weak_weak_count : wref -> machine -> machine * n

val weak_clone : wref -> machine -> machine option

val weak_drop : wref -> machine -> machine

val weak_drop_opt : wref option -> machine -> machine

type rloc =
| RSlot of nat
| RField of id0 * nat

type rwloc =
| RWSlot of nat
| RWField of id0 * nat
| RWParam

val value_accessible : bool -> obj -> bool

val node_via_slot : nat -> machine -> machine * id0 option

val self_node : id0 option -> machine -> id0 option

val resolve : id0 option -> loc -> machine -> machine * rloc option

val wresolve : id0 option -> wloc -> machine -> machine * rwloc option

val nresolve : id0 option -> nodeloc -> machine -> machine * id0 option

val read_loc : rloc -> machine -> id0 option

val write_loc : rloc -> id0 option -> machine -> machine

val read_wloc : rwloc -> machine -> wref option

val write_wloc : rwloc -> wref option -> machine -> machine

val wloc_writable : rwloc -> bool

val traced_children : prog -> machine -> id0 -> machine * id0 list

val is_map : machine -> id0 -> bool

val trace_event : conf -> id0 -> machine -> machine * bool

type tstate = { t_m : machine; t_root : id0 list; t_non : id0 list;
                t_q : id0 list }

val visit_counting : tstate -> id0 -> tstate

val unmark_all : id0 list -> machine -> machine

val reset_buffered : machine -> machine

val process_counting : conf -> prog -> tstate -> id0 -> tstate * bool

val counting : conf -> prog -> nat -> tstate -> (tstate * bool) option

val visit_root : tstate -> id0 -> tstate

val process_root : conf -> prog -> tstate -> id0 -> tstate * bool

val roots : conf -> prog -> nat -> tstate -> (tstate * bool) option

type pass_result =
| PDone of id0 list
| PPanicked
| PFuel

val pass_fuel : machine -> nat

val trace_pass : conf -> prog -> machine -> machine * pass_result

val should_collect : machine -> bool

val round53 : n -> n * n

val fprod_is_zero : n -> n -> bool

val fle_prod : n -> n -> n -> n -> bool

val adjust_up : nat -> n -> n -> n

val adjust_down : conf -> nat -> n -> n -> n -> n -> n

val adjust : conf -> machine -> machine

val adjust_trigger_point : conf -> machine -> machine

val map_insert : id0 -> nat -> nat -> machine -> machine * nat

type call =
| KCmd of id0 option * cmd
| KScript of id0 option * cmd list
| KStore of rloc * id0
| KDropCc of id0
| KDropValue of id0
| KDropFields of id0 * nat
| KDropMapSlots of id0 * nat
| KTrigger
| KCollectCycles
| KCollect
| KCollectLoop of nat
| KCollectOnce
| KFinalizeList of id0 list * id0 list * bool * bool
| KDropList of id0 list * id0 list * bool
| KUnbag of nat
| KCleanRun of id0 * nat * nat

val ok : machine -> res -> machine * outcome

val unwinding : (machine -> machine * outcome) -> machine -> machine * outcome

val new_node : prog -> nat -> machine -> machine * id0

val new_map : machine -> machine * id0

val box_alloc : conf -> id0 -> machine -> machine

val step_script :
  (call -> machine -> machine * outcome) -> id0 option -> cmd list -> machine
  -> machine * outcome

val step_store :
  (call -> machine -> machine * outcome) -> rloc -> id0 -> machine ->
  machine * outcome

val step_drop_cc :
  conf -> prog -> (call -> machine -> machine * outcome) -> id0 -> machine ->
  machine * outcome

val step_drop_value :
  conf -> prog -> (call -> machine -> machine * outcome) -> id0 -> machine ->
  machine * outcome

val step_drop_fields :
  (call -> machine -> machine * outcome) -> id0 -> nat -> machine ->
  machine * outcome

val step_drop_map_slots :
  (call -> machine -> machine * outcome) -> id0 -> nat -> machine ->
  machine * outcome

val step_clean_run :
  conf -> prog -> (call -> machine -> machine * outcome) -> id0 -> nat -> nat
  -> machine -> machine * outcome

val step_trigger :
  conf -> (call -> machine -> machine * outcome) -> machine ->
  machine * outcome

val step_collect_cycles :
  conf -> (call -> machine -> machine * outcome) -> machine ->
  machine * outcome

val step_collect :
  conf -> (call -> machine -> machine * outcome) -> machine ->
  machine * outcome

val step_collect_loop :
  (call -> machine -> machine * outcome) -> nat -> machine ->
  machine * outcome

val step_collect_once :
  conf -> prog -> (call -> machine -> machine * outcome) -> machine ->
  machine * outcome

val step_finalize_list :
  conf -> prog -> (call -> machine -> machine * outcome) -> id0 list -> id0
  list -> bool -> bool -> machine -> machine * outcome

val step_drop_list :
  conf -> (call -> machine -> machine * outcome) -> id0 list -> id0 list ->
  bool -> machine -> machine * outcome

val step_unbag :
  (call -> machine -> machine * outcome) -> nat -> machine ->
  machine * outcome

val cmd_new :
  conf -> prog -> (call -> machine -> machine * outcome) -> id0 option -> loc
  -> nat -> machine -> machine * outcome

val cmd_clone :
  (call -> machine -> machine * outcome) -> id0 option -> loc -> loc ->
  machine -> machine * outcome

val cmd_drop :
  (call -> machine -> machine * outcome) -> id0 option -> loc -> machine ->
  machine * outcome

val cmd_move :
  (call -> machine -> machine * outcome) -> id0 option -> loc -> loc ->
  machine -> machine * outcome

val cmd_mark_alive : id0 option -> loc -> machine -> machine * outcome

val cmd_collect :
  (call -> machine -> machine * outcome) -> id0 option -> machine ->
  machine * outcome

val cmd_downgrade :
  conf -> id0 option -> loc -> wloc -> machine -> machine * outcome

val cmd_upgrade :
  conf -> (call -> machine -> machine * outcome) -> id0 option -> wloc -> loc
  -> machine -> machine * outcome

val cmd_w_new : conf -> id0 option -> wloc -> machine -> machine * outcome

val cmd_w_clone :
  conf -> id0 option -> wloc -> wloc -> machine -> machine * outcome

val cmd_w_drop : conf -> id0 option -> wloc -> machine -> machine * outcome

val cmd_try_unwrap :
  conf -> id0 option -> loc -> nat -> machine -> machine * outcome

val cmd_drop_value :
  (call -> machine -> machine * outcome) -> id0 option -> nat -> machine ->
  machine * outcome

val cmd_fin_again : conf -> id0 option -> loc -> machine -> machine * outcome

val cmd_new_cyclic :
  conf -> prog -> (call -> machine -> machine * outcome) -> id0 option -> loc
  -> nat -> nat -> bool -> machine -> machine * outcome

val cmd_register :
  conf -> prog -> (call -> machine -> machine * outcome) -> id0 option ->
  nodeloc -> nat -> nat -> machine -> machine * outcome

val cmd_clean :
  conf -> (call -> machine -> machine * outcome) -> id0 option -> nat ->
  machine -> machine * outcome

val cmd_c_drop : conf -> id0 option -> nat -> machine -> machine * outcome

val cmd_bag : id0 option -> loc -> n -> machine -> machine * outcome

val cmd_unbag :
  (call -> machine -> machine * outcome) -> id0 option -> n -> machine ->
  machine * outcome

val cmd_borrow : id0 option -> nodeloc -> machine -> machine * outcome

val cmd_unborrow : id0 option -> nodeloc -> machine -> machine * outcome

val cmd_cfg_auto : conf -> id0 option -> bool -> machine -> machine * outcome

val cmd_cfg_percent :
  conf -> id0 option -> n -> n -> machine -> machine * outcome

val cmd_cfg_buffered : conf -> id0 option -> n -> machine -> machine * outcome

val cmd_arm : id0 option -> cbkind -> n -> machine -> machine * outcome

val cmd_panic : id0 option -> machine -> machine * outcome

val cmd_obs : id0 option -> loc -> machine -> machine * outcome

val cmd_w_obs : conf -> id0 option -> wloc -> machine -> machine * outcome

val cmd_s_obs : conf -> id0 option -> machine -> machine * outcome

val step_cmd :
  conf -> prog -> (call -> machine -> machine * outcome) -> id0 option -> cmd
  -> machine -> machine * outcome

val step :
  conf -> prog -> (call -> machine -> machine * outcome) -> call -> machine
  -> machine * outcome

val run : conf -> prog -> nat -> call -> machine -> machine * outcome

val exec_top : conf -> prog -> nat -> cmd -> machine -> machine

val run_main : conf -> prog -> nat -> machine -> machine

val eqb_oid : id0 option -> id0 -> bool

val cnt_opt : id0 -> id0 option list -> nat

val cnt_id : id0 -> id0 list -> nat

val obj_refs : id0 -> obj -> nat

val heap_refs : machine -> id0 -> nat

val ext_refs : machine -> id0 -> nat

val refs : machine -> id0 -> nat

val eqb_wref : wref option -> id0 -> bool

val cnt_w : id0 -> wref option list -> nat

val wrefs : machine -> id0 -> nat

val is_alloc : obj -> bool

val is_live : obj -> bool

val mem_id : id0 -> id0 list -> bool

val handle_locs : machine -> (id0 option * id0) list

val obj_ok : conf -> id0 list -> id0 list -> machine -> id0 -> obj -> bool

val loc_ok : id0 list -> machine -> (id0 option * id0) -> bool

val inv_b : conf -> id0 list -> machine -> bool

val loc_no_self : loc -> bool

val node_no_self : nodeloc -> bool

val cmd_no_self : cmd -> bool

val wf_prog : prog -> bool

val exact_b : id0 list -> machine -> bool

val no_panic_yet : machine -> bool

val no_bad : machine -> bool

val mem_nat : nat -> nat list -> bool

val add_new : nat list -> nat list -> nat list

val closure : (nat -> nat list) -> nat -> nat list -> nat list

val strong_targets : obj -> id0 list

val all_succ : machine -> id0 -> id0 list

val traced_succ : prog -> machine -> id0 -> id0 list

val unreported : prog -> machine -> id0 -> obj -> id0 list

val pin_targets : prog -> machine -> id0 list

val prog_roots : machine -> id0 list

val cover_b : prog -> machine -> bool

val maps_owned_b : machine -> bool
