
type __ = Obj.t

val negb : bool -> bool

type nat =
| O
| S of nat

val option_map : ('a1 -> 'a2) -> 'a1 option -> 'a2 option

val snd : ('a1 * 'a2) -> 'a2

val length : 'a1 list -> nat

val app : 'a1 list -> 'a1 list -> 'a1 list

type comparison =
| Eq
| Lt
| Gt

val id : __ -> __

val add : nat -> nat -> nat

val mul : nat -> nat -> nat

type positive =
| XI of positive
| XO of positive
| XH

type n =
| N0
| Npos of positive

module Nat :
 sig
  val eq_dec : nat -> nat -> bool
 end

module Pos :
 sig
  type mask =
  | IsNul
  | IsPos of positive
  | IsNeg
 end

module Coq_Pos :
 sig
  val succ : positive -> positive

  val add : positive -> positive -> positive

  val add_carry : positive -> positive -> positive

  val pred_double : positive -> positive

  type mask = Pos.mask =
  | IsNul
  | IsPos of positive
  | IsNeg

  val succ_double_mask : mask -> mask

  val double_mask : mask -> mask

  val double_pred_mask : positive -> mask

  val sub_mask : positive -> positive -> mask

  val sub_mask_carry : positive -> positive -> mask

  val mul : positive -> positive -> positive

  val iter : ('a1 -> 'a1) -> 'a1 -> positive -> 'a1

  val size : positive -> positive

  val compare_cont : comparison -> positive -> positive -> comparison

  val compare : positive -> positive -> comparison

  val eqb : positive -> positive -> bool

  val shiftl : positive -> n -> positive

  val iter_op : ('a1 -> 'a1 -> 'a1) -> positive -> 'a1 -> 'a1

  val to_nat : positive -> nat

  val of_succ_nat : nat -> positive
 end

module N :
 sig
  val succ_double : n -> n

  val double : n -> n

  val succ : n -> n

  val add : n -> n -> n

  val sub : n -> n -> n

  val mul : n -> n -> n

  val compare : n -> n -> comparison

  val eqb : n -> n -> bool

  val leb : n -> n -> bool

  val ltb : n -> n -> bool

  val div2 : n -> n

  val even : n -> bool

  val odd : n -> bool

  val size : n -> n

  val pos_div_eucl : positive -> n -> n * n

  val div_eucl : n -> n -> n * n

  val modulo : n -> n -> n

  val shiftl : n -> n -> n

  val shiftr : n -> n -> n

  val to_nat : n -> nat

  val of_nat : nat -> n
 end

val le_lt_dec : nat -> nat -> bool

val le_gt_dec : nat -> nat -> bool

val le_dec : nat -> nat -> bool

val lt_dec : nat -> nat -> bool

val hd_error : 'a1 list -> 'a1 option

val tl : 'a1 list -> 'a1 list

val fold_left : ('a1 -> 'a2 -> 'a1) -> 'a2 list -> 'a1 -> 'a1

type mark =
| NM
| PC
| IL
| IQ

val mark_eqb : mark -> mark -> bool

type hdr = { h_rc : n; h_tc : n; h_mark : mark; h_fin : bool; h_side : bool }

val max_rc : n

val tc_dropped : n

val set_rc : n -> hdr -> hdr

val set_tc : n -> hdr -> hdr

val set_mark : mark -> hdr -> hdr

val set_fin : bool -> hdr -> hdr

val set_side : bool -> hdr -> hdr

val hdr_new : bool -> hdr

val inc_rc : hdr -> hdr option

val dec_rc : hdr -> hdr option

val inc_tc : hdr -> hdr option

val reset_tc : hdr -> hdr

val needs_fin : hdr -> bool

val is_dropped : hdr -> bool

val set_dropped : hdr -> hdr

val is_not_marked : hdr -> bool

val is_in_pc : hdr -> bool

val is_in_list : hdr -> bool

val is_in_list_or_queue : hdr -> bool

type wk = { w_cnt : n; w_acc : bool }

val max_weak : n

val wk_new : bool -> wk

val inc_wk : wk -> wk option

val dec_wk : wk -> wk option

val set_acc : bool -> wk -> wk

val is_tracing_spec : bool -> bool -> bool -> bool -> bool

type decision = bool

val decide : decision -> bool

type ('a, 'b) relDecision = 'a -> 'b -> decision

val decide_rel : ('a1, 'a2) relDecision -> 'a1 -> 'a2 -> decision

val zip_with : ('a1 -> 'a2 -> 'a3) -> 'a1 list -> 'a2 list -> 'a3 list

type ('a, 'b) filter = __ -> ('a -> decision) -> 'b -> 'b

val filter0 : ('a1, 'a2) filter -> ('a1 -> decision) -> 'a2 -> 'a2

type 'm mBind = __ -> __ -> (__ -> 'm) -> 'm -> 'm

val mbind : 'a1 mBind -> ('a2 -> 'a1) -> 'a1 -> 'a1

type 'm mJoin = __ -> 'm -> 'm

val mjoin : 'a1 mJoin -> 'a1 -> 'a1

type 'm fMap = __ -> __ -> (__ -> __) -> 'm -> 'm

val fmap : 'a1 fMap -> ('a2 -> 'a3) -> 'a1 -> 'a1

type 'm oMap = __ -> __ -> (__ -> __ option) -> 'm -> 'm

val omap : 'a1 oMap -> ('a2 -> 'a3 option) -> 'a1 -> 'a1

type ('k, 'a, 'm) lookup = 'k -> 'm -> 'a option

val lookup0 : ('a1, 'a2, 'a3) lookup -> 'a1 -> 'a3 -> 'a2 option

type ('k, 'a, 'm) insert = 'k -> 'a -> 'm -> 'm

val insert0 : ('a1, 'a2, 'a3) insert -> 'a1 -> 'a2 -> 'a3 -> 'a3

type ('k, 'a, 'm) alter = ('a -> 'a) -> 'k -> 'm -> 'm

val alter0 : ('a1, 'a2, 'a3) alter -> ('a2 -> 'a2) -> 'a1 -> 'a3 -> 'a3

val not_dec : decision -> decision

val bool_decide : decision -> bool

val from_option : ('a1 -> 'a2) -> 'a2 -> 'a1 option -> 'a2

val option_bind : (__ -> __ option) -> __ option -> __ option

val option_join : __ option -> __ option

val option_fmap : (__ -> __) -> __ option -> __ option

module Coq_Nat :
 sig
  val eq_dec : (nat, nat) relDecision

  val lt_dec : (nat, nat) relDecision
 end

val list_lookup : (nat, 'a1, 'a1 list) lookup

val list_alter : (nat, 'a1, 'a1 list) alter

val list_insert : (nat, 'a1, 'a1 list) insert

val list_filter : ('a1 -> decision) -> 'a1 list -> 'a1 list

val replicate : nat -> 'a1 -> 'a1 list

val list_fmap : (__ -> __) -> __ list -> __ list

val list_omap : (__ -> __ option) -> __ list -> __ list

type ('r, 't) setter = ('t -> 't) -> 'r -> 'r

val set : ('a1 -> 'a2) -> ('a1, 'a2) setter -> ('a2 -> 'a2) -> 'a1 -> 'a1

type id0 = nat

type loc =
| LS of nat
| LFS of nat
| LFA of nat * nat

type wloc =
| WS of nat
| WFS of nat
| WFA of nat * nat
| WP

type nodeloc =
| NSelf
| NSlot of nat

type cbkind =
| KTrace
| KFin
| KDrop
| KAction
| KClosure

type cmd =
| CNew of loc * nat
| CClone of loc * loc
| CDrop of loc
| CMove of loc * loc
| CMarkAlive of loc
| CCollect
| CDowngrade of loc * wloc
| CUpgrade of wloc * loc
| CWNew of wloc
| CWClone of wloc * wloc
| CWDrop of wloc
| CTryUnwrap of loc * nat
| CDropValue of nat
| CFinAgain of loc
| CNewCyclic of loc * nat * nat * bool
| CRegister of nodeloc * nat * nat
| CClean of nat
| CCDrop of nat
| CBag of loc * n
| CUnbag of n
| CBorrow of nodeloc
| CUnborrow of nodeloc
| CCfgAuto of bool
| CCfgPercent of n * n
| CCfgBuffered of n
| CArm of cbkind * n
| CPanic
| CObs of loc
| CWObs of wloc
| CSObs

type cls = { c_nf : nat; c_traced : bool list; c_nw : nat; c_cleaner : 
             bool; c_fin : nat option; c_drop : nat option }

type prog = { p_classes : cls list; p_scripts : cmd list list;
              p_main : cmd list }

type conf = { k_fin : bool; k_weak : bool; k_clean : bool; k_auto : bool;
              k_debug : bool; k_nsize : n; k_nalign : n; k_msize : n;
              k_malign : n; k_thr0 : n }

type vstate =
| VLive
| VUninit
| VDropping
| VDropped
| VMoved

type bstate =
| BNotYet
| BAlloc
| BFreed

type wref =
| WNull
| WTo of id0

type mslot =
| MVacant
| MAction of nat * nat

type side = { sd_wk : wk; sd_freed : bool }

type obj = { o_hdr : hdr; o_vst : vstate; o_box : bstate;
             o_side : side option; o_cls : nat; o_ismap : bool;
             o_fields : id0 option list; o_wfields : wref option list;
             o_cleaner : id0 option; o_borrowed : bool;
             o_mslots : mslot list; o_mfree : nat list; o_mborrowed : 
             bool }

type cref = { cr_map : id0; cr_slot : nat; cr_aid : nat }

type flags = { fl_c : bool; fl_f : bool; fl_d : bool; fl_t : bool }

type bad =
| UseAfterDrop
| UseAfterFree
| DoubleDrop
| DoubleFree
| UninitDrop
| AssertFail
| Underflow
| BadState
| Abort
| Fuel

type res =
| ROk
| RSkip
| RSome of id0
| RNone
| RUnwrapOk
| RUnwrapErr
| RPanicked

type event =
| ECb of cbkind * nat * flags
| EAlloc of id0 * n * n
| EFree of id0 * n * n
| ESAlloc of id0
| ESFree of id0
| ERes of res
| EObs of id0 * n * n * bool * bool
| EWObs of n * n
| ESObs of n * n option * n * bool
| EBad of bad * nat

type machine = { heap : obj list; pc : id0 list; pc_size : n;
                 pc_alive : bool; st_collecting : bool; st_finalizing : 
                 bool; st_dropping : bool; st_alloc : n; st_exec : n;
                 cf_thr : n; cf_pnum : n; cf_pexp : n; cf_buf : n;
                 cf_auto : bool; slots : id0 option list;
                 wslots : wref option list; cslots : cref option list;
                 values : id0 option list; bag : id0 list;
                 wparam : wref list; fuse_trace : n; fuse_fin : n;
                 fuse_drop : n; fuse_action : n; fuse_closure : n;
                 panicking : bool; next_aid : nat; log : event list }

type outcome =
| ONormal
| OPanic
| OAbort
| OFuel

val nslots : nat

val init : conf -> machine

val emit : event -> machine -> machine

val emit_bad : bad -> nat -> machine -> machine

val get : machine -> id0 -> obj option

val upd : id0 -> (obj -> obj) -> machine -> machine

val uhdr : id0 -> (hdr -> hdr) -> machine -> machine

val hdr_of : machine -> id0 -> hdr

val cur_flags : conf -> machine -> flags

val class_of : prog -> nat -> cls

val script_of : prog -> nat -> cmd list

val oscript : prog -> nat option -> cmd list

val get_fuse : cbkind -> machine -> n

val set_fuse : cbkind -> n -> machine -> machine

val tick : cbkind -> machine -> machine * bool

val raise : machine -> outcome

val remove_id : id0 -> id0 list -> id0 list

val dec_size : id0 -> machine -> machine

val remove_from_list : id0 -> machine -> machine

val add_to_list : id0 -> machine -> machine

val dec_rc_m : id0 -> machine -> machine

val box_layout : conf -> obj -> n * n

val dealloc : conf -> id0 -> machine -> machine

val sfree : id0 -> machine -> machine

val uside : id0 -> (wk -> wk) -> machine -> machine

val drop_metadata : conf -> id0 -> machine -> machine

val init_side : id0 -> machine -> machine

val side_wk : machine -> id0 -> wk option

val weak_strong_count : wref -> machine -> machine * n

val weak_weak_count : wref -> machine -> machine * n

val weak_clone : wref -> machine -> machine option

val weak_drop : wref -> machine -> machine

val weak_drop_opt : wref option -> machine -> machine

type rloc =
| RSlot of nat
| RField of id0 * nat

type rwloc =
| RWSlot of nat
| RWField of id0 * nat
| RWParam

val value_accessible : bool -> obj -> bool

val node_via_slot : nat -> machine -> machine * id0 option

val self_node : id0 option -> machine -> id0 option

val resolve : id0 option -> loc -> machine -> machine * rloc option

val wresolve : id0 option -> wloc -> machine -> machine * rwloc option

val nresolve : id0 option -> nodeloc -> machine -> machine * id0 option

val read_loc : rloc -> machine -> id0 option

val write_loc : rloc -> id0 option -> machine -> machine

val read_wloc : rwloc -> machine -> wref option

val write_wloc : rwloc -> wref option -> machine -> machine

val wloc_writable : rwloc -> bool

val traced_children : prog -> machine -> id0 -> machine * id0 list

val is_map : machine -> id0 -> bool

val trace_event : conf -> id0 -> machine -> machine * bool

type tstate = { t_m : machine; t_root : id0 list; t_non : id0 list;
                t_q : id0 list }

val visit_counting : tstate -> id0 -> tstate

val unmark_all : id0 list -> machine -> machine

val reset_buffered : machine -> machine

val process_counting : conf -> prog -> tstate -> id0 -> tstate * bool

val counting : conf -> prog -> nat -> tstate -> (tstate * bool) option

val visit_root : tstate -> id0 -> tstate

val process_root : conf -> prog -> tstate -> id0 -> tstate * bool

val roots : conf -> prog -> nat -> tstate -> (tstate * bool) option

type pass_result =
| PDone of id0 list
| PPanicked
| PFuel

val pass_fuel : machine -> nat

val trace_pass : conf -> prog -> machine -> machine * pass_result

val should_collect : machine -> bool

val round53 : n -> n * n

val fprod_is_zero : n -> n -> bool

val fle_prod : n -> n -> n -> n -> bool

val adjust_up : nat -> n -> n -> n

val adjust_down : conf -> nat -> n -> n -> n -> n -> n

val adjust : conf -> machine -> machine

val adjust_trigger_point : conf -> machine -> machine

val map_insert : id0 -> nat -> nat -> machine -> machine * nat

type call =
| KCmd of id0 option * cmd
| KScript of id0 option * cmd list
| KStore of rloc * id0
| KDropCc of id0
| KDropValue of id0
| KDropFields of id0 * nat
| KDropMapSlots of id0 * nat
| KTrigger
| KCollectCycles
| KCollect
| KCollectLoop of nat
| KCollectOnce
| KFinalizeList of id0 list * id0 list * bool * bool
| KDropList of id0 list * id0 list * bool
| KUnbag of nat
| KCleanRun of id0 * nat * nat

val ok : machine -> res -> machine * outcome

val unwinding : (machine -> machine * outcome) -> machine -> machine * outcome

val new_node : prog -> nat -> machine -> machine * id0

val new_map : machine -> machine * id0

val box_alloc : conf -> id0 -> machine -> machine

val step_script :
  (call -> machine -> machine * outcome) -> id0 option -> cmd list -> machine
  -> machine * outcome

val step_store :
  (call -> machine -> machine * outcome) -> rloc -> id0 -> machine ->
  machine * outcome

val step_drop_cc :
  conf -> prog -> (call -> machine -> machine * outcome) -> id0 -> machine ->
  machine * outcome

val step_drop_value :
  conf -> prog -> (call -> machine -> machine * outcome) -> id0 -> machine ->
  machine * outcome

val step_drop_fields :
  (call -> machine -> machine * outcome) -> id0 -> nat -> machine ->
  machine * outcome

val step_drop_map_slots :
  (call -> machine -> machine * outcome) -> id0 -> nat -> machine ->
  machine * outcome

val step_clean_run :
  conf -> prog -> (call -> machine -> machine * outcome) -> id0 -> nat -> nat
  -> machine -> machine * outcome

val step_trigger :
  conf -> (call -> machine -> machine * outcome) -> machine ->
  machine * outcome

val step_collect_cycles :
  conf -> (call -> machine -> machine * outcome) -> machine ->
  machine * outcome

val step_collect :
  conf -> (call -> machine -> machine * outcome) -> machine ->
  machine * outcome

val step_collect_loop :
  (call -> machine -> machine * outcome) -> nat -> machine ->
  machine * outcome

val step_collect_once :
  conf -> prog -> (call -> machine -> machine * outcome) -> machine ->
  machine * outcome

val step_finalize_list :
  conf -> prog -> (call -> machine -> machine * outcome) -> id0 list -> id0
  list -> bool -> bool -> machine -> machine * outcome

val step_drop_list :
  conf -> (call -> machine -> machine * outcome) -> id0 list -> id0 list ->
  bool -> machine -> machine * outcome

val step_unbag :
  (call -> machine -> machine * outcome) -> nat -> machine ->
  machine * outcome

val cmd_new :
  conf -> prog -> (call -> machine -> machine * outcome) -> id0 option -> loc
  -> nat -> machine -> machine * outcome

val cmd_clone :
  (call -> machine -> machine * outcome) -> id0 option -> loc -> loc ->
  machine -> machine * outcome

val cmd_drop :
  (call -> machine -> machine * outcome) -> id0 option -> loc -> machine ->
  machine * outcome

val cmd_move :
  (call -> machine -> machine * outcome) -> id0 option -> loc -> loc ->
  machine -> machine * outcome

val cmd_mark_alive : id0 option -> loc -> machine -> machine * outcome

val cmd_collect :
  (call -> machine -> machine * outcome) -> id0 option -> machine ->
  machine * outcome

val cmd_downgrade :
  conf -> id0 option -> loc -> wloc -> machine -> machine * outcome

val cmd_upgrade :
  conf -> (call -> machine -> machine * outcome) -> id0 option -> wloc -> loc
  -> machine -> machine * outcome

val cmd_w_new : conf -> id0 option -> wloc -> machine -> machine * outcome

val cmd_w_clone :
  conf -> id0 option -> wloc -> wloc -> machine -> machine * outcome

val cmd_w_drop : conf -> id0 option -> wloc -> machine -> machine * outcome

val cmd_try_unwrap :
  conf -> id0 option -> loc -> nat -> machine -> machine * outcome

val cmd_drop_value :
  (call -> machine -> machine * outcome) -> id0 option -> nat -> machine ->
  machine * outcome

val cmd_fin_again : conf -> id0 option -> loc -> machine -> machine * outcome

val cmd_new_cyclic :
  conf -> prog -> (call -> machine -> machine * outcome) -> id0 option -> loc
  -> nat -> nat -> bool -> machine -> machine * outcome

val cmd_register :
  conf -> prog -> (call -> machine -> machine * outcome) -> id0 option ->
  nodeloc -> nat -> nat -> machine -> machine * outcome

val cmd_clean :
  conf -> (call -> machine -> machine * outcome) -> id0 option -> nat ->
  machine -> machine * outcome

val cmd_c_drop : conf -> id0 option -> nat -> machine -> machine * outcome

val cmd_bag : id0 option -> loc -> n -> machine -> machine * outcome

val cmd_unbag :
  (call -> machine -> machine * outcome) -> id0 option -> n -> machine ->
  machine * outcome

val cmd_borrow : id0 option -> nodeloc -> machine -> machine * outcome

val cmd_unborrow : id0 option -> nodeloc -> machine -> machine * outcome

val cmd_cfg_auto : conf -> id0 option -> bool -> machine -> machine * outcome

val cmd_cfg_percent :
  conf -> id0 option -> n -> n -> machine -> machine * outcome

val cmd_cfg_buffered : conf -> id0 option -> n -> machine -> machine * outcome

val cmd_arm : id0 option -> cbkind -> n -> machine -> machine * outcome

val cmd_panic : id0 option -> machine -> machine * outcome

val cmd_obs : id0 option -> loc -> machine -> machine * outcome

val cmd_w_obs : conf -> id0 option -> wloc -> machine -> machine * outcome

val cmd_s_obs : conf -> id0 option -> machine -> machine * outcome

val step_cmd :
  conf -> prog -> (call -> machine -> machine * outcome) -> id0 option -> cmd
  -> machine -> machine * outcome

val step :
  conf -> prog -> (call -> machine -> machine * outcome) -> call -> machine
  -> machine * outcome

val run : conf -> prog -> nat -> call -> machine -> machine * outcome

val exec_top : conf -> prog -> nat -> cmd -> machine -> machine

val run_main : conf -> prog -> nat -> machine -> machine
