//! Drives `rust_cc::verif::lists::Arena` (the hook module added by build/lists_hooks.patch) with
//! operation sequences read from a file and prints the full snapshot after every operation, in
//! the format of `RC.Lists.row` (coq/Lists.v, section 7).
//!
//! Input, one case per line:
//!   `<id> <all|last> <nodes> <linked lists> <possible cycles> <queues> : <op> ; <op> ; ...`
//! Operations: `la j i`, `lr j i`, `lf j`, `ld j` (LinkedList add/remove/remove_first/Drop),
//! `pa j i`, `pr j i`, `pf j`, `pd j`, `ps jp jl n`, `pm jp jl mark n` (PossibleCycles ... swap_list,
//! mark_self_and_append), `qa j i`, `qp j`, `qd j` (LinkedQueue add/poll/Drop), `sm i mark`,
//! `st i n` (set the mark / tracing counter of a node).
//!
//! Output: `R <id> <k> <row...>` after the k-th operation (`all`: every k, `last`: the last one),
//! or `P <id> <k>` when the k-th operation panicked (debug assertion / overflow check); the case
//! stops there. `B <id>` is printed (and flushed) before a case starts.
use std::io::Write;
use std::panic::{catch_unwind, AssertUnwindSafe};

use rust_cc::verif::lists::{Arena, ListSnap};

fn enc(p: Option<usize>) -> u64 {
    match p {
        None => 0,
        Some(i) => i as u64 + 1,
    }
}

fn enc_iter(out: &mut Vec<u64>, l: &ListSnap) {
    out.push(l.iter.len() as u64);
    out.extend(l.iter.iter().map(|&i| i as u64 + 1));
}

fn row(arena: &Arena, ret: u64, limit: usize) -> Vec<u64> {
    let s = arena.snapshot(limit);
    let mut out = vec![ret, 0];
    for l in &s.ll {
        out.push(enc(l.first));
        out.push(l.is_empty as u64);
        enc_iter(&mut out, l);
    }
    for l in &s.pc {
        out.push(enc(l.first));
        out.push(l.size as u64);
        out.push(l.is_empty as u64);
        enc_iter(&mut out, l);
    }
    for l in &s.q {
        out.push(enc(l.first));
        out.push(enc(l.last));
        out.push(l.is_empty as u64);
        enc_iter(&mut out, l);
    }
    for n in &s.nodes {
        out.push(enc(n.next));
        out.push(enc(n.prev));
        out.push(n.mark as u64);
        out.push(n.tc as u64);
    }
    out
}

fn apply(arena: &mut Arena, op: &[&str]) -> u64 {
    let a = |k: usize| -> usize { op[k].parse().expect("operand") };
    match op[0] {
        "la" => { arena.ll_add(a(1), a(2)); 0 },
        "lr" => { arena.ll_remove(a(1), a(2)); 0 },
        "lf" => enc(arena.ll_remove_first(a(1))),
        "ld" => { arena.ll_drop(a(1)); 0 },
        "pa" => { arena.pc_add(a(1), a(2)); 0 },
        "pr" => { arena.pc_remove(a(1), a(2)); 0 },
        "pf" => enc(arena.pc_remove_first(a(1))),
        "pd" => { arena.pc_drop(a(1)); 0 },
        "ps" => { arena.pc_swap_list(a(1), a(2), a(3)); 0 },
        "pm" => { arena.pc_mark_self_and_append(a(1), a(3) as u8, a(2), a(4)); 0 },
        "qa" => { arena.q_add(a(1), a(2)); 0 },
        "qp" => enc(arena.q_poll(a(1))),
        "qd" => { arena.q_drop(a(1)); 0 },
        "sm" => { arena.set_mark(a(1), a(2) as u8); 0 },
        "st" => { arena.set_tc(a(1), a(2) as u16); 0 },
        other => panic!("unknown operation {other}"),
    }
}

fn main() {
    let path = std::env::args().nth(1).expect("usage: lists-probe <cases file>");
    let text = std::fs::read_to_string(&path).expect("cases file");
    std::panic::set_hook(Box::new(|_| {}));
    let stdout = std::io::stdout();
    let mut w = std::io::BufWriter::new(stdout.lock());
    for line in text.lines() {
        let line = line.trim();
        if line.is_empty() || line.starts_with('#') {
            continue;
        }
        let (head, ops) = line.split_once(':').expect("case line");
        let h: Vec<&str> = head.split_whitespace().collect();
        let id = h[0];
        let all = h[1] == "all";
        let n = |k: usize| -> usize { h[k].parse().expect("header") };
        let nodes = n(2);
        let limit = nodes + 1;
        let ops: Vec<Vec<&str>> = ops
            .split(';')
            .map(|o| o.split_whitespace().collect::<Vec<_>>())
            .filter(|o| !o.is_empty())
            .collect();
        // `B <id>` is flushed before the case runs: a mutated crate may loop forever
        writeln!(w, "B {id}").unwrap();
        w.flush().unwrap();
        let mut arena = Arena::new(nodes, n(3), n(4), n(5));
        for (k, op) in ops.iter().enumerate() {
            match catch_unwind(AssertUnwindSafe(|| apply(&mut arena, op))) {
                Ok(ret) => {
                    if all || k + 1 == ops.len() {
                        let r = row(&arena, ret, limit);
                        write!(w, "R {id} {k}").unwrap();
                        for x in r {
                            write!(w, " {x}").unwrap();
                        }
                        writeln!(w).unwrap();
                    }
                },
                Err(_) => {
                    writeln!(w, "P {id} {k}").unwrap();
                    break;
                },
            }
        }
        // The lists of a misused arena may panic again while they are dropped (size underflow).
        let _ = catch_unwind(AssertUnwindSafe(move || drop(arena)));
    }
    w.flush().unwrap();
}
