// @generated: verbatim copy of probes/containers/src/support.rs (tools/gen_derive_probes.py)
//! Probe runtime shared by the `containers` and `derive` probe crates (the latter includes this
//! file with `#[path]`).
//!
//! Observation technique (public API + the read-only `rust_cc::verif` hooks only):
//!
//! * `visits`  - how many times each leaf `Cc` is reported by ONE `Trace::trace` call on the probed
//!   value.  The value lives in `Cc<Probe<V>>`; `Probe::trace` forwards to `V::trace` and then,
//!   when armed, unwinds out of the collector (`resume_unwind`, no panic hook involved).  At that
//!   point the counting phase has processed the holder only: every leaf that was reported has
//!   had its tracing counter reset-and-incremented on the first report and incremented on every
//!   further one (src/cc.rs `CcBox::trace`, `Counting` branch), no leaf has been traced itself,
//!   and unwinding only resets marks (lists/queue `Drop`, `ResetMarkDropGuard`), not counters.
//!   Leaves are "pre-cleaned" first (buffered once and collected while externally held), which
//!   leaves their tracing counter at 0 instead of the initial 1, so that "never reported" (0) and
//!   "reported once" (1) differ.  The counter is read through `verif::snap_cc` on an external
//!   handle: `tracing_word & 0x3FFF`.
//! * `utrace` - in the same experiment, the sequence of `trace` calls that reached user values
//!   (`User` records its id, the zero-sized `Zst` records `ZST_TAG`): the observation for element
//!   types that cannot hold a `Cc`.
//! * `e2e` - every leaf points back to the holder (a cycle through every position), all external
//!   handles are dropped, `collect_cycles()` runs; a counting `Drop` tells what was reclaimed.
//! * `keep`/`after` - same, but one owned leaf keeps an external handle during the first
//!   collection (nothing may be reclaimed), then it is released (`after`).
//! * `findirect`/`findrop` - the sequence of user `finalize` calls made by `Finalize::finalize`
//!   on the value, called directly and through the drop of the last `Cc<V>`.
#![allow(dead_code)]

use rust_cc::*;
use std::cell::{Cell, RefCell};
use std::fmt::Write as _;
use std::panic::{catch_unwind, resume_unwind, AssertUnwindSafe};

thread_local! {
    static ARMED: Cell<bool> = const { Cell::new(false) };
    static GEN: Cell<u64> = const { Cell::new(0) };
    static LEAF_DROPS: RefCell<Vec<u32>> = const { RefCell::new(Vec::new()) };
    static HOLDER_DROPS: Cell<u32> = const { Cell::new(0) };
    static FIN_LOG: RefCell<Vec<usize>> = const { RefCell::new(Vec::new()) };
    static TRACE_LOG: RefCell<Vec<usize>> = const { RefCell::new(Vec::new()) };
    pub static OUT: RefCell<String> = const { RefCell::new(String::new()) };
}

/// Pointee of the leaf `Cc`s.  Its `Trace` follows the (type-erased) back edge to the holder
/// without using any built-in container impl.
pub struct Leaf {
    pub id: usize,
    gen: u64,
    back: RefCell<Option<Box<dyn Trace>>>,
}

unsafe impl Trace for Leaf {
    fn trace(&self, ctx: &mut Context<'_>) {
        if let Ok(b) = self.back.try_borrow() {
            if let Some(x) = &*b {
                (**x).trace(ctx);
            }
        }
    }
}

impl Finalize for Leaf {
    fn finalize(&self) {
        if self.gen == GEN.with(|g| g.get()) {
            FIN_LOG.with(|l| l.borrow_mut().push(self.id));
        }
    }
}

impl Drop for Leaf {
    fn drop(&mut self) {
        if self.gen == GEN.with(|g| g.get()) {
            LEAF_DROPS.with(|d| {
                let mut d = d.borrow_mut();
                if self.id < d.len() {
                    d[self.id] += 1;
                }
            });
        }
    }
}

/// A user value: reports no `Cc` when traced (but records the call), records its identity when
/// finalized.
pub struct User {
    pub id: usize,
}

pub fn user(id: usize) -> User {
    User { id }
}

unsafe impl Trace for User {
    fn trace(&self, _: &mut Context<'_>) {
        TRACE_LOG.with(|l| l.borrow_mut().push(self.id));
    }
}

/// An inherent method named like the trait method, with a different (generic) signature: code that
/// reaches `Trace::trace` through method-call syntax on a concrete `User` (e.g. a derive that
/// expands to `field.trace(ctx)` instead of `<Ty as Trace>::trace(field, ctx)`) silently calls this
/// one instead and the field is never traced.
impl User {
    #[allow(dead_code)]
    pub fn trace<M>(&self, _marker: M) {}
}

impl Finalize for User {
    fn finalize(&self) {
        FIN_LOG.with(|l| l.borrow_mut().push(self.id));
    }
}

/// Tag under which the zero-sized user values are recorded (`zst_tag` in coq/Containers.v).
pub const ZST_TAG: usize = 999;

/// A ZERO-SIZED user value (no fields, no identity): both `trace` and `finalize` record the call.
pub struct Zst;

const _: () = assert!(std::mem::size_of::<Zst>() == 0);
const _: () = assert!(std::mem::size_of::<[Zst; 7]>() == 0);
const _: () = assert!(std::mem::size_of::<(Zst, Zst)>() == 0);

unsafe impl Trace for Zst {
    fn trace(&self, _: &mut Context<'_>) {
        TRACE_LOG.with(|l| l.borrow_mut().push(ZST_TAG));
    }
}

impl Finalize for Zst {
    fn finalize(&self) {
        FIN_LOG.with(|l| l.borrow_mut().push(ZST_TAG));
    }
}

struct ProbeUnwind;

/// The holder of the probed value.
pub struct Probe<V: Trace + 'static> {
    pub v: V,
    gen: u64,
}

unsafe impl<V: Trace + 'static> Trace for Probe<V> {
    fn trace(&self, ctx: &mut Context<'_>) {
        self.v.trace(ctx);
        if ARMED.with(|a| a.replace(false)) {
            resume_unwind(Box::new(ProbeUnwind));
        }
    }
}

impl<V: Trace + 'static> Finalize for Probe<V> {}

impl<V: Trace + 'static> Drop for Probe<V> {
    fn drop(&mut self) {
        if self.gen == GEN.with(|g| g.get()) {
            HOLDER_DROPS.with(|h| h.set(h.get() + 1));
        }
    }
}

/// Type-erased operations on a `Cc<Probe<V>>`.
pub trait HolderOps {
    fn buffer(&self);
    fn back_edge(&self) -> Box<dyn Trace>;
}

impl<V: Trace + 'static> HolderOps for Cc<Probe<V>> {
    fn buffer(&self) {
        let c = self.clone();
        drop(c);
    }
    fn back_edge(&self) -> Box<dyn Trace> {
        Box::new(self.clone())
    }
}

pub trait Erased {}
impl<T> Erased for T {}

/// Helpers used by the generated sources for the three `RefCell` states.  A leaked `RefMut` /
/// `Ref` keeps the cell borrowed for the rest of its life (safe Rust).
pub fn rc_free<T>(x: T) -> RefCell<T> {
    RefCell::new(x)
}
pub fn rc_mut<T>(x: T) -> RefCell<T> {
    let c = RefCell::new(x);
    std::mem::forget(c.borrow_mut());
    c
}
pub fn rc_shared<T>(x: T) -> RefCell<T> {
    let c = RefCell::new(x);
    std::mem::forget(c.borrow());
    c
}

fn tracing_count(c: &Cc<Leaf>) -> u16 {
    rust_cc::verif::snap_cc(c).tracing_word & 0x3FFF
}

fn strong_count(c: &Cc<Leaf>) -> u16 {
    rust_cc::verif::snap_cc(c).counter_word & 0x3FFF
}

fn new_gen(k: usize) -> u64 {
    let g = GEN.with(|g| {
        g.set(g.get() + 1);
        g.get()
    });
    LEAF_DROPS.with(|d| {
        let mut d = d.borrow_mut();
        d.clear();
        d.resize(k, 0);
    });
    HOLDER_DROPS.with(|h| h.set(0));
    FIN_LOG.with(|l| l.borrow_mut().clear());
    TRACE_LOG.with(|l| l.borrow_mut().clear());
    g
}

fn fresh_leaves(k: usize, gen: u64) -> Vec<Cc<Leaf>> {
    (0..k).map(|id| Cc::new(Leaf { id, gen, back: RefCell::new(None) })).collect()
}

/// Brings the tracing counter of every leaf to 0 (a fresh allocation starts at 1).
fn preclean(leaves: &[Cc<Leaf>]) {
    for l in leaves {
        let c = l.clone();
        drop(c); // buffers the leaf: add_to_list resets its tracing counter
    }
    collect_cycles(); // externally held: survives, un-marked, counter stays 0
    for l in leaves {
        assert_eq!(tracing_count(l), 0, "preclean failed");
    }
}

fn emit(line: String) {
    OUT.with(|o| {
        let mut o = o.borrow_mut();
        o.push_str(&line);
        o.push('\n');
    });
}

fn vec_line(prefix: String, xs: impl Iterator<Item = u32>) -> String {
    let mut s = prefix;
    for x in xs {
        let _ = write!(s, " {}", x);
    }
    s
}

fn drops_line(prefix: String) -> String {
    let h = HOLDER_DROPS.with(|h| h.get());
    let d = LEAF_DROPS.with(|d| d.borrow().clone());
    vec_line(format!("{} {}", prefix, h), d.into_iter())
}

fn fin_line(prefix: String) -> String {
    let l = FIN_LOG.with(|l| std::mem::take(&mut *l.borrow_mut()));
    vec_line(prefix, l.into_iter().map(|x| x as u32))
}

pub fn make_probe<V: Trace + 'static>(v: V) -> Cc<Probe<V>> {
    Cc::new(Probe { v, gen: GEN.with(|g| g.get()) })
}

/// Runs every observation on one case.  `k` = number of identities, `keep` = the leaf that keeps
/// an external handle in the `keep` observation (-1: none).
pub fn run_case<V: Trace + 'static>(id: usize, k: usize, keep: i64, build: impl Fn(&[Cc<Leaf>]) -> V) {
    run_case_erased(
        id,
        k,
        keep,
        &|l| Box::new(make_probe(build(l))),
        &|l| Box::new(build(l)),
        &|l| Box::new(Cc::new(build(l))),
    );
}

fn run_case_erased(
    id: usize,
    k: usize,
    keep: i64,
    holder: &dyn Fn(&[Cc<Leaf>]) -> Box<dyn HolderOps>,
    boxed: &dyn Fn(&[Cc<Leaf>]) -> Box<dyn Finalize>,
    in_cc: &dyn Fn(&[Cc<Leaf>]) -> Box<dyn Erased>,
) {
    // ---- visits --------------------------------------------------------------------------
    {
        let gen = new_gen(k);
        let leaves = fresh_leaves(k, gen);
        preclean(&leaves);
        let h = holder(&leaves);
        h.buffer();
        TRACE_LOG.with(|l| l.borrow_mut().clear());
        ARMED.with(|a| a.set(true));
        let r = catch_unwind(AssertUnwindSafe(collect_cycles));
        let unwound = match r {
            Err(p) => p.is::<ProbeUnwind>(),
            Ok(()) => false,
        };
        assert!(unwound, "case {}: the holder was not traced", id);
        assert!(!ARMED.with(|a| a.get()));
        emit(vec_line(format!("case {} visits", id), leaves.iter().map(|l| tracing_count(l) as u32)));
        let tl = TRACE_LOG.with(|l| std::mem::take(&mut *l.borrow_mut()));
        emit(vec_line(format!("case {} utrace", id), tl.into_iter().map(|x| x as u32)));
        drop(h);
        drop(leaves);
        collect_cycles();
    }
    // ---- e2e -----------------------------------------------------------------------------
    {
        let gen = new_gen(k);
        let leaves = fresh_leaves(k, gen);
        let h = holder(&leaves);
        for l in &leaves {
            *l.back.borrow_mut() = Some(h.back_edge());
        }
        drop(h);
        drop(leaves);
        collect_cycles();
        emit(drops_line(format!("case {} e2e", id)));
    }
    // ---- keep / after --------------------------------------------------------------------
    if keep >= 0 {
        let gen = new_gen(k);
        let mut leaves = fresh_leaves(k, gen);
        let h = holder(&leaves);
        for l in &leaves {
            *l.back.borrow_mut() = Some(h.back_edge());
        }
        drop(h);
        let kept = leaves[keep as usize].clone();
        leaves.clear();
        collect_cycles();
        emit(drops_line(format!("case {} keep {}", id, keep)));
        drop(kept);
        collect_cycles();
        emit(drops_line(format!("case {} after", id)));
    } else {
        emit(format!("case {} keep none", id));
    }
    // ---- findirect -----------------------------------------------------------------------
    {
        let gen = new_gen(k);
        let leaves = fresh_leaves(k, gen);
        let b = boxed(&leaves);
        FIN_LOG.with(|l| l.borrow_mut().clear());
        (*b).finalize();
        emit(fin_line(format!("case {} findirect", id)));
        drop(b);
        drop(leaves);
        collect_cycles();
    }
    // ---- findrop -------------------------------------------------------------------------
    {
        let gen = new_gen(k);
        let leaves = fresh_leaves(k, gen);
        let c = in_cc(&leaves);
        FIN_LOG.with(|l| l.borrow_mut().clear());
        drop(c); // last Cc<V>: finalizes V, then drops it
        emit(fin_line(format!("case {} findrop", id)));
        new_gen(0); // stop recording: the leaves below are finalized by their own last drop
        drop(leaves);
        collect_cycles();
    }
    flush(); // one write per case: a crash in a later case does not lose the earlier lines
}

pub fn init() {
    rust_cc::config::config(|c| c.set_auto_collect(false)).expect("config");
}

pub fn flush() {
    use std::io::Write;
    let s = OUT.with(|o| std::mem::take(&mut *o.borrow_mut()));
    let stdout = std::io::stdout();
    let mut lock = stdout.lock();
    lock.write_all(s.as_bytes()).unwrap();
}
