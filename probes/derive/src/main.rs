//! C18 correspondence probe: generated types using the real `#[derive(Trace, Finalize)]`,
//! observed with the same technique as the container probes (see support.rs).
//! Build with RUSTFLAGS="--cfg rust_cc_verif".
mod generated;
mod support;

fn main() {
    support::init();
    generated::run_all();
    support::flush();
    generated::needs_drop_report();
}
