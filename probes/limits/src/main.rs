//! C16 limit probe: drives the PUBLIC API of rust-cc to the strong (max_rc) and weak (max_weak)
//! pointer limits, whose values are passed on the command line by tools/check_limits.py after it
//! read them from the Coq development (`Hdr.max_rc`, `Hdr.max_weak`: the constants the theorems
//! `CounterSpec.C16_*` / `WeakSpec.wk_inc_saturates` are about).
//!
//! Every scenario prints `S <name> <key>=<value> ...` lines; the driver compares them with the
//! values computed from the model constants.  A counting global allocator checks that every byte
//! allocated by a scenario is freed when it ends.
use std::alloc::{GlobalAlloc, Layout, System};
use std::cell::{Cell, RefCell};
use std::panic::{catch_unwind, AssertUnwindSafe};
use std::sync::atomic::{AtomicIsize, Ordering};

use rust_cc::weak::Weak;
use rust_cc::{collect_cycles, Cc, Context, Finalize, Trace};

struct Counting;
static LIVE: AtomicIsize = AtomicIsize::new(0);
unsafe impl GlobalAlloc for Counting {
    unsafe fn alloc(&self, l: Layout) -> *mut u8 {
        LIVE.fetch_add(l.size() as isize, Ordering::Relaxed);
        System.alloc(l)
    }
    unsafe fn dealloc(&self, p: *mut u8, l: Layout) {
        LIVE.fetch_sub(l.size() as isize, Ordering::Relaxed);
        System.dealloc(p, l)
    }
}
#[global_allocator]
static A: Counting = Counting;

thread_local! {
    static FIN: Cell<u32> = Cell::new(0);
    static DROP: Cell<u32> = Cell::new(0);
}

struct Node {
    next: RefCell<Option<Cc<Node>>>,
    canary: Cell<u64>,
}
impl Node {
    fn new() -> Node { Node { next: RefCell::new(None), canary: Cell::new(0xC0FFEE) } }
}
unsafe impl Trace for Node {
    fn trace(&self, ctx: &mut Context<'_>) { self.next.trace(ctx); }
}
impl Finalize for Node {
    fn finalize(&self) { FIN.with(|f| f.set(f.get() + 1)); }
}
impl Drop for Node {
    fn drop(&mut self) {
        assert_eq!(self.canary.get(), 0xC0FFEE, "double drop / corrupted value");
        self.canary.set(0xDEAD);
        DROP.with(|f| f.set(f.get() + 1));
    }
}

thread_local! { static STASH: RefCell<Option<Cc<Node>>> = RefCell::new(None); }
struct Maker;
unsafe impl Trace for Maker { fn trace(&self, _: &mut Context<'_>) {} }
impl Finalize for Maker {
    fn finalize(&self) { STASH.with(|s| *s.borrow_mut() = Some(Cc::new(Node::new()))); }
}

fn panics<R>(f: impl FnOnce() -> R) -> bool {
    catch_unwind(AssertUnwindSafe(|| { let _ = f(); })).is_err()
}

fn reset() { FIN.with(|f| f.set(0)); DROP.with(|f| f.set(0)); }
fn fin() -> u32 { FIN.with(|f| f.get()) }
fn dropped() -> u32 { DROP.with(|f| f.get()) }

/// weak limit reached by `how` = "clone" | "downgrade" | "mixed"; object unique / in a cycle
fn weak_limit(name: &str, how: &str, cycle: bool, max_weak: u32) {
    reset();
    let base = LIVE.load(Ordering::Relaxed);
    {
        let cc = Cc::new(Node::new());
        let other = if cycle {
            let o = Cc::new(Node::new());
            *o.next.borrow_mut() = Some(cc.clone());
            *cc.next.borrow_mut() = Some(o.clone());
            Some(o)
        } else { None };
        let w = cc.downgrade();
        let mut v: Vec<Weak<Node>> = Vec::with_capacity(max_weak as usize + 4);
        for i in 1..max_weak {
            let by_clone = match how { "clone" => true, "downgrade" => false, _ => i % 2 == 0 };
            v.push(if by_clone { w.clone() } else { cc.downgrade() });
        }
        let at = cc.weak_count();
        let p_clone = panics(|| w.clone());
        let after_clone = cc.weak_count();
        let p_down = panics(|| cc.downgrade());
        let after_down = w.weak_count();
        let up = w.upgrade();
        let up_some = up.is_some();
        let strong_with_up = cc.strong_count();
        drop(up);
        println!("S {name} at={at} p_clone={} after_clone={after_clone} p_down={} after_down={after_down} up_some={} strong_with_up={strong_with_up} strong={}",
                 p_clone as u8, p_down as u8, up_some as u8, cc.strong_count());
        // one below the limit: creation works again, exactly once
        v.pop();
        let below = cc.weak_count();
        let p_again = panics(|| { v.push(w.clone()); });
        let back = cc.weak_count();
        let p_over = panics(|| { v.push(cc.downgrade()); });
        println!("S {name} below={below} p_again={} back={back} p_over={} len={}", p_again as u8, p_over as u8, v.len() as u32 + 1);
        // the object's later life
        let expected_dead = if cycle { 2 } else { 1 };
        drop(other);
        drop(cc);
        collect_cycles();
        println!("S {name} fin={} dropped={} expected={expected_dead} up_dead={} strong_dead={} weak_dead={}",
                 fin(), dropped(), w.upgrade().is_some() as u8, w.strong_count(), w.weak_count());
        // the limit still holds on the side record of a dead object
        let p_dead = panics(|| w.clone());
        println!("S {name} p_dead={} weak_dead_after={}", p_dead as u8, w.weak_count());
        v.pop();
        let p_dead_below = panics(|| { v.push(w.clone()); });
        println!("S {name} p_dead_below={} weak_dead_back={}", p_dead_below as u8, w.weak_count());
    }
    collect_cycles();
    println!("S {name} leak={}", LIVE.load(Ordering::Relaxed) - base);
}

/// strong limit reached by clone / upgrade / mixed, with a side record, inside a cycle or not
fn strong_limit(name: &str, how: &str, cycle: bool, prefinalized: bool, max_rc: u32) {
    reset();
    let base = LIVE.load(Ordering::Relaxed);
    {
        let cc = if prefinalized {
            // a Cc created inside a finalizer is born already finalized (the flag shares the counter word)
            drop(Cc::new(Maker));
            STASH.with(|s| s.borrow_mut().take()).expect("finalizer ran")
        } else {
            Cc::new(Node::new())
        };
        reset();
        let w = cc.downgrade();
        let mut own = 1u32;
        if cycle {
            *cc.next.borrow_mut() = Some(cc.clone());
            own += 1;
        }
        let mut v: Vec<Cc<Node>> = Vec::with_capacity(max_rc as usize + 4);
        while own < max_rc {
            let by_clone = match how { "clone" => true, "upgrade" => false, _ => own % 2 == 0 };
            v.push(if by_clone { cc.clone() } else { w.upgrade().expect("alive") });
            own += 1;
        }
        let at = cc.strong_count();
        let p_clone = panics(|| cc.clone());
        let after_clone = cc.strong_count();
        let p_up = panics(|| w.upgrade());
        let after_up = w.strong_count();
        println!("S {name} at={at} p_clone={} after_clone={after_clone} p_up={} after_up={after_up} weak={} finalized={}",
                 p_clone as u8, p_up as u8, cc.weak_count(), cc.already_finalized() as u8);
        v.pop();
        let below = cc.strong_count();
        let p_again = panics(|| { v.push(w.upgrade().expect("alive")); });
        let back = cc.strong_count();
        let p_over = panics(|| { v.push(cc.clone()); });
        println!("S {name} below={below} p_again={} back={back} p_over={} canary={}", p_again as u8, p_over as u8, (cc.canary.get() == 0xC0FFEE) as u8);
        v.clear();
        println!("S {name} after_clear={} fin_before={} dropped_before={}", cc.strong_count(), fin(), dropped());
        drop(cc);
        collect_cycles();
        println!("S {name} fin={} dropped={} up_dead={} strong_dead={} weak_dead={}", fin(), dropped(), w.upgrade().is_some() as u8, w.strong_count(), w.weak_count());
    }
    collect_cycles();
    println!("S {name} leak={}", LIVE.load(Ordering::Relaxed) - base);
}

/// C02 in the one API context the program language cannot express: `collect_cycles()` called
/// from inside a `config(|c| ..)` closure (the configuration is borrowed meanwhile).
fn contexts() {
    std::panic::set_hook(Box::new(|_| {}));
    println!("START contexts");
    rust_cc::config::config(|c| c.set_auto_collect(false)).unwrap();
    for inside in [false, true] {
        reset();
        let base = LIVE.load(Ordering::Relaxed);
        {
            let a = Cc::new(Node::new());
            let b = Cc::new(Node::new());
            let c = Cc::new(Node::new());
            *a.next.borrow_mut() = Some(b.clone());
            *b.next.borrow_mut() = Some(c.clone());
            *c.next.borrow_mut() = Some(a.clone());
        }
        let before = rust_cc::state::allocated_bytes().unwrap();
        if inside {
            rust_cc::config::config(|_c| { collect_cycles(); collect_cycles(); }).unwrap();
        } else {
            collect_cycles(); collect_cycles();
        }
        println!("S ctx_collect_{} garbage_before={} fin={} dropped={} bytes={} leak={}",
                 if inside { "in_config_closure" } else { "plain" }, (before > 0) as u8, fin(), dropped(),
                 rust_cc::state::allocated_bytes().unwrap(), LIVE.load(Ordering::Relaxed) - base);
    }
    // Cc::new from inside a config closure (the configuration cannot be read there): no automatic
    // collection may start, whatever the settings; the allocation itself works.
    for auto in [false, true] {
        reset();
        rust_cc::config::config(|c| { c.set_auto_collect(auto); c.set_buffered_objects_threshold(std::num::NonZeroUsize::new(1)); }).unwrap();
        {
            let a = Cc::new(Node::new());
            let b = Cc::new(Node::new());
            *a.next.borrow_mut() = Some(b.clone());
            *b.next.borrow_mut() = Some(a.clone());
        }
        let e0 = rust_cc::state::executions_count().unwrap();
        let made = rust_cc::config::config(|_c| { let x = Cc::new(Node::new()); let ok = x.canary.get() == 0xC0FFEE; drop(x); ok }).unwrap();
        let e1 = rust_cc::state::executions_count().unwrap();
        println!("S ctx_new_in_config_closure_auto{} made={} exec_delta={} garbage_dropped_inside={}", auto as u8, made as u8, e1 - e0, dropped().saturating_sub(1));
        rust_cc::config::config(|c| { c.set_auto_collect(false); c.set_buffered_objects_threshold(None); }).unwrap();
        collect_cycles();
    }
    println!("DONE");
}

fn main() {
    let a: Vec<String> = std::env::args().collect();
    if a.len() > 1 && a[1] == "ctx" { return contexts(); }
    let max_rc: u32 = a[1].parse().unwrap();
    let max_weak: u32 = a[2].parse().unwrap();
    std::panic::set_hook(Box::new(|_| {}));
    println!("START max_rc={max_rc} max_weak={max_weak}");
    rust_cc::config::config(|c| c.set_auto_collect(false)).unwrap();
    for how in ["clone", "downgrade", "mixed"] {
        for cycle in [false, true] {
            weak_limit(&format!("weak_{how}_{}", if cycle { "cycle" } else { "unique" }), how, cycle, max_weak);
        }
    }
    for how in ["clone", "upgrade", "mixed"] {
        for cycle in [false, true] {
            for pre in [false, true] {
                strong_limit(&format!("strong_{how}_{}_{}", if cycle { "cycle" } else { "unique" }, if pre { "prefin" } else { "fresh" }), how, cycle, pre, max_rc);
            }
        }
    }
    println!("DONE");
}
