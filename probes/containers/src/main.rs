//! C17 correspondence probe: runs every generated container case against the real crate and
//! prints one line per observation (see support.rs).  Build with RUSTFLAGS="--cfg rust_cc_verif".
mod generated;
mod support;

fn main() {
    support::init();
    generated::run_all();
    support::flush();
}
