// MUST NOT COMPILE (error E0277): `rust_cc::Cc<u64>` is not `Send`.
// A Cc/Weak that could cross threads would let one thread's collector reach another thread's
// objects; C19's independence rests on this compile-time fact.
fn requires_send<T: Send>() {}

pub fn probe() {
    requires_send::<rust_cc::Cc<u64>>();
}
