// MUST COMPILE: same shape as the compile-fail probes, with types that ARE Send + Sync; shows that
// a failure of the other four files is due to the missing auto traits and not to the build setup.
fn requires_send<T: Send>() {}
fn requires_sync<T: Sync>() {}

pub fn probe() {
    requires_send::<u64>();
    requires_sync::<u64>();
    // the crate is linked and its types are nameable
    let _ = core::mem::size_of::<rust_cc::Cc<u64>>();
    let _ = core::mem::size_of::<rust_cc::weak::Weak<u64>>();
}
