// MUST NOT COMPILE (error E0277): `rust_cc::weak::Weak<u64>` is not `Sync`.
// A Cc/Weak that could cross threads would let one thread's collector reach another thread's
// objects; C19's independence rests on this compile-time fact.
fn requires_sync<T: Sync>() {}

pub fn probe() {
    requires_sync::<rust_cc::weak::Weak<u64>>();
}
