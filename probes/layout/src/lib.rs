//! Shared parts of the layout / forwarding / threads probes:
//! a logging global allocator (never allocates itself), a tiny deterministic RNG, an FNV hasher.
//!
//! The allocator keeps
//!  * a table of ALL live blocks of the process `(ptr, size, align)`; every `dealloc` must hit an
//!    entry with exactly the same size and alignment, otherwise an error counter is bumped and the
//!    first offending event is remembered (double free, free of a pointer that was never
//!    allocated, free with a layout different from the one used to allocate);
//!  * an event log of the alloc/dealloc calls made by the CURRENT THREAD while `record(true)` is
//!    in effect (fixed size, overwritten from the start by `log_reset`).

use std::alloc::{GlobalAlloc, Layout, System};
use std::cell::{Cell, UnsafeCell};
use std::sync::atomic::{AtomicBool, AtomicUsize, Ordering};

pub const TABLE_BITS: usize = 18;
pub const TABLE_SIZE: usize = 1 << TABLE_BITS;
pub const LOG_SIZE: usize = 4096;
pub const QUARANTINE_SIZE: usize = 1 << 16;
pub const POISON: u8 = 0xDD;

#[derive(Copy, Clone, Debug, PartialEq, Eq)]
pub struct Block {
    pub ptr: usize,
    pub size: usize,
    pub align: usize,
}

#[derive(Copy, Clone, Debug, PartialEq, Eq)]
pub enum Kind {
    Alloc,
    Dealloc,
}

#[derive(Copy, Clone, Debug, PartialEq, Eq)]
pub struct Event {
    pub kind: Kind,
    pub blk: Block,
}

#[derive(Copy, Clone, Debug, PartialEq, Eq)]
pub enum AllocError {
    /// dealloc of a pointer that is not live (double free or never allocated)
    NotLive,
    /// dealloc of a live pointer with another size/alignment than it was allocated with
    LayoutMismatch,
    /// the allocator returned a block not aligned as requested or overlapping a live table slot
    BadBlock,
    /// the live table is full
    TableFull,
}

const EMPTY: Block = Block { ptr: 0, size: 0, align: 0 };

struct Shared {
    table: UnsafeCell<[Block; TABLE_SIZE]>,
    log: UnsafeCell<[Event; LOG_SIZE]>,
    first_error: UnsafeCell<Option<(AllocError, Block, Block)>>,
    quarantine: UnsafeCell<[(usize, usize); QUARANTINE_SIZE]>,
}

unsafe impl Sync for Shared {}

static SHARED: Shared = Shared {
    table: UnsafeCell::new([EMPTY; TABLE_SIZE]),
    log: UnsafeCell::new([Event { kind: Kind::Alloc, blk: EMPTY }; LOG_SIZE]),
    first_error: UnsafeCell::new(None),
    quarantine: UnsafeCell::new([(0, 0); QUARANTINE_SIZE]),
};

static LOCK: AtomicBool = AtomicBool::new(false);
static LOG_LEN: AtomicUsize = AtomicUsize::new(0);
static LOG_OVERFLOW: AtomicUsize = AtomicUsize::new(0);
static LIVE_BLOCKS: AtomicUsize = AtomicUsize::new(0);
static LIVE_BYTES: AtomicUsize = AtomicUsize::new(0);
static ERRORS: AtomicUsize = AtomicUsize::new(0);
static TOTAL_ALLOCS: AtomicUsize = AtomicUsize::new(0);
static TOTAL_DEALLOCS: AtomicUsize = AtomicUsize::new(0);
static QUARANTINE_ON: AtomicBool = AtomicBool::new(false);
static QUARANTINE_LEN: AtomicUsize = AtomicUsize::new(0);

thread_local! {
    // const-initialised, no destructor: usable from the allocator at any point of a thread's life
    static IN_ALLOC: Cell<bool> = const { Cell::new(false) };
    static RECORD: Cell<bool> = const { Cell::new(false) };
}

struct Guard;

impl Guard {
    #[inline]
    fn lock() -> Guard {
        while LOCK.compare_exchange_weak(false, true, Ordering::Acquire, Ordering::Relaxed).is_err() {
            std::hint::spin_loop();
        }
        Guard
    }
}

impl Drop for Guard {
    #[inline]
    fn drop(&mut self) {
        LOCK.store(false, Ordering::Release);
    }
}

#[inline]
fn slot_of(ptr: usize) -> usize {
    ((ptr >> 3).wrapping_mul(0x9E37_79B9_7F4A_7C15) >> (64 - TABLE_BITS)) & (TABLE_SIZE - 1)
}

unsafe fn note_error(e: AllocError, got: Block, expected: Block) {
    ERRORS.fetch_add(1, Ordering::Relaxed);
    let fe = &mut *SHARED.first_error.get();
    if fe.is_none() {
        *fe = Some((e, got, expected));
    }
}

unsafe fn push_event(kind: Kind, blk: Block) {
    let n = LOG_LEN.load(Ordering::Relaxed);
    if n < LOG_SIZE {
        (*SHARED.log.get())[n] = Event { kind, blk };
        LOG_LEN.store(n + 1, Ordering::Relaxed);
    } else {
        LOG_OVERFLOW.fetch_add(1, Ordering::Relaxed);
    }
}

unsafe fn table_insert(blk: Block) {
    let table = &mut *SHARED.table.get();
    let mut i = slot_of(blk.ptr);
    for _ in 0..TABLE_SIZE {
        if table[i].ptr == 0 {
            table[i] = blk;
            return;
        }
        if table[i].ptr == blk.ptr {
            // the system allocator handed out a pointer that we still consider live
            note_error(AllocError::BadBlock, blk, table[i]);
            table[i] = blk;
            return;
        }
        i = (i + 1) & (TABLE_SIZE - 1);
    }
    note_error(AllocError::TableFull, blk, EMPTY);
}

unsafe fn table_find(ptr: usize) -> Option<usize> {
    let table = &*SHARED.table.get();
    let mut i = slot_of(ptr);
    for _ in 0..TABLE_SIZE {
        if table[i].ptr == 0 {
            return None;
        }
        if table[i].ptr == ptr {
            return Some(i);
        }
        i = (i + 1) & (TABLE_SIZE - 1);
    }
    None
}

/// Linear-probing deletion with backward shift (no tombstones).
unsafe fn table_remove_at(mut i: usize) {
    let table = &mut *SHARED.table.get();
    let mask = TABLE_SIZE - 1;
    let mut j = i;
    loop {
        j = (j + 1) & mask;
        if table[j].ptr == 0 {
            break;
        }
        let k = slot_of(table[j].ptr);
        // move table[j] into the hole i unless its home slot k lies cyclically in (i, j]
        let in_range = if i <= j { i < k && k <= j } else { i < k || k <= j };
        if !in_range {
            table[i] = table[j];
            i = j;
        }
    }
    table[i] = EMPTY;
}

pub struct LogAlloc;

unsafe impl GlobalAlloc for LogAlloc {
    unsafe fn alloc(&self, layout: Layout) -> *mut u8 {
        let p = System.alloc(layout);
        if p.is_null() {
            return p;
        }
        // Re-entrancy guard: nothing below allocates, but stay safe if it ever does.
        let reentrant = IN_ALLOC.with(|f| f.replace(true));
        if !reentrant {
            let blk = Block { ptr: p as usize, size: layout.size(), align: layout.align() };
            {
                let _g = Guard::lock();
                if blk.ptr % blk.align != 0 {
                    note_error(AllocError::BadBlock, blk, EMPTY);
                }
                table_insert(blk);
                if RECORD.with(|r| r.get()) {
                    push_event(Kind::Alloc, blk);
                }
            }
            LIVE_BLOCKS.fetch_add(1, Ordering::Relaxed);
            LIVE_BYTES.fetch_add(blk.size, Ordering::Relaxed);
            TOTAL_ALLOCS.fetch_add(1, Ordering::Relaxed);
            IN_ALLOC.with(|f| f.set(false));
        }
        p
    }

    unsafe fn dealloc(&self, ptr: *mut u8, layout: Layout) {
        let reentrant = IN_ALLOC.with(|f| f.replace(true));
        if reentrant {
            System.dealloc(ptr, layout);
            return;
        }
        let blk = Block { ptr: ptr as usize, size: layout.size(), align: layout.align() };
        let found: Option<Block>;
        {
            let _g = Guard::lock();
            if RECORD.with(|r| r.get()) {
                push_event(Kind::Dealloc, blk);
            }
            found = match table_find(blk.ptr) {
                None => {
                    note_error(AllocError::NotLive, blk, EMPTY);
                    None
                },
                Some(i) => {
                    let have = (*SHARED.table.get())[i];
                    if have != blk {
                        note_error(AllocError::LayoutMismatch, blk, have);
                    }
                    // remove BEFORE giving the memory back, so that a concurrent alloc that receives
                    // the same address never finds it still registered
                    table_remove_at(i);
                    Some(have)
                },
            };
        }
        IN_ALLOC.with(|f| f.set(false));
        match found {
            Some(have) => {
                LIVE_BLOCKS.fetch_sub(1, Ordering::Relaxed);
                LIVE_BYTES.fetch_sub(have.size, Ordering::Relaxed);
                TOTAL_DEALLOCS.fetch_add(1, Ordering::Relaxed);
                // free with the layout the block was really allocated with, so that a wrong layout
                // passed by the code under test is REPORTED instead of corrupting the heap
                if QUARANTINE_ON.load(Ordering::Relaxed) {
                    // poison and keep: a later write through a dangling pointer is found by
                    // `quarantine_scan`, a later read sees 0xDD.. (a wild pointer / absurd counter)
                    let slot = QUARANTINE_LEN.fetch_add(1, Ordering::Relaxed);
                    if slot < QUARANTINE_SIZE {
                        std::ptr::write_bytes(ptr, POISON, have.size);
                        let _g = Guard::lock();
                        (*SHARED.quarantine.get())[slot] = (have.ptr, have.size);
                        return;
                    }
                }
                System.dealloc(ptr, Layout::from_size_align_unchecked(have.size, have.align));
            },
            None => {
                // double free / free of a never-allocated pointer: do not forward it, the probe must
                // survive to report it
            },
        }
    }
}

/// Start/stop recording the current thread's allocator events.
pub fn record(on: bool) {
    RECORD.with(|r| r.set(on));
}

pub fn log_reset() {
    let _g = Guard::lock();
    LOG_LEN.store(0, Ordering::Relaxed);
    LOG_OVERFLOW.store(0, Ordering::Relaxed);
}

pub fn log_len() -> usize {
    LOG_LEN.load(Ordering::Relaxed)
}

pub fn log_overflow() -> usize {
    LOG_OVERFLOW.load(Ordering::Relaxed)
}

/// Copy of the events `[from, log_len())` (allocates: call with recording off).
pub fn log_since(from: usize) -> Vec<Event> {
    let was = RECORD.with(|r| r.replace(false));
    let mut v = Vec::with_capacity(64);
    {
        let n = LOG_LEN.load(Ordering::Relaxed);
        for i in from..n {
            let e = {
                let _g = Guard::lock();
                unsafe { (*SHARED.log.get())[i] }
            };
            v.push(e);
        }
    }
    RECORD.with(|r| r.set(was));
    v
}

pub fn is_live(ptr: usize) -> Option<Block> {
    let _g = Guard::lock();
    unsafe { table_find(ptr).map(|i| (*SHARED.table.get())[i]) }
}

pub fn live_blocks() -> usize {
    LIVE_BLOCKS.load(Ordering::Relaxed)
}

pub fn live_bytes() -> usize {
    LIVE_BYTES.load(Ordering::Relaxed)
}

pub fn total_allocs() -> usize {
    TOTAL_ALLOCS.load(Ordering::Relaxed)
}

pub fn total_deallocs() -> usize {
    TOTAL_DEALLOCS.load(Ordering::Relaxed)
}

pub fn alloc_errors() -> usize {
    ERRORS.load(Ordering::Relaxed)
}

pub fn first_alloc_error() -> Option<(AllocError, Block, Block)> {
    let _g = Guard::lock();
    unsafe { *SHARED.first_error.get() }
}

/// Forget recorded allocator errors (used by the layout probe between cases, after reporting).
pub fn clear_alloc_errors() {
    let _g = Guard::lock();
    ERRORS.store(0, Ordering::Relaxed);
    unsafe {
        *SHARED.first_error.get() = None;
    }
}

/// From now on freed blocks are poisoned and never given back to the system.
pub fn quarantine(on: bool) {
    QUARANTINE_ON.store(on, Ordering::SeqCst);
}

/// `(quarantined blocks, blocks whose poison was overwritten after the free)`.
pub fn quarantine_scan() -> (usize, usize) {
    let n = QUARANTINE_LEN.load(Ordering::SeqCst).min(QUARANTINE_SIZE);
    let mut corrupted = 0;
    for i in 0..n {
        let (p, size) = {
            let _g = Guard::lock();
            unsafe { (*SHARED.quarantine.get())[i] }
        };
        if p == 0 {
            continue;
        }
        let bytes = unsafe { std::slice::from_raw_parts(p as *const u8, size) };
        if bytes.iter().any(|b| *b != POISON) {
            corrupted += 1;
        }
    }
    (n, corrupted)
}

// ------------------------------------------------------------------------------------------------

/// xorshift64*: all randomness of the probes derives from the seed given on the command line.
#[derive(Clone)]
pub struct Rng(pub u64);

impl Rng {
    pub fn new(seed: u64) -> Rng {
        let mut r = Rng(seed.wrapping_mul(0x9E37_79B9_7F4A_7C15) ^ 0xD1B5_4A32_D192_ED03);
        if r.0 == 0 {
            r.0 = 0x1234_5678_9ABC_DEF1;
        }
        for _ in 0..4 {
            r.next();
        }
        r
    }

    pub fn next(&mut self) -> u64 {
        let mut x = self.0;
        x ^= x >> 12;
        x ^= x << 25;
        x ^= x >> 27;
        self.0 = x;
        x.wrapping_mul(0x2545_F491_4F6C_DD1D)
    }

    pub fn below(&mut self, n: usize) -> usize {
        if n == 0 {
            0
        } else {
            (self.next() >> 11) as usize % n
        }
    }

    pub fn chance(&mut self, num: usize, den: usize) -> bool {
        self.below(den) < num
    }
}

/// FNV-1a, 64 bit: a deterministic `Hasher`.
pub struct Fnv(pub u64);

impl Fnv {
    pub fn new() -> Fnv {
        Fnv(0xcbf2_9ce4_8422_2325)
    }
}

impl Default for Fnv {
    fn default() -> Self {
        Fnv::new()
    }
}

impl std::hash::Hasher for Fnv {
    fn finish(&self) -> u64 {
        self.0
    }

    fn write(&mut self, bytes: &[u8]) {
        for b in bytes {
            self.0 ^= *b as u64;
            self.0 = self.0.wrapping_mul(0x0000_0100_0000_01b3);
        }
    }
}

pub fn parse_seed(args: &[String]) -> u64 {
    let mut i = 0;
    while i < args.len() {
        if args[i] == "--seed" && i + 1 < args.len() {
            return args[i + 1].parse().unwrap_or(1);
        }
        i += 1;
    }
    std::env::var("VERIF_SEED").ok().and_then(|s| s.parse().ok()).unwrap_or(1)
}
