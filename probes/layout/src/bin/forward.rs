//! Forwarding probe (C20, trait half): every comparison / hashing / formatting operation is
//! computed on `Cc<T>` and directly on `T`; one line per computation
//!   fwd <type> <op> <a> <b> cc=<result> t=<result>
//! /verif/tools/check_forward.py flags every line whose two results differ.
//! Lines starting with `fwdinfo` are informational (operations outside the contract of the
//! property, see `Wne` below): a difference there is reported, not failed.

use std::cmp::Ordering;
use std::fmt::{self, Debug, Display};
use std::hash::{Hash, Hasher};
use std::io::Write;

use layout_probes as lp;
use rust_cc::{Cc, Context, Finalize, Trace};

#[global_allocator]
static ALLOC: lp::LogAlloc = lp::LogAlloc;

fn san(s: String) -> String {
    let mut out = String::with_capacity(s.len());
    for c in s.chars() {
        match c {
            ' ' => out.push('_'),
            '\n' => out.push_str("\\n"),
            '\t' => out.push_str("\\t"),
            c if (c as u32) < 0x20 => out.push_str(&format!("\\x{:02x}", c as u32)),
            c => out.push(c),
        }
    }
    if out.is_empty() {
        out.push_str("<empty>");
    }
    out
}

fn dbg<T: Debug>(t: &T) -> String {
    san(format!("{:?}", t))
}

struct Out {
    w: std::io::BufWriter<std::io::Stdout>,
    lines: usize,
    diffs: usize,
}

impl Out {
    fn line(&mut self, tag: &str, ty: &str, op: &str, a: &str, b: &str, cc: String, t: String) {
        self.lines += 1;
        if cc != t {
            self.diffs += 1;
        }
        writeln!(self.w, "{} {} {} {} {} cc={} t={}", tag, ty, op, a, b, cc, t).unwrap();
    }
}

/// ==, !=, <, <=, >, >=, partial_cmp over all pairs, on distinct allocations and - for the
/// diagonal - also on two handles of the SAME allocation (a pointer-equality shortcut in `eq`
/// would make `Cc(NaN) == Cc(NaN)` true).
fn cmp_ops<T>(out: &mut Out, tag: &str, ty: &str, vals: &[T], ops: &[&str])
where
    T: Trace + Clone + Debug + PartialEq + PartialOrd + 'static,
{
    let want = |o: &str| ops.is_empty() || ops.contains(&o);
    for a in vals {
        for b in vals {
            let ca = Cc::new(a.clone());
            let cb = Cc::new(b.clone());
            let (la, lb) = (dbg(a), dbg(b));
            if want("eq") {
                out.line(tag, ty, "eq", &la, &lb, (ca == cb).to_string(), (*a == *b).to_string());
            }
            if want("ne") {
                out.line(tag, ty, "ne", &la, &lb, (ca != cb).to_string(), (*a != *b).to_string());
            }
            if want("lt") {
                out.line(tag, ty, "lt", &la, &lb, (ca < cb).to_string(), (*a < *b).to_string());
            }
            if want("le") {
                out.line(tag, ty, "le", &la, &lb, (ca <= cb).to_string(), (*a <= *b).to_string());
            }
            if want("gt") {
                out.line(tag, ty, "gt", &la, &lb, (ca > cb).to_string(), (*a > *b).to_string());
            }
            if want("ge") {
                out.line(tag, ty, "ge", &la, &lb, (ca >= cb).to_string(), (*a >= *b).to_string());
            }
            if want("partial_cmp") {
                out.line(tag, ty, "partial_cmp", &la, &lb, dbg(&ca.partial_cmp(&cb)), dbg(&a.partial_cmp(b)));
            }
        }
        // same allocation
        let ca = Cc::new(a.clone());
        let cb = ca.clone();
        let la = dbg(a);
        if want("eq") {
            out.line(tag, ty, "eq@same", &la, &la, (ca == cb).to_string(), (*a == *a).to_string());
        }
        if want("ne") {
            out.line(tag, ty, "ne@same", &la, &la, (ca != cb).to_string(), (*a != *a).to_string());
        }
        if want("le") {
            out.line(tag, ty, "le@same", &la, &la, (ca <= cb).to_string(), (*a <= *a).to_string());
        }
        if want("lt") {
            out.line(tag, ty, "lt@same", &la, &la, (ca < cb).to_string(), (*a < *a).to_string());
        }
        if want("partial_cmp") {
            out.line(tag, ty, "partial_cmp@same", &la, &la, dbg(&ca.partial_cmp(&cb)), dbg(&a.partial_cmp(a)));
        }
    }
}

fn ord_ops<T>(out: &mut Out, ty: &str, vals: &[T])
where
    T: Trace + Clone + Debug + Ord + 'static,
{
    for a in vals {
        for b in vals {
            let ca = Cc::new(a.clone());
            let cb = Cc::new(b.clone());
            let (la, lb) = (dbg(a), dbg(b));
            out.line("fwd", ty, "cmp", &la, &lb, dbg(&ca.cmp(&cb)), dbg(&a.cmp(b)));
            out.line("fwd", ty, "max", &la, &lb, dbg(&*Ord::max(ca.clone(), cb.clone())), dbg(&Ord::max(a.clone(), b.clone())));
            out.line("fwd", ty, "min", &la, &lb, dbg(&*Ord::min(ca.clone(), cb.clone())), dbg(&Ord::min(a.clone(), b.clone())));
        }
        let ca = Cc::new(a.clone());
        let cb = ca.clone();
        let la = dbg(a);
        out.line("fwd", ty, "cmp@same", &la, &la, dbg(&ca.cmp(&cb)), dbg(&a.cmp(a)));
    }
}

fn hash_ops<T>(out: &mut Out, ty: &str, vals: &[T])
where
    T: Trace + Clone + Debug + Hash + 'static,
{
    for a in vals {
        let ca = Cc::new(a.clone());
        let mut h1 = lp::Fnv::new();
        ca.hash(&mut h1);
        let mut h2 = lp::Fnv::new();
        a.hash(&mut h2);
        out.line("fwd", ty, "hash", &dbg(a), "-", format!("{:016x}", h1.finish()), format!("{:016x}", h2.finish()));
        // a second allocation with the same value hashes the same (the address is not hashed)
        let cb = Cc::new(a.clone());
        let mut h3 = lp::Fnv::new();
        cb.hash(&mut h3);
        out.line("fwd", ty, "hash@other_alloc", &dbg(a), "-", format!("{:016x}", h3.finish()), format!("{:016x}", h2.finish()));
        // through a slice: Hash::hash_slice
        let mut h4 = lp::Fnv::new();
        Hash::hash_slice(&[ca.clone(), cb.clone()], &mut h4);
        let mut h5 = lp::Fnv::new();
        Hash::hash_slice(&[a.clone(), a.clone()], &mut h5);
        out.line("fwd", ty, "hash_slice", &dbg(a), "-", format!("{:016x}", h4.finish()), format!("{:016x}", h5.finish()));
    }
}

fn debug_ops<T>(out: &mut Out, ty: &str, vals: &[T])
where
    T: Trace + Clone + Debug + 'static,
{
    for a in vals {
        let ca = Cc::new(a.clone());
        out.line("fwd", ty, "debug", &dbg(a), "-", san(format!("{:?}", ca)), san(format!("{:?}", a)));
        out.line("fwd", ty, "debug_alt", &dbg(a), "-", san(format!("{:#?}", ca)), san(format!("{:#?}", a)));
        out.line("fwd", ty, "debug_width", &dbg(a), "-", san(format!("{:>12?}", ca)), san(format!("{:>12?}", a)));
    }
}

fn display_ops<T>(out: &mut Out, ty: &str, vals: &[T])
where
    T: Trace + Clone + Debug + Display + 'static,
{
    for a in vals {
        let ca = Cc::new(a.clone());
        out.line("fwd", ty, "display", &dbg(a), "-", san(format!("{}", ca)), san(format!("{}", a)));
        out.line("fwd", ty, "display_width", &dbg(a), "-", san(format!("{:>12}", ca)), san(format!("{:>12}", a)));
        out.line("fwd", ty, "display_prec", &dbg(a), "-", san(format!("{:<+9.3}", ca)), san(format!("{:<+9.3}", a)));
        out.line("fwd", ty, "to_string", &dbg(a), "-", san(ca.to_string()), san(a.to_string()));
    }
}

fn default_op<T>(out: &mut Out, ty: &str)
where
    T: Trace + Default + Debug + PartialEq + 'static,
{
    let c: Cc<T> = Default::default();
    let t: T = Default::default();
    out.line("fwd", ty, "default", "-", "-", dbg(&*c), dbg(&t));
    out.line("fwd", ty, "default_eq", "-", "-", (*c == t).to_string(), (t == t).to_string());
    let d: Cc<T> = Cc::default();
    out.line("fwd", ty, "default_fresh_alloc", "-", "-", (!Cc::ptr_eq(&c, &d)).to_string(), "true".to_string());
}

// ---------------------------------------------------------------------------------------------
// A type whose comparison operators are deliberately unrelated to each other: a forwarding impl
// that calls the wrong operator, swaps the operands, or derives one operator from another is
// observable. (`ne` stays the negation of `eq`: `Cc` implements only `eq`, see `Wne`.)

#[derive(Clone, Default)]
struct W(i32);

unsafe impl Trace for W {
    fn trace(&self, _: &mut Context<'_>) {}
}

impl Finalize for W {}

fn ord3(n: i32) -> Ordering {
    match n.rem_euclid(3) {
        0 => Ordering::Less,
        1 => Ordering::Equal,
        _ => Ordering::Greater,
    }
}

impl PartialEq for W {
    fn eq(&self, o: &W) -> bool {
        (self.0 + 2 * o.0).rem_euclid(5) == 0
    }
}

impl Eq for W {}

impl PartialOrd for W {
    fn partial_cmp(&self, o: &W) -> Option<Ordering> {
        match (3 * self.0 + 5 * o.0).rem_euclid(4) {
            3 => None,
            n => Some(ord3(n)),
        }
    }

    fn lt(&self, o: &W) -> bool {
        (7 * self.0 + 3 * o.0).rem_euclid(11) < 4
    }

    fn le(&self, o: &W) -> bool {
        (5 * self.0 + 2 * o.0).rem_euclid(7) < 3
    }

    fn gt(&self, o: &W) -> bool {
        (self.0 + 6 * o.0).rem_euclid(13) < 5
    }

    fn ge(&self, o: &W) -> bool {
        (2 * self.0 + 9 * o.0).rem_euclid(17) < 8
    }
}

impl Ord for W {
    fn cmp(&self, o: &W) -> Ordering {
        ord3(11 * self.0 + 7 * o.0)
    }
}

impl Hash for W {
    fn hash<H: Hasher>(&self, h: &mut H) {
        h.write_u8(0x5A);
        h.write_i32(self.0.wrapping_mul(31).wrapping_add(7));
        h.write_u8(0xA5);
    }
}

impl Debug for W {
    fn fmt(&self, f: &mut fmt::Formatter<'_>) -> fmt::Result {
        if f.alternate() {
            write!(f, "W#<{}>", self.0)
        } else if let Some(w) = f.width() {
            write!(f, "W[{}]<{}>", w, self.0)
        } else {
            write!(f, "W<{}>", self.0)
        }
    }
}

impl Display for W {
    fn fmt(&self, f: &mut fmt::Formatter<'_>) -> fmt::Result {
        write!(f, "w:{}:{:?}:{:?}:{}", self.0, f.width(), f.precision(), f.sign_plus())
    }
}

/// Like `W`, but `ne` is NOT the negation of `eq` (this violates the documented contract of
/// `PartialEq`). `impl PartialEq for Cc<T>` defines only `eq`, so `Cc<Wne> != Cc<Wne>` is
/// `!Wne::eq`, not `Wne::ne`. Printed as `fwdinfo`.
#[derive(Clone, Default, Debug)]
struct Wne(i32);

unsafe impl Trace for Wne {
    fn trace(&self, _: &mut Context<'_>) {}
}

impl Finalize for Wne {}

impl PartialEq for Wne {
    fn eq(&self, o: &Wne) -> bool {
        (self.0 + 2 * o.0).rem_euclid(5) == 0
    }

    #[allow(clippy::partialeq_ne_impl)]
    fn ne(&self, o: &Wne) -> bool {
        (3 * self.0 + o.0).rem_euclid(4) == 1
    }
}

impl PartialOrd for Wne {
    fn partial_cmp(&self, o: &Wne) -> Option<Ordering> {
        self.0.partial_cmp(&o.0)
    }
}

/// `Cc::ptr_eq` / `Weak::ptr_eq`: true exactly for handles of the same allocation, also when a dead
/// `Weak` is compared with the `Weak` of a later object that the allocator placed at the same address.
fn ptr_eq_ops(out: &mut Out) {
    use rust_cc::weak::Weak;
    let a = Cc::new(7u64);
    let b = Cc::new(7u64);
    let a2 = a.clone();
    out.line("fwd", "u64", "cc_ptr_eq_same", "-", "-", Cc::ptr_eq(&a, &a2).to_string(), "true".to_string());
    out.line("fwd", "u64", "cc_ptr_eq_distinct", "-", "-", Cc::ptr_eq(&a, &b).to_string(), "false".to_string());
    let (wa, wa2, wb) = (a.downgrade(), a.downgrade(), b.downgrade());
    let wa3 = wa.clone();
    out.line("fwd", "u64", "weak_ptr_eq_same_downgrade", "-", "-", Weak::ptr_eq(&wa, &wa2).to_string(), "true".to_string());
    out.line("fwd", "u64", "weak_ptr_eq_same_clone", "-", "-", Weak::ptr_eq(&wa, &wa3).to_string(), "true".to_string());
    out.line("fwd", "u64", "weak_ptr_eq_distinct", "-", "-", Weak::ptr_eq(&wa, &wb).to_string(), "false".to_string());
    let (n1, n2): (Weak<u64>, Weak<u64>) = (Weak::new(), Weak::new());
    out.line("fwd", "u64", "weak_ptr_eq_new_new", "-", "-", Weak::ptr_eq(&n1, &n2).to_string(), "true".to_string());
    out.line("fwd", "u64", "weak_ptr_eq_new_live", "-", "-", Weak::ptr_eq(&n1, &wa).to_string(), "false".to_string());
    out.line("fwd", "u64", "weak_ptr_eq_live_new", "-", "-", Weak::ptr_eq(&wa, &n1).to_string(), "false".to_string());
    // a Weak that outlived its object vs the Weak of a later object at the same address
    let mut reused = 0usize;
    for _ in 0..64 {
        let x = Cc::new([0u64; 5]);
        let addr = &*x as *const [u64; 5] as usize;
        let wx = x.downgrade();
        drop(x);
        let y = Cc::new([1u64; 5]);
        let wy = y.downgrade();
        if &*y as *const [u64; 5] as usize == addr {
            reused += 1;
            out.line("fwd", "[u64;5]", "weak_ptr_eq_dead_vs_reused_address", "-", "-", Weak::ptr_eq(&wx, &wy).to_string(), "false".to_string());
            out.line("fwd", "[u64;5]", "weak_ptr_eq_dead_self", "-", "-", Weak::ptr_eq(&wx, &wx.clone()).to_string(), "true".to_string());
            if reused >= 4 { break; }
        }
    }
    out.line("fwd", "[u64;5]", "address_reuse_observed", "-", "-", reused.to_string(), reused.to_string());
}

fn main() {
    let mut out = Out { w: std::io::BufWriter::new(std::io::stdout()), lines: 0, diffs: 0 };

    let i64s: Vec<i64> = vec![i64::MIN, -7, -1, 0, 1, 2, 7, i64::MAX];
    cmp_ops(&mut out, "fwd", "i64", &i64s, &[]);
    ord_ops(&mut out, "i64", &i64s);
    hash_ops(&mut out, "i64", &i64s);
    debug_ops(&mut out, "i64", &i64s);
    display_ops(&mut out, "i64", &i64s);
    ptr_eq_ops(&mut out);
    default_op::<i64>(&mut out, "i64");

    let tups: Vec<(i32, u8)> = vec![(0, 0), (0, 1), (1, 0), (-1, 255), (i32::MAX, 0), (i32::MIN, 7), (1, 1)];
    cmp_ops(&mut out, "fwd", "(i32,u8)", &tups, &[]);
    ord_ops(&mut out, "(i32,u8)", &tups);
    hash_ops(&mut out, "(i32,u8)", &tups);
    debug_ops(&mut out, "(i32,u8)", &tups);
    default_op::<(i32, u8)>(&mut out, "(i32,u8)");

    let strs: Vec<String> = ["", "a", "ab", "b", "A", "\u{e9}", "a\u{0}", "zz top"].iter().map(|s| s.to_string()).collect();
    cmp_ops(&mut out, "fwd", "String", &strs, &[]);
    ord_ops(&mut out, "String", &strs);
    hash_ops(&mut out, "String", &strs);
    debug_ops(&mut out, "String", &strs);
    display_ops(&mut out, "String", &strs);
    default_op::<String>(&mut out, "String");

    let f64s: Vec<f64> = vec![
        f64::NAN,
        -f64::NAN,
        -0.0,
        0.0,
        1.0,
        -1.0,
        f64::INFINITY,
        f64::NEG_INFINITY,
        f64::MIN_POSITIVE,
        1.5e300,
    ];
    cmp_ops(&mut out, "fwd", "f64", &f64s, &[]);
    debug_ops(&mut out, "f64", &f64s);
    display_ops(&mut out, "f64", &f64s);
    default_op::<f64>(&mut out, "f64");

    let ws: Vec<W> = (-3..9).map(W).collect();
    cmp_ops(&mut out, "fwd", "W", &ws, &[]);
    ord_ops(&mut out, "W", &ws);
    hash_ops(&mut out, "W", &ws);
    debug_ops(&mut out, "W", &ws);
    display_ops(&mut out, "W", &ws);
    default_op::<W>(&mut out, "W");

    let before = out.diffs;
    let wn: Vec<Wne> = (-3..9).map(Wne).collect();
    cmp_ops(&mut out, "fwdinfo", "Wne", &wn, &["ne"]);
    let info_diffs = out.diffs - before;
    out.diffs = before;
    cmp_ops(&mut out, "fwd", "Wne", &wn, &["eq"]);

    writeln!(out.w, "end lines={} diffs={} info_diffs={}", out.lines, out.diffs, info_diffs).unwrap();
    out.w.flush().unwrap();
    if out.diffs != 0 {
        std::process::exit(1);
    }
}
