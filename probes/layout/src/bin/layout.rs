//! Layout grid probe (C03 layout half, C20 address half).
//!
//! For every payload type of the grid and every release route, prints one line
//!   lay T=<name> route=<r> tsize=<n> talign=<n> hsize=<n> halign=<n> box_size=<n> box_align=<n> off=<n> ... ok|BAD <what>
//! where box_size/box_align are what the GLOBAL ALLOCATOR received in `alloc`, free_size/free_align
//! what it received in `dealloc`, decl_* are size_of/align_of::<CcBox<T>>() and off is the measured
//! distance between the address returned by Deref and the address of the allocation.
//! /verif/tools/check_layout.py compares these numbers with `Layout.ccbox` evaluated by Coq.

use std::borrow::Borrow;
use std::cell::{Cell, RefCell};
use std::io::Write;
use std::mem::{align_of, size_of, ManuallyDrop};
use std::panic::{catch_unwind, AssertUnwindSafe};

use layout_probes as lp;
use lp::{Event, Kind};
use rust_cc::weak::Weak;
use rust_cc::{collect_cycles, verif, Cc, Context, Finalize, Trace};

#[global_allocator]
static ALLOC: lp::LogAlloc = lp::LogAlloc;

thread_local! {
    static DROPS: Cell<usize> = const { Cell::new(0) };
}

fn drops() -> usize {
    DROPS.with(|d| d.get())
}

// ---------------------------------------------------------------------------------------------
// Payload types

macro_rules! align_markers {
    ($($n:ident = $a:literal),* $(,)?) => {
        $(
            #[repr(align($a))]
            #[derive(Copy, Clone)]
            pub struct $n;
        )*
    };
}

align_markers!(
    A1 = 1, A2 = 2, A4 = 4, A8 = 8, A16 = 16, A32 = 32, A64 = 64, A128 = 128, A256 = 256,
    A512 = 512, A1024 = 1024, A2048 = 2048, A4096 = 4096,
    // beyond the page size: nothing in the crate may clamp or assume a maximal alignment
    A8192 = 8192, A16384 = 16384, A65536 = 65536,
);

trait Payload: Trace + Sized + 'static {
    const LINKED: bool;
    fn name() -> String;
    fn make(pattern: u8) -> Self;
    fn bytes(&self) -> &[u8];
    /// Only for LINKED payloads: store a handle to make a self-cycle.
    fn set_link(&self, _to: Cc<Self>) {}
}

/// `K` bytes with the alignment of `A`; size_of = K rounded up to align_of::<A>() (0 stays 0).
#[repr(C)]
struct Plain<A: 'static, const K: usize> {
    _a: [A; 0],
    bytes: [u8; K],
}

impl<A: 'static, const K: usize> Drop for Plain<A, K> {
    fn drop(&mut self) {
        DROPS.with(|d| d.set(d.get() + 1));
    }
}

unsafe impl<A: 'static, const K: usize> Trace for Plain<A, K> {
    fn trace(&self, _: &mut Context<'_>) {}
}

impl<A: 'static, const K: usize> Finalize for Plain<A, K> {}

impl<A: 'static, const K: usize> Payload for Plain<A, K> {
    const LINKED: bool = false;

    fn name() -> String {
        format!("plain_k{}_a{}", K, align_of::<A>())
    }

    fn make(pattern: u8) -> Self {
        Plain { _a: [], bytes: [pattern; K] }
    }

    fn bytes(&self) -> &[u8] {
        &self.bytes
    }
}

/// Same, plus a link that lets the object be part of a cycle all by itself.
#[repr(C)]
struct Linked<A: 'static, const K: usize> {
    _a: [A; 0],
    bytes: [u8; K],
    link: RefCell<Option<Cc<Linked<A, K>>>>,
}

impl<A: 'static, const K: usize> Drop for Linked<A, K> {
    fn drop(&mut self) {
        DROPS.with(|d| d.set(d.get() + 1));
    }
}

unsafe impl<A: 'static, const K: usize> Trace for Linked<A, K> {
    fn trace(&self, ctx: &mut Context<'_>) {
        self.link.trace(ctx);
    }
}

impl<A: 'static, const K: usize> Finalize for Linked<A, K> {}

impl<A: 'static, const K: usize> Payload for Linked<A, K> {
    const LINKED: bool = true;

    fn name() -> String {
        format!("linked_k{}_a{}", K, align_of::<A>())
    }

    fn make(pattern: u8) -> Self {
        Linked { _a: [], bytes: [pattern; K], link: RefCell::new(None) }
    }

    fn bytes(&self) -> &[u8] {
        &self.bytes
    }

    fn set_link(&self, to: Cc<Self>) {
        *self.link.borrow_mut() = Some(to);
    }
}

/// A node that owns a `Cc<T>` and can point to itself: a garbage `Holder` cycle makes the payload
/// box die inside `deallocate_list` (the collector's release route) for ANY payload type.
struct Holder<T: Payload> {
    link: RefCell<Option<Cc<Holder<T>>>>,
    payload: Cc<T>,
}

unsafe impl<T: Payload> Trace for Holder<T> {
    fn trace(&self, ctx: &mut Context<'_>) {
        self.link.trace(ctx);
        self.payload.trace(ctx);
    }
}

impl<T: Payload> Finalize for Holder<T> {}

/// Like `Holder`, but every handle it owns is a TRACED `ManuallyDrop<Cc<_>>`: the collector sees the
/// edges (so a cycle closed through them is garbage) while no drop glue ever releases them. When
/// `deallocate_list` frees such boxes their strong counters are still > 0.
struct HolderMd<T: Payload> {
    link: RefCell<Option<ManuallyDrop<Cc<HolderMd<T>>>>>,
    payload: ManuallyDrop<Cc<T>>,
}

unsafe impl<T: Payload> Trace for HolderMd<T> {
    fn trace(&self, ctx: &mut Context<'_>) {
        self.link.trace(ctx);
        self.payload.trace(ctx);
    }
}

impl<T: Payload> Finalize for HolderMd<T> {}

// ---------------------------------------------------------------------------------------------
// Type erasure. The probe logic below is written ONCE against `dyn Obj`; only the thin methods of
// `Slots<T>` are monomorphised per payload type (keeps the release build of ~250 types short).
// None of the methods allocates on its own (the slot vectors are pre-sized), so that everything
// the allocator log records while they run was requested by the crate under test.

#[derive(Copy, Clone)]
struct HolderInfo {
    tsize: usize,
    talign: usize,
    decl: (usize, usize),
    layout: (usize, usize),
    base: usize,
    elem: usize,
}

trait Obj {
    fn name(&self) -> String;
    fn tsize(&self) -> usize;
    fn talign(&self) -> usize;
    fn decl(&self) -> (usize, usize);
    fn linked(&self) -> bool;

    /// `Cc::new(T::make(pat))`; returns the handle index.
    fn new_h(&mut self, pat: u8) -> usize;
    fn clone_h(&mut self, i: usize) -> usize;
    fn drop_h(&mut self, i: usize);
    fn mark_alive(&self, i: usize);
    /// Addresses returned by Deref, AsRef::as_ref, Borrow::borrow.
    fn addrs(&self, i: usize) -> [usize; 3];
    fn bytes_ok(&self, i: usize, pat: u8) -> bool;
    fn ptr_eq(&self, i: usize, j: usize) -> bool;
    fn box_addr(&self, i: usize) -> usize;
    fn box_layout(&self, i: usize) -> (usize, usize);
    fn side_addr(&self, i: usize) -> Option<usize>;
    fn downgrade(&mut self, i: usize) -> usize;
    fn upgrade(&mut self, w: usize) -> Option<usize>;
    fn weak_strong(&self, w: usize) -> u32;
    fn drop_w(&mut self, w: usize);
    /// `Ok((bytes_ok, value_aligned, payload_drops_during_call))`, or `Err(())` with the handle put back.
    fn try_unwrap(&mut self, i: usize, pat: u8) -> Result<(bool, bool, usize), ()>;
    /// LINKED payloads: store a clone of handle `i` inside the object. Others: create a
    /// `Holder` owning a clone of `i` and pointing to itself.
    fn make_cycle(&mut self, i: usize) -> Option<HolderInfo>;
    /// A garbage structure closed through traced `ManuallyDrop` handles only: `two == false`: one
    /// `HolderMd` pointing to itself and to (a clone of) handle `i`; `two == true`: two `HolderMd`s
    /// pointing to each other, both to handle `i`. Returns the layout facts of the first holder.
    fn make_cycle_md(&mut self, i: usize, two: bool) -> HolderInfo;
    fn drop_holder(&mut self);
    /// `Cc::new_cyclic`; the closure keeps a clone of the Weak (weak slot 0) and checks that it
    /// cannot be upgraded yet. `Err(())` when the closure panicked (caught here).
    fn new_cyclic(&mut self, pat: u8, panics: bool) -> Result<usize, ()>;
    fn closure_upgrade_failed(&self) -> bool;
}

struct Slots<T: Payload> {
    h: Vec<Option<Cc<T>>>,
    w: Vec<Option<Weak<T>>>,
    holder: Option<Cc<Holder<T>>>,
    holders_md: [Option<Cc<HolderMd<T>>>; 2],
    closure_upgrade_failed: Cell<bool>,
}

fn mk<T: Payload>() -> Box<dyn Obj> {
    Box::new(Slots::<T> {
        h: Vec::with_capacity(16),
        w: Vec::with_capacity(8),
        holder: None,
        holders_md: [None, None],
        closure_upgrade_failed: Cell::new(true),
    })
}

impl<T: Payload> Slots<T> {
    fn get(&self, i: usize) -> &Cc<T> {
        self.h[i].as_ref().expect("handle slot is empty")
    }

    fn push_h(&mut self, cc: Cc<T>) -> usize {
        assert!(self.h.len() < self.h.capacity());
        self.h.push(Some(cc));
        self.h.len() - 1
    }

    fn push_w(&mut self, w: Weak<T>) -> usize {
        assert!(self.w.len() < self.w.capacity());
        self.w.push(Some(w));
        self.w.len() - 1
    }
}

impl<T: Payload> Obj for Slots<T> {
    fn name(&self) -> String {
        T::name()
    }

    fn tsize(&self) -> usize {
        size_of::<T>()
    }

    fn talign(&self) -> usize {
        align_of::<T>()
    }

    fn decl(&self) -> (usize, usize) {
        verif::ccbox_layout::<T>()
    }

    fn linked(&self) -> bool {
        T::LINKED
    }

    fn new_h(&mut self, pat: u8) -> usize {
        let cc = Cc::new(T::make(pat));
        self.push_h(cc)
    }

    fn clone_h(&mut self, i: usize) -> usize {
        let c = self.get(i).clone();
        self.push_h(c)
    }

    fn drop_h(&mut self, i: usize) {
        let c = self.h[i].take().expect("handle slot is empty");
        drop(c);
    }

    fn mark_alive(&self, i: usize) {
        self.get(i).mark_alive();
    }

    fn addrs(&self, i: usize) -> [usize; 3] {
        let cc = self.get(i);
        let a: &T = cc;
        let b: &T = <Cc<T> as AsRef<T>>::as_ref(cc);
        let c: &T = <Cc<T> as Borrow<T>>::borrow(cc);
        [a as *const T as usize, b as *const T as usize, c as *const T as usize]
    }

    fn bytes_ok(&self, i: usize, pat: u8) -> bool {
        self.get(i).bytes().iter().all(|b| *b == pat)
    }

    fn ptr_eq(&self, i: usize, j: usize) -> bool {
        Cc::ptr_eq(self.get(i), self.get(j))
    }

    fn box_addr(&self, i: usize) -> usize {
        verif::box_addr(self.get(i)) as usize
    }

    fn box_layout(&self, i: usize) -> (usize, usize) {
        verif::box_layout(self.get(i))
    }

    fn side_addr(&self, i: usize) -> Option<usize> {
        verif::side_addr(self.get(i)).map(|p| p as usize)
    }

    fn downgrade(&mut self, i: usize) -> usize {
        let w = self.get(i).downgrade();
        self.push_w(w)
    }

    fn upgrade(&mut self, w: usize) -> Option<usize> {
        let up = self.w[w].as_ref().expect("weak slot is empty").upgrade();
        up.map(|cc| self.push_h(cc))
    }

    fn weak_strong(&self, w: usize) -> u32 {
        self.w[w].as_ref().expect("weak slot is empty").strong_count()
    }

    fn drop_w(&mut self, w: usize) {
        let x = self.w[w].take().expect("weak slot is empty");
        drop(x);
    }

    fn try_unwrap(&mut self, i: usize, pat: u8) -> Result<(bool, bool, usize), ()> {
        let cc = self.h[i].take().expect("handle slot is empty");
        let d0 = drops();
        match cc.try_unwrap() {
            Ok(v) => {
                let during = drops() - d0;
                let ok = v.bytes().iter().all(|b| *b == pat);
                let aligned = (&v as *const T as usize) % align_of::<T>() == 0;
                drop(v);
                Ok((ok, aligned, during))
            },
            Err(cc) => {
                self.h[i] = Some(cc);
                Err(())
            },
        }
    }

    fn make_cycle(&mut self, i: usize) -> Option<HolderInfo> {
        if T::LINKED {
            let l = self.get(i).clone();
            self.get(i).set_link(l);
            None
        } else {
            let h = Cc::new(Holder { link: RefCell::new(None), payload: self.get(i).clone() });
            let hl = h.clone();
            *h.link.borrow_mut() = Some(hl);
            let r: &Holder<T> = &h;
            let info = HolderInfo {
                tsize: size_of::<Holder<T>>(),
                talign: align_of::<Holder<T>>(),
                decl: verif::ccbox_layout::<Holder<T>>(),
                layout: verif::box_layout(&h),
                base: verif::box_addr(&h) as usize,
                elem: r as *const Holder<T> as usize,
            };
            self.holder = Some(h);
            Some(info)
        }
    }

    fn make_cycle_md(&mut self, i: usize, two: bool) -> HolderInfo {
        let h1 = Cc::new(HolderMd { link: RefCell::new(None), payload: ManuallyDrop::new(self.get(i).clone()) });
        if two {
            let h2 = Cc::new(HolderMd { link: RefCell::new(None), payload: ManuallyDrop::new(self.get(i).clone()) });
            *h1.link.borrow_mut() = Some(ManuallyDrop::new(h2.clone()));
            *h2.link.borrow_mut() = Some(ManuallyDrop::new(h1.clone()));
            self.holders_md[1] = Some(h2);
        } else {
            *h1.link.borrow_mut() = Some(ManuallyDrop::new(h1.clone()));
        }
        let r: &HolderMd<T> = &h1;
        let info = HolderInfo {
            tsize: size_of::<HolderMd<T>>(),
            talign: align_of::<HolderMd<T>>(),
            decl: verif::ccbox_layout::<HolderMd<T>>(),
            layout: verif::box_layout(&h1),
            base: verif::box_addr(&h1) as usize,
            elem: r as *const HolderMd<T> as usize,
        };
        self.holders_md[0] = Some(h1);
        info
    }

    fn drop_holder(&mut self) {
        let h = self.holder.take();
        drop(h);
        let h1 = self.holders_md[0].take();
        drop(h1);
        let h2 = self.holders_md[1].take();
        drop(h2);
    }

    fn new_cyclic(&mut self, pat: u8, panics: bool) -> Result<usize, ()> {
        let kept: RefCell<Option<Weak<T>>> = RefCell::new(None);
        let failed = &self.closure_upgrade_failed;
        let r = catch_unwind(AssertUnwindSafe(|| {
            Cc::new_cyclic(|w: &Weak<T>| -> T {
                if panics {
                    panic!("layout probe: closure panics");
                }
                failed.set(w.upgrade().is_none() && w.strong_count() == 0);
                *kept.borrow_mut() = Some(w.clone());
                T::make(pat)
            })
        }));
        match r {
            Ok(cc) => {
                if let Some(w) = kept.borrow_mut().take() {
                    self.push_w(w);
                }
                Ok(self.push_h(cc))
            },
            Err(payload) => {
                drop(payload);
                Err(())
            },
        }
    }

    fn closure_upgrade_failed(&self) -> bool {
        self.closure_upgrade_failed.get()
    }
}

// ---------------------------------------------------------------------------------------------
// Recording helpers

struct RecGuard;

impl Drop for RecGuard {
    fn drop(&mut self) {
        lp::record(false);
    }
}

/// Runs `f` with the allocator log recording.
fn rec<R>(f: impl FnOnce() -> R) -> R {
    lp::record(true);
    let _g = RecGuard;
    f()
}

fn allocs(evs: &[Event]) -> Vec<lp::Block> {
    evs.iter().filter(|e| e.kind == Kind::Alloc).map(|e| e.blk).collect()
}

fn deallocs(evs: &[Event]) -> Vec<lp::Block> {
    evs.iter().filter(|e| e.kind == Kind::Dealloc).map(|e| e.blk).collect()
}

/// Replays the whole log: every alloc must be matched by exactly one dealloc with the same
/// (ptr, size, align); returns the number of blocks still live, problems go to `bad`.
fn replay(evs: &[Event], bad: &mut Vec<String>) -> usize {
    let mut live: Vec<lp::Block> = Vec::new();
    for e in evs {
        match e.kind {
            Kind::Alloc => {
                if live.iter().any(|b| b.ptr == e.blk.ptr) {
                    bad.push(format!("alloc_of_live_ptr@{:#x}", e.blk.ptr));
                }
                live.push(e.blk);
            },
            Kind::Dealloc => match live.iter().position(|b| b.ptr == e.blk.ptr) {
                None => bad.push(format!("free_not_live(size={},align={})", e.blk.size, e.blk.align)),
                Some(i) => {
                    let b = live.swap_remove(i);
                    if b != e.blk {
                        bad.push(format!(
                            "free_layout_mismatch(alloc={}/{},free={}/{})",
                            b.size, b.align, e.blk.size, e.blk.align
                        ));
                    }
                },
            },
        }
    }
    if std::env::var_os("LAYOUT_PROBE_DEBUG").is_some() && !live.is_empty() {
        eprintln!("leftover {:?} of {:?}", live, evs);
    }
    live.len()
}

// ---------------------------------------------------------------------------------------------

#[derive(Copy, Clone, PartialEq, Eq, Debug)]
enum Release {
    Drop,
    Unwrap,
    Cycle,
    /// garbage closed through traced `ManuallyDrop<Cc<_>>` handles: counters > 0 when freed
    CycleMd,
}

#[derive(Copy, Clone, PartialEq, Eq, Debug)]
enum WeakMode {
    None,
    /// the Weak is dropped BEFORE the box is released
    WeakFirst,
    /// the Weak is dropped AFTER the box was released
    WeakLast,
}

struct Ctx {
    hsize: usize,
    halign: usize,
    pattern: u8,
    lines: usize,
    bad_lines: usize,
    types: usize,
    out: std::io::BufWriter<std::io::Stdout>,
}

impl Ctx {
    fn next_pattern(&mut self) -> u8 {
        self.pattern = self.pattern.wrapping_mul(31).wrapping_add(17);
        if self.pattern == 0 {
            self.pattern = 0xA5;
        }
        self.pattern
    }
}

struct Meas {
    box_size: usize,
    box_align: usize,
    off: Option<usize>,
    free_size: usize,
    free_align: usize,
    decl: (usize, usize),
    side_allocs: usize,
    holder: Option<(HolderInfo, lp::Block, Option<lp::Block>)>,
}

fn crate_allocated_bytes() -> i128 {
    rust_cc::state::allocated_bytes().map_or(-1, |n| n as i128)
}

/// Bytes of the BOXES (everything the log recorded except the weak side records) that the allocator
/// log says are live right now.
fn live_box_bytes(sides: &[usize]) -> i128 {
    let evs = lp::log_since(0);
    let mut live: Vec<lp::Block> = Vec::new();
    for e in &evs {
        match e.kind {
            Kind::Alloc => live.push(e.blk),
            Kind::Dealloc => {
                if let Some(i) = live.iter().position(|b| b.ptr == e.blk.ptr) {
                    live.swap_remove(i);
                }
            },
        }
    }
    live.iter().filter(|b| !sides.contains(&b.ptr)).map(|b| b.size as i128).sum()
}

/// C03/C11 accounting: the change of `allocated_bytes()` since the beginning of the route equals the
/// total size of the boxes the allocator log still holds live; with `must_be_zero` both must be 0.
fn check_accounting(when: &str, ab0: i128, sides: &[usize], must_be_zero: bool, bad: &mut Vec<String>) {
    let delta = crate_allocated_bytes() - ab0;
    let live = live_box_bytes(sides);
    if delta != live {
        bad.push(format!("allocated_bytes_delta_{delta}_but_allocator_log_has_{live}_box_bytes_live[{when}]"));
    }
    if must_be_zero && delta != 0 {
        bad.push(format!("allocated_bytes_delta_{delta}_after_release[{when}]"));
    }
}

/// Header alignment measured in `main` (align_of::<CcBox<()>>()).
static HALIGN: std::sync::atomic::AtomicUsize = std::sync::atomic::AtomicUsize::new(0);

/// What the GLOBAL ALLOCATOR was asked for and what it returned: the REQUESTED alignment (the log
/// records `layout.align()` as passed to `alloc`) must be max(halign, talign) as `Layout.ccbox`
/// predicts - whatever the magnitude of talign - and the returned block must honour it.
fn check_requested_align(blk: &lp::Block, talign: usize, bad: &mut Vec<String>) {
    let halign = HALIGN.load(std::sync::atomic::Ordering::Relaxed);
    let want = halign.max(talign);
    if blk.align != want {
        bad.push(format!("requested_align_{}_expected_max(halign={},talign={})={}", blk.align, halign, talign, want));
    }
    if blk.align == 0 || blk.ptr % blk.align != 0 {
        bad.push(format!("block_addr%requested_align({})={}", blk.align, if blk.align == 0 { 0 } else { blk.ptr % blk.align }));
    }
    if blk.ptr % want != 0 {
        bad.push(format!("block_addr%max(halign,talign)({})={}", want, blk.ptr % want));
    }
}

fn check_addrs(o: &dyn Obj, when: &str, expect: usize, handles: &[usize], bad: &mut Vec<String>) {
    for &i in handles {
        let [d, a, b] = o.addrs(i);
        if d != expect {
            bad.push(format!("deref_addr_changed[{when},handle{i}]"));
        }
        if a != expect {
            bad.push(format!("as_ref_addr_differs[{when},handle{i}]"));
        }
        if b != expect {
            bad.push(format!("borrow_addr_differs[{when},handle{i}]"));
        }
    }
}

fn check_bytes(o: &dyn Obj, when: &str, i: usize, pat: u8, bad: &mut Vec<String>) {
    if !o.bytes_ok(i, pat) {
        bad.push(format!("payload_bytes_changed[{when}]"));
    }
}

/// One object, one release route. Returns the measurements; problems go to `bad`.
fn one_route(o: &mut dyn Obj, release: Release, weak: WeakMode, pat: u8, bad: &mut Vec<String>) -> Meas {
    lp::log_reset();
    lp::clear_alloc_errors();
    let drops0 = drops();
    let ab0 = crate_allocated_bytes();
    let decl = o.decl();
    let (tsize, talign) = (o.tsize(), o.talign());

    // ---- allocation
    let cc = rec(|| o.new_h(pat));
    let evs = lp::log_since(0);
    let al = allocs(&evs);
    if al.len() != 1 || !deallocs(&evs).is_empty() {
        bad.push(format!("cc_new_made_{}_allocs_{}_frees", al.len(), deallocs(&evs).len()));
    }
    let base = o.box_addr(cc);
    let ablk = al.iter().find(|b| b.ptr == base).copied().unwrap_or(lp::Block { ptr: base, size: 0, align: 0 });
    let mut m = Meas {
        box_size: ablk.size,
        box_align: ablk.align,
        off: None,
        free_size: 0,
        free_align: 0,
        decl,
        side_allocs: 0,
        holder: None,
    };
    if ablk.size == 0 {
        bad.push("box_addr_not_the_allocated_ptr".into());
    }
    check_requested_align(&ablk, talign, bad);
    if (ablk.size, ablk.align) != decl {
        bad.push(format!("alloc_layout_{}x{}_differs_from_size_of_{}x{}", ablk.size, ablk.align, decl.0, decl.1));
    }
    if o.box_layout(cc) != decl {
        bad.push("layout()_differs_from_size_of".into());
    }
    if base % ablk.align.max(1) != 0 {
        bad.push("box_not_aligned".into());
    }

    // ---- addresses
    let p = o.addrs(cc)[0];
    if p % talign != 0 {
        bad.push(format!("elem_misaligned(addr%{}={})", talign, p % talign));
    }
    if p < base || p + tsize > base + ablk.size {
        bad.push("elem_outside_block".into());
    }
    let off = p.wrapping_sub(base);
    m.off = Some(off);
    let c1 = rec(|| o.clone_h(cc));
    let c2 = rec(|| o.clone_h(cc));
    check_addrs(o, "fresh", p, &[cc, c1, c2], bad);
    check_bytes(o, "fresh", cc, pat, bad);
    check_bytes(o, "fresh_clone", c2, pat, bad);
    if !o.ptr_eq(cc, c1) || !o.ptr_eq(c1, c2) || !o.ptr_eq(cc, cc) {
        bad.push("ptr_eq_false_for_clones".into());
    }
    rec(collect_cycles);
    check_addrs(o, "after_collect", p, &[cc, c1, c2], bad);
    rec(|| o.drop_h(c1)); // count 3 -> 2: the object is now buffered
    match rust_cc::state::buffered_objects_count() {
        Ok(n) if n >= 1 => {},
        other => bad.push(format!("not_buffered_after_clone_drop({other:?})")),
    }
    check_addrs(o, "buffered", p, &[cc, c2], bad);
    rec(collect_cycles); // buffered but alive: must survive
    check_addrs(o, "survived_collect", p, &[cc, c2], bad);
    check_bytes(o, "survived_collect", cc, pat, bad);

    // ---- a second allocation of the same type: distinct box, distinct elem address (also for ZSTs)
    {
        let mark = lp::log_len();
        // as indistinguishable from `cc` as possible: same type, same payload bytes, same strong
        // count (2), same mark (both were un-buffered by the collection above)
        let other = rec(|| o.new_h(pat));
        let other2 = rec(|| o.clone_h(other));
        if o.ptr_eq(cc, other) || o.ptr_eq(other, c2) || o.ptr_eq(c2, other2) || o.ptr_eq(other2, cc) {
            bad.push("ptr_eq_true_for_distinct_allocations".into());
        }
        if !o.ptr_eq(other, other) || !o.ptr_eq(other, other2) || !o.ptr_eq(other2, other) {
            bad.push("ptr_eq_false_for_same_allocation".into());
        }
        rec(|| o.drop_h(other2));
        rec(|| o.mark_alive(other));
        let obase = o.box_addr(other);
        if o.addrs(other)[0] == p {
            bad.push("distinct_allocations_same_elem_addr".into());
        }
        if o.addrs(other)[0].wrapping_sub(obase) != off {
            bad.push("elem_offset_differs_between_allocations".into());
        }
        check_bytes(o, "other", other, pat, bad);
        rec(|| o.drop_h(other)); // unique: freed at once
        let evs = lp::log_since(mark);
        let fr = deallocs(&evs);
        if fr.len() != 1 || fr[0].ptr != obase || (fr[0].size, fr[0].align) != decl {
            bad.push("unique_drop_did_not_free_with_alloc_layout".into());
        }
        check_bytes(o, "after_other", cc, pat, bad);
    }

    // ---- weak side record
    let mut side: Option<lp::Block> = None;
    let mut weak_handle: Option<usize> = None;
    if weak != WeakMode::None {
        let mark = lp::log_len();
        let w = rec(|| o.downgrade(cc));
        let evs = lp::log_since(mark);
        let al = allocs(&evs);
        let sa = o.side_addr(cc);
        if al.len() != 1 || Some(al[0].ptr) != sa {
            bad.push(format!("downgrade_made_{}_allocs_or_side_addr_differs", al.len()));
        }
        side = al.first().copied();
        let w2 = rec(|| o.downgrade(cc)); // second downgrade: no new side record
        if lp::log_since(mark).len() != 1 {
            bad.push("second_downgrade_touched_allocator".into());
        }
        rec(|| o.drop_w(w2));
        match rec(|| o.upgrade(w)) {
            None => bad.push("upgrade_failed_on_live_object".into()),
            Some(up) => {
                check_addrs(o, "upgraded", p, &[up, cc, c2], bad);
                if !o.ptr_eq(up, cc) {
                    bad.push("ptr_eq_false_for_upgraded".into());
                }
                rec(|| o.drop_h(up));
            },
        }
        check_addrs(o, "after_upgrade_drop", p, &[cc, c2], bad);
        if o.box_layout(cc) != decl {
            bad.push("layout()_changed_by_side_record".into());
        }
        if lp::log_since(mark).len() != 1 {
            bad.push("weak_operations_touched_allocator".into());
        }
        weak_handle = Some(w);
    } else if o.side_addr(cc).is_some() {
        bad.push("side_record_without_downgrade".into());
    }
    m.side_allocs = side.is_some() as usize;

    if weak == WeakMode::WeakFirst {
        let mark = lp::log_len();
        let w = weak_handle.take().unwrap();
        rec(|| o.drop_w(w));
        if !lp::log_since(mark).is_empty() {
            bad.push("weak_drop_freed_something_while_box_alive".into());
        }
    }

    // ---- release
    let sides: Vec<usize> = side.iter().map(|s| s.ptr).collect();
    check_accounting("alive", ab0, &sides, false, bad);
    let mark = lp::log_len();
    let expected_drops = 2; // `other` + the object itself
    match release {
        Release::Drop => {
            rec(|| o.drop_h(c2));
            if !lp::log_since(mark).is_empty() {
                bad.push("non_last_drop_touched_allocator".into());
            }
            rec(|| o.drop_h(cc));
        },
        Release::Unwrap => {
            // two handles: must fail and give the handle back
            if rec(|| o.try_unwrap(cc, pat)).is_ok() {
                bad.push("try_unwrap_succeeded_on_shared".into());
                return m;
            }
            check_addrs(o, "after_failed_unwrap", p, &[cc, c2], bad);
            rec(|| o.drop_h(c2));
            match rec(|| o.try_unwrap(cc, pat)) {
                Ok((bytes_ok, aligned, during)) => {
                    if during != 0 {
                        bad.push("try_unwrap_dropped_the_value".into());
                    }
                    if !bytes_ok {
                        bad.push("payload_bytes_changed[unwrapped]".into());
                    }
                    if !aligned {
                        bad.push("unwrapped_value_misaligned".into());
                    }
                },
                Err(()) => {
                    bad.push("try_unwrap_failed_on_unique".into());
                    rec(|| o.drop_h(cc));
                },
            }
        },
        Release::Cycle | Release::CycleMd => {
            let hm = lp::log_len();
            let info = if release == Release::CycleMd {
                // two holders without a weak pointer, a self-loop with one
                Some(rec(|| o.make_cycle_md(cc, weak == WeakMode::None)))
            } else {
                rec(|| o.make_cycle(cc))
            };
            let hal = allocs(&lp::log_since(hm));
            check_accounting("cycle_built", ab0, &sides, false, bad);
            rec(|| o.drop_h(c2));
            rec(|| o.drop_h(cc));
            rec(|| o.drop_holder());
            // garbage now, but nothing may have been released yet
            if lp::is_live(base).is_none() || deallocs(&lp::log_since(mark)).iter().any(|b| b.ptr == base) {
                bad.push("cycle_member_freed_before_collection".into());
            }
            check_accounting("garbage_before_collection", ab0, &sides, false, bad);
            let cm = lp::log_len();
            rec(collect_cycles);
            check_accounting("after_collection", ab0, &sides, true, bad);
            if let Some(info) = info {
                let hb = hal.iter().find(|b| b.ptr == info.base).copied().unwrap_or(lp::Block { ptr: 0, size: 0, align: 0 });
                let hf = deallocs(&lp::log_since(cm)).into_iter().find(|b| b.ptr == info.base);
                m.holder = Some((info, hb, hf));
            }
        },
    }
    let evs = lp::log_since(mark);
    let fr: Vec<lp::Block> = deallocs(&evs).into_iter().filter(|b| b.ptr == base).collect();
    match fr.as_slice() {
        [b] => {
            m.free_size = b.size;
            m.free_align = b.align;
        },
        [] => bad.push("box_not_freed_by_release".into()),
        more => {
            bad.push(format!("box_freed_{}_times", more.len()));
            m.free_size = more[0].size;
            m.free_align = more[0].align;
        },
    }
    if fr.len() == 1 && (m.free_size, m.free_align) != (ablk.size, ablk.align) {
        bad.push(format!("freed_with_{}x{}_allocated_with_{}x{}", m.free_size, m.free_align, ablk.size, ablk.align));
    }

    // ---- side record hand-over
    if let Some(s) = side {
        let side_frees = deallocs(&evs).into_iter().filter(|b| b.ptr == s.ptr).count();
        match weak {
            WeakMode::WeakFirst => {
                if side_frees != 1 {
                    bad.push(format!("side_record_freed_{side_frees}_times_with_box(weak_first)"));
                }
            },
            WeakMode::WeakLast => {
                if side_frees != 0 || lp::is_live(s.ptr).is_none() {
                    bad.push("side_record_freed_while_weak_alive".into());
                }
                let w = weak_handle.take().unwrap();
                if o.weak_strong(w) != 0 || o.upgrade(w).is_some() {
                    bad.push("upgrade_succeeded_after_release".into());
                }
                let mark2 = lp::log_len();
                rec(|| o.drop_w(w));
                let fr2 = deallocs(&lp::log_since(mark2));
                if fr2.len() != 1 || fr2[0] != s {
                    bad.push("last_weak_drop_did_not_free_side_record_with_its_layout".into());
                }
            },
            WeakMode::None => {},
        }
    }

    // ---- global accounting for this object
    check_accounting("end", ab0, &[], true, bad);
    let all = lp::log_since(0);
    let left = replay(&all, bad);
    if left != 0 {
        bad.push(format!("leaked_{left}_blocks"));
    }
    if lp::log_overflow() != 0 {
        bad.push("log_overflow".into());
    }
    if drops() - drops0 != expected_drops {
        bad.push(format!("payload_dropped_{}_times_expected_{}", drops() - drops0, expected_drops));
    }
    if lp::alloc_errors() != 0 {
        bad.push(format!("allocator_error_{:?}", lp::first_alloc_error()));
    }
    m
}

/// `Cc::new_cyclic`, closure returning normally (`panics == false`) or panicking.
fn new_cyclic_route(o: &mut dyn Obj, panics: bool, pat: u8, bad: &mut Vec<String>) -> Meas {
    lp::log_reset();
    lp::clear_alloc_errors();
    let drops0 = drops();
    let ab0 = crate_allocated_bytes();
    let decl = o.decl();
    let mut m = Meas { box_size: 0, box_align: 0, off: None, free_size: 0, free_align: 0, decl, side_allocs: 0, holder: None };
    // `rec` is OUTSIDE the catch_unwind inside `new_cyclic`: the unwinder's exception object and the
    // panic payload are allocated and freed while recording
    let r = rec(|| o.new_cyclic(pat, panics));
    let evs = lp::log_since(0);
    let al = allocs(&evs);
    let fr = deallocs(&evs);
    match r {
        Ok(cc) => {
            if panics {
                bad.push("new_cyclic_did_not_propagate_panic".into());
            }
            let base = o.box_addr(cc);
            let sa = o.side_addr(cc);
            let b = al.iter().find(|b| b.ptr == base).copied();
            let s = al.iter().find(|b| Some(b.ptr) == sa).copied();
            if al.len() != 2 || b.is_none() || s.is_none() || !fr.is_empty() {
                bad.push(format!("new_cyclic_made_{}_allocs_{}_frees", al.len(), fr.len()));
            }
            let b = b.unwrap_or(lp::Block { ptr: base, size: 0, align: 0 });
            m.box_size = b.size;
            m.box_align = b.align;
            m.side_allocs = s.is_some() as usize;
            check_requested_align(&b, o.talign(), bad);
            if (b.size, b.align) != decl || o.box_layout(cc) != decl {
                bad.push("new_cyclic_layout_differs_from_size_of".into());
            }
            let p = o.addrs(cc)[0];
            if p % o.talign() != 0 {
                bad.push("elem_misaligned".into());
            }
            m.off = Some(p.wrapping_sub(base));
            check_addrs(o, "new_cyclic", p, &[cc], bad);
            check_bytes(o, "new_cyclic", cc, pat, bad);
            if !o.closure_upgrade_failed() {
                bad.push("upgrade_succeeded_inside_closure".into());
            }
            // weak slot 0 is the clone kept by the closure
            match rec(|| o.upgrade(0)) {
                Some(up) => {
                    check_addrs(o, "upgraded", p, &[up, cc], bad);
                    if !o.ptr_eq(up, cc) {
                        bad.push("ptr_eq_false_for_upgraded".into());
                    }
                    rec(|| o.drop_h(up));
                },
                None => bad.push("upgrade_failed_after_new_cyclic".into()),
            }
            rec(|| o.drop_w(0));
            let mark = lp::log_len();
            rec(|| o.drop_h(cc));
            let fr = deallocs(&lp::log_since(mark));
            let fb: Vec<_> = fr.iter().filter(|x| x.ptr == base).collect();
            if fb.len() != 1 {
                bad.push(format!("box_freed_{}_times", fb.len()));
            } else {
                m.free_size = fb[0].size;
                m.free_align = fb[0].align;
                if *fb[0] != b {
                    bad.push("freed_with_other_layout".into());
                }
            }
            if let Some(s) = s {
                if fr.iter().filter(|x| **x == s).count() != 1 {
                    bad.push("side_record_not_freed_once".into());
                }
            }
            if drops() - drops0 != 1 {
                bad.push(format!("payload_dropped_{}_times_expected_1", drops() - drops0));
            }
        },
        Err(()) => {
            if !panics {
                bad.push("new_cyclic_panicked".into());
            }
            // the panic machinery allocates too: look for OUR block by its layout
            match al.iter().find(|b| (b.size, b.align) == decl) {
                None => bad.push("no_alloc_with_box_layout".into()),
                Some(b) => {
                    m.box_size = b.size;
                    m.box_align = b.align;
                    check_requested_align(b, o.talign(), bad);
                    let n = fr.iter().filter(|x| x.ptr == b.ptr).count();
                    if n != 1 {
                        bad.push(format!("box_freed_{n}_times_after_panic"));
                    }
                    if let Some(f) = fr.iter().find(|x| x.ptr == b.ptr) {
                        m.free_size = f.size;
                        m.free_align = f.align;
                        if f != b {
                            bad.push("freed_with_other_layout".into());
                        }
                    }
                },
            }
            m.side_allocs = 1;
            if drops() != drops0 {
                bad.push("payload_drop_ran_for_uninitialised_value".into());
            }
        },
    }
    check_accounting("end", ab0, &[], true, bad);
    let all = lp::log_since(0);
    let left = replay(&all, bad);
    if left != 0 {
        bad.push(format!("leaked_{left}_blocks"));
    }
    if lp::alloc_errors() != 0 {
        bad.push(format!("allocator_error_{:?}", lp::first_alloc_error()));
    }
    m
}

#[allow(clippy::too_many_arguments)]
fn emit_line(
    ctx: &mut Ctx, name: &str, route: &str, tsize: usize, talign: usize, box_size: usize, box_align: usize,
    off: Option<usize>, free: (usize, usize), decl: (usize, usize), side: usize, bad: &[String],
) {
    let off = match off {
        Some(o) => o.to_string(),
        None => "NA".to_string(),
    };
    let verdict = if bad.is_empty() { "ok".to_string() } else { format!("BAD {}", bad.join(";")) };
    ctx.lines += 1;
    if !bad.is_empty() {
        ctx.bad_lines += 1;
    }
    writeln!(
        ctx.out,
        "lay T={} route={} tsize={} talign={} hsize={} halign={} box_size={} box_align={} off={} free_size={} free_align={} decl_size={} decl_align={} side={} {}",
        name, route, tsize, talign, ctx.hsize, ctx.halign, box_size, box_align, off, free.0, free.1, decl.0, decl.1, side, verdict
    )
    .unwrap();
}

fn emit(ctx: &mut Ctx, o: &dyn Obj, route: &str, m: &Meas, bad: &[String]) {
    emit_line(
        ctx, &o.name(), route, o.tsize(), o.talign(), m.box_size, m.box_align, m.off,
        (m.free_size, m.free_align), m.decl, m.side_allocs, bad,
    );
    // the Holder node created for the cycle route is one more payload layout: report it too
    if let Some((info, ab, fb)) = &m.holder {
        if route == "cycle" || route == "cycle_md" || route == "cycle_md+weak_first" {
            let prefix = if route == "cycle" { "holder" } else { "holdermd" };
            let mut hbad: Vec<String> = Vec::new();
            if (ab.size, ab.align) != info.decl || info.layout != info.decl {
                hbad.push("alloc_layout_differs_from_size_of".into());
            }
            if info.elem % info.talign != 0 {
                hbad.push("elem_misaligned".into());
            }
            if *fb != Some(*ab) {
                hbad.push("holder_not_freed_with_alloc_layout".into());
            }
            let f = fb.unwrap_or(lp::Block { ptr: 0, size: 0, align: 0 });
            emit_line(
                ctx, &format!("{}_{}", prefix, o.name()), route, info.tsize, info.talign, ab.size, ab.align,
                Some(info.elem.wrapping_sub(info.base)), (f.size, f.align), info.decl, 0, &hbad,
            );
        }
    }
}

fn probe_dyn(ctx: &mut Ctx, make: fn() -> Box<dyn Obj>) {
    ctx.types += 1;
    // announce the type and flush: if the crate (or a debug assertion of core, e.g. a write through a
    // misaligned pointer) aborts the process, the checker can still name the payload type
    writeln!(ctx.out, "type T={}", make().name()).unwrap();
    ctx.out.flush().unwrap();
    for release in [Release::Drop, Release::Unwrap, Release::Cycle, Release::CycleMd] {
        for weak in [WeakMode::None, WeakMode::WeakFirst, WeakMode::WeakLast] {
            let pat = ctx.next_pattern();
            let mut bad = Vec::new();
            let mut o = make();
            let m = one_route(&mut *o, release, weak, pat, &mut bad);
            let route = format!(
                "{}{}",
                match release {
                    Release::Drop => "drop",
                    Release::Unwrap => "unwrap",
                    Release::Cycle => "cycle",
                    Release::CycleMd => "cycle_md",
                },
                match weak {
                    WeakMode::None => "",
                    WeakMode::WeakFirst => "+weak_first",
                    WeakMode::WeakLast => "+weak_last",
                }
            );
            emit(ctx, &*o, &route, &m, &bad);
        }
    }
    for panics in [false, true] {
        let pat = ctx.next_pattern();
        let mut bad = Vec::new();
        let mut o = make();
        let m = new_cyclic_route(&mut *o, panics, pat, &mut bad);
        emit(ctx, &*o, if panics { "new_cyclic_panic" } else { "new_cyclic" }, &m, &bad);
    }
}

fn probe<T: Payload>(ctx: &mut Ctx) {
    probe_dyn(ctx, mk::<T>);
}

macro_rules! grid {
    ($f:ident, $ty:ident, $ctx:ident; [$($k:literal),*]; $aligns:tt) => {
        $( grid!(@row $f, $ty, $ctx; $k; $aligns); )*
    };
    (@row $f:ident, $ty:ident, $ctx:ident; $k:literal; [$($a:ident),*]) => {
        $( $f::<$ty<$a, $k>>(&mut $ctx); )*
    };
}

fn main() {
    std::panic::set_hook(Box::new(|_| {})); // the panicking new_cyclic closures are expected
    // Payloads of up to 128 KiB aligned to 64 KiB are passed BY VALUE through Cc::new / try_unwrap /
    // new_cyclic (several aligned copies per frame in debug builds): run on a generous stack.
    let code = std::thread::Builder::new()
        .name("layout-probe".into())
        .stack_size(512 << 20)
        .spawn(real_main)
        .expect("cannot spawn the probe thread")
        .join()
        .unwrap_or(3);
    std::process::exit(code);
}

fn real_main() -> i32 {
    let args: Vec<String> = std::env::args().collect();
    let small = args.iter().any(|a| a == "--small");

    // The header hook: elem offset of an align-1 payload = end offset of the header fields;
    // align_of::<CcBox<()>>() = header alignment.
    let (hdr_size_of, halign) = verif::header_layout();
    let unit = Cc::new(());
    let hsize = {
        let r: &() = &unit;
        (r as *const () as usize) - (verif::box_addr(&unit) as usize)
    };
    drop(unit);
    HALIGN.store(halign, std::sync::atomic::Ordering::Relaxed);

    let mut ctx = Ctx {
        hsize,
        halign,
        pattern: (lp::parse_seed(&args) as u8) | 1, // the byte patterns written into the payloads derive from --seed
        lines: 0,
        bad_lines: 0,
        types: 0,
        out: std::io::BufWriter::new(std::io::stdout()),
    };
    writeln!(
        ctx.out,
        "hdr hsize={} halign={} hdr_size_of={} ptr_size={} debug_assertions={}",
        hsize,
        halign,
        hdr_size_of,
        size_of::<usize>(),
        cfg!(debug_assertions)
    )
    .unwrap();

    if small {
        grid!(probe, Plain, ctx; [0, 1, 9, 4096]; [A1, A8, A64, A4096, A65536]);
        grid!(probe, Linked, ctx; [0, 9]; [A1, A4096, A65536]);
    } else {
        grid!(probe, Plain, ctx;
              [0, 1, 2, 3, 7, 8, 9, 15, 16, 24, 31, 33, 100, 255, 1000, 4095, 4096];
              [A1, A2, A4, A8, A16, A32, A64, A128, A256, A512, A1024, A2048, A4096]);
        grid!(probe, Linked, ctx;
              [0, 1, 8, 9, 100, 4096];
              [A1, A4, A8, A16, A64, A512, A4096]);
        // alignments above 4096 (zero-sized, one unit, two units of the alignment)
        grid!(probe, Plain, ctx; [0, 1, 100, 4096]; [A8192, A16384, A65536]);
        grid!(probe, Plain, ctx; [10000]; [A8192]);
        grid!(probe, Plain, ctx; [20000]; [A16384]);
        grid!(probe, Plain, ctx; [70000]; [A65536]);
        grid!(probe, Linked, ctx; [0, 9]; [A8192, A16384, A65536]);
    }

    // nothing of what the probe allocated through the crate may survive
    collect_cycles();
    let buffered = rust_cc::state::buffered_objects_count().unwrap_or(usize::MAX);
    let allocated = rust_cc::state::allocated_bytes().unwrap_or(usize::MAX);
    let ok = ctx.bad_lines == 0 && buffered == 0 && allocated == 0;
    writeln!(
        ctx.out,
        "end types={} lines={} bad={} buffered={} allocated_bytes={} {}",
        ctx.types,
        ctx.lines,
        ctx.bad_lines,
        buffered,
        allocated,
        if ok { "ok" } else { "BAD" }
    )
    .unwrap();
    ctx.out.flush().unwrap();
    (!ok) as i32
}
